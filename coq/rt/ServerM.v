(* C13 - executable model of bqskit/runtime/detached.py : DetachedServer's tables
   (clients, tasks, mailbox_to_task_dict, mailboxes, mailbox_counter) and its
   client-facing / from-below handlers.  No proofs in this file.

   Python dicts are association lists (insertion ordered, first match wins),
   Python sets are duplicate free lists.  Connections, task ids (uuid), mailbox
   ids, results, error texts and log payloads are natural-number tags.

   An exception escaping a handler (KeyError ...) is caught by ServerBase.run,
   which calls handle_system_error and then handle_shutdown: the whole runtime
   goes down.  Here this is the explicit outcome [Cr]; [step] turns it into the
   output marker [OCrash] and a server that is no longer [up].

   The [variant] selects between the handlers of the code as it is ([Cur],
   "current", including defect D4), the repaired handlers of fixes/D4.patch
   ([Fix false], "fixed") and the handlers of fixes/D4.patch + fixes/C13-D15.patch
   ([Fix true], "fixed-drop": a cancelled task is removed from `tasks` and
   `mailbox_to_task_dict` as well, so late ERROR / LOG messages for it are dropped). *)
From Coq Require Import List Arith Bool.
Import ListNotations.

(* ---------------------------------------------------------------- dicts -- *)
Section Dict.
  Variable V : Type.
  Fixpoint get (k : nat) (d : list (nat * V)) : option V :=
    match d with
    | [] => None
    | (k', v) :: r => if k =? k' then Some v else get k r
    end.
  (* d[k] = v : in place when the key exists, appended otherwise *)
  Fixpoint set (k : nat) (v : V) (d : list (nat * V)) : list (nat * V) :=
    match d with
    | [] => [(k, v)]
    | (k', v') :: r => if k =? k' then (k, v) :: r else (k', v') :: set k v r
    end.
  Definition del (k : nat) (d : list (nat * V)) : list (nat * V) :=
    filter (fun p => negb (k =? fst p)) d.
  Definition haskey (k : nat) (d : list (nat * V)) : bool :=
    match get k d with Some _ => true | None => false end.
End Dict.
Arguments get {V}. Arguments set {V}. Arguments del {V}. Arguments haskey {V}.

(* sets *)
Definition mem (t : nat) (ts : list nat) : bool := existsb (Nat.eqb t) ts.
Definition sadd (t : nat) (ts : list nat) : list nat := if mem t ts then ts else ts ++ [t].
Definition srem (t : nat) (ts : list nat) : list nat := filter (fun x => negb (t =? x)) ts.

(* ---------------------------------------------------------------- state -- *)
Inductive cstatus := UNKNOWN | RUNNING | DONE.      (* compiler/status.py *)

Definition box := (option nat * bool)%type.        (* ServerMailbox: result, client_waiting *)

Record state := mkState {
  clients : list (nat * list nat);      (* conn -> set of open task ids *)
  tasks   : list (nat * (nat * nat));   (* task id -> (mailbox id, conn) *)
  m2t     : list (nat * nat);           (* mailbox id -> task id *)
  boxes   : list (nat * box);           (* mailbox id -> ServerMailbox *)
  counter : nat;                        (* mailbox_counter *)
  closed  : list nat;                   (* connections whose .closed is True *)
  up      : bool                        (* ServerBase.running *)
}.

Definition init : state := mkState [] [] [] [] 0 [] true.

Definition with_clients s x := mkState x (tasks s) (m2t s) (boxes s) (counter s) (closed s) (up s).
Definition with_boxes s x := mkState (clients s) (tasks s) (m2t s) x (counter s) (closed s) (up s).
Definition with_tasks s x y := mkState (clients s) x y (boxes s) (counter s) (closed s) (up s).
Definition with_closed s x := mkState (clients s) (tasks s) (m2t s) (boxes s) (counter s) x (up s).
Definition kill s := mkState (clients s) (tasks s) (m2t s) (boxes s) (counter s) (closed s) false.

Inductive event :=
| Connect (c : nat)                 (* listen(): self.clients[client] = set() *)
| Disconnect (c : nat)              (* DISCONNECT message or EOF on a client connection *)
| Submit (c t : nat)                (* SUBMIT   -> handle_new_comp_task *)
| Request (c t : nat)               (* REQUEST  -> handle_request  (Compiler.result) *)
| Status (c t : nat)                (* STATUS   -> handle_status *)
| Cancel (c t : nat)                (* CANCEL   -> handle_cancel_comp_task *)
| Result (mb v : nat)               (* from below: RESULT with return address (-1, mb, 0) *)
| Error (mb m : nat)                (* from below: ERROR (comp_task_id = mb, text m) *)
| Log (mb l : nat).                 (* from below: LOG (comp_task_id = mb, payload l) *)

(* what a handler puts on self.outgoing, in order *)
Inductive out :=
| OSched (mb : nat)                 (* schedule_tasks([RuntimeTask(.., (-1,mb,0), mb, ..)]) *)
| OBcast (mb : nat)                 (* broadcast(CANCEL, RuntimeAddress(-1, mb, 0)) *)
| OResult (c v : nat)               (* (c, RESULT, v) *)
| OStatus (c : nat) (st : cstatus)  (* (c, STATUS, st) *)
| OCancelAck (c : nat)              (* (c, CANCEL, None) *)
| OErrUnknown (c : nat)             (* (c, ERROR, 'Unknown task.') *)
| OError (c m : nat)                (* (c, ERROR, m) *)
| OLog (c l : nat)                  (* (c, LOG, l) *)
| OCrash.                           (* exception reached ServerBase.run: system error + shutdown *)

Inductive variant := Cur | Fix (dc : bool).
Definition is_fix (v : variant) : bool := match v with Cur => false | Fix _ => true end.

Inductive res := Ok (s : state) (o : list out) | Cr (o : list out).

Definition bind (r : res) (f : state -> res) : res :=
  match r with
  | Cr o => Cr o
  | Ok s o => match f s with Ok s' o' => Ok s' (o ++ o') | Cr o' => Cr (o ++ o') end
  end.

Fixpoint foreach {A} (l : list A) (f : A -> state -> res) (s : state) : res :=
  match l with
  | [] => Ok s []
  | x :: r => bind (f x s) (foreach r f)
  end.

(* ------------------------------------------------------------- handlers -- *)

(* handle_new_comp_task *)
Definition new_task (c t : nat) (s : state) : res :=
  let mb := counter s in
  let s1 := mkState (clients s) (set t (mb, c) (tasks s)) (set mb t (m2t s))
                    (set mb (None, false) (boxes s)) (S mb) (closed s) (up s) in
  match get c (clients s1) with
  | None => Cr []                                            (* self.clients[conn] : KeyError *)
  | Some ts => Ok (with_clients s1 (set c (sadd t ts) (clients s1))) [OSched mb]
  end.

Definition ack (c : nat) (s : state) : list out :=
  if mem c (closed s) then [] else [OCancelAck c].

(* handle_cancel_comp_task(request) as it is: no connection argument *)
Definition cancel_cur (t : nat) (s : state) : res :=
  match get t (tasks s) with
  | None => Cr []                                            (* self.tasks[request] *)
  | Some (mb, cc) =>
    match get mb (boxes s) with
    | None => Cr []                                          (* self.mailboxes.pop(mailbox_id) *)
    | Some _ =>
      let s1 := with_boxes s (del mb (boxes s)) in
      match get cc (clients s1) with
      | None => Ok s1 (OBcast mb :: ack cc s1)
      | Some ts =>
        if mem t ts
        then let s2 := with_clients s1 (set cc (srem t ts) (clients s1)) in
             Ok s2 (OBcast mb :: ack cc s2)
        else Cr []                                           (* set.remove : KeyError *)
      end
    end
  end.

(* handle_cancel_comp_task(conn, request) of fixes/D4.patch; with [dc] also fixes/C13-D15.patch:
   mailbox_id = self.tasks.pop(request)[0] ... self.mailbox_to_task_dict.pop(mailbox_id) *)
Definition cancel_fix (dc : bool) (c t : nat) (s : state) : res :=
  match get c (clients s) with
  | None => Cr []
  | Some ts =>
    if mem t ts && haskey t (tasks s) then
      match get t (tasks s) with
      | None => Cr []
      | Some (mb, _) =>
        match get mb (boxes s) with
        | None => Cr []
        | Some _ =>
          let s2 := with_clients (with_boxes s (del mb (boxes s))) (set c (srem t ts) (clients s)) in
          if dc then
            match get mb (m2t s) with
            | None => Cr []
            | Some _ => let s3 := with_tasks s2 (del t (tasks s2)) (del mb (m2t s2)) in
                        Ok s3 (OBcast mb :: ack c s3)
            end
          else Ok s2 (OBcast mb :: ack c s2)
        end
      end
    else Ok s (ack c s)
  end.

(* the tail of handle_disconnect: drop every tasks / mailbox_to_task_dict entry of conn *)
Definition pop_task (p : nat * (nat * nat)) (s : state) : res :=
  let '(t, (mb, _)) := p in
  match get t (tasks s), get mb (m2t s) with
  | Some _, Some _ => Ok (with_tasks s (del t (tasks s)) (del mb (m2t s))) []
  | _, _ => Cr []
  end.

Definition pop_tasks_of (c : nat) (s : state) : res :=
  foreach (filter (fun p => snd (snd p) =? c) (tasks s)) pop_task s.

(* handle_disconnect (super(): unregister + conn.close()) *)
Definition disconnect (v : variant) (c : nat) (s : state) : res :=
  let s1 := with_closed s (c :: closed s) in
  match get c (clients s1) with
  | None => Cr []                                            (* self.clients.pop(conn) / self.clients[conn] *)
  | Some ts =>
    match v with
    | Fix dc =>
      bind (foreach ts (cancel_fix dc c) s1)
           (fun s2 => pop_tasks_of c (with_clients s2 (del c (clients s2))))
    | Cur =>
      bind (foreach ts cancel_cur (with_clients s1 (del c (clients s1))))
           (pop_tasks_of c)
    end
  end.

(* handle_request *)
Definition request (v : variant) (c t : nat) (s : state) : res :=
  match get c (clients s) with
  | None => Cr []
  | Some ts =>
    if negb (mem t ts) || negb (haskey t (tasks s)) then
      bind (Ok s [OErrUnknown c]) (disconnect v c)          (* 'Unknown task.' ; Bad client *)
    else
      match get t (tasks s) with
      | None => Cr []
      | Some (mb, _) =>
        match get mb (boxes s) with
        | None => Cr []
        | Some (Some v, _) =>
          Ok (with_clients (with_boxes s (del mb (boxes s))) (set c (srem t ts) (clients s))) [OResult c v]
        | Some (None, _) => Ok (with_boxes s (set mb (None, true) (boxes s))) []
        end
      end
  end.

(* handle_status: the code as it is has no `return` after answering UNKNOWN *)
Definition status (v : variant) (c t : nat) (s : state) : res :=
  match get c (clients s) with
  | None => Cr []
  | Some ts =>
    let unk := negb (mem t ts) || negb (haskey t (tasks s)) in
    let pre := if unk then [OStatus c UNKNOWN] else [] in
    if unk && is_fix v then Ok s pre
    else
      match get t (tasks s) with
      | None => Cr pre
      | Some (mb, _) =>
        match get mb (boxes s) with
        | None => Cr pre
        | Some (r, _) => Ok s (pre ++ [OStatus c (match r with Some _ => DONE | None => RUNNING end)])
        end
      end
  end.

(* handle_result, return_address.worker_id == -1 *)
Definition result (mb v : nat) (s : state) : res :=
  match get mb (boxes s) with
  | None => Ok s []                                          (* cancelled / delivered: discard *)
  | Some (_, w) =>
    let s1 := with_boxes s (set mb (Some v, w) (boxes s)) in
    match get mb (m2t s1) with
    | None => Cr []
    | Some t =>
      if w then
        match get t (tasks s1) with
        | None => Cr []
        | Some (_, cc) =>
          match get cc (clients s1) with
          | None => Cr [OResult cc v]
          | Some ts =>
            if mem t ts
            then Ok (with_boxes (with_clients s1 (set cc (srem t ts) (clients s1))) (del mb (boxes s1)))
                    [OResult cc v]
            else Cr [OResult cc v]
          end
        end
      else Ok s1 []
    end
  end.

(* handle_error (tuple payload) and handle_log *)
Definition forward (mk : nat -> out) (mb : nat) (s : state) : res :=
  match get mb (m2t s) with
  | None => Ok s []
  | Some t =>
    match get t (tasks s) with
    | None => Cr []
    | Some (_, cc) => Ok s [mk cc]
    end
  end.

Definition handle (v : variant) (e : event) (s : state) : res :=
  match e with
  | Connect c => Ok (with_clients s (set c [] (clients s))) []
  | Disconnect c => disconnect v c s
  | Submit c t => new_task c t s
  | Request c t => request v c t s
  | Status c t => status v c t s
  | Cancel c t => match v with Fix dc => cancel_fix dc c t s | Cur => cancel_cur t s end
  | Result mb v => result mb v s
  | Error mb m => forward (fun c => OError c m) mb s
  | Log mb l => forward (fun c => OLog c l) mb s
  end.

Definition step (v : variant) (s : state) (e : event) : state * list out :=
  if up s then
    match handle v e s with
    | Ok s' o => (s', o)
    | Cr o => (kill s, o ++ [OCrash])
    end
  else (s, []).

(* the run of an event list: final state and the outputs of every event *)
Fixpoint run (v : variant) (s : state) (es : list event) : state * list (list out) :=
  match es with
  | [] => (s, [])
  | e :: r => let '(s1, o) := step v s e in
              let '(s2, os) := run v s1 r in (s2, o :: os)
  end.

(* ------------------------------------------------------- the specification *)
(* Per task id a five state machine; Running remembers whether the owner is
   blocked in Compiler.result().  Kept as total functions so that "the state of
   every id" is literally a function of the id. *)
Inductive tstate := TUnknown | TRunning (waiting : bool) | TDone (v : nat) | TDelivered | TCancelled.

Inductive cstate := CNew | CConnected | CClosed.

Record spec := mkSpec {
  st    : nat -> tstate;          (* task id -> state *)
  owner : nat -> nat;             (* task id -> submitting connection *)
  mbx   : nat -> nat;             (* task id -> mailbox id *)
  tom   : nat -> option nat;      (* mailbox id -> task id (known tasks only) *)
  cst   : nat -> cstate;          (* connection state *)
  count : nat
}.

Definition spec0 : spec :=
  mkSpec (fun _ => TUnknown) (fun _ => 0) (fun _ => 0) (fun _ => None) (fun _ => CNew) 0.

Definition upd {A} (f : nat -> A) (k : nat) (v : A) : nat -> A := fun x => if x =? k then v else f x.

Definition is_open (x : tstate) : bool :=
  match x with TRunning _ | TDone _ => true | _ => false end.

Definition own_open (sp : spec) (c t : nat) : bool := is_open (st sp t) && (owner sp t =? c).

Definition set_st sp t x := mkSpec (upd (st sp) t x) (owner sp) (mbx sp) (tom sp) (cst sp) (count sp).

(* [dc]: a cancelled task is forgotten at once (no ERROR / LOG for it is forwarded any more) *)
Definition forget (sp : spec) (t : nat) : spec :=
  mkSpec (upd (st sp) t TUnknown) (owner sp) (mbx sp) (upd (tom sp) (mbx sp t) None) (cst sp) (count sp).

(* the client is dropped: every task of it is forgotten *)
Definition drop (sp : spec) (c : nat) : spec :=
  mkSpec (fun t => if owner sp t =? c then TUnknown else st sp t) (owner sp) (mbx sp)
         (fun mb => match tom sp mb with
                    | Some t => if owner sp t =? c then None else Some t
                    | None => None end)
         (upd (cst sp) c CClosed) (count sp).

(* answers are the client-visible outputs *)
Definition sstep (dc : bool) (sp : spec) (e : event) : spec * list out :=
  match e with
  | Connect c => (mkSpec (st sp) (owner sp) (mbx sp) (tom sp) (upd (cst sp) c CConnected) (count sp), [])
  | Disconnect c => (drop sp c, [])
  | Submit c t =>
      (mkSpec (upd (st sp) t (TRunning false)) (upd (owner sp) t c) (upd (mbx sp) t (count sp))
              (upd (tom sp) (count sp) (Some t)) (cst sp) (S (count sp)), [])
  | Request c t =>
      if own_open sp c t then
        match st sp t with
        | TDone v => (set_st sp t TDelivered, [OResult c v])
        | _ => (set_st sp t (TRunning true), [])
        end
      else (drop sp c, [OErrUnknown c])
  | Status c t =>
      (sp, [OStatus c (if own_open sp c t
                       then match st sp t with TDone _ => DONE | _ => RUNNING end
                       else UNKNOWN)])
  | Cancel c t =>
      ((if own_open sp c t then (if dc then forget sp t else set_st sp t TCancelled) else sp), [OCancelAck c])
  | Result mb v =>
      match tom sp mb with
      | Some t =>
        match st sp t with
        | TRunning false => (set_st sp t (TDone v), [])
        | TRunning true => (set_st sp t TDelivered, [OResult (owner sp t) v])
        | TDone _ => (set_st sp t (TDone v), [])
        | _ => (sp, [])
        end
      | None => (sp, [])
      end
  | Error mb m => (sp, match tom sp mb with Some t => [OError (owner sp t) m] | None => [] end)
  | Log mb l => (sp, match tom sp mb with Some t => [OLog (owner sp t) l] | None => [] end)
  end.

(* well-formed event in a spec state: what the real server loop can deliver.
   Connections are fresh objects, a request arrives only on a registered
   connection, submitted ids are new (uuid4).  Requests may name ANY id;
   RESULT / ERROR / LOG from below may name any mailbox. *)
Definition cst_is (x y : cstate) : bool :=
  match x, y with CNew, CNew | CConnected, CConnected | CClosed, CClosed => true | _, _ => false end.

Definition wf_ev (sp : spec) (e : event) : bool :=
  match e with
  | Connect c => cst_is (cst sp c) CNew
  | Disconnect c | Request c _ | Status c _ | Cancel c _ => cst_is (cst sp c) CConnected
  | Submit c t => cst_is (cst sp c) CConnected
                  && match st sp t with TUnknown => true | _ => false end
  | Result _ _ | Error _ _ | Log _ _ => true
  end.

Fixpoint srun (dc : bool) (sp : spec) (es : list event) : spec * list (list out) :=
  match es with
  | [] => (sp, [])
  | e :: r => let '(sp1, o) := sstep dc sp e in
              let '(sp2, os) := srun dc sp1 r in (sp2, o :: os)
  end.

Fixpoint wf_run (dc : bool) (sp : spec) (es : list event) : bool :=
  match es with
  | [] => true
  | e :: r => wf_ev sp e && wf_run dc (fst (sstep dc sp e)) r
  end.

Definition is_answer (o : out) : bool :=
  match o with OSched _ | OBcast _ => false | _ => true end.
Definition answers (o : list out) : list out := filter is_answer o.
