From Coq Require Import List Arith Bool PeanoNat Lia Permutation.
Import ListNotations.
From BQ Require Import rt.WorkerM rt.wip_W1 rt.wip_W2 rt.wip_W3 rt.wip_W4 rt.wip_W5 rt.wip_W6 rt.wip_W7 rt.wip_W8 rt.wip_W9 rt.wip_W10 rt.wip_W11 rt.wip_W12 rt.wip_W13 rt.wip_W14 rt.wip_W15 rt.wip_W16.

(* ---------- Part D: at most one pending wake-up (atomic await registration) ---------- *)
Definition armedb (a : addr) (b : mailbox) : bool :=
  match b_dest b with Some d => addr_eqb d a | None => false end && negb (b_ready b).
Definition armedn (a : addr) (b : mailbox) : nat := if armedb a b then 1 else 0.
Fixpoint armed_l (a : addr) (bs : list (nat * mailbox)) : nat :=
  match bs with [] => 0 | (_, b) :: r => armedn a b + armed_l a r end.
Definition armed (a : addr) (w : wstate) : nat := armed_l a (w_boxes w).
Definition qcnt (a : addr) (w : wstate) : nat := cnt a (w_ready w).

Lemma armed_l_app : forall a l1 l2, armed_l a (l1 ++ l2) = armed_l a l1 + armed_l a l2.
Proof. induction l1 as [|[k b] r IH]; simpl; intros; auto. rewrite IH. lia. Qed.
Lemma armed_l_set : forall a m b b0 bs, NoDup (keys bs) -> box_get m bs = Some b0 ->
  armed_l a (box_set m b bs) + armedn a b0 = armed_l a bs + armedn a b.
Proof. induction bs as [|[k b1] r IH]; simpl; intros Hnd Hg; [discriminate|].
  inversion Hnd; subst. destruct (Nat.eqb k m) eqn:E; simpl.
  - injection Hg as ->. lia.
  - specialize (IH H2 Hg). lia. Qed.
Lemma armed_l_del : forall a m b0 bs, NoDup (keys bs) -> box_get m bs = Some b0 ->
  armed_l a (box_del m bs) + armedn a b0 = armed_l a bs.
Proof. induction bs as [|[k b1] r IH]; simpl; intros Hnd Hg; [discriminate|].
  inversion Hnd; subst. destruct (Nat.eqb k m) eqn:E; simpl.
  - injection Hg as ->. lia.
  - specialize (IH H2 Hg). lia. Qed.

Lemma armed_l_pos : forall a bs, armed_l a bs >= 1 -> exists m b, In (m, b) bs /\ armedb a b = true.
Proof. induction bs as [|[k b1] r IH]; simpl; intros H; [lia|].
  unfold armedn in H. destruct (armedb a b1) eqn:E.
  - exists k, b1. auto.
  - destruct IH as (m & b & Hg & Hb); [lia|]. exists m, b. auto. Qed.
Lemma In_box_get : forall m b bs, NoDup (keys bs) -> In (m, b) bs -> box_get m bs = Some b.
Proof. induction bs as [|[k b1] r IH]; simpl; intros Hnd H; [tauto|]. inversion Hnd; subst.
  destruct H as [H|H].
  - injection H as -> ->. rewrite Nat.eqb_refl. auto.
  - destruct (Nat.eqb k m) eqn:E; [b2p; subst; exfalso; apply H2; apply (in_map fst) in H; exact H|auto]. Qed.
Lemma armed_l_ge : forall a m b bs, In (m, b) bs -> armedb a b = true -> armed_l a bs >= 1.
Proof. induction bs as [|[k b1] r IH]; simpl; intros H Hb; [tauto|]. destruct H as [H|H].
  - injection H as -> ->. unfold armedn. rewrite Hb. lia.
  - specialize (IH H Hb). lia. Qed.
Lemma armed_l_eff : forall a es c, armed_l a (eff_boxes c es) = 0.
Proof. induction es as [|sp r IH]; simpl; intros; auto. rewrite IH. destruct sp; reflexivity. Qed.

Definition err_ok (w : wstate) : Prop := forall e, In e (w_errs w) -> e <> EAssertReady /\ e <> EAssertFresh.

Definition steppable (w : wstate) (a : addr) : Prop :=
  forall t m b, task_get a (w_tasks w) = Some t -> t_desired t = Some m -> box_get m (w_boxes w) = Some b ->
    if t_won t then b_fresh b <> None else b_ready b = true.

Record winvD (w : wstate) : Prop := {
  D_pc : plain_pc (w_pc w);
  D_one : forall a, qcnt a w + armed a w <= 1;
  D_alive : forall a, qcnt a w + armed a w >= 1 -> exists t, task_get a (w_tasks w) = Some t;
  D_step : forall a, In a (w_ready w) -> steppable w a;
  D_armed : forall m b a, box_get m (w_boxes w) = Some b -> armedb a b = true ->
              exists t, task_get a (w_tasks w) = Some t /\ t_desired t = Some m;
  D_err : err_ok w
}.

Lemma winvD_w0 : forall j, winvD (w0 j).
Proof. intro j. constructor.
  - exact Logic.I.
  - intro a. unfold qcnt, armed, cnt. simpl. lia.
  - intro a. unfold qcnt, armed, cnt. simpl. lia.
  - intros a [].
  - simpl. intros; discriminate.
  - intros e []. Qed.

Lemma winvD_same : forall w w', w_ready w' = w_ready w -> w_boxes w' = w_boxes w -> w_tasks w' = w_tasks w ->
  w_pc w' = w_pc w -> w_errs w' = w_errs w -> winvD w -> winvD w'.
Proof. intros w w' H1 H2 H3 H4 H5 [K1 K2 K3 K4 K5 K6]. constructor.
  - rewrite H4. auto.
  - intro a. unfold qcnt, armed. rewrite H1, H2. apply K2.
  - intro a. unfold qcnt, armed. rewrite H1, H2, H3. apply K3.
  - intros a Ha. rewrite H1 in Ha. unfold steppable. rewrite H2, H3. apply K4; auto.
  - rewrite H2, H3. apply K5.
  - unfold err_ok. rewrite H5. apply K6. Qed.

Lemma b_ready_mono : forall b slot v b1 ok, deposit b slot v = (b1, ok) -> b_ready b = true -> b_ready b1 = true.
Proof. intros b slot v b1 ok H R. unfold deposit in H. unfold b_ready in *. apply andb_true_iff in R. destruct R as [R1 R2]. b2p.
  destruct (b_single b); [|destruct (Nat.ltb slot (length (b_result b)))]; injection H as <- <-; simpl;
    apply andb_true_iff; split; try (apply Nat.leb_le; lia); reflexivity. Qed.
Lemma deposit_fresh : forall b slot v b1 ok, deposit b slot v = (b1, ok) -> b_fresh b1 <> None.
Proof. intros b slot v b1 ok H. unfold deposit in H.
  destruct (b_single b); [|destruct (Nat.ltb slot (length (b_result b)))]; injection H as <- <-; simpl; discriminate. Qed.

(* a result for a slot that was never deposited cannot arrive at a mailbox that is already complete *)
Lemma deposit_not_ready : forall w m b slot, dep1 w -> boxC w m b -> slot < length (b_expect b) ->
  cnt (mkAddr (me w) m slot) (w_deposited w) = 0 -> b_ready b = false.
Proof. intros w m b slot D C Hs Hz. destruct (b_ready b) eqn:R; auto. exfalso.
  destruct (ready_full w m b D C R) as [_ Hall]. specialize (Hall slot Hs).
  destruct C as (_&_&_&_&_&C6). specialize (C6 slot).
  assert (cntn slot (b_got b) >= 1). { unfold cntn. apply count_occ_In. auto. } lia. Qed.

(* ---- elementary updates ---- *)
Lemma winvD_box_upd : forall w m b b0, winvD w -> NoDup (keys (w_boxes w)) -> box_get m (w_boxes w) = Some b0 ->
  (forall x, armedb x b = true -> armedb x b0 = true) ->
  (b_ready b0 = true -> b_ready b = true) -> (b_fresh b0 <> None -> b_fresh b <> None) ->
  winvD (set_boxes w (box_set m b (w_boxes w))).
Proof.
  intros w m b b0 [K1 K2 K3 K4 K5 K6] Hnd Hg Harm Hr Hf.
  assert (Hle : forall x, armed_l x (box_set m b (w_boxes w)) <= armed_l x (w_boxes w)).
  { intro x. pose proof (armed_l_set x m b b0 _ Hnd Hg) as E. unfold armedn in *.
    destruct (armedb x b) eqn:E1; [rewrite (Harm x E1) in E|]; destruct (armedb x b0); lia. }
  constructor; simpl; auto.
  - intro a. unfold qcnt, armed in *. simpl. specialize (K2 a). specialize (Hle a). lia.
  - intros a Ha. apply K3. unfold qcnt, armed in *. simpl in Ha. specialize (Hle a). lia.
  - intros a Ha t m' b' Ht Hd Hb. simpl in *. destruct (Nat.eq_dec m' m).
    + subst. rewrite box_get_set_same in Hb. injection Hb as <-. specialize (K4 a Ha t m b0 Ht Hd Hg).
      destruct (t_won t); auto.
    + rewrite box_get_set_other in Hb by auto. apply (K4 a Ha t m' b' Ht Hd Hb).
  - intros m' b' a Hb Ha. destruct (Nat.eq_dec m' m).
    + subst. rewrite box_get_set_same in Hb. injection Hb as <-. apply (K5 m b0 a Hg (Harm a Ha)).
    + rewrite box_get_set_other in Hb by auto. apply (K5 m' b' a Hb Ha).
Qed.

Lemma winvD_box_del : forall w m b0, winvD w -> NoDup (keys (w_boxes w)) -> box_get m (w_boxes w) = Some b0 ->
  winvD (set_boxes w (box_del m (w_boxes w))).
Proof.
  intros w m b0 [K1 K2 K3 K4 K5 K6] Hnd Hg.
  assert (Hle : forall x, armed_l x (box_del m (w_boxes w)) <= armed_l x (w_boxes w)).
  { intro x. pose proof (armed_l_del x m b0 _ Hnd Hg). lia. }
  constructor; simpl; auto.
  - intro a. unfold qcnt, armed in *. simpl. specialize (K2 a). specialize (Hle a). lia.
  - intros a Ha. apply K3. unfold qcnt, armed in *. simpl in Ha. specialize (Hle a). lia.
  - intros a Ha t m' b' Ht Hd Hb. simpl in *. destruct (Nat.eq_dec m' m).
    + subst. rewrite box_get_del_same in Hb by auto. discriminate.
    + rewrite box_get_del_other in Hb by auto. apply (K4 a Ha t m' b' Ht Hd Hb).
  - intros m' b' a Hb Ha. destruct (Nat.eq_dec m' m).
    + subst. rewrite box_get_del_same in Hb by auto. discriminate.
    + rewrite box_get_del_other in Hb by auto. apply (K5 m' b' a Hb Ha).
Qed.

Lemma winvD_put : forall w d, winvD w -> qcnt d w + armed d w = 0 ->
  (exists t, task_get d (w_tasks w) = Some t) -> steppable w d -> winvD (put w d).
Proof.
  intros w d [K1 K2 K3 K4 K5 K6] Hz Hal Hst. constructor; simpl; auto.
  - intro a. unfold qcnt, armed in *. simpl. rewrite cnt_app, cnt_single. specialize (K2 a).
    destruct (addr_eqb a d) eqn:E; [apply addr_eqb_eq in E; subst; lia|lia].
  - intros a Ha. unfold qcnt, armed in *. simpl in Ha. rewrite cnt_app, cnt_single in Ha.
    destruct (addr_eqb a d) eqn:E; [apply addr_eqb_eq in E; subst; auto|apply K3; lia].
  - intros a Ha. apply in_app_or in Ha. destruct Ha as [Ha|[<-|[]]]; [apply (K4 a Ha)|exact Hst].
Qed.

Lemma winvD_errs : forall w e, winvD w -> e <> EAssertReady -> e <> EAssertFresh -> winvD (log_err w e).
Proof. intros w e [K1 K2 K3 K4 K5 K6] H1 H2. constructor; auto.
  intros e' He'. simpl in He'. apply in_app_or in He'. destruct He' as [He'|[<-|[]]]; auto. Qed.

Lemma winvD_set_pc : forall w p, plain_pc p -> winvD w -> winvD (set_pc w p).
Proof. intros w p Hp [K1 K2 K3 K4 K5 K6]. constructor; auto. Qed.

(* new, unarmed mailboxes at fresh ids *)
Definition des_lt (w : wstate) : Prop :=
  forall t m, In t (w_tasks w) -> t_desired t = Some m -> m < w_counter w.
Lemma winvV_des_lt : forall w, winvV w -> des_lt w.
Proof. intros w IV t m Ht Hd. destruct (V_tasks w IV t Ht) as (T2 & done & F & _).
  destruct (T2 m Hd) as (f & n & _ & Hf). destruct (Forall2_nth_l _ _ _ _ _ _ _ F Hf) as (sp & _ & (_ & Hlt & _)). exact Hlt. Qed.

Lemma winvD_apply_eff : forall w comp es, winvD w -> des_lt w -> winvD (apply_eff w comp es).
Proof.
  intros w comp es [K1 K2 K3 K4 K5 K6] DL. constructor; simpl; auto.
  - intro a. unfold qcnt, armed in *. simpl. rewrite armed_l_app, armed_l_eff. specialize (K2 a). lia.
  - intros a Ha. apply K3. unfold qcnt, armed in *. simpl in Ha. rewrite armed_l_app, armed_l_eff in Ha. lia.
  - intros a Ha t m b Ht Hd Hb. simpl in *. rewrite box_get_app in Hb.
    destruct (box_get m (w_boxes w)) eqn:E0; [injection Hb as <-; apply (K4 a Ha t m m0 Ht Hd E0)|].
    exfalso. apply box_get_eff_boxes in Hb. destruct Hb as (Hge & _).
    apply task_get_In in Ht. specialize (DL t m Ht Hd). lia.
  - intros m b a Hb Ha. simpl in Hb. rewrite box_get_app in Hb.
    destruct (box_get m (w_boxes w)) eqn:E0; [injection Hb as <-; apply (K5 m m0 a E0 Ha)|].
    exfalso. apply box_get_eff_boxes in Hb. destruct Hb as (_ & sp & _ & ->). destruct sp; discriminate.
Qed.

Lemma resume_D : forall w t sv w' t' y, winvD w -> des_lt w -> resume w t sv = (w', t', y) ->
  winvD w' /\ w_ready w' = w_ready w /\ w_tasks w' = w_tasks w /\ (forall x, armed x w' = armed x w).
Proof.
  intros w t sv w' t' y ID DL H. unfold resume in H.
  assert (Hr : forall w0 t0, winvD w0 -> des_lt w0 -> w_ready w0 = w_ready w -> w_tasks w0 = w_tasks w -> w_boxes w0 = w_boxes w ->
            run (t_rest t) w0 t0 = (w', t', y) ->
            winvD w' /\ w_ready w' = w_ready w /\ w_tasks w' = w_tasks w /\ (forall x, armed x w' = armed x w)).
  { intros w0 t0 I0 D0 R0 T0 B0 Hrun. apply run_exact in Hrun. destruct Hrun as (es & _ & _ & _ & _ & Hw & _). rewrite Hw.
    split; [apply winvD_apply_eff; auto|]. split; [simpl; auto|]. split; [simpl; auto|].
    intro x. unfold armed. simpl. rewrite armed_l_app, armed_l_eff, B0. lia. }
  assert (Hx : raised w t = (w', t', y) ->
            winvD w' /\ w_ready w' = w_ready w /\ w_tasks w' = w_tasks w /\ (forall x, armed x w' = armed x w)).
  { unfold raised. intro E. injection E as <- <- <-. auto. }
  assert (IL : forall l, winvD (set_log w l)) by (intro l; eapply winvD_same; [| | | | |exact ID]; reflexivity).
  destruct (t_pend t); destruct sv; try (apply Hx; exact H);
    (match type of H with run _ ?wl ?tl = _ => apply (Hr wl tl) end; [auto|exact DL|reflexivity|reflexivity|reflexivity|exact H]).
Qed.

(* writing back task a while it is neither queued nor armed *)
Lemma winvD_task_set : forall w t, winvD w -> qcnt (t_addr t) w + armed (t_addr t) w = 0 ->
  winvD (set_tasks w (task_set t (w_tasks w))).
Proof.
  intros w t [K1 K2 K3 K4 K5 K6] Hz. constructor; simpl; auto.
  - intros a Ha. destruct (K3 a Ha) as (t0 & Ht0). destruct (addr_eqb (t_addr t) a) eqn:E.
    + apply addr_eqb_eq in E. subst a. exists t. apply task_get_task_set_same.
    + apply addr_eqb_neq in E. exists t0. rewrite task_get_task_set_other; auto.
  - intros a Ha. destruct (addr_eqb (t_addr t) a) eqn:E.
    + apply addr_eqb_eq in E. subst a. exfalso. unfold qcnt in Hz.
      assert (cnt (t_addr t) (w_ready w) >= 1) by (apply cnt_pos_in; auto). lia.
    + apply addr_eqb_neq in E. unfold steppable. simpl. rewrite task_get_task_set_other by auto. apply (K4 a Ha).
  - intros m b a Hb Ha. simpl in *. destruct (K5 m b a Hb Ha) as (t0 & Ht0 & Hd).
    destruct (addr_eqb (t_addr t) a) eqn:E.
    + apply addr_eqb_eq in E. subst a. exfalso. unfold armed in Hz.
      assert (armed_l (t_addr t) (w_boxes w) >= 1) by (eapply armed_l_ge; [eapply box_get_In; eauto|auto]). lia.
    + apply addr_eqb_neq in E. exists t0. rewrite task_get_task_set_other; auto.
Qed.

Lemma winvD_add_task : forall w t, winvD w -> task_get (t_addr t) (w_tasks w) = None -> t_desired t = None ->
  winvD (add_task w t).
Proof.
  intros w t I Habs Hd.
  assert (Hz : qcnt (t_addr t) w + armed (t_addr t) w = 0).
  { destruct (qcnt (t_addr t) w + armed (t_addr t) w) eqn:E; auto. exfalso.
    destruct (D_alive w I (t_addr t)) as (t0 & Ht0); [lia|congruence]. }
  unfold add_task.
  assert (I1 : winvD (set_started (set_tasks w (task_set t (w_tasks w))) (w_started w ++ [t_addr t]))).
  { eapply winvD_same; [| | | | |apply (winvD_task_set w t I Hz)]; reflexivity. }
  apply winvD_put; auto.
  - exists t. simpl. apply task_get_task_set_same.
  - intros t0 m b Ht0 Hd0 Hb. simpl in Ht0. rewrite task_get_task_set_same in Ht0. injection Ht0 as <-. congruence.
Qed.

Lemma task_get_del_other : forall a x ts, x <> a -> task_get x (task_del a ts) = task_get x ts.
Proof. induction ts as [|t0 r IH]; simpl; intros Hx; auto.
  destruct (addr_eqb (t_addr t0) a) eqn:E1; destruct (addr_eqb (t_addr t0) x) eqn:E2; simpl; rewrite ?E2; auto.
  apply addr_eqb_eq in E1. apply addr_eqb_eq in E2. congruence. Qed.

Lemma winvD_task_del : forall w a, winvD w -> qcnt a w + armed a w = 0 ->
  winvD (set_tasks w (task_del a (w_tasks w))).
Proof.
  intros w a [K1 K2 K3 K4 K5 K6] Hz.
  constructor; simpl; auto.
  - intros x Hx. destruct (K3 x Hx) as (t0 & Ht0). exists t0. rewrite task_get_del_other; auto. intro; subst. unfold qcnt, armed in *. simpl in *. lia.
  - intros x Hx. assert (x <> a). { intro; subst. unfold qcnt in Hz. assert (cnt a (w_ready w) >= 1) by (apply cnt_pos_in; auto). lia. }
    unfold steppable. simpl. rewrite task_get_del_other by auto. apply (K4 x Hx).
  - intros m b x Hb Hx. simpl in *. destruct (K5 m b x Hb Hx) as (t0 & Ht0 & Hd). exists t0. split; auto. rewrite task_get_del_other; auto.
    intro; subst. unfold armed in Hz. assert (armed_l a (w_boxes w) >= 1) by (eapply armed_l_ge; [eapply box_get_In; eauto|auto]). lia.
Qed.
