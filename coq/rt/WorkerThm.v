(* Proofs about the worker / flat-system model of rt/WorkerM.v (property C07); the statements are
   re-exported in props/C07.v.  Parts: 1 lists/counting/effects, 2 run_exact, 3-5 Part A (conservation of
   tasks), 6-11 Part V (values), 12-13 Part B (conservation of results), 14-16 Part C (mailbox accounting,
   complete awaits, next batches), 17-20 Part D (wake-once for atomic registration), then the D7 witness. *)
From Coq Require Import List Arith Bool PeanoNat Lia Permutation.
Import ListNotations.
From BQ Require Import rt.WorkerM.

(* ===== part 1 ===== *)

(* ---------- basic list facts ---------- *)
Lemma dest_eqb_eq : forall x y, dest_eqb x y = true <-> x = y.
Proof. destruct x, y; simpl; split; intro H; try discriminate; try reflexivity.
  - apply Nat.eqb_eq in H; subst; reflexivity.
  - injection H as ->. apply Nat.eqb_refl. Qed.
Lemma addr_eqb_eq : forall x y, addr_eqb x y = true <-> x = y.
Proof. intros [xw xb xs] [yw yb ys]; unfold addr_eqb; simpl. rewrite !andb_true_iff, dest_eqb_eq, !Nat.eqb_eq.
  split; [intros [[-> ->] ->]; reflexivity | intro H; injection H as -> -> ->; auto]. Qed.
Lemma addr_eqb_refl : forall x, addr_eqb x x = true.
Proof. intro; apply addr_eqb_eq; reflexivity. Qed.
Lemma addr_eqb_neq : forall x y, addr_eqb x y = false <-> x <> y.
Proof. intros. rewrite <- addr_eqb_eq. destruct (addr_eqb x y); split; congruence. Qed.
Lemma addr_eqb_sym : forall x y, addr_eqb x y = addr_eqb y x.
Proof. intros. destruct (addr_eqb x y) eqn:E.
  - apply addr_eqb_eq in E; subst. symmetry; apply addr_eqb_refl.
  - symmetry. apply addr_eqb_neq. apply addr_eqb_neq in E. congruence. Qed.

Lemma set_nth_length : forall A n (x : A) l, length (set_nth n x l) = length l.
Proof. induction n; destruct l; simpl; auto. Qed.
Lemma nth_error_set_nth_eq : forall A n (x : A) l, n < length l -> nth_error (set_nth n x l) n = Some x.
Proof. induction n; destruct l; simpl; intros; try lia; auto. apply IHn; lia. Qed.
Lemma nth_error_set_nth_neq : forall A n m (x : A) l, n <> m -> nth_error (set_nth n x l) m = nth_error l m.
Proof. induction n; destruct l, m; simpl; intros; try congruence; auto. Qed.
Lemma nth_error_set_nth : forall A n m (x y : A) l, nth_error (set_nth n x l) m = Some y ->
  (n = m /\ y = x /\ n < length l) \/ (n <> m /\ nth_error l m = Some y).
Proof. intros. destruct (Nat.eq_dec n m).
  - subst. left. assert (m < length l).
    { assert (Hl : m < length (set_nth m x l)) by (apply nth_error_Some; congruence).
      rewrite set_nth_length in Hl. exact Hl. }
    rewrite nth_error_set_nth_eq in H by auto. injection H as <-. auto.
  - right. rewrite nth_error_set_nth_neq in H; auto. Qed.
Lemma In_set_nth : forall A n (x y : A) l, In y (set_nth n x l) -> y = x \/ In y l.
Proof. induction n; destruct l; simpl; intros; auto.
  - destruct H; auto.
  - destruct H; auto. apply IHn in H. tauto. Qed.

Lemma NoDup_app_intro : forall A (l1 l2 : list A), NoDup l1 -> NoDup l2 -> (forall x, In x l1 -> In x l2 -> False) -> NoDup (l1 ++ l2).
Proof. induction l1; simpl; intros; auto. inversion H; subst. constructor.
  - intro Hin. apply in_app_or in Hin. destruct Hin; auto. eapply H1; eauto.
  - apply IHl1; auto. intros. eapply H1; eauto. Qed.

(* sums *)
Fixpoint sumf {A} (f : A -> nat) (l : list A) : nat := match l with [] => 0 | x :: r => f x + sumf f r end.
Lemma sumf_app : forall A (f : A -> nat) l1 l2, sumf f (l1 ++ l2) = sumf f l1 + sumf f l2.
Proof. induction l1; simpl; intros; auto. rewrite IHl1. lia. Qed.
Lemma sumf_set_nth : forall A (f : A -> nat) i x y l, nth_error l i = Some x ->
  sumf f (set_nth i y l) + f x = sumf f l + f y.
Proof. induction i; destruct l; simpl; intros; try discriminate.
  - injection H as ->. lia.
  - specialize (IHi x y l H). lia. Qed.
Lemma sumf_zero : forall A (f : A -> nat) l, (forall x, In x l -> f x = 0) -> sumf f l = 0.
Proof. induction l; simpl; intros; [reflexivity|]. rewrite (H a) by auto. rewrite IHl; auto. Qed.
Lemma sumf_ext : forall A (f g : A -> nat) l, (forall x, In x l -> f x = g x) -> sumf f l = sumf g l.
Proof. induction l; simpl; intros; [reflexivity|]. rewrite (H a) by auto. rewrite IHl; auto. Qed.
Lemma sumf_map : forall A B (g : A -> B) (f : B -> nat) l, sumf f (map g l) = sumf (fun x => f (g x)) l.
Proof. induction l; simpl; auto. Qed.
Lemma sumf_ge : forall A (f : A -> nat) l x, In x l -> f x <= sumf f l.
Proof. induction l; simpl; intros; [tauto|]. destruct H; [subst; lia|]. apply IHl in H. lia. Qed.

(* counting addresses *)
Definition cnt (a : addr) (l : list addr) : nat := length (filter (addr_eqb a) l).
Lemma cnt_app : forall a l1 l2, cnt a (l1 ++ l2) = cnt a l1 + cnt a l2.
Proof. intros. unfold cnt. rewrite filter_app, app_length. reflexivity. Qed.
Lemma cnt_cons : forall a x l, cnt a (x :: l) = (if addr_eqb a x then 1 else 0) + cnt a l.
Proof. intros. unfold cnt. simpl. destruct (addr_eqb a x); reflexivity. Qed.
Lemma cnt_nil : forall a, cnt a [] = 0. Proof. reflexivity. Qed.
Lemma cnt_zero_notin : forall a l, cnt a l = 0 <-> ~ In a l.
Proof. induction l; simpl; [tauto|]. rewrite cnt_cons. destruct (addr_eqb a a0) eqn:E.
  - apply addr_eqb_eq in E. subst. split; [discriminate | intro H; exfalso; apply H; auto].
  - apply addr_eqb_neq in E. simpl. rewrite IHl. split; [intros H [H1|H1]; congruence | tauto]. Qed.
Lemma cnt_pos_in : forall a l, cnt a l >= 1 <-> In a l.
Proof. intros. destruct (cnt a l) eqn:E.
  - apply cnt_zero_notin in E. split; [lia | tauto].
  - split; [|lia]. intros _. destruct (in_dec (fun x y => match Bool.bool_dec (addr_eqb x y) true with
        left e => left (proj1 (addr_eqb_eq x y) e) | right n => right (fun e => n (proj2 (addr_eqb_eq x y) e)) end) a l); auto.
    apply cnt_zero_notin in n0. lia. Qed.
Lemma cnt_le1_NoDup : forall l, (forall a, cnt a l <= 1) -> NoDup l.
Proof. induction l; intros; constructor.
  - specialize (H a). rewrite cnt_cons, addr_eqb_refl in H. apply cnt_zero_notin. lia.
  - apply IHl. intro b. specialize (H b). rewrite cnt_cons in H. lia. Qed.
Lemma cnt_perm : forall a l1 l2, Permutation l1 l2 -> cnt a l1 = cnt a l2.
Proof. induction 1; rewrite ?cnt_cons in *; simpl; try lia. Qed.

(* ---------- exact effect of a coroutine segment ---------- *)
Inductive fspec := FSub (c : script) | FMap (cs : list script).
Definition kids (sp : fspec) : list script := match sp with FSub c => [c] | FMap cs => cs end.
Definition spec_box (sp : fspec) : mailbox :=
  match sp with FSub c => new_box_single [ret_of c] | FMap cs => new_box_multi (length cs) (map ret_of cs) end.
Definition spec_msg (me : dest) (comp m : nat) (sp : fspec) : msg :=
  match sp with
  | FSub c => MSubmit (new_task (mkAddr me m 0) comp c)
  | FMap cs => MSubmitBatch (mk_children me m comp 0 cs)
  end.
Fixpoint eff_boxes (c : nat) (es : list fspec) : list (nat * mailbox) :=
  match es with [] => [] | sp :: r => (c, spec_box sp) :: eff_boxes (S c) r end.
Fixpoint eff_msgs (me : dest) (comp c : nat) (es : list fspec) : list msg :=
  match es with [] => [] | sp :: r => spec_msg me comp c sp :: eff_msgs me comp (S c) r end.
Fixpoint eff_futs (c : nat) (es : list fspec) : list (nat * nat) :=
  match es with [] => [] | sp :: r => (c, length (kids sp)) :: eff_futs (S c) r end.
Fixpoint eff_tasks (me : dest) (comp c : nat) (es : list fspec) : list task :=
  match es with [] => [] | sp :: r => mk_children me c comp 0 (kids sp) ++ eff_tasks me comp (S c) r end.

Definition apply_eff (w : wstate) (comp : nat) (es : list fspec) : wstate :=
  mkW (w_id w) (w_tasks w) (w_delayed w) (w_ready w) (w_boxes w ++ eff_boxes (w_counter w) es)
      (w_counter w + length es) (w_recent w) (w_pc w) (w_out w ++ eff_msgs (me w) comp (w_counter w) es)
      (w_rdead w) (w_log w) (w_started w) (w_finished w)
      (w_created w ++ map t_addr (eff_tasks (me w) comp (w_counter w) es))
      (w_deposited w) (w_dropped w) (w_stuck w) (w_errs w) (w_oos w).
Definition t_eff (t : task) (c : nat) (es : list fspec) (rest : script) (p : pend) (n : nat) : task :=
  mkTask (t_addr t) (t_comp t) (t_script t) rest (t_futs t ++ eff_futs c es) p n (t_desired t) (t_won t)
         (t_owned t ++ seq c (length es)).

Fixpoint specs_of (s : script) : list fspec :=
  match s with
  | [] => []
  | Submit c :: r => FSub c :: specs_of r
  | Map cs :: r => FMap cs :: specs_of r
  | _ :: r => specs_of r
  end.
Lemma specs_of_app : forall s1 s2, specs_of (s1 ++ s2) = specs_of s1 ++ specs_of s2.
Proof. induction s1 as [|c r IH]; simpl; intros; auto. destruct c; simpl; rewrite ?IH; auto. Qed.

Lemma apply_eff_nil : forall w comp, apply_eff w comp [] = w.
Proof. intros. destruct w. unfold apply_eff. simpl. rewrite !app_nil_r, Nat.add_0_r. reflexivity. Qed.
Lemma apply_eff_cons : forall w comp sp es,
  apply_eff (apply_eff w comp [sp]) comp es = apply_eff w comp (sp :: es).
Proof. intros. destruct w. unfold apply_eff, me. simpl.
  rewrite !Nat.add_1_r, !app_nil_r, map_app. rewrite <- !app_assoc. simpl.
  f_equal. lia. Qed.
Lemma t_eff_nil : forall t c, t_eff t c [] (t_rest t) (t_pend t) (t_cnt t) = t.
Proof. intros. destruct t. unfold t_eff. simpl. rewrite !app_nil_r. reflexivity. Qed.

Definition pend_fut (p : pend) : option nat :=
  match p with PendNone => None | PendAwait f | PendNext f | PendNextAll f => Some f end.

Lemma do_submit_eff : forall w t c, do_submit w t c =
  (apply_eff w (t_comp t) [FSub c], t_eff t (w_counter w) [FSub c] (t_rest t) (t_pend t) (t_cnt t)).
Proof. intros. unfold do_submit, apply_eff, t_eff, send. destruct w, t. simpl.
  rewrite !Nat.add_1_r. reflexivity. Qed.
Lemma do_map_eff : forall w t cs, do_map w t cs =
  (apply_eff w (t_comp t) [FMap cs], t_eff t (w_counter w) [FMap cs] (t_rest t) (t_pend t) (t_cnt t)).
Proof. intros. unfold do_map, apply_eff, t_eff, send. destruct w, t. simpl.
  rewrite !app_nil_r. rewrite !Nat.add_1_r. reflexivity. Qed.

Lemma t_eff_cons : forall t c sp es r p n,
  t_eff (t_eff t c [sp] (t_rest t) (t_pend t) (t_cnt t)) (S c) es r p n = t_eff t c (sp :: es) r p n.
Proof. intros. destruct t. unfold t_eff. simpl. rewrite <- !app_assoc. reflexivity. Qed.

Ltac b2p := repeat match goal with
 | H : (_ =? _) = true |- _ => apply Nat.eqb_eq in H
 | H : (_ =? _) = false |- _ => apply Nat.eqb_neq in H
 | H : (_ <=? _) = true |- _ => apply Nat.leb_le in H
 | H : (_ <=? _) = false |- _ => apply Nat.leb_gt in H
 | H : (_ <? _) = true |- _ => apply Nat.ltb_lt in H
 | H : (_ <? _) = false |- _ => apply Nat.ltb_ge in H end.

(* ===== part 2 ===== *)

Lemma ret_of_cons_nonret : forall c r, (forall v, c <> Return v) -> ret_of (c :: r) = ret_of r.
Proof. intros. destruct c; simpl; auto. exfalso. eapply H; eauto. Qed.

(* what one coroutine segment does: it consumes a prefix of `rest`, creating the futures `es` *)
Definition run_post (rest : script) (w : wstate) (t : task) (w' : wstate) (t' : task) (y : yield) : Prop :=
  exists es consumed tail, rest = consumed ++ tail /\ specs_of consumed = es
   /\ w' = apply_eff w (t_comp t) es
   /\ t' = t_eff t (w_counter w) es (t_rest t') (t_pend t') (t_cnt t')
   /\ (y <> YRaise -> tail = t_rest t' /\ ret_of rest = ret_of tail)
   /\ (forall m nxt, y = YAwait m nxt ->
           (exists f n, pend_fut (t_pend t') = Some f /\ nth_error (t_futs t') f = Some (m, n)
                           /\ (t_pend t' = PendAwait f <-> nxt = false))
           /\ (nxt = true -> has_box w' m = true))
   /\ (forall v, y = YReturn v -> v = ret_of rest)
   /\ (y = YRaise -> t_rest t' = [Dead]).

Lemma t_eff_nil' : forall t c r p n,
  t_eff t c [] r p n = mkTask (t_addr t) (t_comp t) (t_script t) r (t_futs t) p n (t_desired t) (t_won t) (t_owned t).
Proof. intros. unfold t_eff. simpl. rewrite !app_nil_r. reflexivity. Qed.

Lemma run_post_nil_eff : forall rest consumed tail w t t' y,
  rest = consumed ++ tail -> specs_of consumed = [] ->
  t' = t_eff t (w_counter w) [] (t_rest t') (t_pend t') (t_cnt t') ->
  (y <> YRaise -> tail = t_rest t' /\ ret_of rest = ret_of tail) ->
  (forall m nxt, y = YAwait m nxt ->
           (exists f n, pend_fut (t_pend t') = Some f /\ nth_error (t_futs t') f = Some (m, n)
                           /\ (t_pend t' = PendAwait f <-> nxt = false))
           /\ (nxt = true -> has_box w m = true)) ->
  (forall v, y = YReturn v -> v = ret_of rest) ->
  (y = YRaise -> t_rest t' = [Dead]) ->
  run_post rest w t w t' y.
Proof. intros. exists [], consumed, tail. rewrite apply_eff_nil. auto 12. Qed.

Lemma run_post_step : forall c rest' w t sp w' t' y,
  (forall v, c <> Return v) -> specs_of [c] = [sp] ->
  run_post rest' (apply_eff w (t_comp t) [sp]) (t_eff t (w_counter w) [sp] (t_rest t) (t_pend t) (t_cnt t)) w' t' y ->
  run_post (c :: rest') w t w' t' y.
Proof.
  intros c rest' w t sp w' t' y Hc Hsp (es & cons & tail & Hsplit & Hspec & Hw & Ht & Htl & Hy & Hr & He).
  exists (sp :: es), (c :: cons), tail. simpl in Hw, Ht. rewrite Nat.add_1_r in *.
  split; [simpl; rewrite Hsplit; reflexivity|].
  split; [change (c :: cons) with ([c] ++ cons); rewrite specs_of_app, Hsp, Hspec; reflexivity|].
  split; [rewrite Hw; apply apply_eff_cons|].
  split; [rewrite Ht at 1; apply t_eff_cons|].
  split; [|split; [exact Hy|split; [|exact He]]].
  - intro E. destruct (Htl E) as (E1 & E2). split; auto.
    rewrite <- E2. apply ret_of_cons_nonret. auto.
  - intros v E. rewrite (Hr v E). symmetry. apply ret_of_cons_nonret. auto.
Qed.

Ltac run_raise H := unfold raised in H; injection H as <- <- <-;
  eapply (run_post_nil_eff _ [] _); simpl; try reflexivity; try discriminate; auto; try congruence;
  rewrite t_eff_nil'; reflexivity.

Lemma run_exact : forall rest w t w' t' y, run rest w t = (w', t', y) -> run_post rest w t w' t' y.
Proof.
  induction rest as [|c rest' IH]; intros w t w' t' y H.
  - simpl in H. injection H as <- <- <-. eapply (run_post_nil_eff _ [] []); simpl; try reflexivity; try discriminate; auto.
    + rewrite t_eff_nil'. reflexivity.
    + intros v E. injection E as <-. reflexivity.
  - destruct c as [child|children|f|f|f|v|]; cbn [run] in H.
    + rewrite do_submit_eff in H. apply IH in H.
      eapply (run_post_step _ _ _ _ (FSub child)); [intros; discriminate | reflexivity | exact H].
    + destruct children as [|c0 cs].
      * run_raise H.
      * rewrite do_map_eff in H. apply IH in H.
        eapply (run_post_step _ _ _ _ (FMap (c0 :: cs))); [intros; discriminate | reflexivity | exact H].
    + destruct (nth_error (t_futs t) f) as [[m n]|] eqn:E; [|run_raise H].
      injection H as <- <- <-. eapply (run_post_nil_eff _ [Await f] rest'); simpl; try reflexivity; try discriminate; auto.
      * rewrite t_eff_nil'. reflexivity.
      * intros m' nxt E'. injection E' as <- <-. split; [|discriminate].
        exists f, n. simpl. repeat split; auto.
    + destruct (nth_error (t_futs t) f) as [[m n]|] eqn:E; [|run_raise H].
      destruct (has_box w m) eqn:Hb; [|run_raise H].
      injection H as <- <- <-. eapply (run_post_nil_eff _ [Next f] rest'); simpl; try reflexivity; try discriminate; auto.
      * rewrite t_eff_nil'. reflexivity.
      * intros m' nxt E'. injection E' as <- <-. split; auto.
        exists f, n. simpl. repeat split; auto; discriminate.
    + destruct (nth_error (t_futs t) f) as [[m n]|] eqn:E; [|run_raise H].
      destruct (Nat.leb n (t_cnt t)) eqn:Hle.
      * apply IH in H. destruct H as (es & cons & tail & Hsplit & Hspec & Hw & Ht & Htl & Hy & Hr & He).
        exists es, (NextAll f :: cons), tail.
        split; [simpl; rewrite Hsplit; reflexivity|]. split; [exact Hspec|].
        split; [exact Hw|]. split; [exact Ht|]. split; [|split; [exact Hy|split; [|exact He]]].
        -- intro E'. destruct (Htl E') as (E1 & E2). split; auto.
        -- intros v E'. rewrite (Hr v E'). reflexivity.
      * destruct (has_box w m) eqn:Hb; [|run_raise H].
        injection H as <- <- <-. eapply (run_post_nil_eff _ [] (NextAll f :: rest')); simpl; try reflexivity; try discriminate; auto.
        -- rewrite t_eff_nil'. reflexivity.
        -- intros m' nxt E'. injection E' as <- <-. split; auto.
           exists f, n. simpl. repeat split; auto; discriminate.
    + injection H as <- <- <-. eapply (run_post_nil_eff _ [] (Return v :: rest')); simpl; try reflexivity; try discriminate; auto.
      * rewrite t_eff_nil'. reflexivity.
      * intros v' E. injection E as <-. reflexivity.
    + run_raise H.
Qed.

(* ===== part 3 ===== *)

(* ---------- where tasks are ---------- *)
Definition msg_tasks (m : msg) : list task :=
  match m with MSubmit t => [t] | MSubmitBatch ts => ts | _ => [] end.
Definition chan_tasks (q : list msg) : list task := flat_map msg_tasks q.
Definition w_held (w : wstate) : list task := chan_tasks (w_out w) ++ w_delayed w ++ w_tasks w.
Definition tcnt (a : addr) (l : list task) : nat := cnt a (map t_addr l).

Lemma tcnt_app : forall a l1 l2, tcnt a (l1 ++ l2) = tcnt a l1 + tcnt a l2.
Proof. intros. unfold tcnt. rewrite map_app, cnt_app. reflexivity. Qed.
Lemma tcnt_cons : forall a t l, tcnt a (t :: l) = (if addr_eqb a (t_addr t) then 1 else 0) + tcnt a l.
Proof. intros. unfold tcnt. simpl. apply cnt_cons. Qed.
Lemma tcnt_nil : forall a, tcnt a [] = 0. Proof. reflexivity. Qed.
Lemma chan_tasks_app : forall q1 q2, chan_tasks (q1 ++ q2) = chan_tasks q1 ++ chan_tasks q2.
Proof. intros. unfold chan_tasks. apply flat_map_app. Qed.
Lemma chan_tasks_cons : forall m q, chan_tasks (m :: q) = msg_tasks m ++ chan_tasks q.
Proof. reflexivity. Qed.

(* dict operations on _tasks *)
Lemma task_get_Some : forall a ts t, task_get a ts = Some t -> t_addr t = a /\ In t ts.
Proof. induction ts as [|t0 r IH]; simpl; intros; [discriminate|].
  destruct (addr_eqb (t_addr t0) a) eqn:E.
  - injection H as <-. apply addr_eqb_eq in E. auto.
  - apply IH in H. tauto. Qed.
Lemma task_get_None_tcnt : forall a ts, task_get a ts = None <-> tcnt a ts = 0.
Proof. induction ts as [|t0 r IH]; simpl; [tauto|]. rewrite tcnt_cons, (addr_eqb_sym a).
  destruct (addr_eqb (t_addr t0) a); [split; [discriminate|lia] | simpl; exact IH]. Qed.
Lemma task_get_Some_tcnt : forall a ts t, task_get a ts = Some t -> tcnt a ts >= 1.
Proof. intros. destruct (tcnt a ts) eqn:E; [|lia]. apply task_get_None_tcnt in E. congruence. Qed.
Lemma task_set_absent : forall t ts, task_get (t_addr t) ts = None -> task_set t ts = ts ++ [t].
Proof. induction ts as [|t0 r IH]; simpl; intros; auto.
  destruct (addr_eqb (t_addr t0) (t_addr t)); [discriminate|]. rewrite IH; auto. Qed.
Lemma task_set_present_addrs : forall t ts t0, task_get (t_addr t) ts = Some t0 ->
  map t_addr (task_set t ts) = map t_addr ts.
Proof. induction ts as [|t1 r IH]; simpl; intros; [discriminate|].
  destruct (addr_eqb (t_addr t1) (t_addr t)) eqn:E.
  - simpl. apply addr_eqb_eq in E. congruence.
  - simpl. f_equal. eapply IH; eauto. Qed.
Lemma tcnt_task_set_present : forall x t ts t0, task_get (t_addr t) ts = Some t0 -> tcnt x (task_set t ts) = tcnt x ts.
Proof. intros. unfold tcnt. erewrite task_set_present_addrs; eauto. Qed.
Lemma tcnt_task_del : forall x a ts t, task_get a ts = Some t ->
  tcnt x (task_del a ts) + (if addr_eqb x a then 1 else 0) = tcnt x ts.
Proof. induction ts as [|t0 r IH]; simpl; intros; [discriminate|].
  rewrite tcnt_cons. destruct (addr_eqb (t_addr t0) a) eqn:E.
  - apply addr_eqb_eq in E. subst. lia.
  - rewrite tcnt_cons. specialize (IH _ H). lia. Qed.
Lemma task_get_task_set_same : forall t ts, task_get (t_addr t) (task_set t ts) = Some t.
Proof. induction ts as [|t0 r IH]; simpl.
  - rewrite addr_eqb_refl. reflexivity.
  - destruct (addr_eqb (t_addr t0) (t_addr t)) eqn:E; simpl.
    + rewrite addr_eqb_refl. reflexivity.
    + rewrite E. exact IH. Qed.
Lemma task_get_task_set_other : forall a t ts, t_addr t <> a -> task_get a (task_set t ts) = task_get a ts.
Proof. induction ts as [|t0 r IH]; simpl; intros.
  - apply addr_eqb_neq in H. rewrite H. reflexivity.
  - destruct (addr_eqb (t_addr t0) (t_addr t)) eqn:E; simpl.
    + apply addr_eqb_eq in E. rewrite E. apply addr_eqb_neq in H. rewrite H. reflexivity.
    + destruct (addr_eqb (t_addr t0) a); auto. Qed.

Lemma last_opt_removelast : forall A (l : list A) x, last_opt l = Some x -> l = removelast l ++ [x].
Proof. induction l as [|y r IH]; intros; [discriminate|]. destruct r as [|z r].
  - simpl in H. injection H as ->. reflexivity.
  - change (last_opt (y :: z :: r)) with (last_opt (z :: r)) in H.
    change (removelast (y :: z :: r)) with (y :: removelast (z :: r)). simpl. f_equal. apply IH. exact H. Qed.
Lemma last_opt_None : forall A (l : list A), last_opt l = None -> l = [].
Proof. induction l as [|y r IH]; simpl; intros; auto. destruct r; [discriminate|]. apply IH in H. discriminate. Qed.

(* children of a map *)
Lemma dest_eqb_sym' : forall x y, dest_eqb x y = dest_eqb y x.
Proof. destruct x, y; simpl; auto. apply Nat.eqb_sym. Qed.
Lemma mk_children_addrs : forall w m comp cs i x,
  cnt x (map t_addr (mk_children w m comp i cs)) =
  if dest_eqb (a_w x) w && Nat.eqb (a_box x) m && Nat.leb i (a_slot x) && Nat.ltb (a_slot x) (i + length cs) then 1 else 0.
Proof. induction cs as [|c r IH]; intros; simpl.
  - destruct (dest_eqb (a_w x) w && Nat.eqb (a_box x) m && Nat.leb i (a_slot x)) eqn:E; simpl; auto.
    destruct (Nat.ltb (a_slot x) (i + 0)) eqn:E2; auto. apply Nat.ltb_lt in E2.
    rewrite !andb_true_iff in E. destruct E as [_ E]. apply Nat.leb_le in E. lia.
  - rewrite cnt_cons, IH. unfold addr_eqb, new_task. cbn [t_addr a_w a_box a_slot].
    rewrite (dest_eqb_sym' (a_w x) w).
    destruct (dest_eqb w (a_w x)); cbn [andb]; auto. destruct (Nat.eqb (a_box x) m); cbn [andb]; auto.
    destruct (a_slot x =? i) eqn:E1, (S i <=? a_slot x) eqn:E2, (i <=? a_slot x) eqn:E3,
      (a_slot x <? S i + length r) eqn:E4, (a_slot x <? i + S (length r)) eqn:E5; cbn [andb]; try reflexivity;
      exfalso; b2p; lia. Qed.

Lemma mk_children_In : forall w m comp cs i t, In t (mk_children w m comp i cs) ->
  a_w (t_addr t) = w /\ a_box (t_addr t) = m /\ t_comp t = comp /\
  exists j c, nth_error cs j = Some c /\ t = new_task (mkAddr w m (i + j)) comp c.
Proof. induction cs as [|c r IH]; simpl; intros; [tauto|]. destruct H.
  - subst. simpl. repeat split; auto. exists 0, c. rewrite Nat.add_0_r. auto.
  - apply IH in H. destruct H as (H1 & H2 & H3 & j & c' & H4 & H5). repeat split; auto.
    exists (S j), c'. rewrite Nat.add_succ_r. auto. Qed.

Lemma eff_tasks_In : forall me comp es c t, In t (eff_tasks me comp c es) ->
  a_w (t_addr t) = me /\ c <= a_box (t_addr t) < c + length es /\ t_comp t = comp.
Proof. induction es as [|sp r IH]; simpl; intros; [tauto|]. apply in_app_or in H. destruct H.
  - apply mk_children_In in H. destruct H as (H1 & H2 & H3 & _). repeat split; auto; lia.
  - apply IH in H. destruct H as (H1 & H2 & H3). repeat split; auto; lia. Qed.

Lemma eff_tasks_cnt_le1 : forall me comp es c x, tcnt x (eff_tasks me comp c es) <= 1.
Proof. induction es as [|sp r IH]; simpl; intros; [rewrite tcnt_nil; lia|].
  rewrite tcnt_app. unfold tcnt at 1. rewrite mk_children_addrs.
  destruct (dest_eqb (a_w x) me && Nat.eqb (a_box x) c && Nat.leb 0 (a_slot x) && Nat.ltb (a_slot x) (0 + length (kids sp))) eqn:E.
  - assert (tcnt x (eff_tasks me comp (S c) r) = 0); [|lia].
    unfold tcnt. apply cnt_zero_notin. intro Hin. apply in_map_iff in Hin. destruct Hin as (t & Ht & Hin).
    apply eff_tasks_In in Hin. rewrite !andb_true_iff in E. destruct E as [[[_ E] _] _]. apply Nat.eqb_eq in E. subst x. lia.
  - specialize (IH (S c) x). lia. Qed.

Lemma chan_tasks_eff_msgs : forall me comp es c, chan_tasks (eff_msgs me comp c es) = eff_tasks me comp c es.
Proof. induction es as [|sp r IH]; intros; [reflexivity|]. cbn [eff_msgs eff_tasks]. rewrite chan_tasks_cons, IH. destruct sp; reflexivity. Qed.

(* ===== part 4 ===== *)

(* ---------- Part A: frame facts ---------- *)
Definition sameA (w w' : wstate) : Prop :=
  w_id w' = w_id w /\ map t_addr (w_tasks w') = map t_addr (w_tasks w) /\ w_delayed w' = w_delayed w /\
  chan_tasks (w_out w') = chan_tasks (w_out w) /\ w_created w' = w_created w /\
  w_finished w' = w_finished w /\ w_started w' = w_started w /\ w_counter w' = w_counter w.
Lemma sameA_refl : forall w, sameA w w. Proof. intro; repeat split; reflexivity. Qed.
Lemma sameA_trans : forall a b c, sameA a b -> sameA b c -> sameA a c.
Proof. unfold sameA. intros a b c (H1&H2&H3&H4&H5&H6&H7&H8) (G1&G2&G3&G4&G5&G6&G7&G8).
  repeat split; congruence. Qed.
Lemma sameA_send : forall w m, msg_tasks m = [] -> sameA w (send w m).
Proof. intros. unfold send. repeat split; try reflexivity. simpl. rewrite chan_tasks_app. simpl. rewrite H. simpl. apply app_nil_r. Qed.

Ltac sameA_tac := repeat split; try reflexivity.

Lemma handle_result_A : forall w a v w1 ok, handle_result w a v = (w1, ok) -> sameA w w1.
Proof. intros w a v w1 ok H. unfold handle_result in H.
  destruct (negb (dest_eqb (a_w a) (me w))); [injection H as <- <-; sameA_tac|].
  destruct (box_get (a_box a) (w_boxes w)) as [b|]; [|injection H as <- <-; sameA_tac].
  destruct (deposit b (a_slot a) v) as [b1 ok1]. destruct (negb ok1); [injection H as <- <-; sameA_tac|].
  destruct (b_dest b1) as [d|]; [|injection H as <- <-; sameA_tac].
  cbn [w_tasks set_deposited set_boxes] in H.
  destruct (task_get d (w_tasks w)) as [t|]; [|injection H as <- <-; sameA_tac].
  destruct (t_won t || b_ready b1); injection H as <- <-; sameA_tac. Qed.

Lemma cancel_msgs_tasks : forall w m n i, chan_tasks (cancel_msgs w m i n) = [].
Proof. induction n; simpl; intros; auto. Qed.

Lemma close_boxes_A : forall owned w w1 ok, close_boxes owned w = (w1, ok) -> sameA w w1.
Proof. induction owned as [|m r IH]; simpl; intros w w1 ok H.
  - injection H as <- <-. apply sameA_refl.
  - idtac.
    destruct (box_get m (w_boxes w)) as [b|]; [|injection H as <- <-; sameA_tac].
    destruct (b_ready b).
    + apply IH in H. eapply sameA_trans; [|exact H]. sameA_tac.
    + apply IH in H. eapply sameA_trans; [|exact H]. sameA_tac.
      simpl. rewrite chan_tasks_app, cancel_msgs_tasks. apply app_nil_r. Qed.

Lemma desired_result_A : forall w t w1 t1 sv, desired_result w t = inl (w1, t1, sv) ->
  sameA w w1 /\ t_addr t1 = t_addr t /\ t_comp t1 = t_comp t.
Proof. intros w t w1 t1 sv H. unfold desired_result in H.
  destruct (t_desired t) as [m|]; [|injection H as <- <- <-; split; [apply sameA_refl|auto]].
  destruct (box_get m (w_boxes w)) as [b|]; [|discriminate].
  destruct (t_won t).
  - destruct (b_fresh b); [|discriminate]. injection H as <- <- <-. split; [sameA_tac|auto].
  - destruct (negb (b_ready b)); [discriminate|]. destruct (remove_first m (t_owned t)); [|discriminate].
    injection H as <- <- <-. split; [sameA_tac|auto]. Qed.

(* effect of a segment on the A-view *)
Lemma apply_eff_A : forall w comp es, let w' := apply_eff w comp es in
  w_id w' = w_id w /\ w_tasks w' = w_tasks w /\ w_delayed w' = w_delayed w /\
  chan_tasks (w_out w') = chan_tasks (w_out w) ++ eff_tasks (me w) comp (w_counter w) es /\
  w_created w' = w_created w ++ map t_addr (eff_tasks (me w) comp (w_counter w) es) /\
  w_finished w' = w_finished w /\ w_started w' = w_started w /\ w_counter w' = w_counter w + length es.
Proof. intros. subst w'. unfold apply_eff. simpl. repeat split; auto.
  rewrite chan_tasks_app, chan_tasks_eff_msgs. reflexivity. Qed.

(* per-worker transition summary for the conservation invariant *)
Definition stepA (w w' : wstate) (inc : list task) : Prop :=
  w_id w' = w_id w /\ w_counter w <= w_counter w' /\
  exists news fin,
    (forall x, tcnt x (w_held w') + cnt x (map fst fin) = tcnt x (w_held w) + tcnt x inc + tcnt x news) /\
    w_created w' = w_created w ++ map t_addr news /\
    w_finished w' = w_finished w ++ fin /\
    (forall x, cnt x (w_started w') + tcnt x (w_tasks w) = cnt x (w_started w) + tcnt x (w_tasks w') + cnt x (map fst fin)) /\
    (forall t, In t news -> a_w (t_addr t) = me w /\ w_counter w <= a_box (t_addr t) < w_counter w') /\
    (forall x, tcnt x news <= 1).

Lemma stepA_same : forall w w', sameA w w' -> stepA w w' [].
Proof. intros w w' (H1&H2&H3&H4&H5&H6&H7&H8). split; auto. split; [lia|]. exists [], [].
  unfold w_held, tcnt. rewrite !map_app, H2, H3, H4, H5, H6, H7. simpl. rewrite !app_nil_r.
  repeat split; auto; intros; try rewrite tcnt_nil; try lia; try contradiction. Qed.

Lemma add_task_held : forall w t x, task_get (t_addr t) (w_tasks w) = None ->
  tcnt x (w_tasks (add_task w t)) = tcnt x (w_tasks w) + tcnt x [t].
Proof. intros. unfold add_task, put. simpl. rewrite task_set_absent by auto. apply tcnt_app. Qed.

Lemma cnt_single : forall x a, cnt x [a] = if addr_eqb x a then 1 else 0.
Proof. intros. rewrite cnt_cons, cnt_nil. lia. Qed.

Ltac cnt_tac := intros; unfold w_held, tcnt in *; cbn [map] in *; repeat (rewrite ?map_app, ?cnt_app, ?cnt_nil, ?app_nil_r; cbn [map]); try reflexivity; try lia.

Lemma recv_step_A : forall w m, w_rdead w = false ->
  (forall t, In t (msg_tasks m) -> tcnt (t_addr t) (w_tasks w) = 0) ->
  stepA w (recv_step w m) (msg_tasks m).
Proof.
  intros w m Hd Habs. unfold recv_step. rewrite Hd.
  destruct m as [t|ts|a v c|r| |c| |a]; try solve [apply stepA_same; sameA_tac].
  - (* SUBMIT *)
    simpl in Habs. specialize (Habs t (or_introl eq_refl)). apply task_get_None_tcnt in Habs.
    split; [reflexivity|]. split; [simpl; lia|]. exists [], []. unfold w_held. simpl.
    rewrite task_set_absent by (simpl; auto). simpl.
    repeat split; auto; try (simpl; intros; contradiction); cnt_tac.
  - (* SUBMIT_BATCH *)
    destruct ts as [|t0 r]; [apply stepA_same; sameA_tac|].
    destruct (last_opt (t0 :: r)) as [tl|] eqn:El; [|apply last_opt_None in El; discriminate].
    pose proof (last_opt_removelast _ _ _ El) as Hsplit.
    assert (Hin : In tl (t0 :: r)) by (rewrite Hsplit; apply in_or_app; right; left; reflexivity).
    specialize (Habs tl Hin). apply task_get_None_tcnt in Habs.
    assert (Hc : forall x, tcnt x (t0 :: r) = tcnt x (removelast (t0 :: r)) + tcnt x [tl])
      by (intro; rewrite Hsplit at 1; apply tcnt_app).
    split; [reflexivity|]. split; [simpl; lia|]. exists [], []. unfold w_held.
    cbn [msg_tasks].
    cbn [add_task put set_started set_tasks set_recent set_delayed set_ready w_out w_delayed w_tasks w_created w_finished w_started].
    rewrite task_set_absent by (simpl; auto).
    repeat split; auto; try (simpl; intros; contradiction); intros; rewrite ?Hc; cnt_tac.
  - (* RESULT *)
    destruct (handle_result w a v) as [w1 ok] eqn:E. apply handle_result_A in E.
    apply stepA_same. destruct ok; [exact E|]. eapply sameA_trans; [exact E|]. sameA_tac.
Qed.

Lemma handle_result_tasks : forall w a v w1 ok, handle_result w a v = (w1, ok) -> w_tasks w1 = w_tasks w.
Proof. intros w a v w1 ok H. unfold handle_result in H.
  destruct (negb (dest_eqb (a_w a) (me w))); [injection H as <- <-; reflexivity|].
  destruct (box_get (a_box a) (w_boxes w)) as [b|]; [|injection H as <- <-; reflexivity].
  destruct (deposit b (a_slot a) v) as [b1 ok1]. destruct (negb ok1); [injection H as <- <-; reflexivity|].
  destruct (b_dest b1) as [d|]; [|injection H as <- <-; reflexivity].
  cbn [w_tasks set_deposited set_boxes] in H.
  destruct (task_get d (w_tasks w)) as [t|]; [|injection H as <- <-; reflexivity].
  destruct (t_won t || b_ready b1); injection H as <- <-; reflexivity. Qed.

(* _process_task_completion *)
Lemma complete_A : forall w t v w1 ok t0, task_get (t_addr t) (w_tasks w) = Some t0 ->
  complete w t v = (w1, ok) ->
  sameA w w1 \/
  (w_id w1 = w_id w /\ map t_addr (w_tasks w1) = map t_addr (task_del (t_addr t) (w_tasks w)) /\
   w_delayed w1 = w_delayed w /\ chan_tasks (w_out w1) = chan_tasks (w_out w) /\ w_created w1 = w_created w /\
   w_finished w1 = w_finished w ++ [(t_addr t, v)] /\ w_started w1 = w_started w /\ w_counter w1 = w_counter w).
Proof.
  intros w t v w1 ok t0 Hg H. unfold complete in H.
  destruct (dest_eqb (a_w (t_addr t)) (me w)).
  - destruct (handle_result w (t_addr t) v) as [w' ok'] eqn:E. pose proof (handle_result_A _ _ _ _ _ E) as S1.
    pose proof (handle_result_tasks _ _ _ _ _ E) as S2.
    destruct ok'; cbn [negb] in H.
    + destruct (close_boxes (t_owned t) _) as [w3 ok3] eqn:E3 in H. injection H as <- <-.
      apply close_boxes_A in E3. right.
      destruct S1 as (A1&A2&A3&A4&A5&A6&A7&A8). destruct E3 as (B1&B2&B3&B4&B5&B6&B7&B8).
      cbn [set_finished set_tasks send set_out w_id w_tasks w_delayed w_out w_created w_finished w_started w_counter] in *.
      rewrite chan_tasks_app in B4. simpl in B4. rewrite app_nil_r in B4. rewrite S2 in B2.
      repeat split; congruence.
    + injection H as <- <-. left. exact S1.
  - cbn [negb] in H.
    destruct (close_boxes (t_owned t) _) as [w3 ok3] eqn:E3 in H. injection H as <- <-.
    apply close_boxes_A in E3. right. destruct E3 as (B1&B2&B3&B4&B5&B6&B7&B8).
    cbn [set_finished set_tasks send set_out w_id w_tasks w_delayed w_out w_created w_finished w_started w_counter] in *.
    rewrite chan_tasks_app in B4. simpl in B4. rewrite app_nil_r in B4.
    repeat split; congruence.
Qed.

Lemma desired_result_tasks : forall w t w1 t1 sv, desired_result w t = inl (w1, t1, sv) -> w_tasks w1 = w_tasks w.
Proof. intros w t w1 t1 sv H. unfold desired_result in H.
  destruct (t_desired t) as [m|]; [|injection H as <- <- <-; reflexivity].
  destruct (box_get m (w_boxes w)) as [b|]; [|discriminate].
  destruct (t_won t).
  - destruct (b_fresh b); [|discriminate]. injection H as <- <- <-. reflexivity.
  - destruct (negb (b_ready b)); [discriminate|]. destruct (remove_first m (t_owned t)); [|discriminate].
    injection H as <- <- <-. reflexivity. Qed.

Lemma run_A : forall rest w t w' t' y, run rest w t = (w', t', y) ->
  exists es, w' = apply_eff w (t_comp t) es /\ t_addr t' = t_addr t /\ t_comp t' = t_comp t.
Proof. intros. apply run_exact in H. destruct H as (es & cons & tail & _ & _ & Hw & Ht & _). exists es. split; auto.
  rewrite Ht. split; reflexivity. Qed.

Lemma resume_A : forall w t sv w' t' y, resume w t sv = (w', t', y) ->
  exists w0 es, sameA w w0 /\ w_tasks w0 = w_tasks w /\ w' = apply_eff w0 (t_comp t) es /\
                t_addr t' = t_addr t /\ t_comp t' = t_comp t.
Proof.
  intros w t sv w' t' y H. unfold resume in H.
  assert (Hr : forall w0 t0, sameA w w0 -> w_tasks w0 = w_tasks w -> t_addr t0 = t_addr t -> t_comp t0 = t_comp t ->
             run (t_rest t) w0 t0 = (w', t', y) ->
             exists w0 es, sameA w w0 /\ w_tasks w0 = w_tasks w /\ w' = apply_eff w0 (t_comp t) es /\
                t_addr t' = t_addr t /\ t_comp t' = t_comp t).
  { intros w0 t0 S1 S2 S3 S4 Hrun. apply run_A in Hrun. destruct Hrun as (es & E1 & E2 & E3).
    exists w0, es. split; [exact S1|]. split; [exact S2|]. split; [rewrite <- S4; exact E1|]. split; congruence. }
  assert (Hx : raised w t = (w', t', y) ->
             exists w0 es, sameA w w0 /\ w_tasks w0 = w_tasks w /\ w' = apply_eff w0 (t_comp t) es /\
                t_addr t' = t_addr t /\ t_comp t' = t_comp t).
  { unfold raised. intro E. injection E as <- <- <-. exists w, []. rewrite apply_eff_nil.
    repeat split; auto. }
  destruct (t_pend t); destruct sv; try (apply Hx; exact H);
    (eapply Hr; [| | | |exact H]; [sameA_tac|reflexivity|reflexivity|reflexivity]).
Qed.

Lemma aw_A : forall w a m nxt, sameA w (aw2 (aw1c (aw1 w a m) a nxt) a m).
Proof.
  intros. assert (S1 : sameA w (aw1 w a m)).
  { unfold aw1. destruct (box_get m (w_boxes w)); simpl.
    - destruct (task_get a (w_tasks w)) eqn:E; [|sameA_tac]. sameA_tac. simpl.
      eapply task_set_present_addrs. simpl. apply task_get_Some in E as E'. destruct E' as [<- _]. exact E.
    - destruct (task_get a (w_tasks w)) eqn:E; [|sameA_tac]. sameA_tac. simpl.
      eapply task_set_present_addrs. simpl. apply task_get_Some in E as E'. destruct E' as [<- _]. exact E. }
  assert (S2 : forall w, sameA w (aw1c w a nxt)).
  { intro w1. unfold aw1c. destruct (task_get a (w_tasks w1)) eqn:E; [|sameA_tac]. sameA_tac. simpl.
    eapply task_set_present_addrs. simpl. apply task_get_Some in E as E'. destruct E' as [<- _]. exact E. }
  assert (S3 : forall w, sameA w (aw2 w a m)).
  { intro w1. unfold aw2. destruct (box_get m (w_boxes w1)); [|sameA_tac]. destruct (b_ready m0); sameA_tac. }
  eapply sameA_trans; [exact S1|]. eapply sameA_trans; [apply S2|apply S3].
Qed.
Lemma aw1_A : forall w a m, sameA w (aw1 w a m).
Proof. intros. unfold aw1. destruct (box_get m (w_boxes w)); simpl.
    - destruct (task_get a (w_tasks w)) eqn:E; [|sameA_tac]. sameA_tac. simpl.
      eapply task_set_present_addrs. simpl. apply task_get_Some in E as E'. destruct E' as [<- _]. exact E.
    - destruct (task_get a (w_tasks w)) eqn:E; [|sameA_tac]. sameA_tac. simpl.
      eapply task_set_present_addrs. simpl. apply task_get_Some in E as E'. destruct E' as [<- _]. exact E. Qed.
Lemma aw1c_A : forall w a nxt, sameA w (aw1c w a nxt).
Proof. intros. unfold aw1c. destruct (task_get a (w_tasks w)) eqn:E; [|sameA_tac]. sameA_tac. simpl.
    eapply task_set_present_addrs. simpl. apply task_get_Some in E as E'. destruct E' as [<- _]. exact E. Qed.
Lemma aw2_A : forall w a m, sameA w (aw2 w a m).
Proof. intros. unfold aw2. destruct (box_get m (w_boxes w)); [|sameA_tac]. destruct (b_ready m0); sameA_tac. Qed.

Definition finA (w2 w' : wstate) (fin : list (addr * val)) : Prop :=
  w_id w' = w_id w2 /\ w_delayed w' = w_delayed w2 /\ chan_tasks (w_out w') = chan_tasks (w_out w2) /\
  w_created w' = w_created w2 /\ w_started w' = w_started w2 /\ w_counter w' = w_counter w2 /\
  w_finished w' = w_finished w2 ++ fin /\
  (forall x, tcnt x (w_tasks w') + cnt x (map fst fin) = tcnt x (w_tasks w2)).

Lemma finA_same : forall w w', sameA w w' -> finA w w' [].
Proof. intros w w' (H1&H2&H3&H4&H5&H6&H7&H8). unfold finA. rewrite app_nil_r. repeat split; auto.
  intro x. unfold tcnt. rewrite H2. simpl. rewrite cnt_nil. lia. Qed.
Lemma finA_trans_same : forall a b c fin, sameA a b -> finA b c fin -> finA a c fin.
Proof. intros a b c fin (H1&H2&H3&H4&H5&H6&H7&H8) (G1&G2&G3&G4&G5&G6&G7&G8). unfold finA.
  repeat split; try congruence. intro x. rewrite G8. unfold tcnt. rewrite H2. reflexivity. Qed.
Lemma finA_same_trans : forall a b c fin, finA a b fin -> sameA b c -> finA a c fin.
Proof. intros a b c fin (G1&G2&G3&G4&G5&G6&G7&G8) (H1&H2&H3&H4&H5&H6&H7&H8). unfold finA.
  repeat split; try congruence. intro x. rewrite <- G8. unfold tcnt. rewrite H2. reflexivity. Qed.

Lemma stepA_build : forall w w0 comp es w2 w' fin,
  sameA w w0 -> w2 = apply_eff w0 comp es -> finA w2 w' fin -> stepA w w' [].
Proof.
  intros w w0 comp es w2 w' fin (H1&H2&H3&H4&H5&H6&H7&H8) -> (G1&G2&G3&G4&G5&G6&G7&G8).
  destruct (apply_eff_A w0 comp es) as (E1&E2&E3&E4&E5&E6&E7&E8).
  assert (Hme : me w0 = me w) by (unfold me; congruence).
  split; [congruence|]. split; [lia|].
  exists (eff_tasks (me w0) comp (w_counter w0) es), fin.
  repeat split.
  - intro x. specialize (G8 x). unfold w_held. rewrite !tcnt_app, G2, G3, E3, E4, H3, H4, !tcnt_app.
    rewrite E2 in G8. unfold tcnt in *. rewrite H2 in G8. rewrite tcnt_nil || idtac. cbn [map]. rewrite cnt_nil. lia.
  - rewrite G4, E5, H5. reflexivity.
  - rewrite G7, E6, H6. reflexivity.
  - intro x. specialize (G8 x). rewrite G5, E7, H7. rewrite E2 in G8. unfold tcnt in *. rewrite H2 in G8. lia.
  - apply eff_tasks_In in H. destruct H as (A1 & A2 & A3). congruence.
  - apply eff_tasks_In in H. lia.
  - apply eff_tasks_In in H. lia.
  - intro x. apply eff_tasks_cnt_le1.
Qed.

Lemma dispatch_A : forall atomic w a, stepA w (dispatch atomic w a) [].
Proof.
  intros atomic w a. unfold dispatch.
  destruct (task_get a (w_tasks w)) as [t|] eqn:Eg; [|apply stepA_same; sameA_tac].
  pose proof (task_get_Some _ _ _ Eg) as [Hta _].
  destruct (desired_result w t) as [[[w1 t1] sv]|e] eqn:Ed.
  2:{ apply stepA_same. unfold task_error. sameA_tac. simpl. rewrite chan_tasks_app. simpl. apply app_nil_r. }
  pose proof (desired_result_A _ _ _ _ _ Ed) as (S1 & Ha1 & Hc1).
  pose proof (desired_result_tasks _ _ _ _ _ Ed) as T1.
  destruct (resume w1 (t_set_desired (t_set_won t1 false) None) sv) as [[w2 t3] y] eqn:Er.
  apply resume_A in Er. destruct Er as (w0 & es & S2 & T2 & Ew & Ha3 & Hc3). simpl in Ha3, Hc3.
  assert (S0 : sameA w w0) by (eapply sameA_trans; eauto).
  assert (Tg : task_get (t_addr t3) (w_tasks w2) = Some t).
  { rewrite Ew. unfold apply_eff. simpl. rewrite T2, T1. congruence. }
  set (w2' := set_tasks w2 (task_set t3 (w_tasks w2))).
  assert (S3 : sameA w2 w2').
  { subst w2'. sameA_tac. simpl. eapply task_set_present_addrs; eauto. }
  destruct y as [m nxt|v|].
  - (* await *)
    fold w2'. eapply stepA_build; [exact S0|exact Ew|].
    destruct (negb (has_box w2' m)).
    + apply finA_same. eapply sameA_trans; [exact S3|]. unfold task_error. sameA_tac.
      simpl. rewrite chan_tasks_app. simpl. apply app_nil_r.
    + destruct atomic.
      * apply finA_same. eapply sameA_trans; [exact S3|]. eapply sameA_trans; [apply aw_A|]. sameA_tac.
      * apply finA_same. eapply sameA_trans; [exact S3|]. sameA_tac.
  - (* return *)
    fold w2'. destruct (complete w2' t3 v) as [w3 ok] eqn:Ec.
    assert (Tg' : task_get (t_addr t3) (w_tasks w2') = Some t3) by (subst w2'; simpl; apply task_get_task_set_same).
    destruct (complete_A _ _ _ _ _ _ Tg' Ec) as [Sc|(C1&C2&C3&C4&C5&C6&C7&C8)];
      (eapply stepA_build; [exact S0|exact Ew|]).
    + apply finA_same. eapply sameA_trans; [exact S3|]. eapply sameA_trans; [exact Sc|].
      destruct ok; [sameA_tac|]. unfold fatal. sameA_tac. simpl. rewrite chan_tasks_app. simpl. apply app_nil_r.
    + eapply finA_trans_same; [exact S3|].
      assert (F : finA w2' w3 [(t_addr t3, v)]).
      { unfold finA. repeat split; auto. intro x. unfold tcnt at 1. rewrite C2.
        pose proof (tcnt_task_del x _ _ _ Tg') as Hd. unfold tcnt in *. simpl. rewrite cnt_single.
        exact Hd. }
      eapply finA_same_trans; [exact F|]. destruct ok; [sameA_tac|]. unfold fatal. sameA_tac.
      simpl. rewrite chan_tasks_app. simpl. apply app_nil_r.
  - (* raise *)
    fold w2'. eapply stepA_build; [exact S0|exact Ew|].
    apply finA_same. eapply sameA_trans; [exact S3|]. unfold task_error. sameA_tac.
    simpl. rewrite chan_tasks_app. simpl. apply app_nil_r.
Qed.

Lemma stepA_ready : forall w q w', stepA (set_ready w q) w' [] -> stepA w w' [].
Proof. intros w q w' H. exact H. Qed.

Lemma main_step_A : forall atomic w w', main_step atomic w = Some w' ->
  (forall t, In t (w_delayed w) -> tcnt (t_addr t) (w_tasks w) = 0) ->
  stepA w w' [].
Proof.
  intros atomic w w' H Habs. unfold main_step in H. destruct (w_pc w) eqn:Epc.
  - (* PLoop *) destruct (w_ready w); [destruct (w_delayed w)|]; injection H as <-; apply stepA_same; sameA_tac.
  - (* PPromote *)
    destruct (last_opt (w_delayed w)) as [tl|] eqn:El; injection H as <-.
    + pose proof (last_opt_removelast _ _ _ El) as Hsplit.
      assert (Hin : In tl (w_delayed w)) by (rewrite Hsplit; apply in_or_app; right; left; reflexivity).
      specialize (Habs tl Hin). apply task_get_None_tcnt in Habs.
      assert (Hc : forall x, tcnt x (w_delayed w) = tcnt x (removelast (w_delayed w)) + tcnt x [tl])
        by (intro; rewrite Hsplit at 1; apply tcnt_app).
      split; [reflexivity|]. split; [simpl; lia|]. exists [], []. unfold w_held.
      cbn [add_task put set_started set_tasks set_pc set_delayed set_ready w_out w_delayed w_tasks w_created w_finished w_started].
      rewrite task_set_absent by (simpl; auto).
      repeat split; auto; try (simpl; intros; contradiction); intros; try (match goal with x : addr |- _ => pose proof (Hc x) end); cnt_tac.
    + apply stepA_same. unfold fatal. sameA_tac. simpl. rewrite chan_tasks_app. simpl. apply app_nil_r.
  - (* PGet *)
    destruct (w_ready w) as [|a q]; injection H as <-.
    + apply stepA_same. sameA_tac. simpl. rewrite chan_tasks_app. simpl. apply app_nil_r.
    + apply (stepA_ready w q). apply dispatch_A.
  - (* PBlocked *)
    destruct (w_ready w) as [|a q]; [discriminate|]. injection H as <-.
    apply (stepA_ready w q). apply dispatch_A.
  - injection H as <-. apply stepA_same. eapply sameA_trans; [apply aw1_A|]. sameA_tac.
  - injection H as <-. apply stepA_same. eapply sameA_trans; [apply aw1c_A|]. sameA_tac.
  - injection H as <-. apply stepA_same. eapply sameA_trans; [apply aw2_A|]. sameA_tac.
  - discriminate.
Qed.

(* ===== part 5 ===== *)

(* ---------- scheduling keeps every task exactly once ---------- *)
Definition pick1 {A} (ts : list A) (i : nat) : list A := match nth_error ts i with Some t => [t] | None => [] end.
Lemma pick_flat_map : forall A (ts : list A) idx, pick ts idx = flat_map (pick1 ts) idx.
Proof. induction idx as [|i r IH]; simpl; auto. unfold pick1 at 1. destruct (nth_error ts i); simpl; rewrite IH; auto. Qed.
Lemma pick_app : forall A (ts : list A) l1 l2, pick ts (l1 ++ l2) = pick ts l1 ++ pick ts l2.
Proof. intros. rewrite !pick_flat_map. apply flat_map_app. Qed.
Lemma pick_seq : forall A (ts : list A) pre, pick (pre ++ ts) (seq (length pre) (length ts)) = ts.
Proof. induction ts as [|t r IH]; simpl; intros; auto.
  rewrite nth_error_app2 by lia. rewrite Nat.sub_diag. simpl. f_equal.
  specialize (IH (pre ++ [t])). rewrite <- app_assoc in IH. simpl in IH.
  rewrite app_length in IH. simpl in IH. rewrite Nat.add_1_r in IH. exact IH. Qed.
Lemma nodupb_NoDup : forall l, nodupb l = true -> NoDup l.
Proof. induction l as [|x r IH]; simpl; intros; constructor.
  - apply andb_true_iff in H. destruct H as [H _]. intro Hin. apply negb_true_iff in H.
    assert (existsb (Nat.eqb x) r = true) by (apply existsb_exists; exists x; split; auto; apply Nat.eqb_refl). congruence.
  - apply IH. apply andb_true_iff in H. tauto. Qed.
Lemma pick_perm : forall A (ts : list A) idx, NoDup idx -> (forall i, In i idx -> i < length ts) ->
  length idx = length ts -> Permutation (pick ts idx) ts.
Proof. intros A ts idx Hnd Hlt Hlen.
  assert (P : Permutation idx (seq 0 (length ts))).
  { apply NoDup_Permutation_bis; auto.
    - rewrite seq_length. lia.
    - intros i Hi. apply in_seq. specialize (Hlt i Hi). lia. }
  rewrite pick_flat_map. rewrite (Permutation_flat_map (pick1 ts) P). rewrite <- pick_flat_map.
  pose proof (pick_seq A ts []) as E. simpl in E. rewrite E. apply Permutation_refl. Qed.

Lemma tcnt_perm : forall a l1 l2, Permutation l1 l2 -> tcnt a l1 = tcnt a l2.
Proof. intros. unfold tcnt. apply cnt_perm. apply Permutation_map. auto. Qed.

Definition dcnt (a : addr) (d : list (list msg)) : nat := sumf (fun q => tcnt a (chan_tasks q)) d.

Lemma upd_length : forall A i (f : A -> A) l, length (upd i f l) = length l.
Proof. intros. unfold upd. destruct (nth_error l i); auto. apply set_nth_length. Qed.
Lemma push_down_length : forall i m d, length (push_down i m d) = length d.
Proof. intros. apply upd_length. Qed.
Lemma dcnt_push_down : forall a i m d, i < length d ->
  dcnt a (push_down i m d) = dcnt a d + tcnt a (msg_tasks m).
Proof. intros. unfold push_down, upd, dcnt. destruct (nth_error d i) as [q|] eqn:E.
  - pose proof (sumf_set_nth _ (fun q => tcnt a (chan_tasks q)) i q (q ++ [m]) d E) as Hs.
    cbn beta in Hs. rewrite chan_tasks_app, tcnt_app in Hs. simpl in Hs. rewrite app_nil_r in Hs. lia.
  - apply nth_error_None in E. lia. Qed.

Lemma schedule_length : forall ts asg d, length (schedule ts asg d) = length d.
Proof. intros ts asg. unfold schedule. induction asg as [|p r IH]; simpl; intros; auto.
  rewrite IH. apply push_down_length. Qed.
Lemma dcnt_schedule_gen : forall a ts asg d, (forall p, In p asg -> fst p < length d) ->
  dcnt a (schedule ts asg d) = dcnt a d + tcnt a (pick ts (concat (map snd asg))).
Proof. intros a ts asg. unfold schedule. induction asg as [|p r IH]; simpl; intros d Hlt.
  - rewrite tcnt_nil. lia.
  - rewrite IH.
    + rewrite dcnt_push_down by (apply Hlt; auto). simpl. rewrite pick_app, tcnt_app. lia.
    + intros p' Hp'. rewrite push_down_length. apply Hlt. auto. Qed.
Lemma dcnt_schedule : forall a k ts asg d, valid_asg k (length ts) asg = true -> length d = k ->
  dcnt a (schedule ts asg d) = dcnt a d + tcnt a ts.
Proof. intros a k ts asg d Hv Hk. unfold valid_asg in Hv. rewrite !andb_true_iff in Hv.
  destruct Hv as [[[[H1 H2] H3] H4] H5].
  rewrite dcnt_schedule_gen.
  - f_equal. apply tcnt_perm. apply pick_perm.
    + apply nodupb_NoDup. auto.
    + intros i Hi. rewrite forallb_forall in H5. apply H5 in Hi. apply Nat.ltb_lt in Hi. auto.
    + apply Nat.eqb_eq. auto.
  - intros p Hp. rewrite forallb_forall in H1. apply H1 in Hp. apply andb_true_iff in Hp. destruct Hp as [Hp _].
    apply Nat.ltb_lt in Hp. lia. Qed.

(* ---------- Part A: conservation of tasks ---------- *)
Definition root_addr (p : nat * val) : addr := mkAddr DClient (fst p) 0.
Definition n_task (a : addr) (s : sys) : nat := dcnt a (s_down s) + sumf (fun w => tcnt a (w_held w)) (s_workers s).
Definition n_fin (a : addr) (s : sys) : nat := sumf (fun w => cnt a (map fst (w_finished w))) (s_workers s).
Definition n_created (a : addr) (s : sys) : nat :=
  cnt a (map root_addr (s_roots s)) + sumf (fun w => cnt a (w_created w)) (s_workers s).
Definition n_started (a : addr) (s : sys) : nat := sumf (fun w => cnt a (w_started w)) (s_workers s).
Definition n_running (a : addr) (s : sys) : nat := sumf (fun w => tcnt a (w_tasks w)) (s_workers s).

Record invA (s : sys) : Prop := {
  A_len : length (s_down s) = length (s_workers s);
  A_ids : forall j w, nth_error (s_workers s) j = Some w -> w_id w = j;
  A_created : forall w a, In w (s_workers s) -> In a (w_created w) -> a_w a = DWorker (w_id w) /\ a_box a < w_counter w;
  A_roots : forall p, In p (s_roots s) -> fst p < s_nbox s;
  A_cons : forall a, n_task a s + n_fin a s = n_created a s;
  A_uniq : forall a, n_created a s <= 1;
  A_start : forall a, n_started a s = n_running a s + n_fin a s
}.

Lemma nth_error_map_seq : forall A (f : nat -> A) k j x, nth_error (map f (seq 0 k)) j = Some x -> x = f j /\ j < k.
Proof. intros. rewrite nth_error_map in H. destruct (nth_error (seq 0 k) j) eqn:E; simpl in H; [|discriminate].
  injection H as <-. assert (j < k). { assert (j < length (seq 0 k)) by (apply nth_error_Some; congruence). rewrite seq_length in H. auto. }
  rewrite nth_error_nth' with (d := 0) in E by (rewrite seq_length; auto). injection E as <-. rewrite seq_nth by auto. auto. Qed.

Lemma invA_init : forall k, invA (sys0 k).
Proof. intro k. constructor; simpl.
  - rewrite repeat_length, map_length, seq_length. reflexivity.
  - intros j w H. apply nth_error_map_seq in H. destruct H as [-> _]. reflexivity.
  - intros w a Hw Ha. apply in_map_iff in Hw. destruct Hw as (j & <- & _). simpl in Ha. tauto.
  - tauto.
  - intro a. unfold n_task, n_fin, n_created, dcnt. simpl.
    rewrite !sumf_zero; auto.
    + intros w Hw. apply in_map_iff in Hw. destruct Hw as (j & <- & _). reflexivity.
    + intros w Hw. apply in_map_iff in Hw. destruct Hw as (j & <- & _). reflexivity.
    + intros w Hw. apply in_map_iff in Hw. destruct Hw as (j & <- & _). reflexivity.
    + intros q Hq. apply repeat_spec in Hq. subst. reflexivity.
  - intro a. unfold n_created. simpl. rewrite sumf_zero; [unfold cnt; simpl; lia|].
    intros w Hw. apply in_map_iff in Hw. destruct Hw as (j & <- & _). reflexivity.
  - intro a. unfold n_started, n_running, n_fin. rewrite !sumf_zero; auto.
    + intros w Hw. apply in_map_iff in Hw. destruct Hw as (j & <- & _). reflexivity.
    + intros w Hw. apply in_map_iff in Hw. destruct Hw as (j & <- & _). reflexivity.
    + intros w Hw. apply in_map_iff in Hw. destruct Hw as (j & <- & _). reflexivity.
Qed.

(* replacing worker i *)
Lemma In_nth_error_ex : forall A (l : list A) x, In x l -> exists j, nth_error l j = Some x.
Proof. intros. apply In_nth_error. auto. Qed.

Lemma created_fresh : forall s w i a, invA s -> nth_error (s_workers s) i = Some w ->
  a_w a = DWorker i -> w_counter w <= a_box a -> n_created a s = 0.
Proof.
  intros s w i a I Hw Ha Hb. unfold n_created.
  assert (cnt a (map root_addr (s_roots s)) = 0).
  { apply cnt_zero_notin. intro Hin. apply in_map_iff in Hin. destruct Hin as (p & <- & _). simpl in Ha. discriminate. }
  rewrite H, sumf_zero; auto.
  intros w' Hw'. apply cnt_zero_notin. intro Hin.
  destruct (A_created s I w' a Hw' Hin) as [E1 E2].
  apply In_nth_error in Hw'. destruct Hw' as [j Hj].
  pose proof (A_ids s I j w' Hj) as Ej. rewrite E1 in Ha. injection Ha as Ha. rewrite Ej in Ha. subst j.
  rewrite Hw in Hj. injection Hj as <-. lia.
Qed.

Lemma tcnt_pos_in : forall a l, tcnt a l >= 1 -> exists t, In t l /\ t_addr t = a.
Proof. intros. unfold tcnt in H. apply cnt_pos_in in H. apply in_map_iff in H. destruct H as (t & E & Hin). eauto. Qed.

Lemma invA_worker_step : forall s i w w' inc d',
  invA s -> nth_error (s_workers s) i = Some w -> stepA w w' inc ->
  length d' = length (s_down s) -> (forall a, dcnt a d' + tcnt a inc = dcnt a (s_down s)) ->
  invA (mkSys (set_nth i w' (s_workers s)) d' (s_client s) (s_errors s) (s_nbox s) (s_fatal s) (s_roots s)).
Proof.
  intros s i w w' inc d' I Hw (Sid & Sctr & news & fin & Sheld & Screated & Sfin & Sstart & Snews & Snews1) Hlen Hd.
  assert (Hi : i < length (s_workers s)) by (apply nth_error_Some; congruence).
  assert (Hwid : w_id w = i) by (eapply A_ids; eauto).
  constructor; simpl.
  - rewrite set_nth_length, Hlen. apply (A_len s I).
  - intros j w0 Hj. apply nth_error_set_nth in Hj. destruct Hj as [(<- & -> & _)|(Hne & Hj)].
    + congruence.
    + eapply A_ids; eauto.
  - intros w0 a Hin Ha. apply In_set_nth in Hin. destruct Hin as [->|Hin].
    + rewrite Screated in Ha. apply in_app_or in Ha. destruct Ha as [Ha|Ha].
      * destruct (A_created s I w a (nth_error_In _ _ Hw) Ha). split; [congruence|lia].
      * apply in_map_iff in Ha. destruct Ha as (t & <- & Ht). destruct (Snews t Ht) as [E1 E2].
        unfold me in E1. split; [congruence|lia].
    + eapply A_created; eauto.
  - apply (A_roots s I).
  - intro a. pose proof (A_cons s I a) as C. unfold n_task, n_fin, n_created in *. simpl.
    pose proof (sumf_set_nth _ (fun w => tcnt a (w_held w)) i w w' _ Hw) as E1.
    pose proof (sumf_set_nth _ (fun w => cnt a (map fst (w_finished w))) i w w' _ Hw) as E2.
    pose proof (sumf_set_nth _ (fun w => cnt a (w_created w)) i w w' _ Hw) as E3.
    cbn beta in *. rewrite Sfin, map_app, cnt_app in E2. rewrite Screated, cnt_app in E3.
    specialize (Sheld a). specialize (Hd a). unfold tcnt in *. lia.
  - intro a. pose proof (A_uniq s I a) as U. unfold n_created in *. simpl.
    pose proof (sumf_set_nth _ (fun w => cnt a (w_created w)) i w w' _ Hw) as E3.
    cbn beta in *. rewrite Screated, cnt_app in E3.
    destruct (cnt a (map t_addr news)) eqn:En; [lia|].
    assert (Hpos : tcnt a news >= 1) by (unfold tcnt; lia).
    apply tcnt_pos_in in Hpos. destruct Hpos as (t & Ht & <-). destruct (Snews t Ht) as [E1 E2].
    assert (F : n_created (t_addr t) s = 0).
    { eapply created_fresh; eauto. unfold me in E1. congruence. lia. }
    unfold n_created in F. specialize (Snews1 (t_addr t)). unfold tcnt in Snews1. lia.
  - intro a. pose proof (A_start s I a) as C. unfold n_started, n_running, n_fin in *. simpl.
    pose proof (sumf_set_nth _ (fun w => cnt a (w_started w)) i w w' _ Hw) as E1.
    pose proof (sumf_set_nth _ (fun w => cnt a (map fst (w_finished w))) i w w' _ Hw) as E2.
    pose proof (sumf_set_nth _ (fun w => tcnt a (w_tasks w)) i w w' _ Hw) as E3.
    cbn beta in *. rewrite Sfin, map_app, cnt_app in E2. specialize (Sstart a). lia.
Qed.

Lemma dcnt_set_nth_pop : forall a d i m q, nth_error d i = Some (m :: q) ->
  dcnt a (set_nth i q d) + tcnt a (msg_tasks m) = dcnt a d.
Proof. intros. unfold dcnt. pose proof (sumf_set_nth _ (fun q => tcnt a (chan_tasks q)) i (m :: q) q d H) as E.
  cbn beta in E. rewrite chan_tasks_cons, tcnt_app in E. lia. Qed.

Lemma held_le_total : forall s a i w, nth_error (s_workers s) i = Some w ->
  tcnt a (w_held w) <= sumf (fun w => tcnt a (w_held w)) (s_workers s).
Proof. intros. apply (sumf_ge _ (fun w => tcnt a (w_held w))). eapply nth_error_In; eauto. Qed.

Lemma dcnt_map_cancel : forall a c d, dcnt a (map (fun q => q ++ [MCancel c]) d) = dcnt a d.
Proof. intros. unfold dcnt. rewrite sumf_map. apply sumf_ext. intros q _. rewrite chan_tasks_app. simpl. rewrite app_nil_r. reflexivity. Qed.

Lemma tasks_le_held : forall a w, tcnt a (w_tasks w) + tcnt a (w_delayed w) <= tcnt a (w_held w).
Proof. intros. unfold w_held. rewrite !tcnt_app. lia. Qed.

Lemma step_invA : forall atomic s e s', invA s -> step atomic s e = Some s' -> invA s'.
Proof.
  intros atomic s e s' I H. destruct e as [sc target|i|i|i asg]; simpl in H.
  - (* client *)
    destruct (Nat.ltb target (length (s_workers s))) eqn:Et; [|discriminate]. injection H as <-. b2p.
    assert (Hlt : target < length (s_down s)) by (rewrite (A_len s I); auto).
    set (ra := mkAddr DClient (s_nbox s) 0).
    assert (Hfresh : cnt ra (map root_addr (s_roots s)) = 0).
    { apply cnt_zero_notin. intro Hin. apply in_map_iff in Hin. destruct Hin as (p & E & Hp).
      apply (A_roots s I) in Hp. unfold root_addr, ra in E. injection E as E. lia. }
    assert (Hnc : forall a, sumf (fun w => cnt a (w_created w)) (s_workers s) >= 1 -> a <> ra).
    { intros a Hge Heq. subst a. rewrite sumf_zero in Hge; [lia|]. intros w Hw. apply cnt_zero_notin. intro Hin.
      destruct (A_created s I w ra Hw Hin) as [E _]. discriminate. }
    constructor; simpl.
    + rewrite push_down_length. apply (A_len s I).
    + apply (A_ids s I).
    + apply (A_created s I).
    + intros p Hp. apply in_app_or in Hp. destruct Hp as [Hp|[<-|[]]]; simpl; [apply (A_roots s I) in Hp|]; lia.
    + intro a. pose proof (A_cons s I a) as C. unfold n_task, n_fin, n_created in *. simpl.
      rewrite dcnt_push_down by auto. rewrite map_app, cnt_app. simpl.
      change (root_addr (s_nbox s, ret_of sc)) with ra. unfold tcnt in *. simpl. fold ra. lia.
    + intro a. pose proof (A_uniq s I a) as U. unfold n_created in *. simpl.
      rewrite map_app, cnt_app. simpl. change (root_addr (s_nbox s, ret_of sc)) with ra. rewrite cnt_single.
      destruct (addr_eqb a ra) eqn:E; [|lia]. apply addr_eqb_eq in E. subst a.
      destruct (sumf (fun w => cnt ra (w_created w)) (s_workers s)) eqn:E2; [lia|].
      exfalso. apply (Hnc ra); auto. lia.
    + apply (A_start s I).
  - (* recv *)
    destruct (nth_error (s_workers s) i) as [w|] eqn:Ew; [|discriminate].
    destruct (nth_error (s_down s) i) as [[|m q]|] eqn:Ed; try discriminate.
    destruct (w_rdead w) eqn:Erd; [discriminate|]. injection H as <-.
    apply (invA_worker_step s i w (recv_step w m) (msg_tasks m) (set_nth i q (s_down s))); auto.
    + apply recv_step_A; auto. intros t Ht.
      pose proof (A_cons s I (t_addr t)) as C. pose proof (A_uniq s I (t_addr t)) as U.
      unfold n_task in C.
      assert (G1 : tcnt (t_addr t) (chan_tasks (m :: q)) <= dcnt (t_addr t) (s_down s)).
      { apply (sumf_ge _ (fun q => tcnt (t_addr t) (chan_tasks q))). eapply nth_error_In; eauto. }
      assert (G2 : tcnt (t_addr t) (chan_tasks (m :: q)) >= 1).
      { rewrite chan_tasks_cons, tcnt_app. assert (tcnt (t_addr t) (msg_tasks m) >= 1); [|lia].
        unfold tcnt. apply cnt_pos_in. apply in_map. auto. }
      pose proof (held_le_total s (t_addr t) i w Ew) as G3. pose proof (tasks_le_held (t_addr t) w) as G4. lia.
    + apply set_nth_length.
    + intro a. apply dcnt_set_nth_pop. auto.
  - (* main *)
    destruct (nth_error (s_workers s) i) as [w|] eqn:Ew; [|discriminate].
    destruct (main_step atomic w) as [w'|] eqn:Em; [|discriminate]. injection H as <-.
    apply (invA_worker_step s i w w' [] (s_down s)); auto.
    eapply main_step_A; eauto. intros t Ht.
      pose proof (A_cons s I (t_addr t)) as C. pose proof (A_uniq s I (t_addr t)) as U. unfold n_task in C.
      pose proof (held_le_total s (t_addr t) i w Ew) as G3. pose proof (tasks_le_held (t_addr t) w) as G4.
      assert (tcnt (t_addr t) (w_delayed w) >= 1) by (unfold tcnt; apply cnt_pos_in; apply in_map; auto). lia.
  - (* server *)
    destruct (nth_error (s_workers s) i) as [w|] eqn:Ew; [|discriminate].
    destruct (w_out w) as [|m q] eqn:Eo; [discriminate|].
    set (w' := set_out w q) in *.
    assert (Hheld : forall a, tcnt a (w_held w') + tcnt a (msg_tasks m) = tcnt a (w_held w)).
    { intro a. unfold w_held, w'. simpl. rewrite Eo, chan_tasks_cons, !tcnt_app. lia. }
    assert (Hi : i < length (s_workers s)) by (apply nth_error_Some; congruence).
    (* every outcome: workers := set_nth i w', down := d' with dcnt d' = dcnt d + tcnt (msg_tasks m) *)
    assert (G : forall d' cl er ft, length d' = length (s_down s) ->
              (forall a, dcnt a d' = dcnt a (s_down s) + tcnt a (msg_tasks m)) ->
              invA (mkSys (set_nth i w' (s_workers s)) d' cl er (s_nbox s) ft (s_roots s))).
    { intros d' cl er ft Hl Hd. constructor; simpl.
      - rewrite set_nth_length, Hl. apply (A_len s I).
      - intros j w0 Hj. apply nth_error_set_nth in Hj. destruct Hj as [(<- & -> & _)|(Hne & Hj)].
        + simpl. eapply A_ids; eauto.
        + eapply A_ids; eauto.
      - intros w0 a Hin Ha. apply In_set_nth in Hin. destruct Hin as [->|Hin].
        + simpl in *. eapply (A_created s I w); eauto. eapply nth_error_In; eauto.
        + eapply A_created; eauto.
      - apply (A_roots s I).
      - intro a. pose proof (A_cons s I a) as C. unfold n_task, n_fin, n_created in *. simpl.
        pose proof (sumf_set_nth _ (fun w => tcnt a (w_held w)) i w w' _ Ew) as E1.
        pose proof (sumf_set_nth _ (fun w => cnt a (map fst (w_finished w))) i w w' _ Ew) as E2.
        pose proof (sumf_set_nth _ (fun w => cnt a (w_created w)) i w w' _ Ew) as E3.
        cbn beta in *. simpl in E2, E3. specialize (Hheld a). rewrite Hd. lia.
      - intro a. pose proof (A_uniq s I a) as U. unfold n_created in *. simpl.
        pose proof (sumf_set_nth _ (fun w => cnt a (w_created w)) i w w' _ Ew) as E3. simpl in E3. lia.
      - intro a. pose proof (A_start s I a) as C. unfold n_started, n_running, n_fin in *. simpl.
        pose proof (sumf_set_nth _ (fun w => cnt a (w_started w)) i w w' _ Ew) as E1.
        pose proof (sumf_set_nth _ (fun w => cnt a (map fst (w_finished w))) i w w' _ Ew) as E2.
        pose proof (sumf_set_nth _ (fun w => tcnt a (w_tasks w)) i w w' _ Ew) as E3.
        simpl in E1, E2, E3. lia. }
    unfold server_msg in H. cbn [s_workers set_workers s_down s_client s_errors s_nbox s_fatal s_roots] in H.
    rewrite set_nth_length in H.
    destruct m as [t|ts|a v c|r| |c| |a].
    + destruct (valid_asg (length (s_workers s)) 1 asg) eqn:Ev; [|discriminate]. injection H as <-.
      apply G; [apply schedule_length|]. intro a. apply (dcnt_schedule a (length (s_workers s)) [t]); auto. apply (A_len s I).
    + destruct (valid_asg (length (s_workers s)) (length ts) asg) eqn:Ev; [|discriminate]. injection H as <-.
      apply G; [apply schedule_length|]. intro a. apply (dcnt_schedule a (length (s_workers s)) ts); auto. apply (A_len s I).
    + destruct (a_w a) as [|j].
      * injection H as <-. apply G; auto; intro a0; simpl; rewrite ?tcnt_nil; lia.
      * destruct (Nat.ltb j (length (s_workers s))) eqn:Ej; injection H as <-.
        -- b2p. apply G; [apply push_down_length|]. intro a0. rewrite dcnt_push_down by (rewrite (A_len s I); auto). reflexivity.
        -- apply G; auto; intro a0; simpl; rewrite ?tcnt_nil; lia.
    + injection H as <-. apply G; auto; intro a0; simpl; rewrite ?tcnt_nil; lia.
    + injection H as <-. apply G; auto; intro a0; simpl; rewrite ?tcnt_nil; lia.
    + injection H as <-. apply G; auto; intro a0; simpl; rewrite ?tcnt_nil; lia.
    + injection H as <-. apply G; auto; intro a0; simpl; rewrite ?tcnt_nil; lia.
    + injection H as <-. apply G; [apply map_length|]. intro a0. simpl. rewrite dcnt_map_cancel, tcnt_nil. lia.
Qed.

(* ===== part 6 ===== *)

(* ---------- the mailbox dictionary ---------- *)
Definition keys (bs : list (nat * mailbox)) : list nat := map fst bs.
Lemma box_get_In : forall m bs b, box_get m bs = Some b -> In (m, b) bs.
Proof. induction bs as [|[k b0] r IH]; simpl; intros; [discriminate|].
  destruct (Nat.eqb k m) eqn:E; [injection H as <-; b2p; subst; auto | right; auto]. Qed.
Lemma box_get_key : forall m bs b, box_get m bs = Some b -> In m (keys bs).
Proof. intros. apply box_get_In in H. apply (in_map fst) in H. exact H. Qed.
Lemma box_get_None_key : forall m bs, box_get m bs = None -> ~ In m (keys bs).
Proof. induction bs as [|[k b0] r IH]; simpl; intros; [tauto|].
  destruct (Nat.eqb k m) eqn:E; [discriminate|]. b2p. intros [H1|H1]; [congruence|]. apply IH; auto. Qed.
Lemma box_get_notkey : forall m bs, ~ In m (keys bs) -> box_get m bs = None.
Proof. intros. destruct (box_get m bs) eqn:E; auto. apply box_get_key in E. tauto. Qed.
Lemma box_get_set_same : forall m b bs, box_get m (box_set m b bs) = Some b.
Proof. induction bs as [|[k b0] r IH]; simpl; [rewrite Nat.eqb_refl; auto|].
  destruct (Nat.eqb k m) eqn:E; simpl; rewrite E; auto. Qed.
Lemma box_get_set_other : forall m m' b bs, m' <> m -> box_get m' (box_set m b bs) = box_get m' bs.
Proof. induction bs as [|[k b0] r IH]; simpl; intros.
  - apply Nat.eqb_neq in H. rewrite Nat.eqb_sym, H. reflexivity.
  - destruct (Nat.eqb k m) eqn:E; simpl.
    + b2p. subst. destruct (Nat.eqb m m') eqn:E2; auto. b2p. congruence.
    + destruct (Nat.eqb k m'); auto. Qed.
Lemma keys_box_set_present : forall m b bs b0, box_get m bs = Some b0 -> keys (box_set m b bs) = keys bs.
Proof. induction bs as [|[k b1] r IH]; simpl; intros; [discriminate|].
  destruct (Nat.eqb k m) eqn:E; simpl; auto. f_equal. eapply IH; eauto. Qed.
Lemma box_get_del_other : forall m m' bs, m' <> m -> box_get m' (box_del m bs) = box_get m' bs.
Proof. induction bs as [|[k b0] r IH]; simpl; intros; auto.
  destruct (Nat.eqb k m) eqn:E; simpl.
  - b2p. subst. destruct (Nat.eqb m m') eqn:E2; auto. b2p. congruence.
  - destruct (Nat.eqb k m'); auto. Qed.
Lemma keys_box_del_incl : forall m bs x, In x (keys (box_del m bs)) -> In x (keys bs).
Proof. induction bs as [|[k b0] r IH]; simpl; intros; auto.
  destruct (Nat.eqb k m); simpl in *; auto. destruct H; auto. Qed.
Lemma keys_box_del_NoDup : forall m bs, NoDup (keys bs) -> NoDup (keys (box_del m bs)).
Proof. induction bs as [|[k b0] r IH]; simpl; intros; auto. inversion H; subst.
  destruct (Nat.eqb k m); simpl; auto. constructor; auto. intro Hin. apply keys_box_del_incl in Hin. auto. Qed.
Lemma box_get_del_same : forall m bs, NoDup (keys bs) -> box_get m (box_del m bs) = None.
Proof. induction bs as [|[k b0] r IH]; simpl; intros; auto. inversion H; subst.
  destruct (Nat.eqb k m) eqn:E; simpl.
  - b2p. subst. apply box_get_notkey. auto.
  - rewrite E. auto. Qed.
Lemma box_get_app : forall m bs1 bs2, box_get m (bs1 ++ bs2) =
  match box_get m bs1 with Some b => Some b | None => box_get m bs2 end.
Proof. induction bs1 as [|[k b0] r IH]; simpl; intros; auto. destruct (Nat.eqb k m); auto. Qed.

Lemma keys_eff_boxes : forall es c, keys (eff_boxes c es) = seq c (length es).
Proof. induction es as [|sp r IH]; simpl; intros; auto. unfold keys in *. rewrite IH. reflexivity. Qed.
Lemma box_get_eff_boxes : forall es c m b, box_get m (eff_boxes c es) = Some b ->
  c <= m < c + length es /\ exists sp, nth_error es (m - c) = Some sp /\ b = spec_box sp.
Proof. induction es as [|sp r IH]; simpl; intros; [discriminate|].
  destruct (Nat.eqb c m) eqn:E.
  - b2p. subst. injection H as <-. split; [lia|]. exists sp. rewrite Nat.sub_diag. auto.
  - b2p. apply IH in H. destruct H as (H1 & sp' & H2 & H3). split; [lia|]. exists sp'.
    replace (m - c) with (S (m - S c)) by lia. auto. Qed.
Lemma nth_error_eff_futs : forall es c f m n, nth_error (eff_futs c es) f = Some (m, n) ->
  m = c + f /\ exists sp, nth_error es f = Some sp /\ n = length (kids sp).
Proof. induction es as [|sp r IH]; simpl; intros; [destruct f; discriminate|].
  destruct f; simpl in H.
  - injection H as <- <-. split; [lia|]. exists sp. auto.
  - apply IH in H. destruct H as (-> & sp' & H1 & H2). split; [lia|]. exists sp'. auto. Qed.
Lemma eff_futs_length : forall es c, length (eff_futs c es) = length es.
Proof. induction es; simpl; intros; auto. Qed.

(* ---------- Part V: values ---------- *)
Definition box_okV (b : mailbox) : Prop :=
  (b_single b = true -> length (b_expect b) = 1) /\
  (forall i v, nth_error (b_result b) i = Some (Some v) -> nth_error (b_expect b) i = Some v) /\
  (forall fr i v, b_fresh b = Some fr -> In (i, v) fr -> nth_error (b_expect b) i = Some v).

Definition fut_ok (w : wstate) (fut : nat * nat) (sp : fspec) : Prop :=
  snd fut = length (kids sp) /\ fst fut < w_counter w /\
  (forall b, box_get (fst fut) (w_boxes w) = Some b -> b_expect b = map ret_of (kids sp)).

Definition task_okV (w : wstate) (t : task) : Prop :=
  (forall m, t_desired t = Some m ->
     exists f n, pend_fut (t_pend t) = Some f /\ nth_error (t_futs t) f = Some (m, n)) /\
  exists done, Forall2 (fut_ok w) (t_futs t) (specs_of done) /\
    ((t_script t = done ++ t_rest t /\ ret_of (t_script t) = ret_of (t_rest t)) \/
     (t_rest t = [Dead] /\ exists tail, t_script t = done ++ tail)).

Definition pc_okV (w : wstate) : Prop :=
  match w_pc w with
  | PAw1 a m _ | PAw1c a m _ | PAw2 a m =>
    exists t f n, task_get a (w_tasks w) = Some t /\ pend_fut (t_pend t) = Some f /\ nth_error (t_futs t) f = Some (m, n)
  | _ => True
  end.

Definition slot_spec (sc : script) (f i : nat) (v : val) : Prop :=
  exists sp, nth_error (specs_of sc) f = Some sp /\ nth_error (map ret_of (kids sp)) i = Some v.

Definition log_okV (e : addr * script * option nat * obs) : Prop :=
  match e with
  | (_, sc, _, OAwait f vs) => forall i v, nth_error vs i = Some (Some v) -> slot_spec sc f i v
  | (_, sc, _, ONext f bt) => forall i v, In (i, v) bt -> slot_spec sc f i v
  end.

Record winvV (w : wstate) : Prop := {
  V_keys : NoDup (keys (w_boxes w));
  V_keys_lt : forall m, In m (keys (w_boxes w)) -> m < w_counter w;
  V_boxes : forall m b, box_get m (w_boxes w) = Some b -> box_okV b;
  V_tasks : forall t, In t (w_tasks w) -> task_okV w t;
  V_pc : pc_okV w;
  V_log : Forall log_okV (w_log w)
}.

Definition lexp (w : wstate) (a : addr) (v : val) : Prop :=
  forall b, box_get (a_box a) (w_boxes w) = Some b -> nth_error (b_expect b) (a_slot a) = Some v.

Definition ext (w w' : wstate) : Prop :=
  w_id w' = w_id w /\ w_counter w <= w_counter w' /\
  forall m b', box_get m (w_boxes w') = Some b' ->
    (exists b, box_get m (w_boxes w) = Some b /\ b_expect b' = b_expect b) \/ w_counter w <= m.

Lemma ext_refl : forall w, ext w w.
Proof. intro. split; auto. split; auto. intros m b' H. left. eauto. Qed.
Lemma ext_trans : forall a b c, ext a b -> ext b c -> ext a c.
Proof. intros a b c (H1&H2&H3) (G1&G2&G3). split; [congruence|]. split; [lia|].
  intros m b' Hb. destruct (G3 m b' Hb) as [(b0 & E1 & E2)|E]; [|right; lia].
  destruct (H3 m b0 E1) as [(b1 & F1 & F2)|F]; [|right; lia]. left. exists b1. split; auto. congruence. Qed.
Lemma lexp_ext : forall w w' a v, ext w w' -> a_box a < w_counter w -> lexp w a v -> lexp w' a v.
Proof. intros w w' a v (H1&H2&H3) Hlt L b' Hb. destruct (H3 _ _ Hb) as [(b & E1 & E2)|E]; [|lia].
  rewrite E2. apply L. auto. Qed.
Lemma fut_ok_ext : forall w w' fut sp, ext w w' -> fut_ok w fut sp -> fut_ok w' fut sp.
Proof. intros w w' fut sp (H1&H2&H3) (F1&F2&F3). split; auto. split; [lia|].
  intros b' Hb. destruct (H3 _ _ Hb) as [(b & E1 & E2)|E]; [|lia]. rewrite E2. auto. Qed.
Lemma Forall2_fut_ok_ext : forall w w' l1 l2, ext w w' -> Forall2 (fut_ok w) l1 l2 -> Forall2 (fut_ok w') l1 l2.
Proof. intros. induction H0; constructor; auto. eapply fut_ok_ext; eauto. Qed.
Lemma task_okV_ext : forall w w' t, ext w w' -> task_okV w t -> task_okV w' t.
Proof. intros w w' t E (T1 & done & F & T3). split; auto. exists done. split; auto. eapply Forall2_fut_ok_ext; eauto. Qed.

Lemma Forall2_nth_l : forall A B (R : A -> B -> Prop) l1 l2 i x, Forall2 R l1 l2 -> nth_error l1 i = Some x ->
  exists y, nth_error l2 i = Some y /\ R x y.
Proof. intros A B R l1 l2 i x H. revert i. induction H; intros i Hi; destruct i; simpl in *; try discriminate.
  - injection Hi as <-. eauto.
  - auto. Qed.

(* ext for the elementary updates of the mailbox table *)
Lemma ext_box_set : forall w m b b0, box_get m (w_boxes w) = Some b0 -> b_expect b = b_expect b0 ->
  ext w (set_boxes w (box_set m b (w_boxes w))).
Proof. intros. split; auto. split; auto. intros m' b' Hb. simpl in Hb. left. destruct (Nat.eq_dec m' m).
  - subst. rewrite box_get_set_same in Hb. injection Hb as <-. eauto.
  - rewrite box_get_set_other in Hb by auto. eauto. Qed.
Lemma ext_box_del : forall w m, NoDup (keys (w_boxes w)) -> ext w (set_boxes w (box_del m (w_boxes w))).
Proof. intros. split; auto. split; auto. intros m' b' Hb. simpl in Hb. left. destruct (Nat.eq_dec m' m).
  - subst. rewrite box_get_del_same in Hb by auto. discriminate.
  - rewrite box_get_del_other in Hb by auto. eauto. Qed.

(* ===== part 7 ===== *)

Lemma task_okV_same : forall w w' t, w_boxes w' = w_boxes w -> w_counter w' = w_counter w -> task_okV w t -> task_okV w' t.
Proof. intros w w' t Hb Hc (T1 & done & F & T3). split; auto. exists done. split; auto.
  clear - F Hb Hc. induction F; constructor; auto. destruct H as (A & B & C). split; auto. split; [lia|]. rewrite Hb. auto. Qed.

Lemma winvV_same : forall w w', w_boxes w' = w_boxes w -> w_counter w' = w_counter w -> w_tasks w' = w_tasks w ->
  w_pc w' = w_pc w -> w_log w' = w_log w -> winvV w -> winvV w'.
Proof. intros w w' Hb Hc Ht Hp Hl I. destruct I. constructor.
  - rewrite Hb. auto.
  - rewrite Hb, Hc. auto.
  - rewrite Hb. auto.
  - rewrite Ht. intros t Hin. eapply task_okV_same; eauto.
  - unfold pc_okV in *. rewrite Hp, Ht. auto.
  - rewrite Hl. auto. Qed.

Definition plain_pc (p : pc) : Prop := match p with PAw1 _ _ _ | PAw1c _ _ _ | PAw2 _ _ => False | _ => True end.

Lemma winvV_set_pc : forall w p, plain_pc p -> winvV w -> winvV (set_pc w p).
Proof. intros w p Hp I. destruct I as [K1 K2 K3 K4 K5 K6]. constructor; auto. unfold pc_okV. simpl. destruct p; simpl in Hp; tauto. Qed.

Lemma In_task_set : forall t t' ts, In t (task_set t' ts) -> t = t' \/ In t ts.
Proof. induction ts as [|t0 r IH]; simpl; intros.
  - destruct H; auto.
  - destruct (addr_eqb (t_addr t0) (t_addr t')); simpl in H; destruct H; auto. apply IH in H. tauto. Qed.
Lemma In_task_del : forall t a ts, In t (task_del a ts) -> In t ts.
Proof. induction ts as [|t0 r IH]; simpl; intros; auto. destruct (addr_eqb (t_addr t0) a); simpl in *; auto. destruct H; auto. Qed.
Lemma task_get_In : forall a ts t, task_get a ts = Some t -> In t ts.
Proof. intros. apply task_get_Some in H. tauto. Qed.

(* updating a mailbox without touching its ghost expectation *)
Lemma winvV_box_set : forall w m b b0, winvV w -> box_get m (w_boxes w) = Some b0 -> b_expect b = b_expect b0 ->
  box_okV b -> winvV (set_boxes w (box_set m b (w_boxes w))).
Proof. intros w m b b0 I Hg He Hb. pose proof (ext_box_set w m b b0 Hg He) as E. destruct I as [K1 K2 K3 K4 K5 K6]. constructor; simpl.
  - rewrite (keys_box_set_present _ _ _ _ Hg). auto.
  - rewrite (keys_box_set_present _ _ _ _ Hg). auto.
  - intros m' b' H. destruct (Nat.eq_dec m' m).
    + subst. rewrite box_get_set_same in H. injection H as <-. auto.
    + rewrite box_get_set_other in H by auto. eauto.
  - intros t Hin. eapply task_okV_ext; eauto.
  - exact K5.
  - auto. Qed.

Lemma winvV_box_del : forall w m, winvV w -> winvV (set_boxes w (box_del m (w_boxes w))).
Proof. intros w m I. pose proof (ext_box_del w m (V_keys w I)) as E. destruct I as [K1 K2 K3 K4 K5 K6]. constructor; simpl.
  - apply keys_box_del_NoDup. auto.
  - intros m' H. apply keys_box_del_incl in H. auto.
  - intros m' b' H. destruct (Nat.eq_dec m' m).
    + subst. rewrite box_get_del_same in H by auto. discriminate.
    + rewrite box_get_del_other in H by auto. eauto.
  - intros t Hin. eapply task_okV_ext; eauto.
  - exact K5.
  - auto. Qed.

(* replacing a task by an updated version of itself *)
Lemma winvV_task_set : forall w t, winvV w -> task_okV w t ->
  (forall a m, (exists n, w_pc w = PAw1 a m n \/ w_pc w = PAw1c a m n) \/ w_pc w = PAw2 a m -> t_addr t = a ->
     exists f n, pend_fut (t_pend t) = Some f /\ nth_error (t_futs t) f = Some (m, n)) ->
  winvV (set_tasks w (task_set t (w_tasks w))).
Proof. intros w t I Ht Hpc. destruct I as [K1 K2 K3 K4 K5 K6]. constructor; simpl; auto.
  - intros t' Hin. apply In_task_set in Hin. destruct Hin as [->|Hin].
    + eapply task_okV_same; [| |exact Ht]; reflexivity.
    + eapply task_okV_same; [| |apply K4; auto]; reflexivity.
  - unfold pc_okV in *. simpl.
    destruct (w_pc w) eqn:Ep; auto.
    + destruct (addr_eqb (t_addr t) a) eqn:Ea.
      * apply addr_eqb_eq in Ea. destruct (Hpc a m) as (f & n & H1 & H2); auto. { left. exists nxt. auto. }
        exists t, f, n. subst a. rewrite task_get_task_set_same. auto.
      * apply addr_eqb_neq in Ea. rewrite task_get_task_set_other by auto. auto.
    + destruct (addr_eqb (t_addr t) a) eqn:Ea.
      * apply addr_eqb_eq in Ea. destruct (Hpc a m) as (f & n & H1 & H2); auto. { left. exists nxt. auto. }
        exists t, f, n. subst a. rewrite task_get_task_set_same. auto.
      * apply addr_eqb_neq in Ea. rewrite task_get_task_set_other by auto. auto.
    + destruct (addr_eqb (t_addr t) a) eqn:Ea.
      * apply addr_eqb_eq in Ea. destruct (Hpc a m) as (f & n & H1 & H2); auto.
        exists t, f, n. subst a. rewrite task_get_task_set_same. auto.
      * apply addr_eqb_neq in Ea. rewrite task_get_task_set_other by auto. auto.
Qed.

Lemma ext_same : forall w w', w_id w' = w_id w -> w_counter w' = w_counter w -> w_boxes w' = w_boxes w -> ext w w'.
Proof. intros w w' H1 H2 H3. split; auto. split; [lia|]. intros m b' Hb. left. rewrite H3 in Hb. eauto. Qed.

Lemma deposit_V : forall b slot v b1 ok, box_okV b -> nth_error (b_expect b) slot = Some v ->
  deposit b slot v = (b1, ok) -> box_okV b1 /\ b_expect b1 = b_expect b /\ b_dest b1 = b_dest b.
Proof.
  intros b slot v b1 ok (B1 & B2 & B3) Hs H. unfold deposit in H.
  assert (Hfresh : forall fr i v', Some (match b_fresh b with None => [] | Some l => l end ++ [(slot, v)]) = Some fr ->
            In (i, v') fr -> nth_error (b_expect b) i = Some v').
  { intros fr i v' E Hin. injection E as <-. apply in_app_or in Hin. destruct Hin as [Hin|[Hin|[]]].
    - destruct (b_fresh b) eqn:Ef; [|contradiction]. eapply B3; eauto.
    - injection Hin as <- <-. auto. }
  destruct (b_single b) eqn:Es.
  - injection H as <- <-. simpl. repeat split; auto.
    intros i v' Hn. destruct i; simpl in Hn; [|destruct i; discriminate]. injection Hn as <-.
    specialize (B1 eq_refl). destruct (b_expect b) as [|e [|e' r]]; simpl in B1; try discriminate.
    destruct slot; simpl in *; auto. destruct slot; discriminate.
  - destruct (Nat.ltb slot (length (b_result b))) eqn:El; injection H as <- <-; simpl; repeat split; auto; try congruence.
    intros i v' Hn. simpl in *. destruct (Nat.eq_dec slot i).
    + subst. b2p. rewrite nth_error_set_nth_eq in Hn by auto. injection Hn as <-. auto.
    + rewrite nth_error_set_nth_neq in Hn by auto. auto.
Qed.

Lemma handle_result_V : forall w a v w1 ok, winvV w -> (a_w a = me w -> lexp w a v) -> handle_result w a v = (w1, ok) ->
  winvV w1 /\ ext w w1 /\ w_counter w1 = w_counter w /\ w_tasks w1 = w_tasks w /\ w_out w1 = w_out w /\
  w_delayed w1 = w_delayed w /\ w_log w1 = w_log w /\ w_pc w1 = w_pc w /\ w_id w1 = w_id w.
Proof.
  intros w a v w1 ok I L0 H. unfold handle_result in H.
  destruct (dest_eqb (a_w a) (me w)) eqn:Eme; cbn [negb] in H.
  2:{ injection H as <- <-. split; [eapply winvV_same; [| | | | |exact I]; reflexivity|]. split; [apply ext_same; reflexivity|]. repeat split. }
  apply dest_eqb_eq in Eme. pose proof (L0 Eme) as L.
  destruct (box_get (a_box a) (w_boxes w)) as [b|] eqn:Eb.
  2:{ injection H as <- <-. split; [eapply winvV_same; [| | | | |exact I]; reflexivity|]. split; [apply ext_same; reflexivity|]. repeat split. }
  destruct (deposit b (a_slot a) v) as [b1 ok1] eqn:Edep.
  destruct (deposit_V _ _ _ _ _ (V_boxes w I _ _ Eb) (L _ Eb) Edep) as (Hb1 & He1 & Hd1).
  set (w1' := set_deposited (set_boxes w (box_set (a_box a) b1 (w_boxes w))) (w_deposited w ++ [a])) in *.
  assert (I1 : winvV w1').
  { eapply winvV_same; [| | | | |apply (winvV_box_set w (a_box a) b1 b I Eb He1 Hb1)]; reflexivity. }
  assert (E1 : ext w w1').
  { pose proof (ext_box_set w (a_box a) b1 b Eb He1) as E. exact E. }
  destruct (negb ok1).
  { injection H as <- <-. split; [eapply winvV_same; [| | | | |exact I1]; reflexivity|]. split; [exact E1|]. repeat split. }
  destruct (b_dest b1) as [d|] eqn:Ed.
  2:{ injection H as <- <-. split; [exact I1|]. split; [exact E1|]. repeat split. }
  destruct (task_get d (w_tasks w1')) as [t|] eqn:Et.
  2:{ injection H as <- <-. split; [eapply winvV_same; [| | | | |exact I1]; reflexivity|]. split; [exact E1|]. repeat split. }
  destruct (t_won t || b_ready b1).
  - injection H as <- <-.
    assert (Eb1 : box_get (a_box a) (w_boxes w1') = Some b1) by (simpl; apply box_get_set_same).
    assert (Hb2 : box_okV (b_set_dest b1 None)) by (destruct Hb1 as (X1 & X2 & X3); repeat split; auto).
    pose proof (winvV_box_set (put w1' d) (a_box a) (b_set_dest b1 None) b1) as Q.
    split.
    + eapply winvV_same; [| | | | |apply Q]; try reflexivity; auto.
      eapply winvV_same; [| | | | |exact I1]; reflexivity.
    + split.
      * eapply ext_trans; [exact E1|]. apply (ext_box_set (put w1' d) (a_box a) (b_set_dest b1 None) b1); auto.
      * repeat split.
  - injection H as <- <-. split; [exact I1|]. split; [exact E1|]. repeat split.
Qed.

Definition msg_res (m : msg) : list (addr * val) := match m with MResult a v _ => [(a, v)] | _ => [] end.
Definition chan_res (q : list msg) : list (addr * val) := flat_map msg_res q.
Lemma chan_res_app : forall q1 q2, chan_res (q1 ++ q2) = chan_res q1 ++ chan_res q2.
Proof. intros. apply flat_map_app. Qed.
Lemma cancel_msgs_res : forall w m n i, chan_res (cancel_msgs w m i n) = [].
Proof. induction n; simpl; intros; auto. Qed.

(* facts every sub-step of the main thread preserves about the parts it does not own *)
Definition frameV (w w' : wstate) : Prop :=
  w_id w' = w_id w /\ w_counter w' = w_counter w /\ w_tasks w' = w_tasks w /\ w_delayed w' = w_delayed w /\
  w_log w' = w_log w /\ w_pc w' = w_pc w /\
  chan_tasks (w_out w') = chan_tasks (w_out w) /\ chan_res (w_out w') = chan_res (w_out w).

Lemma frameV_trans : forall a b c, frameV a b -> frameV b c -> frameV a c.
Proof. unfold frameV. intros a b c (A1&A2&A3&A4&A5&A6&A7&A8) (B1&B2&B3&B4&B5&B6&B7&B8). repeat split; congruence. Qed.

Lemma close_boxes_V : forall owned w w1 ok, winvV w -> close_boxes owned w = (w1, ok) ->
  winvV w1 /\ ext w w1 /\ frameV w w1.
Proof.
  induction owned as [|m r IH]; simpl; intros w w1 ok I H.
  - injection H as <- <-. split; auto. split; [apply ext_refl|]. repeat split.
  - idtac.
    destruct (box_get m (w_boxes w)) as [b|] eqn:Eb.
    2:{ injection H as <- <-. split; [eapply winvV_same; [| | | | |exact I]; reflexivity|].
        split; [apply ext_same; reflexivity|]. repeat split. }
    destruct (b_ready b).
    + apply IH in H; [|apply winvV_box_del; auto]. destruct H as (I1 & E1 & F1).
      split; auto. split; [eapply ext_trans; [apply ext_box_del; apply (V_keys w I)|exact E1]|].
      eapply frameV_trans; [|exact F1]. repeat split.
    + apply IH in H.
      * destruct H as (I1 & E1 & F1). split; auto.
        split; [eapply ext_trans; [|exact E1]; apply (ext_trans _ (set_boxes w (box_del m (w_boxes w)))); [apply ext_box_del; apply (V_keys w I)|apply ext_same; reflexivity]|].
        eapply frameV_trans; [|exact F1]. repeat split; simpl.
        -- rewrite chan_tasks_app, cancel_msgs_tasks. apply app_nil_r.
        -- rewrite chan_res_app, cancel_msgs_res. apply app_nil_r.
      * eapply winvV_same; [| | | | |apply (winvV_box_del w m I)]; reflexivity.
Qed.

Inductive sv_spec (w : wstate) (t : task) : sendval -> Prop :=
| sv_none : t_desired t = None -> sv_spec w t SNone
| sv_full : forall m b, t_desired t = Some m -> t_won t = false -> box_get m (w_boxes w) = Some b ->
    sv_spec w t (SFull m (b_result b))
| sv_batch : forall m b fr, t_desired t = Some m -> t_won t = true -> box_get m (w_boxes w) = Some b ->
    b_fresh b = Some fr -> sv_spec w t (SBatch m fr).

Definition same_task_but_owned (t t1 : task) : Prop :=
  t_addr t1 = t_addr t /\ t_comp t1 = t_comp t /\ t_script t1 = t_script t /\ t_rest t1 = t_rest t /\
  t_futs t1 = t_futs t /\ t_pend t1 = t_pend t /\ t_cnt t1 = t_cnt t /\ t_desired t1 = t_desired t /\ t_won t1 = t_won t.

Lemma desired_result_V : forall w t w1 t1 sv, winvV w -> desired_result w t = inl (w1, t1, sv) ->
  winvV w1 /\ ext w w1 /\ frameV w w1 /\ w_out w1 = w_out w /\ same_task_but_owned t t1 /\ sv_spec w t sv.
Proof.
  intros w t w1 t1 sv I H. unfold desired_result in H.
  destruct (t_desired t) as [m|] eqn:Ed.
  2:{ injection H as <- <- <-. split; auto. split; [apply ext_refl|]. split; [repeat split|]. split; auto.
      split; [repeat split; auto|]. constructor. auto. }
  destruct (box_get m (w_boxes w)) as [b|] eqn:Eb; [|discriminate].
  destruct (t_won t) eqn:Ew.
  - destruct (b_fresh b) as [fr|] eqn:Ef; [|discriminate]. injection H as <- <- <-.
    assert (Hb : box_okV (b_set_fresh b (Some []))).
    { destruct (V_boxes w I _ _ Eb) as (X1 & X2 & X3). repeat split; auto. simpl. intros fr' i v E. injection E as <-. simpl. tauto. }
    split; [apply (winvV_box_set w m (b_set_fresh b (Some [])) b I Eb eq_refl Hb)|].
    split; [apply (ext_box_set w m (b_set_fresh b (Some [])) b Eb eq_refl)|]. split; [repeat split|]. split; auto.
    split; [repeat split; auto|]. eapply sv_batch; eauto.
  - destruct (negb (b_ready b)); [discriminate|]. destruct (remove_first m (t_owned t)) as [ow|]; [|discriminate].
    injection H as <- <- <-.
    split; [apply winvV_box_del; auto|]. split; [apply ext_box_del; apply (V_keys w I)|]. split; [repeat split|]. split; auto.
    split; [repeat split; auto|]. eapply sv_full; eauto.
Qed.

Lemma spec_box_expect : forall sp, b_expect (spec_box sp) = map ret_of (kids sp).
Proof. destruct sp; reflexivity. Qed.
Lemma spec_box_okV : forall sp, box_okV (spec_box sp).
Proof. destruct sp; simpl; repeat split; simpl; intros; try discriminate; auto.
  - destruct i; simpl in H; [discriminate|destruct i; discriminate].
  - exfalso. revert i H. generalize (length cs). induction n; intros i H; destruct i; simpl in H; try discriminate. eauto. Qed.

Lemma eff_tasks_In_full : forall me comp es c x, In x (eff_tasks me comp c es) ->
  exists k sp j child, nth_error es k = Some sp /\ nth_error (kids sp) j = Some child /\
                       x = new_task (mkAddr me (c + k) j) comp child.
Proof. induction es as [|sp r IH]; simpl; intros; [tauto|]. apply in_app_or in H. destruct H.
  - apply mk_children_In in H. destruct H as (_ & _ & _ & j & child & H1 & H2).
    exists 0, sp, j, child. rewrite Nat.add_0_r. simpl. auto.
  - apply IH in H. destruct H as (k & sp' & j & child & H1 & H2 & H3).
    exists (S k), sp', j, child. rewrite Nat.add_succ_r. simpl. auto. Qed.

Lemma apply_eff_V : forall w comp es, winvV w ->
  let w' := apply_eff w comp es in
  winvV w' /\ ext w w' /\
  (forall k sp, nth_error es k = Some sp -> box_get (w_counter w + k) (w_boxes w') = Some (spec_box sp)).
Proof.
  intros w comp es I w'.
  assert (Hnew : forall k sp, nth_error es k = Some sp -> box_get (w_counter w + k) (w_boxes w') = Some (spec_box sp)).
  { intros k sp Hk. subst w'. simpl. rewrite box_get_app.
    rewrite box_get_notkey.
    - clear - Hk. revert k Hk. generalize (w_counter w). induction es as [|sp0 r IH]; intros c k Hk; destruct k; simpl in *; try discriminate.
      + injection Hk as ->. rewrite Nat.add_0_r, Nat.eqb_refl. reflexivity.
      + destruct (Nat.eqb c (c + S k)) eqn:E; [b2p; lia|]. rewrite <- Nat.add_succ_comm. apply IH. auto.
    - intro Hin. apply (V_keys_lt w I) in Hin. lia. }
  assert (E : ext w w').
  { subst w'. split; [reflexivity|]. split; [simpl; lia|]. intros m b' Hb. simpl in Hb. rewrite box_get_app in Hb.
    destruct (box_get m (w_boxes w)) eqn:E0.
    - injection Hb as <-. left. eauto.
    - apply box_get_eff_boxes in Hb. right. lia. }
  split; [|split; auto].
  destruct I as [K1 K2 K3 K4 K5 K6]. constructor.
  - subst w'. simpl. unfold keys. rewrite map_app. fold (keys (w_boxes w)). fold (keys (eff_boxes (w_counter w) es)).
    rewrite keys_eff_boxes. apply NoDup_app_intro; auto.
    + apply seq_NoDup.
    + intros x Hx Hx'. apply K2 in Hx. apply in_seq in Hx'. lia.
  - subst w'. simpl. intros m Hm. unfold keys in Hm. rewrite map_app in Hm. apply in_app_or in Hm. destruct Hm as [Hm|Hm].
    + apply K2 in Hm. lia.
    + fold (keys (eff_boxes (w_counter w) es)) in Hm. rewrite keys_eff_boxes in Hm. apply in_seq in Hm. lia.
  - subst w'. simpl. intros m b Hb. rewrite box_get_app in Hb. destruct (box_get m (w_boxes w)) eqn:E0.
    + injection Hb as <-. eauto.
    + apply box_get_eff_boxes in Hb. destruct Hb as (_ & sp & _ & ->). apply spec_box_okV.
  - intros t Hin. eapply task_okV_ext; eauto.
  - exact K5.
  - exact K6.
Qed.

(* ===== part 8 ===== *)

Lemma Forall2_fut_ok_new : forall w2 es c,
  c + length es <= w_counter w2 ->
  (forall k sp, nth_error es k = Some sp -> box_get (c + k) (w_boxes w2) = Some (spec_box sp)) ->
  Forall2 (fut_ok w2) (eff_futs c es) es.
Proof. induction es as [|sp r IH]; simpl; intros c Hc Hnew; constructor.
  - split; [reflexivity|]. split; [simpl; lia|]. simpl. intros b Hb.
    specialize (Hnew 0 sp eq_refl). rewrite Nat.add_0_r in Hnew. rewrite Hnew in Hb. injection Hb as <-. apply spec_box_expect.
  - apply IH; [lia|]. intros k sp' Hk. specialize (Hnew (S k) sp' Hk). rewrite Nat.add_succ_r in Hnew. exact Hnew. Qed.

Lemma Forall2_length' : forall A B (R : A -> B -> Prop) l1 l2, Forall2 R l1 l2 -> length l1 = length l2.
Proof. induction 1; simpl; auto. Qed.

Lemma slot_spec_prefix : forall done tail f i v sp, nth_error (specs_of done) f = Some sp ->
  nth_error (map ret_of (kids sp)) i = Some v -> slot_spec (done ++ tail) f i v.
Proof. intros. exists sp. split; auto. rewrite specs_of_app. rewrite nth_error_app1; auto.
  apply nth_error_Some. congruence. Qed.

(* the value handed to a resumed body is the one its future was created for *)
Definition sv_ok (t : task) (sv : sendval) : Prop :=
  match sv with
  | SNone => True
  | SFull _ vs => forall f, pend_fut (t_pend t) = Some f -> forall i v, nth_error vs i = Some (Some v) -> slot_spec (t_script t) f i v
  | SBatch _ fr => forall f, pend_fut (t_pend t) = Some f -> forall i v, In (i, v) fr -> slot_spec (t_script t) f i v
  end.

Lemma sv_spec_ok : forall w t sv, winvV w -> task_okV w t -> sv_spec w t sv -> sv_ok t sv.
Proof.
  intros w t sv I (T2 & done & F & T3) Hs.
  assert (Hkey : forall m b f, t_desired t = Some m -> box_get m (w_boxes w) = Some b -> pend_fut (t_pend t) = Some f ->
            exists sp tail, t_script t = done ++ tail /\ nth_error (specs_of done) f = Some sp /\ b_expect b = map ret_of (kids sp)).
  { intros m b f Hd Hb Hp. destruct (T2 m Hd) as (f' & n & Hp' & Hf). rewrite Hp in Hp'. injection Hp' as <-.
    destruct (Forall2_nth_l _ _ _ _ _ _ _ F Hf) as (sp & Hsp & (_ & _ & Hexp)). simpl in Hexp.
    destruct T3 as [[E _]|(_ & tl & E)]; [exists sp, (t_rest t); auto|exists sp, tl; auto]. }
  destruct Hs as [Hd|m b Hd Hw Hb|m b fr Hd Hw Hb Hfr]; unfold sv_ok; auto.
  - intros f Hp i v Hn. destruct (Hkey m b f Hd Hb Hp) as (sp & tail & E1 & E2 & E3). rewrite E1.
    eapply slot_spec_prefix; eauto. rewrite <- E3. destruct (V_boxes w I _ _ Hb) as (_ & X & _). auto.
  - intros f Hp i v Hn. destruct (Hkey m b f Hd Hb Hp) as (sp & tail & E1 & E2 & E3). rewrite E1.
    eapply slot_spec_prefix; eauto. rewrite <- E3. destruct (V_boxes w I _ _ Hb) as (_ & _ & X). eauto.
Qed.

Lemma winvV_log : forall w e, winvV w -> log_okV e -> winvV (set_log w (w_log w ++ [e])).
Proof. intros w e I He. destruct I as [K1 K2 K3 K4 K5 K6]. constructor.
  - exact K1.
  - exact K2.
  - exact K3.
  - intros t Hin. eapply task_okV_same; [| |apply K4; exact Hin]; reflexivity.
  - exact K5.
  - simpl. apply Forall_app. split; auto. Qed.

Definition run_V_post (wL : wstate) (t0 : task) (w2 : wstate) (t3 : task) (y : yield) : Prop :=
  exists es,
    winvV w2 /\ ext wL w2 /\ w_tasks w2 = w_tasks wL /\ w_delayed w2 = w_delayed wL /\ w_pc w2 = w_pc wL /\
    w_id w2 = w_id wL /\ w_log w2 = w_log wL /\ w_counter w2 = w_counter wL + length es /\
    w_out w2 = w_out wL ++ eff_msgs (me wL) (t_comp t0) (w_counter wL) es /\
    (forall x, In x (eff_tasks (me wL) (t_comp t0) (w_counter wL) es) -> lexp w2 (t_addr x) (ret_of (t_script x))) /\
    t_addr t3 = t_addr t0 /\ t_script t3 = t_script t0 /\ t_comp t3 = t_comp t0 /\ t_desired t3 = None /\
    task_okV w2 t3 /\
    (forall m nxt, y = YAwait m nxt -> exists f n, pend_fut (t_pend t3) = Some f /\ nth_error (t_futs t3) f = Some (m, n)) /\
    (forall v, y = YReturn v -> v = ret_of (t_script t0)).

Lemma raised_V : forall wL t0, winvV wL -> task_okV wL t0 -> t_desired t0 = None ->
  run_V_post wL t0 wL (t_set_rest t0 [Dead]) YRaise.
Proof.
  intros wL t0 I (T2 & done & F & T3) Hd. exists []. simpl. rewrite Nat.add_0_r, app_nil_r.
  split; [exact I|]. split; [apply ext_refl|].
  do 7 (split; [reflexivity|]).
  split; [intros x []|].
  do 3 (split; [reflexivity|]). split; [exact Hd|].
  split.
  - split; [simpl; intros m Hm; congruence|].
    exists done. split; auto. right. simpl. split; auto.
    destruct T3 as [[E _]|(_ & E)]; eauto.
  - split; intros; discriminate.
Qed.

Lemma run_V : forall wL t0 w2 t3 y, winvV wL -> task_okV wL t0 -> t_desired t0 = None ->
  run (t_rest t0) wL t0 = (w2, t3, y) -> run_V_post wL t0 w2 t3 y.
Proof.
  intros wL t0 w2 t3 y I Ht0 Hd H.
  pose proof Ht0 as (T2 & done & F & T3).
  destruct T3 as [[Escr Eret]|(Edead & tail0 & Escr)].
  2:{ rewrite Edead in H. simpl in H. unfold raised in H. injection H as <- <- <-. apply raised_V; auto. }
  apply run_exact in H. destruct H as (es & cons & tail & Hsplit & Hspec & Hw & Ht & Htl & Hy & Hr & He).
  destruct (apply_eff_V wL (t_comp t0) es I) as (I2 & E2 & Hnew). rewrite <- Hw in I2, E2, Hnew.
  exists es.
  assert (Hc2 : w_counter w2 = w_counter wL + length es) by (rewrite Hw; reflexivity).
  split; [exact I2|]. split; [exact E2|].
  split; [rewrite Hw; reflexivity|]. split; [rewrite Hw; reflexivity|]. split; [rewrite Hw; reflexivity|].
  split; [rewrite Hw; reflexivity|]. split; [rewrite Hw; reflexivity|]. split; [exact Hc2|].
  split; [rewrite Hw; reflexivity|].
  split.
  { intros x Hx. apply eff_tasks_In_full in Hx. destruct Hx as (k & sp & j & child & H1 & H2 & ->).
    simpl. intros b Hb. simpl in Hb. rewrite (Hnew k sp H1) in Hb. injection Hb as <-.
    rewrite spec_box_expect. simpl. rewrite nth_error_map, H2. reflexivity. }
  split; [rewrite Ht; reflexivity|]. split; [rewrite Ht; reflexivity|]. split; [rewrite Ht; reflexivity|].
  split; [rewrite Ht; simpl; exact Hd|].
  split.
  { (* task_okV w2 t3 *)
    split; [intros m Hm; rewrite Ht in Hm; simpl in Hm; congruence|].
    exists (done ++ cons). split.
    - rewrite Ht. simpl. rewrite specs_of_app, Hspec. apply Forall2_app.
      + eapply Forall2_fut_ok_ext; eauto.
      + apply Forall2_fut_ok_new; [lia|exact Hnew].
    - destruct y as [m nxt|v|].
      + destruct Htl as [G1 G2]; [discriminate|]. left. replace (t_script t3) with (t_script t0) by (rewrite Ht; reflexivity).
        rewrite <- G1. split; [rewrite Escr, Hsplit, app_assoc; reflexivity|]. rewrite Eret, <- G2, Hsplit. reflexivity.
      + destruct Htl as [G1 G2]; [discriminate|]. left. replace (t_script t3) with (t_script t0) by (rewrite Ht; reflexivity).
        rewrite <- G1. split; [rewrite Escr, Hsplit, app_assoc; reflexivity|]. rewrite Eret, <- G2, Hsplit. reflexivity.
      + right. split; [auto|]. exists tail.
        replace (t_script t3) with (t_script t0) by (rewrite Ht; reflexivity). rewrite Escr, Hsplit, app_assoc. reflexivity. }
  split.
  - intros m nxt E. destruct (Hy m nxt E) as ((f & n & P1 & P2 & _) & _). eauto.
  - intros v E. rewrite (Hr v E). symmetry. exact Eret.
Qed.

Lemma task_okV_set_pend_cnt : forall w t p n, t_desired t = None -> task_okV w t ->
  task_okV w (t_set_cnt (t_set_pend t p) n).
Proof. intros w t p n Hd (T2 & done & F & T3). split; [simpl; intros m Hm; congruence|]. exists done. auto. Qed.
Lemma task_okV_set_pend : forall w t p, t_desired t = None -> task_okV w t -> task_okV w (t_set_pend t p).
Proof. intros w t p Hd (T2 & done & F & T3). split; [simpl; intros m Hm; congruence|]. exists done. auto. Qed.

Lemma resume_V : forall w1 t2 sv w2 t3 y, winvV w1 -> task_okV w1 t2 -> t_desired t2 = None -> sv_ok t2 sv ->
  resume w1 t2 sv = (w2, t3, y) ->
  exists wL t2', w_id wL = w_id w1 /\ w_counter wL = w_counter w1 /\ w_tasks wL = w_tasks w1 /\
    w_delayed wL = w_delayed w1 /\ w_pc wL = w_pc w1 /\ w_out wL = w_out w1 /\ w_boxes wL = w_boxes w1 /\
    t_addr t2' = t_addr t2 /\ t_script t2' = t_script t2 /\ t_comp t2' = t_comp t2 /\
    run_V_post wL t2' w2 t3 y.
Proof.
  intros w1 t2 sv w2 t3 y I Ht2 Hd Hsv H. unfold resume in H.
  assert (Hraise : raised w1 t2 = (w2, t3, y) -> exists wL t2', w_id wL = w_id w1 /\ w_counter wL = w_counter w1 /\ w_tasks wL = w_tasks w1 /\
    w_delayed wL = w_delayed w1 /\ w_pc wL = w_pc w1 /\ w_out wL = w_out w1 /\ w_boxes wL = w_boxes w1 /\
    t_addr t2' = t_addr t2 /\ t_script t2' = t_script t2 /\ t_comp t2' = t_comp t2 /\
    run_V_post wL t2' w2 t3 y).
  { unfold raised. intro E. injection E as <- <- <-. exists w1, t2. do 10 (split; [reflexivity|]). apply raised_V; auto. }
  assert (Hrun : forall wL t2', winvV wL -> task_okV wL t2' -> t_desired t2' = None -> t_rest t2' = t_rest t2 ->
     w_id wL = w_id w1 -> w_counter wL = w_counter w1 -> w_tasks wL = w_tasks w1 ->
     w_delayed wL = w_delayed w1 -> w_pc wL = w_pc w1 -> w_out wL = w_out w1 -> w_boxes wL = w_boxes w1 ->
     t_addr t2' = t_addr t2 -> t_script t2' = t_script t2 -> t_comp t2' = t_comp t2 ->
     run (t_rest t2) wL t2' = (w2, t3, y) ->
     exists wL t2', w_id wL = w_id w1 /\ w_counter wL = w_counter w1 /\ w_tasks wL = w_tasks w1 /\
       w_delayed wL = w_delayed w1 /\ w_pc wL = w_pc w1 /\ w_out wL = w_out w1 /\ w_boxes wL = w_boxes w1 /\
       t_addr t2' = t_addr t2 /\ t_script t2' = t_script t2 /\ t_comp t2' = t_comp t2 /\
       run_V_post wL t2' w2 t3 y).
  { intros wL t2' IL Ht Hd' Hrest A1 A2 A3 A4 A5 A6 A7 B1 B2 B3 Hr. exists wL, t2'. do 10 (split; [assumption|]).
    rewrite <- Hrest in Hr. apply run_V; auto. }
  assert (TL : forall e, task_okV (set_log w1 (w_log w1 ++ [e])) t2).
  { intro e. eapply task_okV_same; [| |exact Ht2]; reflexivity. }
  destruct (t_pend t2) eqn:Ep; destruct sv as [|m vs|m fr]; try (apply Hraise; exact H).
  - (* PendNone: first step *) apply (Hrun w1 t2); try reflexivity; auto.
  - apply (Hrun w1 t2); try reflexivity; auto.
  - apply (Hrun w1 t2); try reflexivity; auto.
  - (* PendAwait, SNone *)
    match type of H with run _ ?wl ?tl = _ => apply (Hrun wl tl) end; try reflexivity; try exact H; try (simpl; exact Hd);
      [apply winvV_log; [exact I|] |apply task_okV_set_pend; [exact Hd|apply TL]].
    simpl. intros i v Hn. destruct i; discriminate.
  - (* PendAwait, SFull *)
    match type of H with run _ ?wl ?tl = _ => apply (Hrun wl tl) end; try reflexivity; try exact H; try (simpl; exact Hd);
      [apply winvV_log; [exact I|] |apply task_okV_set_pend; [exact Hd|apply TL]].
    simpl. simpl in Hsv. rewrite Ep in Hsv. apply Hsv. reflexivity.
  - (* PendNext, SNone *)
    match type of H with run _ ?wl ?tl = _ => apply (Hrun wl tl) end; try reflexivity; try exact H; try (simpl; exact Hd);
      [apply winvV_log; [exact I|] |apply task_okV_set_pend; [exact Hd|apply TL]].
    simpl. intros i v [].
  - (* PendNext, SBatch *)
    match type of H with run _ ?wl ?tl = _ => apply (Hrun wl tl) end; try reflexivity; try exact H; try (simpl; exact Hd);
      [apply winvV_log; [exact I|] |apply task_okV_set_pend; [exact Hd|apply TL]].
    simpl. simpl in Hsv. rewrite Ep in Hsv. apply Hsv. reflexivity.
  - (* PendNextAll, SBatch *)
    match type of H with run _ ?wl ?tl = _ => apply (Hrun wl tl) end; try reflexivity; try exact H; try (simpl; exact Hd);
      [apply winvV_log; [exact I|] |apply task_okV_set_pend_cnt; [exact Hd|apply TL]].
    simpl. simpl in Hsv. rewrite Ep in Hsv. apply Hsv. reflexivity.
Qed.

Lemma winvV_task_upd : forall w a t t', winvV w -> task_get a (w_tasks w) = Some t ->
  t_addr t' = t_addr t -> t_script t' = t_script t -> t_rest t' = t_rest t -> t_futs t' = t_futs t -> t_pend t' = t_pend t ->
  (forall m, t_desired t' = Some m -> exists f n, pend_fut (t_pend t') = Some f /\ nth_error (t_futs t') f = Some (m, n)) ->
  winvV (set_tasks w (task_set t' (w_tasks w))).
Proof.
  intros w a t t' I Hg A1 A2 A3 A4 A5 HT2.
  pose proof (task_get_Some _ _ _ Hg) as [Ha Hin].
  apply winvV_task_set; auto.
  - destruct (V_tasks w I t Hin) as (T2 & done & F & T3). split; auto. exists done. rewrite A2, A3, A4. auto.
  - intros a' m' Hpc Ea. pose proof (V_pc w I) as P. unfold pc_okV in P.
    assert (Q : exists t0 f n, task_get a' (w_tasks w) = Some t0 /\ pend_fut (t_pend t0) = Some f /\ nth_error (t_futs t0) f = Some (m', n)).
    { destruct Hpc as [[nx [E|E]]|E]; rewrite E in P; exact P. }
    destruct Q as (t0 & f & n & Q1 & Q2 & Q3). assert (t0 = t) by congruence. subst t0.
    exists f, n. rewrite A4, A5. auto.
Qed.

Definition pend_at (w : wstate) (a : addr) (m : nat) : Prop :=
  exists t f n, task_get a (w_tasks w) = Some t /\ pend_fut (t_pend t) = Some f /\ nth_error (t_futs t) f = Some (m, n).

Lemma aw1_V : forall w a m, winvV w -> pend_at w a m ->
  winvV (aw1 w a m) /\ ext w (aw1 w a m) /\ pend_at (aw1 w a m) a m.
Proof.
  intros w a m I (t & f & n & Hg & Hp & Hf). unfold aw1.
  set (w1 := match box_get m (w_boxes w) with
             | Some b => set_boxes w (box_set m (b_set_dest b (Some a)) (w_boxes w)) | None => w end).
  assert (I1 : winvV w1 /\ ext w w1 /\ w_tasks w1 = w_tasks w).
  { subst w1. destruct (box_get m (w_boxes w)) as [b|] eqn:Eb.
    - split; [|split; [|reflexivity]].
      + apply (winvV_box_set w m (b_set_dest b (Some a)) b I Eb eq_refl).
        destruct (V_boxes w I _ _ Eb) as (X1 & X2 & X3). split; auto.
      + apply (ext_box_set w m (b_set_dest b (Some a)) b Eb eq_refl).
    - split; auto. split; [apply ext_refl|reflexivity]. }
  destruct I1 as (I1 & E1 & T1).
  assert (Hg1 : task_get a (w_tasks w1) = Some t) by (rewrite T1; auto). rewrite Hg1.
  pose proof (task_get_Some _ _ _ Hg) as [Ha _].
  split; [|split].
  - apply (winvV_task_upd w1 a t (t_set_desired t (Some m))); auto; try reflexivity.
    simpl. intros m' E. injection E as <-. eauto.
  - eapply ext_trans; [exact E1|]. apply ext_same; reflexivity.
  - exists (t_set_desired t (Some m)), f, n. simpl. split; auto.
    rewrite <- Ha. apply (task_get_task_set_same (t_set_desired t (Some m))).
Qed.

Lemma aw1c_V : forall w a m nxt, winvV w -> pend_at w a m ->
  winvV (aw1c w a nxt) /\ ext w (aw1c w a nxt) /\ pend_at (aw1c w a nxt) a m.
Proof.
  intros w a m nxt I (t & f & n & Hg & Hp & Hf). unfold aw1c. rewrite Hg.
  pose proof (task_get_Some _ _ _ Hg) as [Ha Hin].
  split; [|split].
  - apply (winvV_task_upd w a t (t_set_won t nxt)); auto. simpl.
    destruct (V_tasks w I t Hin) as (T2 & _). exact T2.
  - apply ext_same; reflexivity.
  - exists (t_set_won t nxt), f, n. simpl. split; auto.
    rewrite <- Ha. apply (task_get_task_set_same (t_set_won t nxt)).
Qed.

Lemma aw2_V : forall w a m, winvV w -> winvV (aw2 w a m) /\ ext w (aw2 w a m) /\ w_tasks (aw2 w a m) = w_tasks w.
Proof. intros w a m I. unfold aw2. destruct (box_get m (w_boxes w)) as [b|]; [destruct (b_ready b)|].
  - split; [eapply winvV_same; [| | | | |exact I]; reflexivity|]. split; [apply ext_same; reflexivity|reflexivity].
  - split; auto. split; [apply ext_refl|reflexivity].
  - split; auto. split; [apply ext_refl|reflexivity]. Qed.

Lemma winvV_tasks_subset : forall w ts, winvV w -> plain_pc (w_pc w) -> (forall t, In t ts -> In t (w_tasks w)) ->
  winvV (set_tasks w ts).
Proof. intros w ts I Hp Hsub. destruct I as [K1 K2 K3 K4 K5 K6]. constructor; auto.
  - intros t Hin. eapply task_okV_same; [| |apply K4; apply Hsub; exact Hin]; reflexivity.
  - unfold pc_okV. simpl. destruct (w_pc w); simpl in Hp; tauto. Qed.

Lemma complete_V : forall w t v w1 ok, winvV w -> plain_pc (w_pc w) ->
  (a_w (t_addr t) = me w -> lexp w (t_addr t) v) ->
  complete w t v = (w1, ok) ->
  winvV w1 /\ ext w w1 /\ w_id w1 = w_id w /\ w_counter w1 = w_counter w /\ w_delayed w1 = w_delayed w /\
  w_pc w1 = w_pc w /\ chan_tasks (w_out w1) = chan_tasks (w_out w) /\
  (forall t', In t' (w_tasks w1) -> In t' (w_tasks w)) /\
  (forall p, In p (chan_res (w_out w1)) -> In p (chan_res (w_out w)) \/ p = (t_addr t, v)).
Proof.
  intros w t v w1 ok I Hp Hown H. unfold complete in H.
  destruct (dest_eqb (a_w (t_addr t)) (me w)) eqn:Eme.
  - apply dest_eqb_eq in Eme. destruct (handle_result w (t_addr t) v) as [w' ok'] eqn:Eh.
    destruct (handle_result_V _ _ _ _ _ I Hown Eh) as (I' & E' & C1 & C2 & C3 & C4 & C5 & C6 & C7).
    destruct ok'; cbn [negb] in H.
    + set (w2 := set_finished (set_tasks (send w' MUpdate) (task_del (t_addr t) (w_tasks (send w' MUpdate))))
                              (w_finished (send w' MUpdate) ++ [(t_addr t, v)])) in *.
      assert (I2 : winvV w2).
      { subst w2. eapply winvV_same; [| | | | |apply (winvV_tasks_subset (send w' MUpdate) (task_del (t_addr t) (w_tasks w')))]; try reflexivity.
        - eapply winvV_same; [| | | | |exact I']; reflexivity.
        - simpl. rewrite C6. exact Hp.
        - intros t' Hin. apply In_task_del in Hin. exact Hin. }
      destruct (close_boxes (t_owned t) w2) as [w3 ok3] eqn:Ec. injection H as <- <-.
      destruct (close_boxes_V _ _ _ _ I2 Ec) as (I3 & E3 & (F1&F2&F3&F4&F5&F6&F7&F8)).
      split; [exact I3|]. split; [eapply ext_trans; [exact E'|]; eapply ext_trans; [|exact E3]; apply ext_same; reflexivity|].
      subst w2. simpl in *.
      split; [congruence|]. split; [congruence|]. split; [congruence|]. split; [congruence|].
      split; [rewrite F7, chan_tasks_app, C3; simpl; apply app_nil_r|].
      split; [intros t' Hin; rewrite F3 in Hin; apply In_task_del in Hin; rewrite C2 in Hin; exact Hin|].
      intros p Hin. rewrite F8, chan_res_app, C3 in Hin. simpl in Hin. rewrite app_nil_r in Hin. auto.
    + injection H as <- <-. split; [eapply winvV_same; [| | | | |exact I']; reflexivity|].
      split; [eapply ext_trans; [exact E'|apply ext_same; reflexivity]|]. simpl.
      split; [congruence|]. split; [congruence|]. split; [congruence|]. split; [congruence|].
      split; [rewrite C3; reflexivity|]. split; [intros t' Hin; rewrite C2 in Hin; exact Hin|].
      intros p Hin. rewrite C3 in Hin. auto.
  - cbn [negb] in H.
    set (w0 := send w (MResult (t_addr t) v (w_id w))) in *.
    set (w2 := set_finished (set_tasks w0 (task_del (t_addr t) (w_tasks w0))) (w_finished w0 ++ [(t_addr t, v)])) in *.
    assert (I2 : winvV w2).
    { subst w2. eapply winvV_same; [| | | | |apply (winvV_tasks_subset w0 (task_del (t_addr t) (w_tasks w)))]; try reflexivity.
      - eapply winvV_same; [| | | | |exact I]; reflexivity.
      - exact Hp.
      - intros t' Hin. apply In_task_del in Hin. exact Hin. }
    destruct (close_boxes (t_owned t) w2) as [w3 ok3] eqn:Ec. injection H as <- <-.
    destruct (close_boxes_V _ _ _ _ I2 Ec) as (I3 & E3 & (F1&F2&F3&F4&F5&F6&F7&F8)).
    split; [exact I3|]. split; [eapply ext_trans; [|exact E3]; apply ext_same; reflexivity|].
    subst w2 w0. simpl in *.
    split; [congruence|]. split; [congruence|]. split; [congruence|]. split; [congruence|].
    split; [rewrite F7, chan_tasks_app; simpl; apply app_nil_r|].
    split; [intros t' Hin; rewrite F3 in Hin; apply In_task_del in Hin; exact Hin|].
    intros p Hin. rewrite F8, chan_res_app in Hin. simpl in Hin. apply in_app_or in Hin. destruct Hin as [Hin|[<-|[]]]; auto.
Qed.

(* ===== part 9 ===== *)

Definition is_new (x : task) : Prop := x = new_task (t_addr x) (t_comp x) (t_script x).

Definition tasks_sim (ts ts' : list task) : Prop :=
  forall t', In t' ts' -> exists t, In t ts /\ t_addr t = t_addr t' /\ t_script t = t_script t'.
Lemma tasks_sim_refl : forall ts, tasks_sim ts ts.
Proof. intros ts t' H. eauto. Qed.
Lemma tasks_sim_trans : forall a b c, tasks_sim a b -> tasks_sim b c -> tasks_sim a c.
Proof. intros a b c H1 H2 t' Hin. destruct (H2 t' Hin) as (t & Ht & E1 & E2). destruct (H1 t Ht) as (t0 & Ht0 & F1 & F2).
  exists t0. split; auto. split; congruence. Qed.
Lemma tasks_sim_subset : forall ts ts', (forall t, In t ts' -> In t ts) -> tasks_sim ts ts'.
Proof. intros ts ts' H t' Hin. eauto. Qed.
Lemma tasks_sim_task_set : forall ts t t0, In t0 ts -> t_addr t0 = t_addr t -> t_script t0 = t_script t ->
  tasks_sim ts (task_set t ts).
Proof. intros ts t t0 Hin A1 A2 t' H. apply In_task_set in H. destruct H as [->|H]; eauto. Qed.

Definition stepV_post (w w' : wstate) : Prop :=
  winvV w' /\ ext w w' /\
  (exists news, chan_tasks (w_out w') = chan_tasks (w_out w) ++ news /\
     forall x, In x news -> is_new x /\ a_w (t_addr x) = me w /\ a_box (t_addr x) < w_counter w' /\
                            lexp w' (t_addr x) (ret_of (t_script x))) /\
  (forall t', In t' (w_delayed w') -> In t' (w_delayed w)) /\
  tasks_sim (w_tasks w ++ w_delayed w) (w_tasks w') /\
  (forall p, In p (chan_res (w_out w')) ->
     In p (chan_res (w_out w)) \/ exists t, In t (w_tasks w) /\ p = (t_addr t, ret_of (t_script t))).

(* a step that changes neither tasks, boxes nor the channel's payloads *)
Lemma stepV_post_plain : forall w w', winvV w' -> ext w w' -> chan_tasks (w_out w') = chan_tasks (w_out w) ->
  chan_res (w_out w') = chan_res (w_out w) -> w_delayed w' = w_delayed w -> tasks_sim (w_tasks w) (w_tasks w') ->
  stepV_post w w'.
Proof. intros w w' I E H1 H2 H3 H4. split; auto. split; auto. split.
  - exists []. rewrite app_nil_r. split; auto. intros x [].
  - split; [rewrite H3; auto|]. split.
    + intros t' Hin. destruct (H4 t' Hin) as (t & Ht & A). exists t. split; auto. apply in_or_app. auto.
    + intros p Hp. rewrite H2 in Hp. auto. Qed.

Lemma winvV_set_pc_aw : forall w a m nxt, winvV w -> pend_at w a m -> winvV (set_pc w (PAw1 a m nxt)).
Proof. intros w a m nxt I P. destruct I as [K1 K2 K3 K4 K5 K6]. constructor; auto. Qed.

Lemma task_error_frame : forall w t e, winvV w -> winvV (task_error w t e) /\ ext w (task_error w t e) /\
  chan_tasks (w_out (task_error w t e)) = chan_tasks (w_out w) /\ chan_res (w_out (task_error w t e)) = chan_res (w_out w) /\
  w_delayed (task_error w t e) = w_delayed w /\ w_tasks (task_error w t e) = w_tasks w /\
  w_counter (task_error w t e) = w_counter w.
Proof. intros w t e I. assert (I0 : plain_pc PLoop) by exact Logic.I. unfold task_error. split.
  - apply winvV_set_pc; [exact I0|]. eapply winvV_same; [| | | | |exact I]; reflexivity.
  - split; [apply ext_same; reflexivity|]. simpl. rewrite chan_tasks_app, chan_res_app. simpl. rewrite !app_nil_r. auto. Qed.

Lemma aw1_sim : forall w a m, tasks_sim (w_tasks w) (w_tasks (aw1 w a m)) /\ w_out (aw1 w a m) = w_out w.
Proof. intros. unfold aw1.
  set (w1 := match box_get m (w_boxes w) with Some b => set_boxes w (box_set m (b_set_dest b (Some a)) (w_boxes w)) | None => w end).
  assert (H1 : w_tasks w1 = w_tasks w /\ w_out w1 = w_out w) by (subst w1; destruct (box_get m (w_boxes w)); auto).
  destruct H1 as [H1 H2]. destruct (task_get a (w_tasks w1)) as [t|] eqn:E.
  - simpl. split; [|exact H2]. rewrite <- H1. apply (tasks_sim_task_set _ _ t); auto.
    + apply task_get_In in E. exact E.
  - split; [rewrite H1; apply tasks_sim_refl|exact H2]. Qed.
Lemma aw1c_sim : forall w a nxt, tasks_sim (w_tasks w) (w_tasks (aw1c w a nxt)) /\ w_out (aw1c w a nxt) = w_out w.
Proof. intros. unfold aw1c. destruct (task_get a (w_tasks w)) as [t|] eqn:E.
  - simpl. split; auto. apply (tasks_sim_task_set _ _ t); auto.
    + apply task_get_In in E. exact E.
  - split; [apply tasks_sim_refl|reflexivity]. Qed.
Lemma aw2_out : forall w a m, w_out (aw2 w a m) = w_out w.
Proof. intros. unfold aw2. destruct (box_get m (w_boxes w)); [destruct (b_ready m0)|]; reflexivity. Qed.

Definition own_ok (w : wstate) : Prop :=
  forall t, In t (w_tasks w) -> a_w (t_addr t) = me w ->
    lexp w (t_addr t) (ret_of (t_script t)) /\ a_box (t_addr t) < w_counter w.

Lemma dispatch_V : forall atomic w a, winvV w -> plain_pc (w_pc w) -> own_ok w ->
  stepV_post w (dispatch atomic w a).
Proof.
  intros atomic w a I Hpc Hown. unfold dispatch.
  destruct (task_get a (w_tasks w)) as [t|] eqn:Eg.
  2:{ apply stepV_post_plain; try reflexivity.
      - apply winvV_set_pc; [exact Logic.I|exact I].
      - apply ext_same; reflexivity.
      - apply tasks_sim_refl. }
  pose proof (task_get_Some _ _ _ Eg) as [Hta Hin].
  pose proof (V_tasks w I t Hin) as Tok.
  destruct (desired_result w t) as [[[w1 t1] sv]|e] eqn:Ed.
  2:{ destruct (task_error_frame w t e I) as (X1 & X2 & X3 & X4 & X5 & X6 & X7).
      apply stepV_post_plain; auto. rewrite X6. apply tasks_sim_refl. }
  destruct (desired_result_V _ _ _ _ _ I Ed) as (I1 & E1 & (F1&F2&F3&F4&F5&F6&F7&F8) & O1 & S1 & Sv).
  destruct S1 as (S1a&S1b&S1c&S1d&S1e&S1f&S1g&S1h&S1i).
  set (t2 := t_set_desired (t_set_won t1 false) None).
  assert (Tok2 : task_okV w1 t2).
  { destruct (task_okV_ext _ _ _ E1 Tok) as (T2 & done & F & T3).
    split; [simpl; intros m Hm; discriminate|]. exists done. simpl. rewrite S1c, S1d, S1e. auto. }
  assert (Svok : sv_ok t2 sv).
  { pose proof (sv_spec_ok _ _ _ I Tok Sv) as Q. destruct sv; simpl in *; auto; rewrite S1f, S1c; exact Q. }
  destruct (resume w1 t2 sv) as [[w2 t3] y] eqn:Er.
  destruct (resume_V _ _ _ _ _ _ I1 Tok2 eq_refl Svok Er) as
    (wL & t2' & L1 & L2 & L3 & L4 & L5 & L6 & L7 & L8 & L9 & L10 & (es & I2 & E2 & R1 & R2 & R3 & R4 & R5 & R6 & R7 & R8 & R9 & R10 & R11 & R12 & R13 & R14 & R15)).
  simpl in L8, L9, L10.
  assert (EL : ext w1 wL) by (apply ext_same; auto).
  assert (Ta3 : t_addr t3 = a) by congruence.
  assert (Ts3 : t_script t3 = t_script t) by congruence.
  assert (Hme : me wL = me w) by (unfold me; congruence).
  assert (Tg2 : task_get a (w_tasks w2) = Some t) by (rewrite R1, L3, F3; exact Eg).
  set (w2' := set_tasks w2 (task_set t3 (w_tasks w2))).
  assert (Hpc2 : plain_pc (w_pc w2)) by (rewrite R3, L5, F6; exact Hpc).
  assert (I2' : winvV w2').
  { apply winvV_task_set; auto. intros a' m' Hq _. exfalso. clear - Hq Hpc2.
    destruct (w_pc w2); simpl in Hpc2; try tauto; destruct Hq as [[n [E|E]]|E]; discriminate. }
  assert (E2' : ext w2 w2') by (apply ext_same; reflexivity).
  assert (Ew2 : ext w w2) by (eapply ext_trans; [exact E1|]; eapply ext_trans; [exact EL|exact E2]).
  assert (Tg2' : task_get a (w_tasks w2') = Some t3).
  { subst w2'. simpl. rewrite <- Ta3. apply task_get_task_set_same. }
  assert (Sim2 : tasks_sim (w_tasks w) (w_tasks w2')).
  { subst w2'. simpl. rewrite R1, L3, F3. apply (tasks_sim_task_set _ t3 t); auto. congruence. }
  (* what the segment sent *)
  set (news := eff_tasks (me wL) (t_comp t2') (w_counter wL) es).
  assert (Hout2 : chan_tasks (w_out w2') = chan_tasks (w_out w) ++ news).
  { subst w2'. simpl. rewrite R7, chan_tasks_app, chan_tasks_eff_msgs, L6, O1. reflexivity. }
  assert (Hres2 : chan_res (w_out w2') = chan_res (w_out w)).
  { subst w2'. simpl. rewrite R7, chan_res_app, L6, O1.
    assert (Z : forall me comp es c, chan_res (eff_msgs me comp c es) = []).
    { clear. induction es as [|sp r IH]; simpl; intros; auto. destruct sp; simpl; auto. }
    rewrite Z. apply app_nil_r. }
  assert (Hnews : forall w', ext w2' w' -> forall x, In x news -> is_new x /\ a_w (t_addr x) = me w /\
             a_box (t_addr x) < w_counter w' /\ lexp w' (t_addr x) (ret_of (t_script x))).
  { intros w' Ex x Hx. pose proof (R8 x Hx) as Lx. unfold news in Hx.
    pose proof (eff_tasks_In _ _ _ _ _ Hx) as (B1 & B2 & B3).
    apply eff_tasks_In_full in Hx. destruct Hx as (k & sp & j & child & _ & _ & Ex').
    assert (Hlt : a_box (t_addr x) < w_counter w2) by lia.
    split; [rewrite Ex'; reflexivity|]. split; [congruence|].
    pose proof Ex as (_ & Hc & _). split; [simpl in Hc; lia|].
    eapply lexp_ext; [|exact Hlt|exact Lx]. eapply ext_trans; [exact E2'|exact Ex]. }
  destruct y as [m nxt|v|].
  - (* the body awaits *)
    fold w2'. destruct (R14 m nxt eq_refl) as (f & n & P1 & P2).
    assert (Pend : pend_at w2' a m) by (exists t3, f, n; auto).
    destruct (negb (has_box w2' m)).
    + destruct (task_error_frame w2' t3 EBody I2') as (X1 & X2 & X3 & X4 & X5 & X6 & X7).
      split; [exact X1|]. split; [eapply ext_trans; [exact Ew2|]; eapply ext_trans; [exact E2'|exact X2]|].
      split; [exists news; split; [rewrite X3; exact Hout2|apply Hnews; exact X2]|].
      split; [rewrite X5; subst w2'; simpl; rewrite R2, L4, F4; auto|].
      split; [rewrite X6; intros t' Ht'; destruct (Sim2 t' Ht') as (t0 & A & B); exists t0; split; auto; apply in_or_app; auto|].
      intros p Hp. rewrite X4, Hres2 in Hp. auto.
    + destruct atomic.
      * destruct (aw1_V w2' a m I2' Pend) as (J1 & G1 & P1').
        destruct (aw1c_V _ a m nxt J1 P1') as (J2 & G2 & P2').
        destruct (aw2_V _ a m J2) as (J3 & G3 & T3').
        set (w5 := aw2 (aw1c (aw1 w2' a m) a nxt) a m) in *.
        assert (G5 : ext w2' w5) by (eapply ext_trans; [exact G1|]; eapply ext_trans; [exact G2|exact G3]).
        assert (S5 : sameA w2' w5) by apply aw_A.
        destruct S5 as (Q1&Q2&Q3&Q4&Q5&Q6&Q7&Q8).
        split; [apply winvV_set_pc; [exact Logic.I|exact J3]|].
        split; [eapply ext_trans; [exact Ew2|]; eapply ext_trans; [exact E2'|]; eapply ext_trans; [exact G5|apply ext_same; reflexivity]|].
        split; [exists news; split; [simpl; rewrite Q4; exact Hout2|apply Hnews; eapply ext_trans; [exact G5|apply ext_same; reflexivity]]|].
        split; [simpl; rewrite Q3; subst w2'; simpl; rewrite R2, L4, F4; auto|].
        split.
        -- simpl. intros t' Ht'.
           assert (Sim5 : tasks_sim (w_tasks w2') (w_tasks w5)).
           { subst w5. rewrite T3'. eapply tasks_sim_trans; [apply aw1_sim|apply aw1c_sim]. }
           destruct (Sim5 t' Ht') as (t0 & A0 & B0 & C0). destruct (Sim2 t0 A0) as (t00 & A1 & B1 & C1).
           exists t00. split; [apply in_or_app; auto|]. split; congruence.
        -- intros p Hp. change (w_out (set_pc w5 PLoop)) with (w_out w5) in Hp.
           assert (Rs : w_out w5 = w_out w2').
           { subst w5. rewrite aw2_out. destruct (aw1c_sim (aw1 w2' a m) a nxt) as [_ ->]. destruct (aw1_sim w2' a m) as [_ ->]. reflexivity. }
           rewrite Rs in Hp. rewrite Hres2 in Hp. auto.
      * split; [apply winvV_set_pc_aw; auto|].
        split; [eapply ext_trans; [exact Ew2|]; eapply ext_trans; [exact E2'|apply ext_same; reflexivity]|].
        split; [exists news; split; [exact Hout2|apply Hnews; apply ext_same; reflexivity]|].
        split; [subst w2'; simpl; rewrite R2, L4, F4; auto|].
        split; [simpl; intros t' Ht'; destruct (Sim2 t' Ht') as (t0 & A & B); exists t0; split; auto; apply in_or_app; auto|].
        intros p Hp. change (w_out (set_pc w2' (PAw1 a m nxt))) with (w_out w2') in Hp. rewrite Hres2 in Hp. auto.
  - (* the body returns *)
    fold w2'. destruct (complete w2' t3 v) as [w3 ok] eqn:Ec.
    assert (Hv : v = ret_of (t_script t)) by (rewrite (R15 v eq_refl); congruence).
    assert (Hown3 : a_w (t_addr t3) = me w2' -> lexp w2' (t_addr t3) v).
    { intro Hm. rewrite Ta3, <- Hta in *. assert (Hm' : a_w (t_addr t) = me w).
      { rewrite Hm. unfold me. subst w2'. simpl. rewrite R4. congruence. }
      destruct (Hown t Hin Hm') as (Lx & Hlt). rewrite Hv.
      eapply lexp_ext; [|exact Hlt|exact Lx]. eapply ext_trans; [exact Ew2|exact E2']. }
    assert (Hpc2' : plain_pc (w_pc w2')) by exact Hpc2.
    destruct (complete_V _ _ _ _ _ I2' Hpc2' Hown3 Ec) as (I3 & E3 & C1 & C2 & C3 & C4 & C5 & C6 & C7).
    assert (Post : forall wf, winvV wf -> ext w3 wf -> chan_tasks (w_out wf) = chan_tasks (w_out w3) ->
              chan_res (w_out wf) = chan_res (w_out w3) -> w_delayed wf = w_delayed w3 -> w_tasks wf = w_tasks w3 ->
              stepV_post w wf).
    { intros wf If Ef H1 H2 H3 H4.
      split; [exact If|].
      split; [eapply ext_trans; [exact Ew2|]; eapply ext_trans; [exact E2'|]; eapply ext_trans; [exact E3|exact Ef]|].
      split; [exists news; split; [rewrite H1, C5; exact Hout2|apply Hnews; eapply ext_trans; [exact E3|exact Ef]]|].
      split; [rewrite H3, C3; subst w2'; simpl; rewrite R2, L4, F4; auto|].
      split.
      - rewrite H4. intros t' Ht'. apply C6 in Ht'. destruct (Sim2 t' Ht') as (t0 & A & B). exists t0. split; auto. apply in_or_app; auto.
      - intros p Hp. rewrite H2 in Hp. apply C7 in Hp. destruct Hp as [Hp|Hp].
        + rewrite Hres2 in Hp. auto.
        + right. exists t. split; auto. rewrite Hp. congruence. }
    destruct ok.
    + apply Post; try reflexivity. apply winvV_set_pc; [exact Logic.I|exact I3]. apply ext_same; reflexivity.
    + unfold fatal. apply Post; try reflexivity.
      * apply winvV_set_pc; [exact Logic.I|]. eapply winvV_same; [| | | | |exact I3]; reflexivity.
      * apply ext_same; reflexivity.
      * simpl. rewrite chan_tasks_app. simpl. apply app_nil_r.
      * simpl. rewrite chan_res_app. simpl. apply app_nil_r.
  - (* the body raises *)
    fold w2'. destruct (task_error_frame w2' t3 EBody I2') as (X1 & X2 & X3 & X4 & X5 & X6 & X7).
    split; [exact X1|]. split; [eapply ext_trans; [exact Ew2|]; eapply ext_trans; [exact E2'|exact X2]|].
    split; [exists news; split; [rewrite X3; exact Hout2|apply Hnews; exact X2]|].
    split; [rewrite X5; subst w2'; simpl; rewrite R2, L4, F4; auto|].
    split; [rewrite X6; intros t' Ht'; destruct (Sim2 t' Ht') as (t0 & A & B); exists t0; split; auto; apply in_or_app; auto|].
    intros p Hp. rewrite X4, Hres2 in Hp. auto.
Qed.

Lemma task_okV_new : forall w x, is_new x -> task_okV w x.
Proof. intros w x H. rewrite H. split; [simpl; intros; discriminate|]. exists []. simpl. split; [constructor|]. left. auto. Qed.

Lemma add_task_V : forall w t, winvV w -> is_new t -> task_get (t_addr t) (w_tasks w) = None -> plain_pc (w_pc w) \/ True ->
  winvV (add_task w t) /\ ext w (add_task w t).
Proof.
  intros w t I Hn Habs _. unfold add_task, put. split; [|apply ext_same; reflexivity].
  eapply winvV_same; [| | | | |apply (winvV_task_set w t I (task_okV_new w t Hn))]; try reflexivity.
  intros a m Hq Ea. exfalso. pose proof (V_pc w I) as P. unfold pc_okV in P.
  assert (Q : exists t0 f n, task_get a (w_tasks w) = Some t0 /\ pend_fut (t_pend t0) = Some f /\ nth_error (t_futs t0) f = Some (m, n)).
  { destruct Hq as [[nx [E|E]]|E]; rewrite E in P; exact P. }
  destruct Q as (t0 & _ & _ & Q & _). congruence.
Qed.

Lemma stepV_post_ready : forall w q w', stepV_post (set_ready w q) w' -> stepV_post w w'.
Proof. intros w q w' H. exact H. Qed.

Lemma main_step_V : forall atomic w w', winvV w -> own_ok w ->
  (forall t, In t (w_delayed w) -> is_new t /\ task_get (t_addr t) (w_tasks w) = None) ->
  main_step atomic w = Some w' -> stepV_post w w'.
Proof.
  intros atomic w w' I Hown Hdel H. unfold main_step in H.
  destruct (w_pc w) eqn:Epc.
  - (* PLoop *)
    assert (G : forall p, plain_pc p -> stepV_post w (set_pc w p)).
    { intros p Hp. apply stepV_post_plain; try reflexivity; [apply winvV_set_pc; auto|apply ext_same; reflexivity|apply tasks_sim_refl]. }
    destruct (w_ready w); [destruct (w_delayed w)|]; injection H as <-; apply G; exact Logic.I.
  - (* PPromote *)
    destruct (last_opt (w_delayed w)) as [tl|] eqn:El; injection H as <-.
    + pose proof (last_opt_removelast _ _ _ El) as Hsplit.
      assert (Hin : In tl (w_delayed w)) by (rewrite Hsplit; apply in_or_app; right; left; reflexivity).
      destruct (Hdel tl Hin) as [Hn Habs].
      set (w0 := set_delayed w (removelast (w_delayed w))).
      assert (I0 : winvV w0) by (eapply winvV_same; [| | | | |exact I]; reflexivity).
      destruct (add_task_V w0 tl I0 Hn Habs (or_intror Logic.I)) as [I1 E1].
      split; [apply winvV_set_pc; [exact Logic.I|exact I1]|].
      split; [apply ext_same; reflexivity|].
      split; [exists []; rewrite app_nil_r; split; [reflexivity|intros x []]|].
      split; [simpl; intros t' Ht'; rewrite Hsplit; apply in_or_app; auto|].
      split; [|intros p Hp; auto].
      simpl. intros t' Ht'. apply In_task_set in Ht'. destruct Ht' as [->|Ht']; [exists tl|exists t']; (split; [apply in_or_app; auto|auto]).
    + apply stepV_post_plain; try reflexivity.
      * unfold fatal. apply winvV_set_pc; [exact Logic.I|]. eapply winvV_same; [| | | | |exact I]; reflexivity.
      * apply ext_same; reflexivity.
      * unfold fatal. simpl. rewrite chan_tasks_app. simpl. apply app_nil_r.
      * unfold fatal. simpl. rewrite chan_res_app. simpl. apply app_nil_r.
      * apply tasks_sim_refl.
  - (* PGet *)
    destruct (w_ready w) as [|a q]; injection H as <-.
    + apply stepV_post_plain; try reflexivity.
      * apply winvV_set_pc; [exact Logic.I|]. eapply winvV_same; [| | | | |exact I]; reflexivity.
      * apply ext_same; reflexivity.
      * simpl. rewrite chan_tasks_app. simpl. apply app_nil_r.
      * simpl. rewrite chan_res_app. simpl. apply app_nil_r.
      * apply tasks_sim_refl.
    + apply (stepV_post_ready w q). apply dispatch_V.
      * eapply winvV_same; [| | | | |exact I]; reflexivity.
      * simpl. rewrite Epc. exact Logic.I.
      * exact Hown.
  - (* PBlocked *)
    destruct (w_ready w) as [|a q]; [discriminate|]. injection H as <-.
    apply (stepV_post_ready w q). apply dispatch_V.
    + eapply winvV_same; [| | | | |exact I]; reflexivity.
    + simpl. rewrite Epc. exact Logic.I.
    + exact Hown.
  - (* PAw1 *)
    injection H as <-. pose proof (V_pc w I) as P. unfold pc_okV in P. rewrite Epc in P.
    destruct (aw1_V w a m I P) as (I1 & E1 & P1). destruct (aw1_sim w a m) as [S1 O1].
    apply stepV_post_plain; simpl; try rewrite O1; try reflexivity.
    + destruct I1 as [K1 K2 K3 K4 K5 K6]. constructor; auto.
    + eapply ext_trans; [exact E1|apply ext_same; reflexivity].
    + pose proof (aw1_A w a m) as (_&_&Q&_). exact Q.
    + exact S1.
  - (* PAw1c *)
    injection H as <-. pose proof (V_pc w I) as P. unfold pc_okV in P. rewrite Epc in P.
    destruct (aw1c_V w a m nxt I P) as (I1 & E1 & P1). destruct (aw1c_sim w a nxt) as [S1 O1].
    apply stepV_post_plain; simpl; try rewrite O1; try reflexivity.
    + destruct I1 as [K1 K2 K3 K4 K5 K6]. constructor; auto.
    + eapply ext_trans; [exact E1|apply ext_same; reflexivity].
    + pose proof (aw1c_A w a nxt) as (_&_&Q&_). exact Q.
    + exact S1.
  - (* PAw2 *)
    injection H as <-. destruct (aw2_V w a m I) as (I1 & E1 & T1).
    apply stepV_post_plain; simpl; try rewrite aw2_out; try reflexivity.
    + apply winvV_set_pc; [exact Logic.I|exact I1].
    + eapply ext_trans; [exact E1|apply ext_same; reflexivity].
    + pose proof (aw2_A w a m) as (_&_&Q&_). exact Q.
    + rewrite T1. apply tasks_sim_refl.
  - discriminate.
Qed.

Lemma recv_step_V : forall w m, winvV w -> w_rdead w = false ->
  (forall t, In t (msg_tasks m) -> is_new t /\ task_get (t_addr t) (w_tasks w) = None) ->
  (forall p, In p (msg_res m) -> a_w (fst p) = me w -> lexp w (fst p) (snd p)) ->
  let w' := recv_step w m in
  winvV w' /\ ext w w' /\ w_out w' = w_out w /\
  (forall t', In t' (w_delayed w') -> In t' (w_delayed w) \/ In t' (msg_tasks m)) /\
  tasks_sim (w_tasks w ++ msg_tasks m) (w_tasks w').
Proof.
  intros w m I Hd Htasks Hres w'. subst w'. unfold recv_step. rewrite Hd.
  assert (Plain : forall wx, winvV wx -> ext w wx -> w_out wx = w_out w -> w_delayed wx = w_delayed w -> w_tasks wx = w_tasks w ->
            winvV wx /\ ext w wx /\ w_out wx = w_out w /\
            (forall t', In t' (w_delayed wx) -> In t' (w_delayed w) \/ In t' (msg_tasks m)) /\
            tasks_sim (w_tasks w ++ msg_tasks m) (w_tasks wx)).
  { intros wx Ix Ex O D T. split; auto. split; auto. split; auto. split; [rewrite D; auto|].
    rewrite T. intros t' Ht'. exists t'. split; auto. apply in_or_app; auto. }
  destruct m as [t|ts|a v c|r| |c| |a]; try solve [apply Plain; auto; apply ext_refl].
  - (* SUBMIT *)
    destruct (Htasks t (or_introl eq_refl)) as [Hn Habs].
    set (w0 := set_recent w (Some (t_addr t))).
    assert (I0 : winvV w0) by (eapply winvV_same; [| | | | |exact I]; reflexivity).
    destruct (add_task_V w0 t I0 Hn Habs (or_intror Logic.I)) as [I1 E1].
    split; [exact I1|]. split; [apply ext_same; reflexivity|]. split; [reflexivity|].
    split; [simpl; auto|]. simpl. intros t' Ht'. apply In_task_set in Ht'.
    destruct Ht' as [->|Ht']; [exists t|exists t']; (split; [apply in_or_app; simpl; auto|auto]).
  - (* SUBMIT_BATCH *)
    destruct ts as [|t0 r].
    { assert (I1' : winvV (set_rdead (log_err w EEmptyBatch) true)) by (eapply winvV_same; [| | | | |exact I]; reflexivity).
      apply Plain; auto. apply ext_same; reflexivity. }
    destruct (last_opt (t0 :: r)) as [tl|] eqn:El; [|apply last_opt_None in El; discriminate].
    pose proof (last_opt_removelast _ _ _ El) as Hsplit.
    assert (Hin : In tl (t0 :: r)) by (rewrite Hsplit; apply in_or_app; right; left; reflexivity).
    destruct (Htasks tl Hin) as [Hn Habs].
    set (w0 := set_recent w (Some (t_addr t0))).
    assert (I0 : winvV w0) by (eapply winvV_same; [| | | | |exact I]; reflexivity).
    destruct (add_task_V w0 tl I0 Hn Habs (or_intror Logic.I)) as [I1 E1].
    split; [eapply winvV_same; [| | | | |exact I1]; reflexivity|]. split; [apply ext_same; reflexivity|]. split; [reflexivity|].
    split.
    + cbn [w_delayed set_delayed add_task put set_started set_tasks set_ready msg_tasks]. intros t' Ht'. apply in_app_or in Ht'.
      destruct Ht' as [Ht'|Ht']; [left; exact Ht'|]. right. rewrite Hsplit. apply in_or_app. left. exact Ht'.
    + cbn [w_tasks set_delayed add_task put set_started set_tasks set_ready msg_tasks]. intros t' Ht'. apply In_task_set in Ht'.
      destruct Ht' as [->|Ht']; [exists tl|exists t']; (split; [apply in_or_app; simpl; auto|auto]).
  - (* RESULT *)
    destruct (handle_result w a v) as [w1 ok] eqn:Eh.
    assert (L : a_w a = me w -> lexp w a v) by (intro E; apply (Hres (a, v)); simpl; auto).
    destruct (handle_result_V _ _ _ _ _ I L Eh) as (I1 & E1 & C1 & C2 & C3 & C4 & C5 & C6 & C7).
    destruct ok.
    + apply Plain; auto.
    + assert (I1' : winvV (set_rdead w1 true)) by (eapply winvV_same; [| | | | |exact I1]; reflexivity).
      assert (E1' : ext w (set_rdead w1 true)) by (eapply ext_trans; [exact E1|apply ext_same; reflexivity]).
      apply Plain; auto.
  - (* CANCEL *)
    assert (I1' : winvV (set_oos w true)) by (eapply winvV_same; [| | | | |exact I]; reflexivity).
    apply Plain; auto. apply ext_same; reflexivity.
Qed.

(* ===== part 10 ===== *)

Definition expect_ok (s : sys) (a : addr) (v : val) : Prop :=
  match a_w a with
  | DClient => In (a_box a, v) (s_roots s)
  | DWorker j => forall w, nth_error (s_workers s) j = Some w -> lexp w a v
  end.
Definition good_addr (s : sys) (a : addr) : Prop :=
  match a_w a with
  | DClient => True
  | DWorker j => exists w, nth_error (s_workers s) j = Some w /\ a_box a < w_counter w
  end.
Definition gtask_ok (s : sys) (t : task) : Prop := good_addr s (t_addr t) /\ expect_ok s (t_addr t) (ret_of (t_script t)).
Definition gres_ok (s : sys) (p : addr * val) : Prop := good_addr s (fst p) /\ expect_ok s (fst p) (snd p).

Record invV (s : sys) : Prop := {
  VG_w : forall w, In w (s_workers s) -> winvV w;
  VG_held : forall w t, In w (s_workers s) -> In t (w_held w) -> gtask_ok s t;
  VG_new : forall w t, In w (s_workers s) -> In t (chan_tasks (w_out w) ++ w_delayed w) -> is_new t;
  VG_down : forall q t, In q (s_down s) -> In t (chan_tasks q) -> gtask_ok s t /\ is_new t;
  VG_res_up : forall w p, In w (s_workers s) -> In p (chan_res (w_out w)) -> gres_ok s p;
  VG_res_down : forall q p, In q (s_down s) -> In p (chan_res q) -> gres_ok s p;
  VG_client : forall a v, In (a, v) (s_client s) -> In (a_box a, v) (s_roots s)
}.

(* the mailbox tables only grow at fresh ids / shrink: what was promised about an address stays true *)
Definition sys_ext (s s' : sys) : Prop :=
  (forall j w, nth_error (s_workers s) j = Some w -> exists w', nth_error (s_workers s') j = Some w' /\ ext w w') /\
  (forall j w', nth_error (s_workers s') j = Some w' -> exists w, nth_error (s_workers s) j = Some w /\ ext w w') /\
  (forall p, In p (s_roots s) -> In p (s_roots s')).

Lemma good_addr_ext : forall s s' a, sys_ext s s' -> good_addr s a -> good_addr s' a.
Proof. intros s s' a (H1 & H2 & H3) G. unfold good_addr in *. destruct (a_w a) as [|j]; auto.
  destruct G as (w & Hw & Hlt). destruct (H1 j w Hw) as (w' & Hw' & (_ & Hc & _)). exists w'. split; auto. lia. Qed.
Lemma expect_ok_ext : forall s s' a v, sys_ext s s' -> good_addr s a -> expect_ok s a v -> expect_ok s' a v.
Proof. intros s s' a v (H1 & H2 & H3) G E. unfold expect_ok, good_addr in *. destruct (a_w a) as [|j]; auto.
  intros w' Hw'. destruct (H2 j w' Hw') as (w & Hw & Ex). destruct G as (w0 & Hw0 & Hlt).
  assert (w0 = w) by congruence. subst w0. eapply lexp_ext; eauto. Qed.
Lemma gtask_ok_ext : forall s s' t, sys_ext s s' -> gtask_ok s t -> gtask_ok s' t.
Proof. intros s s' t X (G & E). split; [eapply good_addr_ext; eauto|eapply expect_ok_ext; eauto]. Qed.
Lemma gres_ok_ext : forall s s' p, sys_ext s s' -> gres_ok s p -> gres_ok s' p.
Proof. intros s s' p X (G & E). split; [eapply good_addr_ext; eauto|eapply expect_ok_ext; eauto]. Qed.
Lemma gtask_ok_key : forall s t t', t_addr t = t_addr t' -> t_script t = t_script t' -> gtask_ok s t -> gtask_ok s t'.
Proof. intros s t t' A B (G & E). unfold gtask_ok. rewrite <- A, <- B. auto. Qed.

Lemma sys_ext_worker : forall s i w w' d cl er nb ft, nth_error (s_workers s) i = Some w -> ext w w' ->
  sys_ext s (mkSys (set_nth i w' (s_workers s)) d cl er nb ft (s_roots s)).
Proof. intros s i w w' d cl er nb ft Hw E.
  assert (Hi : i < length (s_workers s)) by (apply nth_error_Some; congruence).
  split; [|split]; simpl; auto.
  - intros j w0 Hj. destruct (Nat.eq_dec i j).
    + subst. rewrite nth_error_set_nth_eq by auto. exists w'. split; auto. congruence.
    + rewrite nth_error_set_nth_neq by auto. exists w0. split; auto. apply ext_refl.
  - intros j w0 Hj. apply nth_error_set_nth in Hj. destruct Hj as [(<- & -> & _)|(Hne & Hj)].
    + eauto.
    + exists w0. split; auto. apply ext_refl.
Qed.

Lemma In_push_down : forall i m d q', In q' (push_down i m d) -> In q' d \/ exists q, In q d /\ q' = q ++ [m].
Proof. intros i m d q' H. unfold push_down, upd in H. destruct (nth_error d i) as [q|] eqn:E; auto.
  apply In_set_nth in H. destruct H as [->|H]; auto. right. exists q. split; auto. eapply nth_error_In; eauto. Qed.

Lemma In_pick : forall A (ts : list A) idx t, In t (pick ts idx) -> In t ts.
Proof. induction idx as [|i r IH]; simpl; intros; [tauto|]. destruct (nth_error ts i) eqn:E; auto.
  destruct H as [<-|H]; auto. eapply nth_error_In; eauto. Qed.

Lemma schedule_tasks_In : forall ts asg d q' t, In q' (schedule ts asg d) -> In t (chan_tasks q') ->
  (exists q, In q d /\ In t (chan_tasks q)) \/ In t ts.
Proof. intros ts asg. unfold schedule. induction asg as [|p r IH]; simpl; intros d q' t Hq Ht; eauto.
  destruct (IH _ _ _ Hq Ht) as [(q & Hq1 & Ht1)|]; auto.
  apply In_push_down in Hq1. destruct Hq1 as [Hq1|(q0 & Hq0 & ->)]; eauto.
  rewrite chan_tasks_app in Ht1. apply in_app_or in Ht1. destruct Ht1 as [Ht1|Ht1]; eauto.
  simpl in Ht1. rewrite app_nil_r in Ht1. right. eapply In_pick; eauto. Qed.
Lemma schedule_res_In : forall ts asg d q' p, In q' (schedule ts asg d) -> In p (chan_res q') ->
  exists q, In q d /\ In p (chan_res q).
Proof. intros ts asg. unfold schedule. induction asg as [|p0 r IH]; simpl; intros d q' p Hq Hp; eauto.
  destruct (IH _ _ _ Hq Hp) as (q & Hq1 & Hp1).
  apply In_push_down in Hq1. destruct Hq1 as [Hq1|(q0 & Hq0 & ->)]; eauto.
  rewrite chan_res_app in Hp1. apply in_app_or in Hp1. destruct Hp1 as [Hp1|Hp1]; eauto. simpl in Hp1. tauto. Qed.

Lemma invV_worker_update : forall s i w w' d' cl er ft,
  invV s -> nth_error (s_workers s) i = Some w -> ext w w' -> winvV w' ->
  let s' := mkSys (set_nth i w' (s_workers s)) d' cl er (s_nbox s) ft (s_roots s) in
  (forall t, In t (w_held w') -> gtask_ok s' t) ->
  (forall t, In t (chan_tasks (w_out w') ++ w_delayed w') -> is_new t) ->
  (forall p, In p (chan_res (w_out w')) -> gres_ok s' p) ->
  (forall q t, In q d' -> In t (chan_tasks q) -> gtask_ok s' t /\ is_new t) ->
  (forall q p, In q d' -> In p (chan_res q) -> gres_ok s' p) ->
  (forall a v, In (a, v) cl -> In (a_box a, v) (s_roots s)) ->
  invV s'.
Proof.
  intros s i w w' d' cl er ft I Hw E Iw' s' H1 H2 H3 H4 H5 H6.
  assert (X : sys_ext s s') by (eapply sys_ext_worker; eauto).
  constructor; simpl; auto.
  - intros w0 Hin. apply In_set_nth in Hin. destruct Hin as [->|Hin]; auto. apply (VG_w s I); auto.
  - intros w0 t Hin Ht. apply In_set_nth in Hin. destruct Hin as [->|Hin]; auto.
    eapply gtask_ok_ext; [exact X|]. eapply (VG_held s I); eauto.
  - intros w0 t Hin Ht. apply In_set_nth in Hin. destruct Hin as [->|Hin]; auto. eapply (VG_new s I); eauto.
  - intros w0 p Hin Hp. apply In_set_nth in Hin. destruct Hin as [->|Hin]; auto.
    eapply gres_ok_ext; [exact X|]. eapply (VG_res_up s I); eauto.
Qed.

Lemma In_set_nth_old : forall A i (x y : A) l, In y (set_nth i x l) -> y = x \/ In y l.
Proof. intros. apply In_set_nth in H. auto. Qed.

Lemma absent_from_uniq : forall s i w t, invA s -> nth_error (s_workers s) i = Some w ->
  (dcnt (t_addr t) (s_down s) >= 1 \/ tcnt (t_addr t) (w_delayed w) >= 1) ->
  task_get (t_addr t) (w_tasks w) = None.
Proof.
  intros s i w t I Hw H. apply task_get_None_tcnt.
  pose proof (A_cons s I (t_addr t)) as C. pose proof (A_uniq s I (t_addr t)) as U. unfold n_task in C.
  pose proof (held_le_total s (t_addr t) i w Hw) as G3. pose proof (tasks_le_held (t_addr t) w) as G4.
  destruct H; lia.
Qed.

Lemma step_invV : forall atomic s e s', invA s -> invV s -> step atomic s e = Some s' -> invV s'.
Proof.
  intros atomic s e s' IA I H. destruct e as [sc target|i|i|i asg]; simpl in H.
  - (* client *)
    destruct (Nat.ltb target (length (s_workers s))) eqn:Et; [|discriminate]. injection H as <-. b2p.
    set (s' := mkSys _ _ _ _ _ _ _).
    assert (X : sys_ext s s').
    { split; [|split]; simpl; auto.
      - intros j w Hj. exists w. split; auto. apply ext_refl.
      - intros j w Hj. exists w. split; auto. apply ext_refl.
      - intros p Hp. apply in_or_app. auto. }
    constructor; simpl.
    + apply (VG_w s I).
    + intros w t Hin Ht. eapply gtask_ok_ext; [exact X|]. eapply (VG_held s I); eauto.
    + apply (VG_new s I).
    + intros q t Hq Ht. apply In_push_down in Hq. destruct Hq as [Hq|(q0 & Hq0 & ->)].
      * destruct (VG_down s I q t Hq Ht). split; auto. eapply gtask_ok_ext; eauto.
      * rewrite chan_tasks_app in Ht. apply in_app_or in Ht. destruct Ht as [Ht|[<-|[]]].
        -- destruct (VG_down s I q0 t Hq0 Ht). split; auto. eapply gtask_ok_ext; eauto.
        -- split; [|reflexivity]. split; [exact Logic.I|]. unfold expect_ok. simpl. apply in_or_app. right. left. reflexivity.
    + intros w p Hin Hp. eapply gres_ok_ext; [exact X|]. eapply (VG_res_up s I); eauto.
    + intros q p Hq Hp. apply In_push_down in Hq. destruct Hq as [Hq|(q0 & Hq0 & ->)].
      * eapply gres_ok_ext; [exact X|]. eapply (VG_res_down s I); eauto.
      * rewrite chan_res_app in Hp. apply in_app_or in Hp. destruct Hp as [Hp|[]].
        eapply gres_ok_ext; [exact X|]. eapply (VG_res_down s I); eauto.
    + intros a v Hin. apply in_or_app. left. apply (VG_client s I); auto.
  - (* recv *)
    destruct (nth_error (s_workers s) i) as [w|] eqn:Ew; [|discriminate].
    destruct (nth_error (s_down s) i) as [[|m q]|] eqn:Ed; try discriminate.
    destruct (w_rdead w) eqn:Erd; [discriminate|]. injection H as <-.
    pose proof (nth_error_In _ _ Ew) as Hwin. pose proof (nth_error_In _ _ Ed) as Hqin.
    assert (Hmt : forall t, In t (msg_tasks m) -> In t (chan_tasks (m :: q))) by (intros; rewrite chan_tasks_cons; apply in_or_app; auto).
    assert (Hmr : forall p, In p (msg_res m) -> In p (chan_res (m :: q))) by (intros; unfold chan_res; simpl; apply in_or_app; auto).
    destruct (recv_step_V w m (VG_w s I w Hwin) Erd) as (I1 & E1 & O1 & D1 & T1).
    + intros t Ht. split; [apply (VG_down s I _ _ Hqin (Hmt t Ht))|].
      eapply absent_from_uniq; eauto. left.
      assert (G1 : tcnt (t_addr t) (chan_tasks (m :: q)) <= dcnt (t_addr t) (s_down s)).
      { apply (sumf_ge _ (fun q => tcnt (t_addr t) (chan_tasks q))). auto. }
      assert (G2 : tcnt (t_addr t) (chan_tasks (m :: q)) >= 1) by (unfold tcnt; apply cnt_pos_in; apply in_map; auto). lia.
    + intros p Hp Hme. destruct (VG_res_down s I _ _ Hqin (Hmr p Hp)) as (_ & Ex). unfold expect_ok in Ex.
      rewrite Hme in Ex. unfold me in Ex. rewrite (A_ids s IA i w Ew) in Ex. apply Ex. auto.
    + apply (invV_worker_update s i w (recv_step w m) (set_nth i q (s_down s)) (s_client s) (s_errors s) (s_fatal s) I Ew E1 I1).
      * set (s' := mkSys _ _ _ _ _ _ _).
        assert (X : sys_ext s s') by (eapply sys_ext_worker; eauto).
        intros t Ht. unfold w_held in Ht. rewrite O1 in Ht. apply in_app_or in Ht. destruct Ht as [Ht|Ht].
        -- eapply gtask_ok_ext; [exact X|]. apply (VG_held s I w); auto. unfold w_held. apply in_or_app. auto.
        -- apply in_app_or in Ht. destruct Ht as [Ht|Ht].
           ++ eapply gtask_ok_ext; [exact X|]. destruct (D1 t Ht) as [Hd|Hd].
              ** apply (VG_held s I w); auto. unfold w_held. apply in_or_app. right. apply in_or_app. auto.
              ** apply (VG_down s I _ _ Hqin (Hmt t Hd)).
           ++ destruct (T1 t Ht) as (t0 & Ht0 & A & B). eapply gtask_ok_key; eauto. eapply gtask_ok_ext; [exact X|].
              apply in_app_or in Ht0. destruct Ht0 as [Ht0|Ht0].
              ** apply (VG_held s I w); auto. unfold w_held. apply in_or_app. right. apply in_or_app. auto.
              ** apply (VG_down s I _ _ Hqin (Hmt t0 Ht0)).
      * intros t Ht. rewrite O1 in Ht. apply in_app_or in Ht. destruct Ht as [Ht|Ht].
        -- apply (VG_new s I w); auto. apply in_or_app. auto.
        -- destruct (D1 t Ht) as [Hd|Hd].
           ++ apply (VG_new s I w); auto. apply in_or_app. auto.
           ++ apply (VG_down s I _ _ Hqin (Hmt t Hd)).
      * set (s' := mkSys _ _ _ _ _ _ _).
        assert (X : sys_ext s s') by (eapply sys_ext_worker; eauto).
        intros p Hp. rewrite O1 in Hp. eapply gres_ok_ext; [exact X|]. apply (VG_res_up s I w); auto.
      * set (s' := mkSys _ _ _ _ _ _ _).
        assert (X : sys_ext s s') by (eapply sys_ext_worker; eauto).
        intros q' t Hq' Ht. apply In_set_nth in Hq'. destruct Hq' as [->|Hq'].
        -- assert (Ht' : In t (chan_tasks (m :: q))) by (rewrite chan_tasks_cons; apply in_or_app; auto).
           destruct (VG_down s I _ _ Hqin Ht'). split; auto. eapply gtask_ok_ext; eauto.
        -- destruct (VG_down s I _ _ Hq' Ht). split; auto. eapply gtask_ok_ext; eauto.
      * set (s' := mkSys _ _ _ _ _ _ _).
        assert (X : sys_ext s s') by (eapply sys_ext_worker; eauto).
        intros q' p Hq' Hp. apply In_set_nth in Hq'. destruct Hq' as [->|Hq'].
        -- assert (Hp' : In p (chan_res (m :: q))) by (unfold chan_res; simpl; apply in_or_app; auto).
           eapply gres_ok_ext; [exact X|]. apply (VG_res_down s I _ _ Hqin Hp').
        -- eapply gres_ok_ext; [exact X|]. apply (VG_res_down s I _ _ Hq' Hp).
      * apply (VG_client s I).
  - (* main *)
    destruct (nth_error (s_workers s) i) as [w|] eqn:Ew; [|discriminate].
    destruct (main_step atomic w) as [w'|] eqn:Em; [|discriminate]. injection H as <-.
    pose proof (nth_error_In _ _ Ew) as Hwin.
    assert (Hown : own_ok w).
    { intros t Ht Hme. destruct (VG_held s I w t Hwin) as (G & Ex).
      { unfold w_held. apply in_or_app. right. apply in_or_app. auto. }
      unfold expect_ok, good_addr in *. rewrite Hme in *. unfold me in *. rewrite (A_ids s IA i w Ew) in *.
      split; [apply Ex; auto|]. destruct G as (w0 & Hw0 & Hlt). congruence. }
    assert (Hdel : forall t, In t (w_delayed w) -> is_new t /\ task_get (t_addr t) (w_tasks w) = None).
    { intros t Ht. split; [apply (VG_new s I w); auto; apply in_or_app; auto|].
      eapply absent_from_uniq; eauto. right. unfold tcnt. apply cnt_pos_in. apply in_map. auto. }
    destruct (main_step_V atomic w w' (VG_w s I w Hwin) Hown Hdel Em) as (I1 & E1 & (news & N1 & N2) & D1 & T1 & R1).
    apply (invV_worker_update s i w w' (s_down s) (s_client s) (s_errors s) (s_fatal s) I Ew E1 I1).
    + set (s' := mkSys _ _ _ _ _ _ _).
      assert (X : sys_ext s s') by (eapply sys_ext_worker; eauto).
      assert (Hi : i < length (s_workers s)) by (apply nth_error_Some; congruence).
      intros t Ht. unfold w_held in Ht. apply in_app_or in Ht. destruct Ht as [Ht|Ht].
      * rewrite N1 in Ht. apply in_app_or in Ht. destruct Ht as [Ht|Ht].
        -- eapply gtask_ok_ext; [exact X|]. apply (VG_held s I w); auto. unfold w_held. apply in_or_app. auto.
        -- destruct (N2 t Ht) as (_ & Hme & Hlt & Lx). unfold me in Hme. rewrite (A_ids s IA i w Ew) in Hme.
           split; unfold good_addr, expect_ok; rewrite Hme; simpl.
           ++ exists w'. split; auto. apply nth_error_set_nth_eq; auto.
           ++ intros w0 Hw0. rewrite nth_error_set_nth_eq in Hw0 by auto. injection Hw0 as <-. exact Lx.
      * apply in_app_or in Ht. destruct Ht as [Ht|Ht].
        -- eapply gtask_ok_ext; [exact X|]. apply (VG_held s I w); auto. unfold w_held. apply in_or_app. right. apply in_or_app. auto.
        -- destruct (T1 t Ht) as (t0 & Ht0 & A & B). eapply gtask_ok_key; eauto. eapply gtask_ok_ext; [exact X|].
           apply (VG_held s I w); auto. unfold w_held. apply in_or_app. right. apply in_app_or in Ht0. apply in_or_app. tauto.
    + intros t Ht. apply in_app_or in Ht. destruct Ht as [Ht|Ht].
      * rewrite N1 in Ht. apply in_app_or in Ht. destruct Ht as [Ht|Ht].
        -- apply (VG_new s I w); auto. apply in_or_app. auto.
        -- apply (N2 t Ht).
      * apply (VG_new s I w); auto. apply in_or_app. auto.
    + set (s' := mkSys _ _ _ _ _ _ _).
      assert (X : sys_ext s s') by (eapply sys_ext_worker; eauto).
      intros p Hp. eapply gres_ok_ext; [exact X|]. destruct (R1 p Hp) as [Hp'|(t & Ht & ->)].
      * apply (VG_res_up s I w); auto.
      * apply (VG_held s I w t Hwin). unfold w_held. apply in_or_app. right. apply in_or_app. auto.
    + set (s' := mkSys _ _ _ _ _ _ _).
      assert (X : sys_ext s s') by (eapply sys_ext_worker; eauto).
      intros q t Hq Ht. destruct (VG_down s I _ _ Hq Ht). split; auto. eapply gtask_ok_ext; eauto.
    + set (s' := mkSys _ _ _ _ _ _ _).
      assert (X : sys_ext s s') by (eapply sys_ext_worker; eauto).
      intros q p Hq Hp. eapply gres_ok_ext; [exact X|]. apply (VG_res_down s I _ _ Hq Hp).
    + apply (VG_client s I).
  - (* server *)
    destruct (nth_error (s_workers s) i) as [w|] eqn:Ew; [|discriminate].
    destruct (w_out w) as [|m q] eqn:Eo; [discriminate|].
    pose proof (nth_error_In _ _ Ew) as Hwin.
    set (w0 := set_out w q) in *.
    assert (E0 : ext w w0) by (apply ext_same; reflexivity).
    assert (I0 : winvV w0) by (eapply winvV_same; [| | | | |apply (VG_w s I w Hwin)]; reflexivity).
    assert (Hmt : forall t, In t (msg_tasks m) -> In t (w_held w)).
    { intros t Ht. unfold w_held. rewrite Eo, chan_tasks_cons. apply in_or_app. left. apply in_or_app. auto. }
    assert (Hmr : forall p, In p (msg_res m) -> In p (chan_res (w_out w))).
    { intros p Hp. rewrite Eo. unfold chan_res. simpl. apply in_or_app. auto. }
    assert (Hnew_m : forall t, In t (msg_tasks m) -> is_new t).
    { intros t Ht. apply (VG_new s I w); auto. apply in_or_app. left. rewrite Eo, chan_tasks_cons. apply in_or_app. auto. }
    assert (G : forall d' cl er ft,
              (forall q' t, In q' d' -> In t (chan_tasks q') -> (exists q0, In q0 (s_down s) /\ In t (chan_tasks q0)) \/ In t (msg_tasks m)) ->
              (forall q' p, In q' d' -> In p (chan_res q') -> (exists q0, In q0 (s_down s) /\ In p (chan_res q0)) \/ In p (msg_res m)) ->
              (forall a v, In (a, v) cl -> In (a_box a, v) (s_roots s)) ->
              invV (mkSys (set_nth i w0 (s_workers s)) d' cl er (s_nbox s) ft (s_roots s))).
    { intros d' cl er ft Hd1 Hd2 Hcl.
      apply (invV_worker_update s i w w0 d' cl er ft I Ew E0 I0); auto.
      - set (sx := mkSys _ _ _ _ _ _ _). assert (X : sys_ext s sx) by (eapply sys_ext_worker; eauto).
        intros t Ht. eapply gtask_ok_ext; [exact X|]. apply (VG_held s I w); auto.
        unfold w_held in *. simpl in Ht. rewrite Eo, chan_tasks_cons. apply in_app_or in Ht.
        destruct Ht as [Ht|Ht]; apply in_or_app; [left; apply in_or_app; auto|auto].
      - intros t Ht. apply (VG_new s I w); auto. simpl in Ht. rewrite Eo, chan_tasks_cons.
        apply in_app_or in Ht. destruct Ht as [Ht|Ht]; apply in_or_app; [left; apply in_or_app; auto|auto].
      - set (sx := mkSys _ _ _ _ _ _ _). assert (X : sys_ext s sx) by (eapply sys_ext_worker; eauto).
        intros p Hp. eapply gres_ok_ext; [exact X|]. apply (VG_res_up s I w); auto. simpl in Hp. rewrite Eo.
        unfold chan_res. simpl. apply in_or_app. auto.
      - set (sx := mkSys _ _ _ _ _ _ _). assert (X : sys_ext s sx) by (eapply sys_ext_worker; eauto).
        intros q' t Hq' Ht. destruct (Hd1 q' t Hq' Ht) as [(q0 & Hq0 & Ht0)|Ht0].
        + destruct (VG_down s I _ _ Hq0 Ht0). split; auto. eapply gtask_ok_ext; eauto.
        + split; [|apply Hnew_m; auto]. eapply gtask_ok_ext; [exact X|]. apply (VG_held s I w); auto.
      - set (sx := mkSys _ _ _ _ _ _ _). assert (X : sys_ext s sx) by (eapply sys_ext_worker; eauto).
        intros q' p Hq' Hp. eapply gres_ok_ext; [exact X|]. destruct (Hd2 q' p Hq' Hp) as [(q0 & Hq0 & Hp0)|Hp0].
        + apply (VG_res_down s I _ _ Hq0 Hp0).
        + apply (VG_res_up s I w); auto. }
    unfold server_msg in H. cbn [s_workers set_workers s_down s_client s_errors s_nbox s_fatal s_roots] in H.
    rewrite set_nth_length in H.
    assert (Gsame : forall cl er ft, (forall a v, In (a, v) cl -> In (a_box a, v) (s_roots s)) ->
               invV (mkSys (set_nth i w0 (s_workers s)) (s_down s) cl er (s_nbox s) ft (s_roots s))).
    { intros. apply G; eauto. }
    destruct m as [t|ts|a v c|r| |c| |a].
    + destruct (valid_asg (length (s_workers s)) 1 asg); [|discriminate]. injection H as <-.
      apply G; [| |apply (VG_client s I)].
      * intros q' t' Hq' Ht'. apply (schedule_tasks_In _ _ _ _ _ Hq' Ht').
      * intros q' p Hq' Hp. left. apply (schedule_res_In _ _ _ _ _ Hq' Hp).
    + destruct (valid_asg (length (s_workers s)) (length ts) asg); [|discriminate]. injection H as <-.
      apply G; [| |apply (VG_client s I)].
      * intros q' t' Hq' Ht'. apply (schedule_tasks_In _ _ _ _ _ Hq' Ht').
      * intros q' p Hq' Hp. left. apply (schedule_res_In _ _ _ _ _ Hq' Hp).
    + destruct (a_w a) as [|j] eqn:Ea.
      * injection H as <-. apply Gsame. intros a' v' Hin. apply in_app_or in Hin. destruct Hin as [Hin|[Hin|[]]].
        -- apply (VG_client s I); auto.
        -- injection Hin as <- <-. destruct (VG_res_up s I w (a, v) Hwin (Hmr _ (or_introl eq_refl))) as (_ & Ex).
           unfold expect_ok in Ex. simpl in Ex. rewrite Ea in Ex. exact Ex.
      * destruct (Nat.ltb j (length (s_workers s))); injection H as <-; [|apply Gsame; apply (VG_client s I)].
        apply G; [| |apply (VG_client s I)].
        -- intros q' t Hq' Ht. left. apply In_push_down in Hq'. destruct Hq' as [Hq'|(q0 & Hq0 & ->)]; eauto.
           rewrite chan_tasks_app in Ht. simpl in Ht. rewrite app_nil_r in Ht. eauto.
        -- intros q' p Hq' Hp. apply In_push_down in Hq'. destruct Hq' as [Hq'|(q0 & Hq0 & ->)]; eauto.
           rewrite chan_res_app in Hp. apply in_app_or in Hp. destruct Hp as [Hp|Hp]; eauto.
    + injection H as <-. apply Gsame. apply (VG_client s I).
    + injection H as <-. apply Gsame. apply (VG_client s I).
    + injection H as <-. apply Gsame. apply (VG_client s I).
    + injection H as <-. apply Gsame. apply (VG_client s I).
    + injection H as <-. apply G; [| |apply (VG_client s I)].
      * intros q' t Hq' Ht. left. apply in_map_iff in Hq'. destruct Hq' as (q0 & <- & Hq0).
        rewrite chan_tasks_app in Ht. simpl in Ht. rewrite app_nil_r in Ht. eauto.
      * intros q' p Hq' Hp. left. apply in_map_iff in Hq'. destruct Hq' as (q0 & <- & Hq0).
        rewrite chan_res_app in Hp. simpl in Hp. rewrite app_nil_r in Hp. eauto.
Qed.

(* ===== part 11 ===== *)

Lemma winvV_w0 : forall j, winvV (w0 j).
Proof. intro j. constructor; simpl; auto.
  - constructor.
  - tauto.
  - intros; discriminate.
  - tauto.
  - exact Logic.I. Qed.

Lemma invV_init : forall k, invV (sys0 k).
Proof. intro k. constructor; simpl.
  - intros w Hw. apply in_map_iff in Hw. destruct Hw as (j & <- & _). apply winvV_w0.
  - intros w t Hw Ht. apply in_map_iff in Hw. destruct Hw as (j & <- & _). simpl in Ht. tauto.
  - intros w t Hw Ht. apply in_map_iff in Hw. destruct Hw as (j & <- & _). simpl in Ht. tauto.
  - intros q t Hq Ht. apply repeat_spec in Hq. subst. simpl in Ht. tauto.
  - intros w p Hw Hp. apply in_map_iff in Hw. destruct Hw as (j & <- & _). simpl in Hp. tauto.
  - intros q p Hq Hp. apply repeat_spec in Hq. subst. simpl in Hp. tauto.
  - tauto. Qed.

Definition reachable (atomic : bool) (k : nat) (s : sys) : Prop := exists es, steps atomic (sys0 k) es = Some s.

Lemma steps_inv : forall atomic es s s', invA s /\ invV s -> steps atomic s es = Some s' -> invA s' /\ invV s'.
Proof. induction es as [|e r IH]; simpl; intros s s' [IA IV] H.
  - injection H as <-. auto.
  - destruct (step atomic s e) as [s1|] eqn:E; [|discriminate]. apply (IH s1); auto.
    split; [eapply step_invA; eauto|eapply step_invV; eauto]. Qed.

Lemma reachable_inv : forall atomic k s, reachable atomic k s -> invA s /\ invV s.
Proof. intros atomic k s [es H]. eapply steps_inv; [|exact H]. split; [apply invA_init|apply invV_init]. Qed.

(* ---- conservation ---- *)
Definition quiescent_tasks (s : sys) : Prop :=
  (forall q, In q (s_down s) -> chan_tasks q = []) /\
  (forall w, In w (s_workers s) -> chan_tasks (w_out w) = [] /\ w_delayed w = []).

Lemma n_running_le : forall a s, n_running a s <= sumf (fun w => tcnt a (w_held w)) (s_workers s).
Proof. intros. unfold n_running. induction (s_workers s) as [|w r IH]; simpl; auto.
  pose proof (tasks_le_held a w). lia. Qed.

Theorem task_conservation : forall atomic k s, reachable atomic k s ->
  forall a, n_task a s + n_fin a s = n_created a s /\ n_created a s <= 1 /\
            n_started a s <= n_created a s /\
            (quiescent_tasks s -> n_started a s = n_created a s).
Proof.
  intros atomic k s R a. destruct (reachable_inv _ _ _ R) as [IA _].
  pose proof (A_cons s IA a) as C. pose proof (A_uniq s IA a) as U. pose proof (A_start s IA a) as S.
  pose proof (n_running_le a s) as L. unfold n_task in *.
  split; [exact C|]. split; [exact U|]. split; [lia|].
  intros [Q1 Q2].
  assert (D0 : dcnt a (s_down s) = 0).
  { unfold dcnt. apply sumf_zero. intros q Hq. rewrite (Q1 q Hq). reflexivity. }
  assert (H0 : sumf (fun w => tcnt a (w_held w)) (s_workers s) = n_running a s).
  { unfold n_running. apply sumf_ext. intros w Hw. destruct (Q2 w Hw) as [E1 E2]. unfold w_held. rewrite E1, E2. reflexivity. }
  lia.
Qed.

(* ---- values ---- *)
Theorem slot_values : forall atomic k s, reachable atomic k s ->
  (forall w a sc mo f vs, In w (s_workers s) -> In (a, sc, mo, OAwait f vs) (w_log w) ->
     forall i v, nth_error vs i = Some (Some v) -> slot_spec sc f i v) /\
  (forall w a sc mo f bt, In w (s_workers s) -> In (a, sc, mo, ONext f bt) (w_log w) ->
     forall i v, In (i, v) bt -> slot_spec sc f i v) /\
  (forall a v, In (a, v) (s_client s) -> In (a_box a, v) (s_roots s)) /\
  (forall b v v', In (b, v) (s_roots s) -> In (b, v') (s_roots s) -> v = v').
Proof.
  intros atomic k s R. destruct (reachable_inv _ _ _ R) as [IA IV].
  split; [|split; [|split]].
  - intros w a sc mo f vs Hw Hin. pose proof (V_log w (VG_w s IV w Hw)) as L. rewrite Forall_forall in L.
    apply (L _ Hin).
  - intros w a sc mo f bt Hw Hin. pose proof (V_log w (VG_w s IV w Hw)) as L. rewrite Forall_forall in L.
    apply (L _ Hin).
  - apply (VG_client s IV).
  - intros b v v' H1 H2.
    assert (N : NoDup (map root_addr (s_roots s))).
    { apply cnt_le1_NoDup. intro a. pose proof (A_uniq s IA a) as U. unfold n_created in U. lia. }
    clear - H1 H2 N. induction (s_roots s) as [|[b0 v0] r IH]; simpl in *; [tauto|].
    inversion N as [|x l Hnot Hnd]; subst.
    destruct H1 as [E1|H1]; destruct H2 as [E2|H2].
    + congruence.
    + injection E1 as -> ->. exfalso. apply Hnot. apply in_map_iff. exists (b, v'). auto.
    + injection E2 as -> ->. exfalso. apply Hnot. apply in_map_iff. exists (b, v). auto.
    + auto.
Qed.

(* ===== part 12 ===== *)

(* ---------- Part B: conservation of results ---------- *)
Definition rcnt (a : addr) (l : list (addr * val)) : nat := cnt a (map fst l).
Lemma rcnt_app : forall a l1 l2, rcnt a (l1 ++ l2) = rcnt a l1 + rcnt a l2.
Proof. intros. unfold rcnt. rewrite map_app, cnt_app. reflexivity. Qed.

(* what a worker holds of the life of results: in its upward channel, deposited, dropped *)
Definition w_resB (a : addr) (w : wstate) : nat :=
  rcnt a (chan_res (w_out w)) + cnt a (w_deposited w) + cnt a (w_dropped w).

Definition sameB (w w' : wstate) : Prop :=
  chan_res (w_out w') = chan_res (w_out w) /\ w_deposited w' = w_deposited w /\ w_dropped w' = w_dropped w /\
  w_stuck w' = w_stuck w /\ w_finished w' = w_finished w /\ map t_addr (w_tasks w') = map t_addr (w_tasks w).
Lemma sameB_refl : forall w, sameB w w. Proof. intro; repeat split; reflexivity. Qed.
Lemma sameB_trans : forall a b c, sameB a b -> sameB b c -> sameB a c.
Proof. unfold sameB. intros a b c (A1&A2&A3&A4&A5&A6) (B1&B2&B3&B4&B5&B6). repeat split; congruence. Qed.
Ltac sameB_tac := repeat split; try reflexivity.

(* worker transition, seen from the result accounting:
   rin = results consumed from the incoming channel *)
Definition stepB (w w' : wstate) (rin : list (addr * val)) : Prop :=
  exists fin,
    w_finished w' = w_finished w ++ fin /\
    (forall x, w_resB x w' + cnt x (w_stuck w) = w_resB x w + rcnt x rin + cnt x (map fst fin) + cnt x (w_stuck w')) /\
    (forall x, cnt x (w_stuck w') <= cnt x (w_stuck w) + tcnt x (w_tasks w')) /\
    (forall x, tcnt x (w_tasks w) <= tcnt x (w_tasks w') + cnt x (map fst fin)).

Lemma stepB_same : forall w w', sameB w w' -> stepB w w' [].
Proof. intros w w' (H1&H2&H3&H4&H5&H6). exists []. unfold w_resB, tcnt. rewrite H1, H2, H3, H4, H5, H6, app_nil_r.
  repeat split; intros; unfold rcnt; simpl; rewrite ?cnt_nil; lia. Qed.

Lemma handle_result_B : forall w a v w1 ok, handle_result w a v = (w1, ok) ->
  w_out w1 = w_out w /\ w_stuck w1 = w_stuck w /\ w_finished w1 = w_finished w /\ w_tasks w1 = w_tasks w /\
  (forall x, cnt x (w_deposited w1) + cnt x (w_dropped w1) =
             cnt x (w_deposited w) + cnt x (w_dropped w) + (if addr_eqb x a then 1 else 0)).
Proof. intros w a v w1 ok H. unfold handle_result in H.
  destruct (negb (dest_eqb (a_w a) (me w))).
  { injection H as <- <-. simpl. repeat split; auto. intro x. rewrite cnt_app, cnt_single. lia. }
  destruct (box_get (a_box a) (w_boxes w)) as [b|].
  2:{ injection H as <- <-. simpl. repeat split; auto. intro x. rewrite cnt_app, cnt_single. lia. }
  destruct (deposit b (a_slot a) v) as [b1 ok1].
  assert (G : forall x, cnt x (w_deposited w ++ [a]) + cnt x (w_dropped w) =
             cnt x (w_deposited w) + cnt x (w_dropped w) + (if addr_eqb x a then 1 else 0))
    by (intro x; rewrite cnt_app, cnt_single; lia).
  destruct (negb ok1); [injection H as <- <-; simpl; repeat split; auto|].
  destruct (b_dest b1) as [d|]; [|injection H as <- <-; simpl; repeat split; auto].
  cbn [w_tasks set_deposited set_boxes] in H.
  destruct (task_get d (w_tasks w)) as [t|]; [|injection H as <- <-; simpl; repeat split; auto].
  destruct (t_won t || b_ready b1); injection H as <- <-; simpl; repeat split; auto. Qed.

Lemma close_boxes_B : forall owned w w1 ok, close_boxes owned w = (w1, ok) -> sameB w w1.
Proof. induction owned as [|m r IH]; simpl; intros w w1 ok H.
  - injection H as <- <-. apply sameB_refl.
  - idtac.
    destruct (box_get m (w_boxes w)) as [b|]; [|injection H as <- <-; sameB_tac].
    destruct (b_ready b); apply IH in H; (eapply sameB_trans; [|exact H]); sameB_tac.
    simpl. rewrite chan_res_app, cancel_msgs_res. apply app_nil_r. Qed.

Lemma chan_res_eff_msgs : forall me comp es c, chan_res (eff_msgs me comp c es) = [].
Proof. induction es as [|sp r IH]; simpl; intros; auto. destruct sp; simpl; auto. Qed.
Lemma apply_eff_B : forall w comp es, sameB w (apply_eff w comp es).
Proof. intros. unfold apply_eff. sameB_tac. simpl. rewrite chan_res_app, chan_res_eff_msgs. apply app_nil_r. Qed.

Lemma desired_result_B : forall w t w1 t1 sv, desired_result w t = inl (w1, t1, sv) -> sameB w w1.
Proof. intros w t w1 t1 sv H. unfold desired_result in H.
  destruct (t_desired t) as [m|]; [|injection H as <- <- <-; apply sameB_refl].
  destruct (box_get m (w_boxes w)) as [b|]; [|discriminate].
  destruct (t_won t).
  - destruct (b_fresh b); [|discriminate]. injection H as <- <- <-. sameB_tac.
  - destruct (negb (b_ready b)); [discriminate|]. destruct (remove_first m (t_owned t)); [|discriminate].
    injection H as <- <- <-. sameB_tac. Qed.

Lemma resume_B : forall w t sv w' t' y, resume w t sv = (w', t', y) -> sameB w w'.
Proof.
  intros w t sv w' t' y H. unfold resume in H.
  assert (Hr : forall w0 t0, sameB w w0 -> run (t_rest t) w0 t0 = (w', t', y) -> sameB w w').
  { intros w0 t0 S Hrun. apply run_exact in Hrun. destruct Hrun as (es & _ & _ & _ & _ & Hw & _). rewrite Hw.
    eapply sameB_trans; [exact S|apply apply_eff_B]. }
  assert (Hx : raised w t = (w', t', y) -> sameB w w').
  { unfold raised. intro E. injection E as <- <- <-. apply sameB_refl. }
  destruct (t_pend t); destruct sv; try (apply Hx; exact H);
    (match type of H with run _ ?wl ?tl = _ => apply (Hr wl tl) end; [sameB_tac|exact H]).
Qed.

Lemma task_set_addrs_same : forall w t t0, task_get (t_addr t) (w_tasks w) = Some t0 ->
  sameB w (set_tasks w (task_set t (w_tasks w))).
Proof. intros. sameB_tac. simpl. eapply task_set_present_addrs; eauto. Qed.

Lemma aw_B : forall w a m nxt, sameB w (aw1 w a m) /\ sameB w (aw1c w a nxt) /\ sameB w (aw2 w a m).
Proof. intros. split; [|split].
  - destruct (aw1_A w a m) as (_&Q&_). unfold aw1 in *.
    destruct (box_get m (w_boxes w)); simpl in *; destruct (task_get a (w_tasks w)); sameB_tac; exact Q.
  - destruct (aw1c_A w a nxt) as (_&Q&_). unfold aw1c in *. destruct (task_get a (w_tasks w)); sameB_tac; exact Q.
  - unfold aw2. destruct (box_get m (w_boxes w)) as [b|]; [destruct (b_ready b)|]; sameB_tac.
Qed.

Lemma complete_B : forall w t v w1 ok t0, task_get (t_addr t) (w_tasks w) = Some t0 ->
  complete w t v = (w1, ok) -> stepB w w1 [].
Proof.
  intros w t v w1 ok t0 Hg H. unfold complete in H.
  pose proof (task_get_Some_tcnt _ _ _ Hg) as Hpos.
  destruct (dest_eqb (a_w (t_addr t)) (me w)).
  - destruct (handle_result w (t_addr t) v) as [w' ok'] eqn:E.
    destruct (handle_result_B _ _ _ _ _ E) as (B1 & B2 & B3 & B4 & B5).
    destruct ok'; cbn [negb] in H.
    + destruct (close_boxes (t_owned t) _) as [w3 ok3] eqn:E3 in H. injection H as <- <-.
      apply close_boxes_B in E3. destruct E3 as (C1&C2&C3&C4&C5&C6).
      cbn [set_finished set_tasks send set_out w_out w_deposited w_dropped w_stuck w_finished w_tasks] in *.
      exists [(t_addr t, v)]. split; [rewrite C5, B3; reflexivity|].
      split; [|split].
      * intro x. unfold w_resB. rewrite C1, C2, C3, C4, chan_res_app, B1, B2. simpl. rewrite app_nil_r.
        specialize (B5 x). unfold rcnt. simpl. rewrite cnt_single, cnt_nil. lia.
      * intro x. rewrite C4, B2. lia.
      * intro x. unfold tcnt at 2. rewrite C6, B4. pose proof (tcnt_task_del x _ _ _ Hg) as D. unfold tcnt in *.
        simpl. rewrite cnt_single. lia.
    + injection H as <- <-. exists []. simpl. rewrite app_nil_r.
      split; [exact B3|]. split; [|split].
      * intro x. unfold w_resB. simpl. rewrite B1, B2, cnt_app, cnt_single. specialize (B5 x). unfold rcnt. simpl. rewrite cnt_nil. lia.
      * intro x. rewrite B2, B4, cnt_app, cnt_single. destruct (addr_eqb x (t_addr t)) eqn:Ex; [|lia].
        apply addr_eqb_eq in Ex. subst x. lia.
      * intro x. rewrite B4. rewrite cnt_nil. lia.
  - cbn [negb] in H. destruct (close_boxes (t_owned t) _) as [w3 ok3] eqn:E3 in H. injection H as <- <-.
    apply close_boxes_B in E3. destruct E3 as (C1&C2&C3&C4&C5&C6).
    cbn [set_finished set_tasks send set_out w_out w_deposited w_dropped w_stuck w_finished w_tasks] in *.
    exists [(t_addr t, v)]. split; [rewrite C5; reflexivity|].
    split; [|split].
    + intro x. unfold w_resB. rewrite C1, C2, C3, C4, chan_res_app, rcnt_app. unfold rcnt. simpl. rewrite cnt_single, cnt_nil. lia.
    + intro x. rewrite C4. lia.
    + intro x. unfold tcnt at 2. rewrite C6. pose proof (tcnt_task_del x _ _ _ Hg) as D. unfold tcnt in *.
      simpl. rewrite cnt_single. lia.
Qed.

Lemma stepB_trans_same : forall a b c, sameB a b -> stepB b c [] -> stepB a c [].
Proof. intros a b c (A1&A2&A3&A4&A5&A6) (fin & F1 & F2 & F3 & F4). exists fin. unfold w_resB, tcnt in *.
  rewrite <- A1, <- A2, <- A3, <- A4, <- A5, <- A6. auto. Qed.
Lemma stepB_same_trans : forall a b c, stepB a b [] -> sameB b c -> stepB a c [].
Proof. intros a b c (fin & F1 & F2 & F3 & F4) (A1&A2&A3&A4&A5&A6). exists fin. unfold w_resB, tcnt in *.
  rewrite A1, A2, A3, A4, A5, A6. auto. Qed.

Lemma send_B : forall w m, msg_res m = [] -> sameB w (send w m).
Proof. intros. unfold send. sameB_tac. simpl. rewrite chan_res_app. simpl. rewrite H. apply app_nil_r. Qed.

Lemma dispatch_B : forall atomic w a, stepB w (dispatch atomic w a) [].
Proof.
  intros atomic w a. unfold dispatch.
  destruct (task_get a (w_tasks w)) as [t|] eqn:Eg; [|apply stepB_same; sameB_tac].
  pose proof (task_get_Some _ _ _ Eg) as [Hta _].
  destruct (desired_result w t) as [[[w1 t1] sv]|e] eqn:Ed.
  2:{ apply stepB_same. unfold task_error. sameB_tac. simpl. rewrite chan_res_app. simpl. apply app_nil_r. }
  pose proof (desired_result_B _ _ _ _ _ Ed) as S1.
  pose proof (desired_result_A _ _ _ _ _ Ed) as (_ & Ha1 & _).
  pose proof (desired_result_tasks _ _ _ _ _ Ed) as T1.
  destruct (resume w1 (t_set_desired (t_set_won t1 false) None) sv) as [[w2 t3] y] eqn:Er.
  pose proof (resume_B _ _ _ _ _ _ Er) as S2.
  apply resume_A in Er. destruct Er as (w0 & es & _ & T2 & Ew & Ha3 & _). simpl in Ha3.
  assert (Tg : task_get (t_addr t3) (w_tasks w2) = Some t).
  { rewrite Ew. unfold apply_eff. simpl. rewrite T2, T1. congruence. }
  set (w2' := set_tasks w2 (task_set t3 (w_tasks w2))).
  assert (S3 : sameB w w2').
  { eapply sameB_trans; [exact S1|]. eapply sameB_trans; [exact S2|]. subst w2'. eapply task_set_addrs_same; eauto. }
  assert (Terr : forall wx tx e, sameB wx (task_error wx tx e)).
  { intros. unfold task_error. sameB_tac. simpl. rewrite chan_res_app. simpl. apply app_nil_r. }
  destruct y as [m nxt|v|].
  - fold w2'. apply stepB_same. eapply sameB_trans; [exact S3|].
    destruct (negb (has_box w2' m)); [apply Terr|].
    destruct atomic; [|sameB_tac].
    destruct (aw_B w2' a m nxt) as (Q1 & _ & _).
    destruct (aw_B (aw1 w2' a m) a m nxt) as (_ & Q2 & _).
    destruct (aw_B (aw1c (aw1 w2' a m) a nxt) a m nxt) as (_ & _ & Q3).
    eapply sameB_trans; [exact Q1|]. eapply sameB_trans; [exact Q2|]. eapply sameB_trans; [exact Q3|]. sameB_tac.
  - fold w2'. destruct (complete w2' t3 v) as [w3 ok] eqn:Ec.
    assert (Tg' : task_get (t_addr t3) (w_tasks w2') = Some t3) by (subst w2'; simpl; apply task_get_task_set_same).
    pose proof (complete_B _ _ _ _ _ _ Tg' Ec) as C.
    eapply stepB_trans_same; [exact S3|]. eapply stepB_same_trans; [exact C|].
    destruct ok; [sameB_tac|]. unfold fatal. sameB_tac. simpl. rewrite chan_res_app. simpl. apply app_nil_r.
  - fold w2'. apply stepB_same. eapply sameB_trans; [exact S3|apply Terr].
Qed.

Lemma main_step_B : forall atomic w w', main_step atomic w = Some w' ->
  (forall t, In t (w_delayed w) -> tcnt (t_addr t) (w_tasks w) = 0) ->
  stepB w w' [].
Proof.
  intros atomic w w' H Habs. unfold main_step in H. destruct (w_pc w) eqn:Epc.
  - destruct (w_ready w); [destruct (w_delayed w)|]; injection H as <-; apply stepB_same; sameB_tac.
  - destruct (last_opt (w_delayed w)) as [tl|] eqn:El; injection H as <-.
    + pose proof (last_opt_removelast _ _ _ El) as Hsplit.
      assert (Hin : In tl (w_delayed w)) by (rewrite Hsplit; apply in_or_app; right; left; reflexivity).
      specialize (Habs tl Hin). apply task_get_None_tcnt in Habs.
      exists []. unfold w_resB. simpl. rewrite app_nil_r. rewrite task_set_absent by (simpl; auto).
      repeat split; auto; intro x; unfold rcnt; simpl; rewrite ?cnt_nil, ?tcnt_app; lia.
    + apply stepB_same. unfold fatal. sameB_tac. simpl. rewrite chan_res_app. simpl. apply app_nil_r.
  - destruct (w_ready w) as [|a q]; injection H as <-.
    + apply stepB_same. apply (send_B w (MWaiting (w_recent w))). reflexivity.
    + apply (dispatch_B atomic (set_ready w q) a).
  - destruct (w_ready w) as [|a q]; [discriminate|]. injection H as <-. apply (dispatch_B atomic (set_ready w q) a).
  - injection H as <-. apply stepB_same. destruct (aw_B w a m nxt) as (Q & _ & _). eapply sameB_trans; [exact Q|sameB_tac].
  - injection H as <-. apply stepB_same. destruct (aw_B w a m nxt) as (_ & Q & _). eapply sameB_trans; [exact Q|sameB_tac].
  - injection H as <-. apply stepB_same. destruct (aw_B w a m false) as (_ & _ & Q). eapply sameB_trans; [exact Q|sameB_tac].
  - discriminate.
Qed.

Lemma recv_step_B : forall w m, w_rdead w = false ->
  (forall t, In t (msg_tasks m) -> tcnt (t_addr t) (w_tasks w) = 0) ->
  stepB w (recv_step w m) (msg_res m).
Proof.
  intros w m Hd Habs. unfold recv_step. rewrite Hd.
  destruct m as [t|ts|a v c|r| |c| |a]; try solve [apply stepB_same; sameB_tac].
  - specialize (Habs t (or_introl eq_refl)). apply task_get_None_tcnt in Habs.
    exists []. unfold w_resB. simpl. rewrite app_nil_r. rewrite task_set_absent by (simpl; auto).
    repeat split; auto; intro x; unfold rcnt; simpl; rewrite ?cnt_nil, ?tcnt_app; lia.
  - destruct ts as [|t0 r]; [apply stepB_same; sameB_tac|].
    destruct (last_opt (t0 :: r)) as [tl|] eqn:El; [|apply last_opt_None in El; discriminate].
    pose proof (last_opt_removelast _ _ _ El) as Hsplit.
    assert (Hin : In tl (t0 :: r)) by (rewrite Hsplit; apply in_or_app; right; left; reflexivity).
    specialize (Habs tl Hin). apply task_get_None_tcnt in Habs.
    exists []. unfold w_resB.
    cbn [add_task put set_started set_tasks set_recent set_delayed set_ready w_out w_deposited w_dropped w_stuck w_finished w_tasks msg_res].
    rewrite app_nil_r. rewrite task_set_absent by (simpl; auto).
    repeat split; auto; intro x; unfold rcnt; simpl; rewrite ?cnt_nil, ?tcnt_app; lia.
  - destruct (handle_result w a v) as [w1 ok] eqn:E.
    destruct (handle_result_B _ _ _ _ _ E) as (B1 & B2 & B3 & B4 & B5).
    exists []. rewrite app_nil_r.
    assert (G : forall wx, w_out wx = w_out w1 -> w_deposited wx = w_deposited w1 -> w_dropped wx = w_dropped w1 ->
              w_stuck wx = w_stuck w1 -> w_finished wx = w_finished w1 -> w_tasks wx = w_tasks w1 ->
              w_finished wx = w_finished w /\
              (forall x, w_resB x wx + cnt x (w_stuck w) = w_resB x w + rcnt x (msg_res (MResult a v c)) + cnt x (map fst (@nil (addr*val))) + cnt x (w_stuck wx)) /\
              (forall x, cnt x (w_stuck wx) <= cnt x (w_stuck w) + tcnt x (w_tasks wx)) /\
              (forall x, tcnt x (w_tasks w) <= tcnt x (w_tasks wx) + cnt x (map fst (@nil (addr*val))))).
    { intros wx G1 G2 G3 G4 G5 G6. split; [congruence|]. unfold w_resB. rewrite G1, G2, G3, G4, G6, B1, B2, B4.
      repeat split; intro x; specialize (B5 x); unfold rcnt; simpl; rewrite ?cnt_single, ?cnt_nil; lia. }
    destruct ok; apply G; reflexivity.
Qed.

(* a failed local completion is the only way to get stuck, and it stops the worker *)
Definition stuckK (w w' : wstate) : Prop :=
  w_stuck w' = w_stuck w \/
  (exists x, w_stuck w' = w_stuck w ++ [x] /\ tcnt x (w_tasks w') >= 1 /\ w_pc w' = PDead).

Lemma complete_K : forall w t v w1 ok t0, task_get (t_addr t) (w_tasks w) = Some t0 ->
  complete w t v = (w1, ok) ->
  w_stuck w1 = w_stuck w \/ (ok = false /\ w_stuck w1 = w_stuck w ++ [t_addr t] /\ w_tasks w1 = w_tasks w).
Proof.
  intros w t v w1 ok t0 Hg H. unfold complete in H.
  destruct (dest_eqb (a_w (t_addr t)) (me w)).
  - destruct (handle_result w (t_addr t) v) as [w' ok'] eqn:E.
    destruct (handle_result_B _ _ _ _ _ E) as (B1 & B2 & B3 & B4 & B5).
    destruct ok'; cbn [negb] in H.
    + destruct (close_boxes (t_owned t) _) as [w3 ok3] eqn:E3 in H. injection H as <- <-.
      apply close_boxes_B in E3. destruct E3 as (C1&C2&C3&C4&C5&C6). left. rewrite C4. simpl. exact B2.
    + injection H as <- <-. right. simpl. rewrite B2, B4. auto.
  - cbn [negb] in H. destruct (close_boxes (t_owned t) _) as [w3 ok3] eqn:E3 in H. injection H as <- <-.
    apply close_boxes_B in E3. destruct E3 as (C1&C2&C3&C4&C5&C6). left. rewrite C4. reflexivity.
Qed.

Lemma dispatch_K : forall atomic w a, stuckK w (dispatch atomic w a).
Proof.
  intros atomic w a. unfold dispatch.
  destruct (task_get a (w_tasks w)) as [t|] eqn:Eg; [|left; reflexivity].
  pose proof (task_get_Some _ _ _ Eg) as [Hta _].
  destruct (desired_result w t) as [[[w1 t1] sv]|e] eqn:Ed; [|left; reflexivity].
  pose proof (desired_result_B _ _ _ _ _ Ed) as S1.
  pose proof (desired_result_A _ _ _ _ _ Ed) as (_ & Ha1 & _).
  pose proof (desired_result_tasks _ _ _ _ _ Ed) as T1.
  destruct (resume w1 (t_set_desired (t_set_won t1 false) None) sv) as [[w2 t3] y] eqn:Er.
  pose proof (resume_B _ _ _ _ _ _ Er) as S2.
  apply resume_A in Er. destruct Er as (w0 & es & _ & T2 & Ew & Ha3 & _). simpl in Ha3.
  assert (Tg : task_get (t_addr t3) (w_tasks w2) = Some t).
  { rewrite Ew. unfold apply_eff. simpl. rewrite T2, T1. congruence. }
  set (w2' := set_tasks w2 (task_set t3 (w_tasks w2))).
  assert (S3 : sameB w w2').
  { eapply sameB_trans; [exact S1|]. eapply sameB_trans; [exact S2|]. subst w2'. eapply task_set_addrs_same; eauto. }
  assert (K3 : w_stuck w2' = w_stuck w) by (destruct S3 as (_&_&_&Q&_); exact Q).
  destruct y as [m nxt|v|].
  - fold w2'. left. rewrite <- K3.
    destruct (negb (has_box w2' m)); [reflexivity|].
    destruct atomic; [|reflexivity].
    destruct (aw_B w2' a m nxt) as ((_&_&_&Q1&_) & _ & _).
    destruct (aw_B (aw1 w2' a m) a m nxt) as (_ & (_&_&_&Q2&_) & _).
    destruct (aw_B (aw1c (aw1 w2' a m) a nxt) a m nxt) as (_ & _ & (_&_&_&Q3&_)).
    change (w_stuck (aw2 (aw1c (aw1 w2' a m) a nxt) a m) = w_stuck w2'). rewrite Q3, Q2, Q1. reflexivity.
  - fold w2'. destruct (complete w2' t3 v) as [w3 ok] eqn:Ec.
    assert (Tg' : task_get (t_addr t3) (w_tasks w2') = Some t3) by (subst w2'; simpl; apply task_get_task_set_same).
    destruct (complete_K _ _ _ _ _ _ Tg' Ec) as [Q|(-> & Q1 & Q2)].
    + left. destruct ok; simpl; congruence.
    + right. exists (t_addr t3). unfold fatal. simpl. rewrite Q1, K3, Q2. split; auto. split; auto.
      apply task_get_Some_tcnt in Tg'. exact Tg'.
  - fold w2'. left. simpl. exact K3.
Qed.

Lemma main_step_K : forall atomic w w', main_step atomic w = Some w' -> stuckK w w'.
Proof.
  intros atomic w w' H. unfold main_step in H. destruct (w_pc w) eqn:Epc.
  - destruct (w_ready w); [destruct (w_delayed w)|]; injection H as <-; left; reflexivity.
  - destruct (last_opt (w_delayed w)); injection H as <-; left; reflexivity.
  - destruct (w_ready w) as [|a q]; injection H as <-; [left; reflexivity|]. apply (dispatch_K atomic (set_ready w q) a).
  - destruct (w_ready w) as [|a q]; [discriminate|]. injection H as <-. apply (dispatch_K atomic (set_ready w q) a).
  - injection H as <-. left. destruct (aw_B w a m nxt) as ((_&_&_&Q&_) & _ & _). simpl. exact Q.
  - injection H as <-. left. destruct (aw_B w a m nxt) as (_ & (_&_&_&Q&_) & _). simpl. exact Q.
  - injection H as <-. left. destruct (aw_B w a m false) as (_ & _ & (_&_&_&Q&_)). simpl. exact Q.
  - discriminate.
Qed.

(* ===== part 13 ===== *)

Definition rdcnt (a : addr) (d : list (list msg)) : nat := sumf (fun q => rcnt a (chan_res q)) d.
Definition n_stuck (a : addr) (s : sys) : nat := sumf (fun w => cnt a (w_stuck w)) (s_workers s).
Definition n_resB (a : addr) (s : sys) : nat :=
  rdcnt a (s_down s) + sumf (w_resB a) (s_workers s) + rcnt a (s_client s).
Definition n_dep (a : addr) (s : sys) : nat := sumf (fun w => cnt a (w_deposited w)) (s_workers s).

Definition stuck_ok (w : wstate) : Prop :=
  (forall x, cnt x (w_stuck w) <= tcnt x (w_tasks w)) /\ (w_stuck w <> [] -> w_pc w = PDead).

Record invB (s : sys) : Prop := {
  B_cons : forall a, n_resB a s = n_fin a s + n_stuck a s;
  B_stuck : forall w, In w (s_workers s) -> stuck_ok w
}.

Lemma invB_init : forall k, invB (sys0 k).
Proof. intro k. constructor.
  - intro a. unfold n_resB, n_fin, n_stuck, rdcnt. simpl. rewrite !sumf_zero; auto.
    + intros w Hw. apply in_map_iff in Hw. destruct Hw as (j & <- & _). reflexivity.
    + intros w Hw. apply in_map_iff in Hw. destruct Hw as (j & <- & _). reflexivity.
    + intros w Hw. apply in_map_iff in Hw. destruct Hw as (j & <- & _). reflexivity.
    + intros q Hq. apply repeat_spec in Hq. subst. reflexivity.
  - intros w Hw. apply in_map_iff in Hw. simpl in Hw. destruct Hw as (j & <- & _). split; simpl; intros; [unfold cnt; simpl; lia|congruence].
Qed.

Lemma recv_step_K : forall w m, w_stuck (recv_step w m) = w_stuck w /\ w_pc (recv_step w m) = w_pc w /\
  w_finished (recv_step w m) = w_finished w.
Proof. intros. unfold recv_step. destruct (w_rdead w); auto.
  destruct m as [t|ts|a v c|r| |c| |a]; auto.
  - destruct ts as [|t0 r]; auto. destruct (last_opt (t0 :: r)); auto.
  - destruct (handle_result w a v) as [w1 ok] eqn:E.
    destruct (handle_result_B _ _ _ _ _ E) as (B1 & B2 & B3 & B4 & B5).
    destruct (handle_result_A _ _ _ _ _ E) as (_&_&_&_&_&_&_&_).
    assert (P : w_pc w1 = w_pc w).
    { clear - E. unfold handle_result in E.
      destruct (negb (dest_eqb (a_w a) (me w))); [injection E as <- _; reflexivity|].
      destruct (box_get (a_box a) (w_boxes w)); [|injection E as <- _; reflexivity].
      destruct (deposit m (a_slot a) v) as [b1 ok1]. destruct (negb ok1); [injection E as <- _; reflexivity|].
      destruct (b_dest b1); [|injection E as <- _; reflexivity]. cbn [w_tasks set_deposited set_boxes] in E.
      destruct (task_get a0 (w_tasks w)); [|injection E as <- _; reflexivity].
      destruct (t_won t || b_ready b1); injection E as <- _; reflexivity. }
    destruct ok; simpl; auto. Qed.

Lemma rdcnt_set_nth_pop : forall a d i m q, nth_error d i = Some (m :: q) ->
  rdcnt a (set_nth i q d) + rcnt a (msg_res m) = rdcnt a d.
Proof. intros. unfold rdcnt. pose proof (sumf_set_nth _ (fun q => rcnt a (chan_res q)) i (m :: q) q d H) as E.
  cbn beta in E. unfold chan_res in E at 2. simpl in E. fold (chan_res q) in E. rewrite rcnt_app in E. lia. Qed.
Lemma rdcnt_push_down : forall a i m d, i < length d ->
  rdcnt a (push_down i m d) = rdcnt a d + rcnt a (msg_res m).
Proof. intros. unfold push_down, upd, rdcnt. destruct (nth_error d i) as [q|] eqn:E.
  - pose proof (sumf_set_nth _ (fun q => rcnt a (chan_res q)) i q (q ++ [m]) d E) as Hs.
    cbn beta in Hs. rewrite chan_res_app, rcnt_app in Hs. simpl in Hs. rewrite app_nil_r in Hs. lia.
  - apply nth_error_None in E. lia. Qed.
Lemma rdcnt_schedule : forall a ts asg d, rdcnt a (schedule ts asg d) = rdcnt a d.
Proof. intros a ts asg. unfold schedule. induction asg as [|p r IH]; simpl; intros; auto.
  rewrite IH. unfold push_down, upd. destruct (nth_error d (fst p)) as [q|] eqn:E; auto.
  unfold rdcnt. pose proof (sumf_set_nth _ (fun q => rcnt a (chan_res q)) (fst p) q (q ++ [MSubmitBatch (pick ts (snd p))]) d E) as Hs.
  cbn beta in Hs. rewrite chan_res_app, rcnt_app in Hs. change (rcnt a (chan_res [MSubmitBatch (pick ts (snd p))])) with 0 in Hs. lia. Qed.
Lemma rdcnt_map_cancel : forall a c d, rdcnt a (map (fun q => q ++ [MCancel c]) d) = rdcnt a d.
Proof. intros. unfold rdcnt. rewrite sumf_map. apply sumf_ext. intros q _. rewrite chan_res_app. simpl. rewrite app_nil_r. reflexivity. Qed.

Ltac rz := cbn [msg_res s_client set_workers]; repeat (match goal with |- context [rcnt ?a []] => change (rcnt a []) with 0 end).

Lemma invB_worker_step : forall s i w w' rin d',
  invB s -> nth_error (s_workers s) i = Some w -> stepB w w' rin -> stuck_ok w' ->
  (forall a, rdcnt a d' + rcnt a rin = rdcnt a (s_down s)) ->
  invB (mkSys (set_nth i w' (s_workers s)) d' (s_client s) (s_errors s) (s_nbox s) (s_fatal s) (s_roots s)).
Proof.
  intros s i w w' rin d' I Hw (fin & F1 & F2 & F3 & F4) Hs Hd. constructor; simpl.
  - intro a. pose proof (B_cons s I a) as C. unfold n_resB, n_fin, n_stuck in *. simpl.
    pose proof (sumf_set_nth _ (w_resB a) i w w' _ Hw) as E1.
    pose proof (sumf_set_nth _ (fun w => cnt a (map fst (w_finished w))) i w w' _ Hw) as E2.
    pose proof (sumf_set_nth _ (fun w => cnt a (w_stuck w)) i w w' _ Hw) as E3.
    cbn beta in *. rewrite F1, map_app, cnt_app in E2. specialize (F2 a). specialize (Hd a). lia.
  - intros w0 Hin. apply In_set_nth in Hin. destruct Hin as [->|Hin]; auto. apply (B_stuck s I); auto.
Qed.

Lemma step_invB : forall atomic s e s', invA s -> invV s -> invB s -> step atomic s e = Some s' -> invB s'.
Proof.
  intros atomic s e s' IA IV I H. destruct e as [sc target|i|i|i asg]; simpl in H.
  - (* client *)
    destruct (Nat.ltb target (length (s_workers s))) eqn:Et; [|discriminate]. injection H as <-. b2p.
    constructor; simpl; [|apply (B_stuck s I)].
    intro a. pose proof (B_cons s I a) as C. unfold n_resB, n_fin, n_stuck in *. simpl.
    rewrite rdcnt_push_down by (rewrite (A_len s IA); auto). rz. lia.
  - (* recv *)
    destruct (nth_error (s_workers s) i) as [w|] eqn:Ew; [|discriminate].
    destruct (nth_error (s_down s) i) as [[|m q]|] eqn:Ed; try discriminate.
    destruct (w_rdead w) eqn:Erd; [discriminate|]. injection H as <-.
    pose proof (nth_error_In _ _ Ew) as Hwin. pose proof (nth_error_In _ _ Ed) as Hqin.
    assert (Habs : forall t, In t (msg_tasks m) -> tcnt (t_addr t) (w_tasks w) = 0).
    { intros t Ht. apply task_get_None_tcnt. eapply absent_from_uniq; eauto. left.
      assert (G1 : tcnt (t_addr t) (chan_tasks (m :: q)) <= dcnt (t_addr t) (s_down s)).
      { apply (sumf_ge _ (fun q => tcnt (t_addr t) (chan_tasks q))). auto. }
      assert (G2 : tcnt (t_addr t) (chan_tasks (m :: q)) >= 1).
      { unfold tcnt. apply cnt_pos_in. apply in_map. rewrite chan_tasks_cons. apply in_or_app. auto. } lia. }
    pose proof (recv_step_B w m Erd Habs) as SB.
    assert (SO : stuck_ok (recv_step w m)).
    { destruct (recv_step_K w m) as (K1 & K2 & K3). destruct (B_stuck s I w Hwin) as (J1 & J2).
      destruct SB as (fin & F1 & F2 & F3 & F4). rewrite K3 in F1.
      assert (fin = []). { rewrite <- (app_nil_r (w_finished w)) in F1 at 1. apply app_inv_head in F1. auto. }
      subst fin. split; [|rewrite K1, K2; auto].
      intro x. rewrite K1. specialize (J1 x). specialize (F4 x). simpl in F4. rewrite cnt_nil in F4. lia. }
    apply (invB_worker_step s i w (recv_step w m) (msg_res m) (set_nth i q (s_down s))); auto;
    intro a; apply rdcnt_set_nth_pop; auto.
  - (* main *)
    destruct (nth_error (s_workers s) i) as [w|] eqn:Ew; [|discriminate].
    destruct (main_step atomic w) as [w'|] eqn:Em; [|discriminate]. injection H as <-.
    pose proof (nth_error_In _ _ Ew) as Hwin.
    assert (Habs : forall t, In t (w_delayed w) -> tcnt (t_addr t) (w_tasks w) = 0).
    { intros t Ht. apply task_get_None_tcnt. eapply absent_from_uniq; eauto. right. unfold tcnt. apply cnt_pos_in. apply in_map. auto. }
    pose proof (main_step_B atomic w w' Em Habs) as SB. pose proof (main_step_K atomic w w' Em) as K.
    assert (SO : stuck_ok w').
    { destruct (B_stuck s I w Hwin) as (J1 & J2).
      assert (Hnd : w_pc w <> PDead) by (intro E; unfold main_step in Em; rewrite E in Em; discriminate).
      assert (S0 : w_stuck w = []) by (destruct (w_stuck w) eqn:E0; auto; exfalso; apply Hnd; apply J2; congruence).
      destruct K as [K|(x & K1 & K2 & K3)].
      * split; [intro y; rewrite K, S0, cnt_nil; lia|]. rewrite K, S0. congruence.
      * split; [|auto]. intro y. rewrite K1, S0. simpl. rewrite cnt_single.
        destruct (addr_eqb y x) eqn:E; [apply addr_eqb_eq in E; subst; lia|lia]. }
    apply (invB_worker_step s i w w' [] (s_down s)); auto; intro a; rz; lia.
  - (* server *)
    destruct (nth_error (s_workers s) i) as [w|] eqn:Ew; [|discriminate].
    destruct (w_out w) as [|m q] eqn:Eo; [discriminate|].
    pose proof (nth_error_In _ _ Ew) as Hwin.
    set (w0 := set_out w q) in *.
    assert (Hres : forall a, w_resB a w0 + rcnt a (msg_res m) = w_resB a w).
    { intro a. unfold w_resB, w0. simpl. rewrite Eo. unfold chan_res at 2. simpl. fold (chan_res q). rewrite rcnt_app. lia. }
    assert (G : forall d' cl er ft,
              (forall a, rdcnt a d' + rcnt a cl = rdcnt a (s_down s) + rcnt a (s_client s) + rcnt a (msg_res m)) ->
              invB (mkSys (set_nth i w0 (s_workers s)) d' cl er (s_nbox s) ft (s_roots s))).
    { intros d' cl er ft Hd. constructor; simpl.
      - intro a. pose proof (B_cons s I a) as C. unfold n_resB, n_fin, n_stuck in *. simpl.
        pose proof (sumf_set_nth _ (w_resB a) i w w0 _ Ew) as E1.
        pose proof (sumf_set_nth _ (fun w => cnt a (map fst (w_finished w))) i w w0 _ Ew) as E2.
        pose proof (sumf_set_nth _ (fun w => cnt a (w_stuck w)) i w w0 _ Ew) as E3.
        simpl in E2, E3. specialize (Hres a). specialize (Hd a). lia.
      - intros w1 Hin. apply In_set_nth in Hin. destruct Hin as [->|Hin]; [|apply (B_stuck s I); auto].
        exact (B_stuck s I w Hwin). }
    unfold server_msg in H. cbn [s_workers set_workers s_down s_client s_errors s_nbox s_fatal s_roots] in H.
    rewrite set_nth_length in H.
    destruct m as [t|ts|a v c|r| |c| |a].
    + destruct (valid_asg (length (s_workers s)) 1 asg); [|discriminate]. injection H as <-.
      apply G. intro a. rewrite rdcnt_schedule. rz. lia.
    + destruct (valid_asg (length (s_workers s)) (length ts) asg); [|discriminate]. injection H as <-.
      apply G. intro a. rewrite rdcnt_schedule. rz. lia.
    + destruct (a_w a) as [|j] eqn:Ea.
      * injection H as <-. apply G. intro a0. rewrite rcnt_app. simpl. lia.
      * assert (Hj : j < length (s_workers s)).
        { destruct (VG_res_up s IV w (a, v) Hwin) as (Gd & _).
          { rewrite Eo. unfold chan_res. simpl. auto. }
          unfold good_addr in Gd. simpl in Gd. rewrite Ea in Gd. destruct Gd as (wj & Hwj & _).
          apply nth_error_Some. congruence. }
        apply Nat.ltb_lt in Hj. rewrite Hj in H. injection H as <-. apply Nat.ltb_lt in Hj.
        apply G. intro a0. rewrite rdcnt_push_down by (rewrite (A_len s IA); auto). simpl. lia.
    + injection H as <-. apply G. intro a0. rz. lia.
    + injection H as <-. apply G. intro a0. rz. lia.
    + injection H as <-. apply G. intro a0. rz. lia.
    + injection H as <-. apply G. intro a0. rz. lia.
    + injection H as <-. apply G. intro a0. rewrite rdcnt_map_cancel. rz. lia.
Qed.

(* ===== part 14 ===== *)

(* ---------- Part C: a mailbox counts what it holds ---------- *)
Definition cntn (x : nat) (l : list nat) : nat := count_occ Nat.eq_dec l x.
Lemma cntn_app : forall x l1 l2, cntn x (l1 ++ l2) = cntn x l1 + cntn x l2.
Proof. intros. apply count_occ_app. Qed.
Lemma cntn_single : forall x y, cntn x [y] = if Nat.eqb x y then 1 else 0.
Proof. intros. unfold cntn. simpl. destruct (Nat.eq_dec y x); destruct (Nat.eqb_spec x y); auto; congruence. Qed.
Lemma cntn_le1_NoDup : forall l, (forall x, cntn x l <= 1) -> NoDup l.
Proof. intros. apply (NoDup_count_occ Nat.eq_dec). auto. Qed.

Definition boxC (w : wstate) (m : nat) (b : mailbox) : Prop :=
  b_num b = length (b_got b) /\
  length (b_result b) = length (b_expect b) /\
  (if b_single b then b_expected b = 1 /\ length (b_expect b) = 1 else b_expected b = length (b_expect b)) /\
  (forall i, In i (b_got b) -> i < length (b_expect b) /\ exists v, nth_error (b_result b) i = Some (Some v)) /\
  (b_fresh b = None -> b_got b = []) /\
  (forall slot, cntn slot (b_got b) <= cnt (mkAddr (me w) m slot) (w_deposited w)).

Definition dep1 (w : wstate) : Prop := forall a, cnt a (w_deposited w) <= 1.

Lemma boxC_NoDup : forall w m b, dep1 w -> boxC w m b -> NoDup (b_got b).
Proof. intros w m b D (_&_&_&_&_&C). apply cntn_le1_NoDup. intro x. specialize (C x). specialize (D (mkAddr (me w) m x)). lia. Qed.

(* a ready mailbox has every cell filled *)
Lemma pigeon : forall l n, NoDup l -> (forall x, In x l -> x < n) -> n <= length l -> forall i, i < n -> In i l.
Proof. intros l n Hnd Hlt Hlen i Hi.
  assert (Hincl : incl (seq 0 n) l).
  { apply NoDup_length_incl; auto. rewrite seq_length. auto. intros x Hx. apply in_seq. specialize (Hlt x Hx). lia. }
  apply Hincl. apply in_seq. lia. Qed.

Lemma ready_full : forall w m b, dep1 w -> boxC w m b -> b_ready b = true ->
  Forall (fun c => c <> None) (b_result b) /\ forall i, i < length (b_expect b) -> In i (b_got b).
Proof.
  intros w m b D C R. pose proof (boxC_NoDup _ _ _ D C) as Hnd.
  destruct C as (C1&C2&C3&C4&C5&C6). unfold b_ready in R. apply andb_true_iff in R. destruct R as [R1 R2]. b2p.
  apply negb_true_iff in R2. b2p.
  assert (Hexp : length (b_expect b) <= length (b_got b)).
  { destruct (b_single b); [destruct C3 as [E1 E2]; lia|lia]. }
  assert (Hall : forall i, i < length (b_expect b) -> In i (b_got b)).
  { apply pigeon; auto. intros x Hx. apply C4; auto. }
  split; auto. apply Forall_forall. intros c Hc. apply In_nth_error in Hc. destruct Hc as [i Hi].
  assert (i < length (b_result b)) by (apply nth_error_Some; congruence).
  destruct (C4 i (Hall i ltac:(lia))) as (_ & v & Hv). congruence.
Qed.

(* the batches handed out from mailbox m *)
Definition entry_batch (m : nat) (e : addr * script * option nat * obs) : list (nat * val) :=
  match e with
  | (_, _, Some m', ONext _ bt) => if Nat.eqb m' m then bt else []
  | _ => []
  end.
Definition batches (m : nat) (log : list (addr * script * option nat * obs)) : list (nat * val) :=
  flat_map (entry_batch m) log.
Definition fresh_slots (b : mailbox) : list nat := match b_fresh b with Some fr => map fst fr | None => [] end.

Definition log_fullC (e : addr * script * option nat * obs) : Prop :=
  match e with
  | (_, sc, Some _, OAwait f vs) =>
    Forall (fun c => c <> None) vs /\ exists sp, nth_error (specs_of sc) f = Some sp /\ length vs = length (kids sp)
  | _ => True
  end.

Definition fresh_cnt (w : wstate) (m slot : nat) : nat :=
  match box_get m (w_boxes w) with Some b => cntn slot (fresh_slots b) | None => 0 end.
Definition batch_cnt (w : wstate) (m slot : nat) : nat := cntn slot (map fst (batches m (w_log w))).

Record winvC (w : wstate) : Prop := {
  C_box : forall m b, box_get m (w_boxes w) = Some b -> boxC w m b;
  C_log : Forall log_fullC (w_log w);
  C_next : forall m slot, batch_cnt w m slot + fresh_cnt w m slot <= cnt (mkAddr (me w) m slot) (w_deposited w)
}.

(* ---- frame: what winvC depends on ---- *)
Lemma boxC_same : forall w w' m b, w_id w' = w_id w -> w_deposited w' = w_deposited w -> boxC w m b -> boxC w' m b.
Proof. intros w w' m b H1 H2 (C1&C2&C3&C4&C5&C6). unfold boxC, me. rewrite H1, H2.
  exact (conj C1 (conj C2 (conj C3 (conj C4 (conj C5 C6))))). Qed.

Lemma winvC_same : forall w w', w_id w' = w_id w -> w_deposited w' = w_deposited w -> w_boxes w' = w_boxes w ->
  w_log w' = w_log w -> winvC w -> winvC w'.
Proof. intros w w' H1 H2 H3 H4 [K1 K2 K3]. constructor.
  - rewrite H3. intros m b Hb. eapply boxC_same; eauto.
  - rewrite H4. auto.
  - intros m slot. unfold batch_cnt, fresh_cnt, me. rewrite H1, H2, H3, H4. apply K3. Qed.

Lemma addr_eqb_slot : forall d m s0 s1, addr_eqb (mkAddr d m s0) (mkAddr d m s1) = Nat.eqb s0 s1.
Proof. intros. unfold addr_eqb. simpl. rewrite (proj2 (dest_eqb_eq d d) eq_refl), Nat.eqb_refl. reflexivity. Qed.

(* deposit *)
Lemma deposit_C : forall w m b slot v b1 ok, boxC w m b -> nth_error (b_expect b) slot = Some v ->
  deposit b slot v = (b1, ok) ->
  ok = true /\ b_expect b1 = b_expect b /\ b_dest b1 = b_dest b /\ b_got b1 = b_got b ++ [slot] /\
  fresh_slots b1 = fresh_slots b ++ [slot] /\
  boxC (set_deposited w (w_deposited w ++ [mkAddr (me w) m slot])) m b1.
Proof.
  intros w m b slot v b1 ok (C1&C2&C3&C4&C5&C6) Hs H. unfold deposit in H.
  assert (Hlt : slot < length (b_expect b)) by (apply nth_error_Some; congruence).
  assert (Hfs : forall b', b_fresh b' = Some (match b_fresh b with None => [] | Some l => l end ++ [(slot, v)]) ->
            fresh_slots b' = fresh_slots b ++ [slot]).
  { intros b' E. unfold fresh_slots. rewrite E. destruct (b_fresh b); rewrite map_app; reflexivity. }
  assert (Hcnt : forall got', got' = b_got b ++ [slot] -> forall s0, cntn s0 got' <=
              cnt (mkAddr (me w) m s0) (w_deposited w ++ [mkAddr (me w) m slot])).
  { intros got' -> s0. rewrite cntn_app, cnt_app, cntn_single, cnt_single. specialize (C6 s0).
    rewrite addr_eqb_slot. lia. }
  destruct (b_single b) eqn:Es.
  - destruct C3 as [E1 E2]. assert (slot = 0) by lia. subst slot.
    injection H as <- <-. split; auto. split; auto. split; auto. split; auto. split; [apply Hfs; reflexivity|].
    unfold boxC. simpl.
    split; [rewrite app_length; simpl; lia|]. split; [auto|]. split; [auto|].
    split; [|split; [discriminate|apply Hcnt; reflexivity]].
    intros i H. apply in_app_or in H. destruct H as [H|[<-|[]]].
    + destruct (C4 i H) as (Hi & _). assert (i = 0) by lia. subst. split; [lia|]. exists v. reflexivity.
    + split; [lia|]. exists v. reflexivity.
  - rewrite <- C2 in Hlt. apply Nat.ltb_lt in Hlt. rewrite Hlt in H. apply Nat.ltb_lt in Hlt.
    injection H as <- <-. split; auto. split; auto. split; auto. split; auto. split; [apply Hfs; reflexivity|].
    unfold boxC. simpl.
    split; [rewrite app_length; simpl; lia|]. split; [rewrite set_nth_length; auto|]. split; [auto|].
    split; [|split; [discriminate|apply Hcnt; reflexivity]].
    intros i H. apply in_app_or in H. destruct H as [H|[<-|[]]].
    + destruct (C4 i H) as (Hi & v0 & Hv). split; auto. destruct (Nat.eq_dec slot i).
      * subst. exists v. apply nth_error_set_nth_eq. auto.
      * exists v0. rewrite nth_error_set_nth_neq; auto.
    + split; [lia|]. exists v. apply nth_error_set_nth_eq. auto.
Qed.

Lemma boxC_dep_mono : forall w w' m b l, w_id w' = w_id w -> w_deposited w' = w_deposited w ++ l -> boxC w m b -> boxC w' m b.
Proof. intros w w' m b l H1 H2 (C1&C2&C3&C4&C5&C6). unfold boxC, me. rewrite H1, H2.
  refine (conj C1 (conj C2 (conj C3 (conj C4 (conj C5 _))))). intro slot. rewrite cnt_app. specialize (C6 slot). unfold me in C6. lia. Qed.

Lemma fresh_cnt_set_other : forall w m m' b slot, m' <> m ->
  fresh_cnt (set_boxes w (box_set m b (w_boxes w))) m' slot = fresh_cnt w m' slot.
Proof. intros. unfold fresh_cnt. simpl. rewrite box_get_set_other by auto. reflexivity. Qed.
Lemma fresh_cnt_set_same : forall w m b slot,
  fresh_cnt (set_boxes w (box_set m b (w_boxes w))) m slot = cntn slot (fresh_slots b).
Proof. intros. unfold fresh_cnt. simpl. rewrite box_get_set_same. reflexivity. Qed.

(* replace mailbox m by a box with the same contents (only dest_addr may differ) *)
Lemma winvC_box_same_contents : forall w m b b0, winvC w -> box_get m (w_boxes w) = Some b0 ->
  boxC w m b -> fresh_slots b = fresh_slots b0 -> winvC (set_boxes w (box_set m b (w_boxes w))).
Proof. intros w m b b0 [K1 K2 K3] Hg Hb Hf. constructor; simpl; auto.
  - intros m' b' H. destruct (Nat.eq_dec m' m).
    + subst. rewrite box_get_set_same in H. injection H as <-. eapply boxC_same; [| |exact Hb]; reflexivity.
    + rewrite box_get_set_other in H by auto. eapply boxC_same; [| |apply K1; exact H]; reflexivity.
  - intros m' slot. specialize (K3 m' slot). unfold batch_cnt, me in *. simpl. destruct (Nat.eq_dec m' m).
    + subst. rewrite fresh_cnt_set_same. unfold fresh_cnt in K3. rewrite Hg in K3. rewrite Hf. exact K3.
    + rewrite fresh_cnt_set_other by auto. exact K3. Qed.

Lemma winvC_box_del : forall w m, NoDup (keys (w_boxes w)) -> winvC w -> winvC (set_boxes w (box_del m (w_boxes w))).
Proof. intros w m Hnd [K1 K2 K3]. constructor; simpl; auto.
  - intros m' b' H. destruct (Nat.eq_dec m' m).
    + subst. rewrite box_get_del_same in H by auto. discriminate.
    + rewrite box_get_del_other in H by auto. eapply boxC_same; [| |apply K1; exact H]; reflexivity.
  - intros m' slot. specialize (K3 m' slot). unfold batch_cnt, fresh_cnt, me in *. simpl. destruct (Nat.eq_dec m' m).
    + subst. rewrite box_get_del_same by auto. lia.
    + rewrite box_get_del_other by auto. exact K3. Qed.

Lemma handle_result_C_aux : forall w ab asl v w1 ok, winvC w -> lexp w (mkAddr (me w) ab asl) v ->
  handle_result w (mkAddr (me w) ab asl) v = (w1, ok) ->
  winvC w1 /\ (forall e, In e (w_errs w1) -> In e (w_errs w) \/ e = EKeyTask).
Proof.
  intros w ab asl v w1 ok I L H. unfold handle_result in H. cbn [a_w a_box a_slot] in H.
  rewrite (proj2 (dest_eqb_eq (me w) (me w)) eq_refl) in H. cbn [negb] in H.
  destruct (box_get ab (w_boxes w)) as [b|] eqn:Eb.
  2:{ injection H as <- <-. split; [eapply winvC_same; [| | | |exact I]; reflexivity|]. simpl. auto. }
  destruct (deposit b asl v) as [b1 ok1] eqn:Edep.
  destruct (deposit_C w ab b asl v b1 ok1 (C_box w I _ _ Eb) (L _ Eb) Edep) as (-> & D1 & D2 & D3 & D4 & D5).
  cbn [negb] in H.
  set (a := mkAddr (me w) ab asl) in *.
  set (w1' := set_deposited (set_boxes w (box_set ab b1 (w_boxes w))) (w_deposited w ++ [a])) in *.
  assert (I1 : winvC w1').
  { destruct I as [K1 K2 K3]. constructor.
    - subst w1'. simpl. intros m' b' Hb'. destruct (Nat.eq_dec m' ab).
      + subst m'. rewrite box_get_set_same in Hb'. injection Hb' as <-. eapply boxC_same; [| |exact D5]; reflexivity.
      + rewrite box_get_set_other in Hb' by auto. eapply (boxC_dep_mono w _ m' b' [a]); [| |apply K1; exact Hb']; reflexivity.
    - exact K2.
    - intros m' slot. specialize (K3 m' slot). unfold batch_cnt, fresh_cnt in *. subst w1' a. unfold me in *. simpl. rewrite cnt_app, cnt_single.
      destruct (Nat.eq_dec m' ab).
      + subst m'. rewrite box_get_set_same. rewrite Eb in K3. rewrite D4, cntn_app, cntn_single.
        rewrite addr_eqb_slot. lia.
      + rewrite box_get_set_other by auto. lia. }
  destruct (b_dest b1) as [d|] eqn:Ed; [|injection H as <- <-; split; [exact I1|auto]].
  destruct (task_get d (w_tasks w1')) as [t|] eqn:Et.
  2:{ injection H as <- <-. split; [eapply winvC_same; [| | | |exact I1]; reflexivity|].
      simpl. intros e He. apply in_app_or in He. destruct He as [He|[<-|[]]]; auto. }
  destruct (t_won t || b_ready b1); injection H as <- <-; [|split; [exact I1|auto]].
  split; [|auto].
  assert (Eb1 : box_get ab (w_boxes w1') = Some b1) by (subst w1'; simpl; apply box_get_set_same).
  pose proof (winvC_box_same_contents (put w1' d) ab (b_set_dest b1 None) b1) as Q.
  eapply winvC_same; [| | | |apply Q]; try reflexivity.
  - eapply winvC_same; [| | | |exact I1]; reflexivity.
  - exact Eb1.
  - pose proof (C_box w1' I1 _ _ Eb1) as B. eapply boxC_same; [| |exact B]; reflexivity.
Qed.

Lemma handle_result_C : forall w a v w1 ok, winvC w -> (a_w a = me w -> lexp w a v) ->
  handle_result w a v = (w1, ok) -> winvC w1 /\ (forall e, In e (w_errs w1) -> In e (w_errs w) \/ e = EAssertWid \/ e = EKeyTask).
Proof.
  intros w a v w1 ok I L0 H.
  destruct (dest_eqb (a_w a) (me w)) eqn:Eme.
  - apply dest_eqb_eq in Eme. destruct a as [aw ab asl]. simpl in Eme. subst aw.
    destruct (handle_result_C_aux w ab asl v w1 ok I (L0 eq_refl) H) as [Q1 Q2]. split; auto.
    intros e He. destruct (Q2 e He); auto.
  - unfold handle_result in H. rewrite Eme in H. cbn [negb] in H. injection H as <- <-.
    split; [eapply winvC_same; [| | | |exact I]; reflexivity|].
    simpl. intros e He. apply in_app_or in He. destruct He as [He|[<-|[]]]; auto.
Qed.

Lemma close_boxes_C : forall owned w w1 ok, winvC w -> NoDup (keys (w_boxes w)) -> close_boxes owned w = (w1, ok) ->
  winvC w1 /\ (forall e, In e (w_errs w1) -> In e (w_errs w) \/ e = EKeyBox).
Proof.
  induction owned as [|m r IH]; simpl; intros w w1 ok I Hnd H.
  - injection H as <- <-. auto.
  - idtac.
    destruct (box_get m (w_boxes w)) as [b|] eqn:Eb.
    2:{ injection H as <- <-. split; [eapply winvC_same; [| | | |exact I]; reflexivity|].
        simpl. intros e He. apply in_app_or in He. destruct He as [He|[<-|[]]]; auto. }
    destruct (b_ready b).
    + apply IH in H; auto. apply winvC_box_del; auto. simpl. apply keys_box_del_NoDup. auto.
    + apply IH in H; auto.
      * eapply winvC_same; [| | | |apply (winvC_box_del w m Hnd I)]; reflexivity.
      * simpl. apply keys_box_del_NoDup. auto.
Qed.

(* _get_desired_result: what it hands to the coroutine is accounted for *)
Definition sv_cnt (m0 : nat) (sv : sendval) (slot : nat) : nat :=
  match sv with SBatch m fr => if Nat.eqb m m0 then cntn slot (map fst fr) else 0 | _ => 0 end.

Lemma desired_result_C : forall w t w1 t1 sv, winvC w -> dep1 w -> NoDup (keys (w_boxes w)) ->
  desired_result w t = inl (w1, t1, sv) ->
  (forall m b, box_get m (w_boxes w1) = Some b -> boxC w1 m b) /\
  w_log w1 = w_log w /\ w_deposited w1 = w_deposited w /\ w_id w1 = w_id w /\ w_errs w1 = w_errs w /\
  (forall m slot, batch_cnt w m slot + fresh_cnt w1 m slot + sv_cnt m sv slot <= cnt (mkAddr (me w) m slot) (w_deposited w)) /\
  (forall m vs, sv = SFull m vs -> Forall (fun c => c <> None) vs /\
       exists b, box_get m (w_boxes w) = Some b /\ length vs = length (b_expect b)).
Proof.
  intros w t w1 t1 sv I D Hnd H. unfold desired_result in H.
  destruct (t_desired t) as [m|] eqn:Ed.
  { destruct (box_get m (w_boxes w)) as [b|] eqn:Eb; [|discriminate].
    destruct (t_won t).
    - destruct (b_fresh b) as [fr|] eqn:Ef; [|discriminate]. injection H as <- <- <-.
      pose proof (C_box w I _ _ Eb) as Bx.
      assert (Bx' : boxC w m (b_set_fresh b (Some []))).
      { destruct Bx as (C1&C2&C3&C4&C5&C6). unfold boxC. simpl.
        refine (conj C1 (conj C2 (conj C3 (conj C4 (conj _ C6))))). discriminate. }
      split; [|split; [reflexivity|split; [reflexivity|split; [reflexivity|split; [reflexivity|split]]]]].
      + simpl. intros m' b' Hb'. destruct (Nat.eq_dec m' m).
        * subst. rewrite box_get_set_same in Hb'. injection Hb' as <-. eapply boxC_same; [| |exact Bx']; reflexivity.
        * rewrite box_get_set_other in Hb' by auto. eapply boxC_same; [| |apply (C_box w I); exact Hb']; reflexivity.
      + intros m' slot. pose proof (C_next w I m' slot) as K. unfold fresh_cnt, sv_cnt in *. simpl.
        destruct (Nat.eq_dec m' m).
        * subst. rewrite box_get_set_same, Nat.eqb_refl. rewrite Eb in K. unfold fresh_slots in *. simpl. rewrite Ef in K.
          lia.
        * rewrite box_get_set_other by auto. destruct (Nat.eqb_spec m m'); [congruence|]. lia.
      + intros; discriminate.
    - destruct (b_ready b) eqn:Er; cbn [negb] in H; [|discriminate].
      destruct (remove_first m (t_owned t)) as [ow|]; [|discriminate]. injection H as <- <- <-.
      pose proof (C_box w I _ _ Eb) as Bx.
      split; [|split; [reflexivity|split; [reflexivity|split; [reflexivity|split; [reflexivity|split]]]]].
      + apply (C_box _ (winvC_box_del w m Hnd I)).
      + intros m' slot. pose proof (C_next _ (winvC_box_del w m Hnd I) m' slot) as K. unfold sv_cnt. unfold batch_cnt, me in *. simpl in *. lia.
      + intros m' vs E. injection E as <- <-. destruct (ready_full w m b D Bx Er) as [F _]. split; auto.
        exists b. split; auto. destruct Bx as (_&C2&_). exact C2. }
  injection H as <- <- <-.
  split; [apply (C_box w I)|]. split; [reflexivity|]. split; [reflexivity|]. split; [reflexivity|]. split; [reflexivity|]. split.
  - intros m slot. pose proof (C_next w I m slot). unfold sv_cnt. lia.
  - intros; discriminate.
Qed.

(* the state between _get_desired_result and the moment the body stores the value *)
Definition pendC (w0 w1 : wstate) (sv : sendval) : Prop :=
  (forall m b, box_get m (w_boxes w1) = Some b -> boxC w1 m b) /\
  w_log w1 = w_log w0 /\ w_deposited w1 = w_deposited w0 /\ w_id w1 = w_id w0 /\
  Forall log_fullC (w_log w0) /\
  (forall m slot, batch_cnt w0 m slot + fresh_cnt w1 m slot + sv_cnt m sv slot <= cnt (mkAddr (me w0) m slot) (w_deposited w0)).

Lemma pendC_drop : forall w0 w1 sv, pendC w0 w1 sv -> winvC w1.
Proof. intros w0 w1 sv (P1&P2&P3&P4&P5&P6). constructor; auto.
  - rewrite P2. auto.
  - intros m slot. specialize (P6 m slot). unfold batch_cnt, me in *. rewrite P2, P3, P4. lia. Qed.

Lemma batches_app : forall m l1 l2, batches m (l1 ++ l2) = batches m l1 ++ batches m l2.
Proof. intros. unfold batches. apply flat_map_app. Qed.

Lemma pendC_log : forall w0 w1 sv e, pendC w0 w1 sv -> log_fullC e ->
  (forall m slot, cntn slot (map fst (entry_batch m e)) <= sv_cnt m sv slot) ->
  winvC (set_log w1 (w_log w1 ++ [e])).
Proof. intros w0 w1 sv e (P1&P2&P3&P4&P5&P6) He Hb. constructor; simpl.
  - intros m b Hg. eapply boxC_same; [| |apply P1; exact Hg]; reflexivity.
  - apply Forall_app. split; [rewrite P2; auto|constructor; auto].
  - intros m slot. specialize (P6 m slot). specialize (Hb m slot). unfold batch_cnt, fresh_cnt, me in *. simpl.
    rewrite P2, batches_app, map_app, cntn_app, P3, P4. simpl. rewrite app_nil_r. lia. Qed.

Lemma spec_box_C : forall w m sp, boxC w m (spec_box sp).
Proof. intros. destruct sp; unfold boxC; simpl.
  - repeat split; auto; try lia; intros; try contradiction; unfold cntn; simpl; lia.
  - rewrite repeat_length, map_length. repeat split; auto; try lia; intros; try contradiction; unfold cntn; simpl; lia. Qed.

Lemma apply_eff_C : forall w comp es, winvC w -> (forall m, In m (keys (w_boxes w)) -> m < w_counter w) ->
  winvC (apply_eff w comp es).
Proof.
  intros w comp es [K1 K2 K3] Hlt. constructor.
  - simpl. intros m b Hb. rewrite box_get_app in Hb. destruct (box_get m (w_boxes w)) eqn:E0.
    + injection Hb as <-. eapply boxC_same; [| |apply K1; exact E0]; reflexivity.
    + apply box_get_eff_boxes in Hb. destruct Hb as (_ & sp & _ & ->). apply spec_box_C.
  - exact K2.
  - intros m slot. specialize (K3 m slot). unfold batch_cnt, fresh_cnt, me in *. simpl. rewrite box_get_app.
    destruct (box_get m (w_boxes w)) eqn:E0; [exact K3|].
    destruct (box_get m (eff_boxes (w_counter w) es)) eqn:E1; [|exact K3].
    apply box_get_eff_boxes in E1. destruct E1 as (_ & sp & _ & ->).
    assert (fresh_slots (spec_box sp) = []) by (destruct sp; reflexivity). rewrite H. exact K3.
Qed.

Lemma resume_C : forall w0 w1 t2 sv w2 t3 y, pendC w0 w1 sv ->
  (forall m, In m (keys (w_boxes w1)) -> m < w_counter w1) ->
  (forall m vs f, sv = SFull m vs -> t_pend t2 = PendAwait f ->
     Forall (fun c => c <> None) vs /\ exists sp, nth_error (specs_of (t_script t2)) f = Some sp /\ length vs = length (kids sp)) ->
  resume w1 t2 sv = (w2, t3, y) -> winvC w2 /\ w_errs w2 = w_errs w1.
Proof.
  intros w0 w1 t2 sv w2 t3 y P Hlt Hfull H. unfold resume in H.
  assert (Hrun : forall wL tL, winvC wL -> w_boxes wL = w_boxes w1 -> w_counter wL = w_counter w1 -> w_errs wL = w_errs w1 ->
            run (t_rest t2) wL tL = (w2, t3, y) -> winvC w2 /\ w_errs w2 = w_errs w1).
  { intros wL tL IL Hb Hc He Hr. apply run_exact in Hr. destruct Hr as (es & _ & _ & _ & _ & Hw & _). rewrite Hw.
    split; [apply apply_eff_C; auto; rewrite Hb, Hc; auto|simpl; auto]. }
  assert (Hraise : raised w1 t2 = (w2, t3, y) -> winvC w2 /\ w_errs w2 = w_errs w1).
  { unfold raised. intro E. injection E as <- <- <-. split; [eapply pendC_drop; eauto|reflexivity]. }
  assert (Hlog : forall e tL, log_fullC e -> (forall m slot, cntn slot (map fst (entry_batch m e)) <= sv_cnt m sv slot) ->
            run (t_rest t2) (set_log w1 (w_log w1 ++ [e])) tL = (w2, t3, y) -> winvC w2 /\ w_errs w2 = w_errs w1).
  { intros e tL He Hb Hr. eapply (Hrun _ tL); [eapply pendC_log; eauto| | | |exact Hr]; reflexivity. }
  destruct (t_pend t2) eqn:Ep; destruct sv as [|m vs|m fr]; try (apply Hraise; exact H).
  - eapply (Hrun w1 t2); [eapply pendC_drop; eauto| | | |exact H]; reflexivity.
  - eapply (Hrun w1 t2); [eapply pendC_drop; eauto| | | |exact H]; reflexivity.
  - eapply (Hrun w1 t2); [eapply pendC_drop; eauto| | | |exact H]; reflexivity.
  - eapply Hlog; [| |exact H]; simpl; auto; intros; unfold cntn; simpl; lia.
  - eapply Hlog; [| |exact H].
    + simpl. apply (Hfull m vs f); auto.
    + intros; simpl; unfold cntn; simpl; lia.
  - eapply Hlog; [| |exact H]; simpl; auto; intros; unfold cntn; simpl; lia.
  - eapply Hlog; [| |exact H]; simpl; auto; intros m' slot;
    destruct (Nat.eqb m m'); simpl; try lia; unfold cntn; simpl; lia.
  - eapply Hlog; [| |exact H]; simpl; auto; intros m' slot;
    destruct (Nat.eqb m m'); simpl; try lia; unfold cntn; simpl; lia.
Qed.

Lemma task_fut_spec : forall w t m b f, task_okV w t -> t_desired t = Some m -> box_get m (w_boxes w) = Some b ->
  pend_fut (t_pend t) = Some f ->
  exists sp, nth_error (specs_of (t_script t)) f = Some sp /\ b_expect b = map ret_of (kids sp).
Proof.
  intros w t m b f (T2 & done & F & T3) Hd Hb Hp. destruct (T2 m Hd) as (f' & n & Hp' & Hf). rewrite Hp in Hp'. injection Hp' as <-.
  destruct (Forall2_nth_l _ _ _ _ _ _ _ F Hf) as (sp & Hsp & (_ & _ & Hexp)). simpl in Hexp.
  exists sp. split; [|auto].
  assert (E : exists tail, t_script t = done ++ tail) by (destruct T3 as [[E _]|(_ & E)]; eauto).
  destruct E as (tail & ->). rewrite specs_of_app, nth_error_app1; auto. apply nth_error_Some. congruence.
Qed.

Lemma complete_C : forall w t v w1 ok, winvV w -> winvC w -> plain_pc (w_pc w) ->
  (a_w (t_addr t) = me w -> lexp w (t_addr t) v) ->
  complete w t v = (w1, ok) -> winvC w1.
Proof.
  intros w t v w1 ok IV I Hp Hown H. unfold complete in H.
  destruct (dest_eqb (a_w (t_addr t)) (me w)) eqn:Eme.
  - destruct (handle_result w (t_addr t) v) as [w' ok'] eqn:Eh.
    destruct (handle_result_V _ _ _ _ _ IV Hown Eh) as (IV' & _).
    destruct (handle_result_C _ _ _ _ _ I Hown Eh) as (I' & _).
    destruct ok'; cbn [negb] in H.
    + destruct (close_boxes (t_owned t) _) as [w3 ok3] eqn:Ec in H. injection H as <- <-.
      eapply (close_boxes_C _ _ _ _ _ _ Ec).
    + injection H as <- <-. eapply winvC_same; [| | | |exact I']; reflexivity.
  - cbn [negb] in H. destruct (close_boxes (t_owned t) _) as [w3 ok3] eqn:Ec in H. injection H as <- <-.
    eapply (close_boxes_C _ _ _ _ _ _ Ec).
  Unshelve.
  + eapply winvC_same; [| | | |exact I']; reflexivity.
  + simpl. apply (V_keys w' IV').
  + eapply winvC_same; [| | | |exact I]; reflexivity.
  + simpl. apply (V_keys w IV).
Qed.

Lemma aw_C : forall w a m nxt, winvC w -> winvC (aw1 w a m) /\ winvC (aw1c w a nxt) /\ winvC (aw2 w a m).
Proof.
  intros w a m nxt I. split; [|split].
  - unfold aw1. destruct (box_get m (w_boxes w)) as [b|] eqn:Eb.
    + assert (I1 : winvC (set_boxes w (box_set m (b_set_dest b (Some a)) (w_boxes w)))).
      { apply (winvC_box_same_contents w m (b_set_dest b (Some a)) b I Eb); [|reflexivity].
        pose proof (C_box w I _ _ Eb) as B. exact B. }
      destruct (task_get a _); [eapply winvC_same; [| | | |exact I1]; reflexivity|exact I1].
    + destruct (task_get a _); [eapply winvC_same; [| | | |exact I]; reflexivity|exact I].
  - unfold aw1c. destruct (task_get a _); [eapply winvC_same; [| | | |exact I]; reflexivity|exact I].
  - unfold aw2. destruct (box_get m (w_boxes w)) as [b|]; [destruct (b_ready b)|]; auto.
    eapply winvC_same; [| | | |exact I]; reflexivity.
Qed.

(* ===== part 15 ===== *)

(* the part of a dispatch that is common to every outcome: value taken, body resumed, task written back *)
Lemma dispatch_front : forall w a t w1 t1 sv w2 t3 y, winvV w -> plain_pc (w_pc w) ->
  task_get a (w_tasks w) = Some t -> desired_result w t = inl (w1, t1, sv) ->
  resume w1 (t_set_desired (t_set_won t1 false) None) sv = (w2, t3, y) ->
  let w2' := set_tasks w2 (task_set t3 (w_tasks w2)) in
  winvV w1 /\ winvV w2' /\ ext w w2' /\ plain_pc (w_pc w2') /\ w_id w2' = w_id w /\
  t_addr t3 = a /\ t_script t3 = t_script t /\
  (forall v, y = YReturn v -> v = ret_of (t_script t)) /\
  (forall m nxt, y = YAwait m nxt -> pend_at w2' a m) /\
  task_okV w t /\ sv_spec w t sv /\ t_pend (t_set_desired (t_set_won t1 false) None) = t_pend t /\
  t_script (t_set_desired (t_set_won t1 false) None) = t_script t.
Proof.
  intros w a t w1 t1 sv w2 t3 y I Hpc Eg Ed Er w2'.
  pose proof (task_get_Some _ _ _ Eg) as [Hta Hin].
  pose proof (V_tasks w I t Hin) as Tok.
  destruct (desired_result_V _ _ _ _ _ I Ed) as (I1 & E1 & (F1&F2&F3&F4&F5&F6&F7&F8) & O1 & S1 & Sv).
  destruct S1 as (S1a&S1b&S1c&S1d&S1e&S1f&S1g&S1h&S1i).
  set (t2 := t_set_desired (t_set_won t1 false) None) in *.
  assert (Tok2 : task_okV w1 t2).
  { destruct (task_okV_ext _ _ _ E1 Tok) as (T2 & done & F & T3).
    split; [simpl; intros m Hm; discriminate|]. exists done. simpl. rewrite S1c, S1d, S1e. auto. }
  assert (Svok : sv_ok t2 sv).
  { pose proof (sv_spec_ok _ _ _ I Tok Sv) as Q. destruct sv; simpl in *; auto; rewrite S1f, S1c; exact Q. }
  destruct (resume_V _ _ _ _ _ _ I1 Tok2 eq_refl Svok Er) as
    (wL & t2' & L1 & L2 & L3 & L4 & L5 & L6 & L7 & L8 & L9 & L10 & (es & I2 & E2 & R1 & R2 & R3 & R4 & R5 & R6 & R7 & R8 & R9 & R10 & R11 & R12 & R13 & R14 & R15)).
  simpl in L8, L9, L10.
  assert (EL : ext w1 wL) by (apply ext_same; auto).
  assert (Ta3 : t_addr t3 = a) by congruence.
  assert (Ts3 : t_script t3 = t_script t) by congruence.
  assert (Tg2 : task_get a (w_tasks w2) = Some t) by (rewrite R1, L3, F3; exact Eg).
  assert (Hpc2 : plain_pc (w_pc w2)) by (rewrite R3, L5, F6; exact Hpc).
  assert (I2' : winvV w2').
  { apply winvV_task_set; auto. intros a' m' Hq _. exfalso. clear - Hq Hpc2.
    destruct (w_pc w2); simpl in Hpc2; try tauto; destruct Hq as [[n [E|E]]|E]; discriminate. }
  assert (Ew2 : ext w w2') by (eapply ext_trans; [exact E1|]; eapply ext_trans; [exact EL|]; eapply ext_trans; [exact E2|apply ext_same; reflexivity]).
  split; [exact I1|]. split; [exact I2'|]. split; [exact Ew2|]. split; [exact Hpc2|].
  split; [subst w2'; simpl; congruence|]. split; [exact Ta3|]. split; [exact Ts3|].
  split; [intros v E; rewrite (R15 v E); congruence|].
  split.
  - intros m nxt E. destruct (R14 m nxt E) as (f & n & P1 & P2). exists t3, f, n. split; auto.
    subst w2'. simpl. rewrite <- Ta3. apply task_get_task_set_same.
  - split; [exact Tok|]. split; [exact Sv|]. split; [simpl; exact S1f|simpl; exact S1c].
Qed.

Lemma dispatch_C : forall atomic w a, winvV w -> winvC w -> dep1 w -> plain_pc (w_pc w) -> own_ok w ->
  winvC (dispatch atomic w a).
Proof.
  intros atomic w a IV I D Hpc Hown. unfold dispatch.
  destruct (task_get a (w_tasks w)) as [t|] eqn:Eg; [|eapply winvC_same; [| | | |exact I]; reflexivity].
  pose proof (task_get_Some _ _ _ Eg) as [Hta Hin].
  destruct (desired_result w t) as [[[w1 t1] sv]|e] eqn:Ed.
  2:{ unfold task_error. eapply winvC_same; [| | | |exact I]; reflexivity. }
  destruct (resume w1 (t_set_desired (t_set_won t1 false) None) sv) as [[w2 t3] y] eqn:Er.
  destruct (dispatch_front _ _ _ _ _ _ _ _ _ IV Hpc Eg Ed Er) as (IV1 & IV2 & Ew2 & Hpc2 & Hid & Ta3 & Ts3 & Hret & Hpend & Tok & Sv & Ep & Es).
  destruct (desired_result_C _ _ _ _ _ I D (V_keys w IV) Ed) as (P1 & P2 & P3 & P4 & P5 & P6 & P7).
  assert (P : pendC w w1 sv) by (exact (conj P1 (conj P2 (conj P3 (conj P4 (conj (C_log w I) P6)))))).
  assert (Hfull : forall m vs f, sv = SFull m vs -> t_pend (t_set_desired (t_set_won t1 false) None) = PendAwait f ->
     Forall (fun c => c <> None) vs /\ exists sp, nth_error (specs_of (t_script (t_set_desired (t_set_won t1 false) None))) f = Some sp /\ length vs = length (kids sp)).
  { intros m vs f E Epf. destruct (P7 m vs E) as (Ffull & b & Hb & Hlen). split; auto.
    rewrite Ep in Epf. rewrite Es. subst sv. inversion Sv as [|m' b' Hd Hw Hb' Heq|]; subst.
    assert (b' = b) by congruence. subst b'.
    destruct (task_fut_spec w t m b f Tok Hd Hb) as (sp & Hsp & Hexp); [rewrite Epf; reflexivity|].
    exists sp. split; auto. rewrite Hlen, Hexp, map_length. reflexivity. }
  destruct (resume_C _ _ _ _ _ _ _ P (V_keys_lt w1 IV1) Hfull Er) as (I2 & _).
  set (w2' := set_tasks w2 (task_set t3 (w_tasks w2))) in *.
  assert (I2' : winvC w2') by (eapply winvC_same; [| | | |exact I2]; reflexivity).
  destruct y as [m nxt|v|].
  - destruct (negb (has_box w2' m)); [unfold task_error; eapply winvC_same; [| | | |exact I2']; reflexivity|].
    destruct atomic; [|eapply winvC_same; [| | | |exact I2']; reflexivity].
    destruct (aw_C w2' a m nxt I2') as (J1 & _ & _).
    destruct (aw_C (aw1 w2' a m) a m nxt J1) as (_ & J2 & _).
    destruct (aw_C (aw1c (aw1 w2' a m) a nxt) a m nxt J2) as (_ & _ & J3).
    eapply winvC_same; [| | | |exact J3]; reflexivity.
  - destruct (complete w2' t3 v) as [w3 ok] eqn:Ec.
    assert (Hown3 : a_w (t_addr t3) = me w2' -> lexp w2' (t_addr t3) v).
    { intro Hm. rewrite Ta3, <- Hta in *. assert (Hm' : a_w (t_addr t) = me w) by (rewrite Hm; unfold me; congruence).
      destruct (Hown t Hin Hm') as (Lx & Hlt). rewrite (Hret v eq_refl).
      eapply lexp_ext; [exact Ew2|exact Hlt|exact Lx]. }
    pose proof (complete_C _ _ _ _ _ IV2 I2' Hpc2 Hown3 Ec) as I3.
    destruct ok; [|unfold fatal]; (eapply winvC_same; [| | | |exact I3]; reflexivity).
  - unfold task_error. eapply winvC_same; [| | | |exact I2']; reflexivity.
Qed.

Lemma main_step_C : forall atomic w w', winvV w -> winvC w -> dep1 w -> own_ok w ->
  main_step atomic w = Some w' -> winvC w'.
Proof.
  intros atomic w w' IV I D Hown H. unfold main_step in H. destruct (w_pc w) eqn:Epc.
  - destruct (w_ready w); [destruct (w_delayed w)|]; injection H as <-; (eapply winvC_same; [| | | |exact I]; reflexivity).
  - destruct (last_opt (w_delayed w)); injection H as <-; [|unfold fatal]; (eapply winvC_same; [| | | |exact I]; reflexivity).
  - destruct (w_ready w) as [|a q]; injection H as <-.
    + eapply winvC_same; [| | | |exact I]; reflexivity.
    + apply dispatch_C; auto.
      * eapply winvV_same; [| | | | |exact IV]; reflexivity.
      * eapply winvC_same; [| | | |exact I]; reflexivity.
      * simpl. rewrite Epc. exact Logic.I.
  - destruct (w_ready w) as [|a q]; [discriminate|]. injection H as <-.
    apply dispatch_C; auto.
    + eapply winvV_same; [| | | | |exact IV]; reflexivity.
    + eapply winvC_same; [| | | |exact I]; reflexivity.
    + simpl. rewrite Epc. exact Logic.I.
  - injection H as <-. destruct (aw_C w a m nxt I) as (J & _ & _). eapply winvC_same; [| | | |exact J]; reflexivity.
  - injection H as <-. destruct (aw_C w a m nxt I) as (_ & J & _). eapply winvC_same; [| | | |exact J]; reflexivity.
  - injection H as <-. destruct (aw_C w a m false I) as (_ & _ & J). eapply winvC_same; [| | | |exact J]; reflexivity.
  - discriminate.
Qed.

Lemma recv_step_C : forall w m, winvC w ->
  (forall p, In p (msg_res m) -> a_w (fst p) = me w -> lexp w (fst p) (snd p)) ->
  winvC (recv_step w m).
Proof.
  intros w m I Hres. unfold recv_step. destruct (w_rdead w); [exact I|].
  destruct m as [t|ts|a v c|r| |c| |a]; try exact I; try (eapply winvC_same; [| | | |exact I]; reflexivity).
  - destruct ts as [|t0 r]; [eapply winvC_same; [| | | |exact I]; reflexivity|].
    destruct (last_opt (t0 :: r)); (eapply winvC_same; [| | | |exact I]; reflexivity).
  - destruct (handle_result w a v) as [w1 ok] eqn:Eh.
    assert (L : a_w a = me w -> lexp w a v) by (intro E; apply (Hres (a, v)); simpl; auto).
    destruct (handle_result_C _ _ _ _ _ I L Eh) as (I1 & _).
    destruct ok; [exact I1|eapply winvC_same; [| | | |exact I1]; reflexivity].
Qed.

(* ===== part 16 ===== *)

Lemma sumf_le : forall A (f g : A -> nat) l, (forall x, In x l -> f x <= g x) -> sumf f l <= sumf g l.
Proof. induction l; simpl; intros; auto. specialize (H a (or_introl eq_refl)) as H1. specialize (IHl (fun x Hx => H x (or_intror Hx))). lia. Qed.

Lemma dep_unique : forall s, invA s -> invB s -> forall a, n_dep a s <= 1.
Proof.
  intros s IA IB a.
  assert (H1 : n_dep a s <= sumf (w_resB a) (s_workers s)).
  { unfold n_dep. apply sumf_le. intros w _. unfold w_resB. lia. }
  assert (H2 : n_stuck a s <= n_running a s).
  { unfold n_stuck, n_running. apply sumf_le. intros w Hw. destruct (B_stuck s IB w Hw) as [J _]. apply J. }
  pose proof (B_cons s IB a) as C. unfold n_resB in C.
  pose proof (A_cons s IA a) as CA. pose proof (A_uniq s IA a) as U. pose proof (n_running_le a s) as L.
  unfold n_task in CA. lia.
Qed.

Lemma dep1_worker : forall s w, invA s -> invB s -> In w (s_workers s) -> dep1 w.
Proof. intros s w IA IB Hw a. pose proof (dep_unique s IA IB a) as U. unfold n_dep in U.
  pose proof (sumf_ge _ (fun w => cnt a (w_deposited w)) _ _ Hw). simpl in H. lia. Qed.

Definition invC (s : sys) : Prop := forall w, In w (s_workers s) -> winvC w.

Lemma winvC_w0 : forall j, winvC (w0 j).
Proof. intro j. constructor; simpl.
  - intros; discriminate.
  - constructor.
  - intros. unfold batch_cnt, fresh_cnt. simpl. unfold cntn. simpl. lia. Qed.

Lemma invC_init : forall k, invC (sys0 k).
Proof. intros k w Hw. simpl in Hw. apply in_map_iff in Hw. destruct Hw as (j & <- & _). apply winvC_w0. Qed.

Lemma step_invC : forall atomic s e s', invA s -> invV s -> invB s -> invC s -> step atomic s e = Some s' -> invC s'.
Proof.
  intros atomic s e s' IA IV IB I H. destruct e as [sc target|i|i|i asg]; simpl in H.
  - destruct (Nat.ltb target (length (s_workers s))); [|discriminate]. injection H as <-. exact I.
  - destruct (nth_error (s_workers s) i) as [w|] eqn:Ew; [|discriminate].
    destruct (nth_error (s_down s) i) as [[|m q]|] eqn:Ed; try discriminate.
    destruct (w_rdead w) eqn:Erd; [discriminate|]. injection H as <-.
    pose proof (nth_error_In _ _ Ew) as Hwin. pose proof (nth_error_In _ _ Ed) as Hqin.
    intros w' Hw'. simpl in Hw'. apply In_set_nth in Hw'. destruct Hw' as [->|Hw']; [|apply I; auto].
    apply recv_step_C; [apply I; auto|].
    intros p Hp Hme. assert (Hp' : In p (chan_res (m :: q))) by (unfold chan_res; simpl; apply in_or_app; auto).
    destruct (VG_res_down s IV _ _ Hqin Hp') as (_ & Ex). unfold expect_ok in Ex.
    rewrite Hme in Ex. unfold me in Ex. rewrite (A_ids s IA i w Ew) in Ex. apply Ex. auto.
  - destruct (nth_error (s_workers s) i) as [w|] eqn:Ew; [|discriminate].
    destruct (main_step atomic w) as [w'|] eqn:Em; [|discriminate]. injection H as <-.
    pose proof (nth_error_In _ _ Ew) as Hwin.
    intros w0 Hw0. simpl in Hw0. apply In_set_nth in Hw0. destruct Hw0 as [->|Hw0]; [|apply I; auto].
    eapply main_step_C; [apply (VG_w s IV w Hwin)|apply I; auto|eapply dep1_worker; eauto| |exact Em].
    intros t Ht Hme. destruct (VG_held s IV w t Hwin) as (G & Ex).
    { unfold w_held. apply in_or_app. right. apply in_or_app. auto. }
    unfold expect_ok, good_addr in *. rewrite Hme in *. unfold me in *. rewrite (A_ids s IA i w Ew) in *.
    split; [apply Ex; auto|]. destruct G as (wx & Hwx & Hlt). congruence.
  - destruct (nth_error (s_workers s) i) as [w|] eqn:Ew; [|discriminate].
    destruct (w_out w) as [|m q] eqn:Eo; [discriminate|].
    pose proof (nth_error_In _ _ Ew) as Hwin.
    assert (G : forall d cl er ft, invC (mkSys (set_nth i (set_out w q) (s_workers s)) d cl er (s_nbox s) ft (s_roots s))).
    { intros d cl er ft w' Hw'. simpl in Hw'. apply In_set_nth in Hw'. destruct Hw' as [->|Hw']; [|apply I; auto].
      eapply winvC_same; [| | | |apply (I w Hwin)]; reflexivity. }
    unfold server_msg in H. cbn [s_workers set_workers s_down s_client s_errors s_nbox s_fatal s_roots] in H.
    destruct m as [t|ts|a v c|r| |c| |a].
    + destruct (valid_asg _ 1 asg); [|discriminate]. injection H as <-. apply G.
    + destruct (valid_asg _ (length ts) asg); [|discriminate]. injection H as <-. apply G.
    + destruct (a_w a) as [|j]; [injection H as <-; apply G|].
      destruct (Nat.ltb j _); injection H as <-; apply G.
    + injection H as <-. apply G.
    + injection H as <-. apply G.
    + injection H as <-. apply G.
    + injection H as <-. apply G.
    + injection H as <-. apply G.
Qed.

Lemma steps_inv4 : forall atomic es s s', invA s /\ invV s /\ invB s /\ invC s -> steps atomic s es = Some s' ->
  invA s' /\ invV s' /\ invB s' /\ invC s'.
Proof. induction es as [|e r IH]; simpl; intros s s' (IA & IV & IB & IC) H.
  - injection H as <-. auto.
  - destruct (step atomic s e) as [s1|] eqn:E; [|discriminate]. apply (IH s1); auto.
    split; [eapply step_invA; eauto|]. split; [eapply step_invV; eauto|]. split; [eapply step_invB; eauto|eapply step_invC; eauto]. Qed.

Lemma reachable_inv4 : forall atomic k s, reachable atomic k s -> invA s /\ invV s /\ invB s /\ invC s.
Proof. intros atomic k s [es H]. eapply steps_inv4; [|exact H].
  split; [apply invA_init|]. split; [apply invV_init|]. split; [apply invB_init|apply invC_init]. Qed.

Lemma nth_error_ext' : forall A (l1 l2 : list A), (forall i, nth_error l1 i = nth_error l2 i) -> l1 = l2.
Proof. induction l1 as [|x r IH]; destruct l2 as [|y r2]; intros H; auto.
  - specialize (H 0). discriminate.
  - specialize (H 0). discriminate.
  - pose proof (H 0) as H0. simpl in H0. injection H0 as ->. f_equal. apply IH. intro i. apply (H (S i)). Qed.

(* ---- an awaited value is complete; next() never repeats a slot ---- *)
Theorem await_complete : forall atomic k s, reachable atomic k s ->
  forall w a sc m f vs, In w (s_workers s) -> In (a, sc, Some m, OAwait f vs) (w_log w) ->
    exists sp, nth_error (specs_of sc) f = Some sp /\ vs = map (fun c => Some (ret_of c)) (kids sp).
Proof.
  intros atomic k s R w a sc m f vs Hw Hin.
  destruct (reachable_inv4 _ _ _ R) as (IA & IV & IB & IC).
  pose proof (C_log w (IC w Hw)) as L. rewrite Forall_forall in L. specialize (L _ Hin). simpl in L.
  destruct L as (Ffull & sp & Hsp & Hlen).
  pose proof (V_log w (VG_w s IV w Hw)) as LV. rewrite Forall_forall in LV. specialize (LV _ Hin). simpl in LV.
  exists sp. split; auto.
  apply nth_error_ext'. intro i. rewrite nth_error_map.
  destruct (nth_error vs i) as [c|] eqn:Ei.
  - destruct c as [v|]; [|rewrite Forall_forall in Ffull; exfalso; apply (Ffull None); [eapply nth_error_In; eauto|reflexivity]].
    destruct (LV i v Ei) as (sp' & Hsp' & Hv). assert (sp' = sp) by congruence. subst sp'.
    rewrite nth_error_map in Hv. destruct (nth_error (kids sp) i); simpl in *; congruence.
  - assert (length vs <= i) by (apply nth_error_None; auto).
    assert (nth_error (kids sp) i = None) by (apply nth_error_None; lia). rewrite H0. reflexivity.
Qed.

Theorem next_disjoint : forall atomic k s, reachable atomic k s ->
  forall w m, In w (s_workers s) -> NoDup (map fst (batches m (w_log w))).
Proof.
  intros atomic k s R w m Hw. destruct (reachable_inv4 _ _ _ R) as (IA & IV & IB & IC).
  apply cntn_le1_NoDup. intro slot.
  pose proof (C_next w (IC w Hw) m slot) as K. unfold batch_cnt in K.
  pose proof (dep1_worker s w IA IB Hw (mkAddr (me w) m slot)). lia.
Qed.

(* once as many results as slots have been handed out, every slot has been seen *)
Lemma next_covers : forall (bt : list (nat * val)) n, NoDup (map fst bt) -> (forall i v, In (i, v) bt -> i < n) ->
  n <= length bt -> forall i, i < n -> In i (map fst bt).
Proof. intros bt n Hnd Hlt Hlen i Hi. apply (pigeon (map fst bt) n); auto.
  - intros x Hx. apply in_map_iff in Hx. destruct Hx as ([j v] & <- & Hin). eapply Hlt; eauto.
  - rewrite map_length. auto. Qed.

Theorem deposits_once : forall atomic k s, reachable atomic k s -> forall a, n_dep a s <= 1.
Proof. intros atomic k s R a. destruct (reachable_inv4 _ _ _ R) as (IA & IV & IB & IC). apply dep_unique; auto. Qed.

Theorem slot_values_full : forall atomic k s, reachable atomic k s ->
  (forall w a sc m f vs, In w (s_workers s) -> In (a, sc, Some m, OAwait f vs) (w_log w) ->
     exists sp, nth_error (specs_of sc) f = Some sp /\ vs = map (fun c => Some (ret_of c)) (kids sp)) /\
  (forall w a sc mo f bt, In w (s_workers s) -> In (a, sc, mo, ONext f bt) (w_log w) ->
     forall i v, In (i, v) bt -> slot_spec sc f i v) /\
  (forall a v, In (a, v) (s_client s) -> In (a_box a, v) (s_roots s)) /\
  (forall b v v', In (b, v) (s_roots s) -> In (b, v') (s_roots s) -> v = v').
Proof.
  intros atomic k s R. destruct (slot_values atomic k s R) as (_ & H2 & H3 & H4).
  split; [|auto]. intros. eapply await_complete; eauto.
Qed.

(* ===== part 17 ===== *)

(* ---------- Part D: at most one pending wake-up (atomic await registration) ---------- *)
Definition armedb (a : addr) (b : mailbox) : bool :=
  match b_dest b with Some d => addr_eqb d a | None => false end && negb (b_ready b).
Definition armedn (a : addr) (b : mailbox) : nat := if armedb a b then 1 else 0.
Fixpoint armed_l (a : addr) (bs : list (nat * mailbox)) : nat :=
  match bs with [] => 0 | (_, b) :: r => armedn a b + armed_l a r end.
Definition armed (a : addr) (w : wstate) : nat := armed_l a (w_boxes w).
Definition qcnt (a : addr) (w : wstate) : nat := cnt a (w_ready w).

Lemma armed_l_app : forall a l1 l2, armed_l a (l1 ++ l2) = armed_l a l1 + armed_l a l2.
Proof. induction l1 as [|[k b] r IH]; simpl; intros; auto. rewrite IH. lia. Qed.
Lemma armed_l_set : forall a m b b0 bs, NoDup (keys bs) -> box_get m bs = Some b0 ->
  armed_l a (box_set m b bs) + armedn a b0 = armed_l a bs + armedn a b.
Proof. induction bs as [|[k b1] r IH]; simpl; intros Hnd Hg; [discriminate|].
  inversion Hnd; subst. destruct (Nat.eqb k m) eqn:E; simpl.
  - injection Hg as ->. lia.
  - specialize (IH H2 Hg). lia. Qed.
Lemma armed_l_del : forall a m b0 bs, NoDup (keys bs) -> box_get m bs = Some b0 ->
  armed_l a (box_del m bs) + armedn a b0 = armed_l a bs.
Proof. induction bs as [|[k b1] r IH]; simpl; intros Hnd Hg; [discriminate|].
  inversion Hnd; subst. destruct (Nat.eqb k m) eqn:E; simpl.
  - injection Hg as ->. lia.
  - specialize (IH H2 Hg). lia. Qed.

Lemma armed_l_pos : forall a bs, armed_l a bs >= 1 -> exists m b, In (m, b) bs /\ armedb a b = true.
Proof. induction bs as [|[k b1] r IH]; simpl; intros H; [lia|].
  unfold armedn in H. destruct (armedb a b1) eqn:E.
  - exists k, b1. auto.
  - destruct IH as (m & b & Hg & Hb); [lia|]. exists m, b. auto. Qed.
Lemma In_box_get : forall m b bs, NoDup (keys bs) -> In (m, b) bs -> box_get m bs = Some b.
Proof. induction bs as [|[k b1] r IH]; simpl; intros Hnd H; [tauto|]. inversion Hnd; subst.
  destruct H as [H|H].
  - injection H as -> ->. rewrite Nat.eqb_refl. auto.
  - destruct (Nat.eqb k m) eqn:E; [b2p; subst; exfalso; apply H2; apply (in_map fst) in H; exact H|auto]. Qed.
Lemma armed_l_ge : forall a m b bs, In (m, b) bs -> armedb a b = true -> armed_l a bs >= 1.
Proof. induction bs as [|[k b1] r IH]; simpl; intros H Hb; [tauto|]. destruct H as [H|H].
  - injection H as -> ->. unfold armedn. rewrite Hb. lia.
  - specialize (IH H Hb). lia. Qed.
Lemma armed_l_eff : forall a es c, armed_l a (eff_boxes c es) = 0.
Proof. induction es as [|sp r IH]; simpl; intros; auto. rewrite IH. destruct sp; reflexivity. Qed.

Definition err_ok (w : wstate) : Prop := forall e, In e (w_errs w) -> e <> EAssertReady /\ e <> EAssertFresh.

Definition steppable (w : wstate) (a : addr) : Prop :=
  forall t m b, task_get a (w_tasks w) = Some t -> t_desired t = Some m -> box_get m (w_boxes w) = Some b ->
    if t_won t then b_fresh b <> None else b_ready b = true.

Record winvD (w : wstate) : Prop := {
  D_pc : plain_pc (w_pc w);
  D_one : forall a, qcnt a w + armed a w <= 1;
  D_alive : forall a, qcnt a w + armed a w >= 1 -> exists t, task_get a (w_tasks w) = Some t;
  D_step : forall a, In a (w_ready w) -> steppable w a;
  D_armed : forall m b a, box_get m (w_boxes w) = Some b -> armedb a b = true ->
              exists t, task_get a (w_tasks w) = Some t /\ t_desired t = Some m;
  D_err : err_ok w
}.

Lemma winvD_w0 : forall j, winvD (w0 j).
Proof. intro j. constructor.
  - exact Logic.I.
  - intro a. unfold qcnt, armed, cnt. simpl. lia.
  - intro a. unfold qcnt, armed, cnt. simpl. lia.
  - intros a [].
  - simpl. intros; discriminate.
  - intros e []. Qed.

Lemma winvD_same : forall w w', w_ready w' = w_ready w -> w_boxes w' = w_boxes w -> w_tasks w' = w_tasks w ->
  w_pc w' = w_pc w -> w_errs w' = w_errs w -> winvD w -> winvD w'.
Proof. intros w w' H1 H2 H3 H4 H5 [K1 K2 K3 K4 K5 K6]. constructor.
  - rewrite H4. auto.
  - intro a. unfold qcnt, armed. rewrite H1, H2. apply K2.
  - intro a. unfold qcnt, armed. rewrite H1, H2, H3. apply K3.
  - intros a Ha. rewrite H1 in Ha. unfold steppable. rewrite H2, H3. apply K4; auto.
  - rewrite H2, H3. apply K5.
  - unfold err_ok. rewrite H5. apply K6. Qed.

Lemma b_ready_mono : forall b slot v b1 ok, deposit b slot v = (b1, ok) -> b_ready b = true -> b_ready b1 = true.
Proof. intros b slot v b1 ok H R. unfold deposit in H. unfold b_ready in *. apply andb_true_iff in R. destruct R as [R1 R2]. b2p.
  destruct (b_single b); [|destruct (Nat.ltb slot (length (b_result b)))]; injection H as <- <-; simpl;
    apply andb_true_iff; split; try (apply Nat.leb_le; lia); first [reflexivity|exact R2]. Qed.
Lemma deposit_fresh : forall b slot v b1 ok, deposit b slot v = (b1, ok) -> b_fresh b1 <> None.
Proof. intros b slot v b1 ok H. unfold deposit in H.
  destruct (b_single b); [|destruct (Nat.ltb slot (length (b_result b)))]; injection H as <- <-; simpl; discriminate. Qed.

(* a result for a slot that was never deposited cannot arrive at a mailbox that is already complete *)
Lemma deposit_not_ready : forall w m b slot, dep1 w -> boxC w m b -> slot < length (b_expect b) ->
  cnt (mkAddr (me w) m slot) (w_deposited w) = 0 -> b_ready b = false.
Proof. intros w m b slot D C Hs Hz. destruct (b_ready b) eqn:R; auto. exfalso.
  destruct (ready_full w m b D C R) as [_ Hall]. specialize (Hall slot Hs).
  destruct C as (_&_&_&_&_&C6). specialize (C6 slot).
  assert (cntn slot (b_got b) >= 1). { unfold cntn. apply count_occ_In. auto. } lia. Qed.

(* ---- elementary updates ---- *)
Lemma winvD_box_upd : forall w m b b0, winvD w -> NoDup (keys (w_boxes w)) -> box_get m (w_boxes w) = Some b0 ->
  (forall x, armedb x b = true -> armedb x b0 = true) ->
  (b_ready b0 = true -> b_ready b = true) -> (b_fresh b0 <> None -> b_fresh b <> None) ->
  winvD (set_boxes w (box_set m b (w_boxes w))).
Proof.
  intros w m b b0 [K1 K2 K3 K4 K5 K6] Hnd Hg Harm Hr Hf.
  assert (Hle : forall x, armed_l x (box_set m b (w_boxes w)) <= armed_l x (w_boxes w)).
  { intro x. pose proof (armed_l_set x m b b0 _ Hnd Hg) as E. unfold armedn in *.
    destruct (armedb x b) eqn:E1; [rewrite (Harm x E1) in E|]; destruct (armedb x b0); lia. }
  constructor; simpl; auto.
  - intro a. unfold qcnt, armed in *. simpl. specialize (K2 a). specialize (Hle a). lia.
  - intros a Ha. apply K3. unfold qcnt, armed in *. simpl in Ha. specialize (Hle a). lia.
  - intros a Ha t m' b' Ht Hd Hb. simpl in *. destruct (Nat.eq_dec m' m).
    + subst. rewrite box_get_set_same in Hb. injection Hb as <-. specialize (K4 a Ha t m b0 Ht Hd Hg).
      destruct (t_won t); auto.
    + rewrite box_get_set_other in Hb by auto. apply (K4 a Ha t m' b' Ht Hd Hb).
  - intros m' b' a Hb Ha. destruct (Nat.eq_dec m' m).
    + subst. rewrite box_get_set_same in Hb. injection Hb as <-. apply (K5 m b0 a Hg (Harm a Ha)).
    + rewrite box_get_set_other in Hb by auto. apply (K5 m' b' a Hb Ha).
Qed.

Lemma winvD_box_del : forall w m b0, winvD w -> NoDup (keys (w_boxes w)) -> box_get m (w_boxes w) = Some b0 ->
  winvD (set_boxes w (box_del m (w_boxes w))).
Proof.
  intros w m b0 [K1 K2 K3 K4 K5 K6] Hnd Hg.
  assert (Hle : forall x, armed_l x (box_del m (w_boxes w)) <= armed_l x (w_boxes w)).
  { intro x. pose proof (armed_l_del x m b0 _ Hnd Hg). lia. }
  constructor; simpl; auto.
  - intro a. unfold qcnt, armed in *. simpl. specialize (K2 a). specialize (Hle a). lia.
  - intros a Ha. apply K3. unfold qcnt, armed in *. simpl in Ha. specialize (Hle a). lia.
  - intros a Ha t m' b' Ht Hd Hb. simpl in *. destruct (Nat.eq_dec m' m).
    + subst. rewrite box_get_del_same in Hb by auto. discriminate.
    + rewrite box_get_del_other in Hb by auto. apply (K4 a Ha t m' b' Ht Hd Hb).
  - intros m' b' a Hb Ha. destruct (Nat.eq_dec m' m).
    + subst. rewrite box_get_del_same in Hb by auto. discriminate.
    + rewrite box_get_del_other in Hb by auto. apply (K5 m' b' a Hb Ha).
Qed.

Lemma winvD_put : forall w d, winvD w -> qcnt d w + armed d w = 0 ->
  (exists t, task_get d (w_tasks w) = Some t) -> steppable w d -> winvD (put w d).
Proof.
  intros w d [K1 K2 K3 K4 K5 K6] Hz Hal Hst. constructor; simpl; auto.
  - intro a. unfold qcnt, armed in *. simpl. rewrite cnt_app, cnt_single. specialize (K2 a).
    destruct (addr_eqb a d) eqn:E; [apply addr_eqb_eq in E; subst; lia|lia].
  - intros a Ha. unfold qcnt, armed in *. simpl in Ha. rewrite cnt_app, cnt_single in Ha.
    destruct (addr_eqb a d) eqn:E; [apply addr_eqb_eq in E; subst; auto|apply K3; lia].
  - intros a Ha. apply in_app_or in Ha. destruct Ha as [Ha|[<-|[]]]; [apply (K4 a Ha)|exact Hst].
Qed.

Lemma winvD_errs : forall w e, winvD w -> e <> EAssertReady -> e <> EAssertFresh -> winvD (log_err w e).
Proof. intros w e [K1 K2 K3 K4 K5 K6] H1 H2. constructor; auto.
  intros e' He'. simpl in He'. apply in_app_or in He'. destruct He' as [He'|[<-|[]]]; auto. Qed.

Lemma winvD_set_pc : forall w p, plain_pc p -> winvD w -> winvD (set_pc w p).
Proof. intros w p Hp [K1 K2 K3 K4 K5 K6]. constructor; auto. Qed.

(* new, unarmed mailboxes at fresh ids *)
Definition des_lt (w : wstate) : Prop :=
  forall t m, In t (w_tasks w) -> t_desired t = Some m -> m < w_counter w.
Lemma winvV_des_lt : forall w, winvV w -> des_lt w.
Proof. intros w IV t m Ht Hd. destruct (V_tasks w IV t Ht) as (T2 & done & F & _).
  destruct (T2 m Hd) as (f & n & _ & Hf). destruct (Forall2_nth_l _ _ _ _ _ _ _ F Hf) as (sp & _ & (_ & Hlt & _)). exact Hlt. Qed.

Lemma winvD_apply_eff : forall w comp es, winvD w -> des_lt w -> winvD (apply_eff w comp es).
Proof.
  intros w comp es [K1 K2 K3 K4 K5 K6] DL. constructor; simpl; auto.
  - intro a. unfold qcnt, armed in *. simpl. rewrite armed_l_app, armed_l_eff. specialize (K2 a). lia.
  - intros a Ha. apply K3. unfold qcnt, armed in *. simpl in Ha. rewrite armed_l_app, armed_l_eff in Ha. lia.
  - intros a Ha t m b Ht Hd Hb. simpl in *. rewrite box_get_app in Hb.
    destruct (box_get m (w_boxes w)) eqn:E0; [injection Hb as <-; apply (K4 a Ha t m m0 Ht Hd E0)|].
    exfalso. apply box_get_eff_boxes in Hb. destruct Hb as (Hge & _).
    apply task_get_In in Ht. specialize (DL t m Ht Hd). lia.
  - intros m b a Hb Ha. simpl in Hb. rewrite box_get_app in Hb.
    destruct (box_get m (w_boxes w)) eqn:E0; [injection Hb as <-; apply (K5 m m0 a E0 Ha)|].
    exfalso. apply box_get_eff_boxes in Hb. destruct Hb as (_ & sp & _ & ->). destruct sp; discriminate.
Qed.

Lemma resume_D : forall w t sv w' t' y, winvD w -> des_lt w -> resume w t sv = (w', t', y) ->
  winvD w' /\ w_ready w' = w_ready w /\ w_tasks w' = w_tasks w /\ (forall x, armed x w' = armed x w).
Proof.
  intros w t sv w' t' y ID DL H. unfold resume in H.
  assert (Hr : forall w0 t0, winvD w0 -> des_lt w0 -> w_ready w0 = w_ready w -> w_tasks w0 = w_tasks w -> w_boxes w0 = w_boxes w ->
            run (t_rest t) w0 t0 = (w', t', y) ->
            winvD w' /\ w_ready w' = w_ready w /\ w_tasks w' = w_tasks w /\ (forall x, armed x w' = armed x w)).
  { intros w0 t0 I0 D0 R0 T0 B0 Hrun. apply run_exact in Hrun. destruct Hrun as (es & _ & _ & _ & _ & Hw & _). rewrite Hw.
    split; [apply winvD_apply_eff; auto|]. split; [simpl; auto|]. split; [simpl; auto|].
    intro x. unfold armed. simpl. rewrite armed_l_app, armed_l_eff, B0. lia. }
  assert (Hx : raised w t = (w', t', y) ->
            winvD w' /\ w_ready w' = w_ready w /\ w_tasks w' = w_tasks w /\ (forall x, armed x w' = armed x w)).
  { unfold raised. intro E. injection E as <- <- <-. auto. }
  assert (IL : forall l, winvD (set_log w l)) by (intro l; eapply winvD_same; [| | | | |exact ID]; reflexivity).
  destruct (t_pend t); destruct sv; try (apply Hx; exact H);
    (match type of H with run _ ?wl ?tl = _ => apply (Hr wl tl) end; [auto|exact DL|reflexivity|reflexivity|reflexivity|exact H]).
Qed.

(* writing back task a while it is neither queued nor armed *)
Lemma winvD_task_set : forall w t, winvD w -> qcnt (t_addr t) w + armed (t_addr t) w = 0 ->
  winvD (set_tasks w (task_set t (w_tasks w))).
Proof.
  intros w t [K1 K2 K3 K4 K5 K6] Hz. constructor; simpl; auto.
  - intros a Ha. destruct (K3 a Ha) as (t0 & Ht0). destruct (addr_eqb (t_addr t) a) eqn:E.
    + apply addr_eqb_eq in E. subst a. exists t. apply task_get_task_set_same.
    + apply addr_eqb_neq in E. exists t0. rewrite task_get_task_set_other; auto.
  - intros a Ha. destruct (addr_eqb (t_addr t) a) eqn:E.
    + apply addr_eqb_eq in E. subst a. exfalso. unfold qcnt in Hz.
      assert (cnt (t_addr t) (w_ready w) >= 1) by (apply cnt_pos_in; auto). lia.
    + apply addr_eqb_neq in E. unfold steppable. simpl. rewrite task_get_task_set_other by auto. apply (K4 a Ha).
  - intros m b a Hb Ha. simpl in *. destruct (K5 m b a Hb Ha) as (t0 & Ht0 & Hd).
    destruct (addr_eqb (t_addr t) a) eqn:E.
    + apply addr_eqb_eq in E. subst a. exfalso. unfold armed in Hz.
      assert (armed_l (t_addr t) (w_boxes w) >= 1) by (eapply armed_l_ge; [eapply box_get_In; eauto|auto]). lia.
    + apply addr_eqb_neq in E. exists t0. rewrite task_get_task_set_other; auto.
Qed.

Lemma winvD_add_task : forall w t, winvD w -> task_get (t_addr t) (w_tasks w) = None -> t_desired t = None ->
  winvD (add_task w t).
Proof.
  intros w t I Habs Hd.
  assert (Hz : qcnt (t_addr t) w + armed (t_addr t) w = 0).
  { destruct (qcnt (t_addr t) w + armed (t_addr t) w) eqn:E; auto. exfalso.
    destruct (D_alive w I (t_addr t)) as (t0 & Ht0); [lia|congruence]. }
  unfold add_task.
  assert (I1 : winvD (set_started (set_tasks w (task_set t (w_tasks w))) (w_started w ++ [t_addr t]))).
  { eapply winvD_same; [| | | | |apply (winvD_task_set w t I Hz)]; reflexivity. }
  apply winvD_put; auto.
  - exists t. simpl. apply task_get_task_set_same.
  - intros t0 m b Ht0 Hd0 Hb. simpl in Ht0. rewrite task_get_task_set_same in Ht0. injection Ht0 as <-. congruence.
Qed.

Lemma task_get_del_other : forall a x ts, x <> a -> task_get x (task_del a ts) = task_get x ts.
Proof. induction ts as [|t0 r IH]; simpl; intros Hx; auto.
  destruct (addr_eqb (t_addr t0) a) eqn:E1; destruct (addr_eqb (t_addr t0) x) eqn:E2; simpl; rewrite ?E2; auto.
  apply addr_eqb_eq in E1. apply addr_eqb_eq in E2. congruence. Qed.

Lemma winvD_task_del : forall w a, winvD w -> qcnt a w + armed a w = 0 ->
  winvD (set_tasks w (task_del a (w_tasks w))).
Proof.
  intros w a [K1 K2 K3 K4 K5 K6] Hz.
  constructor; simpl; auto.
  - intros x Hx. destruct (K3 x Hx) as (t0 & Ht0). exists t0. rewrite task_get_del_other; auto. intro; subst. unfold qcnt, armed in *. simpl in *. lia.
  - intros x Hx. assert (x <> a). { intro; subst. unfold qcnt in Hz. assert (cnt a (w_ready w) >= 1) by (apply cnt_pos_in; auto). lia. }
    unfold steppable. simpl. rewrite task_get_del_other by auto. apply (K4 x Hx).
  - intros m b x Hb Hx. simpl in *. destruct (K5 m b x Hb Hx) as (t0 & Ht0 & Hd). exists t0. split; auto. rewrite task_get_del_other; auto.
    intro; subst. unfold armed in Hz. assert (armed_l a (w_boxes w) >= 1) by (eapply armed_l_ge; [eapply box_get_In; eauto|auto]). lia.
Qed.

(* ===== part 18 ===== *)

Lemma armedb_dest : forall x b, armedb x b = true -> b_dest b = Some x /\ b_ready b = false.
Proof. intros x b H. unfold armedb in H. apply andb_true_iff in H. destruct H as [H1 H2].
  destruct (b_dest b) as [d|]; [|discriminate]. apply addr_eqb_eq in H1. subst. apply negb_true_iff in H2. auto. Qed.
Lemma armedb_intro : forall x b, b_dest b = Some x -> b_ready b = false -> armedb x b = true.
Proof. intros x b H1 H2. unfold armedb. rewrite H1, H2, addr_eqb_refl. reflexivity. Qed.

Lemma handle_result_D_aux : forall w ab asl v w1 ok, winvV w -> winvC w -> winvD w -> dep1 w ->
  lexp w (mkAddr (me w) ab asl) v ->
  (box_get ab (w_boxes w) <> None -> cnt (mkAddr (me w) ab asl) (w_deposited w) = 0) ->
  handle_result w (mkAddr (me w) ab asl) v = (w1, ok) ->
  winvD w1 /\ (forall x, qcnt x w + armed x w = 0 -> qcnt x w1 + armed x w1 = 0).
Proof.
  intros w ab asl v w1 ok IV IC ID Dp L Hz H. unfold handle_result in H. cbn [a_w a_box a_slot] in H.
  rewrite (proj2 (dest_eqb_eq (me w) (me w)) eq_refl) in H. cbn [negb] in H.
  destruct (box_get ab (w_boxes w)) as [b|] eqn:Eb.
  2:{ injection H as <- <-. split; [eapply winvD_same; [| | | | |exact ID]; reflexivity|auto]. }
  destruct (deposit b asl v) as [b1 ok1] eqn:Edep.
  destruct (deposit_C w ab b asl v b1 ok1 (C_box w IC _ _ Eb) (L _ Eb) Edep) as (-> & D1 & D2 & D3 & D4 & D5).
  cbn [negb] in H.
  assert (Hslot : asl < length (b_expect b)).
  { apply nth_error_Some. pose proof (L _ Eb) as Q. simpl in Q. rewrite Q. discriminate. }
  assert (Hnr : b_ready b = false).
  { apply (deposit_not_ready w ab b asl Dp (C_box w IC _ _ Eb) Hslot). apply Hz. congruence. }
  pose proof (V_keys w IV) as Hnd.
  set (a := mkAddr (me w) ab asl) in *.
  set (w1' := set_deposited (set_boxes w (box_set ab b1 (w_boxes w))) (w_deposited w ++ [a])) in *.
  assert (I1 : winvD w1').
  { eapply winvD_same; [| | | | |apply (winvD_box_upd w ab b1 b ID Hnd Eb)]; try reflexivity.
    - intros x Hx. apply armedb_dest in Hx. destruct Hx as [Hx _]. apply armedb_intro; congruence.
    - intro R. congruence.
    - intros _. eapply deposit_fresh; eauto. }
  assert (Hle1 : forall x, armed x w1' <= armed x w).
  { intro x. unfold armed. subst w1'. simpl. pose proof (armed_l_set x ab b1 b _ Hnd Eb) as E. unfold armedn in *.
    destruct (armedb x b1) eqn:E1; [|destruct (armedb x b); lia].
    apply armedb_dest in E1. destruct E1 as [E1 _]. rewrite (armedb_intro x b) in E by congruence. lia. }
  assert (Z1 : forall x, qcnt x w + armed x w = 0 -> qcnt x w1' + armed x w1' = 0).
  { intros x Hx. specialize (Hle1 x). unfold qcnt in *. subst w1'. simpl in *. lia. }
  destruct (b_dest b1) as [d|] eqn:Ed; [|injection H as <- <-; split; [exact I1|exact Z1]].
  assert (Harm : armedb d b = true) by (apply armedb_intro; congruence).
  destruct (D_armed w ID ab b d Eb Harm) as (t & Ht & Hdes).
  assert (Ht' : task_get d (w_tasks w1') = Some t) by exact Ht.
  rewrite Ht' in H.
  destruct (t_won t || b_ready b1) eqn:Ewake; injection H as <- <-; [|split; [exact I1|exact Z1]].
  (* wake d *)
  set (b2 := b_set_dest b1 None).
  assert (Eb1 : box_get ab (w_boxes w1') = Some b1) by (subst w1'; simpl; apply box_get_set_same).
  assert (Hnd1 : NoDup (keys (w_boxes w1'))).
  { subst w1'. simpl. rewrite (keys_box_set_present _ _ _ _ Eb). exact Hnd. }
  assert (I2 : winvD (set_boxes w1' (box_set ab b2 (w_boxes w1')))).
  { apply (winvD_box_upd w1' ab b2 b1 I1 Hnd1 Eb1).
    - intros x Hx. apply armedb_dest in Hx. destruct Hx as [Hx _]. discriminate.
    - auto.
    - auto. }
  assert (Hone : qcnt d w + armed d w <= 1) by apply (D_one w ID).
  assert (Hge : armed d w >= 1) by (unfold armed; eapply armed_l_ge; [eapply box_get_In; eauto|auto]).
  assert (Hzero : qcnt d (set_boxes w1' (box_set ab b2 (w_boxes w1'))) + armed d (set_boxes w1' (box_set ab b2 (w_boxes w1'))) = 0).
  { unfold qcnt, armed in *. subst w1'. simpl in *.
    pose proof (armed_l_set d ab b1 b _ Hnd Eb) as A1.
    assert (Hnd1' : NoDup (keys (box_set ab b1 (w_boxes w)))) by (rewrite (keys_box_set_present _ _ _ _ Eb); exact Hnd).
    pose proof (armed_l_set d ab b2 b1 _ Hnd1' (box_get_set_same ab b1 (w_boxes w))) as A2.
    assert (armedn d b = 1) by (unfold armedn; rewrite Harm; reflexivity).
    assert (armedn d b2 = 0) by reflexivity. lia. }
  split.
  - eapply winvD_same; [| | | | |apply (winvD_put _ d I2 Hzero)]; try reflexivity.
    + exists t. exact Ht.
    + intros t0 m b0 Ht0 Hd0 Hb0. simpl in Ht0. assert (t0 = t) by congruence. subst t0.
      assert (m = ab) by congruence. subst m. simpl in Hb0. rewrite box_get_set_same in Hb0. injection Hb0 as <-.
      destruct (t_won t) eqn:Ew; simpl.
      * eapply deposit_fresh; eauto.
      * simpl in Ewake. exact Ewake.
  - intros x Hx. assert (x <> d) by (intro; subst; lia).
    pose proof (Z1 x Hx) as Z.
    assert (Hle2 : armed x (set_boxes w1' (box_set ab b2 (w_boxes w1'))) <= armed x w1').
    { unfold armed. change (w_boxes (set_boxes w1' (box_set ab b2 (w_boxes w1')))) with (box_set ab b2 (w_boxes w1')).
      pose proof (armed_l_set x ab b2 b1 _ Hnd1 Eb1) as E. assert (armedn x b2 = 0) by reflexivity. lia. }
    unfold qcnt, armed in *. cbn [w_ready w_boxes put set_ready set_boxes] in *. rewrite cnt_app, cnt_single.
    destruct (addr_eqb x d) eqn:E; [apply addr_eqb_eq in E; congruence|].
    change (box_set ab b1 (w_boxes w)) with (w_boxes w1'). lia.
Qed.

Lemma handle_result_D : forall w a v w1 ok, winvV w -> winvC w -> winvD w -> dep1 w ->
  (a_w a = me w -> lexp w a v) ->
  (a_w a = me w -> box_get (a_box a) (w_boxes w) <> None -> cnt a (w_deposited w) = 0) ->
  handle_result w a v = (w1, ok) ->
  winvD w1 /\ (forall x, qcnt x w + armed x w = 0 -> qcnt x w1 + armed x w1 = 0).
Proof.
  intros w a v w1 ok IV IC ID Dp L0 Hz H.
  destruct (dest_eqb (a_w a) (me w)) eqn:Eme.
  - apply dest_eqb_eq in Eme. destruct a as [aw ab asl]. simpl in Eme. subst aw.
    eapply (handle_result_D_aux w ab asl v w1 ok); eauto.
  - unfold handle_result in H. rewrite Eme in H. cbn [negb] in H. injection H as <- <-.
    split; [|auto]. eapply winvD_same; [| | | | |apply (winvD_errs w EAssertWid ID)]; try reflexivity; discriminate.
Qed.

(* task a is rewritten while not queued; if it is armed, the registration (desired box) must stay *)
Lemma winvD_task_set_gen : forall w t, winvD w -> qcnt (t_addr t) w = 0 ->
  (forall m b, box_get m (w_boxes w) = Some b -> armedb (t_addr t) b = true -> t_desired t = Some m) ->
  (exists t0, task_get (t_addr t) (w_tasks w) = Some t0) ->
  winvD (set_tasks w (task_set t (w_tasks w))).
Proof.
  intros w t [K1 K2 K3 K4 K5 K6] Hq Harm Hex. constructor; simpl; auto.
  - intros a Ha. destruct (addr_eqb (t_addr t) a) eqn:E.
    + apply addr_eqb_eq in E. subst a. exists t. apply task_get_task_set_same.
    + apply addr_eqb_neq in E. destruct (K3 a Ha) as (t0 & Ht0). exists t0. rewrite task_get_task_set_other; auto.
  - intros a Ha. destruct (addr_eqb (t_addr t) a) eqn:E.
    + apply addr_eqb_eq in E. subst a. exfalso. unfold qcnt in Hq.
      assert (cnt (t_addr t) (w_ready w) >= 1) by (apply cnt_pos_in; auto). lia.
    + apply addr_eqb_neq in E. unfold steppable. simpl. rewrite task_get_task_set_other by auto. apply (K4 a Ha).
  - intros m b a Hb Ha. simpl in *. destruct (addr_eqb (t_addr t) a) eqn:E.
    + apply addr_eqb_eq in E. subst a. exists t. split; [apply task_get_task_set_same|eapply Harm; eauto].
    + apply addr_eqb_neq in E. destruct (K5 m b a Hb Ha) as (t0 & Ht0 & Hd). exists t0. rewrite task_get_task_set_other; auto.
Qed.

Lemma aw1_D : forall w a m b t, winvD w -> NoDup (keys (w_boxes w)) -> qcnt a w + armed a w = 0 ->
  box_get m (w_boxes w) = Some b -> task_get a (w_tasks w) = Some t ->
  winvD (aw1 w a m) /\ w_ready (aw1 w a m) = w_ready w /\
  box_get m (w_boxes (aw1 w a m)) = Some (b_set_dest b (Some a)) /\
  task_get a (w_tasks (aw1 w a m)) = Some (t_set_desired t (Some m)) /\
  (b_ready b = true -> armed a (aw1 w a m) = 0) /\ NoDup (keys (w_boxes (aw1 w a m))) /\ w_pc (aw1 w a m) = w_pc w.
Proof.
  intros w a m b t ID Hnd Hz Hb Ht. unfold aw1. rewrite Hb. cbn [w_tasks set_boxes]. rewrite Ht.
  pose proof (task_get_Some _ _ _ Ht) as [Hta _].
  set (b' := b_set_dest b (Some a)). set (t' := t_set_desired t (Some m)).
  set (w1 := set_boxes w (box_set m b' (w_boxes w))).
  assert (Hnd1 : NoDup (keys (w_boxes w1))) by (subst w1; simpl; rewrite (keys_box_set_present _ _ _ _ Hb); exact Hnd).
  assert (Hq : qcnt a w = 0) by lia. assert (Ha0 : armed a w = 0) by lia.
  assert (Harm_other : forall x, x <> a -> armedn x b' = 0).
  { intros x Hx. unfold armedn, armedb. simpl. destruct (addr_eqb a x) eqn:E; [apply addr_eqb_eq in E; congruence|reflexivity]. }
  assert (Hacc : forall x, armed_l x (w_boxes w1) + armedn x b = armed_l x (w_boxes w) + armedn x b').
  { intro x. subst w1. simpl. apply armed_l_set; auto. }
  assert (Hb0 : armedn a b = 0).
  { unfold armed in Ha0. destruct (armedn a b) eqn:E; auto. exfalso. unfold armedn in E. destruct (armedb a b) eqn:E2; [|discriminate].
    assert (armed_l a (w_boxes w) >= 1) by (eapply armed_l_ge; [eapply box_get_In; eauto|auto]). lia. }
  destruct ID as [K1 K2 K3 K4 K5 K6].
  assert (I1 : winvD (set_tasks w1 (task_set t' (w_tasks w1)))).
  { unfold qcnt, armed in *. subst w1. simpl in *. constructor.
    - exact K1.
    - intro x. unfold qcnt, armed. simpl. specialize (Hacc x). specialize (K2 x).
      assert (Hle1 : armedn a b' <= 1) by (unfold armedn; destruct (armedb a b'); lia).
      destruct (addr_eqb x a) eqn:E.
      + apply addr_eqb_eq in E. subst x. lia.
      + apply addr_eqb_neq in E. rewrite (Harm_other x E) in Hacc. lia.
    - intros x Hx. simpl. destruct (addr_eqb (t_addr t') x) eqn:E.
      + apply addr_eqb_eq in E. subst x. exists t'. apply task_get_task_set_same.
      + apply addr_eqb_neq in E. rewrite task_get_task_set_other by auto. apply K3.
        unfold qcnt, armed in Hx. simpl in Hx. specialize (Hacc x). rewrite (Harm_other x) in Hacc by (simpl in E; congruence). lia.
    - intros x Hx. simpl in Hx. assert (x <> a). { intro Heq. rewrite Heq in Hx. assert (cnt a (w_ready w) >= 1) by (apply cnt_pos_in; auto). lia. }
      unfold steppable. simpl. rewrite task_get_task_set_other by (simpl; congruence).
      intros t0 m' b0 Ht0 Hd0 Hb0'. destruct (Nat.eq_dec m' m).
      * subst m'. rewrite box_get_set_same in Hb0'. injection Hb0' as <-. apply (K4 x Hx t0 m b Ht0 Hd0 Hb).
      * rewrite box_get_set_other in Hb0' by auto. apply (K4 x Hx t0 m' b0 Ht0 Hd0 Hb0').
    - intros m' b0 x Hb0' Hx. simpl in *. destruct (Nat.eq_dec m' m).
      + subst m'. rewrite box_get_set_same in Hb0'. injection Hb0' as <-. apply armedb_dest in Hx. destruct Hx as [Hx _].
        simpl in Hx. injection Hx as <-. exists t'. split; [rewrite <- Hta; apply (task_get_task_set_same t')|reflexivity].
      + rewrite box_get_set_other in Hb0' by auto. destruct (K5 m' b0 x Hb0' Hx) as (t0 & Ht0 & Hd0).
        destruct (addr_eqb (t_addr t') x) eqn:E.
        * apply addr_eqb_eq in E. simpl in E. rewrite Hta in E. subst x. exfalso.
          assert (armed_l a (w_boxes w) >= 1) by (eapply armed_l_ge; [eapply box_get_In; eauto|auto]). lia.
        * apply addr_eqb_neq in E. exists t0. rewrite task_get_task_set_other; auto.
    - exact K6. }
  split; [exact I1|]. split; [reflexivity|]. split; [simpl; apply box_get_set_same|].
  split; [simpl; rewrite <- Hta; apply (task_get_task_set_same t')|].
  split; [|split; [exact Hnd1|reflexivity]].
  intro R. unfold armed in *. simpl. specialize (Hacc a). subst w1. simpl in Hacc.
  assert (armedn a b' = 0).
  { unfold armedn, armedb. subst b'. simpl. unfold b_ready in *. simpl. rewrite R. rewrite andb_false_r. reflexivity. }
  simpl in Hacc. lia.
Qed.

Lemma ready_fresh : forall w m b, boxC w m b -> b_ready b = true -> b_fresh b <> None.
Proof. intros w m b (C1&_&_&_&C5&_) R Hf. specialize (C5 Hf). unfold b_ready in R. apply andb_true_iff in R. destruct R as [_ R].
  apply negb_true_iff in R. b2p. rewrite C5 in C1. simpl in C1. congruence. Qed.

(* the three registration statements, executed as one atom *)
Lemma aw_atomic_D : forall w a m nxt, winvD w -> winvV w -> winvC w -> qcnt a w + armed a w = 0 ->
  has_box w m = true -> (exists t, task_get a (w_tasks w) = Some t) ->
  winvD (aw2 (aw1c (aw1 w a m) a nxt) a m).
Proof.
  intros w a m nxt ID IV IC Hz Hb (t & Ht). unfold has_box in Hb.
  destruct (box_get m (w_boxes w)) as [b|] eqn:Eb; [|discriminate].
  destruct (aw1_D w a m b t ID (V_keys w IV) Hz Eb Ht) as (I1 & R1 & B1 & T1 & A1 & N1 & P1).
  set (w1 := aw1 w a m) in *.
  assert (Hq1 : qcnt a w1 = 0) by (unfold qcnt in *; rewrite R1; lia).
  (* aw1c *)
  assert (I2 : winvD (aw1c w1 a nxt) /\ w_ready (aw1c w1 a nxt) = w_ready w1 /\ w_boxes (aw1c w1 a nxt) = w_boxes w1 /\
               task_get a (w_tasks (aw1c w1 a nxt)) = Some (t_set_won (t_set_desired t (Some m)) nxt)).
  { unfold aw1c. rewrite T1. pose proof (task_get_Some _ _ _ T1) as [Hta _]. simpl in Hta.
    split; [|split; [reflexivity|split; [reflexivity|]]].
    - apply (winvD_task_set_gen w1 (t_set_won (t_set_desired t (Some m)) nxt) I1).
      + simpl. rewrite Hta. exact Hq1.
      + intros m' b' Hb' Ha'. simpl in *. rewrite Hta in Ha'. destruct (D_armed w1 I1 m' b' a Hb' Ha') as (t0 & Ht0 & Hd0).
        rewrite T1 in Ht0. injection Ht0 as <-. exact Hd0.
      + simpl. rewrite Hta. eauto.
    - simpl. rewrite <- Hta. apply (task_get_task_set_same (t_set_won (t_set_desired t (Some m)) nxt)). }
  destruct I2 as (I2 & R2 & B2 & T2).
  set (w2 := aw1c w1 a nxt) in *.
  unfold aw2. rewrite B2, B1.
  destruct (b_ready (b_set_dest b (Some a))) eqn:R; [|exact I2].
  assert (Rb : b_ready b = true) by exact R.
  apply winvD_put; auto.
  - unfold qcnt, armed. rewrite R2, B2. unfold qcnt in Hq1. specialize (A1 Rb). unfold armed in A1. lia.
  - eauto.
  - intros t0 m' b0 Ht0 Hd0 Hb0. rewrite T2 in Ht0. injection Ht0 as <-. simpl in Hd0. injection Hd0 as <-.
    rewrite B2, B1 in Hb0. injection Hb0 as <-. simpl.
    destruct nxt; [|exact Rb]. apply (ready_fresh w m b (C_box w IC _ _ Eb) Rb).
Qed.

Lemma desired_result_D : forall w t w1 t1 sv, winvD w -> NoDup (keys (w_boxes w)) ->
  desired_result w t = inl (w1, t1, sv) ->
  winvD w1 /\ w_ready w1 = w_ready w /\ w_tasks w1 = w_tasks w /\ (forall x, armed x w1 <= armed x w).
Proof.
  intros w t w1 t1 sv ID Hnd H. unfold desired_result in H.
  destruct (t_desired t) as [m|]; [|injection H as <- <- <-; split; [auto|split; [auto|split; [auto|intro; lia]]]].
  destruct (box_get m (w_boxes w)) as [b|] eqn:Eb; [|discriminate].
  destruct (t_won t).
  - destruct (b_fresh b) as [fr|] eqn:Ef; [|discriminate]. injection H as <- <- <-.
    split; [|split; [reflexivity|split; [reflexivity|]]].
    + apply (winvD_box_upd w m (b_set_fresh b (Some [])) b ID Hnd Eb); auto. simpl. discriminate.
    + intro x. unfold armed. simpl. pose proof (armed_l_set x m (b_set_fresh b (Some [])) b _ Hnd Eb) as E.
      assert (armedn x (b_set_fresh b (Some [])) = armedn x b) by reflexivity. lia.
  - destruct (b_ready b) eqn:R; cbn [negb] in H; [|discriminate].
    destruct (remove_first m (t_owned t)); [|discriminate]. injection H as <- <- <-.
    split; [|split; [reflexivity|split; [reflexivity|]]].
    + apply (winvD_box_del w m b ID Hnd Eb).
    + intro x. unfold armed. simpl. pose proof (armed_l_del x m b _ Hnd Eb). lia.
Qed.

Lemma desired_result_err : forall w t e, steppable w (t_addr t) -> task_get (t_addr t) (w_tasks w) = Some t ->
  desired_result w t = inr e -> e <> EAssertReady /\ e <> EAssertFresh.
Proof.
  intros w t e Hs Ht H. unfold desired_result in H.
  destruct (t_desired t) as [m|] eqn:Ed; [|discriminate].
  destruct (box_get m (w_boxes w)) as [b|] eqn:Eb; [|injection H as <-; split; discriminate].
  specialize (Hs t m b Ht Ed Eb).
  destruct (t_won t).
  - destruct (b_fresh b); [discriminate|congruence].
  - rewrite Hs in H. cbn [negb] in H. destruct (remove_first m (t_owned t)); [discriminate|]. injection H as <-. split; discriminate.
Qed.

Lemma close_boxes_oos : forall owned w w1 ok, close_boxes owned w = (w1, ok) -> w_oos w = true -> w_oos w1 = true.
Proof. induction owned as [|m r IH]; simpl; intros w w1 ok H Ho.
  - injection H as <- <-. auto.
  - destruct (box_get m (w_boxes w)); [|injection H as <- <-; auto].
    destruct (b_ready m0); eapply IH; eauto. Qed.

Lemma close_boxes_D : forall owned w w1 ok, winvD w -> NoDup (keys (w_boxes w)) ->
  close_boxes owned w = (w1, ok) -> w_oos w1 = true \/ winvD w1.
Proof.
  induction owned as [|m r IH]; simpl; intros w w1 ok ID Hnd H.
  - injection H as <- <-. auto.
  - idtac.
    destruct (box_get m (w_boxes w)) as [b|] eqn:Eb.
    2:{ injection H as <- <-. right. apply winvD_errs; auto; discriminate. }
    destruct (b_ready b).
    + eapply IH; [| |exact H]. apply (winvD_box_del w m b ID Hnd Eb). simpl. apply keys_box_del_NoDup. auto.
    + left. eapply close_boxes_oos; [exact H|reflexivity].
Qed.

(* ===== part 19 ===== *)

(* freshness of the deposit made by a completing task: its own address was never deposited *)
Definition own_fresh (w : wstate) (a : addr) : Prop :=
  a_w a = me w -> box_get (a_box a) (w_boxes w) <> None -> cnt a (w_deposited w) = 0.

Lemma complete_D : forall w t v w1 ok, winvV w -> winvC w -> winvD w -> dep1 w ->
  qcnt (t_addr t) w + armed (t_addr t) w = 0 ->
  (a_w (t_addr t) = me w -> lexp w (t_addr t) v) -> own_fresh w (t_addr t) ->
  complete w t v = (w1, ok) -> w_oos w1 = true \/ winvD w1.
Proof.
  intros w t v w1 ok IV IC ID Dp Hz Hown Hfresh H. unfold complete in H.
  destruct (dest_eqb (a_w (t_addr t)) (me w)) eqn:Eme.
  - destruct (handle_result w (t_addr t) v) as [w' ok'] eqn:Eh.
    destruct (handle_result_D _ _ _ _ _ IV IC ID Dp Hown Hfresh Eh) as (ID' & Z').
    destruct (handle_result_V _ _ _ _ _ IV Hown Eh) as (IV' & _ & _ & T' & _).
    destruct ok'; cbn [negb] in H.
    + destruct (close_boxes (t_owned t) _) as [w3 ok3] eqn:Ec in H. injection H as <- <-.
      eapply (close_boxes_D _ _ _ _ _ _ Ec).
    + injection H as <- <-. right. eapply winvD_same; [| | | | |exact ID']; reflexivity.
  - cbn [negb] in H. destruct (close_boxes (t_owned t) _) as [w3 ok3] eqn:Ec in H. injection H as <- <-.
    eapply (close_boxes_D _ _ _ _ _ _ Ec).
  Unshelve.
  + eapply winvD_same; [| | | | |apply (winvD_task_del (send w' MUpdate) (t_addr t))]; try reflexivity.
    * eapply winvD_same; [| | | | |exact ID']; reflexivity.
    * apply (Z' _ Hz).
  + simpl. apply (V_keys w' IV').
  + eapply winvD_same; [| | | | |apply (winvD_task_del (send w (MResult (t_addr t) v (w_id w))) (t_addr t))]; try reflexivity.
    * eapply winvD_same; [| | | | |exact ID]; reflexivity.
    * exact Hz.
  + simpl. apply (V_keys w IV).
Qed.

Lemma dispatch_D : forall w a, winvV w -> winvC w -> winvD w -> dep1 w -> own_ok w ->
  qcnt a w + armed a w = 0 -> steppable w a ->
  (forall t, task_get a (w_tasks w) = Some t -> own_fresh w a) ->
  w_oos (dispatch true w a) = true \/ winvD (dispatch true w a).
Proof.
  intros w a IV IC ID Dp Hown Hz Hst Hfresh. unfold dispatch.
  destruct (task_get a (w_tasks w)) as [t|] eqn:Eg; [|right; apply winvD_set_pc; [exact Logic.I|exact ID]].
  pose proof (task_get_Some _ _ _ Eg) as [Hta Hin].
  pose proof (D_pc w ID) as Hpc.
  destruct (desired_result w t) as [[[w1 t1] sv]|e] eqn:Ed.
  2:{ right. unfold task_error. apply winvD_set_pc; [exact Logic.I|].
      rewrite <- Hta in Hst, Eg. destruct (desired_result_err w t e Hst Eg Ed) as [N1 N2].
      eapply winvD_same; [| | | | |apply (winvD_errs w e ID N1 N2)]; reflexivity. }
  destruct (resume w1 (t_set_desired (t_set_won t1 false) None) sv) as [[w2 t3] y] eqn:Er.
  destruct (dispatch_front _ _ _ _ _ _ _ _ _ IV Hpc Eg Ed Er) as (IV1 & IV2 & Ew2 & Hpc2 & Hid & Ta3 & Ts3 & Hret & Hpend & Tok & Sv & Ep & Es).
  destruct (desired_result_D _ _ _ _ _ ID (V_keys w IV) Ed) as (ID1 & R1 & T1 & A1).
  destruct (resume_D _ _ _ _ _ _ ID1 (winvV_des_lt w1 IV1) Er) as (ID2 & R2 & T2 & A2).
  (* Part C facts for the intermediate states *)
  destruct (desired_result_C _ _ _ _ _ IC Dp (V_keys w IV) Ed) as (P1 & P2 & P3 & P4 & P5 & P6 & P7).
  assert (P : pendC w w1 sv) by (exact (conj P1 (conj P2 (conj P3 (conj P4 (conj (C_log w IC) P6)))))).
  assert (Hfull : forall m vs f, sv = SFull m vs -> t_pend (t_set_desired (t_set_won t1 false) None) = PendAwait f ->
     Forall (fun c => c <> None) vs /\ exists sp, nth_error (specs_of (t_script (t_set_desired (t_set_won t1 false) None))) f = Some sp /\ length vs = length (kids sp)).
  { intros m vs f E Epf. destruct (P7 m vs E) as (Ffull & b & Hb & Hlen). split; auto.
    rewrite Ep in Epf. rewrite Es. subst sv. inversion Sv as [|m' b' Hd Hw Hb' Heq|]; subst.
    assert (b' = b) by congruence. subst b'.
    destruct (task_fut_spec w t m b f Tok Hd Hb) as (sp & Hsp & Hexp); [rewrite Epf; reflexivity|].
    exists sp. split; auto. rewrite Hlen, Hexp, map_length. reflexivity. }
  destruct (resume_C _ _ _ _ _ _ _ P (V_keys_lt w1 IV1) Hfull Er) as (IC2 & _).
  set (w2' := set_tasks w2 (task_set t3 (w_tasks w2))) in *.
  assert (IC2' : winvC w2') by (eapply winvC_same; [| | | |exact IC2]; reflexivity).
  assert (Hz2 : qcnt a w2 + armed a w2 = 0).
  { unfold qcnt in *. rewrite R2, R1. rewrite (A2 a). specialize (A1 a). lia. }
  assert (ID2' : winvD w2').
  { subst w2'. rewrite <- Ta3 in Hz2. apply (winvD_task_set w2 t3 ID2 Hz2). }
  assert (Hz2' : qcnt a w2' + armed a w2' = 0) by exact Hz2.
  assert (Dp2 : dep1 w2').
  { intro x. unfold w2'. simpl.
    assert (Hdep : w_deposited w2 = w_deposited w).
    { destruct (resume_B _ _ _ _ _ _ Er) as (_ & Q & _). rewrite Q. exact P3. }
    rewrite Hdep. apply Dp. }
  destruct y as [m nxt|v|].
  - destruct (negb (has_box w2' m)) eqn:Hb.
    + right. unfold task_error. apply winvD_set_pc; [exact Logic.I|].
      eapply winvD_same; [| | | | |apply (winvD_errs w2' EBody ID2')]; try reflexivity; discriminate.
    + right. apply negb_false_iff in Hb. apply winvD_set_pc; [exact Logic.I|].
      apply aw_atomic_D; auto. destruct (Hpend m nxt eq_refl) as (tx & _ & _ & Htx & _). eauto.
  - destruct (complete w2' t3 v) as [w3 ok] eqn:Ec.
    assert (Hown3 : a_w (t_addr t3) = me w2' -> lexp w2' (t_addr t3) v).
    { intro Hm. rewrite Ta3, <- Hta in *. assert (Hm' : a_w (t_addr t) = me w) by (rewrite Hm; unfold me; congruence).
      destruct (Hown t Hin Hm') as (Lx & Hlt). rewrite (Hret v eq_refl).
      eapply lexp_ext; [exact Ew2|exact Hlt|exact Lx]. }
    assert (Hfr3 : own_fresh w2' (t_addr t3)).
    { intros Hm Hbx. rewrite Ta3 in *.
      assert (Hdep : w_deposited w2' = w_deposited w).
      { unfold w2'. simpl. destruct (resume_B _ _ _ _ _ _ Er) as (_ & Q & _). rewrite Q. exact P3. }
      rewrite Hdep. apply (Hfresh t eq_refl).
      - rewrite Hm. unfold me. congruence.
      - (* the box existed before: boxes below the old counter are never re-created *)
        destruct (box_get (a_box a) (w_boxes w2')) as [bx|] eqn:Ex; [|congruence].
        destruct Ew2 as (_ & _ & Hext). destruct (Hext _ _ Ex) as [(b0 & Hb0 & _)|Hge]; [congruence|].
        exfalso. rewrite <- Hta in Hge. assert (Hm' : a_w (t_addr t) = me w) by (rewrite Hta, Hm; unfold me; congruence).
        destruct (Hown t Hin Hm') as (_ & Hlt). lia. }
    rewrite <- Ta3 in Hz2'.
    destruct (complete_D _ _ _ _ _ IV2 IC2' ID2' Dp2 Hz2' Hown3 Hfr3 Ec) as [Ho|ID3].
    + left. destruct ok; [|unfold fatal]; simpl; exact Ho.
    + right. destruct ok; [apply winvD_set_pc; [exact Logic.I|exact ID3]|].
      unfold fatal. apply winvD_set_pc; [exact Logic.I|]. eapply winvD_same; [| | | | |exact ID3]; reflexivity.
  - right. unfold task_error. apply winvD_set_pc; [exact Logic.I|].
    eapply winvD_same; [| | | | |apply (winvD_errs w2' EBody ID2')]; try reflexivity; discriminate.
Qed.

(* ---- w_oos only ever goes from false to true ---- *)
Lemma handle_result_oos : forall w a v w1 ok, handle_result w a v = (w1, ok) -> w_oos w1 = w_oos w.
Proof. intros w a v w1 ok H. unfold handle_result in H.
  destruct (negb (dest_eqb (a_w a) (me w))); [injection H as <- <-; reflexivity|].
  destruct (box_get (a_box a) (w_boxes w)) as [b|]; [|injection H as <- <-; reflexivity].
  destruct (deposit b (a_slot a) v) as [b1 ok1]. destruct (negb ok1); [injection H as <- <-; reflexivity|].
  destruct (b_dest b1) as [d|]; [|injection H as <- <-; reflexivity]. cbn [w_tasks set_deposited set_boxes] in H.
  destruct (task_get d (w_tasks w)) as [t|]; [|injection H as <- <-; reflexivity].
  destruct (t_won t || b_ready b1); injection H as <- <-; reflexivity. Qed.
Lemma resume_oos : forall w t sv w' t' y, resume w t sv = (w', t', y) -> w_oos w' = w_oos w.
Proof. intros w t sv w' t' y H. unfold resume in H.
  assert (Hr : forall w0 t0, w_oos w0 = w_oos w -> run (t_rest t) w0 t0 = (w', t', y) -> w_oos w' = w_oos w).
  { intros w0 t0 E Hrun. apply run_exact in Hrun. destruct Hrun as (es & _ & _ & _ & _ & Hw & _). rewrite Hw. simpl. exact E. }
  assert (Hx : raised w t = (w', t', y) -> w_oos w' = w_oos w) by (unfold raised; intro E; injection E as <- <- <-; reflexivity).
  destruct (t_pend t); destruct sv; try (apply Hx; exact H);
    (match type of H with run _ ?wl ?tl = _ => apply (Hr wl tl) end; [reflexivity|exact H]). Qed.
Lemma desired_result_oos : forall w t w1 t1 sv, desired_result w t = inl (w1, t1, sv) -> w_oos w1 = w_oos w.
Proof. intros w t w1 t1 sv H. unfold desired_result in H.
  destruct (t_desired t) as [m|]; [|injection H as <- <- <-; reflexivity].
  destruct (box_get m (w_boxes w)) as [b|]; [|discriminate]. destruct (t_won t).
  - destruct (b_fresh b); [|discriminate]. injection H as <- <- <-. reflexivity.
  - destruct (negb (b_ready b)); [discriminate|]. destruct (remove_first m (t_owned t)); [|discriminate].
    injection H as <- <- <-. reflexivity. Qed.
Lemma aw_oos : forall w a m nxt, w_oos (aw1 w a m) = w_oos w /\ w_oos (aw1c w a nxt) = w_oos w /\ w_oos (aw2 w a m) = w_oos w.
Proof. intros. split; [|split].
  - unfold aw1. destruct (box_get m (w_boxes w)); simpl; destruct (task_get a _); reflexivity.
  - unfold aw1c. destruct (task_get a _); reflexivity.
  - unfold aw2. destruct (box_get m (w_boxes w)) as [b|]; [destruct (b_ready b)|]; reflexivity. Qed.
Lemma complete_oos : forall w t v w1 ok, complete w t v = (w1, ok) -> w_oos w = true -> w_oos w1 = true.
Proof. intros w t v w1 ok H Ho. unfold complete in H.
  destruct (dest_eqb (a_w (t_addr t)) (me w)).
  - destruct (handle_result w (t_addr t) v) as [w' ok'] eqn:E. apply handle_result_oos in E.
    destruct ok'; cbn [negb] in H.
    + destruct (close_boxes (t_owned t) _) as [w3 ok3] eqn:Ec in H. injection H as <- <-.
      eapply close_boxes_oos; [exact Ec|]. simpl. congruence.
    + injection H as <- <-. simpl. congruence.
  - cbn [negb] in H. destruct (close_boxes (t_owned t) _) as [w3 ok3] eqn:Ec in H. injection H as <- <-.
    eapply close_boxes_oos; [exact Ec|]. simpl. exact Ho. Qed.
Lemma dispatch_oos : forall atomic w a, w_oos w = true -> w_oos (dispatch atomic w a) = true.
Proof. intros atomic w a Ho. unfold dispatch.
  destruct (task_get a (w_tasks w)) as [t|]; [|exact Ho].
  destruct (desired_result w t) as [[[w1 t1] sv]|e] eqn:Ed; [|exact Ho].
  apply desired_result_oos in Ed.
  destruct (resume w1 _ sv) as [[w2 t3] y] eqn:Er. apply resume_oos in Er.
  assert (H2 : w_oos w2 = true) by congruence.
  destruct y as [m nxt|v|].
  - destruct (negb (has_box _ m)); [exact H2|]. destruct atomic; [|exact H2].
    simpl. destruct (aw_oos (set_tasks w2 (task_set t3 (w_tasks w2))) a m nxt) as (Q1 & _ & _).
    destruct (aw_oos (aw1 (set_tasks w2 (task_set t3 (w_tasks w2))) a m) a m nxt) as (_ & Q2 & _).
    destruct (aw_oos (aw1c (aw1 (set_tasks w2 (task_set t3 (w_tasks w2))) a m) a nxt) a m nxt) as (_ & _ & Q3).
    rewrite Q3, Q2, Q1. exact H2.
  - destruct (complete _ t3 v) as [w3 ok] eqn:Ec. apply complete_oos in Ec; [|exact H2]. destruct ok; exact Ec.
  - exact H2. Qed.
Lemma main_step_oos : forall atomic w w', main_step atomic w = Some w' -> w_oos w = true -> w_oos w' = true.
Proof. intros atomic w w' H Ho. unfold main_step in H. destruct (w_pc w).
  - destruct (w_ready w); [destruct (w_delayed w)|]; injection H as <-; exact Ho.
  - destruct (last_opt (w_delayed w)); injection H as <-; exact Ho.
  - destruct (w_ready w) as [|a q]; injection H as <-; [exact Ho|]. apply dispatch_oos. exact Ho.
  - destruct (w_ready w) as [|a q]; [discriminate|]. injection H as <-. apply dispatch_oos. exact Ho.
  - injection H as <-. simpl. destruct (aw_oos w a m nxt) as (Q & _ & _). congruence.
  - injection H as <-. simpl. destruct (aw_oos w a m nxt) as (_ & Q & _). congruence.
  - injection H as <-. simpl. destruct (aw_oos w a m false) as (_ & _ & Q). congruence.
  - discriminate. Qed.
Lemma recv_step_oos : forall w m, w_oos w = true -> w_oos (recv_step w m) = true.
Proof. intros w m Ho. unfold recv_step. destruct (w_rdead w); [exact Ho|].
  destruct m as [t|ts|a v c|r| |c| |a]; try exact Ho; try reflexivity.
  - destruct ts as [|t0 r]; [exact Ho|]. destruct (last_opt (t0 :: r)); exact Ho.
  - destruct (handle_result w a v) as [w1 ok] eqn:E. apply handle_result_oos in E. destruct ok; simpl; congruence. Qed.

(* ===== part 20 ===== *)

Lemma winvD_dequeue : forall w a q, winvD w -> w_ready w = a :: q ->
  winvD (set_ready w q) /\ qcnt a (set_ready w q) + armed a (set_ready w q) = 0 /\ steppable (set_ready w q) a.
Proof.
  intros w a q [K1 K2 K3 K4 K5 K6] Hr.
  assert (Hq : forall x, qcnt x w = (if addr_eqb x a then 1 else 0) + cnt x q) by (intro x; unfold qcnt; rewrite Hr, cnt_cons; reflexivity).
  split; [|split].
  - constructor; simpl; auto.
    + intro x. specialize (K2 x). rewrite Hq in K2. unfold qcnt, armed in *. simpl. lia.
    + intros x Hx. apply K3. rewrite Hq. unfold qcnt, armed in *. simpl in Hx. lia.
    + intros x Hx. apply (K4 x). rewrite Hr. right. exact Hx.
  - specialize (K2 a). rewrite Hq, addr_eqb_refl in K2. unfold qcnt, armed in *. simpl. lia.
  - apply (K4 a). rewrite Hr. left. reflexivity.
Qed.

Lemma main_step_D : forall w w', winvV w -> winvC w -> winvD w -> dep1 w -> own_ok w ->
  (forall t, In t (w_delayed w) -> is_new t /\ task_get (t_addr t) (w_tasks w) = None) ->
  (forall t, In t (w_tasks w) -> own_fresh w (t_addr t)) ->
  main_step true w = Some w' -> w_oos w' = true \/ winvD w'.
Proof.
  intros w w' IV IC ID Dp Hown Hdel Hfresh H. unfold main_step in H.
  pose proof (D_pc w ID) as Hpc.
  destruct (w_pc w) eqn:Epc; simpl in Hpc; try tauto.
  - right. destruct (w_ready w); [destruct (w_delayed w)|]; injection H as <-; (apply winvD_set_pc; [exact Logic.I|exact ID]).
  - right. destruct (last_opt (w_delayed w)) as [tl|] eqn:El; injection H as <-.
    + pose proof (last_opt_removelast _ _ _ El) as Hsplit.
      assert (Hin : In tl (w_delayed w)) by (rewrite Hsplit; apply in_or_app; right; left; reflexivity).
      destruct (Hdel tl Hin) as [Hn Habs].
      apply winvD_set_pc; [exact Logic.I|]. apply winvD_add_task.
      * eapply winvD_same; [| | | | |exact ID]; reflexivity.
      * exact Habs.
      * rewrite Hn. reflexivity.
    + unfold fatal. apply winvD_set_pc; [exact Logic.I|].
      eapply winvD_same; [| | | | |apply (winvD_errs w EPopEmpty ID)]; try reflexivity; discriminate.
  - destruct (w_ready w) as [|a q] eqn:Er; injection H as <-.
    + right. apply winvD_set_pc; [exact Logic.I|]. eapply winvD_same; [| | | | |exact ID]; reflexivity.
    + destruct (winvD_dequeue w a q ID Er) as (I1 & Z1 & S1).
      apply dispatch_D; auto.
      * eapply winvV_same; [| | | | |exact IV]; reflexivity.
      * eapply winvC_same; [| | | |exact IC]; reflexivity.
      * intros t Ht. simpl in Ht. pose proof (task_get_Some _ _ _ Ht) as [Hta Hin]. rewrite <- Hta. apply (Hfresh t Hin).
  - destruct (w_ready w) as [|a q] eqn:Er; [discriminate|]. injection H as <-.
    destruct (winvD_dequeue w a q ID Er) as (I1 & Z1 & S1).
    apply dispatch_D; auto.
    + eapply winvV_same; [| | | | |exact IV]; reflexivity.
    + eapply winvC_same; [| | | |exact IC]; reflexivity.
    + intros t Ht. simpl in Ht. pose proof (task_get_Some _ _ _ Ht) as [Hta Hin]. rewrite <- Hta. apply (Hfresh t Hin).
  - discriminate.
Qed.

Lemma recv_step_D : forall w m, winvV w -> winvC w -> winvD w -> dep1 w -> w_rdead w = false ->
  (forall t, In t (msg_tasks m) -> is_new t /\ task_get (t_addr t) (w_tasks w) = None) ->
  (forall p, In p (msg_res m) -> a_w (fst p) = me w -> lexp w (fst p) (snd p)) ->
  (forall p, In p (msg_res m) -> own_fresh w (fst p)) ->
  w_oos (recv_step w m) = true \/ winvD (recv_step w m).
Proof.
  intros w m IV IC ID Dp Hd Htasks Hres Hfr. unfold recv_step. rewrite Hd.
  destruct m as [t|ts|a v c|r| |c| |a]; try (right; exact ID); try (left; reflexivity).
  - right. destruct (Htasks t (or_introl eq_refl)) as [Hn Habs]. apply winvD_add_task; auto.
    + eapply winvD_same; [| | | | |exact ID]; reflexivity.
    + rewrite Hn. reflexivity.
  - right. destruct ts as [|t0 r].
    { eapply winvD_same; [| | | | |apply (winvD_errs w EEmptyBatch ID)]; try reflexivity; discriminate. }
    destruct (last_opt (t0 :: r)) as [tl|] eqn:El; [|apply last_opt_None in El; discriminate].
    pose proof (last_opt_removelast _ _ _ El) as Hsplit.
    assert (Hin : In tl (t0 :: r)) by (rewrite Hsplit; apply in_or_app; right; left; reflexivity).
    destruct (Htasks tl Hin) as [Hn Habs].
    eapply winvD_same; [| | | | |apply (winvD_add_task (set_recent w (Some (t_addr t0))) tl)]; try reflexivity.
    + eapply winvD_same; [| | | | |exact ID]; reflexivity.
    + exact Habs.
    + rewrite Hn. reflexivity.
  - right. destruct (handle_result w a v) as [w1 ok] eqn:Eh.
    assert (L : a_w a = me w -> lexp w a v) by (intro E; apply (Hres (a, v)); simpl; auto).
    assert (F : own_fresh w a) by (apply (Hfr (a, v)); simpl; auto).
    destruct (handle_result_D _ _ _ _ _ IV IC ID Dp L F Eh) as (I1 & _).
    destruct ok; [exact I1|eapply winvD_same; [| | | | |exact I1]; reflexivity].
Qed.

Lemma resB_le1 : forall s, invA s -> invB s -> forall a, n_resB a s <= 1 /\ n_resB a s + n_running a s <= 1 + n_stuck a s.
Proof.
  intros s IA IB a.
  assert (H2 : n_stuck a s <= n_running a s).
  { unfold n_stuck, n_running. apply sumf_le. intros w Hw. destruct (B_stuck s IB w Hw) as [J _]. apply J. }
  pose proof (B_cons s IB a) as C.
  pose proof (A_cons s IA a) as CA. pose proof (A_uniq s IA a) as U. pose proof (n_running_le a s) as L.
  unfold n_task in CA. split; lia.
Qed.

Lemma fresh_incoming : forall s i w q p, invA s -> invB s -> nth_error (s_workers s) i = Some w ->
  In q (s_down s) -> In p (chan_res q) -> cnt (fst p) (w_deposited w) = 0.
Proof.
  intros s i w q p IA IB Hw Hq Hp. destruct (resB_le1 s IA IB (fst p)) as [R _]. unfold n_resB in R.
  assert (G1 : rcnt (fst p) (chan_res q) <= rdcnt (fst p) (s_down s)) by (apply (sumf_ge _ (fun q => rcnt (fst p) (chan_res q))); auto).
  assert (G2 : rcnt (fst p) (chan_res q) >= 1) by (unfold rcnt; apply cnt_pos_in; apply in_map; auto).
  pose proof (sumf_ge _ (w_resB (fst p)) _ _ (nth_error_In _ _ Hw)) as G3.
  assert (cnt (fst p) (w_deposited w) <= w_resB (fst p) w) by (unfold w_resB; lia). lia.
Qed.

Lemma sumf_two : forall A (f : A -> nat) l i j x y, i <> j -> nth_error l i = Some x -> nth_error l j = Some y ->
  f x + f y <= sumf f l.
Proof. induction l as [|z r IH]; intros i j x y Hne Hi Hj; [destruct i; discriminate|].
  destruct i, j; simpl in *; try congruence.
  - injection Hi as ->. pose proof (sumf_ge _ f _ _ (nth_error_In _ _ Hj)). lia.
  - injection Hj as ->. pose proof (sumf_ge _ f _ _ (nth_error_In _ _ Hi)). lia.
  - assert (i <> j) by lia. specialize (IH i j x y H Hi Hj). lia. Qed.

Lemma fresh_running : forall s i w t, invA s -> invB s -> nth_error (s_workers s) i = Some w ->
  In t (w_tasks w) -> w_pc w <> PDead -> cnt (t_addr t) (w_deposited w) = 0.
Proof.
  intros s i w t IA IB Hw Ht Hpc. set (a := t_addr t).
  destruct (resB_le1 s IA IB a) as [_ R].
  pose proof (nth_error_In _ _ Hw) as Hwin.
  assert (Hrun : tcnt a (w_tasks w) >= 1) by (unfold tcnt; apply cnt_pos_in; apply in_map; auto).
  assert (Hstuck : n_stuck a s = 0).
  { unfold n_stuck. apply sumf_zero. intros w' Hw'. destruct (B_stuck s IB w' Hw') as [J1 J2].
    apply In_nth_error in Hw'. destruct Hw' as [j Hj]. destruct (Nat.eq_dec j i).
    - subst j. assert (w' = w) by congruence. subst w'. destruct (w_stuck w) eqn:E; [reflexivity|]. exfalso. apply Hpc. apply J2. congruence.
    - specialize (J1 a).
      assert (tcnt a (w_tasks w') = 0); [|lia].
      pose proof (A_cons s IA a) as CA. pose proof (A_uniq s IA a) as U. unfold n_task in CA.
      assert (Hsum : tcnt a (w_held w) + tcnt a (w_held w') <= sumf (fun w => tcnt a (w_held w)) (s_workers s)).
      { apply (sumf_two _ (fun w => tcnt a (w_held w)) (s_workers s) i j w w'); auto. }
      pose proof (tasks_le_held a w) as T1. pose proof (tasks_le_held a w') as T2. lia. }
  pose proof (sumf_ge _ (fun w => tcnt a (w_tasks w)) _ _ Hwin) as G1. fold (n_running a s) in G1. simpl in G1.
  unfold n_resB in R. pose proof (sumf_ge _ (w_resB a) _ _ Hwin) as G3.
  assert (cnt a (w_deposited w) <= w_resB a w) by (unfold w_resB; lia). lia.
Qed.

Definition invD (s : sys) : Prop := forall w, In w (s_workers s) -> w_oos w = true \/ winvD w.

Lemma invD_init : forall k, invD (sys0 k).
Proof. intros k w Hw. simpl in Hw. apply in_map_iff in Hw. destruct Hw as (j & <- & _). right. apply winvD_w0. Qed.

Lemma step_invD : forall s e s', invA s -> invV s -> invB s -> invC s -> invD s -> step true s e = Some s' -> invD s'.
Proof.
  intros s e s' IA IV IB IC ID H. destruct e as [sc target|i|i|i asg]; simpl in H.
  - destruct (Nat.ltb target (length (s_workers s))); [|discriminate]. injection H as <-. exact ID.
  - destruct (nth_error (s_workers s) i) as [w|] eqn:Ew; [|discriminate].
    destruct (nth_error (s_down s) i) as [[|m q]|] eqn:Ed; try discriminate.
    destruct (w_rdead w) eqn:Erd; [discriminate|]. injection H as <-.
    pose proof (nth_error_In _ _ Ew) as Hwin. pose proof (nth_error_In _ _ Ed) as Hqin.
    intros w' Hw'. simpl in Hw'. apply In_set_nth in Hw'. destruct Hw' as [->|Hw']; [|apply ID; auto].
    destruct (ID w Hwin) as [Ho|IDw]; [left; apply recv_step_oos; exact Ho|].
    assert (Hmt : forall t, In t (msg_tasks m) -> In t (chan_tasks (m :: q))) by (intros; rewrite chan_tasks_cons; apply in_or_app; auto).
    assert (Hmr : forall p, In p (msg_res m) -> In p (chan_res (m :: q))) by (intros; unfold chan_res; simpl; apply in_or_app; auto).
    apply recv_step_D; auto.
    + apply (VG_w s IV w Hwin).
    + eapply dep1_worker; eauto.
    + intros t Ht. split; [apply (VG_down s IV _ _ Hqin (Hmt t Ht))|].
      eapply absent_from_uniq; eauto. left.
      assert (G1 : tcnt (t_addr t) (chan_tasks (m :: q)) <= dcnt (t_addr t) (s_down s)).
      { apply (sumf_ge _ (fun q => tcnt (t_addr t) (chan_tasks q))). auto. }
      assert (G2 : tcnt (t_addr t) (chan_tasks (m :: q)) >= 1) by (unfold tcnt; apply cnt_pos_in; apply in_map; auto). lia.
    + intros p Hp Hme. destruct (VG_res_down s IV _ _ Hqin (Hmr p Hp)) as (_ & Ex). unfold expect_ok in Ex.
      rewrite Hme in Ex. unfold me in Ex. rewrite (A_ids s IA i w Ew) in Ex. apply Ex. auto.
    + intros p Hp _ _. eapply fresh_incoming; eauto.
  - destruct (nth_error (s_workers s) i) as [w|] eqn:Ew; [|discriminate].
    destruct (main_step true w) as [w'|] eqn:Em; [|discriminate]. injection H as <-.
    pose proof (nth_error_In _ _ Ew) as Hwin.
    intros w0 Hw0. simpl in Hw0. apply In_set_nth in Hw0. destruct Hw0 as [->|Hw0]; [|apply ID; auto].
    destruct (ID w Hwin) as [Ho|IDw]; [left; eapply main_step_oos; eauto|].
    eapply main_step_D; [apply (VG_w s IV w Hwin)|apply IC; auto|exact IDw|eapply dep1_worker; eauto| | | |exact Em].
    + intros t Ht Hme. destruct (VG_held s IV w t Hwin) as (G & Ex).
      { unfold w_held. apply in_or_app. right. apply in_or_app. auto. }
      unfold expect_ok, good_addr in *. rewrite Hme in *. unfold me in *. rewrite (A_ids s IA i w Ew) in *.
      split; [apply Ex; auto|]. destruct G as (wx & Hwx & Hlt). congruence.
    + intros t Ht. split; [apply (VG_new s IV w); auto; apply in_or_app; auto|].
      eapply absent_from_uniq; eauto. right. unfold tcnt. apply cnt_pos_in. apply in_map. auto.
    + intros t Ht _ _. eapply fresh_running; eauto.
      intro E. unfold main_step in Em. rewrite E in Em. discriminate.
  - destruct (nth_error (s_workers s) i) as [w|] eqn:Ew; [|discriminate].
    destruct (w_out w) as [|m q] eqn:Eo; [discriminate|].
    pose proof (nth_error_In _ _ Ew) as Hwin.
    assert (G : forall d cl er ft, invD (mkSys (set_nth i (set_out w q) (s_workers s)) d cl er (s_nbox s) ft (s_roots s))).
    { intros d cl er ft w' Hw'. simpl in Hw'. apply In_set_nth in Hw'. destruct Hw' as [->|Hw']; [|apply ID; auto].
      destruct (ID w Hwin) as [Ho|IDw]; [left; exact Ho|right]. eapply winvD_same; [| | | | |exact IDw]; reflexivity. }
    unfold server_msg in H. cbn [s_workers set_workers s_down s_client s_errors s_nbox s_fatal s_roots] in H.
    destruct m as [t|ts|a v c|r| |c| |a].
    + destruct (valid_asg _ 1 asg); [|discriminate]. injection H as <-. apply G.
    + destruct (valid_asg _ (length ts) asg); [|discriminate]. injection H as <-. apply G.
    + destruct (a_w a) as [|j]; [injection H as <-; apply G|].
      destruct (Nat.ltb j _); injection H as <-; apply G.
    + injection H as <-. apply G.
    + injection H as <-. apply G.
    + injection H as <-. apply G.
    + injection H as <-. apply G.
    + injection H as <-. apply G.
Qed.

Lemma steps_inv5 : forall es s s', invA s /\ invV s /\ invB s /\ invC s /\ invD s -> steps true s es = Some s' ->
  invA s' /\ invV s' /\ invB s' /\ invC s' /\ invD s'.
Proof. induction es as [|e r IH]; simpl; intros s s' (IA & IV & IB & IC & ID) H.
  - injection H as <-. auto.
  - destruct (step true s e) as [s1|] eqn:E; [|discriminate]. apply (IH s1); auto.
    split; [eapply step_invA; eauto|]. split; [eapply step_invV; eauto|]. split; [eapply step_invB; eauto|].
    split; [eapply step_invC; eauto|eapply step_invD; eauto]. Qed.

(* ---- wake-once for the worker with atomic await registration ---- *)
Theorem wake_once_atomic : forall k s, reachable true k s ->
  forall w, In w (s_workers s) -> w_oos w = false ->
    NoDup (w_ready w) /\
    (forall a, In a (w_ready w) -> steppable w a) /\
    (forall e, In e (w_errs w) -> e <> EAssertReady /\ e <> EAssertFresh).
Proof.
  intros k s [es H] w Hw Ho.
  assert (I : invA s /\ invV s /\ invB s /\ invC s /\ invD s).
  { eapply steps_inv5; [|exact H]. split; [apply invA_init|]. split; [apply invV_init|]. split; [apply invB_init|].
    split; [apply invC_init|apply invD_init]. }
  destruct I as (_ & _ & _ & _ & ID). destruct (ID w Hw) as [Ho'|IDw]; [congruence|].
  split; [|split].
  - apply cnt_le1_NoDup. intro a. pose proof (D_one w IDw a). unfold qcnt in H0. lia.
  - apply (D_step w IDw).
  - apply (D_err w IDw).
Qed.

(* ------------------------------------------------------------------------- *)
(* D7: the code as it is (atomic = false) wakes a task twice                  *)
(* ------------------------------------------------------------------------- *)
Definition d7_root : script := [Submit [Return 7]; Submit [Return 8]; Await 0; Await 1; Return 1].
Definition d7_schedule : list event :=
  [EClient d7_root 0; ERecv 0; EMain 0; EMain 0;   (* root runs up to `await futs[0]`: pc = PAw1 *)
   EServer 0 [(1,[0])]; ERecv 1; EMain 1; EMain 1; (* child 7 runs on worker 1 and returns *)
   EMain 0;                                        (* A1: box.dest_addr = root *)
   EServer 1 []; ERecv 0;                          (* RESULT handled: root woken, dest_addr cleared *)
   EMain 0; EMain 0].                              (* A1c; A2: box.ready -> woken again *)
Definition d7_continuation : list event :=
  [EMain 0; EMain 0;              (* first wake-up: pops box 0, awaits box 1 *)
   EMain 0; EMain 0; EMain 0;     (* A1 A1c A2: box 1 is not ready *)
   EMain 0; EMain 0;              (* second wake-up: `assert box.ready` fails on box 1 *)
   EServer 0 [(1,[0])]; EServer 0 []].   (* the ERROR reaches the server, i.e. the client *)

Definition wake_once (s : sys) : Prop := forall w, In w (s_workers s) -> NoDup (w_ready w).
Definition no_internal_error (s : sys) : Prop := all_errs s = [] /\ s_errors s = [] /\ s_fatal s = false.

Lemma d7_double_wake :
  exists s s',
    steps false (sys0 2) d7_schedule = Some s /\ in_scope s = true /\ ~ wake_once s /\
    steps false s d7_continuation = Some s' /\ in_scope s' = true /\
    In EAssertReady (all_errs s') /\ s_errors s' = [0].
Proof.
  destruct (steps false (sys0 2) d7_schedule) as [s|] eqn:E1; [|vm_compute in E1; discriminate].
  destruct (steps false s d7_continuation) as [s'|] eqn:E2;
    [|vm_compute in E1; injection E1 as <-; vm_compute in E2; discriminate].
  exists s, s'. vm_compute in E1. injection E1 as <-.
  vm_compute in E2. injection E2 as <-.
  repeat split; try reflexivity.
  - intro H. specialize (H _ (or_introl eq_refl)). simpl in H.
    inversion H as [|? ? Hn _]. apply Hn. left. reflexivity.
  - vm_compute. left. reflexivity.
Qed.

