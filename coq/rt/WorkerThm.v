(* Proofs about the worker / flat-system model of rt/WorkerM.v (property C07). *)
From Coq Require Import List Arith Bool PeanoNat Lia.
Import ListNotations.
From BQ Require Import rt.WorkerM.

(* ------------------------------------------------------------------------- *)
(* D7: the code as it is (atomic = false) wakes a task twice                  *)
(* ------------------------------------------------------------------------- *)
Definition d7_root : script := [Submit [Return 7]; Submit [Return 8]; Await 0; Await 1; Return 1].
Definition d7_schedule : list event :=
  [EClient d7_root 0; ERecv 0; EMain 0; EMain 0;   (* root runs up to `await futs[0]`: pc = PAw1 *)
   EServer 0 [(1,[0])]; ERecv 1; EMain 1; EMain 1; (* child 7 runs on worker 1 and returns *)
   EMain 0;                                        (* A1: box.dest_addr = root *)
   EServer 1 []; ERecv 0;                          (* RESULT handled: root woken, dest_addr cleared *)
   EMain 0; EMain 0].                              (* A1c; A2: box.ready -> woken again *)
Definition d7_continuation : list event :=
  [EMain 0; EMain 0;              (* first wake-up: pops box 0, awaits box 1 *)
   EMain 0; EMain 0; EMain 0;     (* A1 A1c A2: box 1 is not ready *)
   EMain 0; EMain 0;              (* second wake-up: `assert box.ready` fails on box 1 *)
   EServer 0 [(1,[0])]; EServer 0 []].   (* the ERROR reaches the server, i.e. the client *)

Definition wake_once (s : sys) : Prop := forall w, In w (s_workers s) -> NoDup (w_ready w).
Definition no_internal_error (s : sys) : Prop := all_errs s = [] /\ s_errors s = [] /\ s_fatal s = false.

Lemma d7_double_wake :
  exists s s',
    steps false (sys0 2) d7_schedule = Some s /\ in_scope s = true /\ ~ wake_once s /\
    steps false s d7_continuation = Some s' /\ in_scope s' = true /\
    In EAssertReady (all_errs s') /\ s_errors s' = [0].
Proof.
  destruct (steps false (sys0 2) d7_schedule) as [s|] eqn:E1; [|vm_compute in E1; discriminate].
  destruct (steps false s d7_continuation) as [s'|] eqn:E2;
    [|vm_compute in E1; injection E1 as <-; vm_compute in E2; discriminate].
  exists s, s'. vm_compute in E1. injection E1 as <-.
  vm_compute in E2. injection E2 as <-.
  repeat split; try reflexivity.
  - intro H. specialize (H _ (or_introl eq_refl)). simpl in H.
    inversion H as [|? ? Hn _]. apply Hn. left. reflexivity.
  - vm_compute. left. reflexivity.
Qed.
