(* C15, manager topology: read receipts across levels (rt/SchedTree.v, any node of any tree).

   Part 1  link theory.  A link = (the boss's employee record e, the channel down d, the channel up u,
           the employee's most_recent_read_submit m).  LinkR e d u m: the submit cache is P ++ (entries of the
           batches still in flight), and the receipts in flight followed by m embed in order into P.
           It needs NO uniqueness of task ids and NO assumption on total_workers, so it holds for a link
           to a worker and for a link to a manager alike.
   Part 2  the handlers of the model preserve LinkR on every link of the node they run on, and under
           LinkR a WAITING never raises (receipt found, bounds assertion holds): handle_waiting,
           schedule_tasks, Manager.update_upstream_idle_workers, the manager's receipt update.
   Part 3  the exactness statements across levels are FALSE for the code as it is: D14, D15 witnesses. *)
From Coq Require Import ZArith List Bool Arith Lia ZifyBool Permutation.
From BQ Require Import rt.SchedPre gen.SchedArith rt.SchedArithThm rt.Sched rt.SchedAssign rt.SchedLocal rt.SchedThm rt.SchedNode rt.SchedTree.
Import ListNotations.
Open Scope Z_scope.
Local Arguments Z.add : simpl never.
Local Arguments Z.sub : simpl never.
Local Arguments handle_waiting : simpl never.
Local Arguments schedule_tasks : simpl never.

(* ---------- Part 1: link theory ---------- *)

(* the receipts, oldest first, occur in P in this order (repetition allowed); after the occurrence used
   for one receipt the rest is looked for from that occurrence on *)
Fixpoint emb (rs : list (option Z)) (P : list Z) : Prop :=
  match rs with
  | [] => True
  | None :: rs' => emb rs' P
  | Some x :: rs' => exists A B, P = A ++ x :: B /\ emb rs' (x :: B)
  end.

Lemma emb_prefix rs : forall pre P, emb rs P -> emb rs (pre ++ P).
Proof.
  induction rs as [|[x|] rs IH]; simpl; intros pre P H; auto.
  destruct H as (A & B & -> & H). exists (pre ++ A), B. rewrite app_assoc. auto.
Qed.

Lemma emb_recv u : forall m P f, emb (u ++ [m]) P -> emb (u ++ [Some f]) (P ++ [f]).
Proof.
  induction u as [|[x|] u IH]; simpl; intros m P f H.
  - exists P, []. auto.
  - destruct H as (A & B & -> & H). exists A, (B ++ [f]). split; [rewrite <- app_assoc; reflexivity|].
    apply (IH m (x :: B) f H).
  - eauto.
Qed.

Lemma emb_dup u : forall m P, emb (u ++ [m]) P -> emb ((u ++ [m]) ++ [m]) P.
Proof.
  induction u as [|[x|] u IH]; simpl; intros m P H.
  - destruct m as [x|]; simpl in *; auto. destruct H as (A & B & -> & _). exists A, B. split; auto. exists [], B. auto.
  - destruct H as (A & B & -> & H). exists A, B. split; auto.
  - auto.
Qed.

Lemma emb_in rs : forall P x, emb rs P -> In (Some x) rs -> In x P.
Proof.
  induction rs as [|[y|] rs IH]; simpl; intros P x H Hin; [tauto| |].
  - destruct H as (A & B & -> & H). apply in_or_app. right. destruct Hin as [E|Hin].
    + inversion E; subst. left. reflexivity.
    + exact (IH _ _ H Hin).
  - destruct Hin as [E|Hin]; [discriminate|]. eauto.
Qed.

Lemma first_split (x : Z) : forall a' b' A R, a' ++ x :: b' = A ++ x :: R -> ~ In x a' ->
  (a' = A /\ b' = R) \/ exists A3, A = a' ++ x :: A3 /\ b' = A3 ++ x :: R.
Proof.
  induction a' as [|z a' IH]; intros b' A R E Hn; destruct A as [|y A]; simpl in *.
  - inversion E. auto.
  - inversion E; subst. right. exists A. auto.
  - inversion E; subst. exfalso. apply Hn. auto.
  - inversion E; subst. destruct (IH b' A R H1) as [[-> ->]|(A3 & -> & ->)]; [tauto|auto|].
    right. exists A3. auto.
Qed.

Definition LinkR (e : employee) (d : list dmsg) (u : list umsg) (m : option Z) : Prop :=
  exists P, map fst (e_cache e) = P ++ map fst (entries d) /\ emb (receipts u ++ [m]) P.

Lemma link_init tot nt ni : LinkR (mkEmp tot nt ni []) [] [] None.
Proof. exists []. simpl. auto. Qed.

Lemma link_cache e e' d u m : e_cache e' = e_cache e -> LinkR e d u m -> LinkR e' d u m.
Proof. intros E (P & H1 & H2). exists P. rewrite E. auto. Qed.

(* C15_receipt_found on a link: every receipt in flight and the employee's current one is None or in the cache *)
Lemma link_found e d u m r : LinkR e d u m -> In r (m :: receipts u) ->
  r = None \/ exists x, r = Some x /\ In x (map fst (e_cache e)).
Proof.
  intros (P & H1 & H2) Hin. destruct r as [x|]; [right|auto]. exists x. split; [reflexivity|].
  rewrite H1. apply in_or_app. left. apply (emb_in _ _ _ H2). apply in_or_app.
  destruct Hin as [->|Hin]; [right; left; reflexivity|left; exact Hin].
Qed.

(* the boss handles WAITING (n, r): the receipt is found; the trimmed cache keeps the invariant *)
Lemma link_waiting e d n r u m : LinkR e d (UWaiting n r :: u) m ->
  exists c' cnt, get_num_of_tasks_sent_since (e_cache e) r = Ok (c', cnt)
                 /\ forall e', e_cache e' = c' -> LinkR e' d u m.
Proof.
  intros (P & H1 & H2). change (receipts (UWaiting n r :: u)) with (r :: receipts u) in H2. simpl in H2.
  destruct r as [x|].
  - destruct H2 as (A & B & -> & H2).
    pose proof (gnts_some_spec (e_cache e) x) as G.
    destruct (get_num_of_tasks_sent_since (e_cache e) (Some x)) as [[c' cnt]|ex].
    + destruct G as (a & k & b & Ec & Hn & -> & _). exists ((x, k) :: b), cnt. split; [reflexivity|].
      intros e' E'. rewrite Ec, map_app in H1. simpl in H1. rewrite <- app_assoc in H1. simpl in H1.
      destruct (first_split x _ _ _ _ H1 Hn) as [[_ Eb]|(A3 & _ & Eb)].
      * exists (x :: B). rewrite E'. simpl. rewrite Eb. auto.
      * exists ((x :: A3) ++ x :: B). rewrite E'. simpl. rewrite Eb. split.
        -- rewrite <- app_assoc. reflexivity.
        -- exact (emb_prefix _ (x :: A3) (x :: B) H2).
    + exfalso. destruct G as [_ G]. apply G. rewrite H1. apply in_or_app. left. apply in_or_app. right. left. reflexivity.
  - rewrite gnts_none. do 2 eexists. split; [reflexivity|]. intros e' E'. exists P. rewrite E'. auto.
Qed.

(* the boss sends a non-empty batch and records it *)
Lemma link_send e d u m a : LinkR e d u m -> LinkR (upd_emp e a) (d ++ match a with [] => [] | _ => [DBatch a] end) u m.
Proof.
  intros (P & H1 & H2). destruct a as [|t0 ts]; [rewrite app_nil_r; exists P; auto|].
  exists P. split; [|exact H2]. simpl. rewrite entries_app, !map_app, H1, <- app_assoc. reflexivity.
Qed.

(* the employee reads a batch: its receipt becomes the first task of the batch *)
Lemma link_recv_batch e t0 ts d u m : LinkR e (DBatch (t0 :: ts) :: d) u m -> LinkR e d u (Some (tid t0)).
Proof.
  intros (P & H1 & H2). exists (P ++ [tid t0]). split.
  - rewrite H1. change (entries (DBatch (t0 :: ts) :: d)) with ((tid t0, zlen (t0 :: ts)) :: entries d).
    simpl. rewrite <- app_assoc. reflexivity.
  - eapply emb_recv. exact H2.
Qed.

Lemma link_down_pop e x d u m : entry_of x = [] -> LinkR e (x :: d) u m -> LinkR e d u m.
Proof.
  intros E (P & H1 & H2). exists P. split; [|exact H2]. rewrite H1.
  change (entries (x :: d)) with (entry_of x ++ entries d). rewrite E. reflexivity.
Qed.

Lemma link_down_push e x d u m : entry_of x = [] -> LinkR e d u m -> LinkR e (d ++ [x]) u m.
Proof.
  intros E (P & H1 & H2). exists P. split; [|exact H2]. rewrite H1, entries_app.
  change (entries [x]) with (entry_of x ++ []). rewrite E. simpl. rewrite app_nil_r. reflexivity.
Qed.

Lemma link_up_pop e x d u m : receipt_of x = [] -> LinkR e d (x :: u) m -> LinkR e d u m.
Proof.
  intros E (P & H1 & H2). exists P. split; [exact H1|].
  change (receipts (x :: u)) with (receipt_of x ++ receipts u) in H2. rewrite E in H2. exact H2.
Qed.

Lemma link_up_push e x d u m : receipt_of x = [] -> LinkR e d u m -> LinkR e d (u ++ [x]) m.
Proof.
  intros E (P & H1 & H2). exists P. split; [exact H1|]. rewrite receipts_app.
  change (receipts [x]) with (receipt_of x ++ []). rewrite E. simpl. rewrite app_nil_r. exact H2.
Qed.

(* the employee sends WAITING with its current receipt *)
Lemma link_up_waiting e d u m n : LinkR e d u m -> LinkR e d (u ++ [UWaiting n m]) m.
Proof.
  intros (P & H1 & H2). exists P. split; [exact H1|]. rewrite receipts_app.
  change (receipts [UWaiting n m]) with [m]. apply emb_dup. exact H2.
Qed.

(* ---------- Part 2: the handlers of the model on a link ---------- *)

(* handle_waiting at ANY node (server or manager; the employee may be a manager): under LinkR and the
   sender's guarantee 0 <= n <= total_workers the handler does not raise, the node stays in bounds and
   the link invariant is kept; no other employee is touched.  This discharges the hypothesis left open
   in C15_idle_in_bounds_node_partial. *)
Theorem waiting_link s w e d n r u m : node_ok s -> nth_error (s_emps s) w = Some e -> 0 <= n <= e_total e ->
  LinkR e d (UWaiting n r :: u) m ->
  exists s' e', srv_waiting s w n r = Done s' /\ node_ok s'
    /\ nth_error (s_emps s') w = Some e' /\ LinkR e' d u m /\ e_total e' = e_total e
    /\ length (s_emps s') = length (s_emps s)
    /\ (forall j, j <> w -> nth_error (s_emps s') j = nth_error (s_emps s) j)
    /\ s_lb s' = s_lb s /\ s_step s' = s_step s /\ s_total s' = s_total s.
Proof.
  intros Hok He Hn L. pose proof (node_waiting s w e n r Hok He Hn) as N.
  destruct (link_waiting _ _ _ _ _ _ L) as (c' & cnt & Hg & Hl).
  unfold srv_waiting in *. rewrite He in *.
  pose proof (handle_waiting_spec (e_cache e) (e_num_idle e) (s_num_idle s) (s_total s) n r) as S.
  destruct (handle_waiting (e_cache e) (e_num_idle e) (s_num_idle s) (s_total s) n r) as [[[c ni] si]|ex]; simpl in *.
  - destruct S as (u0 & Hg' & _). rewrite Hg in Hg'. inversion Hg'; subst c u0.
    eexists. exists (set_idle_cache ni c' e). split; [reflexivity|]. split; [exact N|]. simpl.
    split; [apply nth_error_upd_eq; exact He|]. split; [apply Hl; reflexivity|]. split; [reflexivity|].
    split; [apply upd_length|]. split; [intros j Hj; apply nth_error_upd_neq; auto|]. auto.
  - exfalso. destruct N as [_ N]. rewrite Hg in N. discriminate.
Qed.

Definition bmsgs (a : list task) : list dmsg := match a with [] => [] | _ => [DBatch a] end.

(* schedule_tasks at any node: every link keeps its invariant (cache entry appended iff a batch is put on
   that link's channel), the node stays in bounds, no exception *)
Theorem schedule_link s ts sh rs ds : node_ok s -> s_emps s <> [] -> length ds = length (s_emps s) ->
  match schedule_tasks s ts sh rs with
  | Done (s', sends) =>
      node_ok s' /\ length (s_emps s') = length (s_emps s)
      /\ s_lb s' = s_lb s /\ s_step s' = s_step s /\ s_total s' = s_total s
      /\ forall j e d, nth_error (s_emps s) j = Some e -> nth_error ds j = Some d ->
           exists a, nth_error (s_emps s') j = Some (upd_emp e a)
                     /\ nth_error (push_batches sends ds) j = Some (d ++ bmsgs a)
  | Disabled => True
  | Fault _ => False
  end.
Proof.
  intros Hok Hne Hlen. pose proof (node_schedule s ts sh rs Hok Hne) as N.
  pose proof (schedule_tasks_spec s ts sh rs Hne) as S.
  destruct (schedule_tasks s ts sh rs) as [[s' sends]| |]; auto.
  split; [exact N|].
  destruct S as [(-> & -> & ->)|(Hts & asg & Hl & Hperm & Hel & Hemps & Hsends & Hidle & Hlb & Hstep & Htot)].
  - repeat (split; [reflexivity|]). intros j e d He Hd. exists []. simpl. rewrite app_nil_r. auto.
  - repeat (split; [assumption|]). intros j e d He Hd.
    assert (Hj : (j < length asg)%nat) by (rewrite Hl; apply nth_error_Some; congruence).
    destruct (nth_error_ex asg j Hj) as (a & Ha). exists a. split; [exact (Hemps j e a He Ha)|].
    rewrite (push_batches_nth sends ds j d Hd). f_equal. f_equal.
    pose proof (filter_perm (fun s0 => Nat.eqb (fst s0) j) _ _ Hsends) as Hfp.
    pose proof (sends_filter asg 0 j a Ha) as Hsf. simpl in Hsf. rewrite Hsf in Hfp.
    destruct a as [|t0 ts'].
    + apply Permutation_sym, Permutation_nil in Hfp. rewrite Hfp. reflexivity.
    + apply Permutation_sym, Permutation_length_1_inv in Hfp. rewrite Hfp. reflexivity.
Qed.

Corollary schedule_link_inv s ts sh rs ds s' sends j e d u m : node_ok s -> s_emps s <> [] -> length ds = length (s_emps s) ->
  schedule_tasks s ts sh rs = Done (s', sends) -> nth_error (s_emps s) j = Some e -> nth_error ds j = Some d ->
  LinkR e d u m ->
  exists e' d', nth_error (s_emps s') j = Some e' /\ nth_error (push_batches sends ds) j = Some d'
                /\ LinkR e' d' u m /\ e_total e' = e_total e.
Proof.
  intros Hok Hne Hlen E He Hd L. pose proof (schedule_link s ts sh rs ds Hok Hne Hlen) as S. rewrite E in S.
  destruct S as (_ & _ & _ & _ & _ & S). destruct (S j e d He Hd) as (a & H1 & H2).
  exists (upd_emp e a), (d ++ bmsgs a). repeat split; auto.
  - apply link_send. exact L.
  - destruct a; reflexivity.
Qed.

(* Manager.update_upstream_idle_workers: whatever it puts on the upstream channel is a WAITING carrying the
   manager's own idle count (in bounds) and its CURRENT receipt - so the link to its boss keeps LinkR, and
   the boss's assumption 0 <= n <= total_workers holds *)
Theorem update_upstream_link m m' upq e d u : node_ok (m_node m) -> mgr_update_upstream m = Done (m', upq) ->
  LinkR e d u (m_mrrs m) ->
  LinkR e d (u ++ upq) (m_mrrs m') /\ m_node m' = m_node m /\ m_mrrs m' = m_mrrs m
  /\ m_downs m' = m_downs m /\ m_ups m' = m_ups m /\ m_wks m' = m_wks m
  /\ forall n r, In (UWaiting n r) upq -> 0 <= n <= s_total (m_node m).
Proof.
  intros Hok E L. unfold mgr_update_upstream in E. rewrite update_upstream_spec in E.
  pose proof (node_ok_bounds _ Hok) as B.
  destruct (s_num_idle (m_node m) =? m_last m); simpl in E; inversion E; subst; simpl.
  - rewrite app_nil_r. split; [exact L|]. do 5 (split; [reflexivity|]). intros n r [].
  - split; [apply link_up_waiting; exact L|]. do 5 (split; [reflexivity|]). intros n r [H|[]]. inversion H; subst. lia.
Qed.

(* the manager reads a batch from its boss: receipt := first task (mgr_above) *)
Theorem mgr_above_link m t0 ts sh rs m' sends e q u : mgr_above m (DBatch (t0 :: ts)) sh rs = Done (m', sends) ->
  LinkR e (DBatch (t0 :: ts) :: q) u (m_mrrs m) -> LinkR e q u (m_mrrs m') /\ m_last m' = m_last m.
Proof.
  intros E L. simpl in E. unfold mgr_schedule in E. simpl in E.
  destruct (schedule_tasks (m_node m) (t0 :: ts) sh rs) as [[nd sn]| |]; simpl in E; inversion E; subst. simpl.
  split; [|reflexivity]. eapply link_recv_batch. exact L.
Qed.

(* Manager.handle_message(WAITING from worker/sub-manager j) end to end: under the link invariants of the
   link below (to j) and the link above (to the boss) the handler does not raise, keeps the manager in
   bounds, keeps both link invariants, and what it sends up satisfies the boss's assumption
   0 <= n <= total_workers.  This closes the assume/guarantee chain of C15_idle_in_bounds_node_partial
   across one level; it applies at every level of any tree. *)
Theorem mgr_below_waiting_link m j n r q sh rs e d mk eb db ub :
  node_ok (m_node m) -> nth_error (m_ups m) j = Some (UWaiting n r :: q) ->
  nth_error (s_emps (m_node m)) j = Some e -> 0 <= n <= e_total e ->
  LinkR e d (UWaiting n r :: q) mk -> LinkR eb db ub (m_mrrs m) ->
  exists m' upq e', mgr_below m j sh rs = Done (m', upq, [])
    /\ node_ok (m_node m') /\ s_total (m_node m') = s_total (m_node m)
    /\ nth_error (s_emps (m_node m')) j = Some e' /\ LinkR e' d q mk
    /\ nth_error (m_ups m') j = Some q
    /\ LinkR eb db (ub ++ upq) (m_mrrs m')
    /\ forall n' r', In (UWaiting n' r') upq -> 0 <= n' <= s_total (m_node m).
Proof.
  intros Hok Hu He Hn L Lb.
  destruct (waiting_link (m_node m) j e d n r q mk Hok He Hn L) as (s' & e' & Ew & Hok' & He' & L' & _ & _ & _ & _ & _ & Ht).
  unfold mgr_below. rewrite Hu, Ew. simpl.
  set (m1 := set_node (mkMgr (m_node m) (m_last m) (m_mrrs m) (m_downs m) (upd j (fun _ => q) (m_ups m)) (m_wks m)) s').
  destruct (mgr_update_upstream m1) as [[m' upq]| |] eqn:Eu;
    [|unfold mgr_update_upstream in Eu; rewrite update_upstream_spec in Eu; simpl in Eu; discriminate
     |unfold mgr_update_upstream in Eu; rewrite update_upstream_spec in Eu; simpl in Eu; discriminate].
  destruct (update_upstream_link m1 m' upq eb db ub Hok' Eu Lb) as (Lb' & En & _ & _ & Eups & _ & Hb).
  simpl. exists m', upq, e'. split; [reflexivity|]. rewrite En. simpl. split; [exact Hok'|]. split; [exact Ht|].
  split; [exact He'|]. split; [exact L'|]. split.
  - rewrite Eups. simpl. apply (nth_error_upd_eq j (fun _ => q) (m_ups m) _ Hu).
  - split; [exact Lb'|]. intros n' r' Hin. specialize (Hb n' r' Hin). simpl in Hb. rewrite Ht in Hb. exact Hb.
Qed.

(* ---------- Part 3: exactness across levels is refuted (D14, D15) ---------- *)

(* D15: one task sent to a fully idle 1-worker manager; the worker finishes and reports idle, the manager's
   idle count is back at the last value it reported, so it never tells its boss *)
Definition d15_witness : list tevent :=
  [TTop (EClientSubmit [mkTask 0 (-1) []] [0%nat] [2]);
   TMgrAbove 0 [0%nat] [0];
   TWorker 0 (EWorkerRecv 0 false);
   TWorker 0 (EWorkerFinish 0 0);
   TWorker 0 (EWorkerIdle 0);
   TMgrBelow 0 0 [] [3];
   TTop (EServerRecv 0 [] [0]);
   TMgrBelow 0 0 [] [3]].

Theorem tree_idle_refuted : exists st, trun (tinit [1%nat]) d15_witness = Done st /\ tquiescent st = true
  /\ forallb (fun ev => negb (is_cancel_tevent ev)) d15_witness = true
  /\ s_num_idle (t_srv st) = 0 /\ s_total (t_srv st) = 1
  /\ exists m, t_mgrs st = [m] /\ s_num_idle (m_node m) = 1.
Proof. eexists. split; [vm_compute; reflexivity|]. repeat split. eexists. split; reflexivity. Qed.

(* D14: a worker submits 1 child while its manager has 2 idle workers: UPDATE 2 goes up, 1 task is kept *)
Definition d14_witness : list tevent :=
  [TTop (EClientSubmit [mkTask 0 (-1) []] [0%nat; 0%nat; 0%nat] [0]);
   TMgrAbove 0 [2%nat; 0%nat; 1%nat] [0; 0; 0];
   TWorker 0 (EWorkerRecv 2 false);
   TWorker 0 (EWorkerMap 2 [mkTask 30000 2 [0]]);
   TMgrBelow 0 2 [0%nat; 1%nat] [0; 0; 0];
   TWorker 0 (EWorkerRecv 0 false);
   TWorker 0 (EWorkerFinish 0 30000);
   TWorker 0 (EWorkerIdle 0);
   TMgrBelow 0 0 [] [0; 0; 0];
   TMgrBelow 0 0 [] [0; 0; 0];
   TWorker 0 (EWorkerRecv 2 true);
   TWorker 0 (EWorkerFinish 2 0);
   TWorker 0 (EWorkerIdle 2);
   TMgrBelow 0 2 [] [0; 0; 0];
   TMgrBelow 0 2 [] [0; 0; 0];
   TWorker 0 (EWorkerIdle 1);
   TMgrBelow 0 1 [] [0; 0; 0];
   TTop (EServerRecv 0 [] [0]);
   TTop (EServerRecv 0 [] [0]);
   TTop (EServerRecv 0 [] [0]);
   TTop (EServerRecv 0 [] [0]);
   TTop (EServerRecv 0 [] [0]);
   TTop (EServerRecv 0 [] [0])].

Theorem tree_num_tasks_refuted : exists st, trun (tinit [3%nat]) d14_witness = Done st /\ tquiescent st = true
  /\ forallb (fun ev => negb (is_cancel_tevent ev)) d14_witness = true
  /\ s_num_idle (t_srv st) = 3
  /\ map e_num_tasks (s_emps (t_srv st)) = [1]
  /\ forall m, In m (t_mgrs st) -> forall e, In e (s_emps (m_node m)) -> e_num_tasks e = 0 /\ e_num_idle e = 1.
Proof.
  eexists. split; [vm_compute; reflexivity|]. repeat split.
  - destruct H as [<-|[]]. simpl in H0. destruct H0 as [<-|[<-|[<-|[]]]]; reflexivity.
  - destruct H as [<-|[]]. simpl in H0. destruct H0 as [<-|[<-|[<-|[]]]]; reflexivity.
Qed.
