From Coq Require Import List Arith Bool PeanoNat Lia Permutation.
Import ListNotations.
From BQ Require Import rt.WorkerM rt.wip_W1 rt.wip_W2 rt.wip_W3 rt.wip_W4 rt.wip_W5 rt.wip_W6 rt.wip_W7 rt.wip_W8 rt.wip_W9 rt.wip_W10 rt.wip_W11 rt.wip_W12 rt.wip_W13.

(* ---------- Part C: a mailbox counts what it holds ---------- *)
Definition cntn (x : nat) (l : list nat) : nat := count_occ Nat.eq_dec l x.
Lemma cntn_app : forall x l1 l2, cntn x (l1 ++ l2) = cntn x l1 + cntn x l2.
Proof. intros. apply count_occ_app. Qed.
Lemma cntn_single : forall x y, cntn x [y] = if Nat.eqb x y then 1 else 0.
Proof. intros. unfold cntn. simpl. destruct (Nat.eq_dec y x); destruct (Nat.eqb_spec x y); auto; congruence. Qed.
Lemma cntn_le1_NoDup : forall l, (forall x, cntn x l <= 1) -> NoDup l.
Proof. intros. apply (NoDup_count_occ Nat.eq_dec). auto. Qed.

Definition boxC (w : wstate) (m : nat) (b : mailbox) : Prop :=
  b_num b = length (b_got b) /\
  length (b_result b) = length (b_expect b) /\
  (if b_single b then b_expected b = 1 /\ length (b_expect b) = 1 else b_expected b = length (b_expect b)) /\
  (forall i, In i (b_got b) -> i < length (b_expect b) /\ exists v, nth_error (b_result b) i = Some (Some v)) /\
  (b_fresh b = None -> b_got b = []) /\
  (forall slot, cntn slot (b_got b) <= cnt (mkAddr (me w) m slot) (w_deposited w)).

Definition dep1 (w : wstate) : Prop := forall a, cnt a (w_deposited w) <= 1.

Lemma boxC_NoDup : forall w m b, dep1 w -> boxC w m b -> NoDup (b_got b).
Proof. intros w m b D (_&_&_&_&_&C). apply cntn_le1_NoDup. intro x. specialize (C x). specialize (D (mkAddr (me w) m x)). lia. Qed.

(* a ready mailbox has every cell filled *)
Lemma pigeon : forall l n, NoDup l -> (forall x, In x l -> x < n) -> n <= length l -> forall i, i < n -> In i l.
Proof. intros l n Hnd Hlt Hlen i Hi.
  assert (Hincl : incl (seq 0 n) l).
  { apply NoDup_length_incl; auto. rewrite seq_length. auto. intros x Hx. apply in_seq. specialize (Hlt x Hx). lia. }
  apply Hincl. apply in_seq. lia. Qed.

Lemma ready_full : forall w m b, dep1 w -> boxC w m b -> b_ready b = true ->
  Forall (fun c => c <> None) (b_result b) /\ forall i, i < length (b_expect b) -> In i (b_got b).
Proof.
  intros w m b D C R. pose proof (boxC_NoDup _ _ _ D C) as Hnd.
  destruct C as (C1&C2&C3&C4&C5&C6). unfold b_ready in R. apply andb_true_iff in R. destruct R as [R1 R2]. b2p.
  apply negb_true_iff in R2. b2p.
  assert (Hexp : length (b_expect b) <= length (b_got b)).
  { destruct (b_single b); [destruct C3 as [E1 E2]; lia|lia]. }
  assert (Hall : forall i, i < length (b_expect b) -> In i (b_got b)).
  { apply pigeon; auto. intros x Hx. apply C4; auto. }
  split; auto. apply Forall_forall. intros c Hc. apply In_nth_error in Hc. destruct Hc as [i Hi].
  assert (i < length (b_result b)) by (apply nth_error_Some; congruence).
  destruct (C4 i (Hall i ltac:(lia))) as (_ & v & Hv). congruence.
Qed.

(* the batches handed out from mailbox m *)
Definition entry_batch (m : nat) (e : addr * script * option nat * obs) : list (nat * val) :=
  match e with
  | (_, _, Some m', ONext _ bt) => if Nat.eqb m' m then bt else []
  | _ => []
  end.
Definition batches (m : nat) (log : list (addr * script * option nat * obs)) : list (nat * val) :=
  flat_map (entry_batch m) log.
Definition fresh_slots (b : mailbox) : list nat := match b_fresh b with Some fr => map fst fr | None => [] end.

Definition log_fullC (e : addr * script * option nat * obs) : Prop :=
  match e with
  | (_, sc, Some _, OAwait f vs) =>
    Forall (fun c => c <> None) vs /\ exists sp, nth_error (specs_of sc) f = Some sp /\ length vs = length (kids sp)
  | _ => True
  end.

Definition fresh_cnt (w : wstate) (m slot : nat) : nat :=
  match box_get m (w_boxes w) with Some b => cntn slot (fresh_slots b) | None => 0 end.
Definition batch_cnt (w : wstate) (m slot : nat) : nat := cntn slot (map fst (batches m (w_log w))).

Record winvC (w : wstate) : Prop := {
  C_box : forall m b, box_get m (w_boxes w) = Some b -> boxC w m b;
  C_log : Forall log_fullC (w_log w);
  C_next : forall m slot, batch_cnt w m slot + fresh_cnt w m slot <= cnt (mkAddr (me w) m slot) (w_deposited w)
}.

(* ---- frame: what winvC depends on ---- *)
Lemma boxC_same : forall w w' m b, w_id w' = w_id w -> w_deposited w' = w_deposited w -> boxC w m b -> boxC w' m b.
Proof. intros w w' m b H1 H2 (C1&C2&C3&C4&C5&C6). unfold boxC, me. rewrite H1, H2.
  exact (conj C1 (conj C2 (conj C3 (conj C4 (conj C5 C6))))). Qed.

Lemma winvC_same : forall w w', w_id w' = w_id w -> w_deposited w' = w_deposited w -> w_boxes w' = w_boxes w ->
  w_log w' = w_log w -> winvC w -> winvC w'.
Proof. intros w w' H1 H2 H3 H4 [K1 K2 K3]. constructor.
  - rewrite H3. intros m b Hb. eapply boxC_same; eauto.
  - rewrite H4. auto.
  - intros m slot. unfold batch_cnt, fresh_cnt, me. rewrite H1, H2, H3, H4. apply K3. Qed.

Lemma addr_eqb_slot : forall d m s0 s1, addr_eqb (mkAddr d m s0) (mkAddr d m s1) = Nat.eqb s0 s1.
Proof. intros. unfold addr_eqb. simpl. rewrite (proj2 (dest_eqb_eq d d) eq_refl), Nat.eqb_refl. reflexivity. Qed.

(* deposit *)
Lemma deposit_C : forall w m b slot v b1 ok, boxC w m b -> nth_error (b_expect b) slot = Some v ->
  deposit b slot v = (b1, ok) ->
  ok = true /\ b_expect b1 = b_expect b /\ b_dest b1 = b_dest b /\ b_got b1 = b_got b ++ [slot] /\
  fresh_slots b1 = fresh_slots b ++ [slot] /\
  boxC (set_deposited w (w_deposited w ++ [mkAddr (me w) m slot])) m b1.
Proof.
  intros w m b slot v b1 ok (C1&C2&C3&C4&C5&C6) Hs H. unfold deposit in H.
  assert (Hlt : slot < length (b_expect b)) by (apply nth_error_Some; congruence).
  assert (Hfs : forall b', b_fresh b' = Some (match b_fresh b with None => [] | Some l => l end ++ [(slot, v)]) ->
            fresh_slots b' = fresh_slots b ++ [slot]).
  { intros b' E. unfold fresh_slots. rewrite E. destruct (b_fresh b); rewrite map_app; reflexivity. }
  assert (Hcnt : forall got', got' = b_got b ++ [slot] -> forall s0, cntn s0 got' <=
              cnt (mkAddr (me w) m s0) (w_deposited w ++ [mkAddr (me w) m slot])).
  { intros got' -> s0. rewrite cntn_app, cnt_app, cntn_single, cnt_single. specialize (C6 s0).
    rewrite addr_eqb_slot. lia. }
  destruct (b_single b) eqn:Es.
  - destruct C3 as [E1 E2]. assert (slot = 0) by lia. subst slot.
    injection H as <- <-. split; auto. split; auto. split; auto. split; auto. split; [apply Hfs; reflexivity|].
    unfold boxC. simpl.
    split; [rewrite app_length; simpl; lia|]. split; [auto|]. split; [auto|].
    split; [|split; [discriminate|apply Hcnt; reflexivity]].
    intros i H. apply in_app_or in H. destruct H as [H|[<-|[]]].
    + destruct (C4 i H) as (Hi & _). assert (i = 0) by lia. subst. split; [lia|]. exists v. reflexivity.
    + split; [lia|]. exists v. reflexivity.
  - rewrite <- C2 in Hlt. apply Nat.ltb_lt in Hlt. rewrite Hlt in H. apply Nat.ltb_lt in Hlt.
    injection H as <- <-. split; auto. split; auto. split; auto. split; auto. split; [apply Hfs; reflexivity|].
    unfold boxC. simpl.
    split; [rewrite app_length; simpl; lia|]. split; [rewrite set_nth_length; auto|]. split; [auto|].
    split; [|split; [discriminate|apply Hcnt; reflexivity]].
    intros i H. apply in_app_or in H. destruct H as [H|[<-|[]]].
    + destruct (C4 i H) as (Hi & v0 & Hv). split; auto. destruct (Nat.eq_dec slot i).
      * subst. exists v. apply nth_error_set_nth_eq. auto.
      * exists v0. rewrite nth_error_set_nth_neq; auto.
    + split; [lia|]. exists v. apply nth_error_set_nth_eq. auto.
Qed.

Lemma boxC_dep_mono : forall w w' m b l, w_id w' = w_id w -> w_deposited w' = w_deposited w ++ l -> boxC w m b -> boxC w' m b.
Proof. intros w w' m b l H1 H2 (C1&C2&C3&C4&C5&C6). unfold boxC, me. rewrite H1, H2.
  refine (conj C1 (conj C2 (conj C3 (conj C4 (conj C5 _))))). intro slot. rewrite cnt_app. specialize (C6 slot). unfold me in C6. lia. Qed.

Lemma fresh_cnt_set_other : forall w m m' b slot, m' <> m ->
  fresh_cnt (set_boxes w (box_set m b (w_boxes w))) m' slot = fresh_cnt w m' slot.
Proof. intros. unfold fresh_cnt. simpl. rewrite box_get_set_other by auto. reflexivity. Qed.
Lemma fresh_cnt_set_same : forall w m b slot,
  fresh_cnt (set_boxes w (box_set m b (w_boxes w))) m slot = cntn slot (fresh_slots b).
Proof. intros. unfold fresh_cnt. simpl. rewrite box_get_set_same. reflexivity. Qed.

(* replace mailbox m by a box with the same contents (only dest_addr may differ) *)
Lemma winvC_box_same_contents : forall w m b b0, winvC w -> box_get m (w_boxes w) = Some b0 ->
  boxC w m b -> fresh_slots b = fresh_slots b0 -> winvC (set_boxes w (box_set m b (w_boxes w))).
Proof. intros w m b b0 [K1 K2 K3] Hg Hb Hf. constructor; simpl; auto.
  - intros m' b' H. destruct (Nat.eq_dec m' m).
    + subst. rewrite box_get_set_same in H. injection H as <-. eapply boxC_same; [| |exact Hb]; reflexivity.
    + rewrite box_get_set_other in H by auto. eapply boxC_same; [| |apply K1; exact H]; reflexivity.
  - intros m' slot. specialize (K3 m' slot). unfold batch_cnt, me in *. simpl. destruct (Nat.eq_dec m' m).
    + subst. rewrite fresh_cnt_set_same. unfold fresh_cnt in K3. rewrite Hg in K3. rewrite Hf. exact K3.
    + rewrite fresh_cnt_set_other by auto. exact K3. Qed.

Lemma winvC_box_del : forall w m, NoDup (keys (w_boxes w)) -> winvC w -> winvC (set_boxes w (box_del m (w_boxes w))).
Proof. intros w m Hnd [K1 K2 K3]. constructor; simpl; auto.
  - intros m' b' H. destruct (Nat.eq_dec m' m).
    + subst. rewrite box_get_del_same in H by auto. discriminate.
    + rewrite box_get_del_other in H by auto. eapply boxC_same; [| |apply K1; exact H]; reflexivity.
  - intros m' slot. specialize (K3 m' slot). unfold batch_cnt, fresh_cnt, me in *. simpl. destruct (Nat.eq_dec m' m).
    + subst. rewrite box_get_del_same by auto. lia.
    + rewrite box_get_del_other by auto. exact K3. Qed.

Lemma handle_result_C_aux : forall w ab asl v w1 ok, winvC w -> lexp w (mkAddr (me w) ab asl) v ->
  handle_result w (mkAddr (me w) ab asl) v = (w1, ok) ->
  winvC w1 /\ (forall e, In e (w_errs w1) -> In e (w_errs w) \/ e = EKeyTask).
Proof.
  intros w ab asl v w1 ok I L H. unfold handle_result in H. cbn [a_w a_box a_slot] in H.
  rewrite (proj2 (dest_eqb_eq (me w) (me w)) eq_refl) in H. cbn [negb] in H.
  destruct (box_get ab (w_boxes w)) as [b|] eqn:Eb.
  2:{ injection H as <- <-. split; [eapply winvC_same; [| | | |exact I]; reflexivity|]. simpl. auto. }
  destruct (deposit b asl v) as [b1 ok1] eqn:Edep.
  destruct (deposit_C w ab b asl v b1 ok1 (C_box w I _ _ Eb) (L _ Eb) Edep) as (-> & D1 & D2 & D3 & D4 & D5).
  cbn [negb] in H.
  set (a := mkAddr (me w) ab asl) in *.
  set (w1' := set_deposited (set_boxes w (box_set ab b1 (w_boxes w))) (w_deposited w ++ [a])) in *.
  assert (I1 : winvC w1').
  { destruct I as [K1 K2 K3]. constructor.
    - subst w1'. simpl. intros m' b' Hb'. destruct (Nat.eq_dec m' ab).
      + subst m'. rewrite box_get_set_same in Hb'. injection Hb' as <-. eapply boxC_same; [| |exact D5]; reflexivity.
      + rewrite box_get_set_other in Hb' by auto. eapply (boxC_dep_mono w _ m' b' [a]); [| |apply K1; exact Hb']; reflexivity.
    - exact K2.
    - intros m' slot. specialize (K3 m' slot). unfold batch_cnt, fresh_cnt in *. subst w1' a. unfold me in *. simpl. rewrite cnt_app, cnt_single.
      destruct (Nat.eq_dec m' ab).
      + subst m'. rewrite box_get_set_same. rewrite Eb in K3. rewrite D4, cntn_app, cntn_single.
        rewrite addr_eqb_slot. lia.
      + rewrite box_get_set_other by auto. lia. }
  destruct (b_dest b1) as [d|] eqn:Ed; [|injection H as <- <-; split; [exact I1|auto]].
  destruct (task_get d (w_tasks w1')) as [t|] eqn:Et.
  2:{ injection H as <- <-. split; [eapply winvC_same; [| | | |exact I1]; reflexivity|].
      simpl. intros e He. apply in_app_or in He. destruct He as [He|[<-|[]]]; auto. }
  destruct (t_won t || b_ready b1); injection H as <- <-; [|split; [exact I1|auto]].
  split; [|auto].
  assert (Eb1 : box_get ab (w_boxes w1') = Some b1) by (subst w1'; simpl; apply box_get_set_same).
  pose proof (winvC_box_same_contents (put w1' d) ab (b_set_dest b1 None) b1) as Q.
  eapply winvC_same; [| | | |apply Q]; try reflexivity.
  - eapply winvC_same; [| | | |exact I1]; reflexivity.
  - exact Eb1.
  - pose proof (C_box w1' I1 _ _ Eb1) as B. eapply boxC_same; [| |exact B]; reflexivity.
Qed.

Lemma handle_result_C : forall w a v w1 ok, winvC w -> (a_w a = me w -> lexp w a v) ->
  handle_result w a v = (w1, ok) -> winvC w1 /\ (forall e, In e (w_errs w1) -> In e (w_errs w) \/ e = EAssertWid \/ e = EKeyTask).
Proof.
  intros w a v w1 ok I L0 H.
  destruct (dest_eqb (a_w a) (me w)) eqn:Eme.
  - apply dest_eqb_eq in Eme. destruct a as [aw ab asl]. simpl in Eme. subst aw.
    destruct (handle_result_C_aux w ab asl v w1 ok I (L0 eq_refl) H) as [Q1 Q2]. split; auto.
    intros e He. destruct (Q2 e He); auto.
  - unfold handle_result in H. rewrite Eme in H. cbn [negb] in H. injection H as <- <-.
    split; [eapply winvC_same; [| | | |exact I]; reflexivity|].
    simpl. intros e He. apply in_app_or in He. destruct He as [He|[<-|[]]]; auto.
Qed.

Lemma close_boxes_C : forall owned skip w w1 ok, winvC w -> NoDup (keys (w_boxes w)) -> close_boxes owned skip w = (w1, ok) ->
  winvC w1 /\ (forall e, In e (w_errs w1) -> In e (w_errs w) \/ e = EKeyBox).
Proof.
  induction owned as [|m r IH]; simpl; intros skip w w1 ok I Hnd H.
  - injection H as <- <-. auto.
  - destruct skip; [eapply IH; eauto|].
    destruct (box_get m (w_boxes w)) as [b|] eqn:Eb.
    2:{ injection H as <- <-. split; [eapply winvC_same; [| | | |exact I]; reflexivity|].
        simpl. intros e He. apply in_app_or in He. destruct He as [He|[<-|[]]]; auto. }
    destruct (b_ready b).
    + apply IH in H; auto. apply winvC_box_del; auto. simpl. apply keys_box_del_NoDup. auto.
    + apply IH in H; auto.
      * eapply winvC_same; [| | | |apply (winvC_box_del w m Hnd I)]; reflexivity.
      * simpl. apply keys_box_del_NoDup. auto.
Qed.

(* _get_desired_result: what it hands to the coroutine is accounted for *)
Definition sv_cnt (m0 : nat) (sv : sendval) (slot : nat) : nat :=
  match sv with SBatch m fr => if Nat.eqb m m0 then cntn slot (map fst fr) else 0 | _ => 0 end.

Lemma desired_result_C : forall w t w1 t1 sv, winvC w -> dep1 w -> NoDup (keys (w_boxes w)) ->
  desired_result w t = inl (w1, t1, sv) ->
  (forall m b, box_get m (w_boxes w1) = Some b -> boxC w1 m b) /\
  w_log w1 = w_log w /\ w_deposited w1 = w_deposited w /\ w_id w1 = w_id w /\ w_errs w1 = w_errs w /\
  (forall m slot, batch_cnt w m slot + fresh_cnt w1 m slot + sv_cnt m sv slot <= cnt (mkAddr (me w) m slot) (w_deposited w)) /\
  (forall m vs, sv = SFull m vs -> Forall (fun c => c <> None) vs /\
       exists b, box_get m (w_boxes w) = Some b /\ length vs = length (b_expect b)).
Proof.
  intros w t w1 t1 sv I D Hnd H. unfold desired_result in H.
  destruct (t_desired t) as [m|] eqn:Ed.
  { destruct (box_get m (w_boxes w)) as [b|] eqn:Eb; [|discriminate].
    destruct (t_won t).
    - destruct (b_fresh b) as [fr|] eqn:Ef; [|discriminate]. injection H as <- <- <-.
      pose proof (C_box w I _ _ Eb) as Bx.
      assert (Bx' : boxC w m (b_set_fresh b (Some []))).
      { destruct Bx as (C1&C2&C3&C4&C5&C6). unfold boxC. simpl.
        refine (conj C1 (conj C2 (conj C3 (conj C4 (conj _ C6))))). discriminate. }
      split; [|split; [reflexivity|split; [reflexivity|split; [reflexivity|split; [reflexivity|split]]]]].
      + simpl. intros m' b' Hb'. destruct (Nat.eq_dec m' m).
        * subst. rewrite box_get_set_same in Hb'. injection Hb' as <-. eapply boxC_same; [| |exact Bx']; reflexivity.
        * rewrite box_get_set_other in Hb' by auto. eapply boxC_same; [| |apply (C_box w I); exact Hb']; reflexivity.
      + intros m' slot. pose proof (C_next w I m' slot) as K. unfold fresh_cnt, sv_cnt in *. simpl.
        destruct (Nat.eq_dec m' m).
        * subst. rewrite box_get_set_same, Nat.eqb_refl. rewrite Eb in K. unfold fresh_slots in *. simpl. rewrite Ef in K.
          lia.
        * rewrite box_get_set_other by auto. destruct (Nat.eqb_spec m m'); [congruence|]. lia.
      + intros; discriminate.
    - destruct (b_ready b) eqn:Er; cbn [negb] in H; [|discriminate].
      destruct (remove_first m (t_owned t)) as [ow|]; [|discriminate]. injection H as <- <- <-.
      pose proof (C_box w I _ _ Eb) as Bx.
      split; [|split; [reflexivity|split; [reflexivity|split; [reflexivity|split; [reflexivity|split]]]]].
      + apply (C_box _ (winvC_box_del w m Hnd I)).
      + intros m' slot. pose proof (C_next _ (winvC_box_del w m Hnd I) m' slot) as K. unfold sv_cnt. unfold batch_cnt, me in *. simpl in *. lia.
      + intros m' vs E. injection E as <- <-. destruct (ready_full w m b D Bx Er) as [F _]. split; auto.
        exists b. split; auto. destruct Bx as (_&C2&_). exact C2. }
  injection H as <- <- <-.
  split; [apply (C_box w I)|]. split; [reflexivity|]. split; [reflexivity|]. split; [reflexivity|]. split; [reflexivity|]. split.
  - intros m slot. pose proof (C_next w I m slot). unfold sv_cnt. lia.
  - intros; discriminate.
Qed.

(* the state between _get_desired_result and the moment the body stores the value *)
Definition pendC (w0 w1 : wstate) (sv : sendval) : Prop :=
  (forall m b, box_get m (w_boxes w1) = Some b -> boxC w1 m b) /\
  w_log w1 = w_log w0 /\ w_deposited w1 = w_deposited w0 /\ w_id w1 = w_id w0 /\
  Forall log_fullC (w_log w0) /\
  (forall m slot, batch_cnt w0 m slot + fresh_cnt w1 m slot + sv_cnt m sv slot <= cnt (mkAddr (me w0) m slot) (w_deposited w0)).

Lemma pendC_drop : forall w0 w1 sv, pendC w0 w1 sv -> winvC w1.
Proof. intros w0 w1 sv (P1&P2&P3&P4&P5&P6). constructor; auto.
  - rewrite P2. auto.
  - intros m slot. specialize (P6 m slot). unfold batch_cnt, me in *. rewrite P2, P3, P4. lia. Qed.

Lemma batches_app : forall m l1 l2, batches m (l1 ++ l2) = batches m l1 ++ batches m l2.
Proof. intros. unfold batches. apply flat_map_app. Qed.

Lemma pendC_log : forall w0 w1 sv e, pendC w0 w1 sv -> log_fullC e ->
  (forall m slot, cntn slot (map fst (entry_batch m e)) <= sv_cnt m sv slot) ->
  winvC (set_log w1 (w_log w1 ++ [e])).
Proof. intros w0 w1 sv e (P1&P2&P3&P4&P5&P6) He Hb. constructor; simpl.
  - intros m b Hg. eapply boxC_same; [| |apply P1; exact Hg]; reflexivity.
  - apply Forall_app. split; [rewrite P2; auto|constructor; auto].
  - intros m slot. specialize (P6 m slot). specialize (Hb m slot). unfold batch_cnt, fresh_cnt, me in *. simpl.
    rewrite P2, batches_app, map_app, cntn_app, P3, P4. simpl. rewrite app_nil_r. lia. Qed.

Lemma spec_box_C : forall w m sp, boxC w m (spec_box sp).
Proof. intros. destruct sp; unfold boxC; simpl.
  - repeat split; auto; try lia; intros; try contradiction; unfold cntn; simpl; lia.
  - rewrite repeat_length, map_length. repeat split; auto; try lia; intros; try contradiction; unfold cntn; simpl; lia. Qed.

Lemma apply_eff_C : forall w comp es, winvC w -> (forall m, In m (keys (w_boxes w)) -> m < w_counter w) ->
  winvC (apply_eff w comp es).
Proof.
  intros w comp es [K1 K2 K3] Hlt. constructor.
  - simpl. intros m b Hb. rewrite box_get_app in Hb. destruct (box_get m (w_boxes w)) eqn:E0.
    + injection Hb as <-. eapply boxC_same; [| |apply K1; exact E0]; reflexivity.
    + apply box_get_eff_boxes in Hb. destruct Hb as (_ & sp & _ & ->). apply spec_box_C.
  - exact K2.
  - intros m slot. specialize (K3 m slot). unfold batch_cnt, fresh_cnt, me in *. simpl. rewrite box_get_app.
    destruct (box_get m (w_boxes w)) eqn:E0; [exact K3|].
    destruct (box_get m (eff_boxes (w_counter w) es)) eqn:E1; [|exact K3].
    apply box_get_eff_boxes in E1. destruct E1 as (_ & sp & _ & ->).
    assert (fresh_slots (spec_box sp) = []) by (destruct sp; reflexivity). rewrite H. exact K3.
Qed.

Lemma resume_C : forall w0 w1 t2 sv w2 t3 y, pendC w0 w1 sv ->
  (forall m, In m (keys (w_boxes w1)) -> m < w_counter w1) ->
  (forall m vs f, sv = SFull m vs -> t_pend t2 = PendAwait f ->
     Forall (fun c => c <> None) vs /\ exists sp, nth_error (specs_of (t_script t2)) f = Some sp /\ length vs = length (kids sp)) ->
  resume w1 t2 sv = (w2, t3, y) -> winvC w2 /\ w_errs w2 = w_errs w1.
Proof.
  intros w0 w1 t2 sv w2 t3 y P Hlt Hfull H. unfold resume in H.
  assert (Hrun : forall wL tL, winvC wL -> w_boxes wL = w_boxes w1 -> w_counter wL = w_counter w1 -> w_errs wL = w_errs w1 ->
            run (t_rest t2) wL tL = (w2, t3, y) -> winvC w2 /\ w_errs w2 = w_errs w1).
  { intros wL tL IL Hb Hc He Hr. apply run_exact in Hr. destruct Hr as (es & _ & _ & _ & _ & Hw & _). rewrite Hw.
    split; [apply apply_eff_C; auto; rewrite Hb, Hc; auto|simpl; auto]. }
  assert (Hraise : raised w1 t2 = (w2, t3, y) -> winvC w2 /\ w_errs w2 = w_errs w1).
  { unfold raised. intro E. injection E as <- <- <-. split; [eapply pendC_drop; eauto|reflexivity]. }
  assert (Hlog : forall e tL, log_fullC e -> (forall m slot, cntn slot (map fst (entry_batch m e)) <= sv_cnt m sv slot) ->
            run (t_rest t2) (set_log w1 (w_log w1 ++ [e])) tL = (w2, t3, y) -> winvC w2 /\ w_errs w2 = w_errs w1).
  { intros e tL He Hb Hr. eapply (Hrun _ tL); [eapply pendC_log; eauto| | | |exact Hr]; reflexivity. }
  destruct (t_pend t2) eqn:Ep; destruct sv as [|m vs|m fr]; try (apply Hraise; exact H).
  - eapply (Hrun w1 t2); [eapply pendC_drop; eauto| | | |exact H]; reflexivity.
  - eapply (Hrun w1 t2); [eapply pendC_drop; eauto| | | |exact H]; reflexivity.
  - eapply (Hrun w1 t2); [eapply pendC_drop; eauto| | | |exact H]; reflexivity.
  - eapply Hlog; [| |exact H]; simpl; auto; intros; unfold cntn; simpl; lia.
  - eapply Hlog; [| |exact H].
    + simpl. apply (Hfull m vs f); auto.
    + intros; simpl; unfold cntn; simpl; lia.
  - eapply Hlog; [| |exact H]; simpl; auto; intros; unfold cntn; simpl; lia.
  - eapply Hlog; [| |exact H]; simpl; auto; intros m' slot;
    destruct (Nat.eqb m m'); simpl; try lia; unfold cntn; simpl; lia.
  - eapply Hlog; [| |exact H]; simpl; auto; intros m' slot;
    destruct (Nat.eqb m m'); simpl; try lia; unfold cntn; simpl; lia.
Qed.

Lemma task_fut_spec : forall w t m b f, task_okV w t -> t_desired t = Some m -> box_get m (w_boxes w) = Some b ->
  pend_fut (t_pend t) = Some f ->
  exists sp, nth_error (specs_of (t_script t)) f = Some sp /\ b_expect b = map ret_of (kids sp).
Proof.
  intros w t m b f (T2 & done & F & T3) Hd Hb Hp. destruct (T2 m Hd) as (f' & n & Hp' & Hf). rewrite Hp in Hp'. injection Hp' as <-.
  destruct (Forall2_nth_l _ _ _ _ _ _ _ F Hf) as (sp & Hsp & (_ & _ & Hexp)). simpl in Hexp.
  exists sp. split; [|auto].
  assert (E : exists tail, t_script t = done ++ tail) by (destruct T3 as [[E _]|(_ & E)]; eauto).
  destruct E as (tail & ->). rewrite specs_of_app, nth_error_app1; auto. apply nth_error_Some. congruence.
Qed.

Lemma complete_C : forall w t v w1 ok, winvV w -> winvC w -> plain_pc (w_pc w) ->
  (a_w (t_addr t) = me w -> lexp w (t_addr t) v) ->
  complete w t v = (w1, ok) -> winvC w1.
Proof.
  intros w t v w1 ok IV I Hp Hown H. unfold complete in H.
  destruct (dest_eqb (a_w (t_addr t)) (me w)) eqn:Eme.
  - destruct (handle_result w (t_addr t) v) as [w' ok'] eqn:Eh.
    destruct (handle_result_V _ _ _ _ _ IV Hown Eh) as (IV' & _).
    destruct (handle_result_C _ _ _ _ _ I Hown Eh) as (I' & _).
    destruct ok'; cbn [negb] in H.
    + destruct (close_boxes (t_owned t) false _) as [w3 ok3] eqn:Ec in H. injection H as <- <-.
      eapply (close_boxes_C _ _ _ _ _ _ _ Ec).
    + injection H as <- <-. eapply winvC_same; [| | | |exact I']; reflexivity.
  - cbn [negb] in H. destruct (close_boxes (t_owned t) false _) as [w3 ok3] eqn:Ec in H. injection H as <- <-.
    eapply (close_boxes_C _ _ _ _ _ _ _ Ec).
  Unshelve.
  + eapply winvC_same; [| | | |exact I']; reflexivity.
  + simpl. apply (V_keys w' IV').
  + eapply winvC_same; [| | | |exact I]; reflexivity.
  + simpl. apply (V_keys w IV).
Qed.

Lemma aw_C : forall w a m nxt, winvC w -> winvC (aw1 w a m) /\ winvC (aw1c w a nxt) /\ winvC (aw2 w a m).
Proof.
  intros w a m nxt I. split; [|split].
  - unfold aw1. destruct (box_get m (w_boxes w)) as [b|] eqn:Eb.
    + assert (I1 : winvC (set_boxes w (box_set m (b_set_dest b (Some a)) (w_boxes w)))).
      { apply (winvC_box_same_contents w m (b_set_dest b (Some a)) b I Eb); [|reflexivity].
        pose proof (C_box w I _ _ Eb) as B. exact B. }
      destruct (task_get a _); [eapply winvC_same; [| | | |exact I1]; reflexivity|exact I1].
    + destruct (task_get a _); [eapply winvC_same; [| | | |exact I]; reflexivity|exact I].
  - unfold aw1c. destruct (task_get a _); [eapply winvC_same; [| | | |exact I]; reflexivity|exact I].
  - unfold aw2. destruct (box_get m (w_boxes w)) as [b|]; [destruct (b_ready b)|]; auto.
    eapply winvC_same; [| | | |exact I]; reflexivity.
Qed.
