(* C13 - model of ServerBase.send_outgoing (bqskit/runtime/base.py): the node's only sender
   thread, one queued message per step.

     outgoing = self.outgoing.get()
     if outgoing[0].closed: continue                      (* [guard] *)
     try: outgoing[0].send(...)
     except (EOFError, ConnectionResetError): self.handle_disconnect(outgoing[0]); continue

   Connection.send on a connection this process has closed raises OSError('handle is closed'),
   which is not caught: the thread dies and nothing queued afterwards is ever sent.
   A connection is open, closed locally (by a handler of this node), or its peer is gone.
   [guard = true] is the code as it is; [guard = false] is the loop without the test. *)
From Coq Require Import List Arith Bool.
Import ListNotations.

Inductive cst3 := COpen | CLocal | CPeerGone.

Record sender := mkSender {
  alive : bool;                      (* the thread is still in its loop *)
  conn : nat -> cst3;
  sent : list (nat * nat);           (* (connection, message) actually written, in order *)
  dropped : list nat                 (* connections handed to handle_disconnect by the sender *)
}.

Definition upd3 (f : nat -> cst3) (k : nat) (v : cst3) : nat -> cst3 := fun x => if x =? k then v else f x.

Definition send_step (guard : bool) (sd : sender) (m : nat * nat) : sender :=
  if negb (alive sd) then sd                               (* nobody reads the queue any more *)
  else
    match conn sd (fst m) with
    | CLocal => if guard then sd                           (* skipped *)
                else mkSender false (conn sd) (sent sd) (dropped sd)   (* OSError escapes: thread dies *)
    | CPeerGone => mkSender true (upd3 (conn sd) (fst m) CLocal) (sent sd) (dropped sd ++ [fst m])
    | COpen => mkSender true (conn sd) (sent sd ++ [m]) (dropped sd)
    end.

Definition send_all (guard : bool) (sd : sender) (q : list (nat * nat)) : sender :=
  fold_left (send_step guard) q sd.

Definition is_open (x : cst3) : bool := match x with COpen => true | _ => false end.

(* ------------------------------------------------------------------ theorems *)
Lemma send_all_app : forall g q1 q2 sd, send_all g sd (q1 ++ q2) = send_all g (send_all g sd q1) q2.
Proof. intros. unfold send_all. apply fold_left_app. Qed.

(* with the test, the sender survives every queue *)
Theorem sender_never_stops : forall q sd, alive sd = true -> alive (send_all true sd q) = true.
Proof.
  induction q as [|m q IH]; intros sd A; simpl; auto. apply IH.
  unfold send_step. rewrite A. simpl. destruct (conn sd (fst m)); auto.
Qed.

(* a connection that is open stays open (only peer-gone connections change state) *)
Lemma open_stays : forall g q sd c, conn sd c = COpen -> conn (send_all g sd q) c = COpen.
Proof.
  induction q as [|m q IH]; intros sd c O; simpl; auto. apply IH.
  unfold send_step. destruct (negb (alive sd)); auto.
  destruct (conn sd (fst m)) eqn:E.
  - simpl; auto.
  - destruct g; simpl; auto.
  - simpl. unfold upd3. destruct (c =? fst m) eqn:Q; auto. apply Nat.eqb_eq in Q. congruence.
Qed.

Lemma not_open_stays : forall g q sd c, conn sd c <> COpen -> conn (send_all g sd q) c <> COpen.
Proof.
  induction q as [|m q IH]; intros sd c O; simpl; auto. apply IH.
  unfold send_step. destruct (negb (alive sd)); auto.
  destruct (conn sd (fst m)) eqn:E.
  - simpl; auto.
  - destruct g; simpl; auto.
  - simpl. unfold upd3. destruct (c =? fst m); auto. discriminate.
Qed.

(* what is written: exactly the queued messages for connections that are open, in queue order *)
Theorem sent_is_filter : forall q sd, alive sd = true ->
  sent (send_all true sd q) = sent sd ++ filter (fun m => is_open (conn sd (fst m))) q.
Proof.
  induction q as [|m q IH]; intros sd A.
  - simpl. rewrite app_nil_r. reflexivity.
  - assert (A' : alive (send_step true sd m) = true) by (apply (sender_never_stops [m]); auto).
    change (send_all true sd (m :: q)) with (send_all true (send_step true sd m) q).
    rewrite (IH _ A'). simpl. unfold send_step. rewrite A. simpl.
    destruct (conn sd (fst m)) eqn:E; simpl.
    + rewrite <- app_assoc. reflexivity.
    + reflexivity.
    + f_equal. apply filter_ext_in. intros x _.
      unfold upd3. destruct (fst x =? fst m) eqn:Q; auto. apply Nat.eqb_eq in Q. rewrite Q, E. reflexivity.
Qed.

(* a queued message for a closed connection is skipped: it changes nothing and never stops the sender *)
Theorem closed_is_skipped : forall sd m, alive sd = true -> conn sd (fst m) = CLocal ->
  send_step true sd m = sd.
Proof. intros. unfold send_step. rewrite H, H0. reflexivity. Qed.

Theorem nothing_sent_to_closed : forall q sd c, alive sd = true -> conn sd c <> COpen ->
  forall m, In m (sent (send_all true sd q)) -> fst m = c -> In m (sent sd).
Proof.
  intros q sd c A N m I E. rewrite sent_is_filter in I; auto. apply in_app_iff in I.
  destruct I as [I|I]; auto. apply filter_In in I. destruct I as [_ I]. rewrite E in I.
  destruct (conn sd c); simpl in I; congruence.
Qed.

(* every message for an open connection is eventually written, whatever else is in the queue *)
Theorem open_messages_sent : forall q sd m, alive sd = true -> In m q -> conn sd (fst m) = COpen ->
  In m (sent (send_all true sd q)).
Proof.
  intros. rewrite sent_is_filter; auto. apply in_app_iff. right. apply filter_In. split; auto.
  rewrite H1. reflexivity.
Qed.

(* without the test: one message for a locally closed connection, and a later message for an open
   connection is never written *)
Theorem sender_without_guard_refuted :
  exists sd q m, alive sd = true /\ In m q /\ conn sd (fst m) = COpen
    /\ alive (send_all false sd q) = false /\ ~ In m (sent (send_all false sd q)).
Proof.
  exists (mkSender true (fun c => if c =? 0 then CLocal else COpen) [] []), [(0, 4); (1, 9)], (1, 9).
  simpl. repeat split; auto.
Qed.
