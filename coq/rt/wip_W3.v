From Coq Require Import List Arith Bool PeanoNat Lia Permutation.
Import ListNotations.
From BQ Require Import rt.WorkerM rt.wip_W1 rt.wip_W2.

(* ---------- where tasks are ---------- *)
Definition msg_tasks (m : msg) : list task :=
  match m with MSubmit t => [t] | MSubmitBatch ts => ts | _ => [] end.
Definition chan_tasks (q : list msg) : list task := flat_map msg_tasks q.
Definition w_held (w : wstate) : list task := chan_tasks (w_out w) ++ w_delayed w ++ w_tasks w.
Definition tcnt (a : addr) (l : list task) : nat := cnt a (map t_addr l).

Lemma tcnt_app : forall a l1 l2, tcnt a (l1 ++ l2) = tcnt a l1 + tcnt a l2.
Proof. intros. unfold tcnt. rewrite map_app, cnt_app. reflexivity. Qed.
Lemma tcnt_cons : forall a t l, tcnt a (t :: l) = (if addr_eqb a (t_addr t) then 1 else 0) + tcnt a l.
Proof. intros. unfold tcnt. simpl. apply cnt_cons. Qed.
Lemma tcnt_nil : forall a, tcnt a [] = 0. Proof. reflexivity. Qed.
Lemma chan_tasks_app : forall q1 q2, chan_tasks (q1 ++ q2) = chan_tasks q1 ++ chan_tasks q2.
Proof. intros. unfold chan_tasks. apply flat_map_app. Qed.
Lemma chan_tasks_cons : forall m q, chan_tasks (m :: q) = msg_tasks m ++ chan_tasks q.
Proof. reflexivity. Qed.

(* dict operations on _tasks *)
Lemma task_get_Some : forall a ts t, task_get a ts = Some t -> t_addr t = a /\ In t ts.
Proof. induction ts as [|t0 r IH]; simpl; intros; [discriminate|].
  destruct (addr_eqb (t_addr t0) a) eqn:E.
  - injection H as <-. apply addr_eqb_eq in E. auto.
  - apply IH in H. tauto. Qed.
Lemma task_get_None_tcnt : forall a ts, task_get a ts = None <-> tcnt a ts = 0.
Proof. induction ts as [|t0 r IH]; simpl; [tauto|]. rewrite tcnt_cons, (addr_eqb_sym a).
  destruct (addr_eqb (t_addr t0) a); [split; [discriminate|lia] | simpl; exact IH]. Qed.
Lemma task_get_Some_tcnt : forall a ts t, task_get a ts = Some t -> tcnt a ts >= 1.
Proof. intros. destruct (tcnt a ts) eqn:E; [|lia]. apply task_get_None_tcnt in E. congruence. Qed.
Lemma task_set_absent : forall t ts, task_get (t_addr t) ts = None -> task_set t ts = ts ++ [t].
Proof. induction ts as [|t0 r IH]; simpl; intros; auto.
  destruct (addr_eqb (t_addr t0) (t_addr t)); [discriminate|]. rewrite IH; auto. Qed.
Lemma task_set_present_addrs : forall t ts t0, task_get (t_addr t) ts = Some t0 ->
  map t_addr (task_set t ts) = map t_addr ts.
Proof. induction ts as [|t1 r IH]; simpl; intros; [discriminate|].
  destruct (addr_eqb (t_addr t1) (t_addr t)) eqn:E.
  - simpl. apply addr_eqb_eq in E. congruence.
  - simpl. f_equal. eapply IH; eauto. Qed.
Lemma tcnt_task_set_present : forall x t ts t0, task_get (t_addr t) ts = Some t0 -> tcnt x (task_set t ts) = tcnt x ts.
Proof. intros. unfold tcnt. erewrite task_set_present_addrs; eauto. Qed.
Lemma tcnt_task_del : forall x a ts t, task_get a ts = Some t ->
  tcnt x (task_del a ts) + (if addr_eqb x a then 1 else 0) = tcnt x ts.
Proof. induction ts as [|t0 r IH]; simpl; intros; [discriminate|].
  rewrite tcnt_cons. destruct (addr_eqb (t_addr t0) a) eqn:E.
  - apply addr_eqb_eq in E. subst. lia.
  - rewrite tcnt_cons. specialize (IH _ H). lia. Qed.
Lemma task_get_task_set_same : forall t ts, task_get (t_addr t) (task_set t ts) = Some t.
Proof. induction ts as [|t0 r IH]; simpl.
  - rewrite addr_eqb_refl. reflexivity.
  - destruct (addr_eqb (t_addr t0) (t_addr t)) eqn:E; simpl.
    + rewrite addr_eqb_refl. reflexivity.
    + rewrite E. exact IH. Qed.
Lemma task_get_task_set_other : forall a t ts, t_addr t <> a -> task_get a (task_set t ts) = task_get a ts.
Proof. induction ts as [|t0 r IH]; simpl; intros.
  - apply addr_eqb_neq in H. rewrite H. reflexivity.
  - destruct (addr_eqb (t_addr t0) (t_addr t)) eqn:E; simpl.
    + apply addr_eqb_eq in E. rewrite E. apply addr_eqb_neq in H. rewrite H. reflexivity.
    + destruct (addr_eqb (t_addr t0) a); auto. Qed.

Lemma last_opt_removelast : forall A (l : list A) x, last_opt l = Some x -> l = removelast l ++ [x].
Proof. induction l as [|y r IH]; intros; [discriminate|]. destruct r as [|z r].
  - simpl in H. injection H as ->. reflexivity.
  - change (last_opt (y :: z :: r)) with (last_opt (z :: r)) in H.
    change (removelast (y :: z :: r)) with (y :: removelast (z :: r)). simpl. f_equal. apply IH. exact H. Qed.
Lemma last_opt_None : forall A (l : list A), last_opt l = None -> l = [].
Proof. induction l as [|y r IH]; simpl; intros; auto. destruct r; [discriminate|]. apply IH in H. discriminate. Qed.

(* children of a map *)
Lemma dest_eqb_sym' : forall x y, dest_eqb x y = dest_eqb y x.
Proof. destruct x, y; simpl; auto. apply Nat.eqb_sym. Qed.
Lemma mk_children_addrs : forall w m comp cs i x,
  cnt x (map t_addr (mk_children w m comp i cs)) =
  if dest_eqb (a_w x) w && Nat.eqb (a_box x) m && Nat.leb i (a_slot x) && Nat.ltb (a_slot x) (i + length cs) then 1 else 0.
Proof. induction cs as [|c r IH]; intros; simpl.
  - destruct (dest_eqb (a_w x) w && Nat.eqb (a_box x) m && Nat.leb i (a_slot x)) eqn:E; simpl; auto.
    destruct (Nat.ltb (a_slot x) (i + 0)) eqn:E2; auto. apply Nat.ltb_lt in E2.
    rewrite !andb_true_iff in E. destruct E as [_ E]. apply Nat.leb_le in E. lia.
  - rewrite cnt_cons, IH. unfold addr_eqb, new_task. cbn [t_addr a_w a_box a_slot].
    rewrite (dest_eqb_sym' (a_w x) w).
    destruct (dest_eqb w (a_w x)); cbn [andb]; auto. destruct (Nat.eqb (a_box x) m); cbn [andb]; auto.
    destruct (a_slot x =? i) eqn:E1, (S i <=? a_slot x) eqn:E2, (i <=? a_slot x) eqn:E3,
      (a_slot x <? S i + length r) eqn:E4, (a_slot x <? i + S (length r)) eqn:E5; cbn [andb]; try reflexivity;
      exfalso; b2p; lia. Qed.

Lemma mk_children_In : forall w m comp cs i t, In t (mk_children w m comp i cs) ->
  a_w (t_addr t) = w /\ a_box (t_addr t) = m /\ t_comp t = comp /\
  exists j c, nth_error cs j = Some c /\ t = new_task (mkAddr w m (i + j)) comp c.
Proof. induction cs as [|c r IH]; simpl; intros; [tauto|]. destruct H.
  - subst. simpl. repeat split; auto. exists 0, c. rewrite Nat.add_0_r. auto.
  - apply IH in H. destruct H as (H1 & H2 & H3 & j & c' & H4 & H5). repeat split; auto.
    exists (S j), c'. rewrite Nat.add_succ_r. auto. Qed.

Lemma eff_tasks_In : forall me comp es c t, In t (eff_tasks me comp c es) ->
  a_w (t_addr t) = me /\ c <= a_box (t_addr t) < c + length es /\ t_comp t = comp.
Proof. induction es as [|sp r IH]; simpl; intros; [tauto|]. apply in_app_or in H. destruct H.
  - apply mk_children_In in H. destruct H as (H1 & H2 & H3 & _). repeat split; auto; lia.
  - apply IH in H. destruct H as (H1 & H2 & H3). repeat split; auto; lia. Qed.

Lemma eff_tasks_cnt_le1 : forall me comp es c x, tcnt x (eff_tasks me comp c es) <= 1.
Proof. induction es as [|sp r IH]; simpl; intros; [rewrite tcnt_nil; lia|].
  rewrite tcnt_app. unfold tcnt at 1. rewrite mk_children_addrs.
  destruct (dest_eqb (a_w x) me && Nat.eqb (a_box x) c && Nat.leb 0 (a_slot x) && Nat.ltb (a_slot x) (0 + length (kids sp))) eqn:E.
  - assert (tcnt x (eff_tasks me comp (S c) r) = 0); [|lia].
    unfold tcnt. apply cnt_zero_notin. intro Hin. apply in_map_iff in Hin. destruct Hin as (t & Ht & Hin).
    apply eff_tasks_In in Hin. rewrite !andb_true_iff in E. destruct E as [[[_ E] _] _]. apply Nat.eqb_eq in E. subst x. lia.
  - specialize (IH (S c) x). lia. Qed.

Lemma chan_tasks_eff_msgs : forall me comp es c, chan_tasks (eff_msgs me comp c es) = eff_tasks me comp c es.
Proof. induction es as [|sp r IH]; intros; [reflexivity|]. cbn [eff_msgs eff_tasks]. rewrite chan_tasks_cons, IH. destruct sp; reflexivity. Qed.
