(* C14 - concrete runs of the crash model: the refutation witness for nested managers
   and the non-vacuity examples used by props/C14.v (all closed by computation). *)
From Coq Require Import List Arith Bool PeanoNat Lia.
Import ListNotations.
From BQ Require Import rt.Crash rt.CrashThm.

(* ---- nested managers: server 0 - manager 1 - manager 2 - worker 3, client 4 ------------------ *)
Definition nested_T : list (kind * nat) :=
  [(KServer, 0); (KManager, 0); (KManager, 1); (KWorker, 2); (KClient, 0)].
Definition nested_pre : list event :=
  [ECall 4 (RSubmit 7) 0; ERecv true 4 0; EEmit false 1 8; ERecv false 1 0; EEmit false 2 8;
   ECall 4 (RResult 7) 0; ERecv true 4 0].
(* server reads EOF of manager 1 and shuts down; manager 2 reads the queued message, then EOF from
   above (only closes that connection); the client reads EOF and raises *)
Definition nested_post : list event :=
  [ERecv true 1 0; ERecv false 2 0; ERecv false 2 0; ERecv false 4 1].

Definition crash_propagates_full : Prop := forall T attached out, wf_topo T = true -> forall s n s1 es s2,
  reach T attached out s -> step T attached out s (ECrash n) = Some s1 ->
  run T attached out s1 es = Some s2 -> quiescent T attached s2 = true -> all_down T s2 = true.

Lemma nested_run : exists s s1 s2,
  run nested_T false S (init nested_T 10) nested_pre = Some s /\
  step nested_T false S s (ECrash 1) = Some s1 /\
  run nested_T false S s1 nested_post = Some s2 /\
  quiescent nested_T false s2 = true /\ all_down nested_T s2 = false /\
  alive s2 2 = true /\ alive s2 3 = true /\ cend s2 2 = false /\
  outcomes s2 4 = [ORaised; OSubmitted 7].
Proof.
  destruct (run nested_T false S (init nested_T 10) nested_pre) as [s|] eqn:E1; [|vm_compute in E1; discriminate].
  destruct (step nested_T false S s (ECrash 1)) as [s1|] eqn:E2;
    [|generalize E2; revert E1; vm_compute; intros E1; inversion E1; subst; vm_compute; discriminate].
  destruct (run nested_T false S s1 nested_post) as [s2|] eqn:E3;
    [|generalize E3; generalize E2; revert E1; vm_compute; intros E1; inversion E1; subst; vm_compute;
      intros E2'; inversion E2'; subst; vm_compute; discriminate].
  exists s, s1, s2. repeat split; auto;
  revert E3; revert E2; revert E1; vm_compute; intros E1; inversion E1; subst; vm_compute;
  intros E2; inversion E2; subst; vm_compute; intros E3; inversion E3; subst; reflexivity.
Qed.

Lemma reach_of_run : forall T a o b es s, forallb (good_event T) es = true ->
  run T a o (init T b) es = Some s -> reach T a o s.
Proof. intros. eapply reach_run; eauto. apply reach_init. Qed.

Lemma nested_refutes : ~ crash_propagates_full.
Proof. intros F. destruct nested_run as [s [s1 [s2 [A [B [C [Q [D _]]]]]]]].
  assert (R : reach nested_T false S s) by (eapply reach_of_run; eauto; reflexivity).
  rewrite (F nested_T false S eq_refl s 1 s1 nested_post s2 R B C Q) in D. discriminate.
Qed.

(* ---- flat detached topology: server 0; manager 1 with workers 2,3; manager 4 with worker 5; clients 6,7 -- *)
Definition ex_T : list (kind * nat) :=
  [(KServer, 0); (KManager, 0); (KWorker, 1); (KWorker, 1); (KManager, 0); (KWorker, 4); (KClient, 0); (KClient, 0)].
Definition ex_pre : list event :=
  [ECall 6 (RSubmit 7) 0; ERecv true 6 0; EEmit false 1 8; ECall 7 (RSubmit 9) 0; ERecv true 7 0;
   ECall 6 (RResult 7) 0; ERecv true 6 0; ERecv false 1 0; EEmit false 2 8; EEmit true 3 12].
Definition ex_post : list event :=
  [ERecv true 2 0; ERecv true 1 0; ERecv false 3 0; ERecv false 4 0; ERecv false 5 0;
   ERecv false 6 1; ECall 7 (RResult 9) 1].
Definition ex_ok : list event :=
  [ECall 6 (RSubmit 7) 0; ERecv true 6 0; EEmit false 1 8; ERecv false 1 0; EEmit false 2 8; ERecv false 2 0;
   ECall 6 (RResult 7) 0; ERecv true 6 0; EFinish 2 0; ERecv true 2 0; ERecv true 1 0; ERecv false 6 1].

Lemma ex_crash :
  wf_topo ex_T = true /\ good_crash ex_T 2 = true /\
  exists s s1 s2, run ex_T false S (init ex_T 10) ex_pre = Some s /\ reach ex_T false S s /\
    step ex_T false S s (ECrash 2) = Some s1 /\ run ex_T false S s1 ex_post = Some s2 /\
    forallb (good_event ex_T) ex_post = true /\
    quiescent ex_T false s2 = true /\ all_down ex_T s2 = true /\
    blocked s 6 = Some (RResult 7) /\ outcomes s2 6 = [ORaised; OSubmitted 7] /\
    outcomes s2 7 = [ORaised; OSubmitted 9] /\ count_recv ex_post = 6 /\ variant ex_T s1 = 143.
Proof. split. reflexivity. split. reflexivity.
  destruct (run ex_T false S (init ex_T 10) ex_pre) as [s|] eqn:E1; [|vm_compute in E1; discriminate].
  assert (R : reach ex_T false S s) by (eapply reach_of_run; eauto; reflexivity).
  destruct (step ex_T false S s (ECrash 2)) as [s1|] eqn:E2;
    [|generalize E2; revert E1; vm_compute; intros E1; inversion E1; subst; vm_compute; discriminate].
  destruct (run ex_T false S s1 ex_post) as [s2|] eqn:E3;
    [|generalize E3; generalize E2; revert E1; vm_compute; intros E1; inversion E1; subst; vm_compute;
      intros E2'; inversion E2'; subst; vm_compute; discriminate].
  exists s, s1, s2. repeat split; auto; clear R;
  revert E3; revert E2; revert E1; vm_compute; intros E1; inversion E1; subst; vm_compute;
  intros E2; inversion E2; subst; vm_compute; intros E3; inversion E3; subst; reflexivity.
Qed.

Lemma ex_result :
  exists s, reach ex_T false S s /\ outcomes s 6 = [OResult 7 1; OSubmitted 7] /\
            owns s = [(6, 7, 0)] /\ fin s = [0].
Proof.
  destruct (run ex_T false S (init ex_T 10) ex_ok) as [s|] eqn:E1; [|vm_compute in E1; discriminate].
  exists s. split. eapply reach_of_run; eauto; reflexivity.
  repeat split; revert E1; vm_compute; intros E1; inversion E1; subst; reflexivity.
Qed.
