(* C14 - concrete runs of the crash model: the refutation witness for nested managers
   and the non-vacuity examples used by props/C14.v (all closed by computation). *)
From Coq Require Import List Arith Bool PeanoNat Lia.
Import ListNotations.
From BQ Require Import rt.Crash rt.CrashThm.

(* ---- nested managers: server 0 - manager 1 - manager 2 - worker 3, client 4 ------------------ *)
Definition nested_T : list (kind * nat) :=
  [(KServer, 0); (KManager, 0); (KManager, 1); (KWorker, 2); (KClient, 0)].
Definition nested_pre : list event :=
  [ECall 4 (RSubmit 7) 0; ERecv true 4 0; EEmit false 1 8; ERecv false 1 0; EEmit false 2 8;
   ECall 4 (RResult 7) 0; ERecv true 4 0].
(* server reads EOF of manager 1 and shuts down; manager 2 reads the queued message, then EOF from
   above: it has lost its boss and shuts down (before repo commit ddab951 it only closed that connection
   and survived with its worker: this run was the refutation witness); worker 3 reads SHUTDOWN and
   dies; the client reads EOF and raises *)
Definition nested_post : list event :=
  [ERecv true 1 0; ERecv false 2 0; ERecv false 2 0; ERecv false 3 0; ERecv false 4 1].

Lemma run_app_inv : forall T a o x y s s2, run T a o s (x ++ y) = Some s2 ->
  exists s1, run T a o s x = Some s1 /\ run T a o s1 y = Some s2.
Proof. induction x as [|e x IH]; simpl; intros y s s2 H. exists s. auto.
  destruct (step T a o s e) as [s'|]; [|discriminate]. apply IH; auto. Qed.

Lemma run_one : forall T a o s e s1, run T a o s [e] = Some s1 -> step T a o s e = Some s1.
Proof. intros T a o s e s1. simpl. destruct (step T a o s e); auto. Qed.

Lemma obs_elim : forall (A : Type) (f : state -> A) r v, option_map f r = Some v -> exists s, r = Some s /\ f s = v.
Proof. intros A f r v H. destruct r as [s|]; simpl in H; [|discriminate H]. inversion H. exists s. auto. Qed.

(* states contain functions: only finite observations are computed, never a whole state *)
Lemma nested_obs :
  option_map (fun s => (quiescent nested_T false s, all_down nested_T s, alive s 2, alive s 3, cend s 2, outcomes s 4))
    (run nested_T false S (init nested_T 10) (nested_pre ++ [ECrash 1] ++ nested_post))
  = Some (true, true, false, false, false, [ORaised; OSubmitted 7]).
Proof. vm_compute. reflexivity. Qed.

Lemma nested_run : exists s s1 s2,
  run nested_T false S (init nested_T 10) nested_pre = Some s /\
  step nested_T false S s (ECrash 1) = Some s1 /\
  run nested_T false S s1 nested_post = Some s2 /\
  quiescent nested_T false s2 = true /\ all_down nested_T s2 = true /\
  alive s2 2 = false /\ alive s2 3 = false /\ cend s2 2 = false /\
  outcomes s2 4 = [ORaised; OSubmitted 7].
Proof. destruct (obs_elim _ _ _ _ nested_obs) as [s2 [E O]]. cbv beta in O.
  apply run_app_inv in E. destruct E as [s [E1 E]]. apply run_app_inv in E. destruct E as [s1 [E2 E3]].
  apply run_one in E2. injection O as O1 O2 O3 O4 O5 O6.
  exists s, s1, s2. repeat split; assumption.
Qed.

Lemma reach_of_run : forall T a o b es s, run T a o (init T b) es = Some s -> reach T a o s.
Proof. intros. eapply reach_run; eauto. apply reach_init. Qed.

(* ---- flat detached topology: server 0; manager 1 with workers 2,3; manager 4 with worker 5; clients 6,7 -- *)
Definition ex_T : list (kind * nat) :=
  [(KServer, 0); (KManager, 0); (KWorker, 1); (KWorker, 1); (KManager, 0); (KWorker, 4); (KClient, 0); (KClient, 0)].
Definition ex_pre : list event :=
  [ECall 6 (RSubmit 7) 0; ERecv true 6 0; EEmit false 1 8; ECall 7 (RSubmit 9) 0; ERecv true 7 0;
   ECall 6 (RResult 7) 0; ERecv true 6 0; ERecv false 1 0; EEmit false 2 8; EEmit true 3 12].
Definition ex_post : list event :=
  [ERecv true 2 0; ERecv true 1 0; ERecv false 3 0; ERecv false 4 0; ERecv false 5 0;
   ERecv false 6 1; ECall 7 (RResult 9) 1].
Definition ex_ok : list event :=
  [ECall 6 (RSubmit 7) 0; ERecv true 6 0; EEmit false 1 8; ERecv false 1 0; EEmit false 2 8; ERecv false 2 0;
   ECall 6 (RResult 7) 0; ERecv true 6 0; EFinish 2 0; ERecv true 2 0; ERecv true 1 0; ERecv false 6 1].

Lemma ex_obs :
  option_map (fun s => (quiescent ex_T false s, all_down ex_T s, outcomes s 6, outcomes s 7))
    (run ex_T false S (init ex_T 10) (ex_pre ++ [ECrash 2] ++ ex_post))
  = Some (true, true, [ORaised; OSubmitted 7], [ORaised; OSubmitted 9]).
Proof. vm_compute. reflexivity. Qed.
Lemma ex_obs1 :
  option_map (fun s => (blocked s 6, variant ex_T s))
    (run ex_T false S (init ex_T 10) (ex_pre ++ [ECrash 2]))
  = Some (Some (RResult 7), 143).
Proof. vm_compute. reflexivity. Qed.

Lemma ex_crash :
  wf_topo ex_T = true /\
  exists s s1 s2, run ex_T false S (init ex_T 10) ex_pre = Some s /\ reach ex_T false S s /\
    step ex_T false S s (ECrash 2) = Some s1 /\ run ex_T false S s1 ex_post = Some s2 /\
    quiescent ex_T false s2 = true /\ all_down ex_T s2 = true /\
    blocked s1 6 = Some (RResult 7) /\ outcomes s2 6 = [ORaised; OSubmitted 7] /\
    outcomes s2 7 = [ORaised; OSubmitted 9] /\ count_recv ex_post = 6 /\ variant ex_T s1 = 143.
Proof. split. reflexivity.
  destruct (obs_elim _ _ _ _ ex_obs) as [s2 [E O]]. cbv beta in O.
  destruct (obs_elim _ _ _ _ ex_obs1) as [s1' [F O']]. cbv beta in O'.
  apply run_app_inv in E. destruct E as [s [E1 E]]. apply run_app_inv in E. destruct E as [s1 [E2 E3]].
  apply run_app_inv in F. destruct F as [s' [F1 F2]]. rewrite E1 in F1. inversion F1; subst s'.
  rewrite E2 in F2. inversion F2; subst s1'. apply run_one in E2.
  injection O as O1 O2 O3 O4. injection O' as P1 P2.
  exists s, s1, s2. split; [assumption|]. split; [eapply reach_of_run; eassumption|].
  repeat split; try assumption; reflexivity.
Qed.

Lemma ex_result_obs :
  option_map (fun s => (outcomes s 6, owns s, fin s)) (run ex_T false S (init ex_T 10) ex_ok)
  = Some ([OResult 7 1; OSubmitted 7], [(6, 7, 0)], [0]).
Proof. vm_compute. reflexivity. Qed.

Lemma ex_result :
  exists s, reach ex_T false S s /\ outcomes s 6 = [OResult 7 1; OSubmitted 7] /\
            owns s = [(6, 7, 0)] /\ fin s = [0].
Proof. destruct (obs_elim _ _ _ _ ex_result_obs) as [s [E O]]. cbv beta in O. injection O as O1 O2 O3.
  exists s. split. eapply reach_of_run; eassumption. repeat split; assumption.
Qed.
