(* C13, client side: theorems about rt/ClientM.v (all FIFOs, all poll oracles). *)
From Coq Require Import List Arith Bool Lia. Import ListNotations.
From BQ Require Import rt.ClientM.

(* ---------- basic facts ---------- *)
Lemma drain_logs : forall k l,
  drain true k (map MLog l) = (None, firstn k l, map MLog (skipn k l)).
Proof.
  induction k as [|k IH]; intros [|x l]; simpl; auto.
  rewrite IH. reflexivity.
Qed.

Lemma tail_logs : forall k a rest,
  forallb is_log (firstn k rest) = true ->
  tail k a rest = (Got a, logs_of (firstn k rest), skipn k rest).
Proof.
  induction k as [|k IH]; intros a [|m rest] H; simpl in *; auto.
  destruct m; simpl in H; try discriminate.
  rewrite (IH a rest H). reflexivity.
Qed.

Lemma recv1_logs : forall k l a rest,
  is_ans a = true ->
  recv1 k (map MLog l ++ a :: rest) =
  let '(r, lg, q) := tail k a rest in (r, l ++ lg, q).
Proof.
  induction l as [|x l IH]; intros a rest Ha; simpl.
  - destruct a; simpl in Ha; try discriminate; destruct (tail k _ rest) as [[r lg] q]; reflexivity.
  - rewrite (IH a rest Ha). destruct (tail k a rest) as [[r lg] q]. reflexivity.
Qed.

Lemma recv1_err : forall k l m rest,
  recv1 k (map MLog l ++ MErr m :: rest) = (Fail (RaiseErr m), l, rest).
Proof. induction l as [|x l IH]; intros; simpl; auto. rewrite IH. reflexivity. Qed.

(* ---------- 1. a call returns its own answer ---------- *)
Theorem call_returns_own_answer : forall fixed kd k1 k2 l0 l1 a rest,
  kd <> CSubmit ->
  (fixed = false -> k1 = 0 \/ l0 = []) ->
  is_ans a = true ->
  forallb is_log (firstn k2 rest) = true ->
  call fixed kd k1 k2 (true, map MLog l0) [] (map MLog l1 ++ a :: rest)
  = (answer kd a, l0 ++ l1 ++ logs_of (firstn k2 rest), (true, skipn k2 rest)).
Proof.
  intros fixed kd k1 k2 l0 l1 a rest Hk Hf Ha Hr.
  unfold call. simpl negb. cbv iota. rewrite app_nil_r.
  assert (D : drain fixed k1 (map MLog l0) = (None, firstn k1 l0, map MLog (skipn k1 l0))).
  { destruct fixed. apply drain_logs.
    destruct (Hf eq_refl) as [-> | ->]. reflexivity. destruct k1; reflexivity. }
  rewrite D.
  rewrite app_assoc, <- map_app, recv1_logs by assumption.
  rewrite tail_logs by assumption.
  destruct kd; try congruence;
    rewrite !app_assoc, firstn_skipn; reflexivity.
Qed.

Theorem result_returns_own_result : forall fixed k1 k2 l0 l1 v rest,
  (fixed = false -> k1 = 0 \/ l0 = []) ->
  forallb is_log (firstn k2 rest) = true ->
  call fixed CResult k1 k2 (true, map MLog l0) [] (map MLog l1 ++ MResult v :: rest)
  = (Ret (VResult v), l0 ++ l1 ++ logs_of (firstn k2 rest), (true, skipn k2 rest)).
Proof.
  intros. apply (call_returns_own_answer fixed CResult); auto. discriminate.
Qed.

(* ---------- 2. a forwarded ERROR always raises ---------- *)
Lemma drain_err_split : forall k A l m rest B,
  A ++ B = map MLog l ++ MErr m :: rest ->
  (exists lg q, drain true k A = (Some (RaiseErr m), lg, q)) \/
  (exists lg A' l', drain true k A = (None, lg, A') /\ A' ++ B = map MLog l' ++ MErr m :: rest).
Proof.
  induction k as [|k IH]; intros A l m rest B H.
  - right. exists [], A, l. split; [destruct A; reflexivity | assumption].
  - destruct A as [|x A].
    + right. exists [], [], l. split; [reflexivity | assumption].
    + destruct l as [|y l]; simpl in H; injection H as -> H.
      * left. simpl. eauto.
      * simpl. destruct (IH A l m rest B H) as [(lg & q & E) | (lg & A' & l' & E & E')]; rewrite E.
        -- left; eauto.
        -- right. exists (y :: lg), A', l'. auto.
Qed.

Theorem error_raises : forall kd k1 k2 q pre post l m rest,
  kd <> CSubmit ->
  (q ++ pre) ++ post = map MLog l ++ MErr m :: rest ->
  exists lg q', call true kd k1 k2 (true, q) pre post = (RaiseErr m, lg, (false, q')).
Proof.
  intros kd k1 k2 q pre post l m rest Hk H.
  unfold call. simpl negb. cbv iota.
  destruct (drain_err_split k1 _ _ _ _ _ H) as [(lg & q' & E) | (lg & A' & l' & E & E')]; rewrite E.
  - eauto.
  - rewrite E', recv1_err. destruct kd; try congruence; eauto.
Qed.

(* submit does not read an answer: the error is raised by submit itself when it has already
   arrived, else the pipe still starts with LOGs followed by it, so the next reading call raises it *)
Theorem error_raises_submit : forall k1 k2 q pre post l m rest,
  (q ++ pre) ++ post = map MLog l ++ MErr m :: rest ->
  (exists lg q', call true CSubmit k1 k2 (true, q) pre post = (RaiseErr m, lg, (false, q'))) \/
  (exists lg q' l', call true CSubmit k1 k2 (true, q) pre post = (Ret VSubmitted, lg, (true, q'))
                    /\ q' = map MLog l' ++ MErr m :: rest).
Proof.
  intros k1 k2 q pre post l m rest H.
  unfold call. simpl negb. cbv iota.
  destruct (drain_err_split k1 _ _ _ _ _ H) as [(lg & q' & E) | (lg & A' & l' & E & E')]; rewrite E.
  - left; eauto.
  - right. exists lg, (A' ++ post), l'. auto.
Qed.

Theorem closed_stays_closed : forall fixed kd k1 k2 q pre post,
  call fixed kd k1 k2 (false, q) pre post = (RaiseNoConn, [], (false, q)).
Proof. reflexivity. Qed.

(* a call that does not return never leaves a value behind: the outcome of a raise is not Ret,
   and after RaiseErr the connection is gone (all later calls: RaiseNoConn) *)
Theorem run_after_close : forall fixed q cs,
  fst (run fixed (false, q) cs) = map (fun _ => (RaiseNoConn, [])) cs.
Proof.
  induction cs as [|c cs IH]; simpl; auto.
  destruct (run fixed (false, q) cs) as [os stf] eqn:E. simpl in *. rewrite IH. reflexivity.
Qed.

(* ---------- 3. LOGs are transparent (repaired drain) ---------- *)
Lemma strip_app : forall a b, strip (a ++ b) = strip a ++ strip b.
Proof. intros. unfold strip. apply filter_app. Qed.

Lemma drain_strip : forall k q r lg q',
  drain true k q = (r, lg, q') ->
  exists k', drain true k' (strip q) = (r, [], strip q').
Proof.
  induction k as [|k IH]; intros q r lg q' H.
  - exists 0. destruct q; simpl in H; injection H as <- <- <-; destruct (strip _); reflexivity.
  - destruct q as [|m q].
    + exists 0. simpl in H. injection H as <- <- <-. reflexivity.
    + destruct m; simpl in H;
        try (exists 1; injection H as <- <- <-; simpl; destruct (strip q); reflexivity).
      destruct (drain true k q) as [[r0 lg0] q0] eqn:E. injection H as <- <- <-.
      destruct (IH _ _ _ _ E) as [k' E']. exists k'. exact E'.
Qed.

Lemma tail_strip : forall k a q r lg q',
  is_ans a = true ->
  tail k a q = (r, lg, q') ->
  exists k', tail k' a (strip q) = (r, [], strip q').
Proof.
  induction k as [|k IH]; intros a q r lg q' Ha H.
  - exists 0. destruct q; simpl in H; injection H as <- <- <-; destruct (strip _); reflexivity.
  - destruct q as [|m q].
    + exists 0. simpl in H. injection H as <- <- <-. reflexivity.
    + destruct m; simpl in H.
      * destruct (tail k a q) as [[r0 lg0] q0] eqn:E. injection H as <- <- <-.
        destruct (IH _ _ _ _ _ Ha E) as [k' E']. exists k'. exact E'.
      * exists 1. injection H as <- <- <-. reflexivity.
      * destruct (IH _ _ _ _ _ (eq_refl : is_ans (MResult v) = true) H) as [k' E']. exists (S k'). exact E'.
      * destruct (IH _ _ _ _ _ (eq_refl : is_ans (MStatus s) = true) H) as [k' E']. exists (S k'). exact E'.
      * destruct (IH _ _ _ _ _ (eq_refl : is_ans MCancel = true) H) as [k' E']. exists (S k'). exact E'.
      * destruct (IH _ _ _ _ _ (eq_refl : is_ans (MOther x) = true) H) as [k' E']. exists (S k'). exact E'.
      * exists 1. injection H as <- <- <-. reflexivity.
Qed.

Lemma recv1_strip : forall k q r lg q',
  recv1 k q = (r, lg, q') ->
  exists k', recv1 k' (strip q) = (r, [], strip q').
Proof.
  induction q as [|m q IH]; intros r lg q' H.
  - exists 0. simpl in H. injection H as <- <- <-. reflexivity.
  - destruct m; simpl in H.
    + destruct (recv1 k q) as [[r0 lg0] q0] eqn:E. injection H as <- <- <-.
      destruct (IH _ _ _ eq_refl) as [k' E']. exists k'. exact E'.
    + exists 0. injection H as <- <- <-. reflexivity.
    + destruct (tail_strip _ _ _ _ _ _ (eq_refl : is_ans (MResult v) = true) H) as [k' E']. exists k'. exact E'.
    + destruct (tail_strip _ _ _ _ _ _ (eq_refl : is_ans (MStatus s) = true) H) as [k' E']. exists k'. exact E'.
    + destruct (tail_strip _ _ _ _ _ _ (eq_refl : is_ans MCancel = true) H) as [k' E']. exists k'. exact E'.
    + destruct (tail_strip _ _ _ _ _ _ (eq_refl : is_ans (MOther x) = true) H) as [k' E']. exists k'. exact E'.
    + exists 0. injection H as <- <- <-. reflexivity.
Qed.

(* every run of a call over a pipe with LOG messages anywhere is matched, for suitable poll
   answers, by the run over the same pipe without them: same return value / exception, same
   connection state, same remaining non-LOG messages; only the emitted log list differs *)
Theorem log_transparent : forall kd k1 k2 op q pre post o lg op' q',
  call true kd k1 k2 (op, q) pre post = (o, lg, (op', q')) ->
  exists k1' k2',
    call true kd k1' k2' (op, strip q) (strip pre) (strip post) = (o, [], (op', strip q')).
Proof.
  intros kd k1 k2 op q pre post o lg op' q' H.
  unfold call in *. destruct op; simpl negb in *; cbv iota in *.
  2:{ injection H as <- <- <- <-. exists 0, 0. reflexivity. }
  rewrite <- strip_app.
  destruct (drain true k1 (q ++ pre)) as [[r lg1] q1] eqn:D.
  destruct (drain_strip _ _ _ _ _ D) as [k1' D'].
  destruct r as [o1|].
  - injection H as <- <- <- <-. exists k1', 0. rewrite D'. reflexivity.
  - destruct kd.
    + injection H as <- <- <- <-. exists k1', 0. rewrite D', strip_app. reflexivity.
    + destruct (recv1 k2 (q1 ++ post)) as [[r2 lg2] q2] eqn:R.
      destruct (recv1_strip _ _ _ _ _ R) as [k2' R']. exists k1', k2'.
      rewrite D', <- strip_app, R'.
      destruct r2 as [a|[]]; injection H as <- <- <- <-; reflexivity.
    + destruct (recv1 k2 (q1 ++ post)) as [[r2 lg2] q2] eqn:R.
      destruct (recv1_strip _ _ _ _ _ R) as [k2' R']. exists k1', k2'.
      rewrite D', <- strip_app, R'.
      destruct r2 as [a|[]]; injection H as <- <- <- <-; reflexivity.
    + destruct (recv1 k2 (q1 ++ post)) as [[r2 lg2] q2] eqn:R.
      destruct (recv1_strip _ _ _ _ _ R) as [k2' R']. exists k1', k2'.
      rewrite D', <- strip_app, R'.
      destruct r2 as [a|[]]; injection H as <- <- <- <-; reflexivity.
Qed.

(* ---------- 4. the code as it is: a pending LOG kills the connection ---------- *)
Theorem pending_log_refuted :
  exists l v,
    call false CResult 1 0 (true, []) [MLog l] [MResult v] = (RaiseClosed CAttr, [], (false, []))
    /\ call true CResult 1 0 (true, []) [MLog l] [MResult v] = (Ret (VResult v), [l], (true, [])).
Proof. exists 3, 5. split; vm_compute; reflexivity. Qed.

(* ---------- non-vacuity ---------- *)
Example ex_own_answer :
  call true CResult 1 2 (true, [MLog 1; MLog 2]) [] [MLog 3; MResult 7; MLog 4; MLog 5; MStatus 1]
  = (Ret (VResult 7), [1; 2; 3; 4; 5], (true, [MStatus 1])).
Proof. vm_compute. reflexivity. Qed.

Example ex_error_after_answer :
  fst (run true (true, []) [mkCall CStatus 0 1 [] [MStatus 2; MErr 9]; mkCall CResult 0 0 [] [MResult 1]])
  = [(RaiseErr 9, []); (RaiseNoConn, [])].
Proof. vm_compute. reflexivity. Qed.

Example ex_overwrite :   (* a later already-arrived answer replaces the first one *)
  call true CStatus 0 1 (true, []) [] [MStatus 1; MStatus 2] = (Ret (VStatus 2), [], (true, [])).
Proof. vm_compute. reflexivity. Qed.
