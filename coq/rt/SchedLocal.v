(* C15 - the per-worker invariant of the flat system (boss's record of employee w, the two
   channels of w, the worker's own state) and its preservation by every local transition. *)
From Coq Require Import ZArith List Bool Arith Lia ZifyBool Permutation.
From BQ Require Import rt.SchedPre gen.SchedArith rt.SchedArithThm rt.Sched rt.SchedAssign.
Import ListNotations.
Open Scope Z_scope.
Local Arguments Z.add : simpl never.
Local Arguments Z.sub : simpl never.
Local Arguments Z.mul : simpl never.
Local Arguments Z.of_nat : simpl never.
Local Arguments Z.min : simpl never.
Local Arguments Z.max : simpl never.
Local Arguments Z.eqb : simpl never.
Local Arguments Z.ltb : simpl never.
Local Arguments Z.leb : simpl never.
Local Arguments zlen : simpl never.
Local Arguments get_num_of_tasks_sent_since : simpl never.
Local Arguments handle_waiting : simpl never.

(* ---------- NoDup helpers ---------- *)

Lemma NoDup_app_l {A} (a b : list A) : NoDup (a ++ b) -> NoDup a.
Proof. induction a as [|x a IH]; simpl; intros H; [constructor|]. inversion H; subst. constructor; [|auto]. intro; apply H2; apply in_or_app; auto. Qed.

Lemma NoDup_app_r {A} (a b : list A) : NoDup (a ++ b) -> NoDup b.
Proof. induction a as [|x a IH]; simpl; intros H; [exact H|]. inversion H; subst. auto. Qed.

Lemma NoDup_app_disj {A} (a b : list A) x : NoDup (a ++ b) -> In x a -> In x b -> False.
Proof.
  induction a as [|y a IH]; simpl; intros H Ha Hb; [contradiction|]. inversion H; subst.
  destruct Ha as [->|Ha]; [apply H2; apply in_or_app; auto|eauto].
Qed.

Lemma NoDup_snoc {A} (l : list A) x : NoDup l -> ~ In x l -> NoDup (l ++ [x]).
Proof.
  induction l as [|y l IH]; simpl; intros H Hn; [repeat constructor; auto|]. inversion H; subst.
  constructor; [|apply IH; tauto]. intros Hin. apply in_app_or in Hin. destruct Hin as [Hin|[->|[]]]; tauto.
Qed.

Lemma NoDup_app_intro {A} (a b : list A) : NoDup a -> NoDup b -> (forall x, In x a -> ~ In x b) -> NoDup (a ++ b).
Proof.
  induction a as [|y a IH]; simpl; intros Ha Hb Hd; [exact Hb|]. inversion Ha; subst.
  constructor; [|apply IH; auto]. intros Hin. apply in_app_or in Hin. destruct Hin as [Hin|Hin]; [tauto|]. eapply Hd; eauto.
Qed.

(* ---------- observations ---------- *)

(* the submit_cache entries the in-flight batches were recorded with *)
Definition entry_of (m : dmsg) : list (Z * Z) :=
  match m with DBatch (t :: ts) => [(tid t, zlen (t :: ts))] | _ => [] end.
Definition entries (d : list dmsg) : list (Z * Z) := concat (map entry_of d).

Definition receipt_of (m : umsg) : list (option Z) := match m with UWaiting _ r => [r] | _ => [] end.
Definition receipts (u : list umsg) : list (option Z) := concat (map receipt_of u).

Fixpoint somes (l : list (option Z)) : list Z :=
  match l with [] => [] | Some x :: l' => x :: somes l' | None :: l' => somes l' end.

Definition has_batch (d : list dmsg) : bool := existsb (fun m => match m with DBatch _ => true | _ => false end) d.

(* receipt of the youngest WAITING in flight, if any *)
Definition last_receipt (u : list umsg) : option (option Z) := last (map Some (receipts u)) None.

Lemma entries_app a b : entries (a ++ b) = entries a ++ entries b.
Proof. unfold entries. rewrite map_app, concat_app. reflexivity. Qed.
Lemma receipts_app a b : receipts (a ++ b) = receipts a ++ receipts b.
Proof. unfold receipts. rewrite map_app, concat_app. reflexivity. Qed.
Lemma somes_app a b : somes (a ++ b) = somes a ++ somes b.
Proof. induction a as [|[x|] a IH]; simpl; congruence. Qed.
Lemma batch_tasks_app a b : batch_tasks (a ++ b) = batch_tasks a ++ batch_tasks b.
Proof. unfold batch_tasks. rewrite map_app, concat_app. reflexivity. Qed.
Lemma pending_tasks_app a b : pending_tasks (a ++ b) = pending_tasks a ++ pending_tasks b.
Proof. unfold pending_tasks. rewrite map_app, concat_app. reflexivity. Qed.
Lemma completions_app a b : completions (a ++ b) = completions a + completions b.
Proof. unfold completions. rewrite filter_app, zlen_app. reflexivity. Qed.
Lemma pending_tasks_cons m u : pending_tasks (m :: u) = pending_tasks [m] ++ pending_tasks u.
Proof. exact (pending_tasks_app [m] u). Qed.
Lemma completions_cons m u : completions (m :: u) = completions [m] + completions u.
Proof. exact (completions_app [m] u). Qed.
Lemma has_batch_app a b : has_batch (a ++ b) = has_batch a || has_batch b.
Proof. unfold has_batch. apply existsb_app. Qed.

Lemma last_snoc {A} (l : list A) x d : last (l ++ [x]) d = x.
Proof. induction l as [|y l IH]; simpl; [reflexivity|]. destruct (l ++ [x]) eqn:E; [destruct l; discriminate|exact IH]. Qed.

Lemma last_receipt_snoc_waiting u n r : last_receipt (u ++ [UWaiting n r]) = Some r.
Proof. unfold last_receipt. rewrite receipts_app, map_app. simpl. apply last_snoc. Qed.

Lemma last_receipt_snoc_other u m : receipt_of m = [] -> last_receipt (u ++ [m]) = last_receipt u.
Proof.
  intros H. unfold last_receipt. rewrite receipts_app.
  replace (receipts [m]) with (@nil (option Z)) by (unfold receipts; simpl; rewrite H; reflexivity).
  rewrite app_nil_r. reflexivity.
Qed.

Lemma last_receipt_cons_other u m : receipt_of m = [] -> last_receipt (m :: u) = last_receipt u.
Proof. intros H. unfold last_receipt, receipts. simpl. rewrite H. reflexivity. Qed.

Lemma last_receipt_cons_waiting u n r :
  last_receipt (UWaiting n r :: u) = match last_receipt u with Some x => Some x | None => Some r end.
Proof.
  unfold last_receipt, receipts. simpl. fold (receipts u).
  destruct (receipts u) as [|x l]; simpl; [reflexivity|].
  assert (H : forall (l : list (option Z)) x d, last (map Some (x :: l)) d <> None).
  { clear. induction l as [|y l IH]; intros x d; simpl; [discriminate|]. apply (IH y d). }
  destruct (last (map Some (x :: l)) None) eqn:E; [simpl in E; rewrite E; reflexivity|].
  exfalso. exact (H l x None E).
Qed.

Lemma last_receipt_none u : last_receipt u = None -> receipts u = [].
Proof.
  unfold last_receipt. destruct (receipts u) as [|x l]; [reflexivity|]. intros E. exfalso.
  revert x E. induction l as [|y l IH]; intros x E; simpl in E; [discriminate|]. exact (IH y E).
Qed.

Lemma counts_entries d : ~ In (DBatch []) d -> counts (entries d) = zlen (batch_tasks d).
Proof.
  induction d as [|m d IH]; intros H; [reflexivity|].
  change (entries (m :: d)) with (entry_of m ++ entries d).
  change (batch_tasks (m :: d)) with (match m with DBatch ts => ts | _ => [] end ++ batch_tasks d).
  rewrite counts_app, zlen_app, IH by (intro; apply H; right; assumption).
  destruct m as [[|t ts]| |]; simpl; try reflexivity; unfold counts; simpl; lia.
Qed.

Lemma has_batch_entries d : ~ In (DBatch []) d -> (has_batch d = false <-> zlen (batch_tasks d) = 0).
Proof.
  induction d as [|m d IH]; intros H; [simpl; tauto|].
  change (batch_tasks (m :: d)) with (match m with DBatch ts => ts | _ => [] end ++ batch_tasks d).
  rewrite zlen_app. simpl has_batch.
  assert (Hd : ~ In (DBatch []) d) by (intro; apply H; right; assumption).
  pose proof (zlen_nonneg (batch_tasks d)).
  destruct m as [[|t ts]| |]; simpl.
  - exfalso. apply H. left. reflexivity.
  - rewrite zlen_cons. pose proof (zlen_nonneg ts). split; [discriminate|lia].
  - rewrite zlen_nil. rewrite (IH Hd). lia.
  - rewrite zlen_nil. rewrite (IH Hd). lia.
Qed.

(* ---------- monotone embedding with repetitions ---------- *)

(* stut rs l: the receipts rs (oldest first) name entries of l at non-decreasing positions *)
Inductive stut : list Z -> list Z -> Prop :=
| stut_nil l : stut [] l
| stut_take x rs l : stut rs (x :: l) -> stut (x :: rs) (x :: l)
| stut_skip x rs l : stut rs l -> stut rs (x :: l).

Lemma stut_app_r rs l l' : stut rs l -> stut rs (l ++ l').
Proof. induction 1; simpl; constructor; assumption. Qed.

Lemma stut_head_in r rs l : stut (r :: rs) l -> In r l.
Proof.
  remember (r :: rs) as q eqn:E. intros H. revert r rs E.
  induction H; intros r0 rs0 E; [discriminate| |].
  - inversion E; subst. left. reflexivity.
  - right. eapply IHstut. eassumption.
Qed.

Lemma stut_tail r rs l : stut (r :: rs) l -> stut rs l.
Proof.
  remember (r :: rs) as q eqn:E. intros H. revert r rs E.
  induction H; intros r0 rs0 E; [discriminate| |].
  - inversion E; subst. assumption.
  - constructor. eapply IHstut. eassumption.
Qed.

(* cutting the list at the FIRST occurrence of the oldest receipt keeps all younger receipts *)
Lemma stut_trim : forall a r rs b, stut (r :: rs) (a ++ r :: b) -> ~ In r a -> stut rs (r :: b).
Proof.
  induction a as [|x a IH]; intros r rs b H Hn; simpl in *.
  - inversion H; subst; [assumption|]. constructor. eapply stut_tail. eassumption.
  - inversion H; subst; [exfalso; apply Hn; left; reflexivity|]. eapply IH; [eassumption|]. tauto.
Qed.

(* a new receipt naming the last entry can always be appended *)
Lemma stut_snoc : forall rs l x, stut rs (l ++ [x]) -> stut (rs ++ [x]) (l ++ [x]).
Proof.
  intros rs l x H. remember (l ++ [x]) as q eqn:E. revert l E.
  induction H as [q|y rs q H IH|y rs q H IH]; intros l E.
  - simpl. subst q. clear. induction l as [|z l IH]; simpl; repeat constructor. exact IH.
  - simpl. constructor. eapply IH. eassumption.
  - destruct l as [|z l]; simpl in E; inversion E; subst.
    + inversion H; subst. simpl. repeat constructor.
    + constructor. eapply IH. reflexivity.
Qed.

Lemma stut_nil_inv rs : stut rs [] -> rs = [].
Proof. inversion 1; reflexivity. Qed.

Lemma first_occurrence (x : Z) (l : list (Z * Z)) : In x (map fst l) ->
  exists a c b, l = a ++ (x, c) :: b /\ ~ In x (map fst a).
Proof.
  induction l as [|[y c] l IH]; simpl; [tauto|]. intros H.
  destruct (Z.eq_dec y x) as [->|Hne].
  - exists [], c, l. simpl. tauto.
  - destruct H as [H|H]; [congruence|]. destruct (IH H) as (a & c' & b & -> & Hn).
    exists ((y, c) :: a), c', b. simpl. split; [reflexivity|]. tauto.
Qed.

Lemma suffix_last {A} (a p' : list A) p0 z : a ++ p' = p0 ++ [z] -> p' <> [] -> exists p0', p' = p0' ++ [z].
Proof.
  intros E Hne. destruct (exists_last Hne) as (q & y & ->).
  rewrite app_assoc in E. apply app_inj_tail in E. destruct E as [_ ->]. eauto.
Qed.

(* ---------- the per-worker invariant ---------- *)

Section Local.
  Variables (lb : Z) (n : nat).
  (* cf = true: the invariant additionally carries the cancel-free strengthening (exact task counts) *)
  Variable cf : bool.

  Definition valid_ret (x : Z) : Prop := x = -1 \/ lb <= x < lb + Z.of_nat n.

  (* cancel-free strengthening: the task count is exact *)
  Definition LocalCF (e : employee) (d : list dmsg) (u : list umsg) (k : wstate) : Prop :=
    e_num_tasks e = zlen (batch_tasks d) + zlen (w_held k) + completions u
    /\ w_cancelled k = []
    /\ (forall a, ~ In (DCancel a) d) /\ (forall a, ~ In (UCancel a) u).

  Record Local (w : nat) (e : employee) (d : list dmsg) (u : list umsg) (k : wstate) : Prop := mkLocal {
    L_total : e_total e = 1;
    L_idle : 0 <= e_num_idle e <= 1;
    L_cpos : forall a c, In (a, c) (e_cache e) -> 0 < c;
    L_cnodup : NoDup (map fst (e_cache e));
    L_wait : forall m r, In (UWaiting m r) u -> m = 1;
    L_upd : forall x, In (UUpdate x) u -> x = -1;
    L_res : forall dest b, In (UResult dest b) u -> b = lb + Z.of_nat w /\ valid_ret dest;
    L_bne : ~ In (DBatch []) d;
    L_ret : forall t, In t (batch_tasks d ++ w_held k ++ pending_tasks u) -> valid_ret (tret t);
    L_cache : exists P, e_cache e = P ++ entries d
         /\ match w_mrrs k with None => P = [] | Some m => exists P0 c, P = P0 ++ [(m, c)] end
         /\ stut (somes (receipts u)) (map fst P);
    L_ntasks : zlen (batch_tasks d) + zlen (w_held k) + completions u <= e_num_tasks e;
    L_exact : w_blocked k = true ->
         match last_receipt u with
         | Some r => r = w_mrrs k
         | None => e_num_idle e = if has_batch d then 0 else 1
         end;
    L_cf : cf = true -> LocalCF e d u k
  }.

  Lemma localcf_init : LocalCF (mkEmp 1 0 1 []) [] [] (mkW None [] false []).
  Proof. unfold LocalCF. simpl. repeat split; auto. Qed.

  Lemma localcf_k e d u k k' : w_held k' = w_held k -> w_cancelled k' = w_cancelled k -> LocalCF e d u k -> LocalCF e d u k'.
  Proof. unfold LocalCF. intros -> ->. auto. Qed.

  Lemma localcf_e e e' d u k : e_num_tasks e' = e_num_tasks e -> LocalCF e d u k -> LocalCF e' d u k.
  Proof. unfold LocalCF. intros ->. auto. Qed.

  Lemma take_task_spec : forall t l x rest, take_task t l = Some (x, rest) ->
    Permutation l (x :: rest) /\ tid x = t.
  Proof.
    induction l as [|y l IH]; intros x rest H; simpl in H; [discriminate|].
    destruct (tid y =? t) eqn:E.
    - inversion H; subst. split; [reflexivity|lia].
    - destruct (take_task t l) as [[z r]|] eqn:E2; [|discriminate]. injection H as <- <-.
      destruct (IH z r eq_refl) as [Hp Ht]. split; [|exact Ht]. rewrite Hp. apply perm_swap.
  Qed.

  Lemma zlen_perm {A} (a b : list A) : Permutation a b -> zlen a = zlen b.
  Proof. intros H. unfold zlen. rewrite (Permutation_length H). reflexivity. Qed.

  Lemma zlen_filter_le {A} (f : A -> bool) l : zlen (filter f l) <= zlen l.
  Proof. induction l as [|x l IH]; simpl; [lia|]. destruct (f x); rewrite ?zlen_cons; lia. Qed.

  Definition batch_msgs (a : list task) : list dmsg := match a with [] => [] | _ => [DBatch a] end.

  Lemma batch_tasks_msgs a : batch_tasks (batch_msgs a) = a.
  Proof. destruct a; [reflexivity|]. unfold batch_tasks. simpl. rewrite app_nil_r. reflexivity. Qed.

  Lemma localcf_snoc_plain e d u k m :
    (match m with UResult _ _ | UUpdate _ | UCancel _ => False | _ => True end) ->
    LocalCF e d u k -> LocalCF e d (u ++ [m]) k.
  Proof.
    intros Hm (H1 & H2 & H3 & H4). unfold LocalCF. rewrite completions_app. repeat split; auto.
    - rewrite H1. destruct m; try contradiction; unfold completions at 3; simpl; rewrite zlen_nil; lia.
    - intros a H. apply in_app_or in H. destruct H as [H|[H|[]]]; [eapply H4; eauto|]. subst m. contradiction.
  Qed.

  Lemma localcf_finish e d u k t x rest m :
    take_task t (w_held k) = Some (x, rest) -> (exists a, m = UUpdate a) \/ (exists a b, m = UResult a b) ->
    LocalCF e d u k -> LocalCF e d (u ++ [m]) (mkW (w_mrrs k) rest false (w_cancelled k)).
  Proof.
    intros Ht Hm (H1 & H2 & H3 & H4). destruct (take_task_spec _ _ _ _ Ht) as [Hp _].
    unfold LocalCF. simpl. rewrite completions_app. repeat split; auto.
    - rewrite H1, (zlen_perm _ _ Hp), zlen_cons.
      assert (completions [m] = 1) as -> by (destruct Hm as [[a ->]|(a & b & ->)]; reflexivity). lia.
    - intros a H. apply in_app_or in H. destruct H as [H|[H|[]]]; [eapply H4; eauto|].
      destruct Hm as [[a' ->]|(a' & b & ->)]; discriminate.
  Qed.

  Lemma localcf_recv_batch e d u k t0 ts : LocalCF e (DBatch (t0 :: ts) :: d) u k ->
    LocalCF e d u (mkW (Some (tid t0)) (w_held k ++ t0 :: ts) false (w_cancelled k)).
  Proof.
    intros (H1 & H2 & H3 & H4). unfold LocalCF. simpl. repeat split; auto.
    - change (batch_tasks (DBatch (t0 :: ts) :: d)) with ((t0 :: ts) ++ batch_tasks d) in H1.
      rewrite !zlen_app in *. lia.
    - intros a H. apply (H3 a). right. exact H.
  Qed.

  Lemma localcf_recv_result e d u k x bl : LocalCF e (DResult x :: d) u k ->
    LocalCF e d u (mkW (w_mrrs k) (w_held k) bl (w_cancelled k)).
  Proof.
    intros (H1 & H2 & H3 & H4). unfold LocalCF. simpl. repeat split; auto.
    intros a H. apply (H3 a). right. exact H.
  Qed.

  Lemma localcf_pop_plain e d u k m :
    (match m with USubmit _ | UBatch _ | UWaiting _ _ => True | _ => False end) ->
    LocalCF e d (m :: u) k -> LocalCF e d u k.
  Proof.
    intros Hm (H1 & H2 & H3 & H4). unfold LocalCF. repeat split; auto.
    - rewrite H1. destruct m; try contradiction; reflexivity.
    - intros a H. apply (H4 a). right. exact H.
  Qed.

  Lemma localcf_pop_completion e d u k m :
    (match m with UResult _ _ | UUpdate _ => True | _ => False end) ->
    LocalCF e d (m :: u) k -> LocalCF (set_tasks (e_num_tasks e - 1) e) d u k.
  Proof.
    intros Hm (H1 & H2 & H3 & H4). unfold LocalCF. simpl. repeat split; auto.
    - rewrite completions_cons in H1.
      assert (completions [m] = 1) as E by (destruct m; try contradiction; reflexivity). lia.
    - intros a H. apply (H4 a). right. exact H.
  Qed.

  Lemma localcf_push_result e d u k x : LocalCF e d u k -> LocalCF e (d ++ [DResult x]) u k.
  Proof.
    intros (H1 & H2 & H3 & H4). unfold LocalCF. rewrite batch_tasks_app. simpl. rewrite app_nil_r. repeat split; auto.
    intros a H. apply in_app_or in H. destruct H as [H|[H|[]]]; [eapply H3; eauto|discriminate].
  Qed.

  Lemma localcf_schedule e d u k a : LocalCF e d u k -> LocalCF (upd_emp e a) (d ++ batch_msgs a) u k.
  Proof.
    intros (H1 & H2 & H3 & H4). destruct a as [|t0 ts]; [simpl; rewrite app_nil_r; unfold LocalCF; auto|].
    unfold LocalCF. rewrite batch_tasks_app, batch_tasks_msgs, zlen_app. simpl. repeat split; auto; try lia.
    intros a H. apply in_app_or in H. destruct H as [H|[H|[]]]; [eapply H3; eauto|discriminate].
  Qed.

  Lemma local_init w : Local w (mkEmp 1 0 1 []) [] [] (mkW None [] false []).
  Proof.
    constructor; simpl; try tauto; try lia; try discriminate.
    all: try (intros _; apply localcf_init).
    all: try (exists []; simpl; repeat split; constructor).
    all: try constructor.
  Qed.

  (* ----- worker main-loop actions: u grows at the end, d untouched ----- *)

  Lemma local_idle w e d u k : w_blocked k = false -> Local w e d u k ->
    Local w e d (u ++ [UWaiting 1 (w_mrrs k)]) (mkW (w_mrrs k) (w_held k) true (w_cancelled k)).
  Proof.
    intros Hb [].
    constructor; simpl; auto.
    - intros m r H. apply in_app_or in H. destruct H as [H|[H|[]]]; [eauto|]. inversion H; reflexivity.
    - intros x H. apply in_app_or in H. destruct H as [H|[H|[]]]; [eauto|discriminate].
    - intros dest b H. apply in_app_or in H. destruct H as [H|[H|[]]]; [eauto|discriminate].
    - intros t H. apply L_ret0. rewrite pending_tasks_app in H. simpl in H. rewrite app_nil_r in H. exact H.
    - destruct L_cache0 as (P & Hc & Hm & Hs). exists P. split; [exact Hc|]. split; [exact Hm|].
      rewrite receipts_app, somes_app. simpl. destruct (w_mrrs k) as [m|]; simpl.
      + destruct Hm as (P0 & c & ->). rewrite map_app in *. simpl in *. apply stut_snoc. exact Hs.
      + rewrite app_nil_r. exact Hs.
    - rewrite completions_app. unfold completions at 2. simpl. rewrite zlen_nil. lia.
    - intros _. rewrite last_receipt_snoc_waiting. reflexivity.
    - intros Hc. eapply localcf_k; [| |apply localcf_snoc_plain; [exact I|exact (L_cf0 Hc)]]; reflexivity.
  Qed.


  (* a message that is neither WAITING nor a completion nor a submit *)
  Lemma local_snoc_cancel w e d u k a : cf = false -> Local w e d u k -> Local w e d (u ++ [UCancel a]) k.
  Proof.
    intros Hcf []. constructor; auto.
    - intros m r H. apply in_app_or in H. destruct H as [H|[H|[]]]; [eauto|discriminate].
    - intros x H. apply in_app_or in H. destruct H as [H|[H|[]]]; [eauto|discriminate].
    - intros dest b H. apply in_app_or in H. destruct H as [H|[H|[]]]; [eauto|discriminate].
    - intros t H. apply L_ret0. rewrite pending_tasks_app in H. simpl in H. rewrite app_nil_r in H. exact H.
    - rewrite receipts_app. simpl. rewrite app_nil_r. exact L_cache0.
    - rewrite completions_app. unfold completions at 2. simpl. rewrite zlen_nil. lia.
    - rewrite last_receipt_snoc_other by reflexivity. exact L_exact0.
    - congruence.
  Qed.

  Lemma local_snoc_submit w e d u k m : w_blocked k = false ->
    (match m with USubmit _ | UBatch _ => True | _ => False end) ->
    (forall t, In t (pending_tasks [m]) -> valid_ret (tret t)) ->
    Local w e d u k -> Local w e d (u ++ [m]) k.
  Proof.
    intros Hb Hm Hv []. constructor; auto.
    - intros x r H. apply in_app_or in H. destruct H as [H|[H|[]]]; [eauto|]. subst m. contradiction.
    - intros x H. apply in_app_or in H. destruct H as [H|[H|[]]]; [eauto|]. subst m. contradiction.
    - intros dest b H. apply in_app_or in H. destruct H as [H|[H|[]]]; [eauto|]. subst m. contradiction.
    - intros t H. rewrite pending_tasks_app, !app_assoc in H. apply in_app_or in H. destruct H as [H|H].
      + apply L_ret0. rewrite app_assoc. exact H.
      + apply Hv. exact H.
    - rewrite receipts_app. destruct m; try contradiction; simpl; rewrite app_nil_r; exact L_cache0.
    - rewrite completions_app. destruct m; try contradiction; unfold completions at 2; simpl; rewrite zlen_nil; lia.
    - rewrite Hb. discriminate.
    - intros Hc. apply localcf_snoc_plain; [destruct m; tauto|exact (L_cf0 Hc)].
  Qed.



  (* finishing a held task: RESULT (completed_by = own id) or UPDATE -1 *)
  Lemma local_finish w e d u k t x rest : w_blocked k = false ->
    take_task t (w_held k) = Some (x, rest) -> Local w e d u k ->
    Local w e d (u ++ [if tret x =? sw_w_id lb (Z.of_nat w) then UUpdate (-1) else UResult (tret x) (sw_w_id lb (Z.of_nat w))])
          (mkW (w_mrrs k) rest false (w_cancelled k)).
  Proof.
    intros Hb Ht []. destruct (take_task_spec _ _ _ _ Ht) as [Hp _].
    assert (Hx : valid_ret (tret x)).
    { apply L_ret0. apply in_or_app. right. apply in_or_app. left. eapply Permutation_in; [symmetry; exact Hp|]. left. reflexivity. }
    set (m := if tret x =? sw_w_id lb (Z.of_nat w) then UUpdate (-1) else UResult (tret x) (sw_w_id lb (Z.of_nat w))).
    assert (Hm : m = UUpdate (-1) \/ m = UResult (tret x) (lb + Z.of_nat w)).
    { unfold m, sw_w_id. destruct (_ =? _); auto. }
    constructor; simpl; auto.
    - intros y r H. apply in_app_or in H. destruct H as [H|[H|[]]]; [eauto|]. destruct Hm as [E|E]; rewrite E in H; discriminate.
    - intros y H. apply in_app_or in H. destruct H as [H|[H|[]]]; [eauto|]. destruct Hm as [E|E]; rewrite E in H; inversion H; reflexivity.
    - intros dest b H. apply in_app_or in H. destruct H as [H|[H|[]]]; [eauto|].
      destruct Hm as [E|E]; rewrite E in H; inversion H; subst. auto.
    - intros y H. apply L_ret0. rewrite pending_tasks_app in H.
      assert (pending_tasks [m] = []) as Hpm by (destruct Hm as [E|E]; rewrite E; reflexivity).
      rewrite Hpm, app_nil_r in H.
      apply in_app_or in H. apply in_or_app. destruct H as [H|H]; [left; exact H|right].
      apply in_app_or in H. apply in_or_app. destruct H as [H|H]; [left|right; exact H].
      eapply Permutation_in; [symmetry; exact Hp|]. right. exact H.
    - assert (receipts [m] = []) as Hrm by (destruct Hm as [E|E]; rewrite E; reflexivity).
      rewrite receipts_app, Hrm, app_nil_r. exact L_cache0.
    - rewrite completions_app. assert (completions [m] = 1) as Hcm by (destruct Hm as [E|E]; rewrite E; reflexivity).
      rewrite Hcm. rewrite (zlen_perm _ _ Hp), zlen_cons in L_ntasks0. lia.
    - discriminate.
    - intros Hc. eapply localcf_finish; [exact Ht| |exact (L_cf0 Hc)]. destruct Hm as [E|E]; rewrite E; eauto.
  Qed.


  (* dropping a held task (cancelled): the count may only over-approximate *)
  Lemma local_drop w e d u k t x rest : cf = false -> w_blocked k = false ->
    take_task t (w_held k) = Some (x, rest) -> Local w e d u k ->
    Local w e d u (mkW (w_mrrs k) rest false (w_cancelled k)).
  Proof.
    intros Hcf Hb Ht []. destruct (take_task_spec _ _ _ _ Ht) as [Hp _].
    constructor; simpl; auto.
    - intros y H. apply L_ret0.
      apply in_app_or in H. apply in_or_app. destruct H as [H|H]; [left; exact H|right].
      apply in_app_or in H. apply in_or_app. destruct H as [H|H]; [left|right; exact H].
      eapply Permutation_in; [symmetry; exact Hp|]. right. exact H.
    - rewrite (zlen_perm _ _ Hp), zlen_cons in L_ntasks0. lia.
    - discriminate.
    - congruence.
  Qed.

  (* ----- worker receiving thread: head of d consumed ----- *)

  Lemma local_recv_batch w e d u k t0 ts : Local w e (DBatch (t0 :: ts) :: d) u k ->
    Local w e d u (mkW (Some (tid t0)) (w_held k ++ t0 :: ts) false (w_cancelled k)).
  Proof.
    intros []. constructor; simpl; auto.
    - intros H. apply L_bne0. right. exact H.
    - intros y H. apply L_ret0. change (batch_tasks (DBatch (t0 :: ts) :: d)) with ((t0 :: ts) ++ batch_tasks d).
      rewrite !in_app_iff in *. tauto.
    - destruct L_cache0 as (P & Hc & Hm & Hs).
      change (entries (DBatch (t0 :: ts) :: d)) with ([(tid t0, zlen (t0 :: ts))] ++ entries d) in Hc.
      exists (P ++ [(tid t0, zlen (t0 :: ts))]). rewrite <- app_assoc. split; [exact Hc|]. split; [eauto|].
      rewrite map_app. apply stut_app_r. exact Hs.
    - change (batch_tasks (DBatch (t0 :: ts) :: d)) with ((t0 :: ts) ++ batch_tasks d) in L_ntasks0.
      rewrite !zlen_app in *. lia.
    - discriminate.
    - intros Hc. apply localcf_recv_batch. exact (L_cf0 Hc).
  Qed.


  Lemma local_recv_result w e d u k x bl : (bl = w_blocked k \/ bl = false) ->
    Local w e (DResult x :: d) u k -> Local w e d u (mkW (w_mrrs k) (w_held k) bl (w_cancelled k)).
  Proof.
    intros Hbl L. destruct L. constructor; simpl; auto.
    - intros H. apply L_bne0. right. exact H.
    - intros Hb. destruct Hbl as [-> | ->]; [|discriminate]. specialize (L_exact0 Hb). exact L_exact0.
    - intros Hc. eapply localcf_recv_result. exact (L_cf0 Hc).
  Qed.



  Lemma local_recv_cancel w e d u k a : Local w e (DCancel a :: d) u k ->
    Local w e d u (mkW (w_mrrs k) (filter (fun t => negb (is_desc a t)) (w_held k)) (w_blocked k) (a :: w_cancelled k)).
  Proof.
    intros []. constructor; simpl; auto.
    - intros H. apply L_bne0. right. exact H.
    - intros y H. apply L_ret0. change (batch_tasks (DCancel a :: d)) with (batch_tasks d).
      rewrite !in_app_iff in *. destruct H as [H|[H|H]]; auto. apply filter_In in H. tauto.
    - change (batch_tasks (DCancel a :: d)) with (batch_tasks d) in L_ntasks0.
      pose proof (zlen_filter_le (fun t => negb (is_desc a t)) (w_held k)). lia.
    - intros Hc. destruct (L_cf0 Hc) as (_ & _ & H3 & _). exfalso. apply (H3 a). left. reflexivity.
  Qed.

  (* ----- server side: head of u consumed ----- *)

  Lemma local_pop_plain w e d u k m :
    (match m with USubmit _ | UBatch _ | UCancel _ => True | _ => False end) ->
    Local w e d (m :: u) k -> Local w e d u k.
  Proof.
    intros Hm []. constructor; auto.
    - intros x r H. eapply L_wait0. right. exact H.
    - intros x H. eapply L_upd0. right. exact H.
    - intros dest b H. eapply L_res0. right. exact H.
    - intros t H. apply L_ret0. rewrite pending_tasks_cons.
      rewrite !in_app_iff in *. tauto.
    - destruct m; try contradiction; exact L_cache0.
    - destruct m; try contradiction; exact L_ntasks0.
    - intros Hb. specialize (L_exact0 Hb). rewrite last_receipt_cons_other in L_exact0 by (destruct m; try contradiction; reflexivity).
      exact L_exact0.
    - intros Hc. pose proof (L_cf0 Hc) as C. destruct m as [t|ts|x r|x y|x|a0]; try contradiction.
      + apply (localcf_pop_plain e d u k (USubmit t) I C).
      + apply (localcf_pop_plain e d u k (UBatch ts) I C).
      + destruct C as (_ & _ & _ & H4). exfalso. apply (H4 a0). left. reflexivity.
  Qed.


  (* completion bookkeeping: RESULT (completed_by = this worker) or UPDATE -1 *)
  Lemma local_pop_completion w e d u k m :
    (match m with UResult _ _ | UUpdate _ => True | _ => False end) ->
    Local w e d (m :: u) k -> Local w (set_tasks (e_num_tasks e - 1) e) d u k.
  Proof.
    intros Hm []. constructor; simpl; auto.
    - intros x r H. eapply L_wait0. right. exact H.
    - intros x H. eapply L_upd0. right. exact H.
    - intros dest b H. eapply L_res0. right. exact H.
    - intros t H. apply L_ret0. rewrite pending_tasks_cons.
      rewrite !in_app_iff in *. tauto.
    - destruct m; try contradiction; exact L_cache0.
    - rewrite completions_cons in L_ntasks0.
      assert (completions [m] = 1) as E by (destruct m; try contradiction; reflexivity). lia.
    - intros Hb. specialize (L_exact0 Hb). rewrite last_receipt_cons_other in L_exact0 by (destruct m; try contradiction; reflexivity).
      exact L_exact0.
    - intros Hc. apply (localcf_pop_completion e d u k m Hm (L_cf0 Hc)).
  Qed.


  (* WAITING: never "receipt not found"; the trimmed cache keeps every younger receipt *)
  Lemma local_waiting_found w e d u k m r : Local w e d (UWaiting m r :: u) k ->
    exists c' x, get_num_of_tasks_sent_since (e_cache e) r = Ok (c', x) /\ 0 <= x.
  Proof.
    intros []. destruct L_cache0 as (P & Hc & Hm & Hs).
    assert (Hpos : forall c, (forall a n0, In (a, n0) c -> In (a, n0) (e_cache e)) -> 0 <= counts c).
    { intros c Hi. apply counts_nonneg. intros a n0 Hin. specialize (L_cpos0 a n0 (Hi a n0 Hin)). lia. }
    destruct r as [x|].
    - change (receipts (UWaiting m (Some x) :: u)) with (Some x :: receipts u) in Hs. simpl in Hs.
      apply stut_head_in in Hs.
      assert (Hin : In x (map fst (e_cache e))) by (rewrite Hc, map_app; apply in_or_app; left; exact Hs).
      destruct (first_occurrence x (e_cache e) Hin) as (a & c & b & E & Hn).
      rewrite E, (gnts_at a x c b Hn). do 2 eexists. split; [reflexivity|].
      apply Hpos. intros a0 n0 H0. rewrite E. apply in_or_app. right. right. exact H0.
    - rewrite gnts_none. do 2 eexists. split; [reflexivity|]. apply Hpos. auto.
  Qed.

  Lemma local_pop_waiting w e d u k m r c' ei' si si' tot :
    Local w e d (UWaiting m r :: u) k ->
    handle_waiting (e_cache e) (e_num_idle e) si tot m r = Ok (c', ei', si') ->
    Local w (set_idle_cache ei' c' e) d u k.
  Proof.
    intros L Hw. pose proof L as []. assert (m = 1) by (eapply L_wait0; left; reflexivity). subst m.
    pose proof (handle_waiting_spec (e_cache e) (e_num_idle e) si tot 1 r) as S. rewrite Hw in S.
    destruct S as (x & Hg & -> & _ & _).
    destruct (local_waiting_found _ _ _ _ _ _ _ L) as (c2 & x2 & Hg2 & Hx). rewrite Hg in Hg2. inversion Hg2; subst c2 x2.
    destruct L_cache0 as (P & Hc & Hm & Hs).
    (* shape of the new cache *)
    assert (Hshape : exists P', c' = P' ++ entries d
              /\ match w_mrrs k with None => P' = [] | Some mm => exists P0 c, P' = P0 ++ [(mm, c)] end
              /\ stut (somes (receipts u)) (map fst P')
              /\ (exists pre, e_cache e = pre ++ c')
              /\ (r = w_mrrs k -> x = counts (entries d))).
    { destruct r as [y|].
      - change (receipts (UWaiting 1 (Some y) :: u)) with (Some y :: receipts u) in Hs. simpl in Hs.
        pose proof (stut_head_in _ _ _ Hs) as HyP.
        destruct (first_occurrence y P HyP) as (a & c & b1 & EP & Hn).
        rewrite Hc, EP, <- app_assoc in Hg. simpl in Hg. rewrite (gnts_at a y c (b1 ++ entries d) Hn) in Hg.
        inversion Hg; subst c' x. exists ((y, c) :: b1). split; [reflexivity|]. split; [|split; [|split]].
        + destruct (w_mrrs k) as [mm|]; [|subst P; destruct a; discriminate].
          destruct Hm as (P0 & cm & EP0).
          destruct (suffix_last a ((y, c) :: b1) P0 (mm, cm)) as (q & Eq); [rewrite <- EP; exact EP0|discriminate|].
          exists q, cm. exact Eq.
        + rewrite EP, map_app in Hs. simpl in Hs. simpl. eapply stut_trim; [exact Hs|exact Hn].
        + exists a. rewrite Hc, EP, <- app_assoc. reflexivity.
        + intros Er. destruct (w_mrrs k) as [mm|]; [|discriminate]. inversion Er; subst mm.
          destruct Hm as (P0 & cm & EP0).
          (* NoDup: the first occurrence of y is the last entry of P *)
          assert (b1 = []).
          { destruct b1 as [|z b1]; [reflexivity|exfalso].
            destruct (suffix_last (a ++ [(y, c)]) (z :: b1) P0 (y, cm)) as (q & Eq); [|discriminate|].
            { rewrite <- app_assoc. simpl. rewrite <- EP. exact EP0. }
            rewrite Hc, EP, Eq, map_app in L_cnodup0. apply NoDup_app_l in L_cnodup0.
            rewrite map_app in L_cnodup0. simpl in L_cnodup0.
            apply NoDup_remove_2 in L_cnodup0. apply L_cnodup0. apply in_or_app. right.
            rewrite map_app. apply in_or_app. right. left. reflexivity. }
          subst b1. reflexivity.
      - rewrite gnts_none in Hg. inversion Hg; subst c' x.
        change (receipts (UWaiting 1 None :: u)) with (None :: receipts u) in Hs. simpl in Hs.
        exists P. split; [exact Hc|]. split; [exact Hm|]. split; [exact Hs|]. split; [exists []; reflexivity|].
        intros Er. destruct (w_mrrs k); [discriminate|]. subst P. rewrite Hc. reflexivity. }
    destruct Hshape as (P' & Hc' & Hm' & Hs' & (pre & Hpre) & Hex).
    constructor; simpl; auto.
    - lia.
    - intros a c H. apply (L_cpos0 a c). rewrite Hpre. apply in_or_app. right. exact H.
    - rewrite Hpre, map_app in L_cnodup0. eapply NoDup_app_r. exact L_cnodup0.
    - intros y r0 H. eapply L_wait0. right. exact H.
    - intros y H. eapply L_upd0. right. exact H.
    - intros dest b H. eapply L_res0. right. exact H.
    - eauto.
    - intros Hb. specialize (L_exact0 Hb). rewrite last_receipt_cons_waiting in L_exact0.
      destruct (last_receipt u) as [r1|] eqn:El; [exact L_exact0|].
      rewrite (Hex L_exact0), (counts_entries d L_bne0).
      pose proof (has_batch_entries d L_bne0) as Hb2. pose proof (zlen_nonneg (batch_tasks d)).
      destruct (has_batch d); [|rewrite (proj1 Hb2 eq_refl); reflexivity].
      assert (zlen (batch_tasks d) <> 0) by (intro E0; apply Hb2 in E0; discriminate). lia.
    - intros Hcf. eapply localcf_e; [|apply (localcf_pop_plain e d u k (UWaiting 1 r) I (L_cf0 Hcf))]. reflexivity.
  Qed.

  (* ----- server side: d grows at the end ----- *)

  Lemma local_push_result w e d u k x : Local w e d u k -> Local w e (d ++ [DResult x]) u k.
  Proof.
    intros []. constructor; auto.
    - intros H. apply in_app_or in H. destruct H as [H|[H|[]]]; [auto|discriminate].
    - rewrite batch_tasks_app. simpl. rewrite app_nil_r. exact L_ret0.
    - rewrite entries_app. simpl. rewrite app_nil_r. exact L_cache0.
    - rewrite batch_tasks_app. simpl. rewrite app_nil_r. exact L_ntasks0.
    - rewrite has_batch_app. simpl. rewrite orb_false_r. exact L_exact0.
    - intros Hc. apply localcf_push_result. exact (L_cf0 Hc).
  Qed.

  Lemma local_push_cancel w e d u k a : cf = false -> Local w e d u k -> Local w e (d ++ [DCancel a]) u k.
  Proof.
    intros Hcf []. constructor; auto.
    - intros H. apply in_app_or in H. destruct H as [H|[H|[]]]; [auto|discriminate].
    - rewrite batch_tasks_app. simpl. rewrite app_nil_r. exact L_ret0.
    - rewrite entries_app. simpl. rewrite app_nil_r. exact L_cache0.
    - rewrite batch_tasks_app. simpl. rewrite app_nil_r. exact L_ntasks0.
    - rewrite has_batch_app. simpl. rewrite orb_false_r. exact L_exact0.
    - congruence.
  Qed.


  (* schedule_tasks: employee i receives the (possibly empty) assignment a *)


  Lemma local_schedule w e d u k a :
    (forall t, In t a -> valid_ret (tret t)) ->
    (forall t, In t a -> ~ In (tid t) (map fst (e_cache e))) ->
    Local w e d u k -> Local w (upd_emp e a) (d ++ batch_msgs a) u k.
  Proof.
    intros Hv Hf L. destruct a as [|t0 ts]; [simpl; rewrite app_nil_r; exact L|].
    destruct L. pose proof (zlen_nonneg ts) as Hz.
    assert (Hbt : batch_tasks (d ++ batch_msgs (t0 :: ts)) = batch_tasks d ++ t0 :: ts)
      by (rewrite batch_tasks_app, batch_tasks_msgs; reflexivity).
    assert (Hen : entries (d ++ batch_msgs (t0 :: ts)) = entries d ++ [(tid t0, zlen (t0 :: ts))])
      by (rewrite entries_app; reflexivity).
    constructor; try rewrite Hbt; try rewrite Hen; simpl; auto.
    - rewrite zlen_cons. lia.
    - intros a c H. apply in_app_or in H. destruct H as [H|[H|[]]]; [eauto|]. inversion H. rewrite zlen_cons. lia.
    - rewrite map_app. simpl. apply NoDup_snoc; [exact L_cnodup0|]. apply Hf. left. reflexivity.
    - intros H. apply in_app_or in H. destruct H as [H|[H|[]]]; [auto|discriminate].
    - intros t H. rewrite <- app_assoc in H. apply in_app_or in H. destruct H as [H|H].
      + apply L_ret0. apply in_or_app. left. exact H.
      + apply in_app_or in H. destruct H as [H|H]; [apply Hv; exact H|].
        apply L_ret0. apply in_or_app. right. exact H.
    - destruct L_cache0 as (P & Hc & Hm & Hs). exists P. rewrite Hc, <- app_assoc.
      split; [reflexivity|]. split; assumption.
    - rewrite zlen_app. lia.
    - intros Hb. specialize (L_exact0 Hb). destruct (last_receipt u); [exact L_exact0|].
      rewrite has_batch_app. simpl. rewrite orb_true_r. rewrite zlen_cons. destruct (has_batch d); lia.
    - intros Hcf. apply (localcf_schedule e d u k (t0 :: ts)). exact (L_cf0 Hcf).
  Qed.


End Local.
