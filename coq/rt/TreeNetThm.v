(* C07 (extension): proofs about rt/TreeNet.v -- routing of RESULT / SUBMIT / SUBMIT_BATCH in any
   well-formed tree of managers.  *)
From Coq Require Import ZArith List Bool Arith Lia ZifyBool Permutation.
From BQ Require Import rt.SchedPre gen.SchedArith rt.SchedArithThm rt.Routing rt.TreeNet.
Import ListNotations.
Open Scope Z_scope.

(* ---------- lists, paths, channels ---------- *)
Lemma path_eqb_true a b : path_eqb a b = true -> a = b.
Proof. unfold path_eqb. destruct (list_eq_dec Nat.eq_dec a b); [auto|discriminate]. Qed.

Lemma dir_eqb_true a b : dir_eqb a b = true -> a = b.
Proof. destruct a, b; simpl; congruence. Qed.

Lemma take_spec p d : forall l m r, take p d l = Some (m, r) ->
  exists pre post, l = pre ++ (p, d, m) :: post /\ r = pre ++ post.
Proof.
  induction l as [|[[p' d'] m'] l IH]; intros m r H; simpl in H; [discriminate|].
  destruct (path_eqb p p' && dir_eqb d d') eqn:E.
  - apply andb_true_iff in E. destruct E as [E1 E2]. apply path_eqb_true in E1. apply dir_eqb_true in E2.
    subst. inversion H; subst. exists [], r. split; reflexivity.
  - destruct (take p d l) as [[m2 r2]|] eqn:E2; [|discriminate]. inversion H; subst.
    destruct (IH _ _ eq_refl) as (pre & post & -> & ->).
    exists ((p', d', m') :: pre), post. split; reflexivity.
Qed.

Lemma take_some p d m : forall l, In (p, d, m) l -> exists m' r, take p d l = Some (m', r).
Proof.
  induction l as [|[[p' d'] m'] l IH]; intros H; [destruct H|]. simpl.
  destruct (path_eqb p p' && dir_eqb d d') eqn:E; [eauto|].
  destruct H as [H|H].
  - inversion H; subst. unfold path_eqb in E. destruct (list_eq_dec Nat.eq_dec p p); [|congruence].
    destruct d; discriminate.
  - destruct (IH H) as (m2 & r2 & ->). eauto.
Qed.

Lemma split_last_app : forall q j, split_last (q ++ [j]) = Some (q, j).
Proof.
  induction q as [|a q IH]; intros j; [reflexivity|].
  specialize (IH j). simpl. destruct (q ++ [j]) as [|n l] eqn:E; [destruct q; discriminate|].
  rewrite IH. reflexivity.
Qed.

Lemma split_last_inv : forall p q j, split_last p = Some (q, j) -> p = q ++ [j].
Proof.
  induction p as [|i p IH]; intros q j H; [discriminate|].
  destruct p as [|i2 p2].
  - inversion H; subst. reflexivity.
  - change (split_last (i :: i2 :: p2)) with
      (match split_last (i2 :: p2) with Some (q, j) => Some (i :: q, j) | None => None end) in H.
    destruct (split_last (i2 :: p2)) as [[q2 j2]|] eqn:E; [|discriminate].
    inversion H; subst. rewrite (IH q2 j eq_refl). reflexivity.
Qed.

Lemma nonempty_last (p : path) : p <> [] -> exists q j, p = q ++ [j].
Proof. intros H. destruct (exists_last H) as (q & j & ->). eauto. Qed.

Lemma nth_error_seq s n i : (i < n)%nat -> nth_error (seq s n) i = Some (s + i)%nat.
Proof.
  revert s i. induction n as [|n IH]; intros s i H; [lia|]. destruct i as [|i]; simpl.
  - f_equal. lia.
  - rewrite IH by lia. f_equal. lia.
Qed.

Lemma nth_error_emps t i e : nth_error (emps t) i = Some e -> e = i /\ (i < n_emp t)%nat.
Proof.
  unfold emps. intros H. assert (Hi : (i < n_emp t)%nat).
  { rewrite <- (seq_length (n_emp t) 0). apply nth_error_Some. congruence. }
  rewrite nth_error_seq in H by exact Hi. injection H as <-. split; [reflexivity|exact Hi].
Qed.

(* ---------- the hierarchy ---------- *)
Lemma node_at_app : forall q lb ub t j,
  node_at lb ub t (q ++ [j]) =
  match node_at lb ub t q with
  | Some (lb', ub', Node cs) =>
    match nth_error cs j with
    | Some c => Some (child_lb lb' ub' (zlen cs) j, child_ub lb' ub' (zlen cs) j, c)
    | None => None
    end
  | _ => None
  end.
Proof.
  induction q as [|i q IH]; intros lb ub t j; simpl.
  - destruct t as [n|cs]; [reflexivity|]. destruct (nth_error cs j); reflexivity.
  - destruct t as [n|cs]; [reflexivity|]. destruct (nth_error cs i); [apply IH|reflexivity].
Qed.

Lemma node_at_subnode : forall q lb ub t lb' ub' t',
  node_at lb ub t q = Some (lb', ub', t') -> subnode lb ub t lb' ub' t'.
Proof.
  induction q as [|i q IH]; intros lb ub t lb' ub' t' H; simpl in H.
  - inversion H; subst. constructor.
  - destruct t as [n|cs]; [discriminate|]. destruct (nth_error cs i) as [c|] eqn:E; [|discriminate].
    eapply sub_child; [exact E|]. apply IH. exact H.
Qed.

Lemma height_child cs : forall i c, nth_error cs i = Some c ->
  (height c <= fold_right (fun c m => Nat.max (height c) m) 0 cs)%nat.
Proof.
  induction cs as [|c0 cs IH]; intros i c H; [destruct i; discriminate|].
  destruct i as [|i]; simpl in *.
  - inversion H; subst. lia.
  - specialize (IH _ _ H). lia.
Qed.

Lemma height_pos t : (1 <= height t)%nat.
Proof. destruct t; simpl; lia. Qed.

Lemma node_at_height : forall q lb ub t lb' ub' t',
  node_at lb ub t q = Some (lb', ub', t') -> (length q + height t' <= height t)%nat.
Proof.
  induction q as [|i q IH]; intros lb ub t lb' ub' t' H; simpl in H.
  - inversion H; subst. simpl. lia.
  - destruct t as [n|cs]; [discriminate|]. destruct (nth_error cs i) as [c|] eqn:E; [|discriminate].
    specialize (IH _ _ _ _ _ _ H). pose proof (height_child cs i c E). simpl. lia.
Qed.

Lemma node_employees_emp t : node_employees t = Z.of_nat (n_emp t).
Proof. destruct t; reflexivity. Qed.

(* one routing step downwards at a node: the employee chosen is the one whose subtree owns w *)
Definition child_owns (lb ub : Z) (t : tree) (j : nat) (w : Z) : Prop :=
  match t with
  | Leaf n => (j < n)%nat /\ w = sw_w_id lb (Z.of_nat j)
  | Node cs => exists c, nth_error cs j = Some c /\
                worker_of (child_lb lb ub (zlen cs) j) (child_ub lb ub (zlen cs) j) c w
  end.

Lemma child_owns_worker lb ub t j w : child_owns lb ub t j w -> worker_of lb ub t w /\ (j < n_emp t)%nat.
Proof.
  destruct t as [n|cs]; simpl.
  - intros [H ->]. split; [constructor; assumption|assumption].
  - intros (c & Hn & Hw). split; [econstructor; eassumption|]. apply nth_error_Some. congruence.
Qed.

Lemma route_down lb ub t w : wf lb ub t -> worker_of lb ub t w ->
  node_is_my_worker lb ub t w = true /\
  exists j, get_employee_responsible_for lb (node_step lb ub t) (emps t) w = Ok j /\ child_owns lb ub t j w.
Proof.
  intros Hwf Hw. split; [apply worker_mine; assumption|].
  destruct t as [n|cs].
  - apply worker_of_leaf_inv in Hw. destruct Hw as (i & Hi & ->).
    destruct (routing_leaf (E := nat) lb ub (Leaf n) lb ub n (emps (Leaf n)) Hwf (sub_refl _ _ _)) as [H _].
    { unfold emps. simpl. apply seq_length. }
    assert (He : nth_error (emps (Leaf n)) i = Some i).
    { unfold emps. simpl. rewrite nth_error_seq by assumption. reflexivity. }
    destruct (H i i He) as (_ & G & _). exists i. split; [exact G|]. simpl. auto.
  - destruct (routing_child (E := nat) lb ub (Node cs) lb ub cs w (emps (Node cs)) Hwf (sub_refl _ _ _) Hw)
      as (i & c & e & Hn & He & Hc & G).
    { unfold emps. simpl. apply seq_length. }
    apply nth_error_emps in He. destruct He as [-> _].
    exists i. split; [exact G|]. simpl. eauto.
Qed.

(* ---------- counting ---------- *)
Lemma cnt_app x a b : cnt x (a ++ b) = (cnt x a + cnt x b)%nat.
Proof. unfold cnt. apply count_occ_app. Qed.

Lemma perm_b_spec a b : perm_b a b = true -> forall x, cnt x a = cnt x b.
Proof.
  unfold perm_b. intros H x. rewrite forallb_forall in H.
  destruct (in_dec Nat.eq_dec x (a ++ b)) as [Hi|Hn].
  - specialize (H x Hi). apply Nat.eqb_eq in H. exact H.
  - unfold cnt. rewrite in_app_iff in Hn.
    rewrite (proj1 (count_occ_not_In Nat.eq_dec a x)) by tauto.
    rewrite (proj1 (count_occ_not_In Nat.eq_dec b x)) by tauto. reflexivity.
Qed.

Lemma perm_b_length a b : perm_b a b = true -> length a = length b.
Proof.
  intros H. apply Permutation_length. apply (Permutation_count_occ Nat.eq_dec). intros x. apply (perm_b_spec a b H x).
Qed.

Lemma perm_b_refl a : perm_b a a = true.
Proof. unfold perm_b. apply forallb_forall. intros x _. apply Nat.eqb_refl. Qed.

Lemma node_at_worker_up : forall q lb ub t lb' ub' t' w,
  node_at lb ub t q = Some (lb', ub', t') -> worker_of lb' ub' t' w -> worker_of lb ub t w.
Proof.
  induction q as [|i q IH]; intros lb ub t lb' ub' t' w H Hw; simpl in H.
  - inversion H; subst. exact Hw.
  - destruct t as [n|cs]; [discriminate|]. destruct (nth_error cs i) as [c|] eqn:E; [|discriminate].
    eapply wo_node; [exact E|]. eapply IH; eassumption.
Qed.

Section Inv.
  Variables (LB UB : Z) (T : tree).
  Hypothesis Hwf : wf LB UB T.
  Hypothesis HLB : 0 <= LB.

  Definition below (p : path) (w : Z) : Prop :=
    exists q j lb ub t, p = q ++ [j] /\ node_at LB UB T q = Some (lb, ub, t) /\ child_owns lb ub t j w.
  Definition chan_ok (p : path) : Prop :=
    exists q j lb ub t, p = q ++ [j] /\ node_at LB UB T q = Some (lb, ub, t) /\ (j < n_emp t)%nat.
  Definition sysw (w : Z) : Prop := worker_of LB UB T w.

  Definition msg_ok (x : pmsg) : Prop :=
    match x with
    | (p, Down, TRes _ dest _) => below p dest
    | (p, Up, TRes _ dest by_) => below p by_ /\ (dest = -1 \/ sysw dest)
    | (p, _, TBatch _ ts) => chan_ok p /\ ts <> []
    end.

  Definition inbox_ok (x : path * tmsg) : Prop :=
    match x with
    | (p, TRes _ dest _) => worker_at LB UB T p = Some dest
    | (p, TBatch _ ts) => (exists w, worker_at LB UB T p = Some w) /\ ts <> []
    end.

  Definition wsum (l : list pmsg) : nat := fold_right (fun x a => (weight T x + a)%nat) 0%nat l.

  Record inv (s : net) : Prop := mkInv {
    i_err : n_err s = [];
    i_chan : Forall msg_ok (n_chan s);
    i_inbox : Forall inbox_ok (n_inbox s);
    i_tids : forall y, (cnt y (chan_tids (n_chan s)) + cnt y (inbox_tids (n_inbox s)))%nat = cnt y (n_tinj s);
    i_rids : forall y, (cnt y (chan_rids (n_chan s)) + cnt y (inbox_rids (n_inbox s)) + cnt y (n_client s))%nat
                       = cnt y (n_rinj s)
  }.

  Lemma below_chan_ok p w : below p w -> chan_ok p.
  Proof.
    intros (q & j & lb & ub & t & -> & Hn & Hc). exists q, j, lb, ub, t. repeat split; try assumption.
    apply (child_owns_worker _ _ _ _ _ Hc).
  Qed.

  Lemma node_wf q lb ub t : node_at LB UB T q = Some (lb, ub, t) -> wf lb ub t.
  Proof. intros H. eapply subnode_wf; [exact Hwf|]. apply node_at_subnode with (q := q). exact H. Qed.

  Lemma below_here q j lb ub t w : node_at LB UB T q = Some (lb, ub, t) -> below (q ++ [j]) w -> child_owns lb ub t j w.
  Proof.
    intros Hn (q' & j' & lb' & ub' & t' & E & Hn' & Hc). apply app_inj_tail in E. destruct E; subst.
    rewrite Hn in Hn'. inversion Hn'; subst. exact Hc.
  Qed.

  Lemma below_node q' j' lb ub t w : node_at LB UB T (q' ++ [j']) = Some (lb, ub, t) -> worker_of lb ub t w ->
    below (q' ++ [j']) w.
  Proof.
    intros Hn Hw. rewrite node_at_app in Hn.
    destruct (node_at LB UB T q') as [[[lb0 ub0] [n|cs]]|] eqn:E; try discriminate.
    destruct (nth_error cs j') as [c|] eqn:Ec; [|discriminate]. inversion Hn; subst.
    exists q', j', lb0, ub0, (Node cs). repeat split; try assumption. simpl. eauto.
  Qed.

  Lemma node_chan_ok q' j' lb ub t : node_at LB UB T (q' ++ [j']) = Some (lb, ub, t) -> chan_ok (q' ++ [j']).
  Proof.
    intros Hn. rewrite node_at_app in Hn.
    destruct (node_at LB UB T q') as [[[lb0 ub0] [n|cs]]|] eqn:E; try discriminate.
    destruct (nth_error cs j') as [c|] eqn:Ec; [|discriminate].
    exists q', j', lb0, ub0, (Node cs). repeat split; try assumption. simpl. apply nth_error_Some. congruence.
  Qed.

  Lemma worker_at_spec p w : worker_at LB UB T p = Some w -> below p w /\ sysw w /\ node_at LB UB T p = None.
  Proof.
    unfold worker_at. destruct (split_last p) as [[q j]|] eqn:E; [|discriminate].
    apply split_last_inv in E. subst p.
    destruct (node_at LB UB T q) as [[[lb ub] [n|cs]]|] eqn:En; try discriminate.
    destruct (j <? n)%nat eqn:Ej; [|discriminate]. intros H. inversion H; subst.
    assert (Hc : child_owns lb ub (Leaf n) j (sw_w_id lb (Z.of_nat j))) by (simpl; split; [lia|reflexivity]).
    split; [exists q, j, lb, ub, (Leaf n); auto|]. split.
    - unfold sysw. eapply node_at_worker_up; [exact En|]. apply (child_owns_worker _ _ _ _ _ Hc).
    - rewrite node_at_app, En. reflexivity.
  Qed.

  Lemma below_worker_at p w w' : worker_at LB UB T p = Some w' -> below p w -> w = w'.
  Proof.
    unfold worker_at. destruct (split_last p) as [[q j]|] eqn:E; [|discriminate].
    apply split_last_inv in E. subst p.
    destruct (node_at LB UB T q) as [[[lb ub] [n|cs]]|] eqn:En; try discriminate.
    destruct (j <? n)%nat eqn:Ej; [|discriminate]. intros H Hb. inversion H; subst.
    apply (below_here _ _ _ _ _ _ En) in Hb. simpl in Hb. tauto.
  Qed.

  (* ---------- weights ---------- *)
  Lemma wsum_app a b : wsum (a ++ b) = (wsum a + wsum b)%nat.
  Proof. unfold wsum. induction a as [|x a IH]; simpl; [reflexivity|]. rewrite IH. lia. Qed.

  Lemma chan_tids_app a b : chan_tids (a ++ b) = chan_tids a ++ chan_tids b.
  Proof. unfold chan_tids. apply flat_map_app. Qed.
  Lemma chan_rids_app a b : chan_rids (a ++ b) = chan_rids a ++ chan_rids b.
  Proof. unfold chan_rids. apply flat_map_app. Qed.
  Lemma inbox_tids_app a b : inbox_tids (a ++ b) = inbox_tids a ++ inbox_tids b.
  Proof. unfold inbox_tids. apply flat_map_app. Qed.
  Lemma inbox_rids_app a b : inbox_rids (a ++ b) = inbox_rids a ++ inbox_rids b.
  Proof. unfold inbox_rids. apply flat_map_app. Qed.

  (* ---------- schedule_tasks ---------- *)
  Lemma sends_spec q lb ub t : node_at LB UB T q = Some (lb, ub, t) -> forall asg j0,
    (j0 + length asg <= n_emp t)%nat ->
    Forall msg_ok (sends q j0 asg) /\ chan_tids (sends q j0 asg) = concat asg /\ chan_rids (sends q j0 asg) = [] /\
    wsum (sends q j0 asg) = ((height T + 1 - (length q + 1)) * length (concat asg))%nat.
  Proof.
    intros Hn. induction asg as [|a asg IH]; intros j0 Hj; simpl.
    - repeat split; try constructor. lia.
    - destruct (IH (S j0)) as (I1 & I2 & I3 & I4); [simpl in Hj; lia|].
      destruct a as [|x a].
      + simpl. repeat split; try assumption.
      + simpl. repeat split.
        * constructor; [|exact I1]. simpl. split; [|discriminate].
          exists q, j0, lb, ub, t. repeat split; try assumption. simpl in Hj. lia.
        * unfold chan_tids in *. simpl. rewrite I2. reflexivity.
        * unfold chan_rids in *. simpl. exact I3.
        * unfold wsum in *. simpl. rewrite I4. rewrite !app_length. simpl. generalize (height T + 1 - (length q + 1))%nat. intros K. nia.
  Qed.

  Lemma schedule_spec q lb ub t ts asg o : node_at LB UB T q = Some (lb, ub, t) ->
    schedule q t ts asg = Some o ->
    Forall msg_ok o /\ (forall y, cnt y (chan_tids o) = cnt y ts) /\ chan_rids o = [] /\
    wsum o = ((height T + 1 - (length q + 1)) * length ts)%nat.
  Proof.
    intros Hn. unfold schedule. destruct ts as [|x ts].
    - intros H. inversion H; subst. repeat split; try constructor. simpl. lia.
    - destruct (valid_asg (n_emp t) (x :: ts) asg) eqn:E; [|discriminate]. intros H. inversion H; subst.
      unfold valid_asg in E. apply andb_true_iff in E. destruct E as [E1 E2]. apply Nat.eqb_eq in E1.
      destruct (sends_spec q lb ub t Hn asg 0%nat) as (I1 & I2 & I3 & I4); [lia|].
      repeat split; try assumption.
      + intros y. rewrite I2. apply perm_b_spec. exact E2.
      + rewrite I4. rewrite (perm_b_length _ _ E2). reflexivity.
  Qed.

  (* ---------- send_result_down ---------- *)
  Lemma srd_spec q lb ub t m dest : node_at LB UB T q = Some (lb, ub, t) -> worker_of lb ub t dest ->
    exists j, send_result_down q lb ub t m dest = Ok [(q ++ [j], Down, m)] /\ below (q ++ [j]) dest.
  Proof.
    intros Hn Hw. destruct (route_down lb ub t dest (node_wf _ _ _ _ Hn) Hw) as (Hm & j & Hg & Hc).
    exists j. unfold send_result_down. rewrite Hm, Hg. simpl. split; [reflexivity|].
    exists q, j, lb, ub, t. auto.
  Qed.

  (* ---------- one handler call: what it may put on the channels ---------- *)
  Definition out_ok (x : pmsg) (o : list pmsg) (cl : list nat) : Prop :=
    Forall msg_ok o /\ (forall y, cnt y (chan_tids o) = cnt y (tids_of (snd x))) /\
    (forall y, (cnt y (chan_rids o) + cnt y cl)%nat = cnt y (rids_of (snd x))) /\ (wsum o < weight T x)%nat.

  Lemma apply_out s x pre post o cl : inv s -> n_chan s = pre ++ x :: post -> out_ok x o cl ->
    inv (with_out s (pre ++ post) o cl) /\ (measure T (with_out s (pre ++ post) o cl) < measure T s)%nat.
  Proof.
    intros [I1 I2 I3 I4 I5] Hc (O1 & O2 & O3 & O4). rewrite Hc in *.
    apply Forall_app in I2. destruct I2 as [I2a I2b]. inversion I2b as [|? ? Hx I2c]; subst.
    split; [constructor; simpl|].
    - exact I1.
    - apply Forall_app. split; [apply Forall_app; split; assumption|assumption].
    - exact I3.
    - intros y. specialize (I4 y). specialize (O2 y).
      rewrite !chan_tids_app, !cnt_app in *. unfold chan_tids in I4 at 2. simpl in I4. fold (chan_tids post) in I4.
      rewrite cnt_app in I4. lia.
    - intros y. specialize (I5 y). specialize (O3 y).
      rewrite !chan_rids_app, !cnt_app in *. unfold chan_rids in I5 at 2. simpl in I5. fold (chan_rids post) in I5.
      rewrite cnt_app in I5. lia.
    - unfold measure. simpl. rewrite Hc. fold (wsum (pre ++ x :: post)). fold (wsum ((pre ++ post) ++ o)).
      rewrite !wsum_app. change (wsum (x :: post)) with (weight T x + wsum post)%nat. lia.
  Qed.

  Lemma below_to_worker p lb ub t w : node_at LB UB T p = Some (lb, ub, t) -> below p w -> worker_of lb ub t w.
  Proof.
    intros Hn (q & j & lb0 & ub0 & t0 & -> & Hn0 & Hc). rewrite node_at_app, Hn0 in Hn.
    destruct t0 as [n|cs]; [discriminate|]. destruct (nth_error cs j) as [c|] eqn:E; [|discriminate].
    inversion Hn; subst. simpl in Hc. destruct Hc as (c' & E' & Hw). congruence.
  Qed.

  Lemma node_depth q lb ub t : node_at LB UB T q = Some (lb, ub, t) -> (length q + 1 <= height T)%nat.
  Proof. intros H. pose proof (node_at_height _ _ _ _ _ _ _ H). pose proof (height_pos t). lia. Qed.

  Lemma node_step_pos lb ub t : wf lb ub t -> (node_step lb ub t =? 0) = false.
  Proof. intros H. destruct H; simpl; unfold sw_step_size; lia. Qed.

  Lemma wsum_one x : wsum [x] = weight T x.
  Proof. unfold wsum. simpl. lia. Qed.

  Lemma wlt a b n : (a < b)%nat -> (1 <= n)%nat -> (a * n < b * n)%nat.
  Proof. intros. nia. Qed.
  Ltac split_out := unfold out_ok; split; [|split; [|split]].
  Lemma cnt_nil y : cnt y [] = 0%nat.
  Proof. reflexivity. Qed.
  Lemma chan_one p d m : chan_tids [(p, d, m)] = tids_of m /\ chan_rids [(p, d, m)] = rids_of m.
  Proof. unfold chan_tids, chan_rids. simpl. rewrite !app_nil_r. auto. Qed.

  (* Manager.handle_message ABOVE *)
  Lemma above_ok p lb ub t m asg r : node_at LB UB T p = Some (lb, ub, t) -> msg_ok (p, Down, m) ->
    handle_above p lb ub t m asg = Some r -> exists o, r = Ok o /\ out_ok (p, Down, m) o [].
  Proof.
    intros Hn Hm Hh. pose proof (node_depth _ _ _ _ Hn) as Hd. destruct m as [rid dest by_|sg ts]; simpl in Hm, Hh.
    - inversion Hh; subst. pose proof (below_to_worker _ _ _ _ _ Hn Hm) as Hw.
      destruct (srd_spec p lb ub t (TRes rid dest by_) dest Hn Hw) as (j & -> & Hb).
      eexists. split; [reflexivity|]. split_out.
      + constructor; [exact Hb|constructor].
      + intros y. rewrite (proj1 (chan_one _ _ _)). reflexivity.
      + intros y. rewrite (proj2 (chan_one _ _ _)), cnt_nil. simpl snd. lia.
      + rewrite wsum_one. simpl. rewrite app_length. simpl. lia.
    - destruct Hm as [Hc Hne]. destruct ts as [|x ts]; [congruence|].
      destruct (schedule p t (x :: ts) asg) as [o|] eqn:Es; [|discriminate]. inversion Hh; subst.
      destruct (schedule_spec p lb ub t _ _ _ Hn Es) as (S1 & S2 & S3 & S4).
      exists o. split; [reflexivity|]. split_out.
      + exact S1.
      + exact S2.
      + intros y. rewrite S3. reflexivity.
      + rewrite S4. simpl msize. apply wlt; [lia|simpl; lia].
  Qed.

  (* DetachedServer.handle_message BELOW *)
  Lemma below_root_ok j m asg r : (j < n_emp T)%nat -> msg_ok ([j], Up, m) ->
    handle_below_root LB UB T m asg = Some r -> exists o cl, r = Ok (o, cl) /\ out_ok ([j], Up, m) o cl.
  Proof.
    intros Hj Hm Hh. assert (Hn : node_at LB UB T [] = Some (LB, UB, T)) by reflexivity.
    pose proof (height_pos T) as Hp.
    destruct m as [rid dest by_|sg ts]; simpl in Hm, Hh.
    - destruct Hm as [Hb Hd]. apply (below_here [] j _ _ _ _ Hn) in Hb.
      destruct (child_owns_worker _ _ _ _ _ Hb) as [Hwb _].
      destruct (route_down _ _ _ _ Hwf Hwb) as (_ & jb & Eb & _). rewrite Eb in Hh.
      destruct (dest =? -1) eqn:Ed.
      + inversion Hh; subst. exists [], [rid]. split; [reflexivity|]. split_out.
        * constructor.
        * intros y. reflexivity.
        * intros y. reflexivity.
        * simpl. lia.
      + destruct Hd as [Hd|Hd]; [lia|].
        destruct (srd_spec [] LB UB T (TRes rid dest by_) dest Hn Hd) as (j2 & E & Hb2). rewrite E in Hh.
        inversion Hh; subst. eexists. exists []. split; [reflexivity|]. split_out.
        * constructor; [exact Hb2|constructor].
        * intros y. rewrite (proj1 (chan_one _ _ _)). reflexivity.
        * intros y. rewrite (proj2 (chan_one _ _ _)), cnt_nil. simpl snd. lia.
        * rewrite wsum_one. simpl. lia.
    - destruct Hm as [Hc Hne]. destruct (schedule [] T ts asg) as [o|] eqn:Es; [|discriminate]. inversion Hh; subst.
      destruct (schedule_spec [] LB UB T _ _ _ Hn Es) as (S1 & S2 & S3 & S4).
      exists o, []. split; [reflexivity|]. split_out.
      + exact S1.
      + exact S2.
      + intros y. rewrite S3. reflexivity.
      + rewrite S4. simpl msize. apply wlt; [simpl; lia|destruct ts; [congruence|simpl; lia]].
  Qed.

  Lemma suos_form ni (ts : list nat) :
    send_up_or_schedule_tasks ni up_marker ts [] =
    Ok ((if negb (ni =? 0) then [APut up_marker M_UPDATE (PInt ni); ASchedule (py_to ni ts); AUpdateUpstream] else [])
        ++ (if ni <? zlen ts then [APut up_marker M_SUBMIT_BATCH (PTasks (py_from ni ts))] else [])).
  Proof.
    unfold send_up_or_schedule_tasks. cbv zeta. destruct (negb (ni =? 0)); destruct (ni <? zlen ts); reflexivity.
  Qed.

  Lemma py_split ni (ts : list nat) : 0 <= ni ->
    py_to ni ts ++ py_from ni ts = ts /\ ((ni <? zlen ts) = false -> py_from ni ts = []) /\
    ((ni <? zlen ts) = true -> py_from ni ts <> []).
  Proof.
    intros Hni. pose proof (py_to_from ni ts) as Hs. pose proof (py_to_length ni ts Hni) as Hl.
    split; [exact Hs|]. split; intros Hc.
    - apply zlen_zero. apply (f_equal zlen) in Hs. rewrite zlen_app in Hs. lia.
    - intros Hnil. rewrite Hnil, app_nil_r in Hs. rewrite Hs in Hl. lia.
  Qed.

  (* Manager.handle_message BELOW *)
  Lemma below_mgr_ok q' j' j lb ub t m ni asg r : let q := q' ++ [j'] in
    node_at LB UB T q = Some (lb, ub, t) -> (j < n_emp t)%nat -> 0 <= ni -> msg_ok (q ++ [j], Up, m) ->
    handle_below_mgr q lb ub t m ni asg = Some r -> exists o, r = Ok o /\ out_ok (q ++ [j], Up, m) o [].
  Proof.
    intros q Hn Hj Hni Hm Hh. pose proof (node_depth _ _ _ _ Hn) as Hd. pose proof (node_chan_ok _ _ _ _ _ Hn) as Hcq.
    fold q in Hcq.
    destruct m as [rid dest by_|sg ts]; simpl in Hm, Hh.
    - destruct Hm as [Hb Hdest]. apply (below_here q j _ _ _ _ Hn) in Hb.
      destruct (child_owns_worker _ _ _ _ _ Hb) as [Hwb _].
      destruct (route_down _ _ _ _ (node_wf _ _ _ _ Hn) Hwb) as (_ & jb & Eb & _). rewrite Eb in Hh.
      rewrite manager_handle_result_spec in Hh. simpl app in Hh.
      change (is_my_worker lb (node_step lb ub t) (node_employees t) dest) with (node_is_my_worker lb ub t dest) in Hh.
      destruct (node_is_my_worker lb ub t dest) eqn:Em.
      + assert (Hw : worker_of lb ub t dest).
        { destruct Hdest as [->|Hs].
          - rewrite (routing_client LB UB T lb ub t Hwf HLB (node_at_subnode _ _ _ _ _ _ _ Hn)) in Em. discriminate.
          - apply (routing_mine_iff LB UB T lb ub t dest Hwf (node_at_subnode _ _ _ _ _ _ _ Hn) Hs). exact Em. }
        destruct (srd_spec q lb ub t (TRes rid dest by_) dest Hn Hw) as (j2 & E & Hb2).
        simpl in Hh. rewrite E in Hh. inversion Hh; subst. eexists. split; [reflexivity|]. split_out.
        * constructor; [exact Hb2|constructor].
        * intros y. simpl app. rewrite (proj1 (chan_one _ _ _)). reflexivity.
        * intros y. simpl app. rewrite (proj2 (chan_one _ _ _)), cnt_nil. simpl snd. lia.
        * simpl app. rewrite wsum_one. simpl. rewrite !app_length. simpl. lia.
      + simpl in Hh. inversion Hh; subst. eexists. split; [reflexivity|]. split_out.
        * constructor; [|constructor]. simpl. split; [|exact Hdest]. apply (below_node _ _ _ _ _ _ Hn Hwb).
        * intros y. rewrite (proj1 (chan_one _ _ _)). reflexivity.
        * intros y. rewrite (proj2 (chan_one _ _ _)), cnt_nil. simpl snd. lia.
        * rewrite wsum_one. simpl. rewrite !app_length. simpl. lia.
    - destruct Hm as [Hc Hne]. rewrite suos_form in Hh.
      destruct (py_split ni ts Hni) as (Hs & Hf & Ht).
      assert (Hlen : (length (py_to ni ts) + length (py_from ni ts))%nat = length ts) by (rewrite <- app_length, Hs; reflexivity).
      assert (Hts : (1 <= length ts)%nat) by (destruct ts; [congruence|simpl; lia]).
      assert (Hcnt : forall y, cnt y ts = (cnt y (py_to ni ts) + cnt y (py_from ni ts))%nat)
        by (intros y; rewrite <- cnt_app, Hs; reflexivity).
      destruct (negb (ni =? 0)) eqn:E0; destruct (ni <? zlen ts) eqn:E1; simpl in Hh.
      + destruct (schedule q t (py_to ni ts) asg) as [o1|] eqn:Es; [|discriminate]. inversion Hh; subst.
        destruct (schedule_spec q lb ub t _ _ _ Hn Es) as (S1 & S2 & S3 & S4).
        eexists. split; [reflexivity|]. simpl app. split_out.
        * apply Forall_app. split; [exact S1|]. constructor; [|constructor]. simpl. split; [exact Hcq|]. apply Ht. reflexivity.
        * intros y. rewrite chan_tids_app, cnt_app, S2, (proj1 (chan_one _ _ _)). simpl. rewrite Hcnt. reflexivity.
        * intros y. rewrite chan_rids_app, S3, (proj2 (chan_one _ _ _)). reflexivity.
        * rewrite wsum_app, S4, wsum_one. simpl. rewrite !app_length. simpl.
          generalize dependent (length (py_to ni ts)). generalize dependent (length (py_from ni ts)). intros. nia.
      + destruct (schedule q t (py_to ni ts) asg) as [o1|] eqn:Es; [|discriminate]. inversion Hh; subst.
        destruct (schedule_spec q lb ub t _ _ _ Hn Es) as (S1 & S2 & S3 & S4). rewrite (Hf eq_refl) in *.
        eexists. split; [reflexivity|]. simpl app. rewrite !app_nil_r. split_out.
        * exact S1.
        * intros y. rewrite S2. simpl. rewrite Hcnt. rewrite cnt_nil. lia.
        * intros y. rewrite S3. reflexivity.
        * rewrite S4. simpl. rewrite !app_length. simpl. simpl in Hlen.
          generalize dependent (length (py_to ni ts)). intros. nia.
      + assert (ni = 0) by lia. subst ni. rewrite py_from_0 in *. inversion Hh; subst.
        eexists. split; [reflexivity|]. simpl app. split_out.
        * constructor; [|constructor]. simpl. split; [exact Hcq|exact Hne].
        * intros y. rewrite (proj1 (chan_one _ _ _)). reflexivity.
        * intros y. rewrite (proj2 (chan_one _ _ _)). reflexivity.
        * rewrite wsum_one. simpl. rewrite !app_length. simpl. nia.
      + exfalso. assert (ni = 0) by lia. subst ni. pose proof (zlen_nonneg ts). assert (zlen ts = 0) by lia.
        apply zlen_zero in H0. congruence.
  Qed.

  Lemma chan_ok_depth p : chan_ok p -> (length p <= height T)%nat.
  Proof.
    intros (q & j & lb & ub & t & -> & Hn & _). pose proof (node_depth _ _ _ _ Hn). rewrite app_length. simpl. lia.
  Qed.

  Lemma msg_ok_chan p d m : msg_ok (p, d, m) -> chan_ok p /\ (1 <= msize m)%nat.
  Proof.
    destruct m as [rid dest by_|sg ts]; destruct d; simpl.
    - intros [H _]. split; [eapply below_chan_ok; eassumption|lia].
    - intros H. split; [eapply below_chan_ok; eassumption|lia].
    - intros [H Hne]. split; [exact H|]. destruct ts; [congruence|simpl; lia].
    - intros [H Hne]. split; [exact H|]. destruct ts; [congruence|simpl; lia].
  Qed.

  Lemma inv_net0 : inv net0.
  Proof. constructor; simpl; try constructor; intros; reflexivity. Qed.

  (* messages appended by an injection *)
  Lemma inv_inject s o ts rs : inv s -> Forall msg_ok o ->
    (forall y, cnt y (chan_tids o) = cnt y ts) -> (forall y, cnt y (chan_rids o) = cnt y rs) ->
    inv (mkNet (n_chan s ++ o) (n_inbox s) (n_client s) (n_err s) (n_rinj s ++ rs) (n_tinj s ++ ts)).
  Proof.
    intros [I1 I2 I3 I4 I5] Ho Ht Hr. constructor; simpl.
    - exact I1.
    - apply Forall_app. split; assumption.
    - exact I3.
    - intros y. rewrite chan_tids_app, !cnt_app, Ht, <- (I4 y). lia.
    - intros y. rewrite chan_rids_app, !cnt_app, Hr, <- (I5 y). lia.
  Qed.

  Theorem tstep_inv s e s' : inv s -> tstep LB UB T s e = Some s' ->
    inv s' /\ (is_inject e = false -> (measure T s' < measure T s)%nat).
  Proof.
    intros Hi Hs. destruct e as [p rid dst|p sg ts|ts asg|p d ni asg|p]; simpl in Hs.
    - (* worker sends RESULT *)
      destruct (worker_at LB UB T p) as [me|] eqn:Ep; [|discriminate].
      destruct (match dst with Some p' => worker_at LB UB T p' | None => Some (-1) end) as [dest|] eqn:Ed; [|discriminate].
      inversion Hs; subst. split; [|discriminate].
      replace (n_tinj s) with (n_tinj s ++ []) by apply app_nil_r.
      apply inv_inject; [exact Hi| | |].
      + constructor; [|constructor]. simpl. destruct (worker_at_spec _ _ Ep) as (Hb & _ & _). split; [exact Hb|].
        destruct dst as [p'|]; [|inversion Ed; auto]. right. apply (worker_at_spec _ _ Ed).
      + intros y. rewrite (proj1 (chan_one _ _ _)). reflexivity.
      + intros y. rewrite (proj2 (chan_one _ _ _)). reflexivity.
    - (* worker sends SUBMIT / SUBMIT_BATCH *)
      destruct (worker_at LB UB T p) as [me|] eqn:Ep; [|discriminate].
      destruct ts as [|x r]; [discriminate|].
      destruct (sg && negb (Nat.eqb (length r) 0)); [discriminate|].
      inversion Hs; subst. split; [|discriminate].
      replace (n_rinj s) with (n_rinj s ++ []) by apply app_nil_r.
      apply inv_inject; [exact Hi| | |].
      + constructor; [|constructor]. simpl. destruct (worker_at_spec _ _ Ep) as (Hb & _ & _).
        split; [eapply below_chan_ok; exact Hb|discriminate].
      + intros y. rewrite (proj1 (chan_one _ _ _)). reflexivity.
      + intros y. rewrite (proj2 (chan_one _ _ _)). reflexivity.
    - (* the server schedules new tasks *)
      destruct (schedule [] T ts asg) as [o|] eqn:Es; [|discriminate]. inversion Hs; subst. split; [|discriminate].
      destruct (schedule_spec [] LB UB T ts asg o eq_refl Es) as (S1 & S2 & S3 & _).
      replace (n_rinj s) with (n_rinj s ++ []) by apply app_nil_r.
      apply inv_inject; [exact Hi|exact S1|exact S2|]. intros y. rewrite S3. reflexivity.
    - (* a node handles a message *)
      destruct d.
      + destruct (take p Up (n_chan s)) as [[m rest]|] eqn:Et; [|discriminate].
        destruct (take_spec _ _ _ _ _ Et) as (pre & post & Hc & ->).
        destruct (split_last p) as [[q j]|] eqn:El; [|discriminate]. apply split_last_inv in El. subst p.
        destruct (node_at LB UB T q) as [[[lb ub] t]|] eqn:En; [|discriminate].
        destruct (j <? n_emp t)%nat eqn:Ej; [|discriminate]. simpl in Hs.
        rewrite (node_step_pos _ _ _ (node_wf _ _ _ _ En)) in Hs.
        assert (Hm : msg_ok (q ++ [j], Up, m)).
        { pose proof (i_chan _ Hi) as Hf. rewrite Hc in Hf. apply Forall_app in Hf. destruct Hf as [_ Hf].
          inversion Hf; assumption. }
        destruct q as [|a q0].
        * simpl in En. inversion En; subst lb ub t.
          destruct (handle_below_root LB UB T m asg) as [r|] eqn:Eh; [|discriminate].
          destruct (below_root_ok j m asg r ltac:(lia) Hm Eh) as (o & cl & -> & Ho).
          inversion Hs; subst. destruct (apply_out s _ pre post o cl Hi Hc Ho). split; [assumption|auto].
        * destruct (ni <? 0) eqn:Eni; [discriminate|].
          destruct (nonempty_last (a :: q0) ltac:(discriminate)) as (q' & j' & Eq). rewrite Eq in *.
          destruct (handle_below_mgr (q' ++ [j']) lb ub t m ni asg) as [r|] eqn:Eh; [|discriminate].
          destruct (below_mgr_ok q' j' j lb ub t m ni asg r En ltac:(lia) ltac:(lia) Hm Eh) as (o & -> & Ho).
          simpl in Hs. inversion Hs; subst. destruct (apply_out s _ pre post o [] Hi Hc Ho). split; [assumption|auto].
      + destruct (take p Down (n_chan s)) as [[m rest]|] eqn:Et; [|discriminate].
        destruct (take_spec _ _ _ _ _ Et) as (pre & post & Hc & ->).
        destruct (node_at LB UB T p) as [[[lb ub] t]|] eqn:En; [|discriminate].
        destruct p as [|a p0]; [discriminate|].
        rewrite (node_step_pos _ _ _ (node_wf _ _ _ _ En)) in Hs.
        assert (Hm : msg_ok (a :: p0, Down, m)).
        { pose proof (i_chan _ Hi) as Hf. rewrite Hc in Hf. apply Forall_app in Hf. destruct Hf as [_ Hf].
          inversion Hf; assumption. }
        destruct (handle_above (a :: p0) lb ub t m asg) as [r|] eqn:Eh; [|discriminate].
        destruct (above_ok _ _ _ _ _ _ _ En Hm Eh) as (o & -> & Ho).
        simpl in Hs. inversion Hs; subst. destruct (apply_out s _ pre post o [] Hi Hc Ho). split; [assumption|auto].
    - (* a worker receives *)
      destruct (take p Down (n_chan s)) as [[m rest]|] eqn:Et; [|discriminate].
      destruct (take_spec _ _ _ _ _ Et) as (pre & post & Hc & ->).
      destruct (worker_at LB UB T p) as [w|] eqn:Ew; [|discriminate]. inversion Hs; subst.
      destruct Hi as [I1 I2 I3 I4 I5]. rewrite Hc in *.
      apply Forall_app in I2. destruct I2 as [I2a I2b]. inversion I2b as [|? ? Hx I2c]; subst.
      destruct (msg_ok_chan _ _ _ Hx) as [Hcp Hsz]. pose proof (chan_ok_depth _ Hcp) as Hdp.
      split; [constructor; simpl|].
      + exact I1.
      + apply Forall_app. split; assumption.
      + apply Forall_app. split; [exact I3|]. constructor; [|constructor].
        destruct m as [rid dest by_|sg ts]; simpl in Hx |- *.
        * rewrite Ew. f_equal. symmetry. eapply below_worker_at; eassumption.
        * split; [eauto|tauto].
      + intros y. specialize (I4 y). rewrite !chan_tids_app, !cnt_app in *. unfold chan_tids in I4 at 2. simpl in I4.
        fold (chan_tids post) in I4. rewrite cnt_app in I4. rewrite inbox_tids_app, cnt_app. unfold inbox_tids at 2. simpl.
        rewrite app_nil_r. lia.
      + intros y. specialize (I5 y). rewrite !chan_rids_app, !cnt_app in *. unfold chan_rids in I5 at 2. simpl in I5.
        fold (chan_rids post) in I5. rewrite cnt_app in I5. rewrite inbox_rids_app, cnt_app. unfold inbox_rids at 2. simpl.
        rewrite app_nil_r. lia.
      + intros _. unfold measure. simpl. rewrite Hc. fold (wsum (pre ++ (p, Down, m) :: post)). fold (wsum (pre ++ post)).
        rewrite !wsum_app. change (wsum ((p, Down, m) :: post)) with (weight T (p, Down, m) + wsum post)%nat.
        assert (1 <= weight T (p, Down, m))%nat; [|lia]. simpl. nia.
  Qed.
End Inv.

(* ---------- runs ---------- *)
Definition treach (LB UB : Z) (T : tree) (s : net) : Prop := exists es, tsteps LB UB T net0 es = Some s.

Lemma tsteps_inv LB UB T : wf LB UB T -> 0 <= LB -> forall es s s',
  inv LB UB T s -> tsteps LB UB T s es = Some s' -> inv LB UB T s'.
Proof.
  intros Hwf HLB. induction es as [|e es IH]; intros s s' Hi H; simpl in H.
  - inversion H; subst. exact Hi.
  - destruct (tstep LB UB T s e) as [s1|] eqn:E; [|discriminate].
    apply (IH s1 s'); [|exact H]. apply (tstep_inv LB UB T Hwf HLB s e s1 Hi E).
Qed.

Lemma treach_inv LB UB T s : wf LB UB T -> 0 <= LB -> treach LB UB T s -> inv LB UB T s.
Proof. intros Hwf HLB [es H]. apply (tsteps_inv LB UB T Hwf HLB es net0 s (inv_net0 LB UB T) H). Qed.

(* worker ids identify workers: two different leaves of the hierarchy never have the same id *)
Lemma leaf_unique : forall q lb ub t q' l1 u1 n1 l2 u2 n2 w, wf lb ub t ->
  node_at lb ub t q = Some (l1, u1, Leaf n1) -> node_at lb ub t q' = Some (l2, u2, Leaf n2) ->
  worker_of l1 u1 (Leaf n1) w -> worker_of l2 u2 (Leaf n2) w -> q = q'.
Proof.
  induction q as [|i q IH]; intros lb ub t q' l1 u1 n1 l2 u2 n2 w Hwf H1 H2 W1 W2; simpl in H1.
  - inversion H1; subst. destruct q'; [reflexivity|discriminate].
  - destruct t as [n|cs]; [discriminate|]. destruct (nth_error cs i) as [c|] eqn:Ec; [|discriminate].
    destruct q' as [|i' q']; simpl in H2; [discriminate|].
    destruct (nth_error cs i') as [c'|] eqn:Ec'; [|discriminate].
    assert (i = i').
    { eapply (routing_siblings_disjoint lb ub cs i i' c c' w Hwf Ec Ec');
        eapply node_at_worker_up; eassumption. }
    subst i'. assert (c' = c) by congruence. subst c'.
    f_equal. apply wf_node_inv in Hwf. destruct Hwf as (_ & _ & Hc).
    eapply (IH _ _ _ q' _ _ _ _ _ _ w (Hc _ _ Ec)); eassumption.
Qed.

Theorem worker_at_inj LB UB T p p' w : wf LB UB T ->
  worker_at LB UB T p = Some w -> worker_at LB UB T p' = Some w -> p = p'.
Proof.
  intros Hwf. unfold worker_at.
  destruct (split_last p) as [[q j]|] eqn:E; [|discriminate]. apply split_last_inv in E. subst p.
  destruct (split_last p') as [[q' j']|] eqn:E'; [|discriminate]. apply split_last_inv in E'. subst p'.
  destruct (node_at LB UB T q) as [[[lb ub] [n|cs]]|] eqn:En; try discriminate.
  destruct (j <? n)%nat eqn:Ej; [|discriminate].
  destruct (node_at LB UB T q') as [[[lb' ub'] [n'|cs']]|] eqn:En'; try discriminate.
  destruct (j' <? n')%nat eqn:Ej'; [|discriminate].
  intros H1 H2. inversion H1; subst w. inversion H2 as [H3].
  assert (q = q').
  { eapply (leaf_unique q LB UB T q' _ _ _ _ _ _ (sw_w_id lb (Z.of_nat j)) Hwf En En').
    - constructor. lia.
    - rewrite <- H3. constructor. lia. }
  subst q'. rewrite En in En'. inversion En'; subst. unfold sw_w_id in H3. f_equal. f_equal. lia.
Qed.

(* ---------- the theorems cited by props/C07.v ---------- *)

(* every RESULT is received by the worker its return address names, and only by it; no node's
   handler ever raises (RuntimeError 'Cannot send result to unmanaged worker', IndexError, division by
   a zero step_size); also the last hop: a RESULT waiting on a worker's connection is that worker's *)
Theorem tree_result_routing LB UB T s : wf LB UB T -> 0 <= LB -> treach LB UB T s ->
  n_err s = [] /\
  (forall p rid dest by_, In (p, TRes rid dest by_) (n_inbox s) -> worker_at LB UB T p = Some dest) /\
  (forall p rid dest by_ w, In (p, Down, TRes rid dest by_) (n_chan s) -> worker_at LB UB T p = Some w -> w = dest) /\
  (forall p p' w, worker_at LB UB T p = Some w -> worker_at LB UB T p' = Some w -> p = p').
Proof.
  intros Hwf HLB Hr. destruct (treach_inv LB UB T s Hwf HLB Hr) as [I1 I2 I3 _ _].
  split; [exact I1|]. split; [|split].
  - intros p rid dest by_ Hin. rewrite Forall_forall in I3. apply (I3 _ Hin).
  - intros p rid dest by_ w Hin Hw. rewrite Forall_forall in I2. specialize (I2 _ Hin). simpl in I2.
    symmetry. eapply below_worker_at; eassumption.
  - intros p p' w. apply worker_at_inj. exact Hwf.
Qed.

(* nothing is lost, nothing is duplicated: per task id / result id, occurrences in flight + received by
   workers (+ stored for a client) = occurrences sent *)
Theorem tree_conservation LB UB T s : wf LB UB T -> 0 <= LB -> treach LB UB T s ->
  (forall y, (cnt y (chan_tids (n_chan s)) + cnt y (inbox_tids (n_inbox s)))%nat = cnt y (n_tinj s)) /\
  (forall y, (cnt y (chan_rids (n_chan s)) + cnt y (inbox_rids (n_inbox s)) + cnt y (n_client s))%nat = cnt y (n_rinj s)).
Proof. intros Hwf HLB Hr. destruct (treach_inv LB UB T s Hwf HLB Hr) as [_ _ _ I4 I5]. split; assumption. Qed.

(* every hop (a node handling a message, a worker receiving one) strictly decreases the measure: no message
   circulates; a run segment without new submissions has at most `measure` events *)
Theorem tree_hops_decrease LB UB T s e s' : wf LB UB T -> 0 <= LB -> treach LB UB T s ->
  tstep LB UB T s e = Some s' -> is_inject e = false -> (measure T s' < measure T s)%nat.
Proof.
  intros Hwf HLB Hr Hs He. apply (proj2 (tstep_inv LB UB T Hwf HLB s e s' (treach_inv LB UB T s Hwf HLB Hr) Hs) He).
Qed.

Theorem tree_drain_bounded LB UB T : wf LB UB T -> 0 <= LB -> forall es s s', treach LB UB T s ->
  tsteps LB UB T s es = Some s' -> forallb (fun e => negb (is_inject e)) es = true ->
  (length es + measure T s' <= measure T s)%nat.
Proof.
  intros Hwf HLB. induction es as [|e es IH]; intros s s' Hr H Hf; simpl in H.
  - inversion H; subst. simpl. lia.
  - destruct (tstep LB UB T s e) as [s1|] eqn:E; [|discriminate]. simpl in Hf. apply andb_true_iff in Hf.
    destruct Hf as [He Hf]. apply negb_true_iff in He.
    pose proof (tree_hops_decrease LB UB T s e s1 Hwf HLB Hr E He).
    assert (Hr1 : treach LB UB T s1).
    { destruct Hr as [es0 Hes]. exists (es0 ++ [e]). clear - Hes E. revert Hes. generalize net0.
      induction es0 as [|e0 es0 IH0]; intros n0 Hes; simpl in *.
      - inversion Hes; subst. rewrite E. reflexivity.
      - destruct (tstep LB UB T n0 e0); [apply IH0; exact Hes|discriminate]. }
    specialize (IH s1 s' Hr1 H Hf). simpl. lia.
Qed.
