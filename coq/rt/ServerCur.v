(* C13 - the code as it is (ServerM.run Cur) versus the repaired code (run (Fix false)):
   ([Cur] versus [Fix false]) they coincide on every well-formed history that never triggers defect D4, i.e. in
   which status / cancel name only ids that are open tasks of the requesting client
   (result requests, disconnects, RESULT/ERROR/LOG from below are unrestricted). *)
From Coq Require Import List Arith Bool Lia.
Import ListNotations.
From BQ Require Import rt.ServerM rt.ServerThm.

(* ---------------------------------------------------------------------------
   The code as it is (fx = false) coincides with the repaired code on every
   history that never triggers D4: status / cancel only for own open ids.
   --------------------------------------------------------------------------- *)
Definition safe (sp : spec) (e : event) : bool :=
  match e with
  | Status c t | Cancel c t => own_open sp c t
  | _ => true
  end.

Fixpoint d4_free (sp : spec) (es : list event) : bool :=
  match es with
  | [] => true
  | e :: r => safe sp e && d4_free (fst (sstep false sp e)) r
  end.

(* the sets in `clients` are duplicate free *)
Definition CN (s : state) : Prop := Forall (fun p => NoDup (snd p)) (clients s).

Lemma Forall_set : forall V (P : nat * V -> Prop) d k v, Forall P d -> P (k, v) -> Forall P (set k v d).
Proof.
  induction d as [|[a b] d IH]; simpl; intros.
  - constructor; auto.
  - inversion H; subst. destruct (k =? a); constructor; auto.
Qed.

Lemma Forall_del : forall V (P : nat * V -> Prop) d k, Forall P d -> Forall P (del k d).
Proof.
  intros. unfold del. apply Forall_forall. intros x I. apply filter_In in I.
  rewrite Forall_forall in H. apply H. tauto.
Qed.

Lemma CN_get : forall s c ts, CN s -> get c (clients s) = Some ts -> NoDup ts.
Proof.
  intros. apply get_In in H0. unfold CN in H. rewrite Forall_forall in H. apply (H _ H0).
Qed.

Lemma NoDup_srem : forall t ts, NoDup ts -> NoDup (srem t ts).
Proof. intros. unfold srem. apply NoDup_filter. auto. Qed.

Lemma NoDup_snoc : forall (l : list nat) x, NoDup l -> ~ In x l -> NoDup (l ++ [x]).
Proof.
  induction l as [|a l IH]; simpl; intros.
  - constructor; auto.
  - inversion H; subst. constructor.
    + rewrite in_app_iff. simpl. intuition.
    + apply IH; auto.
Qed.

Lemma NoDup_sadd : forall t ts, NoDup ts -> NoDup (sadd t ts).
Proof.
  intros. unfold sadd. destruct (mem t ts) eqn:M; auto.
  apply NoDup_snoc; auto. intro X. apply mem_In in X. congruence.
Qed.

(* CN is kept by every handler of the repaired code *)
Lemma foreach_keeps : forall A (P : state -> Prop) (f : A -> state -> res) l,
  (forall x s s' o, P s -> f x s = Ok s' o -> P s') ->
  forall s s' o, P s -> foreach l f s = Ok s' o -> P s'.
Proof.
  induction l as [|x l IH]; simpl; intros H s s' o Ps E.
  - inversion E; subst; auto.
  - destruct (f x s) as [s1 o1|] eqn:F; simpl in E; try discriminate.
    destruct (foreach l f s1) as [s2 o2|] eqn:G; try discriminate. inversion E; subst.
    apply (IH H s1 s' o2); auto. apply (H x s s1 o1); auto.
Qed.

Lemma CN_cancel_fix : forall c t s s' o, CN s -> cancel_fix false c t s = Ok s' o -> CN s'.
Proof.
  unfold cancel_fix; intros c t s s' o C E.
  destruct (get c (clients s)) as [ts|] eqn:G; try discriminate.
  destruct (mem t ts && haskey t (tasks s)).
  - destruct (get t (tasks s)) as [[mb cc]|]; try discriminate.
    destruct (get mb (boxes s)); try discriminate. inversion E; subst. unfold CN. simpl.
    apply Forall_set; auto. simpl. apply NoDup_srem. eapply CN_get; eauto.
  - inversion E; subst; auto.
Qed.

Lemma CN_pop_task : forall p s s' o, CN s -> pop_task p s = Ok s' o -> CN s'.
Proof.
  intros [t [mb cc]] s s' o C E. unfold pop_task in E.
  destruct (get t (tasks s)); try discriminate. destruct (get mb (m2t s)); try discriminate.
  inversion E; subst. exact C.
Qed.

Lemma CN_disconnect : forall c s s' o, CN s -> disconnect (Fix false) c s = Ok s' o -> CN s'.
Proof.
  unfold disconnect; intros c s s' o C E. simpl in E.
  destruct (get c (clients s)) as [ts|] eqn:G; try discriminate.
  destruct (foreach ts (cancel_fix false c) (with_closed s (c :: closed s))) as [s2 o2|] eqn:F; simpl in E; try discriminate.
  assert (C2 : CN s2).
  { eapply (foreach_keeps _ CN (cancel_fix false c) ts); [intros; eapply CN_cancel_fix; eauto| |exact F]. exact C. }
  unfold pop_tasks_of in E.
  destruct (foreach _ pop_task (with_clients s2 (del c (clients s2)))) as [s3 o3|] eqn:P; try discriminate.
  inversion E; subst.
  eapply (foreach_keeps _ CN pop_task); [intros; eapply CN_pop_task; eauto| |exact P].
  unfold CN. simpl. apply Forall_del. exact C2.
Qed.

Lemma CN_handle : forall e s s' o, CN s -> handle (Fix false) e s = Ok s' o -> CN s'.
Proof.
  intros e s s' o C E. destruct e; simpl in E.
  - inversion E; subst. unfold CN; simpl. apply Forall_set; auto. constructor.
  - eapply CN_disconnect; eauto.
  - unfold new_task in E. simpl in E. destruct (get c (clients s)) as [ts|] eqn:G; try discriminate.
    inversion E; subst. unfold CN; simpl. apply Forall_set; auto. simpl. apply NoDup_sadd. eapply CN_get; eauto.
  - unfold request in E. destruct (get c (clients s)) as [ts|] eqn:G; try discriminate.
    destruct (negb (mem t ts) || negb (haskey t (tasks s))).
    + simpl in E. destruct (disconnect (Fix false) c s) as [s2 o2|] eqn:D; try discriminate. inversion E; subst.
      eapply CN_disconnect; eauto.
    + destruct (get t (tasks s)) as [[mb cc]|]; try discriminate.
      destruct (get mb (boxes s)) as [[[v|] w]|]; try discriminate; inversion E; subst; auto.
      unfold CN; simpl. apply Forall_set; auto. simpl. apply NoDup_srem. eapply CN_get; eauto.
  - unfold status, is_fix in E. destruct (get c (clients s)); try discriminate.
    destruct ((negb (mem t l) || negb (haskey t (tasks s))) && true).
    + inversion E; subst; auto.
    + destruct (get t (tasks s)) as [[mb cc]|]; try discriminate.
      destruct (get mb (boxes s)) as [[r w]|]; try discriminate. inversion E; subst; auto.
  - eapply CN_cancel_fix; eauto.
  - unfold result in E. destruct (get mb (boxes s)) as [[r w]|]; [|inversion E; subst; auto].
    simpl in E. destruct (get mb (m2t s)) as [t|]; try discriminate. destruct w.
    + destruct (get t (tasks s)) as [[mb' cc]|]; try discriminate.
      destruct (get cc (clients s)) as [ts|] eqn:G; try discriminate.
      destruct (mem t ts); try discriminate. inversion E; subst. unfold CN; simpl.
      apply Forall_set; auto. simpl. apply NoDup_srem. eapply CN_get; eauto.
    + inversion E; subst; auto.
  - unfold forward in E. destruct (get mb (m2t s)); [|inversion E; subst; auto].
    destruct (get n (tasks s)) as [[a b]|]; try discriminate. inversion E; subst; auto.
  - unfold forward in E. destruct (get mb (m2t s)); [|inversion E; subst; auto].
    destruct (get n (tasks s)) as [[a b]|]; try discriminate. inversion E; subst; auto.
Qed.

Lemma del_set : forall V (d : list (nat * V)) k v, del k (set k v d) = del k d.
Proof.
  induction d as [|[a b] d IH]; intros; simpl.
  - rewrite Nat.eqb_refl. reflexivity.
  - destruct (k =? a) eqn:E; simpl.
    + rewrite Nat.eqb_refl. reflexivity.
    + unfold del in *. simpl. rewrite E. simpl. rewrite IH. reflexivity.
Qed.

(* the two cancel loops of handle_disconnect, run side by side *)
Definition Cpl (c : nat) (a b : state) : Prop :=
  tasks a = tasks b /\ m2t a = m2t b /\ boxes a = boxes b /\ counter a = counter b
  /\ closed a = closed b /\ up a = up b /\ clients a = del c (clients b).

Lemma cancel_loops : forall c l a b,
  Cpl c a b -> In c (closed b) -> NoDup l ->
  (exists tsb, get c (clients b) = Some tsb /\ forall t, In t l -> In t tsb) ->
  (forall t, In t l -> exists mb, get t (tasks b) = Some (mb, c) /\ get mb (boxes b) <> None) ->
  (forall t t' mb, In t l -> In t' l -> get t (tasks b) = Some (mb, c) -> get t' (tasks b) = Some (mb, c) -> t = t') ->
  exists a' b' o, foreach l cancel_cur a = Ok a' o /\ foreach l (cancel_fix false c) b = Ok b' o /\ Cpl c a' b'.
Proof.
  induction l as [|t l IH]; intros a b CP CL ND [tsb [G IN]] HT INJ.
  - exists a, b, []. auto.
  - inversion ND as [|x y N1 N2]; subst.
    destruct (HT t (or_introl eq_refl)) as [mb [GT GB]].
    destruct (get mb (boxes b)) as [bx|] eqn:GBX; [|congruence].
    destruct CP as [E1 [E2 [E3 [E4 [E5 [E6 E7]]]]]].
    assert (M : mem t tsb = true) by (apply mem_In, IN; simpl; auto).
    assert (MC : mem c (closed b) = true) by (apply mem_In; auto).
    set (a1 := with_boxes a (del mb (boxes a))).
    set (b2 := with_clients (with_boxes b (del mb (boxes b))) (set c (srem t tsb) (clients b))).
    assert (CA : cancel_cur t a = Ok a1 [OBcast mb]).
    { unfold cancel_cur, a1. rewrite E1, GT, E3, GBX. simpl. rewrite E7, get_del, Nat.eqb_refl.
      unfold ack. simpl. rewrite E5, MC. reflexivity. }
    assert (CB : cancel_fix false c t b = Ok b2 [OBcast mb]).
    { unfold cancel_fix. rewrite G, M. unfold haskey. rewrite GT. simpl. rewrite GBX.
      unfold ack. simpl. rewrite MC. reflexivity. }
    destruct (IH a1 b2) as [a' [b' [o [F1 [F2 CP']]]]]; auto.
    + unfold Cpl, a1, b2; simpl. rewrite E3, del_set. repeat split; auto.
    + exists (srem t tsb). split; [unfold b2; simpl; rewrite get_set, Nat.eqb_refl; reflexivity|].
      intros t' I. apply In_srem. split; [apply IN; simpl; auto|]. intro; subst. contradiction.
    + intros t' I. destruct (HT t' (or_intror I)) as [mb' [GT' GB']]. exists mb'. split; [exact GT'|].
      unfold b2; simpl. rewrite get_del. destruct (mb' =? mb) eqn:Q; auto.
      apply Nat.eqb_eq in Q. subst mb'. exfalso. apply N1.
      rewrite (INJ t t' mb); simpl; auto.
    + intros t1 t2 mb' I1 I2. unfold b2; simpl. intros. eapply INJ; simpl; eauto.
    + exists a', b', (OBcast mb :: o). simpl. rewrite CA, CB. simpl. rewrite F1, F2. auto.
Qed.

Lemma disconnect_same : forall s sp c, Inv s sp -> CN s -> cst sp c = CConnected ->
  disconnect Cur c s = disconnect (Fix false) c s.
Proof.
  intros s sp c [R [S CO]] C CC.
  set (s1 := with_closed s (c :: closed s)).
  assert (R1 : Rel s1 sp) by (apply Rel_with_closed; auto).
  destruct (connected_clients _ _ _ R1 CC) as [ts [G I]].
  unfold disconnect. fold s1. rewrite G.
  destruct (cancel_loops c ts (with_clients s1 (del c (clients s1))) s1) as [a' [b' [o [F1 [F2 CP]]]]].
  - unfold Cpl; simpl. repeat split; auto.
  - simpl; auto.
  - eapply CN_get; eauto.
  - exists ts. split; auto.
  - intros t X. apply I in X. destruct (open_lookup _ _ _ _ R1 S X) as [A [B _]].
    exists (mbx sp t). split; [exact A|]. rewrite B. apply own_open_inv in X.
    destruct X as [X _]. destruct (st sp t); simpl in *; congruence.
  - intros t t' mb X X' A A'. apply I in X. apply I in X'.
    destruct (open_lookup _ _ _ _ R1 S X) as [B [_ T]]. destruct (open_lookup _ _ _ _ R1 S X') as [B' [_ T']].
    rewrite B in A. rewrite B' in A'. inversion A. inversion A'. congruence.
  - unfold bind. rewrite F1, F2.
    assert (EQ : a' = with_clients b' (del c (clients b'))).
    { destruct CP as [E1 [E2 [E3 [E4 [E5 [E6 E7]]]]]]. destruct a', b'; simpl in *; subst. reflexivity. }
    rewrite EQ. reflexivity.
Qed.

Lemma handle_same : forall s sp e, Inv s sp -> CN s -> wf_ev sp e = true -> safe sp e = true ->
  handle Cur e s = handle (Fix false) e s.
Proof.
  intros s sp e I C W SF. pose proof I as [R [S CO]]. destruct e; simpl in *; auto.
  - apply cst_is_eq in W. eapply disconnect_same; eauto.
  - apply cst_is_eq in W. destruct (connected_clients _ _ _ R W) as [ts [G II]].
    unfold request. rewrite G. destruct (negb (mem t ts) || negb (haskey t (tasks s))); auto.
    simpl. rewrite (disconnect_same s sp c I C W). reflexivity.
  - apply cst_is_eq in W. destruct (connected_clients _ _ _ R W) as [ts [G II]].
    unfold status. rewrite G, (unk_spec _ _ _ _ _ R G II), SF. reflexivity.
  - apply cst_is_eq in W. destruct (connected_clients _ _ _ R W) as [ts [G II]].
    destruct (open_lookup _ _ _ _ R S SF) as [A [B _]].
    unfold cancel_cur, cancel_fix. rewrite G, (kn_spec _ _ _ _ _ R G II), SF, A, B.
    destruct (boxof (st sp t)); auto. simpl. rewrite G.
    assert (M : mem t ts = true) by (apply mem_In, II, SF). rewrite M. reflexivity.
Qed.

Theorem current_eq_fixed : forall es s sp, Inv s sp -> CN s ->
  wf_run false sp es = true -> d4_free sp es = true -> run Cur s es = run (Fix false) s es.
Proof.
  induction es as [|e r IH]; intros s sp I C W D; auto.
  simpl in W, D. apply andb_true_iff in W. destruct W as [W1 W2]. apply andb_true_iff in D. destruct D as [D1 D2].
  assert (ST : step Cur s e = step (Fix false) s e).
  { unfold step. rewrite (handle_same s sp e I C W1 D1). reflexivity. }
  rewrite !run_cons, ST.
  destruct (step_ok false s sp e I W1) as [s' [o [E [_ I']]]].
  assert (FS : fst (step (Fix false) s e) = s').
  { unfold step. destruct I as [R _]. rewrite (r_up _ _ R), E. reflexivity. }
  rewrite FS. rewrite (IH s' _ I' (CN_handle _ _ _ _ C E) W2 D2). reflexivity.
Qed.

Theorem current_partial : forall es, wf_run false spec0 es = true -> d4_free spec0 es = true ->
  run Cur init es = run (Fix false) init es.
Proof. intros. apply (current_eq_fixed es init spec0 Inv_init); auto. constructor. Qed.

Theorem current_refines_partial : forall es, wf_run false spec0 es = true -> d4_free spec0 es = true ->
  run Cur init es = run (Fix false) init es
  /\ map answers (snd (run Cur init es)) = snd (srun false spec0 es)
  /\ ~ In OCrash (concat (snd (run Cur init es)))
  /\ Inv (fst (run Cur init es)) (fst (srun false spec0 es)).
Proof.
  intros es W D. pose proof (current_partial es W D) as E. rewrite E.
  destruct (requests_refine false es W) as [A [N _]].
  split; [reflexivity|split; [exact A|split; [exact N|apply (tables_inv false); auto]]].
Qed.
