From Coq Require Import List Arith Bool Lia PeanoNat.
Import ListNotations.
From BQ Require Import rt.CancelM rt.CancelThm.

Section Full.
Variable fx : bool.

(* ------------------------------------------------------------------ C12_quiescent_clean (code since /repo 5dfab15, f8 = true) *)
Definition tkeys (w : wstate) : Prop := NoDup (map fst (w_tasks w)).
Definition texact (w : wstate) : Prop := forall t, In t (tasks_of w) -> ~ In (t_addr t) (w_cancelled w).
Definition rdead (w : wstate) (ready : list addr) : Prop :=
  forall a rt, In (a, rt) (w_tasks w) -> dead_on w (rt_task rt) = true -> In a ready.
Definition wgood (w : wstate) : Prop := tkeys w /\ texact w /\ rdead w (w_ready w).

Lemma NoDup_keys_put_t k v l : NoDup (map fst l) -> NoDup (map fst (put_t k v l)).
Proof. induction l as [|[k' v'] l IH]; simpl; intros N. repeat constructor; auto.
  inv N. destruct (addr_eqb k k') eqn:E; simpl.
  - apply addr_eqb_eq in E. subst. constructor; auto.
  - constructor; auto. intro X. apply H1. apply in_map_iff in X. destruct X as ([k2 v2] & E2 & IN). simpl in E2. subst.
    apply (In_put_inv addr_eqb) in IN. destruct IN as [IN|IN]. inv IN. rewrite addr_eqb_refl in E. discriminate.
    apply in_map_iff. exists (k', v2). auto.
Qed.
Lemma NoDup_keys_remove_t k l : NoDup (map fst l) -> NoDup (map fst (remove_t k l)).
Proof. induction l as [|[k' v'] l IH]; simpl; intros N; auto. inv N. destruct (addr_eqb k k'); auto. simpl. constructor; auto.
  intro X. apply H1. apply in_map_iff in X. destruct X as ([k2 v2] & E2 & IN). simpl in E2. subst.
  apply (In_remove addr_eqb addr_eqb_eq) in IN. apply in_map_iff. exists (k', v2). tauto. Qed.
Lemma lt_unique k v l : NoDup (map fst l) -> In (k, v) l -> lookup_t k l = Some v.
Proof. induction l as [|[k' v'] l IH]; simpl; intros N H. destruct H. inv N.
  destruct H as [H|H]. inv H. rewrite addr_eqb_refl; auto.
  destruct (addr_eqb k k') eqn:E. apply addr_eqb_eq in E. subst. exfalso. apply H2. apply in_map_iff. exists (k', v); auto.
  auto. Qed.

Lemma dead_on_cases w t : dead_on w t = true -> In (t_addr t) (w_cancelled w) \/ existsb (fun b => mem_addr b (w_cancelled w)) (t_crumbs t) = true.
Proof. intros H. apply dead_on_iff in H. destruct H as (c & C1 & C2). unfold desc in C2. apply orb_true_iff in C2. destruct C2 as [C2|C2].
  apply addr_eqb_eq in C2. subst. auto. right. apply existsb_exists. exists c. split. apply mem_addr_In; auto. apply mem_addr_In; auto. Qed.

(* an entry that the worker knows to be dead, with its own address not cancelled, is forgotten when popped *)
Lemma forget_dead w a rt : lookup_t a (w_tasks w) = Some rt -> t_addr (rt_task rt) = a -> ~ In a (w_cancelled w) ->
  dead_on w (rt_task rt) = true -> w_tasks (forget true w a) = remove_t a (w_tasks w).
Proof. intros L K N D. unfold forget, crumb_dead. rewrite L.
  destruct (mem_addr a (w_cancelled w)) eqn:M. apply mem_addr_In in M. contradiction.
  apply dead_on_cases in D. destruct D as [D|D]. rewrite K in D. contradiction. rewrite D. simpl. auto. Qed.

Lemma texact_sub w w' : w_cancelled w' = w_cancelled w -> (forall t, In t (tasks_of w') -> In t (tasks_of w)) -> texact w -> texact w'.
Proof. intros C S T t IN. rewrite C. apply T. auto. Qed.

Lemma tasks_of_remove w a t : In t (tasks_of (set_tasks (remove_t a (w_tasks w)) w)) -> In t (tasks_of w).
Proof. unfold tasks_of. simpl. intros H. apply in_app_or in H. apply in_or_app. destruct H as [H|H]; auto. left.
  apply in_map_iff in H. destruct H as ([k v] & E & IN). apply (In_remove addr_eqb addr_eqb_eq) in IN. apply in_map_iff. exists (k, v). tauto. Qed.

Lemma sel_ready_good : forall ready w lab o w1 r lab1, sel_ready true w ready lab = (o, w1, r, lab1) ->
  keys_ok w -> tkeys w -> texact w -> rdead w ready ->
  tkeys w1 /\ texact w1 /\ rdead w1 r /\ keys_ok w1.
Proof.
  induction ready as [|a rd IH]; intros w lab o w1 r lab1 H KO TK TE RD; simpl in H.
  - inv H. auto.
  - destruct (runnable w a) eqn:R.
    + inv H. split; auto. split; auto. split; auto. intros a' rt' IN D. destruct (RD _ _ IN D) as [<-|X]; auto. exfalso.
      apply runnable_some in R. destruct R as [R1 R2]. apply lt_unique in IN; auto. rewrite R1 in IN. inv IN.
      rewrite R2 in D. discriminate. apply KO. apply lt_In; auto.
    + assert (RD' : rdead (forget true w a) rd).
      { intros a' rt' IN D. pose proof (forget_In true _ _ _ IN) as IN0.
        rewrite (dead_on_env w (forget true w a)) in D by apply forget_cancelled.
        destruct (RD _ _ IN0 D) as [<-|X]; auto. exfalso.
        pose proof (lt_unique _ _ _ TK IN0) as L. pose proof (KO _ _ IN0) as K.
        assert (N : ~ In a (w_cancelled w)). { intro X. eapply TE; [|rewrite K; exact X]. apply In_tasks_of. left; eauto. }
        rewrite (forget_dead w a rt') in IN; auto. apply (In_remove addr_eqb addr_eqb_eq) in IN. tauto. }
      eapply IH in H; eauto.
      * apply keys_ok_forget; auto.
      * unfold tkeys, forget. destruct (true && crumb_dead w a); simpl; auto. apply NoDup_keys_remove_t; auto.
      * eapply texact_sub; [apply forget_cancelled| |exact TE]. intros t IN. unfold forget in IN.
        destruct (true && crumb_dead w a); auto. eapply tasks_of_remove; eauto.
Qed.

Definition nodeadw (w : wstate) : Prop := forall a rt, In (a, rt) (w_tasks w) -> dead_on w (rt_task rt) = false.

Lemma sel_delayed_good : forall rdel w lab o w1 lab1, sel_delayed true w rdel lab = (o, w1, lab1) ->
  keys_ok w -> tkeys w -> nodeadw w -> (forall t, In t rdel -> ~ In (t_addr t) (w_cancelled w)) ->
  (forall t, In t (map (fun e => rt_task (snd e)) (w_tasks w)) -> ~ In (t_addr t) (w_cancelled w)) ->
  tkeys w1 /\ nodeadw w1 /\ keys_ok w1
  /\ (forall t, In t (tasks_of w1) -> ~ In (t_addr t) (w_cancelled w)) /\ w_ready w1 = w_ready w.
Proof.
  induction rdel as [|t rest IH]; intros w lab o w1 lab1 H KO TK ND TD TT; simpl in H.
  - inv H. split; auto. split; auto. split; auto. split; auto. intros t IN. unfold tasks_of in IN. simpl in IN. rewrite app_nil_r in IN. auto.
  - set (wa := set_tasks (put_t (t_addr t) (fresh_rt t) (w_tasks w)) w) in *.
    assert (KA : keys_ok wa) by (apply keys_ok_put; auto).
    assert (TKA : tkeys wa) by (apply NoDup_keys_put_t; auto).
    assert (LA : lookup_t (t_addr t) (w_tasks wa) = Some (fresh_rt t)) by (simpl; apply lt_put_same).
    assert (TTA : forall x, In x (map (fun e => rt_task (snd e)) (w_tasks wa)) -> ~ In (t_addr x) (w_cancelled w)).
    { intros x IN. apply in_map_iff in IN. destruct IN as ([k v] & E & IN). simpl in IN. apply In_put_inv in IN. destruct IN as [IN|IN].
      inv IN. simpl. apply TD. left; auto. apply TT. apply in_map_iff. exists (k, v); auto. }
    destruct (runnable wa (t_addr t)) eqn:R.
    + inv H. apply runnable_some in R. destruct R as [R1 R2]. rewrite LA in R1. inv R1. simpl.
      split; auto. split; [|split; auto].
      * intros a rt IN. simpl in IN. apply In_put_inv in IN. destruct IN as [IN|IN]. inv IN. apply R2; auto.
        rewrite (dead_on_env w wa) by auto. eapply ND; eauto.
      * split; auto. intros x IN. unfold tasks_of in IN. simpl in IN. apply in_app_or in IN. destruct IN as [IN|IN]. apply TTA; auto.
        apply TD. right. apply in_rev; auto.
    + assert (FG : w_tasks (forget true wa (t_addr t)) = remove_t (t_addr t) (w_tasks wa)).
      { apply (forget_dead wa (t_addr t) (fresh_rt t)); auto. simpl. apply TD. left; auto.
        eapply runnable_none_held; eauto. }
      destruct (forget_env true wa (t_addr t)) as (E1 & E2 & E3 & E4). destruct (forget_fields true wa (t_addr t)) as (F1 & F2 & F3).
      eapply IH in H; eauto.
      * destruct H as (A & B & C & D & E). split; auto. split; auto. split; auto. split. rewrite E2 in D. auto. rewrite E, F1. auto.
      * apply keys_ok_forget; auto.
      * unfold tkeys. rewrite FG. apply NoDup_keys_remove_t; auto.
      * intros a rt IN. rewrite FG in IN. apply (In_remove addr_eqb addr_eqb_eq) in IN. destruct IN as [IN NE].
        simpl in IN. apply In_put_inv in IN. destruct IN as [IN|IN]. inv IN. congruence.
        rewrite (dead_on_env w); [apply ND; auto|]. rewrite E2. auto.
      * intros x IN. rewrite E2. simpl. apply TD. right; auto.
      * intros x IN. rewrite E2. simpl. apply TTA. apply in_map_iff in IN. destruct IN as (e & E & IN). rewrite FG in IN.
        destruct e as [k v]. apply (In_remove addr_eqb addr_eqb_eq) in IN. apply in_map_iff. exists (k, v). tauto.
Qed.
End Full.
