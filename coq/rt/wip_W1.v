From Coq Require Import List Arith Bool PeanoNat Lia Permutation.
Import ListNotations.
From BQ Require Import rt.WorkerM.

(* ---------- basic list facts ---------- *)
Lemma dest_eqb_eq : forall x y, dest_eqb x y = true <-> x = y.
Proof. destruct x, y; simpl; split; intro H; try discriminate; try reflexivity.
  - apply Nat.eqb_eq in H; subst; reflexivity.
  - injection H as ->. apply Nat.eqb_refl. Qed.
Lemma addr_eqb_eq : forall x y, addr_eqb x y = true <-> x = y.
Proof. intros [xw xb xs] [yw yb ys]; unfold addr_eqb; simpl. rewrite !andb_true_iff, dest_eqb_eq, !Nat.eqb_eq.
  split; [intros [[-> ->] ->]; reflexivity | intro H; injection H as -> -> ->; auto]. Qed.
Lemma addr_eqb_refl : forall x, addr_eqb x x = true.
Proof. intro; apply addr_eqb_eq; reflexivity. Qed.
Lemma addr_eqb_neq : forall x y, addr_eqb x y = false <-> x <> y.
Proof. intros. rewrite <- addr_eqb_eq. destruct (addr_eqb x y); split; congruence. Qed.
Lemma addr_eqb_sym : forall x y, addr_eqb x y = addr_eqb y x.
Proof. intros. destruct (addr_eqb x y) eqn:E.
  - apply addr_eqb_eq in E; subst. symmetry; apply addr_eqb_refl.
  - symmetry. apply addr_eqb_neq. apply addr_eqb_neq in E. congruence. Qed.

Lemma set_nth_length : forall A n (x : A) l, length (set_nth n x l) = length l.
Proof. induction n; destruct l; simpl; auto. Qed.
Lemma nth_error_set_nth_eq : forall A n (x : A) l, n < length l -> nth_error (set_nth n x l) n = Some x.
Proof. induction n; destruct l; simpl; intros; try lia; auto. apply IHn; lia. Qed.
Lemma nth_error_set_nth_neq : forall A n m (x : A) l, n <> m -> nth_error (set_nth n x l) m = nth_error l m.
Proof. induction n; destruct l, m; simpl; intros; try congruence; auto. Qed.
Lemma nth_error_set_nth : forall A n m (x y : A) l, nth_error (set_nth n x l) m = Some y ->
  (n = m /\ y = x /\ n < length l) \/ (n <> m /\ nth_error l m = Some y).
Proof. intros. destruct (Nat.eq_dec n m).
  - subst. left. assert (m < length l).
    { assert (Hl : m < length (set_nth m x l)) by (apply nth_error_Some; congruence).
      rewrite set_nth_length in Hl. exact Hl. }
    rewrite nth_error_set_nth_eq in H by auto. injection H as <-. auto.
  - right. rewrite nth_error_set_nth_neq in H; auto. Qed.
Lemma In_set_nth : forall A n (x y : A) l, In y (set_nth n x l) -> y = x \/ In y l.
Proof. induction n; destruct l; simpl; intros; auto.
  - destruct H; auto.
  - destruct H; auto. apply IHn in H. tauto. Qed.

Lemma NoDup_app_intro : forall A (l1 l2 : list A), NoDup l1 -> NoDup l2 -> (forall x, In x l1 -> In x l2 -> False) -> NoDup (l1 ++ l2).
Proof. induction l1; simpl; intros; auto. inversion H; subst. constructor.
  - intro Hin. apply in_app_or in Hin. destruct Hin; auto. eapply H1; eauto.
  - apply IHl1; auto. intros. eapply H1; eauto. Qed.

(* sums *)
Fixpoint sumf {A} (f : A -> nat) (l : list A) : nat := match l with [] => 0 | x :: r => f x + sumf f r end.
Lemma sumf_app : forall A (f : A -> nat) l1 l2, sumf f (l1 ++ l2) = sumf f l1 + sumf f l2.
Proof. induction l1; simpl; intros; auto. rewrite IHl1. lia. Qed.
Lemma sumf_set_nth : forall A (f : A -> nat) i x y l, nth_error l i = Some x ->
  sumf f (set_nth i y l) + f x = sumf f l + f y.
Proof. induction i; destruct l; simpl; intros; try discriminate.
  - injection H as ->. lia.
  - specialize (IHi x y l H). lia. Qed.
Lemma sumf_zero : forall A (f : A -> nat) l, (forall x, In x l -> f x = 0) -> sumf f l = 0.
Proof. induction l; simpl; intros; [reflexivity|]. rewrite (H a) by auto. rewrite IHl; auto. Qed.
Lemma sumf_ext : forall A (f g : A -> nat) l, (forall x, In x l -> f x = g x) -> sumf f l = sumf g l.
Proof. induction l; simpl; intros; [reflexivity|]. rewrite (H a) by auto. rewrite IHl; auto. Qed.
Lemma sumf_map : forall A B (g : A -> B) (f : B -> nat) l, sumf f (map g l) = sumf (fun x => f (g x)) l.
Proof. induction l; simpl; auto. Qed.
Lemma sumf_ge : forall A (f : A -> nat) l x, In x l -> f x <= sumf f l.
Proof. induction l; simpl; intros; [tauto|]. destruct H; [subst; lia|]. apply IHl in H. lia. Qed.

(* counting addresses *)
Definition cnt (a : addr) (l : list addr) : nat := length (filter (addr_eqb a) l).
Lemma cnt_app : forall a l1 l2, cnt a (l1 ++ l2) = cnt a l1 + cnt a l2.
Proof. intros. unfold cnt. rewrite filter_app, app_length. reflexivity. Qed.
Lemma cnt_cons : forall a x l, cnt a (x :: l) = (if addr_eqb a x then 1 else 0) + cnt a l.
Proof. intros. unfold cnt. simpl. destruct (addr_eqb a x); reflexivity. Qed.
Lemma cnt_nil : forall a, cnt a [] = 0. Proof. reflexivity. Qed.
Lemma cnt_zero_notin : forall a l, cnt a l = 0 <-> ~ In a l.
Proof. induction l; simpl; [tauto|]. rewrite cnt_cons. destruct (addr_eqb a a0) eqn:E.
  - apply addr_eqb_eq in E. subst. split; [discriminate | intro H; exfalso; apply H; auto].
  - apply addr_eqb_neq in E. simpl. rewrite IHl. split; [intros H [H1|H1]; congruence | tauto]. Qed.
Lemma cnt_pos_in : forall a l, cnt a l >= 1 <-> In a l.
Proof. intros. destruct (cnt a l) eqn:E.
  - apply cnt_zero_notin in E. split; [lia | tauto].
  - split; [|lia]. intros _. destruct (in_dec (fun x y => match Bool.bool_dec (addr_eqb x y) true with
        left e => left (proj1 (addr_eqb_eq x y) e) | right n => right (fun e => n (proj2 (addr_eqb_eq x y) e)) end) a l); auto.
    apply cnt_zero_notin in n0. lia. Qed.
Lemma cnt_le1_NoDup : forall l, (forall a, cnt a l <= 1) -> NoDup l.
Proof. induction l; intros; constructor.
  - specialize (H a). rewrite cnt_cons, addr_eqb_refl in H. apply cnt_zero_notin. lia.
  - apply IHl. intro b. specialize (H b). rewrite cnt_cons in H. lia. Qed.
Lemma cnt_perm : forall a l1 l2, Permutation l1 l2 -> cnt a l1 = cnt a l2.
Proof. induction 1; rewrite ?cnt_cons in *; simpl; try lia. Qed.

(* ---------- exact effect of a coroutine segment ---------- *)
Inductive fspec := FSub (c : script) | FMap (cs : list script).
Definition kids (sp : fspec) : list script := match sp with FSub c => [c] | FMap cs => cs end.
Definition spec_box (sp : fspec) : mailbox :=
  match sp with FSub c => new_box_single [ret_of c] | FMap cs => new_box_multi (length cs) (map ret_of cs) end.
Definition spec_msg (me : dest) (comp m : nat) (sp : fspec) : msg :=
  match sp with
  | FSub c => MSubmit (new_task (mkAddr me m 0) comp c)
  | FMap cs => MSubmitBatch (mk_children me m comp 0 cs)
  end.
Fixpoint eff_boxes (c : nat) (es : list fspec) : list (nat * mailbox) :=
  match es with [] => [] | sp :: r => (c, spec_box sp) :: eff_boxes (S c) r end.
Fixpoint eff_msgs (me : dest) (comp c : nat) (es : list fspec) : list msg :=
  match es with [] => [] | sp :: r => spec_msg me comp c sp :: eff_msgs me comp (S c) r end.
Fixpoint eff_futs (c : nat) (es : list fspec) : list (nat * nat) :=
  match es with [] => [] | sp :: r => (c, length (kids sp)) :: eff_futs (S c) r end.
Fixpoint eff_tasks (me : dest) (comp c : nat) (es : list fspec) : list task :=
  match es with [] => [] | sp :: r => mk_children me c comp 0 (kids sp) ++ eff_tasks me comp (S c) r end.

Definition apply_eff (w : wstate) (comp : nat) (es : list fspec) : wstate :=
  mkW (w_id w) (w_tasks w) (w_delayed w) (w_ready w) (w_boxes w ++ eff_boxes (w_counter w) es)
      (w_counter w + length es) (w_recent w) (w_pc w) (w_out w ++ eff_msgs (me w) comp (w_counter w) es)
      (w_rdead w) (w_log w) (w_started w) (w_finished w)
      (w_created w ++ map t_addr (eff_tasks (me w) comp (w_counter w) es))
      (w_deposited w) (w_dropped w) (w_stuck w) (w_errs w) (w_oos w).
Definition t_eff (t : task) (c : nat) (es : list fspec) (rest : script) (p : pend) (n : nat) : task :=
  mkTask (t_addr t) (t_comp t) (t_script t) rest (t_futs t ++ eff_futs c es) p n (t_desired t) (t_won t)
         (t_owned t ++ seq c (length es)).

Fixpoint specs_of (s : script) : list fspec :=
  match s with
  | [] => []
  | Submit c :: r => FSub c :: specs_of r
  | Map cs :: r => FMap cs :: specs_of r
  | _ :: r => specs_of r
  end.
Lemma specs_of_app : forall s1 s2, specs_of (s1 ++ s2) = specs_of s1 ++ specs_of s2.
Proof. induction s1 as [|c r IH]; simpl; intros; auto. destruct c; simpl; rewrite ?IH; auto. Qed.

Lemma apply_eff_nil : forall w comp, apply_eff w comp [] = w.
Proof. intros. destruct w. unfold apply_eff. simpl. rewrite !app_nil_r, Nat.add_0_r. reflexivity. Qed.
Lemma apply_eff_cons : forall w comp sp es,
  apply_eff (apply_eff w comp [sp]) comp es = apply_eff w comp (sp :: es).
Proof. intros. destruct w. unfold apply_eff, me. simpl.
  rewrite !Nat.add_1_r, !app_nil_r, map_app. rewrite <- !app_assoc. simpl.
  f_equal. lia. Qed.
Lemma t_eff_nil : forall t c, t_eff t c [] (t_rest t) (t_pend t) (t_cnt t) = t.
Proof. intros. destruct t. unfold t_eff. simpl. rewrite !app_nil_r. reflexivity. Qed.

Definition pend_fut (p : pend) : option nat :=
  match p with PendNone => None | PendAwait f | PendNext f | PendNextAll f => Some f end.

Lemma do_submit_eff : forall w t c, do_submit w t c =
  (apply_eff w (t_comp t) [FSub c], t_eff t (w_counter w) [FSub c] (t_rest t) (t_pend t) (t_cnt t)).
Proof. intros. unfold do_submit, apply_eff, t_eff, send. destruct w, t. simpl.
  rewrite !Nat.add_1_r. reflexivity. Qed.
Lemma do_map_eff : forall w t cs, do_map w t cs =
  (apply_eff w (t_comp t) [FMap cs], t_eff t (w_counter w) [FMap cs] (t_rest t) (t_pend t) (t_cnt t)).
Proof. intros. unfold do_map, apply_eff, t_eff, send. destruct w, t. simpl.
  rewrite !app_nil_r. rewrite !Nat.add_1_r. reflexivity. Qed.

Lemma t_eff_cons : forall t c sp es r p n,
  t_eff (t_eff t c [sp] (t_rest t) (t_pend t) (t_cnt t)) (S c) es r p n = t_eff t c (sp :: es) r p n.
Proof. intros. destruct t. unfold t_eff. simpl. rewrite <- !app_assoc. reflexivity. Qed.

Ltac b2p := repeat match goal with
 | H : (_ =? _) = true |- _ => apply Nat.eqb_eq in H
 | H : (_ =? _) = false |- _ => apply Nat.eqb_neq in H
 | H : (_ <=? _) = true |- _ => apply Nat.leb_le in H
 | H : (_ <=? _) = false |- _ => apply Nat.leb_gt in H
 | H : (_ <? _) = true |- _ => apply Nat.ltb_lt in H
 | H : (_ <? _) = false |- _ => apply Nat.ltb_ge in H end.
