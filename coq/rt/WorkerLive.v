(* Liveness side of C07: in the worker with atomic await registration no wake-up is lost. *)
From Coq Require Import List Arith Bool PeanoNat Lia Permutation.
Import ListNotations.
From BQ Require Import rt.WorkerM rt.WorkerThm.

Definition fut_ids (t : task) : list nat := map fst (t_futs t).
(* a has a pending wake-up or sleeps on a mailbox that is not ready *)
Definition wit (w : wstate) (a : addr) : Prop :=
  In a (w_ready w) \/ exists m b, box_get m (w_boxes w) = Some b /\ armedb a b = true.
Definition guardL (w : wstate) : Prop := w_oos w = false /\ w_errs w = [].

Record winvL (w : wstate) : Prop := {
  L_disj : forall t t' m, In t (w_tasks w) -> In t' (w_tasks w) -> In m (fut_ids t) -> In m (fut_ids t') -> t_addr t = t_addr t';
  L_live : forall t, In t (w_tasks w) -> wit w (t_addr t)
}.

Lemma winvL_w0 : forall j, winvL (w0 j).
Proof. intro j. constructor; simpl; intros; contradiction. Qed.

Lemma wit_same : forall w w' a, w_ready w' = w_ready w -> w_boxes w' = w_boxes w -> wit w a -> wit w' a.
Proof. intros w w' a H1 H2 H. unfold wit in *. rewrite H1, H2. exact H. Qed.
Lemma winvL_same : forall w w', w_ready w' = w_ready w -> w_boxes w' = w_boxes w -> w_tasks w' = w_tasks w -> winvL w -> winvL w'.
Proof. intros w w' H1 H2 H3 [K1 K2]. constructor; rewrite H3; auto. intros t Ht. eapply wit_same; eauto. Qed.

Lemma fut_ids_lt : forall w t m, winvV w -> In t (w_tasks w) -> In m (fut_ids t) -> m < w_counter w.
Proof. intros w t m IV Ht Hm. destruct (V_tasks w IV t Ht) as (_ & done & F & _).
  unfold fut_ids in Hm. apply in_map_iff in Hm. destruct Hm as ([m' n] & <- & Hin). apply In_nth_error in Hin. destruct Hin as [f Hf].
  destruct (Forall2_nth_l _ _ _ _ _ _ _ F Hf) as (sp & _ & (_ & Hlt & _)). exact Hlt. Qed.

Lemma desired_in_futs : forall w t m, winvV w -> In t (w_tasks w) -> t_desired t = Some m -> In m (fut_ids t).
Proof. intros w t m IV Ht Hd. destruct (V_tasks w IV t Ht) as (T2 & _). destruct (T2 m Hd) as (f & n & _ & Hf).
  unfold fut_ids. apply in_map_iff. exists (m, n). split; auto. eapply nth_error_In; eauto. Qed.

(* ---- receiving thread ---- *)
Lemma add_task_L : forall w t, winvL w -> t_futs t = [] -> winvL (add_task w t).
Proof. intros w t [K1 K2] Hf. unfold add_task, put. constructor; simpl.
  - intros t1 t2 m H1 H2 M1 M2. apply In_task_set in H1. apply In_task_set in H2.
    destruct H1 as [->|H1]; [unfold fut_ids in M1; rewrite Hf in M1; contradiction|].
    destruct H2 as [->|H2]; [unfold fut_ids in M2; rewrite Hf in M2; contradiction|]. eapply K1; eauto.
  - intros t1 H1. apply In_task_set in H1. destruct H1 as [->|H1].
    + left. simpl. apply in_or_app. right. left. reflexivity.
    + destruct (K2 t1 H1) as [Hq|Hb]; [left; simpl; apply in_or_app; auto|right; exact Hb].
Qed.

Lemma handle_result_wit : forall w a v w1 ok x, NoDup (keys (w_boxes w)) -> handle_result w a v = (w1, ok) ->
  w_errs w1 = [] -> wit w x -> wit w1 x.
Proof.
  intros w a v w1 ok x Hnd H He Hx. unfold handle_result in H.
  destruct (negb (dest_eqb (a_w a) (me w))); [injection H as <- <-; simpl in He; destruct (w_errs w); discriminate|].
  destruct (box_get (a_box a) (w_boxes w)) as [b|] eqn:Eb; [|injection H as <- <-; exact Hx].
  destruct (deposit b (a_slot a) v) as [b1 ok1] eqn:Edep.
  assert (Hd1 : b_dest b1 = b_dest b).
  { unfold deposit in Edep. destruct (b_single b); [|destruct (Nat.ltb _ _)]; injection Edep as <- <-; reflexivity. }
  destruct (negb ok1); [injection H as <- <-; simpl in He; destruct (w_errs w); discriminate|].
  set (w1' := set_deposited (set_boxes w (box_set (a_box a) b1 (w_boxes w))) (w_deposited w ++ [a])) in *.
  (* witnesses that do not sit on the deposited mailbox survive *)
  assert (Hother : forall wx, w_boxes wx = box_set (a_box a) (b_set_dest b1 None) (w_boxes w1') \/ w_boxes wx = w_boxes w1' ->
            (forall y, In y (w_ready w) -> In y (w_ready wx)) ->
            (exists m b0, m <> a_box a /\ box_get m (w_boxes w) = Some b0 /\ armedb x b0 = true) \/ In x (w_ready w) -> wit wx x).
  { intros wx Hbx Hrx [(m & b0 & Hm & Hg & Ha)|Hq]; [|left; auto]. right. exists m, b0. split; auto.
    destruct Hbx as [->| ->]; subst w1'; simpl; rewrite ?box_get_set_other by auto; rewrite ?box_get_set_other by auto; auto. }
  destruct Hx as [Hq|(m & b0 & Hg & Ha)].
  - (* queued *) destruct (b_dest b1) as [d|]; [|injection H as <- <-; left; exact Hq].
    cbn [w_tasks] in H. destruct (task_get d (w_tasks w1')); [|injection H as <- <-; left; exact Hq].
    destruct (t_won t || b_ready b1); injection H as <- <-; left; simpl; auto. apply in_or_app. auto.
  - destruct (Nat.eq_dec m (a_box a)) as [->|Hne].
    + (* the witness is the deposited mailbox: dest = x, it was not ready *)
      assert (b0 = b) by congruence. subst b0. apply armedb_dest in Ha. destruct Ha as [Hdx Hnr].
      rewrite Hd1, Hdx in H. cbn [w_tasks] in H.
      destruct (task_get x (w_tasks w1')) as [t|]; [|injection H as <- <-; simpl in He; destruct (w_errs w); discriminate].
      destruct (t_won t || b_ready b1) eqn:Ew; injection H as <- <-.
      * left. simpl. apply in_or_app. right. left. reflexivity.
      * right. exists (a_box a), b1. split; [subst w1'; simpl; apply box_get_set_same|].
        apply orb_false_iff in Ew. destruct Ew as [_ Ew]. apply armedb_intro; congruence.
    + destruct (b_dest b1) as [d|]; [|injection H as <- <-; apply (Hother w1'); auto; left; eauto].
      cbn [w_tasks] in H. destruct (task_get d (w_tasks w1')); [|injection H as <- <-; apply (Hother (log_err w1' EKeyTask)); auto; left; eauto].
      destruct (t_won t || b_ready b1); injection H as <- <-.
      * apply Hother; [left; reflexivity|simpl; intros; apply in_or_app; auto|left; eauto].
      * apply (Hother w1'); auto. left; eauto.
Qed.

Lemma armedb_ready_false : forall x b, b_ready b = true -> armedb x b = false.
Proof. intros. unfold armedb. rewrite H. apply andb_false_r. Qed.

Lemma desired_result_wit : forall w t w1 t1 sv x, NoDup (keys (w_boxes w)) -> desired_result w t = inl (w1, t1, sv) ->
  wit w x -> wit w1 x.
Proof.
  intros w t w1 t1 sv x Hnd H Hx. unfold desired_result in H.
  destruct (t_desired t) as [m|]; [|injection H as <- <- <-; exact Hx].
  destruct (box_get m (w_boxes w)) as [b|] eqn:Eb; [|discriminate].
  destruct (t_won t).
  - destruct (b_fresh b); [|discriminate]. injection H as <- <- <-.
    destruct Hx as [Hq|(m' & b' & Hg & Ha)]; [left; exact Hq|right].
    destruct (Nat.eq_dec m' m) as [->|Hne].
    + assert (b' = b) by congruence. subst b'. exists m, (b_set_fresh b (Some [])). simpl. rewrite box_get_set_same. split; auto.
    + exists m', b'. simpl. rewrite box_get_set_other by auto. auto.
  - destruct (b_ready b) eqn:R; cbn [negb] in H; [|discriminate].
    destruct (remove_first m (t_owned t)); [|discriminate]. injection H as <- <- <-.
    destruct Hx as [Hq|(m' & b' & Hg & Ha)]; [left; exact Hq|right].
    destruct (Nat.eq_dec m' m) as [->|Hne].
    + assert (b' = b) by congruence. subst b'. rewrite (armedb_ready_false x b R) in Ha. discriminate.
    + exists m', b'. simpl. rewrite box_get_del_other by auto. auto.
Qed.

Lemma apply_eff_wit : forall w comp es x, wit w x -> wit (apply_eff w comp es) x.
Proof. intros w comp es x [Hq|(m & b & Hg & Ha)]; [left; exact Hq|right]. exists m, b. simpl. rewrite box_get_app, Hg. auto. Qed.

Lemma resume_wit : forall w t sv w' t' y x, resume w t sv = (w', t', y) -> wit w x -> wit w' x.
Proof.
  intros w t sv w' t' y x H Hx. unfold resume in H.
  assert (Hr : forall w0 t0, wit w0 x -> run (t_rest t) w0 t0 = (w', t', y) -> wit w' x).
  { intros w0 t0 H0 Hrun. apply run_exact in Hrun. destruct Hrun as (es & _ & _ & _ & _ & Hw & _). rewrite Hw. apply apply_eff_wit. exact H0. }
  assert (Hraise : raised w t = (w', t', y) -> wit w' x) by (unfold raised; intro E; injection E as <- <- <-; exact Hx).
  destruct (t_pend t); destruct sv; try (apply Hraise; exact H);
    (match type of H with run _ ?wl ?tl = _ => apply (Hr wl tl) end; [eapply wit_same; [| |exact Hx]; reflexivity|exact H]).
Qed.

(* in scope and without errors, the completion loop only drops ready mailboxes *)
Lemma close_boxes_wit : forall owned w w1 ok x, NoDup (keys (w_boxes w)) -> close_boxes owned w = (w1, ok) ->
  w_oos w1 = false -> wit w x -> wit w1 x.
Proof.
  induction owned as [|m r IH]; simpl; intros w w1 ok x Hnd H Ho Hx.
  - injection H as <- <-. exact Hx.
  - destruct (box_get m (w_boxes w)) as [b|] eqn:Eb; [|injection H as <- <-; exact Hx].
    destruct (b_ready b) eqn:R.
    + eapply IH; [| exact H|exact Ho|].
      * simpl. apply keys_box_del_NoDup. exact Hnd.
      * destruct Hx as [Hq|(m' & b' & Hg & Ha)]; [left; exact Hq|right].
        destruct (Nat.eq_dec m' m) as [->|Hne].
        -- assert (b' = b) by congruence. subst b'. rewrite (armedb_ready_false x b R) in Ha. discriminate.
        -- exists m', b'. simpl. rewrite box_get_del_other by auto. auto.
    + exfalso. apply close_boxes_oos in H; [congruence|reflexivity].
Qed.

(* the three registration statements as one atom: facts about the state they produce *)
Lemma aw_atomic_shape : forall w a m nxt b t, box_get m (w_boxes w) = Some b -> task_get a (w_tasks w) = Some t ->
  let w5 := aw2 (aw1c (aw1 w a m) a nxt) a m in
  (forall y, In y (w_ready w) -> In y (w_ready w5)) /\
  (b_ready b = true -> In a (w_ready w5)) /\
  box_get m (w_boxes w5) = Some (b_set_dest b (Some a)) /\
  (forall m', m' <> m -> box_get m' (w_boxes w5) = box_get m' (w_boxes w)) /\
  (forall t', In t' (w_tasks w5) -> In t' (w_tasks w) \/ (t_addr t' = a /\ t_futs t' = t_futs t)).
Proof.
  intros w a m nxt b t Hb Ht w5. subst w5.
  pose proof (task_get_Some _ _ _ Ht) as [Hta _].
  unfold aw1. rewrite Hb. cbn [w_tasks set_boxes]. rewrite Ht.
  set (w1 := set_tasks (set_boxes w (box_set m (b_set_dest b (Some a)) (w_boxes w))) (task_set (t_set_desired t (Some m)) (w_tasks w))).
  assert (T1 : task_get a (w_tasks w1) = Some (t_set_desired t (Some m))).
  { subst w1. simpl. rewrite <- Hta. apply (task_get_task_set_same (t_set_desired t (Some m))). }
  unfold aw1c. rewrite T1.
  set (w2 := set_tasks w1 (task_set (t_set_won (t_set_desired t (Some m)) nxt) (w_tasks w1))).
  assert (B2 : box_get m (w_boxes w2) = Some (b_set_dest b (Some a))) by (subst w2 w1; simpl; apply box_get_set_same).
  unfold aw2. rewrite B2.
  assert (Htasks : forall t', In t' (w_tasks w2) -> In t' (w_tasks w) \/ (t_addr t' = a /\ t_futs t' = t_futs t)).
  { intros t' H. subst w2 w1. simpl in H. apply In_task_set in H. destruct H as [->|H]; [right; simpl; auto|].
    apply In_task_set in H. destruct H as [->|H]; [right; simpl; auto|left; exact H]. }
  assert (Hbox : forall m', m' <> m -> box_get m' (w_boxes w2) = box_get m' (w_boxes w)).
  { intros m' Hne. subst w2 w1. simpl. apply box_get_set_other. exact Hne. }
  destruct (b_ready (b_set_dest b (Some a))) eqn:R.
  - split; [simpl; intros; apply in_or_app; auto|]. split; [simpl; intros; apply in_or_app; right; left; reflexivity|].
    split; [exact B2|]. split; [exact Hbox|exact Htasks].
  - split; [auto|]. split; [intro R'; unfold b_ready in *; simpl in R; congruence|].
    split; [exact B2|]. split; [exact Hbox|exact Htasks].
Qed.

(* ---- small facts about errors and futures ---- *)
Lemma desired_result_errs : forall w t w1 t1 sv, desired_result w t = inl (w1, t1, sv) -> w_errs w1 = w_errs w /\ t_futs t1 = t_futs t.
Proof. intros w t w1 t1 sv H. unfold desired_result in H.
  destruct (t_desired t) as [m|]; [|injection H as <- <- <-; auto].
  destruct (box_get m (w_boxes w)) as [b|]; [|discriminate]. destruct (t_won t).
  - destruct (b_fresh b); [|discriminate]. injection H as <- <- <-. auto.
  - destruct (negb (b_ready b)); [discriminate|]. destruct (remove_first m (t_owned t)); [|discriminate].
    injection H as <- <- <-. auto. Qed.

Lemma resume_futs : forall w t sv w' t' y, resume w t sv = (w', t', y) ->
  w_errs w' = w_errs w /\ exists es, t_futs t' = t_futs t ++ eff_futs (w_counter w) es.
Proof.
  intros w t sv w' t' y H. unfold resume in H.
  assert (Hr : forall w0 t0, w_errs w0 = w_errs w -> w_counter w0 = w_counter w -> t_futs t0 = t_futs t ->
            run (t_rest t) w0 t0 = (w', t', y) -> w_errs w' = w_errs w /\ exists es, t_futs t' = t_futs t ++ eff_futs (w_counter w) es).
  { intros w0 t0 E1 E2 E3 Hrun. apply run_exact in Hrun. destruct Hrun as (es & _ & _ & _ & _ & Hw & Ht & _).
    split; [rewrite Hw; simpl; exact E1|]. exists es. rewrite Ht. simpl. rewrite E3, E2. reflexivity. }
  assert (Hx : raised w t = (w', t', y) -> w_errs w' = w_errs w /\ exists es, t_futs t' = t_futs t ++ eff_futs (w_counter w) es).
  { unfold raised. intro E. injection E as <- <- <-. split; auto. exists []. simpl. rewrite app_nil_r. reflexivity. }
  destruct (t_pend t); destruct sv; try (apply Hx; exact H);
    (match type of H with run _ ?wl ?tl = _ => apply (Hr wl tl) end; [reflexivity|reflexivity|reflexivity|exact H]).
Qed.

Lemma In_eff_futs_ge : forall es c m n, In (m, n) (eff_futs c es) -> c <= m.
Proof. induction es as [|sp r IH]; simpl; intros c m n H; [contradiction|]. destruct H as [H|H].
  - injection H as <- _. lia.
  - apply IH in H. lia. Qed.

Lemma close_boxes_errs : forall owned w w1 ok, close_boxes owned w = (w1, ok) -> exists l, w_errs w1 = w_errs w ++ l.
Proof. induction owned as [|m r IH]; simpl; intros w w1 ok H.
  - injection H as <- <-. exists []. rewrite app_nil_r. reflexivity.
  - destruct (box_get m (w_boxes w)); [|injection H as <- <-; simpl; eauto].
    destruct (b_ready m0); apply IH in H; simpl in H; exact H. Qed.

Lemma handle_result_errs : forall w a v w1 ok, handle_result w a v = (w1, ok) -> exists l, w_errs w1 = w_errs w ++ l.
Proof. intros w a v w1 ok H. unfold handle_result in H.
  destruct (negb (dest_eqb (a_w a) (me w))); [injection H as <- <-; simpl; eauto|].
  destruct (box_get (a_box a) (w_boxes w)) as [b|]; [|injection H as <- <-; exists []; simpl; rewrite app_nil_r; reflexivity].
  destruct (deposit b (a_slot a) v) as [b1 ok1]. destruct (negb ok1); [injection H as <- <-; simpl; eauto|].
  destruct (b_dest b1) as [d|]; [|injection H as <- <-; exists []; simpl; rewrite app_nil_r; reflexivity].
  cbn [w_tasks set_deposited set_boxes] in H.
  destruct (task_get d (w_tasks w)) as [t|]; [|injection H as <- <-; simpl; eauto].
  destruct (t_won t || b_ready b1); injection H as <- <-; exists []; simpl; rewrite app_nil_r; reflexivity. Qed.

Lemma app_nil_l_inv : forall A (l1 l2 : list A), l1 ++ l2 = [] -> l1 = [].
Proof. intros. apply app_eq_nil in H. tauto. Qed.

Lemma no_task_with_addr : forall a ts, task_get a ts = None -> forall t, In t ts -> t_addr t <> a.
Proof. induction ts as [|t0 r IH]; simpl; intros H t Ht; [contradiction|].
  destruct (addr_eqb (t_addr t0) a) eqn:E; [discriminate|]. apply addr_eqb_neq in E. destruct Ht as [<-|Ht]; auto. Qed.

Lemma close_boxes_tasks : forall owned w w1 ok, close_boxes owned w = (w1, ok) -> w_tasks w1 = w_tasks w.
Proof. induction owned as [|m r IH]; simpl; intros w w1 ok H.
  - injection H as <- <-. reflexivity.
  - destruct (box_get m (w_boxes w)); [|injection H as <- <-; reflexivity].
    destruct (b_ready m0); apply IH in H; simpl in H; exact H. Qed.

Lemma handle_result_false_err : forall w a v w1, handle_result w a v = (w1, false) -> w_errs w1 <> [].
Proof. intros w a v w1 H. unfold handle_result in H.
  destruct (negb (dest_eqb (a_w a) (me w))); [injection H as <-; simpl; intro E; apply app_eq_nil in E; destruct E; discriminate|].
  destruct (box_get (a_box a) (w_boxes w)) as [b|]; [|discriminate].
  destruct (deposit b (a_slot a) v) as [b1 ok1]. destruct (negb ok1); [injection H as <-; simpl; intro E; apply app_eq_nil in E; destruct E; discriminate|].
  destruct (b_dest b1) as [d|]; [|discriminate]. cbn [w_tasks set_deposited set_boxes] in H.
  destruct (task_get d (w_tasks w)) as [t|]; [|injection H as <-; simpl; intro E; apply app_eq_nil in E; destruct E; discriminate].
  destruct (t_won t || b_ready b1); discriminate. Qed.

Definition disjL (w : wstate) : Prop :=
  forall t t' m, In t (w_tasks w) -> In t' (w_tasks w) -> In m (fut_ids t) -> In m (fut_ids t') -> t_addr t = t_addr t'.

Lemma dispatch_L : forall w a, winvV w -> winvD w -> own_ok w -> qcnt a w + armed a w = 0 ->
  (forall x, tcnt x (w_tasks w) <= 1) ->
  disjL w -> (forall t, In t (w_tasks w) -> t_addr t <> a -> wit w (t_addr t)) ->
  guardL (dispatch true w a) -> winvL (dispatch true w a).
Proof.
  intros w a IV ID Hown Hz Huniq Hdisj Hlive [Go Ge]. revert Go Ge. unfold dispatch.
  destruct (task_get a (w_tasks w)) as [t|] eqn:Eg.
  2:{ intros _ _. constructor; [exact Hdisj|]. simpl. intros t Ht. eapply wit_same; [| |apply Hlive; auto]; try reflexivity.
      eapply no_task_with_addr; eauto. }
  pose proof (task_get_Some _ _ _ Eg) as [Hta Hin].
  pose proof (D_pc w ID) as Hpc.
  destruct (desired_result w t) as [[[w1 t1] sv]|e] eqn:Ed.
  2:{ intros _ Ge. exfalso. unfold task_error in Ge. simpl in Ge. apply app_eq_nil in Ge. destruct Ge; discriminate. }
  destruct (resume w1 (t_set_desired (t_set_won t1 false) None) sv) as [[w2 t3] y] eqn:Er.
  destruct (dispatch_front _ _ _ _ _ _ _ _ _ IV Hpc Eg Ed Er) as (IV1 & IV2 & Ew2 & Hpc2 & Hid & Ta3 & Ts3 & Hret & Hpend & Tok & Sv & Ep & Es).
  destruct (desired_result_D _ _ _ _ _ ID (V_keys w IV) Ed) as (ID1 & R1 & T1 & A1).
  destruct (resume_D _ _ _ _ _ _ ID1 (winvV_des_lt w1 IV1) Er) as (ID2 & R2 & T2 & A2).
  destruct (desired_result_errs _ _ _ _ _ Ed) as [Ee1 Ef1].
  destruct (resume_futs _ _ _ _ _ _ Er) as [Ee2 (es & Ef2)]. simpl in Ef2.
  assert (Hc1 : w_counter w1 = w_counter w) by (destruct (desired_result_V _ _ _ _ _ IV Ed) as (_ & _ & (_ & Q & _) & _); exact Q).
  set (w2' := set_tasks w2 (task_set t3 (w_tasks w2))) in *.
  assert (Hz2 : qcnt a w2 + armed a w2 = 0).
  { unfold qcnt in *. rewrite R2, R1. rewrite (A2 a). specialize (A1 a). lia. }
  assert (ID2' : winvD w2') by (subst w2'; rewrite <- Ta3 in Hz2; apply (winvD_task_set w2 t3 ID2 Hz2)).
  assert (Hwit2 : forall x, wit w x -> wit w2' x).
  { intros x Hx. eapply wit_same; [| |eapply (resume_wit _ _ _ _ _ _ x Er); eapply desired_result_wit; [apply (V_keys w IV)|exact Ed|exact Hx]]; reflexivity. }
  assert (Htasks2 : w_tasks w2' = task_set t3 (w_tasks w)) by (subst w2'; simpl; rewrite T2, T1; reflexivity).
  assert (Hfut3 : forall m, In m (fut_ids t3) -> In m (fut_ids t) \/ w_counter w <= m).
  { intros m Hm. unfold fut_ids in *. rewrite Ef2, Ef1, map_app in Hm. apply in_app_or in Hm. destruct Hm as [Hm|Hm]; [left; exact Hm|right].
    apply in_map_iff in Hm. destruct Hm as ([m' n] & <- & Hm). apply In_eff_futs_ge in Hm. simpl. lia. }
  assert (Hdisj2 : disjL w2').
  { intros x x' m Hx Hx' Mx Mx'. rewrite Htasks2 in Hx, Hx'. apply In_task_set in Hx. apply In_task_set in Hx'.
    assert (Hold : forall u, In u (w_tasks w) -> In m (fut_ids u) -> m < w_counter w) by (intros u Hu Mu; eapply fut_ids_lt; eauto).
    destruct Hx as [->|Hx]; destruct Hx' as [->|Hx']; auto.
    - destruct (Hfut3 m Mx) as [Mt|Hge]; [rewrite Ta3, <- Hta; eapply Hdisj; eauto|specialize (Hold x' Hx' Mx'); lia].
    - destruct (Hfut3 m Mx') as [Mt|Hge]; [rewrite Ta3, <- Hta; eapply Hdisj; eauto|specialize (Hold x Hx Mx); lia].
    - eapply Hdisj; eauto. }
  assert (Hlive2 : forall u, In u (w_tasks w2') -> t_addr u <> a -> wit w2' (t_addr u)).
  { intros u Hu Hne. rewrite Htasks2 in Hu. apply In_task_set in Hu. destruct Hu as [->|Hu]; [congruence|]. apply Hwit2. apply Hlive; auto. }
  assert (Eerr2 : w_errs w2' = w_errs w) by (subst w2'; simpl; congruence).
  destruct y as [m nxt|v|].
  - (* await *)
    destruct (negb (has_box w2' m)) eqn:Hb.
    { intros _ Ge. exfalso. unfold task_error in Ge. simpl in Ge. apply app_eq_nil in Ge. destruct Ge; discriminate. }
    intros _ _. apply negb_false_iff in Hb. unfold has_box in Hb.
    destruct (box_get m (w_boxes w2')) as [b|] eqn:Eb; [|discriminate].
    destruct (Hpend m nxt eq_refl) as (tx & f & n & Htx & Hpf & Hnf).
    destruct (aw_atomic_shape w2' a m nxt b tx Eb Htx) as (S1 & S2 & S3 & S4 & S5).
    set (w5 := aw2 (aw1c (aw1 w2' a m) a nxt) a m) in *.
    assert (Hmx : In m (fut_ids tx)) by (unfold fut_ids; apply in_map_iff; exists (m, n); split; auto; eapply nth_error_In; eauto).
    constructor.
    + (* disjointness *)
      assert (Hrep : forall u, In u (w_tasks w5) -> exists u0, In u0 (w_tasks w2') /\ t_addr u0 = t_addr u /\ fut_ids u0 = fut_ids u).
      { intros u Hu. destruct (S5 u Hu) as [Hu0|[E1 E2]]; [exists u; auto|]. exists tx. split; [eapply task_get_In; eauto|].
        pose proof (task_get_Some _ _ _ Htx) as [Q _]. split; [congruence|unfold fut_ids; congruence]. }
      intros u u' m0 Hu Hu' Mu Mu'. simpl in Hu, Hu'.
      destruct (Hrep u Hu) as (u0 & H0 & A0 & F0). destruct (Hrep u' Hu') as (u0' & H0' & A0' & F0').
      rewrite <- A0, <- A0'. apply (Hdisj2 u0 u0' m0); auto; [rewrite F0|rewrite F0']; assumption.
    + intros u Hu. simpl in Hu.
      destruct (addr_eqb (t_addr u) a) eqn:Eua.
      * apply addr_eqb_eq in Eua. rewrite Eua. destruct (b_ready b) eqn:R.
        -- left. simpl. apply S2. reflexivity.
        -- right. exists m, (b_set_dest b (Some a)). simpl. split; [exact S3|]. apply armedb_intro; [reflexivity|exact R].
      * apply addr_eqb_neq in Eua. destruct (S5 u Hu) as [Hu0|[E1 _]]; [|congruence].
        destruct (Hlive2 u Hu0 Eua) as [Hq|(m' & b' & Hg & Ha)].
        -- left. simpl. apply S1. exact Hq.
        -- destruct (Nat.eq_dec m' m) as [->|Hne].
           ++ exfalso. assert (b' = b) by congruence. subst b'.
              destruct (D_armed w2' ID2' m b (t_addr u) Eb Ha) as (tu & Htu & Hdu).
              pose proof (desired_in_futs w2' tu m IV2 (task_get_In _ _ _ Htu) Hdu) as Mu.
              pose proof (task_get_Some _ _ _ Htu) as [Qu _]. pose proof (task_get_Some _ _ _ Htx) as [Qx _].
              apply Eua. rewrite <- Qu, <- Qx. eapply Hdisj2; eauto; eapply task_get_In; eauto.
           ++ right. exists m', b'. simpl. rewrite (S4 m' Hne). auto.
  - (* return *)
    destruct (complete w2' t3 v) as [w3 ok] eqn:Ec. intros Go Ge.
    assert (G3 : w_oos w3 = false /\ w_errs w3 = []).
    { destruct ok; simpl in Go, Ge; [auto|]. unfold fatal in *. simpl in *. auto. }
    destruct G3 as [Go3 Ge3].
    assert (Tg' : task_get (t_addr t3) (w_tasks w2') = Some t3) by (subst w2'; simpl; apply task_get_task_set_same).
    assert (Hcnt : forall u, In u (task_del (t_addr t3) (w_tasks w2')) -> t_addr u <> a).
    { intros u Hu Eu. pose proof (tcnt_task_del a _ _ _ Tg') as D. rewrite Ta3 in D. rewrite addr_eqb_refl in D.
      assert (tcnt a (w_tasks w2') <= 1).
      { rewrite Htasks2. rewrite <- Ta3 at 1. rewrite (tcnt_task_set_present _ t3 (w_tasks w) t) by (rewrite Ta3; exact Eg). rewrite Ta3. apply Huniq. }
      rewrite Ta3 in Hu. assert (tcnt a (task_del a (w_tasks w2')) >= 1).
      { unfold tcnt. apply cnt_pos_in. apply in_map_iff. exists u. split; [exact Eu|exact Hu]. }
      lia. }
    assert (Hfin : forall wa, (forall x, wit w2' x -> wit wa x) -> w_tasks wa = w_tasks w2' -> NoDup (keys (w_boxes wa)) ->
              close_boxes (t_owned t3) (set_finished (set_tasks wa (task_del (t_addr t3) (w_tasks wa))) (w_finished wa ++ [(t_addr t3, v)])) = (w3, ok) ->
              winvL w3).
    { intros wa Hwa Hta' Hnd Hc.
      assert (Hw3 : forall x, wit w2' x -> wit w3 x).
      { intros x Hx. eapply close_boxes_wit; [|exact Hc|exact Go3|]. simpl; exact Hnd. eapply wit_same; [| |apply Hwa; exact Hx]; reflexivity. }
      pose proof (close_boxes_tasks _ _ _ _ Hc) as T3. simpl in T3. rewrite Hta' in T3.
      constructor; rewrite T3.
      - intros u u' m0 Hu Hu' Mu Mu'. apply In_task_del in Hu. apply In_task_del in Hu'. eapply Hdisj2; eauto.
      - intros u Hu. apply Hw3. apply Hlive2; [eapply In_task_del; eauto|apply Hcnt; exact Hu]. }
    assert (W3 : winvL w3); [|destruct ok; [|unfold fatal]; (eapply winvL_same; [| | |exact W3]; reflexivity)].
    unfold complete in Ec.
    destruct (dest_eqb (a_w (t_addr t3)) (me w2')) eqn:Eme.
    + destruct (handle_result w2' (t_addr t3) v) as [w' ok'] eqn:Eh.
      destruct ok'; cbn [negb] in Ec.
      * destruct (close_boxes_errs _ _ _ _ Ec) as (l & El). simpl in El.
        assert (Ew' : w_errs w' = []) by (rewrite Ge3 in El; symmetry in El; apply app_eq_nil in El; tauto).
        assert (IVx : winvV w').
        { assert (Hown3 : a_w (t_addr t3) = me w2' -> lexp w2' (t_addr t3) v).
          { intro Hm. rewrite Ta3, <- Hta in *. assert (Hm' : a_w (t_addr t) = me w) by (rewrite Hm; unfold me; congruence).
            destruct (Hown t Hin Hm') as (Lx & Hlt). rewrite (Hret v eq_refl).
            eapply lexp_ext; [exact Ew2|exact Hlt|exact Lx]. }
          destruct (handle_result_V _ _ _ _ _ IV2 Hown3 Eh) as (Q & _). exact Q. }
        apply (Hfin (send w' MUpdate)); auto.
        -- intros x Hx. eapply wit_same; [| |eapply (handle_result_wit _ _ _ _ _ x (V_keys w2' IV2) Eh Ew' Hx)]; reflexivity.
        -- simpl. apply (handle_result_tasks _ _ _ _ _ Eh).
        -- simpl. apply (V_keys w' IVx).
      * injection Ec as <- <-. exfalso. apply (handle_result_false_err _ _ _ _ Eh). simpl in Ge3. exact Ge3.
    + cbn [negb] in Ec. apply (Hfin (send w2' (MResult (t_addr t3) v (w_id w2')))); auto.
      simpl. apply (V_keys w2' IV2).
  - intros _ Ge. exfalso. unfold task_error in Ge. simpl in Ge. apply app_eq_nil in Ge. destruct Ge; discriminate.
Qed.

(* ---- errors only accumulate ---- *)
Definition errs_ext (w w' : wstate) : Prop := exists l, w_errs w' = w_errs w ++ l.
Lemma errs_ext_refl : forall w w', w_errs w' = w_errs w -> errs_ext w w'.
Proof. intros w w' H. exists []. rewrite app_nil_r. exact H. Qed.
Lemma errs_ext_trans : forall a b c, errs_ext a b -> errs_ext b c -> errs_ext a c.
Proof. intros a b c [l1 H1] [l2 H2]. exists (l1 ++ l2). rewrite H2, H1, app_assoc. reflexivity. Qed.

Lemma aw_errs : forall w a m nxt, w_errs (aw2 (aw1c (aw1 w a m) a nxt) a m) = w_errs w.
Proof. intros. unfold aw2, aw1c, aw1.
  repeat match goal with |- context [match ?x with _ => _ end] => destruct x end; reflexivity. Qed.
Lemma aw1_errs : forall w a m, w_errs (aw1 w a m) = w_errs w.
Proof. intros. unfold aw1. destruct (box_get m (w_boxes w)); simpl; destruct (task_get a _); reflexivity. Qed.
Lemma aw1c_errs : forall w a nxt, w_errs (aw1c w a nxt) = w_errs w.
Proof. intros. unfold aw1c. destruct (task_get a _); reflexivity. Qed.
Lemma aw2_errs : forall w a m, w_errs (aw2 w a m) = w_errs w.
Proof. intros. unfold aw2. destruct (box_get m (w_boxes w)) as [b|]; [destruct (b_ready b)|]; reflexivity. Qed.

Lemma complete_errs : forall w t v w1 ok, complete w t v = (w1, ok) -> errs_ext w w1.
Proof. intros w t v w1 ok H. unfold complete in H.
  destruct (dest_eqb (a_w (t_addr t)) (me w)).
  - destruct (handle_result w (t_addr t) v) as [w' ok'] eqn:E. pose proof (handle_result_errs _ _ _ _ _ E) as E1.
    destruct ok'; cbn [negb] in H.
    + apply close_boxes_errs in H. eapply errs_ext_trans; [exact E1|exact H].
    + injection H as <- <-. exact E1.
  - cbn [negb] in H. apply close_boxes_errs in H. exact H. Qed.

Lemma dispatch_errs : forall atomic w a, errs_ext w (dispatch atomic w a).
Proof. intros atomic w a. unfold dispatch.
  destruct (task_get a (w_tasks w)) as [t|]; [|apply errs_ext_refl; reflexivity].
  destruct (desired_result w t) as [[[w1 t1] sv]|e] eqn:Ed; [|exists [e]; reflexivity].
  destruct (desired_result_errs _ _ _ _ _ Ed) as [E1 _].
  destruct (resume w1 _ sv) as [[w2 t3] y] eqn:Er. destruct (resume_futs _ _ _ _ _ _ Er) as [E2 _].
  assert (E12 : w_errs w2 = w_errs w) by congruence.
  destruct y as [m nxt|v|].
  - destruct (negb (has_box _ m)); [exists [EBody]; simpl; rewrite E12; reflexivity|].
    destruct atomic; [|apply errs_ext_refl; simpl; exact E12]. apply errs_ext_refl. simpl. rewrite aw_errs. exact E12.
  - destruct (complete _ t3 v) as [w3 ok] eqn:Ec. apply complete_errs in Ec.
    eapply errs_ext_trans; [apply (errs_ext_refl w (set_tasks w2 (task_set t3 (w_tasks w2)))); exact E12|].
    eapply errs_ext_trans; [exact Ec|]. destruct ok; apply errs_ext_refl; reflexivity.
  - exists [EBody]. simpl. rewrite E12. reflexivity. Qed.

Lemma main_step_errs : forall atomic w w', main_step atomic w = Some w' -> errs_ext w w'.
Proof. intros atomic w w' H. unfold main_step in H. destruct (w_pc w).
  - destruct (w_ready w); [destruct (w_delayed w)|]; injection H as <-; apply errs_ext_refl; reflexivity.
  - destruct (last_opt (w_delayed w)); injection H as <-; [apply errs_ext_refl; reflexivity|exists [EPopEmpty]; reflexivity].
  - destruct (w_ready w) as [|a q]; injection H as <-; [apply errs_ext_refl; reflexivity|apply (dispatch_errs atomic (set_ready w q) a)].
  - destruct (w_ready w) as [|a q]; [discriminate|]. injection H as <-. apply (dispatch_errs atomic (set_ready w q) a).
  - injection H as <-. apply errs_ext_refl. simpl. apply aw1_errs.
  - injection H as <-. apply errs_ext_refl. simpl. apply aw1c_errs.
  - injection H as <-. apply errs_ext_refl. simpl. apply aw2_errs.
  - discriminate. Qed.

Lemma recv_step_errs : forall w m, errs_ext w (recv_step w m).
Proof. intros w m. unfold recv_step. destruct (w_rdead w); [apply errs_ext_refl; reflexivity|].
  destruct m as [t|ts|a v c|r| |c| |a]; try (apply errs_ext_refl; reflexivity).
  - destruct ts as [|t0 r]; [exists [EEmptyBatch]; reflexivity|]. destruct (last_opt (t0 :: r)); [apply errs_ext_refl; reflexivity|exists [EEmptyBatch]; reflexivity].
  - destruct (handle_result w a v) as [w1 ok] eqn:E. apply handle_result_errs in E. destruct ok; exact E. Qed.

Lemma guardL_back_main : forall atomic w w', main_step atomic w = Some w' -> guardL w' -> guardL w.
Proof. intros atomic w w' H [Go Ge]. split.
  - destruct (w_oos w) eqn:E; auto. rewrite (main_step_oos _ _ _ H E) in Go. discriminate.
  - destruct (main_step_errs _ _ _ H) as [l El]. rewrite Ge in El. symmetry in El. apply app_eq_nil in El. tauto. Qed.
Lemma guardL_back_recv : forall w m, guardL (recv_step w m) -> guardL w.
Proof. intros w m [Go Ge]. split.
  - destruct (w_oos w) eqn:E; auto. rewrite (recv_step_oos _ m E) in Go. discriminate.
  - destruct (recv_step_errs w m) as [l El]. rewrite Ge in El. symmetry in El. apply app_eq_nil in El. tauto. Qed.

Lemma main_step_L : forall w w', winvV w -> winvD w -> own_ok w -> winvL w ->
  (forall x, tcnt x (w_tasks w) <= 1) ->
  (forall t, In t (w_delayed w) -> is_new t) ->
  main_step true w = Some w' -> guardL w' -> winvL w'.
Proof.
  intros w w' IV ID Hown IL Huniq Hdel H G. unfold main_step in H.
  pose proof (D_pc w ID) as Hpc. destruct (w_pc w) eqn:Epc; simpl in Hpc; try tauto.
  - destruct (w_ready w); [destruct (w_delayed w)|]; injection H as <-; (eapply winvL_same; [| | |exact IL]; reflexivity).
  - destruct (last_opt (w_delayed w)) as [tl|] eqn:El; injection H as <-.
    + pose proof (last_opt_removelast _ _ _ El) as Hsplit.
      assert (Hin : In tl (w_delayed w)) by (rewrite Hsplit; apply in_or_app; right; left; reflexivity).
      eapply winvL_same; [| | |apply (add_task_L (set_delayed w (removelast (w_delayed w))) tl)]; try reflexivity.
      * eapply winvL_same; [| | |exact IL]; reflexivity.
      * rewrite (Hdel tl Hin). reflexivity.
    + destruct G as [_ Ge]. unfold fatal in Ge. simpl in Ge. apply app_eq_nil in Ge. destruct Ge; discriminate.
  - destruct (w_ready w) as [|a q] eqn:Er; injection H as <-.
    + eapply winvL_same; [| | |exact IL]; reflexivity.
    + destruct (winvD_dequeue w a q ID Er) as (I1 & Z1 & _).
      apply dispatch_L; auto.
      * eapply winvV_same; [| | | | |exact IV]; reflexivity.
      * exact (L_disj w IL).
      * intros t Ht Hne. destruct (L_live w IL t Ht) as [Hq|Hb]; [|right; exact Hb].
        left. simpl. rewrite Er in Hq. destruct Hq as [Hq|Hq]; [congruence|exact Hq].
  - destruct (w_ready w) as [|a q] eqn:Er; [discriminate|]. injection H as <-.
    destruct (winvD_dequeue w a q ID Er) as (I1 & Z1 & _).
    apply dispatch_L; auto.
    + eapply winvV_same; [| | | | |exact IV]; reflexivity.
    + exact (L_disj w IL).
    + intros t Ht Hne. destruct (L_live w IL t Ht) as [Hq|Hb]; [|right; exact Hb].
      left. simpl. rewrite Er in Hq. destruct Hq as [Hq|Hq]; [congruence|exact Hq].
  - discriminate.
Qed.

Lemma recv_step_L : forall w m, winvV w -> winvL w -> w_rdead w = false ->
  (forall t, In t (msg_tasks m) -> is_new t) ->
  guardL (recv_step w m) -> winvL (recv_step w m).
Proof.
  intros w m IV IL Hd Hnew G. revert G. unfold recv_step. rewrite Hd.
  destruct m as [t|ts|a v c|r| |c| |a]; intro G; try exact IL; try (eapply winvL_same; [| | |exact IL]; reflexivity).
  - eapply winvL_same; [| | |apply (add_task_L (set_recent w (Some (t_addr t))) t)]; try reflexivity.
    + eapply winvL_same; [| | |exact IL]; reflexivity.
    + rewrite (Hnew t (or_introl eq_refl)). reflexivity.
  - destruct ts as [|t0 r]; [eapply winvL_same; [| | |exact IL]; reflexivity|].
    destruct (last_opt (t0 :: r)) as [tl|] eqn:El; [|apply last_opt_None in El; discriminate].
    pose proof (last_opt_removelast _ _ _ El) as Hsplit.
    assert (Hin : In tl (t0 :: r)) by (rewrite Hsplit; apply in_or_app; right; left; reflexivity).
    eapply winvL_same; [| | |apply (add_task_L (set_recent w (Some (t_addr t0))) tl)]; try reflexivity.
    + eapply winvL_same; [| | |exact IL]; reflexivity.
    + rewrite (Hnew tl Hin). reflexivity.
  - destruct (handle_result w a v) as [w1 ok] eqn:Eh.
    assert (Ee : w_errs w1 = []) by (destruct G as [_ Ge]; destruct ok; exact Ge).
    pose proof (handle_result_tasks _ _ _ _ _ Eh) as T1.
    assert (I1 : winvL w1).
    { constructor; rewrite T1; [exact (L_disj w IL)|]. intros t Ht. eapply handle_result_wit; [apply (V_keys w IV)|exact Eh|exact Ee|apply (L_live w IL t Ht)]. }
    destruct ok; [exact I1|eapply winvL_same; [| | |exact I1]; reflexivity].
Qed.

Definition invL (s : sys) : Prop := forall w, In w (s_workers s) -> guardL w -> winvL w.

Lemma invL_init : forall k, invL (sys0 k).
Proof. intros k w Hw _. simpl in Hw. apply in_map_iff in Hw. destruct Hw as (j & <- & _). apply winvL_w0. Qed.

Lemma tasks_uniq : forall s i w, invA s -> nth_error (s_workers s) i = Some w -> forall x, tcnt x (w_tasks w) <= 1.
Proof. intros s i w IA Hw x. pose proof (A_cons s IA x) as C. pose proof (A_uniq s IA x) as U. unfold n_task in C.
  pose proof (held_le_total s x i w Hw). pose proof (tasks_le_held x w). lia. Qed.

Lemma step_invL : forall s e s', invA s -> invV s -> invB s -> invC s -> invD s -> invL s -> step true s e = Some s' -> invL s'.
Proof.
  intros s e s' IA IV IB IC ID IL H. destruct e as [sc target|i|i|i asg]; simpl in H.
  - destruct (Nat.ltb target (length (s_workers s))); [|discriminate]. injection H as <-. exact IL.
  - destruct (nth_error (s_workers s) i) as [w|] eqn:Ew; [|discriminate].
    destruct (nth_error (s_down s) i) as [[|m q]|] eqn:Ed; try discriminate.
    destruct (w_rdead w) eqn:Erd; [discriminate|]. injection H as <-.
    pose proof (nth_error_In _ _ Ew) as Hwin. pose proof (nth_error_In _ _ Ed) as Hqin.
    intros w' Hw' G. simpl in Hw'. apply In_set_nth in Hw'. destruct Hw' as [->|Hw']; [|apply IL; auto].
    apply recv_step_L; auto.
    + apply (VG_w s IV w Hwin).
    + apply IL; auto. eapply guardL_back_recv; eauto.
    + intros t Ht. apply (VG_down s IV _ _ Hqin). rewrite chan_tasks_cons. apply in_or_app. auto.
  - destruct (nth_error (s_workers s) i) as [w|] eqn:Ew; [|discriminate].
    destruct (main_step true w) as [w'|] eqn:Em; [|discriminate]. injection H as <-.
    pose proof (nth_error_In _ _ Ew) as Hwin.
    intros w0 Hw0 G. simpl in Hw0. apply In_set_nth in Hw0. destruct Hw0 as [->|Hw0]; [|apply IL; auto].
    pose proof (guardL_back_main _ _ _ Em G) as G0.
    destruct (ID w Hwin) as [Ho|IDw]; [destruct G0; congruence|].
    eapply main_step_L; [apply (VG_w s IV w Hwin)|exact IDw| |apply IL; auto|eapply tasks_uniq; eauto| |exact Em|exact G].
    + intros t Ht Hme. destruct (VG_held s IV w t Hwin) as (Gd & Ex).
      { unfold w_held. apply in_or_app. right. apply in_or_app. auto. }
      unfold expect_ok, good_addr in *. rewrite Hme in *. unfold me in *. rewrite (A_ids s IA i w Ew) in *.
      split; [apply Ex; auto|]. destruct Gd as (wx & Hwx & Hlt). congruence.
    + intros t Ht. apply (VG_new s IV w); auto. apply in_or_app. auto.
  - destruct (nth_error (s_workers s) i) as [w|] eqn:Ew; [|discriminate].
    destruct (w_out w) as [|m q] eqn:Eo; [discriminate|].
    pose proof (nth_error_In _ _ Ew) as Hwin.
    assert (G : forall d cl er ft, invL (mkSys (set_nth i (set_out w q) (s_workers s)) d cl er (s_nbox s) ft (s_roots s))).
    { intros d cl er ft w' Hw' G'. simpl in Hw'. apply In_set_nth in Hw'. destruct Hw' as [->|Hw']; [|apply IL; auto].
      eapply winvL_same; [| | |apply (IL w Hwin G')]; reflexivity. }
    unfold server_msg in H. cbn [s_workers set_workers s_down s_client s_errors s_nbox s_fatal s_roots] in H.
    destruct m as [t|ts|a v c|r| |c| |a].
    + destruct (valid_asg _ 1 asg); [|discriminate]. injection H as <-. apply G.
    + destruct (valid_asg _ (length ts) asg); [|discriminate]. injection H as <-. apply G.
    + destruct (a_w a) as [|j]; [injection H as <-; apply G|]. destruct (Nat.ltb j _); injection H as <-; apply G.
    + injection H as <-. apply G.
    + injection H as <-. apply G.
    + injection H as <-. apply G.
    + injection H as <-. apply G.
    + injection H as <-. apply G.
Qed.

Lemma steps_inv6 : forall es s s', invA s /\ invV s /\ invB s /\ invC s /\ invD s /\ invL s -> steps true s es = Some s' ->
  invA s' /\ invV s' /\ invB s' /\ invC s' /\ invD s' /\ invL s'.
Proof. induction es as [|e r IH]; simpl; intros s s' (IA & IV & IB & IC & ID & IL) H.
  - injection H as <-. auto 6.
  - destruct (step true s e) as [s1|] eqn:E; [|discriminate]. apply (IH s1); auto.
    split; [eapply step_invA; eauto|]. split; [eapply step_invV; eauto|]. split; [eapply step_invB; eauto|].
    split; [eapply step_invC; eauto|]. split; [eapply step_invD; eauto|eapply step_invL; eauto]. Qed.

(* ---- no lost wake-up: a task that is not queued sleeps on a mailbox that is not ready ---- *)
Theorem no_lost_wakeup : forall k s, reachable true k s ->
  forall w t, In w (s_workers s) -> w_oos w = false -> w_errs w = [] -> In t (w_tasks w) ->
    In (t_addr t) (w_ready w) \/
    exists m b, box_get m (w_boxes w) = Some b /\ b_dest b = Some (t_addr t) /\ b_ready b = false /\ t_desired t = Some m.
Proof.
  intros k s [es H] w t Hw Ho He Ht.
  assert (I : invA s /\ invV s /\ invB s /\ invC s /\ invD s /\ invL s).
  { eapply steps_inv6; [|exact H]. split; [apply invA_init|]. split; [apply invV_init|]. split; [apply invB_init|].
    split; [apply invC_init|]. split; [apply invD_init|apply invL_init]. }
  destruct I as (IA & _ & _ & _ & ID & IL).
  destruct (ID w Hw) as [Ho'|IDw]; [congruence|].
  destruct (L_live w (IL w Hw (conj Ho He)) t Ht) as [Hq|(m & b & Hg & Ha)]; [left; exact Hq|right].
  exists m, b. pose proof (armedb_dest _ _ Ha) as [Hd Hr]. split; auto. split; auto. split; auto.
  destruct (D_armed w IDw m b (t_addr t) Hg Ha) as (t0 & Ht0 & Hd0).
  apply In_nth_error in Hw. destruct Hw as [i Hi]. pose proof (tasks_uniq s i w IA Hi (t_addr t)) as U.
  (* the task found at this address is t itself *)
  assert (t0 = t); [|subst; exact Hd0].
  clear - Ht Ht0 U. induction (w_tasks w) as [|x r IH]; [contradiction|]. simpl in Ht0. rewrite tcnt_cons in U.
  destruct (addr_eqb (t_addr x) (t_addr t)) eqn:E.
  - injection Ht0 as <-. destruct Ht as [->|Ht]; auto. exfalso.
    rewrite addr_eqb_sym, E in U. assert (tcnt (t_addr t) r >= 1) by (unfold tcnt; apply cnt_pos_in; apply in_map; auto). lia.
  - destruct Ht as [->|Ht]; [rewrite addr_eqb_refl in E; discriminate|]. apply IH; auto. rewrite addr_eqb_sym, E in U. simpl in U. exact U.
Qed.
