(* C12 - CANCEL reaches every worker of a tree of managers (proofs for rt/CancelTree.v). *)
From Coq Require Import List Arith Bool Lia PeanoNat.
Import ListNotations.
From BQ Require Import rt.CancelM rt.CancelThm rt.CancelTree.

(* links from worker w up to (not including) the server *)
Fixpoint path (T : topo) (fuel i : nat) : list nat :=
  match fuel with
  | 0 => []
  | S f => if i =? 0 then [] else i :: path T f (parent T i)
  end.
Definition anc (T : topo) (w : nat) : list nat := path T (S w) w.

Section Tree.
Variable T : topo.
Hypothesis WF : wf_topo T.

Lemma path_le f : forall i x, i < nnodes T -> In x (path T f i) -> 0 < x /\ x <= i.
Proof. induction f as [|f IH]; intros i x L H; simpl in H. destruct H.
  destruct (i =? 0) eqn:E. destruct H. apply Nat.eqb_neq in E. destruct H as [<-|H]. lia.
  assert (parent T i < i) by (apply WF; lia). destruct (IH (parent T i) x) as [A B]; auto. lia. lia. Qed.

Lemma path_child f : forall i a, i < nnodes T -> In a (path T f i) -> a <> i ->
  exists ch, In ch (path T f i) /\ parent T ch = a.
Proof. induction f as [|f IH]; intros i a L H N; simpl in H. destruct H.
  destruct (i =? 0) eqn:E. destruct H. apply Nat.eqb_neq in E. destruct H as [<-|H]. congruence.
  assert (PL : parent T i < i) by (apply WF; lia).
  destruct (Nat.eq_dec a (parent T i)) as [->|NE].
  - exists i. simpl. rewrite (proj2 (Nat.eqb_neq i 0)) by auto. split; auto. left; auto.
  - destruct (IH (parent T i) a) as (ch & C1 & C2); auto. lia. exists ch. simpl. rewrite (proj2 (Nat.eqb_neq i 0)) by auto. split; auto. right; auto.
Qed.

Lemma path_top f : forall i, 0 < i -> i < nnodes T -> i < f -> exists a, In a (path T f i) /\ parent T a = 0.
Proof. induction f as [|f IH]; intros i P L F. lia. simpl. rewrite (proj2 (Nat.eqb_neq i 0)) by lia.
  assert (PL : parent T i < i) by (apply WF; lia).
  destruct (Nat.eq_dec (parent T i) 0) as [E|NE]. exists i. split; auto. left; auto.
  destruct (IH (parent T i)) as (a & A1 & A2); try lia. exists a. split; auto. right; auto. Qed.

Lemma In_children n ch : In ch (children T n) <-> 0 < ch /\ ch < nnodes T /\ parent T ch = n.
Proof. unfold children. rewrite filter_In, in_seq, andb_true_iff, Nat.ltb_lt, Nat.eqb_eq. intuition lia. Qed.

(* ---------------------------------------------------------------- queues only grow when a node forwards *)
Definition qsub (a b : list (list addr)) : Prop :=
  length b = length a /\ forall i q, nth_error a i = Some q -> exists q', nth_error b i = Some q' /\ incl q q'.
Lemma qsub_refl a : qsub a a. Proof. split; auto. intros i q H. exists q. split; auto. apply incl_refl. Qed.
Lemma qsub_trans a b c : qsub a b -> qsub b c -> qsub a c.
Proof. intros [A1 A2] [B1 B2]. split. congruence. intros i q H. destruct (A2 _ _ H) as (q1 & H1 & I1). destruct (B2 _ _ H1) as (q2 & H2 & I2).
  exists q2. split; auto. eapply incl_tran; eauto. Qed.
Lemma qsub_push i c qs : qsub qs (qpush i c qs).
Proof. unfold qpush. destruct (nth_error qs i) as [q|] eqn:E; [|apply qsub_refl]. split. apply length_set_nth.
  intros j q0 H. destruct (Nat.eq_dec j i). subst. rewrite H in E. inv E. exists (q ++ [c]). split. eapply nth_error_set_nth_same; eauto.
  intros x X. apply in_or_app; auto. exists q0. split. rewrite nth_error_set_nth_other; auto. apply incl_refl. Qed.
Lemma qpush_in i c qs : i < length qs -> exists q, nth_error (qpush i c qs) i = Some q /\ In c q.
Proof. intros L. unfold qpush. destruct (nth_error qs i) as [q|] eqn:E. exists (q ++ [c]). split. eapply nth_error_set_nth_same; eauto.
  apply in_or_app; right; left; auto. apply nth_error_None in E. lia. Qed.

Lemma send_links_mono n c : forall ls s, qsub (ts_up s) (ts_up (send_links T n ls c s)) /\ qsub (ts_down s) (ts_down (send_links T n ls c s))
  /\ ts_handled (send_links T n ls c s) = ts_handled s /\ ts_issued (send_links T n ls c s) = ts_issued s.
Proof. induction ls as [|l r IH]; intros s; simpl. repeat split; auto; apply qsub_refl.
  destruct l.
  - destruct (IH (mkTS (qpush n c (ts_up s)) (ts_down s) (ts_handled s) (ts_issued s))) as (A & B & C & D). simpl in *.
    split. eapply qsub_trans; [apply qsub_push|exact A]. auto.
  - destruct (nth_error (children T n) k) as [ch|]. 
    + destruct (IH (mkTS (ts_up s) (qpush ch c (ts_down s)) (ts_handled s) (ts_issued s))) as (A & B & C & D). simpl in *.
      split; auto. split; auto. eapply qsub_trans; [apply qsub_push|exact B].
    + apply IH. Qed.

Lemma send_links_down n c : forall ls s k ch, In (LDown k) ls -> nth_error (children T n) k = Some ch -> ch < length (ts_down s) ->
  exists q, nth_error (ts_down (send_links T n ls c s)) ch = Some q /\ In c q.
Proof. induction ls as [|l r IH]; intros s k ch IN CH L; simpl. destruct IN.
  destruct IN as [->|IN].
  - rewrite CH. destruct (qpush_in ch c (ts_down s) L) as (q & Q1 & Q2).
    destruct (send_links_mono n c r (mkTS (ts_up s) (qpush ch c (ts_down s)) (ts_handled s) (ts_issued s))) as (_ & [_ B] & _). simpl in B.
    destruct (B _ _ Q1) as (q' & Q3 & Q4). exists q'. split; auto.
  - destruct l.
    + eapply IH; eauto.
    + destruct (nth_error (children T n) k0) as [ch0|]. eapply IH; eauto. simpl. destruct (qsub_push ch0 c (ts_down s)) as [E _]. lia. eapply IH; eauto. Qed.

Lemma send_links_up n c s r : n < length (ts_up s) -> exists q, nth_error (ts_up (send_links T n (LUp :: r) c s)) n = Some q /\ In c q.
Proof. intros L. simpl. destruct (qpush_in n c (ts_up s) L) as (q & Q1 & Q2).
  destruct (send_links_mono n c r (mkTS (qpush n c (ts_up s)) (ts_down s) (ts_handled s) (ts_issued s))) as ([_ A] & _). simpl in A.
  destruct (A _ _ Q1) as (q' & Q3 & Q4). exists q'. split; auto. Qed.

(* ---------------------------------------------------------------- the invariant *)
Definition in_up (s : tstate) (c : addr) : Prop := exists i q, nth_error (ts_up s) i = Some q /\ In c q.
Definition on_way (s : tstate) (c : addr) (w : nat) : Prop :=
  (exists h, nth_error (ts_handled s) w = Some h /\ In c h)
  \/ exists a q, In a (anc T w) /\ nth_error (ts_down s) a = Some q /\ In c q.
Definition worker (w : nat) : Prop := 0 < w /\ w < nnodes T /\ is_leaf T w = true.

Record tinv (s : tstate) : Prop := {
  ti_lu : length (ts_up s) = nnodes T;
  ti_ld : length (ts_down s) = nnodes T;
  ti_lh : length (ts_handled s) = nnodes T;
  ti_c : forall c, In c (ts_issued s) -> in_up s c \/ forall w, worker w -> on_way s c w
}.

Lemma tinv_init : tinv (init_tree T).
Proof. constructor; simpl; try apply repeat_length. intros c []. Qed.

Lemma on_way_mono s s' c w : qsub (ts_down s) (ts_down s') -> ts_handled s' = ts_handled s -> on_way s c w -> on_way s' c w.
Proof. intros [_ D] H [(h & H1 & H2)|(a & q & A1 & A2 & A3)]. left. rewrite H. eauto.
  right. destruct (D _ _ A2) as (q' & Q1 & Q2). exists a, q'. auto. Qed.
Lemma in_up_mono s s' c : qsub (ts_up s) (ts_up s') -> in_up s c -> in_up s' c.
Proof. intros [_ U] (i & q & Q1 & Q2). destruct (U _ _ Q1) as (q' & Q3 & Q4). exists i, q'. auto. Qed.

Lemma children_all n k ch : nth_error (children T n) k = Some ch -> In (LDown k) (map LDown (seq 0 (length (children T n)))).
Proof. intros H. apply in_map. apply in_seq. split. lia. simpl. apply nth_error_Some. congruence. Qed.

Lemma tinv_step s e s' : tstep T s e = Some s' -> tinv s -> tinv s'.
Proof.
  intros H [LU LD LH IC]. destruct e; simpl in H.
  - (* issue *)
    destruct (is_leaf T w && (0 <? w) && (w <? nnodes T)) eqn:G; inv H.
    apply andb_true_iff in G. destruct G as [G G3]. apply andb_true_iff in G. destruct G as [G1 G2]. apply Nat.ltb_lt in G2, G3.
    destruct (qsub_push w c (ts_up s)) as [QL QS].
    constructor; simpl; auto. lia. intros c0 IN. apply in_app_or in IN. destruct IN as [IN|[<-|[]]].
    + destruct (IC _ IN) as [X|X]. left. eapply in_up_mono; eauto. simpl. split; auto. right. intros w0 W. eapply on_way_mono; eauto. simpl. apply qsub_refl.
    + left. destruct (qpush_in w c (ts_up s)) as (q & Q1 & Q2). lia. exists w, q. auto.
  - (* a parent handles a CANCEL from below *)
    destruct ((0 <? i) && (i <? nnodes T)) eqn:G; [|discriminate]. apply andb_true_iff in G. destruct G as [G1 G2]. apply Nat.ltb_lt in G1, G2.
    destruct (nth_error (ts_up s) i) as [[|c q]|] eqn:U; try discriminate. inv H.
    set (n := parent T i) in *. set (s1 := mkTS (set_nth i q (ts_up s)) (ts_down s) (ts_handled s) (ts_issued s)).
    set (ls := route_cancel (n =? 0) false (length (children T n))).
    destruct (send_links_mono n c ls s1) as (MU & MD & MH & MI).
    assert (NL : n < nnodes T). { assert (n < i) by (apply WF; auto). lia. }
    constructor.
    + destruct MU as [E _]. rewrite E. simpl. rewrite length_set_nth. auto.
    + destruct MD as [E _]. rewrite E. simpl. auto.
    + rewrite MH. simpl. auto.
    + rewrite MI. simpl. intros c0 IN.
      assert (KEEP : (forall w, worker w -> on_way s c0 w) -> forall w, worker w -> on_way (send_links T n ls c s1) c0 w).
      { intros X w W. eapply on_way_mono; eauto. }
      destruct (IC _ IN) as [(j & qj & J1 & J2)|X]; [|right; auto].
      (* c0 was in some up queue: still there unless it is the message just handled *)
      assert (STILL : c0 <> c \/ j <> i -> in_up s1 c0).
      { intros D. destruct (Nat.eq_dec j i) as [->|NE]. rewrite U in J1. inv J1. destruct J2 as [->|J2]. destruct D; congruence.
        exists i, q. split; auto. simpl. eapply nth_error_set_nth_same; eauto.
        exists j, qj. split; auto. simpl. rewrite nth_error_set_nth_other; auto. }
      destruct (addr_eqb c0 c) eqn:EC.
      * apply addr_eqb_eq in EC. subst c0. unfold ls, route_cancel. destruct (n =? 0) eqn:RN.
        -- (* the server broadcasts: on its way to every worker *)
           apply Nat.eqb_eq in RN. right. intros w (W1 & W2 & W3).
           destruct (path_top (S w) w) as (a & A1 & A2); auto.
           destruct (path_le _ _ _ W2 A1) as [A3 A4].
           assert (CH : In a (children T n)) by (apply In_children; repeat split; try lia; congruence).
           apply In_nth_error in CH. destruct CH as [k CH].
           destruct (send_links_down n c (map LDown (seq 0 (length (children T n)))) s1 k a) as (qa & Q1 & Q2); auto.
           eapply children_all; eauto. simpl. lia.
           right. exists a, qa. auto.
        -- (* a manager forwards it upstream *)
           left. simpl. destruct (send_links_up n c s1 []) as (qn & Q1 & Q2). simpl. rewrite length_set_nth. lia.
           exists n, qn. auto.
      * apply addr_eqb_neq in EC. left. eapply in_up_mono; [exact MU|]. apply STILL. auto.
  - (* a node handles a CANCEL from above *)
    destruct ((0 <? i) && (i <? nnodes T)) eqn:G; [|discriminate]. apply andb_true_iff in G. destruct G as [G1 G2]. apply Nat.ltb_lt in G1, G2.
    destruct (nth_error (ts_down s) i) as [[|c q]|] eqn:D; try discriminate.
    destruct (is_leaf T i) eqn:LF.
    + (* a worker: _handle_cancel *)
      inv H. destruct (qsub_push i c (ts_handled s)) as [HL HS]. constructor; simpl; try rewrite length_set_nth; auto. lia.
      intros c0 IN. destruct (IC _ IN) as [X|X]. left. destruct X as (j & qj & J1 & J2). exists j, qj. auto.
      right. intros w W. destruct (X w W) as [(h & H1 & H2)|(a & qa & A1 & A2 & A3)].
      * left. destruct (HS _ _ H1) as (h' & H3 & H4). exists h'. auto.
      * destruct (Nat.eq_dec a i) as [->|NE].
        -- rewrite D in A2. inv A2. destruct A3 as [->|A3].
           ++ (* the worker itself: i is a leaf on the path of w, so i = w *)
              assert (i = w). { destruct (Nat.eq_dec i w); auto. exfalso. destruct W as (W1 & W2 & W3).
                destruct (path_child (S w) w i W2 A1 n) as (ch & C1 & C2). destruct (path_le _ _ _ W2 C1) as [C3 C4].
                assert (In ch (children T i)) by (apply In_children; repeat split; auto; lia).
                unfold is_leaf in LF. destruct (children T i); [destruct H|discriminate]. }
              subst w. left. destruct (qpush_in i c0 (ts_handled s)) as (h & H1 & H2). lia. exists h. auto.
           ++ right. exists i, q. split; auto. split; auto. simpl. eapply nth_error_set_nth_same; eauto.
        -- right. exists a, qa. split; auto. split; auto. simpl. rewrite nth_error_set_nth_other; auto.
    + (* a manager: broadcast to its employees *)
      inv H. set (s1 := mkTS (ts_up s) (set_nth i q (ts_down s)) (ts_handled s) (ts_issued s)).
      set (ls := route_cancel false true (length (children T i))).
      destruct (send_links_mono i c ls s1) as (MU & MD & MH & MI).
      constructor.
      * destruct MU as [E _]. rewrite E. simpl. auto.
      * destruct MD as [E _]. rewrite E. simpl. rewrite length_set_nth. auto.
      * rewrite MH. simpl. auto.
      * rewrite MI. simpl. intros c0 IN. destruct (IC _ IN) as [X|X]. left. eapply in_up_mono; [exact MU|]. exact X.
        right. intros w W. destruct (X w W) as [(h & H1 & H2)|(a & qa & A1 & A2 & A3)].
        -- left. rewrite MH. simpl. eauto.
        -- assert (OLD : forall a' q', In a' (anc T w) -> nth_error (ts_down s1) a' = Some q' -> In c0 q' -> on_way (send_links T i ls c s1) c0 w).
           { intros a' q' P1 P2 P3. right. destruct MD as [_ MD]. destruct (MD _ _ P2) as (q2 & Q1 & Q2). exists a', q2. auto. }
           destruct (Nat.eq_dec a i) as [->|NE].
           ++ rewrite D in A2. inv A2. destruct A3 as [->|A3].
              ** (* it is the message being broadcast: it moves one link down the path of w *)
                 destruct W as (W1 & W2 & W3).
                 assert (NW : i <> w). { intro; subst. congruence. }
                 destruct (path_child (S w) w i W2 A1 NW) as (ch & C1 & C2). destruct (path_le _ _ _ W2 C1) as [C3 C4].
                 assert (CH : In ch (children T i)) by (apply In_children; repeat split; auto; lia).
                 apply In_nth_error in CH. destruct CH as [k CH].
                 destruct (send_links_down i c0 (map LDown (seq 0 (length (children T i)))) s1 k ch) as (qa & Q1 & Q2); auto.
                 eapply children_all; eauto. simpl. rewrite length_set_nth. lia.
                 right. exists ch, qa. auto.
              ** eapply (OLD i q); auto. simpl. eapply nth_error_set_nth_same; eauto.
           ++ eapply (OLD a qa); auto. simpl. rewrite nth_error_set_nth_other; auto.
Qed.

Lemma tinv_run evs : forall s s', trun T s evs = Some s' -> tinv s -> tinv s'.
Proof. induction evs as [|e r IH]; intros s s' H I; simpl in H. inv H; auto.
  destruct (tstep T s e) eqn:S; [|discriminate]. eapply IH; eauto. eapply tinv_step; eauto. Qed.

(* C12_cancel_reaches_every_worker *)
Theorem cancel_reaches_every_worker evs s : trun T (init_tree T) evs = Some s -> tquiet s = true ->
  forall c w, In c (ts_issued s) -> worker w -> exists h, nth_error (ts_handled s) w = Some h /\ In c h.
Proof.
  intros R Q c w IC W. pose proof (tinv_run _ _ _ R tinv_init) as [LU LD LH I].
  unfold tquiet in Q. apply andb_true_iff in Q. destruct Q as [Q1 Q2]. rewrite forallb_forall in Q1, Q2.
  destruct (I _ IC) as [(i & q & A1 & A2)|X].
  - apply nth_error_In in A1. apply Q1 in A1. destruct q; [destruct A2|discriminate].
  - destruct (X w W) as [Y|(a & q & A1 & A2 & A3)]; auto.
    apply nth_error_In in A2. apply Q2 in A2. destruct q; [destruct A3|discriminate].
Qed.
End Tree.
