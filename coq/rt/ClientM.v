(* C13, client side: model of bqskit/compiler/compiler.py
     Compiler.submit / status / result / cancel, _send, _send_recv,
     _recv_handle_log_error, _recv_log_error_until_empty.
   Definitions only (proofs: ClientThm.v).

   The pipe from the server is a FIFO of messages.  The wire messages carry no task id, so
   provenance is the FIFO position.  `conn.poll()` is an oracle: both loops stop at the first
   `False`, hence one natural number per loop (how many further reads find poll() true)
   describes every possible behaviour of poll(); poll() is never true on an empty pipe.
   MEof stands for the closed pipe: poll() is true and recv() raises EOFError.
   A blocking recv() on an empty pipe never returns: outcome Blocks. *)
From Coq Require Import List Arith Bool. Import ListNotations.

Inductive smsg :=
| MLog (l : nat)        (* (LOG, pickle.dumps(record)) *)
| MErr (m : nat)        (* (ERROR, str) *)
| MResult (v : nat)     (* (RESULT, payload) *)
| MStatus (s : nat)     (* (STATUS, CompilationStatus) *)
| MCancel               (* (CANCEL, None) *)
| MOther (x : nat)      (* any other RuntimeMessage *)
| MEof.

Inductive kind := CSubmit | CStatus | CResult | CCancel.
(* __cause__ of RuntimeError('Server connection unexpectedly closed.') *)
Inductive cause := CEof | CAttr | CUnexp.
Inductive retv := VSubmitted | VStatus (s : nat) | VResult (v : nat) | VTrue.
Inductive outcome :=
| Ret (v : retv)
| RaiseErr (m : nat)          (* closed, cause RuntimeError(m): error forwarded from the server *)
| RaiseClosed (c : cause)     (* closed, cause EOFError / AttributeError / 'Unexpected message type' in the drain *)
| RaiseUnexpected             (* RuntimeError('Unexpected message type') from status/result/cancel; conn stays *)
| RaiseNoConn                 (* RuntimeError('Connection unexpectedly none.') *)
| Blocks.

(* _recv_log_error_until_empty: `while self.conn.poll()`; k = number of reads that find poll() true.
   fixed=false is the code as it is: the LOG payload is `bytes`, `payload.name` raises AttributeError. *)
Fixpoint drain (fixed : bool) (k : nat) (q : list smsg) : option outcome * list nat * list smsg :=
  match k, q with
  | O, _ => (None, [], q)
  | _, [] => (None, [], [])
  | S k', m :: q' =>
    match m with
    | MLog l =>
      if fixed then let '(r, lg, q'') := drain fixed k' q' in (r, l :: lg, q'')
      else (Some (RaiseClosed CAttr), [], q')
    | MErr e => (Some (RaiseErr e), [], q')
    | MEof => (Some (RaiseClosed CEof), [], q')
    | _ => (Some (RaiseClosed CUnexp), [], q')
    end
  end.

Inductive rres := Got (a : smsg) | Fail (o : outcome).

(* _recv_handle_log_error once to_return is set: `while ... or self.conn.poll()`;
   a later non-LOG/ERROR message overwrites to_return. *)
Fixpoint tail (k : nat) (a : smsg) (q : list smsg) : rres * list nat * list smsg :=
  match k, q with
  | O, _ => (Got a, [], q)
  | _, [] => (Got a, [], [])
  | S k', m :: q' =>
    match m with
    | MLog l => let '(r, lg, q'') := tail k' a q' in (r, l :: lg, q'')
    | MErr e => (Fail (RaiseErr e), [], q')
    | MEof => (Fail (RaiseClosed CEof), [], q')
    | b => tail k' b q'
    end
  end.

(* _recv_handle_log_error while to_return is None: blocking reads *)
Fixpoint recv1 (k : nat) (q : list smsg) : rres * list nat * list smsg :=
  match q with
  | [] => (Fail Blocks, [], [])
  | m :: q' =>
    match m with
    | MLog l => let '(r, lg, q'') := recv1 k q' in (r, l :: lg, q'')
    | MErr e => (Fail (RaiseErr e), [], q')
    | MEof => (Fail (RaiseClosed CEof), [], q')
    | a => tail k a q'
    end
  end.

(* the type check in status / result / cancel *)
Definition answer (kd : kind) (a : smsg) : outcome :=
  match kd, a with
  | CStatus, MStatus s => Ret (VStatus s)
  | CResult, MResult v => Ret (VResult v)
  | CCancel, MCancel => Ret VTrue
  | _, _ => RaiseUnexpected
  end.

(* client state: conn is not None, unread messages in the pipe *)
Definition cstate := (bool * list smsg)%type.

(* one API call.  pre: messages arriving before the send; post: what the server sends afterwards
   (causality: the drain can never see post); k1, k2: poll oracles of the two loops. *)
Definition call (fixed : bool) (kd : kind) (k1 k2 : nat) (st : cstate) (pre post : list smsg)
  : outcome * list nat * cstate :=
  let '(op, q) := st in
  if negb op then (RaiseNoConn, [], st) else
  match drain fixed k1 (q ++ pre) with
  | (Some o, lg, q') => (o, lg, (false, q'))
  | (None, lg, q') =>
    match kd with
    | CSubmit => (Ret VSubmitted, lg, (true, q' ++ post))
    | _ =>
      match recv1 k2 (q' ++ post) with
      | (Got a, lg2, q'') => (answer kd a, lg ++ lg2, (true, q''))
      | (Fail Blocks, lg2, q'') => (Blocks, lg ++ lg2, (true, q''))
      | (Fail o, lg2, q'') => (o, lg ++ lg2, (false, q''))
      end
    end
  end.

Record callin := mkCall { c_kind : kind; c_k1 : nat; c_k2 : nat; c_pre : list smsg; c_post : list smsg }.

Fixpoint run (fixed : bool) (st : cstate) (cs : list callin) : list (outcome * list nat) * cstate :=
  match cs with
  | [] => ([], st)
  | c :: cs' =>
    let '(o, lg, st') := call fixed (c_kind c) (c_k1 c) (c_k2 c) st (c_pre c) (c_post c) in
    let '(os, stf) := run fixed st' cs' in ((o, lg) :: os, stf)
  end.

(* vocabulary of the theorems *)
Definition is_log (m : smsg) : bool := match m with MLog _ => true | _ => false end.
Definition is_ans (m : smsg) : bool :=
  match m with MLog _ | MErr _ | MEof => false | _ => true end.
Fixpoint logs_of (q : list smsg) : list nat :=
  match q with [] => [] | MLog l :: q' => l :: logs_of q' | _ :: q' => logs_of q' end.
Definition strip (q : list smsg) : list smsg := filter (fun m => negb (is_log m)) q.
