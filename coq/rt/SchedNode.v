(* C15 (manager topology, partial): bounds of the idle bookkeeping at ANY node (server or manager,
   employees with arbitrary total_workers), as an assume/guarantee statement:

     if every WAITING (n, r) a node receives from employee e satisfies 0 <= n <= e.total_workers and
     its receipt is found, then the assertion of handle_waiting never fires, the node's counters stay
     in bounds under every handler, and every WAITING the node itself sends up (Manager.
     update_upstream_idle_workers) carries 0 <= num_idle <= total_workers - which is the assumption
     its own boss needs, because the boss recorded that total at start-up.

   Not proved for the manager topology: that the receipt is always found (the FIFO argument of
   rt/SchedThm.v one level up) and exactness at quiescence. *)
From Coq Require Import ZArith List Bool Arith Lia ZifyBool Permutation.
From BQ Require Import rt.SchedPre gen.SchedArith rt.SchedArithThm rt.Sched rt.SchedAssign.
Import ListNotations.
Open Scope Z_scope.
Local Arguments Z.add : simpl never.
Local Arguments Z.sub : simpl never.
Local Arguments handle_waiting : simpl never.
Local Arguments schedule_tasks : simpl never.

Definition emp_ok (e : employee) : Prop :=
  0 <= e_num_idle e <= e_total e /\ forall a c, In (a, c) (e_cache e) -> 0 < c.

Definition node_ok (s : server) : Prop :=
  (forall e, In e (s_emps s) -> emp_ok e)
  /\ s_num_idle s = sumZ (map e_num_idle (s_emps s))
  /\ s_total s = sumZ (map e_total (s_emps s)).

Lemma sum_le (f g : employee -> Z) l : (forall e, In e l -> 0 <= f e <= g e) -> 0 <= sumZ (map f l) <= sumZ (map g l).
Proof.
  induction l as [|e l IH]; intros H; simpl; [lia|].
  pose proof (H e (or_introl eq_refl)). assert (0 <= sumZ (map f l) <= sumZ (map g l)) by (apply IH; intros; apply H; right; assumption). lia.
Qed.

Lemma node_ok_bounds s : node_ok s -> 0 <= s_num_idle s <= s_total s.
Proof. intros (H1 & -> & ->). apply sum_le. intros e He. apply (H1 e He). Qed.

Lemma upd_sum (f : employee -> Z) (g : employee -> employee) : forall l i x, nth_error l i = Some x ->
  sumZ (map f (upd i g l)) = sumZ (map f l) + f (g x) - f x.
Proof.
  induction l as [|y l IH]; intros [|i] x H; simpl in H; try discriminate.
  - inversion H; subst. simpl. lia.
  - simpl. rewrite (IH i x H). lia.
Qed.

Lemma upd_in (g : employee -> employee) : forall l i y, In y (upd i g l) -> In y l \/ exists x, nth_error l i = Some x /\ y = g x.
Proof.
  induction l as [|z l IH]; intros [|i] y H; simpl in H; try contradiction.
  - destruct H as [<-|H]; [right; exists z; auto|left; right; exact H].
  - destruct H as [<-|H]; [left; left; reflexivity|]. destruct (IH i y H) as [H1|H1]; [left; right; exact H1|right; exact H1].
Qed.

(* WAITING (n, r) from employee w with 0 <= n <= e.total_workers: the only possible exception is
   "read receipt not found"; otherwise the node stays in bounds (the assertion cannot fire) *)
Theorem node_waiting s w e n r : node_ok s -> nth_error (s_emps s) w = Some e -> 0 <= n <= e_total e ->
  match srv_waiting s w n r with
  | Done s' => node_ok s'
  | Disabled => False
  | Fault ex => ex = RuntimeError /\ get_num_of_tasks_sent_since (e_cache e) r = Raise RuntimeError
  end.
Proof.
  intros (Hall & Hsum & Htot) He Hn. unfold srv_waiting. rewrite He.
  pose proof (handle_waiting_spec (e_cache e) (e_num_idle e) (s_num_idle s) (s_total s) n r) as S.
  assert (Hee : emp_ok e) by (apply Hall; eapply nth_error_In; eassumption). destruct Hee as [Hei Hec].
  assert (Hu : forall c' u, get_num_of_tasks_sent_since (e_cache e) r = Ok (c', u) ->
                 0 <= u /\ forall a c, In (a, c) c' -> 0 < c).
  { intros c' u Hg. destruct (gnts_suffix _ _ _ _ Hg) as (pre & Epre). split.
    - destruct r as [rr|].
      + pose proof (gnts_some_spec (e_cache e) rr) as G. rewrite Hg in G. destruct G as (a & cnt & b & Ec & _ & _ & ->).
        apply counts_nonneg. intros x k Hin. assert (0 < k); [|lia]. apply (Hec x). rewrite Ec. apply in_or_app. right. right. exact Hin.
      + rewrite gnts_none in Hg. inversion Hg; subst. apply counts_nonneg. intros x k Hin. specialize (Hec x k Hin). lia.
    - intros a c Hin. apply (Hec a). rewrite Epre. apply in_or_app. right. exact Hin. }
  assert (Hnew : forall ni c', 0 <= ni <= e_total e -> (forall a c, In (a, c) c' -> 0 < c) ->
             node_ok (mkSrv (s_lb s) (s_step s) (upd w (set_idle_cache ni c') (s_emps s))
                            (s_num_idle s + (ni - e_num_idle e)) (s_total s))).
  { intros ni c' Hni Hc'. split; [|split]; simpl.
    - intros y Hy. apply upd_in in Hy. destruct Hy as [Hy|(x & Hx & ->)]; [apply Hall; exact Hy|].
      rewrite He in Hx. inversion Hx; subst x. split; simpl; auto.
    - rewrite (upd_sum e_num_idle _ _ _ _ He). simpl. lia.
    - rewrite (upd_sum e_total _ _ _ _ He). simpl. lia. }
  destruct (handle_waiting (e_cache e) (e_num_idle e) (s_num_idle s) (s_total s) n r) as [[[c ni] si]|ex]; simpl.
  - destruct S as (u & Hg & -> & -> & _). destruct (Hu c u Hg) as [Hu0 Hc]. apply Hnew; [lia|exact Hc].
  - destruct ex; [auto| |contradiction]. exfalso.
    destruct S as (c' & u & Hg & Hbad). destruct (Hu c' u Hg) as [Hu0 Hc]. apply Hbad.
    pose proof (node_ok_bounds _ (Hnew (Z.max (n - u) 0) c' ltac:(lia) Hc)) as B. simpl in B. exact B.
Qed.

(* schedule_tasks keeps the node in bounds for every shuffle / tie-break *)
Theorem node_schedule s ts sh rs : node_ok s -> s_emps s <> [] ->
  match schedule_tasks s ts sh rs with
  | Done (s', _) => node_ok s'
  | Disabled => True
  | Fault _ => False
  end.
Proof.
  intros (Hall & Hsum & Htot) Hne. pose proof (schedule_tasks_spec s ts sh rs Hne) as S.
  destruct (schedule_tasks s ts sh rs) as [[s' sends]| |]; auto.
  destruct S as [(_ & -> & _)|(Hts & asg & Hlen & Hperm & Hel & Hemps & _ & Hidle & _ & _ & Ht)]; [split; [exact Hall|split; assumption]|].
  assert (Hpt : forall j e', nth_error (s_emps s') j = Some e' ->
            exists e a, nth_error (s_emps s) j = Some e /\ e' = upd_emp e a).
  { intros j e' Hj. assert (Hjl : (j < length (s_emps s))%nat) by (rewrite <- Hel; apply nth_error_Some; congruence).
    destruct (nth_error (s_emps s) j) as [e|] eqn:He; [|apply nth_error_None in He; lia].
    destruct (nth_error asg j) as [a|] eqn:Ha; [|apply nth_error_None in Ha; lia].
    rewrite (Hemps j e a He Ha) in Hj. inversion Hj. eauto. }
  split; [|split; [exact Hidle|]].
  - intros e' Hin. apply In_nth_error in Hin. destruct Hin as (j & Hj). destruct (Hpt j e' Hj) as (e & a & He & ->).
    assert (Hee : emp_ok e) by (apply Hall; eapply nth_error_In; eassumption). destruct Hee as [Hei Hec].
    destruct a as [|t0 ts']; simpl; [split; assumption|]. pose proof (zlen_nonneg ts'). rewrite zlen_cons.
    split; simpl; [lia|]. intros x c Hin. apply in_app_or in Hin. destruct Hin as [Hin|[Hin|[]]]; [eauto|]. inversion Hin. lia.
  - rewrite Ht, Htot. clear - Hel Hpt.
    assert (G : forall l' l, length l' = length l ->
              (forall j e', nth_error l' j = Some e' -> exists e a, nth_error l j = Some e /\ e' = upd_emp e a) ->
              sumZ (map e_total l) = sumZ (map e_total l')).
    { induction l' as [|x l' IH]; intros [|y l] Hl Hp; simpl in *; try lia.
      destruct (Hp 0%nat x eq_refl) as (e & a & He & ->). simpl in He. inversion He; subst y.
      rewrite (IH l) by (try lia; intros j e' Hj; exact (Hp (S j) e' Hj)).
      destruct a; reflexivity. }
    apply G; assumption.
Qed.

(* UPDATE and RESULT bookkeeping do not touch the idle counters *)
Theorem node_update s w d : node_ok s ->
  match srv_update s w d with Done s' => node_ok s' | Disabled => True | Fault _ => False end.
Proof.
  intros (Hall & Hsum & Htot). unfold srv_update. destruct (nth_error (s_emps s) w) as [e|] eqn:He; [|simpl; exact I].
  rewrite server_handle_update_spec. simpl. split; [|split]; simpl.
  - intros y Hy. apply upd_in in Hy. destruct Hy as [Hy|(x & Hx & ->)]; [apply Hall; exact Hy|].
    rewrite He in Hx. inversion Hx; subst x.
    assert (emp_ok e) as [A B] by (apply Hall; eapply nth_error_In; eassumption). split; simpl; assumption.
  - rewrite (upd_sum e_num_idle _ _ _ _ He). simpl. lia.
  - rewrite (upd_sum e_total _ _ _ _ He). simpl. lia.
Qed.

(* what a Manager sends up is inside the range its boss recorded for it *)
Theorem manager_waiting_in_bounds (T : Type) s last mrrs up (out : list (action T)) : node_ok s ->
  exists last' acts, update_upstream_idle_workers (s_num_idle s) last mrrs up out = Ok (last', out ++ acts)
    /\ forall d m p, In (APut d m p) acts -> d = up /\ m = M_WAITING /\ p = PWait (s_num_idle s) mrrs /\ 0 <= s_num_idle s <= s_total s.
Proof.
  intros Hok. pose proof (node_ok_bounds s Hok) as B. rewrite update_upstream_spec.
  destruct (s_num_idle s =? last).
  - exists (s_num_idle s), []. rewrite app_nil_r. split; [reflexivity|]. intros d m p [].
  - exists (s_num_idle s), [APut up M_WAITING (PWait (s_num_idle s) mrrs)]. split; [reflexivity|].
    intros d m p [H|[]]. inversion H; subst. auto.
Qed.

(* a manager keeps tasks for at most as many workers as it believes idle and sends the rest up *)
Theorem manager_keeps_at_most_idle (T : Type) s up (tasks : list T) : node_ok s ->
  exists acts, send_up_or_schedule_tasks (s_num_idle s) up tasks [] = Ok acts /\
    zlen (concat (map (fun a => match a with ASchedule l => l | _ => [] end) acts)) = Z.min (s_num_idle s) (zlen tasks).
Proof.
  intros Hok. destruct (send_up_or_schedule_spec (s_num_idle s) up tasks [] (proj1 (node_ok_bounds s Hok))) as (acts & E & _ & Hl & _).
  exists acts. split; [exact E|exact Hl].
Qed.
