(* Theorems over the GENERATED scheduler arithmetic (gen/SchedArith.v, regenerated
   from /repo on every check).  The proofs only unfold the generated definitions
   and then use destruct / lia, so renaming a local or reordering independent
   statements in the Python source re-proves, while a flipped sign, an off-by-one
   slice or a dropped `min` makes a proof fail. *)
From Coq Require Import ZArith List Bool Lia ZifyBool.
From BQ Require Import rt.SchedPre gen.SchedArith.
Import ListNotations.
Open Scope Z_scope.

(* ---------- Python list helpers ---------- *)

Lemma zlen_nonneg {A} (l : list A) : 0 <= zlen l.
Proof. unfold zlen. lia. Qed.

Lemma zlen_app {A} (a b : list A) : zlen (a ++ b) = zlen a + zlen b.
Proof. unfold zlen. rewrite app_length. lia. Qed.

Lemma zlen_cons {A} (x : A) l : zlen (x :: l) = 1 + zlen l.
Proof. unfold zlen. simpl length. lia. Qed.

Lemma zlen_nil {A} : zlen (@nil A) = 0.
Proof. reflexivity. Qed.

Lemma zlen_zero {A} (l : list A) : zlen l = 0 -> l = [].
Proof. destruct l; [reflexivity|]. rewrite zlen_cons. pose proof (zlen_nonneg l). lia. Qed.

Lemma sumZ_app a b : sumZ (a ++ b) = sumZ a + sumZ b.
Proof. induction a; simpl; lia. Qed.

Lemma py_from_prefix {A} (pre l : list A) : py_from (zlen pre) (pre ++ l) = l.
Proof.
  unfold py_from, py_norm. rewrite zlen_app.
  pose proof (zlen_nonneg pre) as Hp. pose proof (zlen_nonneg l) as Hl.
  destruct (zlen pre <? 0) eqn:E; [lia|].
  rewrite Z.min_l by lia. unfold zlen. rewrite Nat2Z.id.
  rewrite skipn_app, skipn_all, Nat.sub_diag. reflexivity.
Qed.

Lemma py_from_0 {A} (l : list A) : py_from 0 l = l.
Proof. exact (py_from_prefix [] l). Qed.

Lemma py_from_1 {A} (x : A) l : py_from 1 (x :: l) = l.
Proof. exact (py_from_prefix [x] l). Qed.

(* l[:k] ++ l[k:] = l for every integer k (negative and oversized k included) *)
Lemma py_to_from {A} k (l : list A) : py_to k l ++ py_from k l = l.
Proof. unfold py_to, py_from. apply firstn_skipn. Qed.

Lemma py_to_length {A} k (l : list A) : 0 <= k -> zlen (py_to k l) = Z.min k (zlen l).
Proof.
  intros Hk. unfold py_to, py_norm. destruct (k <? 0) eqn:E; [lia|].
  unfold zlen at 1. rewrite firstn_length.
  pose proof (zlen_nonneg l). unfold zlen in *. lia.
Qed.

(* l[-k:] for 0 < k <= len l is the suffix left after the first (len l - k) elements *)
Lemma py_from_neg {A} k (l : list A) : 0 < k -> k <= zlen l ->
  py_from (- k) l = skipn (Z.to_nat (zlen l - k)) l.
Proof.
  intros H1 H2. unfold py_from, py_norm. destruct (- k <? 0) eqn:E; [|lia].
  rewrite Z.max_l by lia. replace (zlen l + - k) with (zlen l - k) by lia. reflexivity.
Qed.

Lemma py_idx_nth {A} (l : list A) i a : nth_error l i = Some a -> py_idx l (Z.of_nat i) = Ok a.
Proof.
  intros H. assert (Hlt : (i < length l)%nat) by (apply nth_error_Some; congruence).
  unfold py_idx, zlen.
  destruct ((Z.of_nat i <? - Z.of_nat (length l)) || (Z.of_nat (length l) <=? Z.of_nat i)) eqn:E; [lia|].
  destruct (Z.of_nat i <? 0) eqn:E2; [lia|]. rewrite Nat2Z.id, H. reflexivity.
Qed.

Lemma py_idx_hd {A} (x : A) l : py_idx (x :: l) 0 = Ok x.
Proof. exact (py_idx_nth (x :: l) 0 x eq_refl). Qed.

Lemma py_idx_range {A} (l : list A) i a : py_idx l i = Ok a -> - zlen l <= i < zlen l.
Proof.
  unfold py_idx. destruct ((i <? - zlen l) || (zlen l <=? i)) eqn:E; [discriminate|]. lia.
Qed.

(* ---------- get_num_of_tasks_sent_since ---------- *)

Lemma counts_snd (l : list (Z * Z)) : map (fun '(_, c) => c) l = map snd l.
Proof. apply map_ext. intros [a b]. reflexivity. Qed.

Definition counts (c : list (Z * Z)) : Z := sumZ (map snd c).

Lemma counts_app a b : counts (a ++ b) = counts a + counts b.
Proof. unfold counts. rewrite map_app. apply sumZ_app. Qed.

Lemma gnts_none c : get_num_of_tasks_sent_since c None = Ok (c, counts c).
Proof. unfold get_num_of_tasks_sent_since, counts. rewrite ?counts_snd. reflexivity. Qed.

(* the search loop: first entry whose address is the receipt; the cache is cut
   THERE (the entry itself stays), the answer is the sum of the counts after it *)
Lemma gnts_loop_spec : forall l pre rr,
  match get_num_of_tasks_sent_since_loop1 (pre ++ l) rr (zlen pre) l with
  | Ok (c', n) => exists a cnt b, l = a ++ (rr, cnt) :: b /\ ~ In rr (map fst a)
                                  /\ c' = (rr, cnt) :: b /\ n = counts b
  | Raise e => e = RuntimeError /\ ~ In rr (map fst l)
  end.
Proof.
  induction l as [|[addr cnt] l IH]; intros pre rr.
  - simpl. split; [reflexivity|tauto].
  - simpl. destruct (addr =? rr) eqn:E.
    + rewrite py_from_prefix. cbv zeta. rewrite ?py_from_1, ?counts_snd.
      exists [], cnt, l. assert (addr = rr) by lia. subst. simpl. repeat split; tauto.
    + specialize (IH (pre ++ [(addr, cnt)]) rr).
      rewrite <- app_assoc in IH. simpl in IH. rewrite zlen_app in IH.
      change (zlen [(addr, cnt)]) with 1 in IH.
      destruct (get_num_of_tasks_sent_since_loop1 _ _ _ l) as [[c' n]|e].
      * destruct IH as (a & cnt' & b & -> & Hn & -> & ->).
        exists ((addr, cnt) :: a), cnt', b. simpl. repeat split; try reflexivity.
        intros [H|H]; [lia|tauto].
      * destruct IH as [-> Hn]. split; [reflexivity|]. simpl. intros [H|H]; [lia|tauto].
Qed.

Lemma gnts_some_spec c rr :
  match get_num_of_tasks_sent_since c (Some rr) with
  | Ok (c', n) => exists a cnt b, c = a ++ (rr, cnt) :: b /\ ~ In rr (map fst a)
                                  /\ c' = (rr, cnt) :: b /\ n = counts b
  | Raise e => e = RuntimeError /\ ~ In rr (map fst c)
  end.
Proof. unfold get_num_of_tasks_sent_since. exact (gnts_loop_spec c [] rr). Qed.

Lemma gnts_found c rr : In rr (map fst c) -> exists c' n, get_num_of_tasks_sent_since c (Some rr) = Ok (c', n).
Proof.
  intros H. pose proof (gnts_some_spec c rr) as S.
  destruct (get_num_of_tasks_sent_since c (Some rr)) as [[c' n]|e]; [eauto|tauto].
Qed.

Lemma gnts_at a rr cnt b : ~ In rr (map fst a) ->
  get_num_of_tasks_sent_since (a ++ (rr, cnt) :: b) (Some rr) = Ok ((rr, cnt) :: b, counts b).
Proof.
  intros Hn. pose proof (gnts_some_spec (a ++ (rr, cnt) :: b) rr) as S.
  destruct (get_num_of_tasks_sent_since _ _) as [[c' n]|e].
  - destruct S as (a' & cnt' & b' & Heq & Hn' & -> & ->).
    assert (a = a' /\ (rr, cnt) :: b = (rr, cnt') :: b') as [_ H].
    { clear - Heq Hn Hn'. revert a' Heq Hn'. induction a as [|[x y] a IH]; intros [|[x' y'] a'] Heq Hn'; simpl in *.
      - split; [reflexivity|exact Heq].
      - inversion Heq; subst. tauto.
      - inversion Heq; subst. tauto.
      - inversion Heq; subst. destruct (IH (fun H => Hn (or_intror H)) a' H2 (fun H => Hn' (or_intror H))) as [-> ->].
        split; reflexivity. }
    inversion H; subst. reflexivity.
  - destruct S as [_ S]. exfalso. apply S. rewrite map_app. apply in_or_app. right. left. reflexivity.
Qed.

(* the new cache is always a suffix of the old one *)
Lemma gnts_suffix c r c' x : get_num_of_tasks_sent_since c r = Ok (c', x) -> exists pre, c = pre ++ c'.
Proof.
  intros H. destruct r as [rr|].
  - pose proof (gnts_some_spec c rr) as S. rewrite H in S. destruct S as (a & cnt & b & -> & _ & -> & _). eauto.
  - rewrite gnts_none in H. inversion H; subst. exists []. reflexivity.
Qed.

Lemma counts_nonneg c : (forall a n, In (a, n) c -> 0 <= n) -> 0 <= counts c.
Proof.
  unfold counts. induction c as [|[a n] c IH]; simpl; intros H; [lia|].
  assert (0 <= n) by (apply (H a); auto). assert (0 <= sumZ (map snd c)) by (apply IH; intros; eapply H; eauto). lia.
Qed.

(* ---------- handle_waiting ---------- *)

Lemma handle_waiting_spec c ei si tot n r :
  match handle_waiting c ei si tot n r with
  | Ok (c', ei', si') =>
      exists u, get_num_of_tasks_sent_since c r = Ok (c', u)
                /\ ei' = Z.max (n - u) 0 /\ si' = si + (ei' - ei) /\ 0 <= si' <= tot
  | Raise RuntimeError => get_num_of_tasks_sent_since c r = Raise RuntimeError
  | Raise AssertionError =>
      exists c' u, get_num_of_tasks_sent_since c r = Ok (c', u)
                   /\ ~ (0 <= si + (Z.max (n - u) 0 - ei) <= tot)
  | Raise IndexError => False
  end.
Proof.
  unfold handle_waiting.
  assert (G : match get_num_of_tasks_sent_since c r with Ok _ => True | Raise e => e = RuntimeError end).
  { destruct r as [rr|]; [|rewrite gnts_none; exact I].
    pose proof (gnts_some_spec c rr). destruct (get_num_of_tasks_sent_since c (Some rr)) as [[? ?]|e]; tauto. }
  destruct (get_num_of_tasks_sent_since c r) as [[c' u]|e]; simpl.
  - match goal with |- context [if ?b then _ else _] => destruct b eqn:E end.
    + exists u. repeat split; lia.
    + exists c', u. split; [reflexivity|lia].
  - subst e. reflexivity.
Qed.

(* the result keeps the employee's idle count inside [0, new_idle_count] *)
Lemma handle_waiting_bounds c ei si tot n r c' ei' si' :
  handle_waiting c ei si tot n r = Ok (c', ei', si') -> 0 <= n ->
  (forall a k, In (a, k) c -> 0 <= k) ->
  0 <= ei' <= n.
Proof.
  intros H Hn Hc. pose proof (handle_waiting_spec c ei si tot n r) as S. rewrite H in S.
  destruct S as (u & Hg & -> & _ & _).
  assert (0 <= u).
  { destruct r as [rr|].
    - pose proof (gnts_some_spec c rr) as S. rewrite Hg in S.
      destruct S as (a & cnt & b & -> & _ & _ & ->). apply counts_nonneg.
      intros x k Hin. apply (Hc x). apply in_or_app. right. right. exact Hin.
    - rewrite gnts_none in Hg. inversion Hg; subst. apply counts_nonneg. exact Hc. }
  lia.
Qed.

(* ---------- schedule_tasks: per-employee bookkeeping ---------- *)

Lemma schedule_body_empty {T} (uid : T -> Z) conn nt ni c out :
  schedule_body uid conn nt ni c [] out = Ok (nt, ni, c, out).
Proof. reflexivity. Qed.

Lemma schedule_body_cons {T} (uid : T -> Z) conn nt ni c out t ts :
  schedule_body uid conn nt ni c (t :: ts) out =
  Ok (nt + zlen (t :: ts), ni - Z.min (zlen (t :: ts)) ni, c ++ [(uid t, zlen (t :: ts))],
      out ++ [APut conn M_SUBMIT_BATCH (PTasks (t :: ts))]).
Proof.
  unfold schedule_body. cbv zeta. pose proof (zlen_nonneg ts). rewrite zlen_cons.
  destruct (1 + zlen ts =? 0) eqn:E; [lia|]. rewrite py_idx_hd. reflexivity.
Qed.

(* never raises; sends exactly when the assignment is non-empty; idle stays in [0, old] *)
Lemma schedule_body_spec {T} (uid : T -> Z) conn nt ni c a out :
  exists nt' ni' c' out', schedule_body uid conn nt ni c a out = Ok (nt', ni', c', out')
    /\ nt' = nt + zlen a
    /\ (0 <= ni -> 0 <= ni' <= ni)
    /\ (a = [] -> ni' = ni /\ c' = c /\ out' = out)
    /\ (a <> [] -> ni' = Z.max (ni - zlen a) 0 \/ ni < 0).
Proof.
  destruct a as [|t ts].
  - rewrite schedule_body_empty. do 4 eexists. split; [reflexivity|]. rewrite zlen_nil.
    repeat split; try lia; intros; congruence.
  - rewrite schedule_body_cons. do 4 eexists. split; [reflexivity|].
    pose proof (zlen_nonneg ts). rewrite zlen_cons.
    repeat split; try lia; intros; try congruence.
Qed.

Lemma schedule_total_idle_eq {E} (f : E -> Z) es : schedule_total_idle f es = sumZ (map f es).
Proof. reflexivity. Qed.

Lemma schedule_nothing_spec {T} (ts : list T) : schedule_nothing ts = true <-> ts = [].
Proof.
  unfold schedule_nothing. split; intros H.
  - apply zlen_zero. lia.
  - subst. reflexivity.
Qed.

(* ---------- assign_tasks: the idle-first split ---------- *)

(* zip(idle, tasks) consumes the first min(len idle, len tasks) tasks; when tasks remain,
   the slice tasks[-num_remaining:] is exactly the complement of what zip consumed *)
Lemma assign_split {T} (tasks : list T) (idle : list Z) :
  assign_no_remaining (assign_num_remaining tasks idle) = false ->
  firstn (length idle) tasks ++ assign_remaining_tasks tasks (assign_num_remaining tasks idle) = tasks
  /\ (length idle < length tasks)%nat.
Proof.
  unfold assign_no_remaining, assign_num_remaining, assign_remaining_tasks. intros H.
  pose proof (zlen_nonneg idle). assert (Hlt : zlen idle < zlen tasks) by lia.
  rewrite py_from_neg by lia.
  replace (Z.to_nat (zlen tasks - (zlen tasks - zlen idle))) with (length idle) by (unfold zlen; lia).
  split; [apply firstn_skipn|unfold zlen in Hlt; lia].
Qed.

Lemma assign_no_split {T} (tasks : list T) (idle : list Z) :
  assign_no_remaining (assign_num_remaining tasks idle) = true -> (length tasks <= length idle)%nat.
Proof. unfold assign_no_remaining, assign_num_remaining, zlen. lia. Qed.

(* ---------- Manager.send_up_or_schedule_tasks ---------- *)

(* what is scheduled locally and what is sent up partition the tasks, in order; nothing is
   sent for an empty part *)
Lemma send_up_or_schedule_spec {T} ni up (tasks : list T) out : 0 <= ni ->
  exists acts, send_up_or_schedule_tasks ni up tasks out = Ok (out ++ acts) /\
    let local := concat (map (fun a => match a with ASchedule l => l | _ => [] end) acts) in
    let sent := concat (map (fun a => match a with APut _ M_SUBMIT_BATCH (PTasks l) => l | _ => [] end) acts) in
    local ++ sent = tasks
    /\ zlen local = Z.min ni (zlen tasks)
    /\ ~ In (APut up M_SUBMIT_BATCH (PTasks [])) acts
    /\ (ni = 0 -> local = [] /\ forall a, In a acts -> exists l, a = APut up M_SUBMIT_BATCH (PTasks l)).
Proof.
  intros Hni. unfold send_up_or_schedule_tasks. cbv zeta.
  pose proof (py_to_from ni tasks) as Hsplit. pose proof (py_to_length ni tasks Hni) as Hlen.
  assert (Hne : ni < zlen tasks -> py_from ni tasks <> []).
  { intros Hlt Hnil. rewrite Hnil, app_nil_r in Hsplit. rewrite Hsplit in Hlen. lia. }
  assert (Hall : zlen tasks <= ni -> py_to ni tasks = tasks).
  { intros Hle. assert (zlen (py_from ni tasks) = 0).
    { apply (f_equal zlen) in Hsplit. rewrite zlen_app in Hsplit. lia. }
    apply zlen_zero in H. rewrite H, app_nil_r in Hsplit. exact Hsplit. }
  destruct (negb (ni =? 0)) eqn:E0; destruct (ni <? zlen tasks) eqn:E1;
    rewrite <- ?app_assoc;
    ((eexists; split; [reflexivity|]) || (exists []; split; [rewrite app_nil_r; reflexivity|]));
    simpl; rewrite ?app_nil_r.
  - repeat split; try assumption; try lia.
    intros [H|[H|[H|[H|[]]]]]; try discriminate. inversion H. apply Hne; [lia|assumption].
  - rewrite Hall by lia. repeat split; try lia. intros [H|[H|[H|[]]]]; discriminate.
  - assert (ni = 0) by lia. subst ni. rewrite py_from_0 in *. repeat split; try lia.
    + rewrite zlen_nil. pose proof (zlen_nonneg tasks). lia.
    + intros [H|[]]. inversion H. apply Hne; [lia|assumption].
    + intros a [<-|[]]. eauto.
  - assert (ni = 0) by lia. subst ni. pose proof (zlen_nonneg tasks).
    assert (tasks = []) by (apply zlen_zero; lia). subst. repeat split; try tauto; try reflexivity.
Qed.

(* ---------- Manager.update_upstream_idle_workers / handle_update / results ---------- *)

Lemma update_upstream_spec {T} ni last mrrs up (out : list (action T)) :
  update_upstream_idle_workers ni last mrrs up out =
  Ok (ni, if ni =? last then out else out ++ [APut up M_WAITING (PWait ni mrrs)]).
Proof.
  unfold update_upstream_idle_workers. destruct (ni =? last) eqn:E; simpl; [|reflexivity].
  assert (ni = last) by lia. subst. reflexivity.
Qed.

Lemma manager_handle_update_spec {T} nt d up (out : list (action T)) :
  manager_handle_update nt d up out = Ok (nt + d, out ++ [APut up M_UPDATE (PInt d)]).
Proof. reflexivity. Qed.

Lemma server_handle_update_spec nt d : server_handle_update nt d = Ok (nt + d).
Proof. reflexivity. Qed.

Lemma server_handle_result_count_spec nt : server_handle_result_count nt = Ok (nt - 1).
Proof. reflexivity. Qed.

Lemma manager_handle_result_spec {T} nt lb st n w up (out : list (action T)) :
  manager_handle_result_from_below nt lb st n w tt up out =
  Ok (nt - 1, if is_my_worker lb st n w
              then out ++ [ASendResultDown; APut up M_UPDATE (PInt (-1))]
              else out ++ [APut up M_RESULT PRes]).
Proof.
  unfold manager_handle_result_from_below. cbv zeta.
  destruct (is_my_worker lb st n w); rewrite <- ?app_assoc; reflexivity.
Qed.
