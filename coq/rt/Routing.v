(* C07_routing / C15: worker-id ranges and result routing.

   The node tree is built by ServerBase.connect_to_managers (a node with d managers
   splits its id range [lb, ub) into d consecutive ranges of width step = (ub-lb)//d)
   and spawn_workers / connect_to_workers (a node with n workers gives them the ids
   lb, lb+1, ..., lb+n-1, step_size = 1, after checking lb + n < ub).
   All arithmetic below is the GENERATED one (gen/SchedArith.v):
     ctm_step_size ctm_lb ctm_ub  sw_w_id sw_insufficient sw_step_size
     is_my_worker get_employee_responsible_for.

   Theorems (for every well-formed tree, every node of it):
     routing_mine_iff      is_my_worker w  <->  w is a worker of the node's subtree
                           (for w a worker id of the system)
     routing_child         get_employee_responsible_for w is the child whose subtree contains w
     routing_leaf          at a node that manages workers directly, worker lb+i is employee i
     routing_client        -1 (the client) is nobody's worker
   cited by C07 (every RESULT reaches the worker named in its return address). *)
From Coq Require Import ZArith List Bool Lia ZifyBool.
From BQ Require Import rt.SchedPre gen.SchedArith rt.SchedArithThm.
Import ListNotations.
Open Scope Z_scope.

(* shape of the node hierarchy: Leaf n = a node with n workers; Node cs = a node whose
   employees are the managers cs (in employee order) *)
Inductive tree := Leaf (n : nat) | Node (cs : list tree).

(* id range handed to manager i of a node with range [lb,ub) and d managers *)
Definition child_lb (lb ub d : Z) (i : nat) : Z := ctm_lb lb (ctm_step_size lb ub d) (Z.of_nat i).
Definition child_ub (lb ub d : Z) (i : nat) : Z := ctm_ub lb ub (ctm_step_size lb ub d) (Z.of_nat i).

(* start-up succeeded: the id-range guard of spawn_workers passed, every range can be
   split (step_size >= 1; with step_size = 0 the routing functions divide by zero) *)
Inductive wf : Z -> Z -> tree -> Prop :=
| wf_leaf lb ub n : sw_insufficient lb ub (Z.of_nat n) = false -> wf lb ub (Leaf n)
| wf_node lb ub cs : cs <> [] -> 0 < ctm_step_size lb ub (zlen cs) ->
    (forall i c, nth_error cs i = Some c -> wf (child_lb lb ub (zlen cs) i) (child_ub lb ub (zlen cs) i) c) ->
    wf lb ub (Node cs).

(* w is the id of a worker in the subtree of the node (lb, ub, t) *)
Inductive worker_of : Z -> Z -> tree -> Z -> Prop :=
| wo_leaf lb ub n i : (i < n)%nat -> worker_of lb ub (Leaf n) (sw_w_id lb (Z.of_nat i))
| wo_node lb ub cs i c w : nth_error cs i = Some c ->
    worker_of (child_lb lb ub (zlen cs) i) (child_ub lb ub (zlen cs) i) c w -> worker_of lb ub (Node cs) w.

(* (lb', ub', t') is a node of the tree rooted at (lb, ub, t) *)
Inductive subnode : Z -> Z -> tree -> Z -> Z -> tree -> Prop :=
| sub_refl lb ub t : subnode lb ub t lb ub t
| sub_child lb ub cs i c lb' ub' t' : nth_error cs i = Some c ->
    subnode (child_lb lb ub (zlen cs) i) (child_ub lb ub (zlen cs) i) c lb' ub' t' ->
    subnode lb ub (Node cs) lb' ub' t'.

(* the node's own fields after start-up *)
Definition node_step (lb ub : Z) (t : tree) : Z :=
  match t with Leaf _ => sw_step_size | Node cs => ctm_step_size lb ub (zlen cs) end.
Definition node_employees (t : tree) : Z :=
  match t with Leaf n => Z.of_nat n | Node cs => zlen cs end.
Definition node_is_my_worker (lb ub : Z) (t : tree) (w : Z) : bool :=
  is_my_worker lb (node_step lb ub t) (node_employees t) w.

(* ---------- arithmetic of one split ---------- *)

Lemma div_index lb st w i : 0 < st -> lb + i * st <= w < lb + (i + 1) * st -> (w - lb) / st = i.
Proof. intros Hs H. symmetry. apply (Z.div_unique_pos (w - lb) st i (w - lb - i * st)); lia. Qed.

Lemma div_index_inv lb st w : 0 < st -> lb + ((w - lb) / st) * st <= w < lb + ((w - lb) / st + 1) * st.
Proof.
  intros Hs. pose proof (Z.div_mod (w - lb) st ltac:(lia)). pose proof (Z.mod_pos_bound (w - lb) st Hs). lia.
Qed.

Lemma nth_error_zlen {A} (l : list A) i a : nth_error l i = Some a -> 0 <= Z.of_nat i < zlen l.
Proof. intros H. assert ((i < length l)%nat) by (apply nth_error_Some; congruence). unfold zlen. lia. Qed.

Section Split.
  Variables lb ub d : Z.
  Let st := ctm_step_size lb ub d.
  Hypothesis Hst : 0 < st.
  Hypothesis Hd : 0 < d.

  Lemma split_fits : lb + d * st <= ub.
  Proof.
    subst st. unfold ctm_step_size in *. pose proof (Z.mul_div_le (ub - lb) d Hd). lia.
  Qed.

  Lemma child_range i : 0 <= Z.of_nat i < d ->
    child_lb lb ub d i = lb + Z.of_nat i * st /\ child_ub lb ub d i = lb + (Z.of_nat i + 1) * st
    /\ lb <= child_lb lb ub d i /\ child_lb lb ub d i < child_ub lb ub d i /\ child_ub lb ub d i <= ub.
  Proof.
    intros Hi. pose proof split_fits as F. unfold child_lb, child_ub, ctm_lb, ctm_ub. fold st.
    assert ((Z.of_nat i + 1) * st <= d * st) by (apply Z.mul_le_mono_nonneg_r; lia).
    assert (0 <= Z.of_nat i * st) by (apply Z.mul_nonneg_nonneg; lia).
    rewrite Z.min_l by lia. repeat split; lia.
  Qed.

  (* an id inside child i's range is mine and is routed to employee i *)
  Lemma split_route i w : 0 <= Z.of_nat i < d -> child_lb lb ub d i <= w < child_ub lb ub d i ->
    is_my_worker lb st d w = true /\ (w - lb) / st = Z.of_nat i.
  Proof.
    intros Hi Hw. destruct (child_range i Hi) as (E1 & E2 & _).
    assert (Hq : (w - lb) / st = Z.of_nat i) by (apply div_index; lia).
    split; [|exact Hq]. unfold is_my_worker. cbv zeta. rewrite Hq. lia.
  Qed.

  (* an id that is mine lies in the range of exactly the child it is routed to, inside [lb,ub) *)
  Lemma split_mine w : is_my_worker lb st d w = true ->
    exists i, (w - lb) / st = Z.of_nat i /\ 0 <= Z.of_nat i < d
              /\ child_lb lb ub d i <= w < child_ub lb ub d i /\ lb <= w < ub.
  Proof.
    unfold is_my_worker. cbv zeta. intros H.
    exists (Z.to_nat ((w - lb) / st)). rewrite Z2Nat.id by lia.
    assert (Hi : 0 <= Z.of_nat (Z.to_nat ((w - lb) / st)) < d) by lia.
    destruct (child_range _ Hi) as (E1 & E2 & H1 & H2 & H3). rewrite Z2Nat.id in E1, E2 by lia.
    pose proof (div_index_inv lb st w Hst). repeat split; lia.
  Qed.

  Lemma split_disjoint i j w : 0 <= Z.of_nat i < d -> 0 <= Z.of_nat j < d ->
    child_lb lb ub d i <= w < child_ub lb ub d i -> child_lb lb ub d j <= w < child_ub lb ub d j -> i = j.
  Proof.
    intros Hi Hj Wi Wj. destruct (split_route i w Hi Wi) as [_ Qi]. destruct (split_route j w Hj Wj) as [_ Qj]. lia.
  Qed.
End Split.

(* ---------- the tree ---------- *)

Lemma wf_node_d {A} (cs : list A) : cs <> [] -> 0 < zlen cs.
Proof. destruct cs; [congruence|]. intros _. rewrite zlen_cons. pose proof (zlen_nonneg cs). lia. Qed.

(* inversion lemmas (explicit names) *)
Lemma worker_of_leaf_inv lb ub n w : worker_of lb ub (Leaf n) w -> exists i, (i < n)%nat /\ w = sw_w_id lb (Z.of_nat i).
Proof. intros H. inversion H; subst. eauto. Qed.

Lemma worker_of_node_inv lb ub cs w : worker_of lb ub (Node cs) w ->
  exists i c, nth_error cs i = Some c /\ worker_of (child_lb lb ub (zlen cs) i) (child_ub lb ub (zlen cs) i) c w.
Proof. intros H. inversion H; subst. eauto. Qed.

Lemma subnode_inv lb ub t lb' ub' t' : subnode lb ub t lb' ub' t' ->
  (lb' = lb /\ ub' = ub /\ t' = t) \/
  exists cs i c, t = Node cs /\ nth_error cs i = Some c
                 /\ subnode (child_lb lb ub (zlen cs) i) (child_ub lb ub (zlen cs) i) c lb' ub' t'.
Proof. intros H. inversion H; subst; [left; auto|right; eauto 8]. Qed.

Lemma wf_leaf_inv lb ub n : wf lb ub (Leaf n) -> sw_insufficient lb ub (Z.of_nat n) = false.
Proof. intros H. inversion H; subst. assumption. Qed.

Lemma wf_node_inv lb ub cs : wf lb ub (Node cs) ->
  cs <> [] /\ 0 < ctm_step_size lb ub (zlen cs) /\
  (forall i c, nth_error cs i = Some c -> wf (child_lb lb ub (zlen cs) i) (child_ub lb ub (zlen cs) i) c).
Proof. intros H. inversion H; subst. auto. Qed.

(* every worker id of a subtree lies in the subtree's range *)
Lemma worker_in_range lb ub t : wf lb ub t -> forall w, worker_of lb ub t w -> lb <= w < ub.
Proof.
  induction 1 as [lb ub n Hg|lb ub cs Hne Hst Hc IH]; intros w Hw.
  - apply worker_of_leaf_inv in Hw. destruct Hw as (i & Hi & ->).
    unfold sw_insufficient in Hg. unfold sw_w_id. lia.
  - apply worker_of_node_inv in Hw. destruct Hw as (i & c & Hn & Hw).
    pose proof (wf_node_d cs Hne) as Hd. pose proof (nth_error_zlen _ _ _ Hn) as Hi.
    destruct (child_range lb ub (zlen cs) Hst Hd i Hi) as (_ & _ & A & _ & B).
    specialize (IH i c Hn w Hw). lia.
Qed.

Lemma subnode_wf lb ub t : wf lb ub t -> forall lb' ub' t', subnode lb ub t lb' ub' t' -> wf lb' ub' t'.
Proof.
  induction 1 as [lb ub n Hg|lb ub cs Hne Hst Hc IH]; intros lb' ub' t' Hs;
    apply subnode_inv in Hs; destruct Hs as [(-> & -> & ->)|(cs' & i & c & Heq & Hn & Hs)];
    try (constructor; assumption); try discriminate.
  inversion Heq; subst cs'. eapply IH; eassumption.
Qed.

Lemma subnode_range lb ub t : wf lb ub t -> forall lb' ub' t', subnode lb ub t lb' ub' t' -> lb <= lb' /\ ub' <= ub.
Proof.
  induction 1 as [lb ub n Hg|lb ub cs Hne Hst Hc IH]; intros lb' ub' t' Hs;
    apply subnode_inv in Hs; destruct Hs as [(-> & -> & ->)|(cs' & i & c & Heq & Hn & Hs)];
    try lia; try discriminate.
  inversion Heq; subst cs'.
  pose proof (wf_node_d cs Hne) as Hd. pose proof (nth_error_zlen _ _ _ Hn) as Hi.
  destruct (child_range lb ub (zlen cs) Hst Hd i Hi) as (_ & _ & A & _ & B).
  specialize (IH i c Hn _ _ _ Hs). lia.
Qed.

(* a worker of the system whose id falls into the range of a node belongs to that node's subtree *)
Lemma worker_in_subnode lb ub t : wf lb ub t -> forall lb' ub' t' w,
  subnode lb ub t lb' ub' t' -> worker_of lb ub t w -> lb' <= w < ub' -> worker_of lb' ub' t' w.
Proof.
  induction 1 as [lb ub n Hg|lb ub cs Hne Hst Hc IH]; intros lb' ub' t' w Hs Hw Hr;
    apply subnode_inv in Hs; destruct Hs as [(-> & -> & ->)|(cs' & i & c & Heq & Hn & Hs)];
    try assumption; try discriminate.
  inversion Heq; subst cs'.
  apply worker_of_node_inv in Hw. destruct Hw as (j & cj & Hnj & Hwj).
  pose proof (wf_node_d cs Hne) as Hd.
  pose proof (nth_error_zlen _ _ _ Hn) as Hi. pose proof (nth_error_zlen _ _ _ Hnj) as Hj.
  pose proof (worker_in_range _ _ _ (Hc _ _ Hnj) _ Hwj) as Rj.
  pose proof (subnode_range _ _ _ (Hc _ _ Hn) _ _ _ Hs) as Ri.
  assert (i = j) by (eapply (split_disjoint lb ub (zlen cs) Hst Hd i j w); lia). subst j.
  assert (cj = c) by congruence. subst cj.
  eapply IH; eassumption.
Qed.

(* is_my_worker true => the id lies in the node's range *)
Lemma mine_in_range lb ub t w : wf lb ub t -> node_is_my_worker lb ub t w = true -> lb <= w < ub.
Proof.
  intros Hwf. unfold node_is_my_worker. destruct Hwf as [lb ub n Hg|lb ub cs Hne Hst Hc]; simpl; intros H.
  - unfold is_my_worker, sw_step_size, sw_insufficient in *. cbv zeta in H. rewrite Z.div_1_r in H. lia.
  - destruct (split_mine lb ub (zlen cs) Hst (wf_node_d cs Hne) w H) as (i & _ & _ & _ & R). exact R.
Qed.

(* a worker of the node's subtree is mine *)
Lemma worker_mine lb ub t w : wf lb ub t -> worker_of lb ub t w -> node_is_my_worker lb ub t w = true.
Proof.
  intros Hwf Hw. unfold node_is_my_worker. destruct Hwf as [lb ub n Hg|lb ub cs Hne Hst Hc]; simpl.
  - apply worker_of_leaf_inv in Hw. destruct Hw as (i & Hi & ->).
    unfold is_my_worker, sw_step_size, sw_w_id. cbv zeta. rewrite Z.div_1_r. lia.
  - apply worker_of_node_inv in Hw. destruct Hw as (i & c & Hn & Hw).
    pose proof (wf_node_d cs Hne) as Hd. pose proof (nth_error_zlen _ _ _ Hn) as Hi.
    pose proof (worker_in_range _ _ _ (Hc _ _ Hn) _ Hw) as R.
    exact (proj1 (split_route lb ub (zlen cs) Hst Hd i w Hi R)).
Qed.

(* ---------- C07_routing ---------- *)

Theorem routing_mine_iff lb ub t lb' ub' t' w :
  wf lb ub t -> subnode lb ub t lb' ub' t' -> worker_of lb ub t w ->
  (node_is_my_worker lb' ub' t' w = true <-> worker_of lb' ub' t' w).
Proof.
  intros Hwf Hs Hw. pose proof (subnode_wf _ _ _ Hwf _ _ _ Hs) as Hwf'. split; intros H.
  - exact (worker_in_subnode _ _ _ Hwf _ _ _ _ Hs Hw (mine_in_range _ _ _ _ Hwf' H)).
  - apply worker_mine; assumption.
Qed.

(* at a node of managers: the employee get_employee_responsible_for returns is the manager
   whose subtree contains w (never raises IndexError for a worker of the subtree) *)
Theorem routing_child {E} lb ub t lb' ub' cs w (es : list E) :
  wf lb ub t -> subnode lb ub t lb' ub' (Node cs) -> worker_of lb' ub' (Node cs) w -> length es = length cs ->
  exists i c e, nth_error cs i = Some c /\ nth_error es i = Some e
    /\ worker_of (child_lb lb' ub' (zlen cs) i) (child_ub lb' ub' (zlen cs) i) c w
    /\ get_employee_responsible_for lb' (node_step lb' ub' (Node cs)) es w = Ok e.
Proof.
  intros Hwf Hs Hw Hlen. pose proof (subnode_wf _ _ _ Hwf _ _ _ Hs) as Hwf'.
  apply wf_node_inv in Hwf'. destruct Hwf' as (Hne & Hst & Hc).
  apply worker_of_node_inv in Hw. destruct Hw as (i & c & Hn & Hw).
  pose proof (wf_node_d cs Hne) as Hd. pose proof (nth_error_zlen _ _ _ Hn) as Hi.
  pose proof (worker_in_range _ _ _ (Hc _ _ Hn) _ Hw) as R.
  destruct (split_route lb' ub' (zlen cs) Hst Hd i w Hi R) as [_ Q].
  destruct (nth_error es i) as [e|] eqn:Ee.
  - exists i, c, e. repeat split; try assumption.
    unfold get_employee_responsible_for, node_step. cbv zeta. rewrite Q, (py_idx_nth es i e Ee). reflexivity.
  - exfalso. apply nth_error_None in Ee. unfold zlen in Hi. lia.
Qed.

(* at a node of workers: worker lb+i is employee i, and only those ids are mine *)
Theorem routing_leaf {E} lb ub t lb' ub' n (es : list E) :
  wf lb ub t -> subnode lb ub t lb' ub' (Leaf n) -> length es = n ->
  (forall i e, nth_error es i = Some e ->
     is_my_worker lb' sw_step_size (Z.of_nat n) (sw_w_id lb' (Z.of_nat i)) = true
     /\ get_employee_responsible_for lb' sw_step_size es (sw_w_id lb' (Z.of_nat i)) = Ok e
     /\ lb' <= sw_w_id lb' (Z.of_nat i) < ub')
  /\ (forall w, is_my_worker lb' sw_step_size (Z.of_nat n) w = true -> exists i, (i < n)%nat /\ w = sw_w_id lb' (Z.of_nat i)).
Proof.
  intros Hwf Hs Hlen. pose proof (subnode_wf _ _ _ Hwf _ _ _ Hs) as Hwf'. apply wf_leaf_inv in Hwf'.
  unfold sw_insufficient in Hwf'. split.
  - intros i e He. assert ((i < length es)%nat) by (apply nth_error_Some; congruence).
    unfold is_my_worker, get_employee_responsible_for, sw_step_size, sw_w_id. cbv zeta.
    replace ((lb' + Z.of_nat i - lb') / 1) with (Z.of_nat i) by (rewrite Z.div_1_r; lia).
    rewrite (py_idx_nth es i e He). repeat split; lia.
  - intros w H. unfold is_my_worker, sw_step_size in H. cbv zeta in H. rewrite Z.div_1_r in H.
    exists (Z.to_nat (w - lb')). unfold sw_w_id. split; lia.
Qed.

(* return address worker_id = -1 names the client: no node claims it (ids start at 0) *)
Theorem routing_client lb ub t lb' ub' t' :
  wf lb ub t -> 0 <= lb -> subnode lb ub t lb' ub' t' -> node_is_my_worker lb' ub' t' (-1) = false.
Proof.
  intros Hwf H0 Hs. pose proof (subnode_wf _ _ _ Hwf _ _ _ Hs) as Hwf'.
  pose proof (subnode_range _ _ _ Hwf _ _ _ Hs) as [R _].
  destruct (node_is_my_worker lb' ub' t' (-1)) eqn:E; [|reflexivity].
  pose proof (mine_in_range _ _ _ _ Hwf' E). lia.
Qed.

(* sibling subtrees share no worker id *)
Theorem routing_siblings_disjoint lb ub cs i j ci cj w :
  wf lb ub (Node cs) -> nth_error cs i = Some ci -> nth_error cs j = Some cj ->
  worker_of (child_lb lb ub (zlen cs) i) (child_ub lb ub (zlen cs) i) ci w ->
  worker_of (child_lb lb ub (zlen cs) j) (child_ub lb ub (zlen cs) j) cj w -> i = j.
Proof.
  intros Hwf Hi Hj Wi Wj. apply wf_node_inv in Hwf. destruct Hwf as (Hne & Hst & Hc).
  pose proof (wf_node_d cs Hne) as Hd.
  eapply (split_disjoint lb ub (zlen cs) Hst Hd i j w);
    eauto using nth_error_zlen, worker_in_range.
Qed.

(* ---------- a concrete hierarchy (non-vacuity) ---------- *)
(* detached server over two managers with 2 and 3 workers *)
Definition ex_tree := Node [Leaf 2; Leaf 3].

Lemma ex_wf : wf server_lower_id_bound server_upper_id_bound ex_tree.
Proof.
  constructor; [discriminate|vm_compute; reflexivity|].
  intros [|[|i]] c H; simpl in H; try (inversion H; subst; constructor; vm_compute; reflexivity).
  destruct i; discriminate.
Qed.

Lemma ex_worker : worker_of server_lower_id_bound server_upper_id_bound ex_tree 536870914.
Proof.
  apply (wo_node _ _ _ 1%nat (Leaf 3)); [reflexivity|].
  change 536870914 with (sw_w_id (child_lb server_lower_id_bound server_upper_id_bound (zlen [Leaf 2; Leaf 3]) 1) (Z.of_nat 2)).
  constructor. lia.
Qed.
