(* C15 - executable model of the MANAGER topology (no proofs in this file):
   one server, nm managers, manager i with nw_i workers; one FIFO channel per direction per link.

   Code -> model
     detached.py DetachedServer.handle_message (BELOW) / client submit / cancel
                                         = the flat model rt/Sched.v run on the server <-> manager links
                                           (top_view: the employees are managers, total_workers = nw_i)
     worker.py (abstract worker)         = the flat model's worker events run on the manager <-> worker links (sub_view)
     manager.py Manager.handle_message   mgr_above (SUBMIT_BATCH / RESULT / CANCEL from the boss),
                                         mgr_below (SUBMIT / SUBMIT_BATCH / RESULT / WAITING / UPDATE / CANCEL from a worker)
     manager.py send_up_or_schedule_tasks, update_upstream_idle_workers, handle_update,
                handle_result_from_below = the GENERATED functions of gen/SchedArith.v; their action lists are
                                           interpreted in program order by run_acts
     base.py    schedule_tasks / handle_waiting / send_result_down / is_my_worker / get_employee_responsible_for
                                         = Sched.schedule_tasks / srv_waiting / GENERATED routing arithmetic
     base.py    connect_to_managers / spawn_workers id ranges
                                         = GENERATED ctm_step_size / ctm_lb / sw_step_size (tinit)

   As in rt/Sched.v the shuffle result `sh` and the tie-break values `rs` of the one schedule_tasks call a
   handler can make are oracle arguments of the event. *)
From Coq Require Import ZArith List Bool Arith.
From BQ Require Import rt.SchedPre gen.SchedArith rt.Sched.
Import ListNotations.
Open Scope Z_scope.

Record mgr := mkMgr {
  m_node : server;               (* the manager as a node: bounds, step_size, employees (= workers), idle count *)
  m_last : Z;                    (* last_num_idle_sent_up *)
  m_mrrs : option Z;             (* most_recent_read_submit *)
  m_downs : list (list dmsg);    (* manager -> worker j, oldest first *)
  m_ups : list (list umsg);      (* worker j -> manager *)
  m_wks : list wstate
}.

Record tsys := mkT {
  t_srv : server;
  t_sm : list (list dmsg);       (* server -> manager i *)
  t_ms : list (list umsg);       (* manager i -> server *)
  t_mgrs : list mgr;
  t_seen : list Z;               (* unique ids allocated so far *)
  t_slog : list (nat * list task);          (* every SUBMIT_BATCH the server has put: (manager, tasks) *)
  t_wlog : list (nat * (nat * list task))   (* every SUBMIT_BATCH a manager has put: (manager, (worker, tasks)) *)
}.

Inductive tevent :=
| TTop (ev : event)                                     (* EClientSubmit / EClientCancel / EServerRecv i at the server *)
| TWorker (i : nat) (ev : event)                        (* an EWorker* event of a worker of manager i *)
| TMgrAbove (i : nat) (sh : list nat) (rs : list Z)     (* manager i handles the oldest message from its boss *)
| TMgrBelow (i j : nat) (sh : list nat) (rs : list Z).  (* manager i handles the oldest message of its worker j *)

Definition is_top_event (ev : event) : bool :=
  match ev with EClientSubmit _ _ _ | EClientCancel _ | EServerRecv _ _ _ => true | _ => false end.

(* the server with its managers, seen as a flat system (no worker states at this level) *)
Definition top_view (st : tsys) : sys := mkSys (t_srv st) (t_sm st) (t_ms st) [] (t_seen st) (t_slog st).
Definition of_top (st : tsys) (v : sys) : tsys :=
  mkT (srv v) (downs v) (ups v) (t_mgrs st) (seen v) (sent_log v) (t_wlog st).

(* manager m with its workers, seen as a flat system *)
Definition sub_view (st : tsys) (m : mgr) : sys := mkSys (m_node m) (m_downs m) (m_ups m) (m_wks m) (t_seen st) [].

(* ---------- Manager ---------- *)

Definition up_tag : Z := -7.     (* stands for self.upstream in the generated action lists *)

Definition set_node (m : mgr) (nd : server) : mgr := mkMgr nd (m_last m) (m_mrrs m) (m_downs m) (m_ups m) (m_wks m).
Definition set_emps (s : server) (es : list employee) : server := mkSrv (s_lb s) (s_step s) es (s_num_idle s) (s_total s).

(* what a put on self.upstream becomes on the wire; res = (return worker, completed_by) of the RESULT being forwarded *)
Definition umsg_of (res : Z * Z) (a : action task) : list umsg :=
  match a with
  | APut _ M_UPDATE (PInt d) => [UUpdate d]
  | APut _ M_SUBMIT_BATCH (PTasks l) => [UBatch l]
  | APut _ M_WAITING (PWait n r) => [UWaiting n r]
  | APut _ M_RESULT PRes => [UResult (fst res) (snd res)]
  | _ => []
  end.

(* self.schedule_tasks(ts) on the manager *)
Definition mgr_schedule (m : mgr) (ts : list task) (sh : list nat) (rs : list Z) : outcome (mgr * list (nat * list task)) :=
  obind (schedule_tasks (m_node m) ts sh rs) (fun x =>
    let '(nd, sends) := x in
    Done (mkMgr nd (m_last m) (m_mrrs m) (push_batches sends (m_downs m)) (m_ups m) (m_wks m), sends)).

(* self.update_upstream_idle_workers() *)
Definition mgr_update_upstream (m : mgr) : outcome (mgr * list umsg) :=
  obind (of_res (update_upstream_idle_workers (T := task) (s_num_idle (m_node m)) (m_last m) (m_mrrs m) up_tag [])) (fun x =>
    let '(last', acts) := x in
    Done (mkMgr (m_node m) last' (m_mrrs m) (m_downs m) (m_ups m) (m_wks m), concat (map (umsg_of (0, 0)) acts))).

(* self.send_result_down(result) *)
Definition mgr_send_result_down (m : mgr) (dest : Z) : outcome mgr :=
  let s := m_node m in
  if negb (is_my_worker (s_lb s) (s_step s) (zlen (s_emps s)) dest) then Fault RuntimeError
  else obind (of_res (emp_index s dest)) (fun k =>
         Done (mkMgr s (m_last m) (m_mrrs m) (push k (DResult dest) (m_downs m)) (m_ups m) (m_wks m))).

(* interpretation of a generated action list in program order; state = (manager, messages put on
   self.upstream, SUBMIT_BATCH messages put to workers) *)
Definition mstate : Type := mgr * list umsg * list (nat * list task).

Definition act_step (res : Z * Z) (sh : list nat) (rs : list Z) (x : mstate) (a : action task) : outcome mstate :=
  let '(m, upq, wl) := x in
  match a with
  | ASchedule l => obind (mgr_schedule m l sh rs) (fun y => Done (fst y, upq, wl ++ snd y))
  | AUpdateUpstream => obind (mgr_update_upstream m) (fun y => Done (fst y, upq ++ snd y, wl))
  | ASendResultDown => obind (mgr_send_result_down m (fst res)) (fun m' => Done (m', upq, wl))
  | APut _ _ _ => Done (m, upq ++ umsg_of res a, wl)
  end.

Fixpoint run_acts (res : Z * Z) (sh : list nat) (rs : list Z) (x : mstate) (acts : list (action task)) : outcome mstate :=
  match acts with
  | [] => Done x
  | a :: acts' => obind (act_step res sh rs x a) (fun x' => run_acts res sh rs x' acts')
  end.

(* handle_message(msg, ABOVE, ...) *)
Definition mgr_above (m : mgr) (msg : dmsg) (sh : list nat) (rs : list Z) : outcome (mgr * list (nat * list task)) :=
  match msg with
  | DBatch [] => Fault IndexError                                        (* rtasks[0] *)
  | DBatch (t0 :: ts) =>
      mgr_schedule (mkMgr (m_node m) (m_last m) (Some (tid t0)) (m_downs m) (m_ups m) (m_wks m)) (t0 :: ts) sh rs
  | DResult dest => obind (mgr_send_result_down m dest) (fun m' => Done (m', []))
  | DCancel a =>
      Done (mkMgr (m_node m) (m_last m) (m_mrrs m) (map (fun q => q ++ [DCancel a]) (m_downs m)) (m_ups m) (m_wks m), [])
  end.

(* handle_message(msg, BELOW, conn of worker j, ...) on the oldest message of worker j *)
Definition mgr_below (m : mgr) (j : nat) (sh : list nat) (rs : list Z) : outcome mstate :=
  match nth_error (m_ups m) j with
  | None | Some [] => Disabled
  | Some (msg :: q) =>
      let m0 := mkMgr (m_node m) (m_last m) (m_mrrs m) (m_downs m) (upd j (fun _ => q) (m_ups m)) (m_wks m) in
      let nd := m_node m in
      match msg with
      | USubmit t =>
          obind (of_res (send_up_or_schedule_tasks (s_num_idle nd) up_tag [t] [])) (fun acts =>
            run_acts (0, 0) sh rs (m0, [], []) acts)
      | UBatch ts =>
          obind (of_res (send_up_or_schedule_tasks (s_num_idle nd) up_tag ts [])) (fun acts =>
            run_acts (0, 0) sh rs (m0, [], []) acts)
      | UResult dest by_ =>
          obind (of_res (emp_index nd by_)) (fun c =>
            match nth_error (s_emps nd) c with
            | None => Fault IndexError
            | Some e =>
                obind (of_res (manager_handle_result_from_below (T := task) (e_num_tasks e) (s_lb nd) (s_step nd)
                                 (zlen (s_emps nd)) dest tt up_tag [])) (fun x =>
                  let '(nt, acts) := x in
                  run_acts (dest, by_) sh rs (set_node m0 (set_emps nd (upd c (set_tasks nt) (s_emps nd))), [], []) acts)
            end)
      | UWaiting n r =>
          obind (srv_waiting nd j n r) (fun nd' =>
            obind (mgr_update_upstream (set_node m0 nd')) (fun y => Done (fst y, snd y, [])))
      | UUpdate d =>
          match nth_error (s_emps nd) j with
          | None => Disabled
          | Some e =>
              obind (of_res (manager_handle_update (T := task) (e_num_tasks e) d up_tag [])) (fun x =>
                let '(nt, acts) := x in
                run_acts (0, 0) sh rs (set_node m0 (set_emps nd (upd j (set_tasks nt) (s_emps nd))), [], []) acts)
          end
      | UCancel a => Done (m0, [UCancel a], [])                         (* "forward all other messages up" *)
      end
  end.

(* ---------- the system ---------- *)

Definition tstep (st : tsys) (ev : tevent) : outcome tsys :=
  match ev with
  | TTop e =>
      if is_top_event e then obind (step (top_view st) e) (fun v => Done (of_top st v)) else Disabled
  | TWorker i e =>
      if is_top_event e then Disabled
      else match nth_error (t_mgrs st) i with
           | None => Disabled
           | Some m =>
               obind (step (sub_view st m) e) (fun v =>
                 Done (mkT (t_srv st) (t_sm st) (t_ms st)
                           (upd i (fun _ => mkMgr (m_node m) (m_last m) (m_mrrs m) (downs v) (ups v) (wks v)) (t_mgrs st))
                           (seen v) (t_slog st) (t_wlog st)))
           end
  | TMgrAbove i sh rs =>
      match nth_error (t_mgrs st) i, nth_error (t_sm st) i with
      | Some m, Some (msg :: q) =>
          obind (mgr_above m msg sh rs) (fun x =>
            let '(m', sends) := x in
            Done (mkT (t_srv st) (upd i (fun _ => q) (t_sm st)) (t_ms st) (upd i (fun _ => m') (t_mgrs st))
                      (t_seen st) (t_slog st) (t_wlog st ++ map (fun s => (i, s)) sends)))
      | _, _ => Disabled
      end
  | TMgrBelow i j sh rs =>
      match nth_error (t_mgrs st) i with
      | None => Disabled
      | Some m =>
          obind (mgr_below m j sh rs) (fun x =>
            let '(m', upq, sends) := x in
            Done (mkT (t_srv st) (t_sm st) (upd i (fun u => u ++ upq) (t_ms st)) (upd i (fun _ => m') (t_mgrs st))
                      (t_seen st) (t_slog st) (t_wlog st ++ map (fun s => (i, s)) sends)))
      end
  end.

Fixpoint trun (st : tsys) (evs : list tevent) : outcome tsys :=
  match evs with
  | [] => Done st
  | ev :: evs' => obind (tstep st ev) (fun st' => trun st' evs')
  end.

(* DetachedServer after connect_to_managers (len nws managers), manager i after spawn_workers(nws[i]) *)
Definition mgr_init (lb : Z) (n : nat) : mgr :=
  mkMgr (mkSrv lb sw_step_size (repeat (mkEmp 1 0 1 []) n) (Z.of_nat n) (Z.of_nat n)) (Z.of_nat n) None
        (repeat [] n) (repeat [] n) (repeat (mkW None [] false []) n).

Definition tinit (nws : list nat) : tsys :=
  let lb := server_lower_id_bound in
  let stp := ctm_step_size lb server_upper_id_bound (zlen nws) in
  let tot := sumZ (map Z.of_nat nws) in
  mkT (mkSrv lb stp (map (fun n => mkEmp (Z.of_nat n) 0 (Z.of_nat n) []) nws) tot tot)
      (map (fun _ => []) nws) (map (fun _ => []) nws)
      (map (fun ik => mgr_init (ctm_lb lb stp (Z.of_nat (fst ik))) (snd ik)) (combine (seq 0 (length nws)) nws))
      [] [] [].

(* nothing in flight anywhere, every worker blocked with no task left *)
Definition all_empty {A} (l : list (list A)) : bool := forallb (fun q => match q with [] => true | _ => false end) l.

Definition tquiescent (st : tsys) : bool :=
  all_empty (t_sm st) && all_empty (t_ms st)
  && forallb (fun m => all_empty (m_downs m) && all_empty (m_ups m)
                       && forallb (fun k => w_blocked k && match w_held k with [] => true | _ => false end) (m_wks m)) (t_mgrs st).

Definition is_cancel_tevent (ev : tevent) : bool :=
  match ev with TTop e | TWorker _ e => is_cancel_event e | _ => false end.
