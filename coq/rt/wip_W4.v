From Coq Require Import List Arith Bool PeanoNat Lia Permutation.
Import ListNotations.
From BQ Require Import rt.WorkerM rt.wip_W1 rt.wip_W2 rt.wip_W3.

(* ---------- Part A: frame facts ---------- *)
Definition sameA (w w' : wstate) : Prop :=
  w_id w' = w_id w /\ map t_addr (w_tasks w') = map t_addr (w_tasks w) /\ w_delayed w' = w_delayed w /\
  chan_tasks (w_out w') = chan_tasks (w_out w) /\ w_created w' = w_created w /\
  w_finished w' = w_finished w /\ w_started w' = w_started w /\ w_counter w' = w_counter w.
Lemma sameA_refl : forall w, sameA w w. Proof. intro; repeat split; reflexivity. Qed.
Lemma sameA_trans : forall a b c, sameA a b -> sameA b c -> sameA a c.
Proof. unfold sameA. intros a b c (H1&H2&H3&H4&H5&H6&H7&H8) (G1&G2&G3&G4&G5&G6&G7&G8).
  repeat split; congruence. Qed.
Lemma sameA_send : forall w m, msg_tasks m = [] -> sameA w (send w m).
Proof. intros. unfold send. repeat split; try reflexivity. simpl. rewrite chan_tasks_app. simpl. rewrite H. simpl. apply app_nil_r. Qed.

Ltac sameA_tac := repeat split; try reflexivity.

Lemma handle_result_A : forall w a v w1 ok, handle_result w a v = (w1, ok) -> sameA w w1.
Proof. intros w a v w1 ok H. unfold handle_result in H.
  destruct (negb (dest_eqb (a_w a) (me w))); [injection H as <- <-; sameA_tac|].
  destruct (box_get (a_box a) (w_boxes w)) as [b|]; [|injection H as <- <-; sameA_tac].
  destruct (deposit b (a_slot a) v) as [b1 ok1]. destruct (negb ok1); [injection H as <- <-; sameA_tac|].
  destruct (b_dest b1) as [d|]; [|injection H as <- <-; sameA_tac].
  cbn [w_tasks set_deposited set_boxes] in H.
  destruct (task_get d (w_tasks w)) as [t|]; [|injection H as <- <-; sameA_tac].
  destruct (t_won t || b_ready b1); injection H as <- <-; sameA_tac. Qed.

Lemma cancel_msgs_tasks : forall w m n i, chan_tasks (cancel_msgs w m i n) = [].
Proof. induction n; simpl; intros; auto. Qed.

Lemma close_boxes_A : forall owned skip w w1 ok, close_boxes owned skip w = (w1, ok) -> sameA w w1.
Proof. induction owned as [|m r IH]; simpl; intros skip w w1 ok H.
  - injection H as <- <-. apply sameA_refl.
  - destruct skip; [eapply IH; eauto|].
    destruct (box_get m (w_boxes w)) as [b|]; [|injection H as <- <-; sameA_tac].
    destruct (b_ready b).
    + apply IH in H. eapply sameA_trans; [|exact H]. sameA_tac.
    + apply IH in H. eapply sameA_trans; [|exact H]. sameA_tac.
      simpl. rewrite chan_tasks_app, cancel_msgs_tasks. apply app_nil_r. Qed.

Lemma desired_result_A : forall w t w1 t1 sv, desired_result w t = inl (w1, t1, sv) ->
  sameA w w1 /\ t_addr t1 = t_addr t /\ t_comp t1 = t_comp t.
Proof. intros w t w1 t1 sv H. unfold desired_result in H.
  destruct (t_desired t) as [m|]; [|injection H as <- <- <-; split; [apply sameA_refl|auto]].
  destruct (box_get m (w_boxes w)) as [b|]; [|discriminate].
  destruct (t_won t).
  - destruct (b_fresh b); [|discriminate]. injection H as <- <- <-. split; [sameA_tac|auto].
  - destruct (negb (b_ready b)); [discriminate|]. destruct (remove_first m (t_owned t)); [|discriminate].
    injection H as <- <- <-. split; [sameA_tac|auto]. Qed.

(* effect of a segment on the A-view *)
Lemma apply_eff_A : forall w comp es, let w' := apply_eff w comp es in
  w_id w' = w_id w /\ w_tasks w' = w_tasks w /\ w_delayed w' = w_delayed w /\
  chan_tasks (w_out w') = chan_tasks (w_out w) ++ eff_tasks (me w) comp (w_counter w) es /\
  w_created w' = w_created w ++ map t_addr (eff_tasks (me w) comp (w_counter w) es) /\
  w_finished w' = w_finished w /\ w_started w' = w_started w /\ w_counter w' = w_counter w + length es.
Proof. intros. subst w'. unfold apply_eff. simpl. repeat split; auto.
  rewrite chan_tasks_app, chan_tasks_eff_msgs. reflexivity. Qed.

(* per-worker transition summary for the conservation invariant *)
Definition stepA (w w' : wstate) (inc : list task) : Prop :=
  w_id w' = w_id w /\ w_counter w <= w_counter w' /\
  exists news fin,
    (forall x, tcnt x (w_held w') + cnt x (map fst fin) = tcnt x (w_held w) + tcnt x inc + tcnt x news) /\
    w_created w' = w_created w ++ map t_addr news /\
    w_finished w' = w_finished w ++ fin /\
    (forall x, cnt x (w_started w') + tcnt x (w_tasks w) = cnt x (w_started w) + tcnt x (w_tasks w') + cnt x (map fst fin)) /\
    (forall t, In t news -> a_w (t_addr t) = me w /\ w_counter w <= a_box (t_addr t) < w_counter w') /\
    (forall x, tcnt x news <= 1).

Lemma stepA_same : forall w w', sameA w w' -> stepA w w' [].
Proof. intros w w' (H1&H2&H3&H4&H5&H6&H7&H8). split; auto. split; [lia|]. exists [], [].
  unfold w_held, tcnt. rewrite !map_app, H2, H3, H4, H5, H6, H7. simpl. rewrite !app_nil_r.
  repeat split; auto; intros; try rewrite tcnt_nil; try lia; try contradiction. Qed.

Lemma add_task_held : forall w t x, task_get (t_addr t) (w_tasks w) = None ->
  tcnt x (w_tasks (add_task w t)) = tcnt x (w_tasks w) + tcnt x [t].
Proof. intros. unfold add_task, put. simpl. rewrite task_set_absent by auto. apply tcnt_app. Qed.

Lemma cnt_single : forall x a, cnt x [a] = if addr_eqb x a then 1 else 0.
Proof. intros. rewrite cnt_cons, cnt_nil. lia. Qed.

Ltac cnt_tac := intros; unfold w_held, tcnt in *; cbn [map] in *; repeat (rewrite ?map_app, ?cnt_app, ?cnt_nil, ?app_nil_r; cbn [map]); try reflexivity; try lia.

Lemma recv_step_A : forall w m, w_rdead w = false ->
  (forall t, In t (msg_tasks m) -> tcnt (t_addr t) (w_tasks w) = 0) ->
  stepA w (recv_step w m) (msg_tasks m).
Proof.
  intros w m Hd Habs. unfold recv_step. rewrite Hd.
  destruct m as [t|ts|a v c|r| |c| |a]; try solve [apply stepA_same; sameA_tac].
  - (* SUBMIT *)
    simpl in Habs. specialize (Habs t (or_introl eq_refl)). apply task_get_None_tcnt in Habs.
    split; [reflexivity|]. split; [simpl; lia|]. exists [], []. unfold w_held. simpl.
    rewrite task_set_absent by (simpl; auto). simpl.
    repeat split; auto; try (simpl; intros; contradiction); cnt_tac.
  - (* SUBMIT_BATCH *)
    destruct ts as [|t0 r]; [apply stepA_same; sameA_tac|].
    destruct (last_opt (t0 :: r)) as [tl|] eqn:El; [|apply last_opt_None in El; discriminate].
    pose proof (last_opt_removelast _ _ _ El) as Hsplit.
    assert (Hin : In tl (t0 :: r)) by (rewrite Hsplit; apply in_or_app; right; left; reflexivity).
    specialize (Habs tl Hin). apply task_get_None_tcnt in Habs.
    assert (Hc : forall x, tcnt x (t0 :: r) = tcnt x (removelast (t0 :: r)) + tcnt x [tl])
      by (intro; rewrite Hsplit at 1; apply tcnt_app).
    split; [reflexivity|]. split; [simpl; lia|]. exists [], []. unfold w_held.
    cbn [msg_tasks].
    cbn [add_task put set_started set_tasks set_recent set_delayed set_ready w_out w_delayed w_tasks w_created w_finished w_started].
    rewrite task_set_absent by (simpl; auto).
    repeat split; auto; try (simpl; intros; contradiction); intros; rewrite ?Hc; cnt_tac.
  - (* RESULT *)
    destruct (handle_result w a v) as [w1 ok] eqn:E. apply handle_result_A in E.
    apply stepA_same. destruct ok; [exact E|]. eapply sameA_trans; [exact E|]. sameA_tac.
Qed.

Lemma handle_result_tasks : forall w a v w1 ok, handle_result w a v = (w1, ok) -> w_tasks w1 = w_tasks w.
Proof. intros w a v w1 ok H. unfold handle_result in H.
  destruct (negb (dest_eqb (a_w a) (me w))); [injection H as <- <-; reflexivity|].
  destruct (box_get (a_box a) (w_boxes w)) as [b|]; [|injection H as <- <-; reflexivity].
  destruct (deposit b (a_slot a) v) as [b1 ok1]. destruct (negb ok1); [injection H as <- <-; reflexivity|].
  destruct (b_dest b1) as [d|]; [|injection H as <- <-; reflexivity].
  cbn [w_tasks set_deposited set_boxes] in H.
  destruct (task_get d (w_tasks w)) as [t|]; [|injection H as <- <-; reflexivity].
  destruct (t_won t || b_ready b1); injection H as <- <-; reflexivity. Qed.

(* _process_task_completion *)
Lemma complete_A : forall w t v w1 ok t0, task_get (t_addr t) (w_tasks w) = Some t0 ->
  complete w t v = (w1, ok) ->
  sameA w w1 \/
  (w_id w1 = w_id w /\ map t_addr (w_tasks w1) = map t_addr (task_del (t_addr t) (w_tasks w)) /\
   w_delayed w1 = w_delayed w /\ chan_tasks (w_out w1) = chan_tasks (w_out w) /\ w_created w1 = w_created w /\
   w_finished w1 = w_finished w ++ [(t_addr t, v)] /\ w_started w1 = w_started w /\ w_counter w1 = w_counter w).
Proof.
  intros w t v w1 ok t0 Hg H. unfold complete in H.
  destruct (dest_eqb (a_w (t_addr t)) (me w)).
  - destruct (handle_result w (t_addr t) v) as [w' ok'] eqn:E. pose proof (handle_result_A _ _ _ _ _ E) as S1.
    pose proof (handle_result_tasks _ _ _ _ _ E) as S2.
    destruct ok'; cbn [negb] in H.
    + destruct (close_boxes (t_owned t) false _) as [w3 ok3] eqn:E3 in H. injection H as <- <-.
      apply close_boxes_A in E3. right.
      destruct S1 as (A1&A2&A3&A4&A5&A6&A7&A8). destruct E3 as (B1&B2&B3&B4&B5&B6&B7&B8).
      cbn [set_finished set_tasks send set_out w_id w_tasks w_delayed w_out w_created w_finished w_started w_counter] in *.
      rewrite chan_tasks_app in B4. simpl in B4. rewrite app_nil_r in B4. rewrite S2 in B2.
      repeat split; congruence.
    + injection H as <- <-. left. exact S1.
  - cbn [negb] in H.
    destruct (close_boxes (t_owned t) false _) as [w3 ok3] eqn:E3 in H. injection H as <- <-.
    apply close_boxes_A in E3. right. destruct E3 as (B1&B2&B3&B4&B5&B6&B7&B8).
    cbn [set_finished set_tasks send set_out w_id w_tasks w_delayed w_out w_created w_finished w_started w_counter] in *.
    rewrite chan_tasks_app in B4. simpl in B4. rewrite app_nil_r in B4.
    repeat split; congruence.
Qed.

Lemma desired_result_tasks : forall w t w1 t1 sv, desired_result w t = inl (w1, t1, sv) -> w_tasks w1 = w_tasks w.
Proof. intros w t w1 t1 sv H. unfold desired_result in H.
  destruct (t_desired t) as [m|]; [|injection H as <- <- <-; reflexivity].
  destruct (box_get m (w_boxes w)) as [b|]; [|discriminate].
  destruct (t_won t).
  - destruct (b_fresh b); [|discriminate]. injection H as <- <- <-. reflexivity.
  - destruct (negb (b_ready b)); [discriminate|]. destruct (remove_first m (t_owned t)); [|discriminate].
    injection H as <- <- <-. reflexivity. Qed.

Lemma run_A : forall rest w t w' t' y, run rest w t = (w', t', y) ->
  exists es, w' = apply_eff w (t_comp t) es /\ t_addr t' = t_addr t /\ t_comp t' = t_comp t.
Proof. intros. apply run_exact in H. destruct H as (es & cons & tail & _ & _ & Hw & Ht & _). exists es. split; auto.
  rewrite Ht. split; reflexivity. Qed.

Lemma resume_A : forall w t sv w' t' y, resume w t sv = (w', t', y) ->
  exists w0 es, sameA w w0 /\ w_tasks w0 = w_tasks w /\ w' = apply_eff w0 (t_comp t) es /\
                t_addr t' = t_addr t /\ t_comp t' = t_comp t.
Proof.
  intros w t sv w' t' y H. unfold resume in H.
  assert (Hr : forall w0 t0, sameA w w0 -> w_tasks w0 = w_tasks w -> t_addr t0 = t_addr t -> t_comp t0 = t_comp t ->
             run (t_rest t) w0 t0 = (w', t', y) ->
             exists w0 es, sameA w w0 /\ w_tasks w0 = w_tasks w /\ w' = apply_eff w0 (t_comp t) es /\
                t_addr t' = t_addr t /\ t_comp t' = t_comp t).
  { intros w0 t0 S1 S2 S3 S4 Hrun. apply run_A in Hrun. destruct Hrun as (es & E1 & E2 & E3).
    exists w0, es. split; [exact S1|]. split; [exact S2|]. split; [rewrite <- S4; exact E1|]. split; congruence. }
  assert (Hx : raised w t = (w', t', y) ->
             exists w0 es, sameA w w0 /\ w_tasks w0 = w_tasks w /\ w' = apply_eff w0 (t_comp t) es /\
                t_addr t' = t_addr t /\ t_comp t' = t_comp t).
  { unfold raised. intro E. injection E as <- <- <-. exists w, []. rewrite apply_eff_nil.
    repeat split; auto. }
  destruct (t_pend t); destruct sv; try (apply Hx; exact H);
    (eapply Hr; [| | | |exact H]; [sameA_tac|reflexivity|reflexivity|reflexivity]).
Qed.

Lemma aw_A : forall w a m nxt, sameA w (aw2 (aw1c (aw1 w a m) a nxt) a m).
Proof.
  intros. assert (S1 : sameA w (aw1 w a m)).
  { unfold aw1. destruct (box_get m (w_boxes w)); simpl.
    - destruct (task_get a (w_tasks w)) eqn:E; [|sameA_tac]. sameA_tac. simpl.
      eapply task_set_present_addrs. simpl. apply task_get_Some in E as E'. destruct E' as [<- _]. exact E.
    - destruct (task_get a (w_tasks w)) eqn:E; [|sameA_tac]. sameA_tac. simpl.
      eapply task_set_present_addrs. simpl. apply task_get_Some in E as E'. destruct E' as [<- _]. exact E. }
  assert (S2 : forall w, sameA w (aw1c w a nxt)).
  { intro w1. unfold aw1c. destruct (task_get a (w_tasks w1)) eqn:E; [|sameA_tac]. sameA_tac. simpl.
    eapply task_set_present_addrs. simpl. apply task_get_Some in E as E'. destruct E' as [<- _]. exact E. }
  assert (S3 : forall w, sameA w (aw2 w a m)).
  { intro w1. unfold aw2. destruct (box_get m (w_boxes w1)); [|sameA_tac]. destruct (b_ready m0); sameA_tac. }
  eapply sameA_trans; [exact S1|]. eapply sameA_trans; [apply S2|apply S3].
Qed.
Lemma aw1_A : forall w a m, sameA w (aw1 w a m).
Proof. intros. unfold aw1. destruct (box_get m (w_boxes w)); simpl.
    - destruct (task_get a (w_tasks w)) eqn:E; [|sameA_tac]. sameA_tac. simpl.
      eapply task_set_present_addrs. simpl. apply task_get_Some in E as E'. destruct E' as [<- _]. exact E.
    - destruct (task_get a (w_tasks w)) eqn:E; [|sameA_tac]. sameA_tac. simpl.
      eapply task_set_present_addrs. simpl. apply task_get_Some in E as E'. destruct E' as [<- _]. exact E. Qed.
Lemma aw1c_A : forall w a nxt, sameA w (aw1c w a nxt).
Proof. intros. unfold aw1c. destruct (task_get a (w_tasks w)) eqn:E; [|sameA_tac]. sameA_tac. simpl.
    eapply task_set_present_addrs. simpl. apply task_get_Some in E as E'. destruct E' as [<- _]. exact E. Qed.
Lemma aw2_A : forall w a m, sameA w (aw2 w a m).
Proof. intros. unfold aw2. destruct (box_get m (w_boxes w)); [|sameA_tac]. destruct (b_ready m0); sameA_tac. Qed.

Definition finA (w2 w' : wstate) (fin : list (addr * val)) : Prop :=
  w_id w' = w_id w2 /\ w_delayed w' = w_delayed w2 /\ chan_tasks (w_out w') = chan_tasks (w_out w2) /\
  w_created w' = w_created w2 /\ w_started w' = w_started w2 /\ w_counter w' = w_counter w2 /\
  w_finished w' = w_finished w2 ++ fin /\
  (forall x, tcnt x (w_tasks w') + cnt x (map fst fin) = tcnt x (w_tasks w2)).

Lemma finA_same : forall w w', sameA w w' -> finA w w' [].
Proof. intros w w' (H1&H2&H3&H4&H5&H6&H7&H8). unfold finA. rewrite app_nil_r. repeat split; auto.
  intro x. unfold tcnt. rewrite H2. simpl. rewrite cnt_nil. lia. Qed.
Lemma finA_trans_same : forall a b c fin, sameA a b -> finA b c fin -> finA a c fin.
Proof. intros a b c fin (H1&H2&H3&H4&H5&H6&H7&H8) (G1&G2&G3&G4&G5&G6&G7&G8). unfold finA.
  repeat split; try congruence. intro x. rewrite G8. unfold tcnt. rewrite H2. reflexivity. Qed.
Lemma finA_same_trans : forall a b c fin, finA a b fin -> sameA b c -> finA a c fin.
Proof. intros a b c fin (G1&G2&G3&G4&G5&G6&G7&G8) (H1&H2&H3&H4&H5&H6&H7&H8). unfold finA.
  repeat split; try congruence. intro x. rewrite <- G8. unfold tcnt. rewrite H2. reflexivity. Qed.

Lemma stepA_build : forall w w0 comp es w2 w' fin,
  sameA w w0 -> w2 = apply_eff w0 comp es -> finA w2 w' fin -> stepA w w' [].
Proof.
  intros w w0 comp es w2 w' fin (H1&H2&H3&H4&H5&H6&H7&H8) -> (G1&G2&G3&G4&G5&G6&G7&G8).
  destruct (apply_eff_A w0 comp es) as (E1&E2&E3&E4&E5&E6&E7&E8).
  assert (Hme : me w0 = me w) by (unfold me; congruence).
  split; [congruence|]. split; [lia|].
  exists (eff_tasks (me w0) comp (w_counter w0) es), fin.
  repeat split.
  - intro x. specialize (G8 x). unfold w_held. rewrite !tcnt_app, G2, G3, E3, E4, H3, H4, !tcnt_app.
    rewrite E2 in G8. unfold tcnt in *. rewrite H2 in G8. rewrite tcnt_nil || idtac. cbn [map]. rewrite cnt_nil. lia.
  - rewrite G4, E5, H5. reflexivity.
  - rewrite G7, E6, H6. reflexivity.
  - intro x. specialize (G8 x). rewrite G5, E7, H7. rewrite E2 in G8. unfold tcnt in *. rewrite H2 in G8. lia.
  - apply eff_tasks_In in H. destruct H as (A1 & A2 & A3). congruence.
  - apply eff_tasks_In in H. lia.
  - apply eff_tasks_In in H. lia.
  - intro x. apply eff_tasks_cnt_le1.
Qed.

Lemma dispatch_A : forall atomic w a, stepA w (dispatch atomic w a) [].
Proof.
  intros atomic w a. unfold dispatch.
  destruct (task_get a (w_tasks w)) as [t|] eqn:Eg; [|apply stepA_same; sameA_tac].
  pose proof (task_get_Some _ _ _ Eg) as [Hta _].
  destruct (desired_result w t) as [[[w1 t1] sv]|e] eqn:Ed.
  2:{ apply stepA_same. unfold task_error. sameA_tac. simpl. rewrite chan_tasks_app. simpl. apply app_nil_r. }
  pose proof (desired_result_A _ _ _ _ _ Ed) as (S1 & Ha1 & Hc1).
  pose proof (desired_result_tasks _ _ _ _ _ Ed) as T1.
  destruct (resume w1 (t_set_desired (t_set_won t1 false) None) sv) as [[w2 t3] y] eqn:Er.
  apply resume_A in Er. destruct Er as (w0 & es & S2 & T2 & Ew & Ha3 & Hc3). simpl in Ha3, Hc3.
  assert (S0 : sameA w w0) by (eapply sameA_trans; eauto).
  assert (Tg : task_get (t_addr t3) (w_tasks w2) = Some t).
  { rewrite Ew. unfold apply_eff. simpl. rewrite T2, T1. congruence. }
  set (w2' := set_tasks w2 (task_set t3 (w_tasks w2))).
  assert (S3 : sameA w2 w2').
  { subst w2'. sameA_tac. simpl. eapply task_set_present_addrs; eauto. }
  destruct y as [m nxt|v|].
  - (* await *)
    fold w2'. eapply stepA_build; [exact S0|exact Ew|].
    destruct (negb (has_box w2' m)).
    + apply finA_same. eapply sameA_trans; [exact S3|]. unfold task_error. sameA_tac.
      simpl. rewrite chan_tasks_app. simpl. apply app_nil_r.
    + destruct atomic.
      * apply finA_same. eapply sameA_trans; [exact S3|]. eapply sameA_trans; [apply aw_A|]. sameA_tac.
      * apply finA_same. eapply sameA_trans; [exact S3|]. sameA_tac.
  - (* return *)
    fold w2'. destruct (complete w2' t3 v) as [w3 ok] eqn:Ec.
    assert (Tg' : task_get (t_addr t3) (w_tasks w2') = Some t3) by (subst w2'; simpl; apply task_get_task_set_same).
    destruct (complete_A _ _ _ _ _ _ Tg' Ec) as [Sc|(C1&C2&C3&C4&C5&C6&C7&C8)];
      (eapply stepA_build; [exact S0|exact Ew|]).
    + apply finA_same. eapply sameA_trans; [exact S3|]. eapply sameA_trans; [exact Sc|].
      destruct ok; [sameA_tac|]. unfold fatal. sameA_tac. simpl. rewrite chan_tasks_app. simpl. apply app_nil_r.
    + eapply finA_trans_same; [exact S3|].
      assert (F : finA w2' w3 [(t_addr t3, v)]).
      { unfold finA. repeat split; auto. intro x. unfold tcnt at 1. rewrite C2.
        pose proof (tcnt_task_del x _ _ _ Tg') as Hd. unfold tcnt in *. simpl. rewrite cnt_single.
        exact Hd. }
      eapply finA_same_trans; [exact F|]. destruct ok; [sameA_tac|]. unfold fatal. sameA_tac.
      simpl. rewrite chan_tasks_app. simpl. apply app_nil_r.
  - (* raise *)
    fold w2'. eapply stepA_build; [exact S0|exact Ew|].
    apply finA_same. eapply sameA_trans; [exact S3|]. unfold task_error. sameA_tac.
    simpl. rewrite chan_tasks_app. simpl. apply app_nil_r.
Qed.

Lemma stepA_ready : forall w q w', stepA (set_ready w q) w' [] -> stepA w w' [].
Proof. intros w q w' H. exact H. Qed.

Lemma main_step_A : forall atomic w w', main_step atomic w = Some w' ->
  (forall t, In t (w_delayed w) -> tcnt (t_addr t) (w_tasks w) = 0) ->
  stepA w w' [].
Proof.
  intros atomic w w' H Habs. unfold main_step in H. destruct (w_pc w) eqn:Epc.
  - (* PLoop *) destruct (w_ready w); [destruct (w_delayed w)|]; injection H as <-; apply stepA_same; sameA_tac.
  - (* PPromote *)
    destruct (last_opt (w_delayed w)) as [tl|] eqn:El; injection H as <-.
    + pose proof (last_opt_removelast _ _ _ El) as Hsplit.
      assert (Hin : In tl (w_delayed w)) by (rewrite Hsplit; apply in_or_app; right; left; reflexivity).
      specialize (Habs tl Hin). apply task_get_None_tcnt in Habs.
      assert (Hc : forall x, tcnt x (w_delayed w) = tcnt x (removelast (w_delayed w)) + tcnt x [tl])
        by (intro; rewrite Hsplit at 1; apply tcnt_app).
      split; [reflexivity|]. split; [simpl; lia|]. exists [], []. unfold w_held.
      cbn [add_task put set_started set_tasks set_pc set_delayed set_ready w_out w_delayed w_tasks w_created w_finished w_started].
      rewrite task_set_absent by (simpl; auto).
      repeat split; auto; try (simpl; intros; contradiction); intros; try (match goal with x : addr |- _ => pose proof (Hc x) end); cnt_tac.
    + apply stepA_same. unfold fatal. sameA_tac. simpl. rewrite chan_tasks_app. simpl. apply app_nil_r.
  - (* PGet *)
    destruct (w_ready w) as [|a q]; injection H as <-.
    + apply stepA_same. sameA_tac. simpl. rewrite chan_tasks_app. simpl. apply app_nil_r.
    + apply (stepA_ready w q). apply dispatch_A.
  - (* PBlocked *)
    destruct (w_ready w) as [|a q]; [discriminate|]. injection H as <-.
    apply (stepA_ready w q). apply dispatch_A.
  - injection H as <-. apply stepA_same. eapply sameA_trans; [apply aw1_A|]. sameA_tac.
  - injection H as <-. apply stepA_same. eapply sameA_trans; [apply aw1c_A|]. sameA_tac.
  - injection H as <-. apply stepA_same. eapply sameA_trans; [apply aw2_A|]. sameA_tac.
  - discriminate.
Qed.
