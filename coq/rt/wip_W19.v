From Coq Require Import List Arith Bool PeanoNat Lia Permutation.
Import ListNotations.
From BQ Require Import rt.WorkerM rt.wip_W1 rt.wip_W2 rt.wip_W3 rt.wip_W4 rt.wip_W5 rt.wip_W6 rt.wip_W7 rt.wip_W8 rt.wip_W9 rt.wip_W10 rt.wip_W11 rt.wip_W12 rt.wip_W13 rt.wip_W14 rt.wip_W15 rt.wip_W16 rt.wip_W17 rt.wip_W18.

(* freshness of the deposit made by a completing task: its own address was never deposited *)
Definition own_fresh (w : wstate) (a : addr) : Prop :=
  a_w a = me w -> box_get (a_box a) (w_boxes w) <> None -> cnt a (w_deposited w) = 0.

Lemma complete_D : forall w t v w1 ok, winvV w -> winvC w -> winvD w -> dep1 w ->
  qcnt (t_addr t) w + armed (t_addr t) w = 0 ->
  (a_w (t_addr t) = me w -> lexp w (t_addr t) v) -> own_fresh w (t_addr t) ->
  complete w t v = (w1, ok) -> w_oos w1 = true \/ winvD w1.
Proof.
  intros w t v w1 ok IV IC ID Dp Hz Hown Hfresh H. unfold complete in H.
  destruct (dest_eqb (a_w (t_addr t)) (me w)) eqn:Eme.
  - destruct (handle_result w (t_addr t) v) as [w' ok'] eqn:Eh.
    destruct (handle_result_D _ _ _ _ _ IV IC ID Dp Hown Hfresh Eh) as (ID' & Z').
    destruct (handle_result_V _ _ _ _ _ IV Hown Eh) as (IV' & _ & _ & T' & _).
    destruct ok'; cbn [negb] in H.
    + destruct (close_boxes (t_owned t) false _) as [w3 ok3] eqn:Ec in H. injection H as <- <-.
      eapply (close_boxes_D _ _ _ _ _ _ _ Ec).
    + injection H as <- <-. right. eapply winvD_same; [| | | | |exact ID']; reflexivity.
  - cbn [negb] in H. destruct (close_boxes (t_owned t) false _) as [w3 ok3] eqn:Ec in H. injection H as <- <-.
    eapply (close_boxes_D _ _ _ _ _ _ _ Ec).
  Unshelve.
  + eapply winvD_same; [| | | | |apply (winvD_task_del (send w' MUpdate) (t_addr t))]; try reflexivity.
    * eapply winvD_same; [| | | | |exact ID']; reflexivity.
    * apply (Z' _ Hz).
  + simpl. apply (V_keys w' IV').
  + eapply winvD_same; [| | | | |apply (winvD_task_del (send w (MResult (t_addr t) v (w_id w))) (t_addr t))]; try reflexivity.
    * eapply winvD_same; [| | | | |exact ID]; reflexivity.
    * exact Hz.
  + simpl. apply (V_keys w IV).
Qed.

Lemma dispatch_D : forall w a, winvV w -> winvC w -> winvD w -> dep1 w -> own_ok w ->
  qcnt a w + armed a w = 0 -> steppable w a ->
  (forall t, task_get a (w_tasks w) = Some t -> own_fresh w a) ->
  w_oos (dispatch true w a) = true \/ winvD (dispatch true w a).
Proof.
  intros w a IV IC ID Dp Hown Hz Hst Hfresh. unfold dispatch.
  destruct (task_get a (w_tasks w)) as [t|] eqn:Eg; [|right; apply winvD_set_pc; [exact Logic.I|exact ID]].
  pose proof (task_get_Some _ _ _ Eg) as [Hta Hin].
  pose proof (D_pc w ID) as Hpc.
  destruct (desired_result w t) as [[[w1 t1] sv]|e] eqn:Ed.
  2:{ right. unfold task_error. apply winvD_set_pc; [exact Logic.I|].
      rewrite <- Hta in Hst, Eg. destruct (desired_result_err w t e Hst Eg Ed) as [N1 N2].
      eapply winvD_same; [| | | | |apply (winvD_errs w e ID N1 N2)]; reflexivity. }
  destruct (resume w1 (t_set_desired (t_set_won t1 false) None) sv) as [[w2 t3] y] eqn:Er.
  destruct (dispatch_front _ _ _ _ _ _ _ _ _ IV Hpc Eg Ed Er) as (IV1 & IV2 & Ew2 & Hpc2 & Hid & Ta3 & Ts3 & Hret & Hpend & Tok & Sv & Ep & Es).
  destruct (desired_result_D _ _ _ _ _ ID (V_keys w IV) Ed) as (ID1 & R1 & T1 & A1).
  destruct (resume_D _ _ _ _ _ _ ID1 (winvV_des_lt w1 IV1) Er) as (ID2 & R2 & T2 & A2).
  (* Part C facts for the intermediate states *)
  destruct (desired_result_C _ _ _ _ _ IC Dp (V_keys w IV) Ed) as (P1 & P2 & P3 & P4 & P5 & P6 & P7).
  assert (P : pendC w w1 sv) by (exact (conj P1 (conj P2 (conj P3 (conj P4 (conj (C_log w IC) P6)))))).
  assert (Hfull : forall m vs f, sv = SFull m vs -> t_pend (t_set_desired (t_set_won t1 false) None) = PendAwait f ->
     Forall (fun c => c <> None) vs /\ exists sp, nth_error (specs_of (t_script (t_set_desired (t_set_won t1 false) None))) f = Some sp /\ length vs = length (kids sp)).
  { intros m vs f E Epf. destruct (P7 m vs E) as (Ffull & b & Hb & Hlen). split; auto.
    rewrite Ep in Epf. rewrite Es. subst sv. inversion Sv as [|m' b' Hd Hw Hb' Heq|]; subst.
    assert (b' = b) by congruence. subst b'.
    destruct (task_fut_spec w t m b f Tok Hd Hb) as (sp & Hsp & Hexp); [rewrite Epf; reflexivity|].
    exists sp. split; auto. rewrite Hlen, Hexp, map_length. reflexivity. }
  destruct (resume_C _ _ _ _ _ _ _ P (V_keys_lt w1 IV1) Hfull Er) as (IC2 & _).
  set (w2' := set_tasks w2 (task_set t3 (w_tasks w2))) in *.
  assert (IC2' : winvC w2') by (eapply winvC_same; [| | | |exact IC2]; reflexivity).
  assert (Hz2 : qcnt a w2 + armed a w2 = 0).
  { unfold qcnt in *. rewrite R2, R1. rewrite (A2 a). specialize (A1 a). lia. }
  assert (ID2' : winvD w2').
  { subst w2'. rewrite <- Ta3 in Hz2. apply (winvD_task_set w2 t3 ID2 Hz2). }
  assert (Hz2' : qcnt a w2' + armed a w2' = 0) by exact Hz2.
  assert (Dp2 : dep1 w2').
  { intro x. unfold w2'. simpl.
    assert (Hdep : w_deposited w2 = w_deposited w).
    { destruct (resume_B _ _ _ _ _ _ Er) as (_ & Q & _). rewrite Q. exact P3. }
    rewrite Hdep. apply Dp. }
  destruct y as [m nxt|v|].
  - destruct (negb (has_box w2' m)) eqn:Hb.
    + right. unfold task_error. apply winvD_set_pc; [exact Logic.I|].
      eapply winvD_same; [| | | | |apply (winvD_errs w2' EBody ID2')]; try reflexivity; discriminate.
    + right. apply negb_false_iff in Hb. apply winvD_set_pc; [exact Logic.I|].
      apply aw_atomic_D; auto. destruct (Hpend m nxt eq_refl) as (tx & _ & _ & Htx & _). eauto.
  - destruct (complete w2' t3 v) as [w3 ok] eqn:Ec.
    assert (Hown3 : a_w (t_addr t3) = me w2' -> lexp w2' (t_addr t3) v).
    { intro Hm. rewrite Ta3, <- Hta in *. assert (Hm' : a_w (t_addr t) = me w) by (rewrite Hm; unfold me; congruence).
      destruct (Hown t Hin Hm') as (Lx & Hlt). rewrite (Hret v eq_refl).
      eapply lexp_ext; [exact Ew2|exact Hlt|exact Lx]. }
    assert (Hfr3 : own_fresh w2' (t_addr t3)).
    { intros Hm Hbx. rewrite Ta3 in *.
      assert (Hdep : w_deposited w2' = w_deposited w).
      { unfold w2'. simpl. destruct (resume_B _ _ _ _ _ _ Er) as (_ & Q & _). rewrite Q. exact P3. }
      rewrite Hdep. apply (Hfresh t eq_refl).
      - rewrite Hm. unfold me. congruence.
      - (* the box existed before: boxes below the old counter are never re-created *)
        destruct (box_get (a_box a) (w_boxes w2')) as [bx|] eqn:Ex; [|congruence].
        destruct Ew2 as (_ & _ & Hext). destruct (Hext _ _ Ex) as [(b0 & Hb0 & _)|Hge]; [congruence|].
        exfalso. rewrite <- Hta in Hge. assert (Hm' : a_w (t_addr t) = me w) by (rewrite Hta, Hm; unfold me; congruence).
        destruct (Hown t Hin Hm') as (_ & Hlt). lia. }
    rewrite <- Ta3 in Hz2'.
    destruct (complete_D _ _ _ _ _ IV2 IC2' ID2' Dp2 Hz2' Hown3 Hfr3 Ec) as [Ho|ID3].
    + left. destruct ok; [|unfold fatal]; simpl; exact Ho.
    + right. destruct ok; [apply winvD_set_pc; [exact Logic.I|exact ID3]|].
      unfold fatal. apply winvD_set_pc; [exact Logic.I|]. eapply winvD_same; [| | | | |exact ID3]; reflexivity.
  - right. unfold task_error. apply winvD_set_pc; [exact Logic.I|].
    eapply winvD_same; [| | | | |apply (winvD_errs w2' EBody ID2')]; try reflexivity; discriminate.
Qed.

(* ---- w_oos only ever goes from false to true ---- *)
Lemma handle_result_oos : forall w a v w1 ok, handle_result w a v = (w1, ok) -> w_oos w1 = w_oos w.
Proof. intros w a v w1 ok H. unfold handle_result in H.
  destruct (negb (dest_eqb (a_w a) (me w))); [injection H as <- <-; reflexivity|].
  destruct (box_get (a_box a) (w_boxes w)) as [b|]; [|injection H as <- <-; reflexivity].
  destruct (deposit b (a_slot a) v) as [b1 ok1]. destruct (negb ok1); [injection H as <- <-; reflexivity|].
  destruct (b_dest b1) as [d|]; [|injection H as <- <-; reflexivity]. cbn [w_tasks set_deposited set_boxes] in H.
  destruct (task_get d (w_tasks w)) as [t|]; [|injection H as <- <-; reflexivity].
  destruct (t_won t || b_ready b1); injection H as <- <-; reflexivity. Qed.
Lemma resume_oos : forall w t sv w' t' y, resume w t sv = (w', t', y) -> w_oos w' = w_oos w.
Proof. intros w t sv w' t' y H. unfold resume in H.
  assert (Hr : forall w0 t0, w_oos w0 = w_oos w -> run (t_rest t) w0 t0 = (w', t', y) -> w_oos w' = w_oos w).
  { intros w0 t0 E Hrun. apply run_exact in Hrun. destruct Hrun as (es & _ & _ & _ & _ & Hw & _). rewrite Hw. simpl. exact E. }
  assert (Hx : raised w t = (w', t', y) -> w_oos w' = w_oos w) by (unfold raised; intro E; injection E as <- <- <-; reflexivity).
  destruct (t_pend t); destruct sv; try (apply Hx; exact H);
    (match type of H with run _ ?wl ?tl = _ => apply (Hr wl tl) end; [reflexivity|exact H]). Qed.
Lemma desired_result_oos : forall w t w1 t1 sv, desired_result w t = inl (w1, t1, sv) -> w_oos w1 = w_oos w.
Proof. intros w t w1 t1 sv H. unfold desired_result in H.
  destruct (t_desired t) as [m|]; [|injection H as <- <- <-; reflexivity].
  destruct (box_get m (w_boxes w)) as [b|]; [|discriminate]. destruct (t_won t).
  - destruct (b_fresh b); [|discriminate]. injection H as <- <- <-. reflexivity.
  - destruct (negb (b_ready b)); [discriminate|]. destruct (remove_first m (t_owned t)); [|discriminate].
    injection H as <- <- <-. reflexivity. Qed.
Lemma aw_oos : forall w a m nxt, w_oos (aw1 w a m) = w_oos w /\ w_oos (aw1c w a nxt) = w_oos w /\ w_oos (aw2 w a m) = w_oos w.
Proof. intros. split; [|split].
  - unfold aw1. destruct (box_get m (w_boxes w)); simpl; destruct (task_get a _); reflexivity.
  - unfold aw1c. destruct (task_get a _); reflexivity.
  - unfold aw2. destruct (box_get m (w_boxes w)) as [b|]; [destruct (b_ready b)|]; reflexivity. Qed.
Lemma complete_oos : forall w t v w1 ok, complete w t v = (w1, ok) -> w_oos w = true -> w_oos w1 = true.
Proof. intros w t v w1 ok H Ho. unfold complete in H.
  destruct (dest_eqb (a_w (t_addr t)) (me w)).
  - destruct (handle_result w (t_addr t) v) as [w' ok'] eqn:E. apply handle_result_oos in E.
    destruct ok'; cbn [negb] in H.
    + destruct (close_boxes (t_owned t) false _) as [w3 ok3] eqn:Ec in H. injection H as <- <-.
      eapply close_boxes_oos; [exact Ec|]. simpl. congruence.
    + injection H as <- <-. simpl. congruence.
  - cbn [negb] in H. destruct (close_boxes (t_owned t) false _) as [w3 ok3] eqn:Ec in H. injection H as <- <-.
    eapply close_boxes_oos; [exact Ec|]. simpl. exact Ho. Qed.
Lemma dispatch_oos : forall atomic w a, w_oos w = true -> w_oos (dispatch atomic w a) = true.
Proof. intros atomic w a Ho. unfold dispatch.
  destruct (task_get a (w_tasks w)) as [t|]; [|exact Ho].
  destruct (desired_result w t) as [[[w1 t1] sv]|e] eqn:Ed; [|exact Ho].
  apply desired_result_oos in Ed.
  destruct (resume w1 _ sv) as [[w2 t3] y] eqn:Er. apply resume_oos in Er.
  assert (H2 : w_oos w2 = true) by congruence.
  destruct y as [m nxt|v|].
  - destruct (negb (has_box _ m)); [exact H2|]. destruct atomic; [|exact H2].
    simpl. destruct (aw_oos (set_tasks w2 (task_set t3 (w_tasks w2))) a m nxt) as (Q1 & _ & _).
    destruct (aw_oos (aw1 (set_tasks w2 (task_set t3 (w_tasks w2))) a m) a m nxt) as (_ & Q2 & _).
    destruct (aw_oos (aw1c (aw1 (set_tasks w2 (task_set t3 (w_tasks w2))) a m) a nxt) a m nxt) as (_ & _ & Q3).
    rewrite Q3, Q2, Q1. exact H2.
  - destruct (complete _ t3 v) as [w3 ok] eqn:Ec. apply complete_oos in Ec; [|exact H2]. destruct ok; exact Ec.
  - exact H2. Qed.
Lemma main_step_oos : forall atomic w w', main_step atomic w = Some w' -> w_oos w = true -> w_oos w' = true.
Proof. intros atomic w w' H Ho. unfold main_step in H. destruct (w_pc w).
  - destruct (w_ready w); [destruct (w_delayed w)|]; injection H as <-; exact Ho.
  - destruct (last_opt (w_delayed w)); injection H as <-; exact Ho.
  - destruct (w_ready w) as [|a q]; injection H as <-; [exact Ho|]. apply dispatch_oos. exact Ho.
  - destruct (w_ready w) as [|a q]; [discriminate|]. injection H as <-. apply dispatch_oos. exact Ho.
  - injection H as <-. simpl. destruct (aw_oos w a m nxt) as (Q & _ & _). congruence.
  - injection H as <-. simpl. destruct (aw_oos w a m nxt) as (_ & Q & _). congruence.
  - injection H as <-. simpl. destruct (aw_oos w a m false) as (_ & _ & Q). congruence.
  - discriminate. Qed.
Lemma recv_step_oos : forall w m, w_oos w = true -> w_oos (recv_step w m) = true.
Proof. intros w m Ho. unfold recv_step. destruct (w_rdead w); [exact Ho|].
  destruct m as [t|ts|a v c|r| |c| |a]; try exact Ho; try reflexivity.
  - destruct ts as [|t0 r]; [exact Ho|]. destruct (last_opt (t0 :: r)); exact Ho.
  - destruct (handle_result w a v) as [w1 ok] eqn:E. apply handle_result_oos in E. destruct ok; simpl; congruence. Qed.
