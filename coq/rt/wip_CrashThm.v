(* C14 - proofs about the crash event system of rt/Crash.v *)
From Coq Require Import List Arith Bool PeanoNat Lia.
Import ListNotations.
From BQ Require Import rt.Crash.

Set Implicit Arguments.

(* ---------------------------------------------------------------------------------- *)
(* sums                                                                                 *)
Lemma sumn_le : forall n f g, (forall i, i < n -> f i <= g i) -> sumn n f <= sumn n g.
Proof. induction n; simpl; intros; auto. specialize (IHn f g). assert (f n <= g n) by auto.
  assert (sumn n f <= sumn n g) by (apply IHn; auto). lia. Qed.

Lemma sumn_le_except : forall n f g j a,
  (forall i, i < n -> f i <= g i + (if Nat.eqb i j then a else 0)) -> sumn n f <= sumn n g + a.
Proof. induction n; simpl; intros; try lia.
  assert (H0 := H n (Nat.lt_succ_diag_r n)).
  destruct (Nat.eqb n j) eqn:E.
  - apply Nat.eqb_eq in E. subst j.
    assert (sumn n f <= sumn n g).
    { apply sumn_le. intros i Hi. specialize (H i). destruct (Nat.eqb i n) eqn:E2.
      apply Nat.eqb_eq in E2; lia. assert (i < S n) by lia. apply H in H1. lia. }
    lia.
  - assert (sumn n f <= sumn n g + a) by (apply IHn with (j := j); intros; apply H; lia). lia.
Qed.

Lemma sumn_lt_at : forall n f g j d, j < n -> f j + d <= g j ->
  (forall i, i < n -> i <> j -> f i <= g i) -> sumn n f + d <= sumn n g.
Proof. induction n; simpl; intros; try lia.
  destruct (Nat.eq_dec j n).
  - subst. assert (sumn n f <= sumn n g) by (apply sumn_le; intros; apply H1; lia). lia.
  - assert (sumn n f + d <= sumn n g) by (apply IHn with (j := j); auto; try lia; intros; apply H1; lia).
    assert (f n <= g n) by (apply H1; lia). lia.
Qed.

Section Thm.
Variable T : list (kind * nat).
Variable attached : bool.
Variable out : nat -> nat.

Notation N := (N T).
Notation par := (par T).
Notation kindof := (kindof T).
Notation is_child := (is_child T).
Notation is_client := (is_client T).
Notation step := (step T attached out).
Notation run := (run T attached out).
Notation shutdown := (shutdown T).
Notation sys_error := (sys_error T).
Notation die := (die T).
Notation variant := (variant T).

Ltac bd := repeat match goal with
  | |- context [if ?b then _ else _] => destruct b eqn:?
  | H : context [if ?b then _ else _] |- _ => destruct b eqn:?
  end.

Lemma upd_eq : forall A (f : nat -> A) i v, upd f i v i = v.
Proof. intros. unfold upd. rewrite Nat.eqb_refl. auto. Qed.
Lemma upd_neq : forall A (f : nat -> A) i j v, j <> i -> upd f i v j = f j.
Proof. intros. unfold upd. destruct (Nat.eqb j i) eqn:E; auto. apply Nat.eqb_eq in E. contradiction. Qed.

(* ---- weights of the pieces --------------------------------------------------------- *)
Ltac prj := cbn [alive cend pend upq downq tasks ctr blocked outcomes fin owns subs budget andb orb negb].
Ltac wl := unfold wlink; cbn [alive cend pend upq downq tasks ctr blocked outcomes fin owns subs budget
  send_up send_down set_upq set_downq set_pend set_cend set_alive set_tasks set_client set_budget
  Crash.shutdown Crash.die Crash.drop_client Crash.sys_error Crash.srv_submit Crash.client_raise Crash.client_return];
  unfold upd.

Local Arguments Nat.mul : simpl never.
Local Arguments Crash.is_child : simpl never.
Local Arguments Crash.is_client : simpl never.
Local Arguments Crash.kindof : simpl never.
Local Arguments Crash.par : simpl never.
Local Arguments Nat.ltb : simpl never.
Local Arguments Nat.leb : simpl never.
Ltac atom b := lazymatch b with
  | ?x && _ => atom x | ?x || _ => atom x | negb ?x => atom x
  | _ => destruct b eqn:?
  end.
Ltac cases := repeat (match goal with
  | |- context [if ?b then _ else _] =>
      lazymatch b with context [if _ then _ else _] => fail | _ => atom b end
  end; prj).
Ltac eqs := repeat match goal with
  | H : (_ =? _) = true |- _ => apply Nat.eqb_eq in H; subst
  | H : (_ =? _) = false |- _ => apply Nat.eqb_neq in H
  end.
Ltac done := eqs; rewrite ?app_length; simpl; try congruence; try lia.
Ltac eqcase i p := destruct (Nat.eqb i p) eqn:?E;
  [apply Nat.eqb_eq in E; subst i | apply Nat.eqb_neq in E]; simpl.

Notation srv_request := (srv_request T attached).
Notation srv_status := (srv_status T).
Notation client_gone := (client_gone T attached).
Notation server_from_client := (server_from_client T attached).
Notation server_from_employee := (server_from_employee T).
Notation mgr_from_below := (mgr_from_below T).
Notation mgr_from_above := (mgr_from_above T).
Notation worker_from_above := (worker_from_above T).
Notation recv_up := (recv_up T attached).
Notation recv_down := (recv_down T).
Notation client_recv := (client_recv).
Notation call := (call T).
Notation wf_topo := (wf_topo T).

Lemma shutdown_le : forall p s i, wlink (shutdown p s) i <= wlink s i.
Proof. intros. wl. cases. all: done. Qed.
Lemma shutdown_child_le : forall p s i, is_child p i = true -> pend s i = true ->
  wlink (shutdown p s) i + 2 <= wlink s i.
Proof. intros p s i Hc Hp. wl. rewrite Hc, Hp. cases. all: done. Qed.
Lemma sys_error_le : forall p s i, wlink (sys_error p s) i <= wlink s i.
Proof. intros. wl. cases. all: done. Qed.
Lemma die_le : forall n s i, wlink (die n s) i <= wlink s i.
Proof. intros. wl. cases. all: done. Qed.
Lemma die_self_lt : forall n s, cend s n = true -> wlink (die n s) n + 2 <= wlink s n.
Proof. intros n s H. wl. rewrite H. cases. all: done. Qed.

Definition le1 (s' s : state) (j a : nat) :=
  forall i, wlink s' i <= wlink s i + (if Nat.eqb i j then a else 0).
Lemma le1_of_le : forall s' s j a, (forall i, wlink s' i <= wlink s i) -> le1 s' s j a.
Proof. unfold le1; intros. specialize (H i). lia. Qed.
Lemma le1_then_le : forall s3 s2 s1 j a, le1 s2 s1 j a -> (forall i, wlink s3 i <= wlink s2 i) -> le1 s3 s1 j a.
Proof. unfold le1; intros. specialize (H i). specialize (H0 i). lia. Qed.
Lemma send_down_le1 : forall s c m, le1 (send_down s c m) s c 1.
Proof. unfold le1; intros. wl. cases. all: done. Qed.
Lemma send_up_le1 : forall s c m, le1 (send_up s c m) s c (2 + c).
Proof. unfold le1; intros. wl. cases. all: done. Qed.
Lemma set_tasks_w : forall s f i, wlink (set_tasks s f) i = wlink s i.
Proof. reflexivity. Qed.
Lemma srv_submit_w : forall c u s i, wlink (srv_submit c u s) i = wlink s i.
Proof. reflexivity. Qed.
Lemma drop_client_le : forall c s i, wlink (drop_client c s) i <= wlink s i.
Proof. intros. wl. cases. all: done. Qed.
Lemma client_gone_le : forall p c s i, wlink (client_gone p c s) i <= wlink s i.
Proof. intros. unfold Crash.client_gone. destruct attached. apply shutdown_le. apply drop_client_le. Qed.

Lemma le1_sd_tasks : forall s f c m, le1 (send_down (set_tasks s f) c m) s c 1.
Proof. intros. intro i. rewrite <- (set_tasks_w s f i). apply send_down_le1. Qed.

Lemma srv_request_le1 : forall p c u s, le1 (srv_request p c u s) s c 1.
Proof. intros. unfold Crash.srv_request.
  destruct (find_u u (tasks s)) as [t|].
  - destruct (_ && _).
    + destruct (t_res t). apply le1_sd_tasks. apply le1_of_le. intros; rewrite set_tasks_w; auto.
    + eapply le1_then_le. apply send_down_le1. apply client_gone_le.
  - eapply le1_then_le. apply send_down_le1. apply client_gone_le.
Qed.
Lemma srv_status_le1 : forall p c u s, le1 (srv_status p c u s) s c 1.
Proof. intros. unfold Crash.srv_status.
  destruct (find_u u (tasks s)) as [t|].
  - destruct (_ && _). apply send_down_le1. apply le1_of_le. apply sys_error_le.
  - apply le1_of_le. apply sys_error_le.
Qed.
Lemma srv_result_le1 : forall m v s, exists j, le1 (srv_result m v s) s j 1.
Proof. intros. unfold Crash.srv_result.
  destruct (find_mb m (tasks s)) as [t|].
  - destruct (t_deliv t). exists 0. apply le1_of_le; auto.
    destruct (t_wait t). exists (t_owner t). apply le1_sd_tasks.
    exists 0. apply le1_of_le. intros; rewrite set_tasks_w; auto.
  - exists 0. apply le1_of_le; auto.
Qed.

Lemma server_from_client_le1 : forall p c m s, le1 (server_from_client p c (Some m) s) s c 1.
Proof. intros. destruct m; simpl; try (apply le1_of_le; apply sys_error_le).
  apply le1_of_le. intros. rewrite srv_submit_w. auto.
  apply srv_request_le1. apply srv_status_le1.
Qed.
Lemma server_from_employee_le1 : forall p c m s, exists j, le1 (server_from_employee p c (Some m) s) s j 1.
Proof. intros. destruct m; simpl; try (exists 0; apply le1_of_le; auto; fail).
  exists 0; apply le1_of_le; apply shutdown_le.
  apply srv_result_le1.
  exists 0; apply le1_of_le; apply sys_error_le.
Qed.
Lemma mgr_from_below_le1 : forall p c m s, le1 (mgr_from_below p c (Some m) s) s p (2 + p).
Proof. intros. destruct m; simpl; try (apply le1_of_le; auto; fail); apply send_up_le1. Qed.

(* EOF at a boss from below: the boss closes that endpoint (and more) *)
Lemma close_pend_le : forall s c i, wlink (set_pend s (upd (pend s) c false)) i <= wlink s i.
Proof. intros. wl. cases. all: done. Qed.
Lemma close_pend_lt : forall s c, pend s c = true -> wlink (set_pend s (upd (pend s) c false)) c + 3 <= wlink s c.
Proof. intros s c H. wl. rewrite H. cases. all: done. Qed.

Lemma boss_eof_lt : forall p c s, pend s c = true ->
  (forall i, wlink (shutdown p (set_pend s (upd (pend s) c false))) i <= wlink s i) /\
  wlink (shutdown p (set_pend s (upd (pend s) c false))) c + 3 <= wlink s c.
Proof. intros. split; intros.
  - eapply Nat.le_trans. apply shutdown_le. apply close_pend_le.
  - eapply Nat.le_trans. 2: apply close_pend_lt; auto. apply Nat.add_le_mono_r. apply shutdown_le.
Qed.

Lemma client_gone_lt : forall p c s, is_child p c = true -> pend s c = true ->
  wlink (client_gone p c s) c + 2 <= wlink s c.
Proof. intros. unfold Crash.client_gone. destruct attached. apply shutdown_child_le; auto.
  wl. rewrite H0. cases. all: done. Qed.

(* ---- topology facts ------------------------------------------------------------------ *)
Lemma wf_from_nth : forall l i, wf_from T i l = true -> forall k, k < length l ->
  wf_node T (k + i) (nth k l (KWorker, 0)) = true.
Proof. induction l as [|x l IH]; simpl; intros i H k Hk. lia.
  apply andb_true_iff in H. destruct H as [H1 H2].
  destruct k; simpl; auto. specialize (IH (S i) H2 k). rewrite Nat.add_succ_r in IH. apply IH. lia.
Qed.
Lemma wf_node_at : wf_topo = true -> forall c, c < N -> wf_node T c (kindof c, par c) = true.
Proof. unfold Crash.wf_topo. intros H c Hc. apply andb_true_iff in H. destruct H as [H _].
  pose proof (wf_from_nth T 0 H Hc) as W. rewrite Nat.add_0_r in W.
  unfold Crash.kindof, Crash.par. destruct (nth c T (KWorker, 0)); auto. Qed.
Lemma wf_par_lt : wf_topo = true -> forall c, 0 < c -> c < N -> par c < c.
Proof. intros H c H0 H1. pose proof (wf_node_at H H1) as W. simpl in W. destruct c. lia.
  apply andb_true_iff in W. destruct W as [W _]. apply Nat.ltb_lt in W. auto. Qed.
Lemma wf_zero : wf_topo = true -> kindof 0 = KServer.
Proof. intros H. assert (0 < N). { unfold Crash.wf_topo in H. apply andb_true_iff in H. destruct H as [_ H]. apply Nat.ltb_lt in H. auto. }
  pose proof (wf_node_at H H0) as W. simpl in W. destruct (kindof 0); auto; discriminate. Qed.
Lemma wf_not_server : wf_topo = true -> forall c, 0 < c -> c < N -> kindof c <> KServer.
Proof. intros H c H0 H1 K. pose proof (wf_node_at H H1) as W. simpl in W. destruct c. lia.
  rewrite K in W. apply andb_true_iff in W. destruct W; discriminate. Qed.
Lemma wf_client_par : wf_topo = true -> forall c, c < N -> kindof c = KClient -> par c = 0 /\ 0 < c.
Proof. intros H c H1 K. pose proof (wf_node_at H H1) as W. simpl in W. rewrite K in W. destruct c. discriminate.
  apply andb_true_iff in W. destruct W as [_ W]. apply Nat.eqb_eq in W. split; auto; lia. Qed.
Lemma wf_boss_kind : wf_topo = true -> forall c, 0 < c -> c < N -> kindof c <> KClient ->
  kindof (par c) = KServer \/ kindof (par c) = KManager.
Proof. intros H c H0 H1 K. pose proof (wf_node_at H H1) as W. simpl in W. destruct c. lia.
  apply andb_true_iff in W. destruct W as [_ W].
  destruct (kindof (S c)) eqn:E; try congruence; try discriminate; destruct (kindof (par (S c))); auto; discriminate. Qed.

(* ---- budgets are untouched by receive handlers ------------------------------------------ *)
Lemma srv_request_b : forall p c u s, budget (srv_request p c u s) = budget s.
Proof. intros. unfold Crash.srv_request, Crash.client_gone. destruct (find_u u (tasks s)); [destruct (_ && _); [destruct (t_res t)|]|];
  destruct attached; reflexivity. Qed.
Lemma srv_status_b : forall p c u s, budget (srv_status p c u s) = budget s.
Proof. intros. unfold Crash.srv_status. destruct (find_u u (tasks s)); [destruct (_ && _)|]; reflexivity. Qed.
Lemma srv_result_b : forall m v s, budget (srv_result m v s) = budget s.
Proof. intros. unfold Crash.srv_result. destruct (find_mb m (tasks s)); [destruct (t_deliv t); [|destruct (t_wait t)]|]; reflexivity. Qed.
Lemma server_from_client_b : forall p c m s, budget (server_from_client p c m s) = budget s.
Proof. intros. destruct m as [m|]; [destruct m|]; simpl; try reflexivity.
  apply srv_request_b. apply srv_status_b. unfold Crash.client_gone; destruct attached; reflexivity. Qed.
Lemma server_from_employee_b : forall p c m s, budget (server_from_employee p c m s) = budget s.
Proof. intros. destruct m as [m|]; [destruct m|]; simpl; try reflexivity. apply srv_result_b. Qed.
Lemma mgr_from_below_b : forall p c m s, budget (mgr_from_below p c m s) = budget s.
Proof. intros. destruct m as [m|]; [destruct m|]; reflexivity. Qed.

(* ---- receiving from below strictly decreases the link weights ----------------------------- *)
Lemma consume_up_w : forall s c x r i, upq s c = x :: r ->
  wlink (set_upq s (upd (upq s) c r)) i + (if Nat.eqb i c then 2 + c else 0) = wlink s i.
Proof. intros. wl. destruct (Nat.eqb i c) eqn:E. apply Nat.eqb_eq in E; subst. rewrite H. simpl length. lia. lia. Qed.
Lemma consume_down_w : forall s c x r i, downq s c = x :: r ->
  wlink (set_downq s (upd (downq s) c r)) i + (if Nat.eqb i c then 1 else 0) = wlink s i.
Proof. intros. wl. destruct (Nat.eqb i c) eqn:E. apply Nat.eqb_eq in E; subst. rewrite H. simpl length. lia. lia. Qed.

Lemma sum_consume : forall (s1 s : state) c d, c < N ->
  (forall i, wlink s1 i + (if Nat.eqb i c then d else 0) = wlink s i) ->
  sumn N (wlink s1) + d <= sumn N (wlink s).
Proof. intros. apply sumn_lt_at with (j := c); auto.
  specialize (H0 c). rewrite Nat.eqb_refl in H0. lia.
  intros. specialize (H0 i). destruct (Nat.eqb i c) eqn:E. apply Nat.eqb_eq in E; lia. lia. Qed.

Lemma sum_le1 : forall s' s j a, le1 s' s j a -> sumn N (wlink s') <= sumn N (wlink s) + a.
Proof. intros. apply sumn_le_except with (j := j). intros. apply H. Qed.

Lemma sum_strict : forall (s' s : state) c d, c < N -> (forall i, wlink s' i <= wlink s i) ->
  wlink s' c + d <= wlink s c -> sumn N (wlink s') + d <= sumn N (wlink s).
Proof. intros. apply sumn_lt_at with (j := c); auto. Qed.

Ltac bud := first [ reflexivity | apply server_from_client_b | apply server_from_employee_b | apply mgr_from_below_b
  | (unfold Crash.client_gone; destruct attached; reflexivity)
  | (rewrite server_from_client_b; reflexivity) | (rewrite server_from_employee_b; reflexivity)
  | (rewrite mgr_from_below_b; reflexivity)
  | (match goal with |- budget (match ?x with _ => _ end) = _ => destruct x end;
     first [reflexivity | apply srv_request_b | apply srv_status_b | apply srv_result_b
           | (rewrite srv_request_b; reflexivity) | (rewrite srv_status_b; reflexivity) | (rewrite srv_result_b; reflexivity)]) ].

Lemma recv_up_variant : wf_topo = true -> forall c s s', recv_up c s = Some s' ->
  sumn N (wlink s') < sumn N (wlink s) /\ budget s' = budget s.
Proof. intros WF c s s'. unfold Crash.recv_up.
  destruct ((0 <? c) && (c <? N) && alive s (par c) && pend s c) eqn:C; [|discriminate].
  apply andb_true_iff in C; destruct C as [C Hp]. apply andb_true_iff in C; destruct C as [C Ha].
  apply andb_true_iff in C; destruct C as [C0 CN]. apply Nat.ltb_lt in C0. apply Nat.ltb_lt in CN.
  assert (Hchild : is_child (par c) c = true).
  { unfold Crash.is_child. rewrite Nat.eqb_refl. apply Nat.ltb_lt in C0. apply Nat.ltb_lt in CN. rewrite C0, CN. reflexivity. }
  destruct (upq s c) as [|x r] eqn:Q.
  - (* EOF *)
    destruct (cend s c); [discriminate|].
    destruct (kindof (par c)) eqn:K; try discriminate; intros E; inversion E; subst s'; clear E.
    + destruct (is_client c); cbv iota.
      * split. 2: bud. simpl.
        assert (sumn N (wlink (client_gone (par c) c s)) + 2 <= sumn N (wlink s)).
        { apply sum_strict with (c := c); auto. apply client_gone_le. apply client_gone_lt; auto. }
        lia.
      * split. 2: bud. simpl.
        destruct (boss_eof_lt (par c) c s Hp) as [A B].
        assert (sumn N (wlink (shutdown (par c) (set_pend s (upd (pend s) c false)))) + 3 <= sumn N (wlink s))
          by (apply sum_strict with (c := c); auto). lia.
    + split. 2: bud. simpl.
      destruct (boss_eof_lt (par c) c s Hp) as [A B].
      assert (sumn N (wlink (shutdown (par c) (set_pend s (upd (pend s) c false)))) + 3 <= sumn N (wlink s))
        by (apply sum_strict with (c := c); auto). lia.
  - (* a message *)
    set (s1 := set_upq s (upd (upq s) c r)).
    assert (S1 : sumn N (wlink s1) + (2 + c) <= sumn N (wlink s)).
    { apply sum_consume with (c := c); auto. intros. apply consume_up_w with (x := x); auto. }
    destruct (kindof (par c)) eqn:K; try discriminate; intros E; inversion E; subst s'; clear E.
    + destruct (is_client c); cbv iota.
      * split. 2: bud.
        apply Nat.le_lt_trans with (sumn N (wlink s1) + 1); [exact (sum_le1 (server_from_client_le1 (par c) c x s1))|lia].
      * split. 2: bud.
        destruct (server_from_employee_le1 (par c) c x s1) as [j L].
        apply Nat.le_lt_trans with (sumn N (wlink s1) + 1); [exact (sum_le1 L)|lia].
    + split. 2: bud.
      pose proof (wf_par_lt WF C0 CN).
      apply Nat.le_lt_trans with (sumn N (wlink s1) + (2 + par c)); [exact (sum_le1 (mgr_from_below_le1 (par c) c x s1))|lia].
Qed.

(* ---- receiving from above ---------------------------------------------------------------- *)
Lemma crecv_eof : forall arr g, crecv arr true g = CRaise.
Proof. induction arr as [|m r IH]; intros; simpl; auto. destruct m; auto. Qed.

Lemma client_raise_le : forall c s i, wlink (client_raise c s) i <= wlink s i.
Proof. intros. wl. cases. all: done. Qed.
Lemma client_raise_lt : forall c s, cend s c = true -> wlink (client_raise c s) c + 2 <= wlink s c.
Proof. intros c s H. wl. rewrite H. cases. all: done. Qed.
Lemma client_return_w : forall c o s i, wlink (client_return c o s) i = wlink s i.
Proof. reflexivity. Qed.

Lemma skip_down_w : forall s c k i, k <= length (downq s c) ->
  wlink (set_downq s (upd (downq s) c (skipn k (downq s c)))) i + (if Nat.eqb i c then k else 0) = wlink s i.
Proof. intros. wl. destruct (Nat.eqb i c) eqn:E. apply Nat.eqb_eq in E; subst. rewrite skipn_length. lia. lia. Qed.
Lemma skip_down_le : forall s c k i,
  wlink (set_downq s (upd (downq s) c (skipn k (downq s c)))) i <= wlink s i.
Proof. intros. wl. destruct (Nat.eqb i c) eqn:E. apply Nat.eqb_eq in E; subst. rewrite skipn_length. lia. lia. Qed.
Lemma skip_down_cend : forall s c k, cend (set_downq s (upd (downq s) c (skipn k (downq s c)))) c = cend s c.
Proof. reflexivity. Qed.

Lemma client_recv_variant : forall c k s s', c < N -> cend s c = true -> client_recv c k s = Some s' ->
  sumn N (wlink s') < sumn N (wlink s) /\ budget s' = budget s.
Proof. intros c k s s' CN Hc. unfold Crash.client_recv.
  destruct (blocked s c) as [r|]; [|discriminate].
  destruct (0 <? k) eqn:K; [|discriminate]. apply Nat.ltb_lt in K.
  unfold arrived. destruct (k <=? length (downq s c)) eqn:L.
  - apply Nat.leb_le in L.
    set (s1 := set_downq s (upd (downq s) c (skipn k (downq s c)))).
    assert (S1 : sumn N (wlink s1) + k <= sumn N (wlink s)).
    { apply sum_consume with (c := c); auto. intros. apply skip_down_w; auto. }
    destruct (crecv (firstn k (downq s c)) false None) as [| |m].
    + intros E; inversion E; subst. split. lia. reflexivity.
    + intros E; inversion E; subst. split. 2: reflexivity.
      assert (sumn N (wlink (client_raise c s1)) <= sumn N (wlink s1)) by (apply sumn_le; intros; apply client_raise_le). lia.
    + destruct (answer r m); intros E; inversion E; subst; (split; [|reflexivity]).
      * assert (sumn N (wlink (client_return c o s1)) <= sumn N (wlink s1)) by (apply sumn_le; intros; rewrite client_return_w; auto). lia.
      * assert (sumn N (wlink (client_raise c s1)) <= sumn N (wlink s1)) by (apply sumn_le; intros; apply client_raise_le). lia.
  - destruct (Nat.eqb k (S (length (downq s c))) && negb (pend s c)); [|discriminate].
    rewrite crecv_eof. intros E; inversion E; subst. split. 2: reflexivity.
    set (s1 := set_downq s (upd (downq s) c (skipn k (downq s c)))).
    assert (sumn N (wlink (client_raise c s1)) + 2 <= sumn N (wlink s)).
    { apply sum_strict with (c := c); auto.
      intros. eapply Nat.le_trans. apply client_raise_le. apply skip_down_le.
      eapply Nat.le_trans. apply client_raise_lt. unfold s1. rewrite skip_down_cend. auto. apply skip_down_le. }
    lia.
Qed.

Lemma close_cend_le : forall s c i, wlink (set_cend s (upd (cend s) c false)) i <= wlink s i.
Proof. intros. wl. cases. all: done. Qed.
Lemma close_cend_lt : forall s c, cend s c = true -> wlink (set_cend s (upd (cend s) c false)) c + 2 <= wlink s c.
Proof. intros s c H. wl. rewrite H. cases. all: done. Qed.

Lemma mgr_from_above_le : forall c m s i, wlink (mgr_from_above c (Some m) s) i <= wlink s i.
Proof. intros. destruct m; simpl; auto. apply shutdown_le. Qed.
Lemma worker_from_above_le : forall c m s i, wlink (worker_from_above c (Some m) s) i <= wlink s i.
Proof. intros. destruct m; simpl; auto. apply die_le. Qed.
Lemma mgr_from_above_b : forall c m s, budget (mgr_from_above c m s) = budget s.
Proof. intros. destruct m as [m|]; [destruct m|]; reflexivity. Qed.
Lemma worker_from_above_b : forall c m s, budget (worker_from_above c m s) = budget s.
Proof. intros. destruct m as [m|]; [destruct m|]; reflexivity. Qed.

Lemma recv_down_variant : forall c k s s', recv_down c k s = Some s' ->
  sumn N (wlink s') < sumn N (wlink s) /\ budget s' = budget s.
Proof. intros c k s s'. unfold Crash.recv_down.
  destruct ((0 <? c) && (c <? N) && alive s c && cend s c) eqn:C; [|discriminate].
  apply andb_true_iff in C; destruct C as [C Hc]. apply andb_true_iff in C; destruct C as [C Ha].
  apply andb_true_iff in C; destruct C as [C0 CN]. apply Nat.ltb_lt in C0. apply Nat.ltb_lt in CN.
  destruct (kindof c) eqn:K.
  - apply client_recv_variant; auto.
  - discriminate.
  - destruct (downq s c) as [|x r] eqn:Q.
    + destruct (pend s c); [discriminate|]. intros E; inversion E; subst. split. 2: reflexivity.
      assert (sumn N (wlink (set_cend s (upd (cend s) c false))) + 2 <= sumn N (wlink s)).
      { apply sum_strict with (c := c); auto. apply close_cend_le. apply close_cend_lt; auto. }
      simpl. lia.
    + set (s1 := set_downq s (upd (downq s) c r)).
      assert (S1 : sumn N (wlink s1) + 1 <= sumn N (wlink s)).
      { apply sum_consume with (c := c); auto. intros. apply consume_down_w with (x := x); auto. }
      intros E; inversion E; subst. split. 2: (destruct x; reflexivity).
      apply Nat.le_lt_trans with (sumn N (wlink s1)); [|lia].
      exact (@sumn_le N _ _ (fun i _ => mgr_from_above_le c x s1 i)).
  - destruct (downq s c) as [|x r] eqn:Q.
    + destruct (pend s c); [discriminate|]. intros E; inversion E; subst. split. 2: reflexivity.
      assert (sumn N (wlink (die c s)) + 2 <= sumn N (wlink s)).
      { apply sum_strict with (c := c); auto. apply die_le. apply die_self_lt; auto. }
      simpl. lia.
    + set (s1 := set_downq s (upd (downq s) c r)).
      assert (S1 : sumn N (wlink s1) + 1 <= sumn N (wlink s)).
      { apply sum_consume with (c := c); auto. intros. apply consume_down_w with (x := x); auto. }
      intros E; inversion E; subst. split. 2: (destruct x; reflexivity).
      apply Nat.le_lt_trans with (sumn N (wlink s1)); [|lia].
      exact (@sumn_le N _ _ (fun i _ => worker_from_above_le c x s1 i)).
Qed.

(* ---- every event ------------------------------------------------------------------------- *)
Lemma variant_unfold : forall s, variant s = sumn N (wlink s) + (2 + N) * budget s.
Proof. reflexivity. Qed.

Lemma call_variant : forall c r k s s', call c r k s = Some s' -> variant s' <= variant s.
Proof. intros c r k s s'. unfold Crash.call.
  destruct (_ && _ && _ && _ && _ && _) eqn:C; [|discriminate].
  repeat (apply andb_true_iff in C; destruct C as [C ?]).
  apply Nat.ltb_lt in H3. 
  destruct (cend s c) eqn:Hc.
  - destruct (budget s) as [|b] eqn:B; [discriminate|].
    destruct (arrived (downq s c) (pend s c) k) as [[arr eof]|]; [|discriminate].
    set (s1 := set_downq s (upd (downq s) c (skipn k (downq s c)))).
    assert (S1 : sumn N (wlink s1) <= sumn N (wlink s)) by (apply sumn_le; intros; apply skip_down_le).
    destruct (cdrain arr && negb eof).
    + assert (S2 : sumn N (wlink (send_up s1 c (req_msg r))) <= sumn N (wlink s1) + (2 + c)) by (apply (sum_le1 (send_up_le1 s1 c (req_msg r)))).
      destruct r as [u|u|u]; intros E; inversion E; subst s'; clear E; rewrite !variant_unfold, B; simpl req_msg in *.
      * replace (sumn N _) with (sumn N (wlink (send_up s1 c (CSubmit u)))) by reflexivity. cbn [budget set_client set_budget client_return]. nia.
      * replace (sumn N _) with (sumn N (wlink (send_up s1 c (CRequest u)))) by reflexivity. cbn [budget set_client set_budget]. nia.
      * replace (sumn N _) with (sumn N (wlink (send_up s1 c (CStatus u)))) by reflexivity. cbn [budget set_client set_budget]. nia.
    + intros E; inversion E; subst s'; clear E. rewrite !variant_unfold.
      assert (sumn N (wlink (client_raise c s1)) <= sumn N (wlink s1)) by (apply sumn_le; intros; apply client_raise_le).
      replace (budget (client_raise c s1)) with (budget s) by reflexivity. lia.
  - intros E; inversion E; subst s'; clear E. rewrite !variant_unfold.
    assert (sumn N (wlink (client_raise c s)) <= sumn N (wlink s)) by (apply sumn_le; intros; apply client_raise_le).
    replace (budget (client_raise c s)) with (budget s) by reflexivity. lia.
Qed.

Lemma step_variant : wf_topo = true -> forall s e s', step s e = Some s' ->
  variant s' <= variant s /\ (is_recv e = true -> variant s' < variant s).
Proof. intros WF s e s' H. destruct e as [n|up c k|c r k|w t|up c tag]; simpl in H.
  - destruct (_ && _); [|discriminate]. inversion H; subst. split; [|discriminate].
    rewrite !variant_unfold. assert (sumn N (wlink (die n s)) <= sumn N (wlink s)) by (apply sumn_le; intros; apply die_le).
    replace (budget (die n s)) with (budget s) by reflexivity. lia.
  - assert (sumn N (wlink s') < sumn N (wlink s) /\ budget s' = budget s).
    { destruct up. apply recv_up_variant with (c := c); auto. apply recv_down_variant with (c := c) (k := k); auto. }
    destruct H0. rewrite !variant_unfold. rewrite H1. split; intros; lia.
  - split; [|discriminate]. eapply call_variant; eauto.
  - split; [|discriminate]. destruct (budget s) as [|b] eqn:B; [discriminate|].
    destruct (_ && _ && _ && _) eqn:C; [|discriminate].
    repeat (apply andb_true_iff in C; destruct C as [C ?]). apply Nat.ltb_lt in C.
    inversion H; subst s'; clear H. rewrite !variant_unfold, B.
    pose proof (sum_le1 (send_up_le1 s w (MResult t (out t)))).
    match goal with |- sumn N ?f + _ <= _ => replace (sumn N f) with (sumn N (wlink (send_up s w (MResult t (out t))))) by reflexivity end.
    cbn [budget]. nia.
  - split; [|discriminate]. destruct (budget s) as [|b] eqn:B; [destruct up; discriminate|].
    destruct up.
    + destruct (_ && _ && _ && _ && _) eqn:C; [|discriminate].
      repeat (apply andb_true_iff in C; destruct C as [C ?]). apply Nat.ltb_lt in H3.
      inversion H; subst s'; clear H. rewrite !variant_unfold, B.
      pose proof (sum_le1 (send_up_le1 s c (MOrd tag))).
      match goal with |- sumn N ?f + _ <= _ => replace (sumn N f) with (sumn N (wlink (send_up s c (MOrd tag)))) by reflexivity end.
      cbn [budget set_budget]. nia.
    + destruct (_ && _ && _ && _) eqn:C; [|discriminate].
      inversion H; subst s'; clear H. rewrite !variant_unfold, B.
      pose proof (sum_le1 (send_down_le1 s c (MOrd tag))).
      match goal with |- sumn N ?f + _ <= _ => replace (sumn N f) with (sumn N (wlink (send_down s c (MOrd tag)))) by reflexivity end.
      cbn [budget set_budget]. nia.
Qed.

Definition count_recv (es : list event) : nat := length (filter is_recv es).

Lemma run_variant : wf_topo = true -> forall es s s', run s es = Some s' ->
  count_recv es + variant s' <= variant s.
Proof. intros WF. induction es as [|e es IH]; simpl; intros s s' H.
  - inversion H; subst. unfold count_recv. simpl. lia.
  - destruct (step s e) as [s1|] eqn:E; [|discriminate].
    apply IH in H. destruct (step_variant WF _ _ E) as [A B].
    unfold count_recv in *. simpl. destruct (is_recv e); simpl; [specialize (B eq_refl)|]; lia.
Qed.
End Thm.
