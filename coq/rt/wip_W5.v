From Coq Require Import List Arith Bool PeanoNat Lia Permutation.
Import ListNotations.
From BQ Require Import rt.WorkerM rt.wip_W1 rt.wip_W2 rt.wip_W3 rt.wip_W4.

(* ---------- scheduling keeps every task exactly once ---------- *)
Definition pick1 {A} (ts : list A) (i : nat) : list A := match nth_error ts i with Some t => [t] | None => [] end.
Lemma pick_flat_map : forall A (ts : list A) idx, pick ts idx = flat_map (pick1 ts) idx.
Proof. induction idx as [|i r IH]; simpl; auto. unfold pick1 at 1. destruct (nth_error ts i); simpl; rewrite IH; auto. Qed.
Lemma pick_app : forall A (ts : list A) l1 l2, pick ts (l1 ++ l2) = pick ts l1 ++ pick ts l2.
Proof. intros. rewrite !pick_flat_map. apply flat_map_app. Qed.
Lemma pick_seq : forall A (ts : list A) pre, pick (pre ++ ts) (seq (length pre) (length ts)) = ts.
Proof. induction ts as [|t r IH]; simpl; intros; auto.
  rewrite nth_error_app2 by lia. rewrite Nat.sub_diag. simpl. f_equal.
  specialize (IH (pre ++ [t])). rewrite <- app_assoc in IH. simpl in IH.
  rewrite app_length in IH. simpl in IH. rewrite Nat.add_1_r in IH. exact IH. Qed.
Lemma nodupb_NoDup : forall l, nodupb l = true -> NoDup l.
Proof. induction l as [|x r IH]; simpl; intros; constructor.
  - apply andb_true_iff in H. destruct H as [H _]. intro Hin. apply negb_true_iff in H.
    assert (existsb (Nat.eqb x) r = true) by (apply existsb_exists; exists x; split; auto; apply Nat.eqb_refl). congruence.
  - apply IH. apply andb_true_iff in H. tauto. Qed.
Lemma pick_perm : forall A (ts : list A) idx, NoDup idx -> (forall i, In i idx -> i < length ts) ->
  length idx = length ts -> Permutation (pick ts idx) ts.
Proof. intros A ts idx Hnd Hlt Hlen.
  assert (P : Permutation idx (seq 0 (length ts))).
  { apply NoDup_Permutation_bis; auto.
    - rewrite seq_length. lia.
    - intros i Hi. apply in_seq. specialize (Hlt i Hi). lia. }
  rewrite pick_flat_map. rewrite (Permutation_flat_map (pick1 ts) P). rewrite <- pick_flat_map.
  pose proof (pick_seq A ts []) as E. simpl in E. rewrite E. apply Permutation_refl. Qed.

Lemma tcnt_perm : forall a l1 l2, Permutation l1 l2 -> tcnt a l1 = tcnt a l2.
Proof. intros. unfold tcnt. apply cnt_perm. apply Permutation_map. auto. Qed.

Definition dcnt (a : addr) (d : list (list msg)) : nat := sumf (fun q => tcnt a (chan_tasks q)) d.

Lemma upd_length : forall A i (f : A -> A) l, length (upd i f l) = length l.
Proof. intros. unfold upd. destruct (nth_error l i); auto. apply set_nth_length. Qed.
Lemma push_down_length : forall i m d, length (push_down i m d) = length d.
Proof. intros. apply upd_length. Qed.
Lemma dcnt_push_down : forall a i m d, i < length d ->
  dcnt a (push_down i m d) = dcnt a d + tcnt a (msg_tasks m).
Proof. intros. unfold push_down, upd, dcnt. destruct (nth_error d i) as [q|] eqn:E.
  - pose proof (sumf_set_nth _ (fun q => tcnt a (chan_tasks q)) i q (q ++ [m]) d E) as Hs.
    cbn beta in Hs. rewrite chan_tasks_app, tcnt_app in Hs. simpl in Hs. rewrite app_nil_r in Hs. lia.
  - apply nth_error_None in E. lia. Qed.

Lemma schedule_length : forall ts asg d, length (schedule ts asg d) = length d.
Proof. intros ts asg. unfold schedule. induction asg as [|p r IH]; simpl; intros; auto.
  rewrite IH. apply push_down_length. Qed.
Lemma dcnt_schedule_gen : forall a ts asg d, (forall p, In p asg -> fst p < length d) ->
  dcnt a (schedule ts asg d) = dcnt a d + tcnt a (pick ts (concat (map snd asg))).
Proof. intros a ts asg. unfold schedule. induction asg as [|p r IH]; simpl; intros d Hlt.
  - rewrite tcnt_nil. lia.
  - rewrite IH.
    + rewrite dcnt_push_down by (apply Hlt; auto). simpl. rewrite pick_app, tcnt_app. lia.
    + intros p' Hp'. rewrite push_down_length. apply Hlt. auto. Qed.
Lemma dcnt_schedule : forall a k ts asg d, valid_asg k (length ts) asg = true -> length d = k ->
  dcnt a (schedule ts asg d) = dcnt a d + tcnt a ts.
Proof. intros a k ts asg d Hv Hk. unfold valid_asg in Hv. rewrite !andb_true_iff in Hv.
  destruct Hv as [[[[H1 H2] H3] H4] H5].
  rewrite dcnt_schedule_gen.
  - f_equal. apply tcnt_perm. apply pick_perm.
    + apply nodupb_NoDup. auto.
    + intros i Hi. rewrite forallb_forall in H5. apply H5 in Hi. apply Nat.ltb_lt in Hi. auto.
    + apply Nat.eqb_eq. auto.
  - intros p Hp. rewrite forallb_forall in H1. apply H1 in Hp. apply andb_true_iff in Hp. destruct Hp as [Hp _].
    apply Nat.ltb_lt in Hp. lia. Qed.

(* ---------- Part A: conservation of tasks ---------- *)
Definition root_addr (p : nat * val) : addr := mkAddr DClient (fst p) 0.
Definition n_task (a : addr) (s : sys) : nat := dcnt a (s_down s) + sumf (fun w => tcnt a (w_held w)) (s_workers s).
Definition n_fin (a : addr) (s : sys) : nat := sumf (fun w => cnt a (map fst (w_finished w))) (s_workers s).
Definition n_created (a : addr) (s : sys) : nat :=
  cnt a (map root_addr (s_roots s)) + sumf (fun w => cnt a (w_created w)) (s_workers s).
Definition n_started (a : addr) (s : sys) : nat := sumf (fun w => cnt a (w_started w)) (s_workers s).
Definition n_running (a : addr) (s : sys) : nat := sumf (fun w => tcnt a (w_tasks w)) (s_workers s).

Record invA (s : sys) : Prop := {
  A_len : length (s_down s) = length (s_workers s);
  A_ids : forall j w, nth_error (s_workers s) j = Some w -> w_id w = j;
  A_created : forall w a, In w (s_workers s) -> In a (w_created w) -> a_w a = DWorker (w_id w) /\ a_box a < w_counter w;
  A_roots : forall p, In p (s_roots s) -> fst p < s_nbox s;
  A_cons : forall a, n_task a s + n_fin a s = n_created a s;
  A_uniq : forall a, n_created a s <= 1;
  A_start : forall a, n_started a s = n_running a s + n_fin a s
}.

Lemma nth_error_map_seq : forall A (f : nat -> A) k j x, nth_error (map f (seq 0 k)) j = Some x -> x = f j /\ j < k.
Proof. intros. rewrite nth_error_map in H. destruct (nth_error (seq 0 k) j) eqn:E; simpl in H; [|discriminate].
  injection H as <-. assert (j < k). { assert (j < length (seq 0 k)) by (apply nth_error_Some; congruence). rewrite seq_length in H. auto. }
  rewrite nth_error_nth' with (d := 0) in E by (rewrite seq_length; auto). injection E as <-. rewrite seq_nth by auto. auto. Qed.

Lemma invA_init : forall k, invA (sys0 k).
Proof. intro k. constructor; simpl.
  - rewrite repeat_length, map_length, seq_length. reflexivity.
  - intros j w H. apply nth_error_map_seq in H. destruct H as [-> _]. reflexivity.
  - intros w a Hw Ha. apply in_map_iff in Hw. destruct Hw as (j & <- & _). simpl in Ha. tauto.
  - tauto.
  - intro a. unfold n_task, n_fin, n_created, dcnt. simpl.
    rewrite !sumf_zero; auto.
    + intros w Hw. apply in_map_iff in Hw. destruct Hw as (j & <- & _). reflexivity.
    + intros w Hw. apply in_map_iff in Hw. destruct Hw as (j & <- & _). reflexivity.
    + intros w Hw. apply in_map_iff in Hw. destruct Hw as (j & <- & _). reflexivity.
    + intros q Hq. apply repeat_spec in Hq. subst. reflexivity.
  - intro a. unfold n_created. simpl. rewrite sumf_zero; [unfold cnt; simpl; lia|].
    intros w Hw. apply in_map_iff in Hw. destruct Hw as (j & <- & _). reflexivity.
  - intro a. unfold n_started, n_running, n_fin. rewrite !sumf_zero; auto.
    + intros w Hw. apply in_map_iff in Hw. destruct Hw as (j & <- & _). reflexivity.
    + intros w Hw. apply in_map_iff in Hw. destruct Hw as (j & <- & _). reflexivity.
    + intros w Hw. apply in_map_iff in Hw. destruct Hw as (j & <- & _). reflexivity.
Qed.

(* replacing worker i *)
Lemma In_nth_error_ex : forall A (l : list A) x, In x l -> exists j, nth_error l j = Some x.
Proof. intros. apply In_nth_error. auto. Qed.

Lemma created_fresh : forall s w i a, invA s -> nth_error (s_workers s) i = Some w ->
  a_w a = DWorker i -> w_counter w <= a_box a -> n_created a s = 0.
Proof.
  intros s w i a I Hw Ha Hb. unfold n_created.
  assert (cnt a (map root_addr (s_roots s)) = 0).
  { apply cnt_zero_notin. intro Hin. apply in_map_iff in Hin. destruct Hin as (p & <- & _). simpl in Ha. discriminate. }
  rewrite H, sumf_zero; auto.
  intros w' Hw'. apply cnt_zero_notin. intro Hin.
  destruct (A_created s I w' a Hw' Hin) as [E1 E2].
  apply In_nth_error in Hw'. destruct Hw' as [j Hj].
  pose proof (A_ids s I j w' Hj) as Ej. rewrite E1 in Ha. injection Ha as Ha. rewrite Ej in Ha. subst j.
  rewrite Hw in Hj. injection Hj as <-. lia.
Qed.

Lemma tcnt_pos_in : forall a l, tcnt a l >= 1 -> exists t, In t l /\ t_addr t = a.
Proof. intros. unfold tcnt in H. apply cnt_pos_in in H. apply in_map_iff in H. destruct H as (t & E & Hin). eauto. Qed.

Lemma invA_worker_step : forall s i w w' inc d',
  invA s -> nth_error (s_workers s) i = Some w -> stepA w w' inc ->
  length d' = length (s_down s) -> (forall a, dcnt a d' + tcnt a inc = dcnt a (s_down s)) ->
  invA (mkSys (set_nth i w' (s_workers s)) d' (s_client s) (s_errors s) (s_nbox s) (s_fatal s) (s_roots s)).
Proof.
  intros s i w w' inc d' I Hw (Sid & Sctr & news & fin & Sheld & Screated & Sfin & Sstart & Snews & Snews1) Hlen Hd.
  assert (Hi : i < length (s_workers s)) by (apply nth_error_Some; congruence).
  assert (Hwid : w_id w = i) by (eapply A_ids; eauto).
  constructor; simpl.
  - rewrite set_nth_length, Hlen. apply (A_len s I).
  - intros j w0 Hj. apply nth_error_set_nth in Hj. destruct Hj as [(<- & -> & _)|(Hne & Hj)].
    + congruence.
    + eapply A_ids; eauto.
  - intros w0 a Hin Ha. apply In_set_nth in Hin. destruct Hin as [->|Hin].
    + rewrite Screated in Ha. apply in_app_or in Ha. destruct Ha as [Ha|Ha].
      * destruct (A_created s I w a (nth_error_In _ _ Hw) Ha). split; [congruence|lia].
      * apply in_map_iff in Ha. destruct Ha as (t & <- & Ht). destruct (Snews t Ht) as [E1 E2].
        unfold me in E1. split; [congruence|lia].
    + eapply A_created; eauto.
  - apply (A_roots s I).
  - intro a. pose proof (A_cons s I a) as C. unfold n_task, n_fin, n_created in *. simpl.
    pose proof (sumf_set_nth _ (fun w => tcnt a (w_held w)) i w w' _ Hw) as E1.
    pose proof (sumf_set_nth _ (fun w => cnt a (map fst (w_finished w))) i w w' _ Hw) as E2.
    pose proof (sumf_set_nth _ (fun w => cnt a (w_created w)) i w w' _ Hw) as E3.
    cbn beta in *. rewrite Sfin, map_app, cnt_app in E2. rewrite Screated, cnt_app in E3.
    specialize (Sheld a). specialize (Hd a). unfold tcnt in *. lia.
  - intro a. pose proof (A_uniq s I a) as U. unfold n_created in *. simpl.
    pose proof (sumf_set_nth _ (fun w => cnt a (w_created w)) i w w' _ Hw) as E3.
    cbn beta in *. rewrite Screated, cnt_app in E3.
    destruct (cnt a (map t_addr news)) eqn:En; [lia|].
    assert (Hpos : tcnt a news >= 1) by (unfold tcnt; lia).
    apply tcnt_pos_in in Hpos. destruct Hpos as (t & Ht & <-). destruct (Snews t Ht) as [E1 E2].
    assert (F : n_created (t_addr t) s = 0).
    { eapply created_fresh; eauto. unfold me in E1. congruence. lia. }
    unfold n_created in F. specialize (Snews1 (t_addr t)). unfold tcnt in Snews1. lia.
  - intro a. pose proof (A_start s I a) as C. unfold n_started, n_running, n_fin in *. simpl.
    pose proof (sumf_set_nth _ (fun w => cnt a (w_started w)) i w w' _ Hw) as E1.
    pose proof (sumf_set_nth _ (fun w => cnt a (map fst (w_finished w))) i w w' _ Hw) as E2.
    pose proof (sumf_set_nth _ (fun w => tcnt a (w_tasks w)) i w w' _ Hw) as E3.
    cbn beta in *. rewrite Sfin, map_app, cnt_app in E2. specialize (Sstart a). lia.
Qed.

Lemma dcnt_set_nth_pop : forall a d i m q, nth_error d i = Some (m :: q) ->
  dcnt a (set_nth i q d) + tcnt a (msg_tasks m) = dcnt a d.
Proof. intros. unfold dcnt. pose proof (sumf_set_nth _ (fun q => tcnt a (chan_tasks q)) i (m :: q) q d H) as E.
  cbn beta in E. rewrite chan_tasks_cons, tcnt_app in E. lia. Qed.

Lemma held_le_total : forall s a i w, nth_error (s_workers s) i = Some w ->
  tcnt a (w_held w) <= sumf (fun w => tcnt a (w_held w)) (s_workers s).
Proof. intros. apply (sumf_ge _ (fun w => tcnt a (w_held w))). eapply nth_error_In; eauto. Qed.

Lemma dcnt_map_cancel : forall a c d, dcnt a (map (fun q => q ++ [MCancel c]) d) = dcnt a d.
Proof. intros. unfold dcnt. rewrite sumf_map. apply sumf_ext. intros q _. rewrite chan_tasks_app. simpl. rewrite app_nil_r. reflexivity. Qed.

Lemma tasks_le_held : forall a w, tcnt a (w_tasks w) + tcnt a (w_delayed w) <= tcnt a (w_held w).
Proof. intros. unfold w_held. rewrite !tcnt_app. lia. Qed.

Lemma step_invA : forall atomic s e s', invA s -> step atomic s e = Some s' -> invA s'.
Proof.
  intros atomic s e s' I H. destruct e as [sc target|i|i|i asg]; simpl in H.
  - (* client *)
    destruct (Nat.ltb target (length (s_workers s))) eqn:Et; [|discriminate]. injection H as <-. b2p.
    assert (Hlt : target < length (s_down s)) by (rewrite (A_len s I); auto).
    set (ra := mkAddr DClient (s_nbox s) 0).
    assert (Hfresh : cnt ra (map root_addr (s_roots s)) = 0).
    { apply cnt_zero_notin. intro Hin. apply in_map_iff in Hin. destruct Hin as (p & E & Hp).
      apply (A_roots s I) in Hp. unfold root_addr, ra in E. injection E as E. lia. }
    assert (Hnc : forall a, sumf (fun w => cnt a (w_created w)) (s_workers s) >= 1 -> a <> ra).
    { intros a Hge Heq. subst a. rewrite sumf_zero in Hge; [lia|]. intros w Hw. apply cnt_zero_notin. intro Hin.
      destruct (A_created s I w ra Hw Hin) as [E _]. discriminate. }
    constructor; simpl.
    + rewrite push_down_length. apply (A_len s I).
    + apply (A_ids s I).
    + apply (A_created s I).
    + intros p Hp. apply in_app_or in Hp. destruct Hp as [Hp|[<-|[]]]; simpl; [apply (A_roots s I) in Hp|]; lia.
    + intro a. pose proof (A_cons s I a) as C. unfold n_task, n_fin, n_created in *. simpl.
      rewrite dcnt_push_down by auto. rewrite map_app, cnt_app. simpl.
      change (root_addr (s_nbox s, ret_of sc)) with ra. unfold tcnt in *. simpl. fold ra. lia.
    + intro a. pose proof (A_uniq s I a) as U. unfold n_created in *. simpl.
      rewrite map_app, cnt_app. simpl. change (root_addr (s_nbox s, ret_of sc)) with ra. rewrite cnt_single.
      destruct (addr_eqb a ra) eqn:E; [|lia]. apply addr_eqb_eq in E. subst a.
      destruct (sumf (fun w => cnt ra (w_created w)) (s_workers s)) eqn:E2; [lia|].
      exfalso. apply (Hnc ra); auto. lia.
    + apply (A_start s I).
  - (* recv *)
    destruct (nth_error (s_workers s) i) as [w|] eqn:Ew; [|discriminate].
    destruct (nth_error (s_down s) i) as [[|m q]|] eqn:Ed; try discriminate.
    destruct (w_rdead w) eqn:Erd; [discriminate|]. injection H as <-.
    apply (invA_worker_step s i w (recv_step w m) (msg_tasks m) (set_nth i q (s_down s))); auto.
    + apply recv_step_A; auto. intros t Ht.
      pose proof (A_cons s I (t_addr t)) as C. pose proof (A_uniq s I (t_addr t)) as U.
      unfold n_task in C.
      assert (G1 : tcnt (t_addr t) (chan_tasks (m :: q)) <= dcnt (t_addr t) (s_down s)).
      { apply (sumf_ge _ (fun q => tcnt (t_addr t) (chan_tasks q))). eapply nth_error_In; eauto. }
      assert (G2 : tcnt (t_addr t) (chan_tasks (m :: q)) >= 1).
      { rewrite chan_tasks_cons, tcnt_app. assert (tcnt (t_addr t) (msg_tasks m) >= 1); [|lia].
        unfold tcnt. apply cnt_pos_in. apply in_map. auto. }
      pose proof (held_le_total s (t_addr t) i w Ew) as G3. pose proof (tasks_le_held (t_addr t) w) as G4. lia.
    + apply set_nth_length.
    + intro a. apply dcnt_set_nth_pop. auto.
  - (* main *)
    destruct (nth_error (s_workers s) i) as [w|] eqn:Ew; [|discriminate].
    destruct (main_step atomic w) as [w'|] eqn:Em; [|discriminate]. injection H as <-.
    apply (invA_worker_step s i w w' [] (s_down s)); auto.
    eapply main_step_A; eauto. intros t Ht.
      pose proof (A_cons s I (t_addr t)) as C. pose proof (A_uniq s I (t_addr t)) as U. unfold n_task in C.
      pose proof (held_le_total s (t_addr t) i w Ew) as G3. pose proof (tasks_le_held (t_addr t) w) as G4.
      assert (tcnt (t_addr t) (w_delayed w) >= 1) by (unfold tcnt; apply cnt_pos_in; apply in_map; auto). lia.
  - (* server *)
    destruct (nth_error (s_workers s) i) as [w|] eqn:Ew; [|discriminate].
    destruct (w_out w) as [|m q] eqn:Eo; [discriminate|].
    set (w' := set_out w q) in *.
    assert (Hheld : forall a, tcnt a (w_held w') + tcnt a (msg_tasks m) = tcnt a (w_held w)).
    { intro a. unfold w_held, w'. simpl. rewrite Eo, chan_tasks_cons, !tcnt_app. lia. }
    assert (Hi : i < length (s_workers s)) by (apply nth_error_Some; congruence).
    (* every outcome: workers := set_nth i w', down := d' with dcnt d' = dcnt d + tcnt (msg_tasks m) *)
    assert (G : forall d' cl er ft, length d' = length (s_down s) ->
              (forall a, dcnt a d' = dcnt a (s_down s) + tcnt a (msg_tasks m)) ->
              invA (mkSys (set_nth i w' (s_workers s)) d' cl er (s_nbox s) ft (s_roots s))).
    { intros d' cl er ft Hl Hd. constructor; simpl.
      - rewrite set_nth_length, Hl. apply (A_len s I).
      - intros j w0 Hj. apply nth_error_set_nth in Hj. destruct Hj as [(<- & -> & _)|(Hne & Hj)].
        + simpl. eapply A_ids; eauto.
        + eapply A_ids; eauto.
      - intros w0 a Hin Ha. apply In_set_nth in Hin. destruct Hin as [->|Hin].
        + simpl in *. eapply (A_created s I w); eauto. eapply nth_error_In; eauto.
        + eapply A_created; eauto.
      - apply (A_roots s I).
      - intro a. pose proof (A_cons s I a) as C. unfold n_task, n_fin, n_created in *. simpl.
        pose proof (sumf_set_nth _ (fun w => tcnt a (w_held w)) i w w' _ Ew) as E1.
        pose proof (sumf_set_nth _ (fun w => cnt a (map fst (w_finished w))) i w w' _ Ew) as E2.
        pose proof (sumf_set_nth _ (fun w => cnt a (w_created w)) i w w' _ Ew) as E3.
        cbn beta in *. simpl in E2, E3. specialize (Hheld a). rewrite Hd. lia.
      - intro a. pose proof (A_uniq s I a) as U. unfold n_created in *. simpl.
        pose proof (sumf_set_nth _ (fun w => cnt a (w_created w)) i w w' _ Ew) as E3. simpl in E3. lia.
      - intro a. pose proof (A_start s I a) as C. unfold n_started, n_running, n_fin in *. simpl.
        pose proof (sumf_set_nth _ (fun w => cnt a (w_started w)) i w w' _ Ew) as E1.
        pose proof (sumf_set_nth _ (fun w => cnt a (map fst (w_finished w))) i w w' _ Ew) as E2.
        pose proof (sumf_set_nth _ (fun w => tcnt a (w_tasks w)) i w w' _ Ew) as E3.
        simpl in E1, E2, E3. lia. }
    unfold server_msg in H. cbn [s_workers set_workers s_down s_client s_errors s_nbox s_fatal s_roots] in H.
    rewrite set_nth_length in H.
    destruct m as [t|ts|a v c|r| |c| |a].
    + destruct (valid_asg (length (s_workers s)) 1 asg) eqn:Ev; [|discriminate]. injection H as <-.
      apply G; [apply schedule_length|]. intro a. apply (dcnt_schedule a (length (s_workers s)) [t]); auto. apply (A_len s I).
    + destruct (valid_asg (length (s_workers s)) (length ts) asg) eqn:Ev; [|discriminate]. injection H as <-.
      apply G; [apply schedule_length|]. intro a. apply (dcnt_schedule a (length (s_workers s)) ts); auto. apply (A_len s I).
    + destruct (a_w a) as [|j].
      * injection H as <-. apply G; auto; intro a0; simpl; rewrite ?tcnt_nil; lia.
      * destruct (Nat.ltb j (length (s_workers s))) eqn:Ej; injection H as <-.
        -- b2p. apply G; [apply push_down_length|]. intro a0. rewrite dcnt_push_down by (rewrite (A_len s I); auto). reflexivity.
        -- apply G; auto; intro a0; simpl; rewrite ?tcnt_nil; lia.
    + injection H as <-. apply G; auto; intro a0; simpl; rewrite ?tcnt_nil; lia.
    + injection H as <-. apply G; auto; intro a0; simpl; rewrite ?tcnt_nil; lia.
    + injection H as <-. apply G; auto; intro a0; simpl; rewrite ?tcnt_nil; lia.
    + injection H as <-. apply G; auto; intro a0; simpl; rewrite ?tcnt_nil; lia.
    + injection H as <-. apply G; [apply map_length|]. intro a0. simpl. rewrite dcnt_map_cancel, tcnt_nil. lia.
Qed.
