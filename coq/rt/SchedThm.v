(* C15 - the flat system (rt/Sched.v): invariant over all event lists, and the theorems
   no handler ever raises / counters in bounds / every task forwarded exactly once /
   bookkeeping exact at quiescence (cancel-free) / D9 witness with cancellation. *)
From Coq Require Import ZArith List Bool Arith Lia ZifyBool Permutation.
From BQ Require Import rt.SchedPre gen.SchedArith rt.SchedArithThm rt.Sched rt.SchedAssign rt.SchedLocal.
Import ListNotations.
Open Scope Z_scope.
Local Arguments Z.add : simpl never.
Local Arguments Z.sub : simpl never.
Local Arguments Z.mul : simpl never.
Local Arguments Z.of_nat : simpl never.
Local Arguments Z.eqb : simpl never.
Local Arguments zlen : simpl never.
Local Arguments get_num_of_tasks_sent_since : simpl never.
Local Arguments handle_waiting : simpl never.
Local Arguments schedule_tasks : simpl never.
Local Arguments server_handle_result_count : simpl never.
Local Arguments server_handle_update : simpl never.
Local Arguments is_my_worker : simpl never.
Local Arguments emp_index : simpl never.
Local Arguments get_employee_responsible_for : simpl never.

(* ---------- list facts ---------- *)

Lemma nth_error_lt {A} (l : list A) i x : nth_error l i = Some x -> (i < length l)%nat.
Proof. intros H. apply nth_error_Some. congruence. Qed.

Lemma nth_error_ex {A} (l : list A) i : (i < length l)%nat -> exists x, nth_error l i = Some x.
Proof. intros H. destruct (nth_error l i) eqn:E; [eauto|]. apply nth_error_None in E. lia. Qed.

Lemma nth_error_repeat {A} (x : A) n i y : nth_error (repeat x n) i = Some y -> y = x.
Proof. intros H. apply nth_error_In in H. apply repeat_spec in H. exact H. Qed.

Lemma sum_upd {A} (f : A -> Z) (g : A -> A) : forall l i x, nth_error l i = Some x ->
  sumZ (map f (upd i g l)) = sumZ (map f l) + f (g x) - f x.
Proof.
  induction l as [|y l IH]; intros [|i] x H; simpl in H; try discriminate.
  - inversion H; subst. simpl. lia.
  - simpl. rewrite (IH i x H). lia.
Qed.

Lemma sum_bounds {A} (f : A -> Z) (l : list A) : (forall x, In x l -> 0 <= f x <= 1) -> 0 <= sumZ (map f l) <= zlen l.
Proof.
  induction l as [|y l IH]; intros H; simpl; [unfold zlen; simpl; lia|]. rewrite zlen_cons.
  pose proof (H y (or_introl eq_refl)). assert (0 <= sumZ (map f l) <= zlen l) by (apply IH; intros; apply H; right; assumption). lia.
Qed.

Lemma in_upd {A} (g : A -> A) : forall l i y, In y (upd i g l) -> In y l \/ exists x, nth_error l i = Some x /\ y = g x.
Proof.
  induction l as [|z l IH]; intros [|i] y H; simpl in H; try contradiction.
  - destruct H as [<-|H]; [right; exists z; auto|left; right; exact H].
  - destruct H as [<-|H]; [left; left; reflexivity|]. destruct (IH i y H) as [H1|H1]; [left; right; exact H1|right; exact H1].
Qed.

(* the elements of every list other than the i-th, concatenated *)
Lemma concat_upd_perm {A B} (f : A -> list B) : forall l i x, nth_error l i = Some x ->
  exists R, Permutation (concat (map f l)) (f x ++ R) /\ forall g, Permutation (concat (map f (upd i g l))) (f (g x) ++ R).
Proof.
  induction l as [|y l IH]; intros [|i] x H; simpl in H; try discriminate.
  - inversion H; subst. exists (concat (map f l)). split; [reflexivity|]. intros g. reflexivity.
  - destruct (IH i x H) as (R & H1 & H2). exists (f y ++ R). split.
    + simpl. rewrite H1. rewrite !app_assoc. apply Permutation_app_tail. apply Permutation_app_comm.
    + intros g. simpl. rewrite (H2 g). rewrite !app_assoc. apply Permutation_app_tail. apply Permutation_app_comm.
Qed.

Lemma push_nth {A} (x : A) : forall chs i j q, nth_error chs j = Some q ->
  nth_error (push i x chs) j = Some (if Nat.eqb i j then q ++ [x] else q).
Proof.
  intros chs i j q H. unfold push. destruct (Nat.eqb i j) eqn:E.
  - apply Nat.eqb_eq in E. subst. rewrite (nth_error_upd_eq j (fun q0 => q0 ++ [x]) chs q H). reflexivity.
  - apply Nat.eqb_neq in E. rewrite nth_error_upd_neq by exact E. exact H.
Qed.

Lemma push_length {A} (x : A) chs i : length (push i x chs) = length chs.
Proof. apply upd_length. Qed.

Lemma push_batches_length : forall sends d, length (push_batches sends d) = length d.
Proof. induction sends as [|s sends IH]; intros d; simpl; [reflexivity|]. unfold push_batches in *. simpl. rewrite IH. apply push_length. Qed.

Lemma push_batches_nth : forall sends d j q, nth_error d j = Some q ->
  nth_error (push_batches sends d) j =
  Some (q ++ map (fun s => DBatch (snd s)) (filter (fun s => Nat.eqb (fst s) j) sends)).
Proof.
  induction sends as [|s sends IH]; intros d j q H; simpl.
  - rewrite app_nil_r. exact H.
  - unfold push_batches in *. simpl. rewrite (IH _ j _ (push_nth _ _ _ _ _ H)).
    destruct (Nat.eqb (fst s) j); simpl; rewrite <- ?app_assoc; reflexivity.
Qed.

Lemma sends_filter : forall asg i j a, nth_error asg j = Some a ->
  filter (fun s => Nat.eqb (fst s) (i + j)) (sends_by_index i asg) = match a with [] => [] | _ => [((i + j)%nat, a)] end.
Proof.
  induction asg as [|b asg IH]; intros i [|j] a H; simpl in H; try discriminate.
  - inversion H; subst b. simpl. rewrite filter_app.
    assert (E : filter (fun s => Nat.eqb (fst s) (i + 0)) (sends_by_index (S i) asg) = []).
    { pose proof (sends_by_index_fst_lt asg (S i)) as F. induction F as [|s l Hs F IHF]; simpl; [reflexivity|].
      destruct (Nat.eqb (fst s) (i + 0)) eqn:E; [apply Nat.eqb_eq in E; lia|exact IHF]. }
    rewrite E, app_nil_r. rewrite Nat.add_0_r. destruct a; simpl; [reflexivity|]. rewrite Nat.eqb_refl. reflexivity.
  - simpl. rewrite filter_app.
    assert (E : filter (fun s => Nat.eqb (fst s) (i + S j)) (match b with [] => [] | _ => [(i, b)] end) = []).
    { destruct b; simpl; [reflexivity|]. destruct (Nat.eqb i (i + S j)) eqn:E; [apply Nat.eqb_eq in E; lia|reflexivity]. }
    rewrite E. simpl. replace (i + S j)%nat with (S i + j)%nat by lia. apply IH. exact H.
Qed.

Lemma sends_filter_out : forall asg i j, (length asg <= j)%nat ->
  filter (fun s => Nat.eqb (fst s) (i + j)) (sends_by_index i asg) = [].
Proof.
  induction asg as [|b asg IH]; intros i j H; simpl in *; [reflexivity|]. rewrite filter_app.
  destruct j as [|j]; [lia|]. replace (i + S j)%nat with (S i + j)%nat by lia. rewrite IH by lia. rewrite app_nil_r.
  destruct b; simpl; [reflexivity|]. destruct (Nat.eqb i (S (i + j))) eqn:E; [apply Nat.eqb_eq in E; lia|reflexivity].
Qed.

Lemma filter_perm {A} (f : A -> bool) l l' : Permutation l l' -> Permutation (filter f l) (filter f l').
Proof.
  induction 1; simpl; auto.
  - destruct (f x); auto.
  - destruct (f x), (f y); auto. apply perm_swap.
  - etransitivity; eassumption.
Qed.

Lemma sum_repeat_one m : sumZ (map e_num_idle (repeat (mkEmp 1 0 1 []) m)) = Z.of_nat m.
Proof. induction m as [|m IH]; [reflexivity|]. simpl repeat. simpl map. simpl sumZ. rewrite IH. simpl e_num_idle. lia. Qed.

Lemma pending_repeat_nil m : map tid (concat (map pending_tasks (repeat [] m))) = [].
Proof. induction m as [|m IH]; [reflexivity|]. simpl. exact IH. Qed.

(* ---------- the invariant ---------- *)

Definition log_ids (st : sys) : list Z := map tid (concat (map snd (sent_log st))).
Definition pending_ids (st : sys) : list Z := map tid (concat (map pending_tasks (ups st))).

Section Flat.
  Variables (lb : Z) (n : nat).
  (* cf = true: cancel-free runs, the invariant then also carries exact task counts (LocalCF) *)
  Variable cf : bool.
  Hypothesis Hn : (0 < n)%nat.

  (* `hand`: tasks taken out of a channel (or just received from a client) that schedule_tasks is about to assign *)
  Record InvH (hand : list task) (st : sys) : Prop := mkInv {
    I_len_e : length (s_emps (srv st)) = n;
    I_len_d : length (downs st) = n;
    I_len_u : length (ups st) = n;
    I_len_k : length (wks st) = n;
    I_lb : s_lb (srv st) = lb;
    I_step : s_step (srv st) = sw_step_size;
    I_total : s_total (srv st) = Z.of_nat n;
    I_sum : s_num_idle (srv st) = sumZ (map e_num_idle (s_emps (srv st)));
    I_uniq : NoDup (log_ids st ++ map tid hand ++ pending_ids st);
    I_seen : forall x, In x (seen st) <-> In x (log_ids st ++ map tid hand ++ pending_ids st);
    I_hand : forall t, In t hand -> valid_ret lb n (tret t);
    I_cache_log : forall w e, nth_error (s_emps (srv st)) w = Some e -> incl (map fst (e_cache e)) (log_ids st);
    I_local : forall w e d u k, nth_error (s_emps (srv st)) w = Some e -> nth_error (downs st) w = Some d ->
               nth_error (ups st) w = Some u -> nth_error (wks st) w = Some k -> Local lb n cf w e d u k;
    I_log_ne : forall i b, In (i, b) (sent_log st) -> b <> [] /\ (i < n)%nat
  }.

  Definition Inv := InvH [].

  Definition good {A} (P : A -> Prop) (o : outcome A) : Prop :=
    match o with Done a => P a | Disabled => True | Fault _ => False end.

  Lemma inv_init : Inv (init lb n).
  Proof.
    constructor; simpl; rewrite ?repeat_length; auto.
    + symmetry. apply sum_repeat_one.
    + unfold pending_ids, log_ids. simpl. rewrite pending_repeat_nil. constructor.
    + intros x. unfold pending_ids, log_ids. simpl. rewrite pending_repeat_nil. simpl. tauto.
    + intros t [].
    + intros w e H. apply nth_error_repeat in H. subst e. simpl. intros x [].
    + intros w e d u k He Hd Hu Hk. apply nth_error_repeat in He, Hd, Hu, Hk. subst. apply local_init.
    + intros i b [].
  Qed.

  (* components of worker w exist *)
  Lemma inv_view st w : Inv st -> (w < n)%nat ->
    exists e d u k, nth_error (s_emps (srv st)) w = Some e /\ nth_error (downs st) w = Some d
                    /\ nth_error (ups st) w = Some u /\ nth_error (wks st) w = Some k /\ Local lb n cf w e d u k.
  Proof.
    intros HI Hw. destruct HI.
    destruct (nth_error_ex (s_emps (srv st)) w ltac:(lia)) as (e & He).
    destruct (nth_error_ex (downs st) w ltac:(lia)) as (d & Hd).
    destruct (nth_error_ex (ups st) w ltac:(lia)) as (u & Hu).
    destruct (nth_error_ex (wks st) w ltac:(lia)) as (k & Hk).
    exists e, d, u, k. do 4 (split; [assumption|]). eapply I_local0; eassumption.
  Qed.

  (* ----- routing in the flat system ----- *)

  Lemma emp_index_flat s i : s_lb s = lb -> s_step s = sw_step_size -> (i < length (s_emps s))%nat ->
    emp_index s (lb + Z.of_nat i) = Ok i.
  Proof.
    intros Hl Hs Hi. unfold emp_index, get_employee_responsible_for. cbv zeta. rewrite Hl, Hs. unfold sw_step_size.
    replace ((lb + Z.of_nat i - lb) / 1) with (Z.of_nat i) by (rewrite Z.div_1_r; lia).
    rewrite (py_idx_nth (seq 0 (length (s_emps s))) i i); [reflexivity|].
    rewrite nth_error_nth' with (d := 0%nat) by (rewrite seq_length; exact Hi). rewrite seq_nth by exact Hi. reflexivity.
  Qed.

  Lemma is_mine_flat s x : s_lb s = lb -> s_step s = sw_step_size -> length (s_emps s) = n -> lb <= x < lb + Z.of_nat n ->
    is_my_worker (s_lb s) (s_step s) (zlen (s_emps s)) x = true /\ exists i, (i < n)%nat /\ x = lb + Z.of_nat i.
  Proof.
    intros Hl Hs Hlen Hx. unfold is_my_worker. cbv zeta. rewrite Hl, Hs. unfold sw_step_size, zlen. rewrite Z.div_1_r, Hlen.
    split; [lia|]. exists (Z.to_nat (x - lb)). lia.
  Qed.

  (* ----- frame: everything but worker w untouched ----- *)

  Definition same_but (w : nat) {A} (l l' : list A) : Prop :=
    length l' = length l /\ forall j, j <> w -> nth_error l' j = nth_error l j.

  Lemma same_but_refl w {A} (l : list A) : same_but w l l.
  Proof. split; auto. Qed.

  Lemma same_but_upd w {A} (g : A -> A) (l : list A) : same_but w l (upd w g l).
  Proof. split; [apply upd_length|]. intros j Hj. apply nth_error_upd_neq. auto. Qed.

  Lemma local_frame w hand st es' ds' us' ks' :
    same_but w (s_emps (srv st)) es' -> same_but w (downs st) ds' -> same_but w (ups st) us' -> same_but w (wks st) ks' ->
    InvH hand st ->
    (forall e d u k, nth_error es' w = Some e -> nth_error ds' w = Some d -> nth_error us' w = Some u ->
                     nth_error ks' w = Some k -> Local lb n cf w e d u k) ->
    forall j e d u k, nth_error es' j = Some e -> nth_error ds' j = Some d -> nth_error us' j = Some u ->
                      nth_error ks' j = Some k -> Local lb n cf j e d u k.
  Proof.
    intros [_ He] [_ Hd] [_ Hu] [_ Hk] HI Hw j e d u k H1 H2 H3 H4.
    destruct (Nat.eq_dec j w) as [->|Hj]; [auto|].
    rewrite He in H1 by exact Hj. rewrite Hd in H2 by exact Hj. rewrite Hu in H3 by exact Hj. rewrite Hk in H4 by exact Hj.
    eapply I_local; eassumption.
  Qed.

  (* ----- worker main-loop actions ----- *)

  Lemma pending_ids_snoc st w u msgs : nth_error (ups st) w = Some u ->
    forall st', ups st' = upd w (fun q => q ++ msgs) (ups st) ->
    Permutation (pending_ids st') (map tid (pending_tasks msgs) ++ pending_ids st).
  Proof.
    intros Hu st' E. unfold pending_ids. rewrite E.
    destruct (concat_upd_perm pending_tasks (ups st) w u Hu) as (R & H1 & H2).
    rewrite (Permutation_map tid (H2 (fun q => q ++ msgs))), (Permutation_map tid H1).
    rewrite pending_tasks_app, !map_app. rewrite !app_assoc. apply Permutation_app_tail. apply Permutation_app_comm.
  Qed.

  Lemma worker_act_inv st w f : Inv st ->
    (forall e d u k, nth_error (s_emps (srv st)) w = Some e -> nth_error (downs st) w = Some d ->
        nth_error (ups st) w = Some u -> nth_error (wks st) w = Some k -> Local lb n cf w e d u k -> w_blocked k = false ->
        good (fun x => let '(k', msgs, newids) := x in
                Local lb n cf w e d (u ++ msgs) k' /\ newids = map tid (pending_tasks msgs)
                /\ NoDup newids /\ (forall y, In y newids -> ~ In y (seen st))) (f k)) ->
    good Inv (worker_act st w f).
  Proof.
    intros HI Hf. unfold worker_act. destruct (nth_error (wks st) w) as [k|] eqn:Hk; [|exact I].
    destruct (w_blocked k) eqn:Hb; [exact I|].
    assert (Hw : (w < n)%nat) by (rewrite <- (I_len_k _ _ HI); eapply nth_error_lt; eassumption).
    destruct (inv_view st w HI Hw) as (e & d & u & k0 & He & Hd & Hu & Hk0 & L). rewrite Hk in Hk0. inversion Hk0; subst k0.
    specialize (Hf e d u k He Hd Hu eq_refl L Hb). destruct (f k) as [[[k' msgs] newids]| |]; simpl in *; auto.
    destruct Hf as (L' & -> & Hnd & Hfresh).
    set (st' := mkSys (srv st) (downs st) (upd w (fun q => q ++ msgs) (ups st)) (upd w (fun _ => k') (wks st))
                      (map tid (pending_tasks msgs) ++ seen st) (sent_log st)).
    pose proof (pending_ids_snoc st w u msgs Hu st' eq_refl) as Hp.
    pose proof HI as HI0. destruct HI. simpl in I_uniq0, I_seen0. constructor; simpl; rewrite ?upd_length; auto.
    - change (log_ids st') with (log_ids st).
      eapply Permutation_NoDup; [symmetry; apply Permutation_app_head; exact Hp|].
      eapply Permutation_NoDup; [apply Permutation_app_swap_app|].
      apply NoDup_app_intro; auto.
      intros y Hy Hin. apply (Hfresh y Hy). apply I_seen0. exact Hin.
    - intros x. change (log_ids st') with (log_ids st). rewrite in_app_iff, I_seen0.
      rewrite !in_app_iff. split.
      + intros [H|[H|H]]; [right|left; exact H|right];
          (eapply Permutation_in; [symmetry; exact Hp|]; apply in_or_app; auto).
      + intros [H|H]; [auto|]. apply (Permutation_in _ Hp) in H. apply in_app_or in H. tauto.
    - eapply (local_frame w [] st); simpl; auto using same_but_refl, same_but_upd.
      + intros e1 d1 u1 k1 H1 H2 H3 H4.
        rewrite He in H1. rewrite Hd in H2. rewrite (nth_error_upd_eq _ _ _ _ Hu) in H3. rewrite (nth_error_upd_eq _ _ _ _ Hk) in H4.
        inversion H1; inversion H2; inversion H3; inversion H4; subst. exact L'.
  Qed.

  Lemma fresh_tasks_spec ts sn : fresh_tasks ts sn = true -> NoDup (map tid ts) /\ forall y, In y (map tid ts) -> ~ In y sn.
  Proof.
    unfold fresh_tasks. intros H. apply andb_true_iff in H. destruct H as [H1 H2]. split.
    - clear H2. induction (map tid ts) as [|x l IH]; simpl in *; [constructor|].
      apply andb_true_iff in H1. destruct H1 as [Hx Hl]. constructor; [|auto].
      intros Hin. apply negb_true_iff in Hx. unfold zmem in Hx.
      assert (existsb (Z.eqb x) l = true) by (apply existsb_exists; exists x; split; [exact Hin|lia]). congruence.
    - intros y Hy Hin. apply in_map_iff in Hy. destruct Hy as (t & <- & Ht).
      rewrite forallb_forall in H2. specialize (H2 t Ht). apply negb_true_iff in H2. unfold zmem in H2.
      assert (existsb (Z.eqb (tid t)) sn = true) by (apply existsb_exists; exists (tid t); split; [exact Hin|lia]). congruence.
  Qed.

  Lemma wid_valid s w : s_lb s = lb -> (w < n)%nat -> valid_ret lb n (wid s w).
  Proof. intros Hl Hw. unfold wid, sw_w_id, valid_ret. rewrite Hl. lia. Qed.


  (* ===== worker events ===== *)

  Lemma wid_eq st hand w : InvH hand st -> wid (srv st) w = sw_w_id lb (Z.of_nat w).
  Proof. intros HI. unfold wid. rewrite (I_lb _ _ HI). reflexivity. Qed.

  Lemma view_lt st hand w k : InvH hand st -> nth_error (wks st) w = Some k -> (w < n)%nat.
  Proof. intros HI H. rewrite <- (I_len_k _ _ HI). eapply nth_error_lt; eassumption. Qed.

  Lemma step_idle st w : Inv st -> good Inv (step st (EWorkerIdle w)).
  Proof.
    intros HI. simpl. apply worker_act_inv; [exact HI|]. intros e d u k He Hd Hu Hk L Hb. simpl.
    split; [apply local_idle; assumption|]. repeat split; [constructor|]. intros y [].
  Qed.

  Lemma step_finish st w t : Inv st -> good Inv (step st (EWorkerFinish w t)).
  Proof.
    intros HI. simpl. apply worker_act_inv; [exact HI|]. intros e d u k He Hd Hu Hk L Hb.
    destruct (take_task t (w_held k)) as [[x rest]|] eqn:Et; simpl; [|exact I].
    rewrite (wid_eq st [] w HI). split; [apply (local_finish lb n cf w e d u k t x rest Hb Et L)|].
    destruct (tret x =? sw_w_id lb (Z.of_nat w)); simpl; repeat split; try constructor; intros y [].
  Qed.

  Lemma step_drop st w t : cf = false -> Inv st -> good Inv (step st (EWorkerDrop w t)).
  Proof.
    intros Hcf HI. simpl. apply worker_act_inv; [exact HI|]. intros e d u k He Hd Hu Hk L Hb.
    destruct (take_task t (w_held k)) as [[x rest]|] eqn:Et; simpl; [|exact I].
    destruct (existsb (fun a => is_desc a x) (w_cancelled k)); simpl; [|exact I].
    rewrite app_nil_r. split; [apply (local_drop lb n cf w e d u k t x rest Hcf Hb Et L)|].
    repeat split; [constructor|]. intros y [].
  Qed.

  Lemma step_wcancel st w a : cf = false -> Inv st -> good Inv (step st (EWorkerCancel w a)).
  Proof.
    intros Hcf HI. simpl. apply worker_act_inv; [exact HI|]. intros e d u k He Hd Hu Hk L Hb. simpl.
    split; [apply local_snoc_cancel; assumption|]. repeat split; [constructor|]. intros y [].
  Qed.

  Lemma step_wsubmit st w t : Inv st -> good Inv (step st (EWorkerSubmit w t)).
  Proof.
    intros HI. simpl. apply worker_act_inv; [exact HI|]. intros e d u k He Hd Hu Hk L Hb.
    destruct (w_held k) eqn:Eh; [exact I|].
    destruct (fresh_tasks [t] (seen st) && (tret t =? wid (srv st) w)) eqn:Ef; [|exact I]. unfold good; cbv beta iota.
    apply andb_true_iff in Ef. destruct Ef as [Ef Er]. apply fresh_tasks_spec in Ef. destruct Ef as [Hnd Hfr].
    split.
    - apply local_snoc_submit; auto. intros t' [<-|[]].
      replace (tret t) with (wid (srv st) w) by lia. apply wid_valid; [exact (I_lb _ _ HI)|]. eapply view_lt; eassumption.
    - repeat split; auto.
  Qed.

  Lemma step_wmap st w ts : Inv st -> good Inv (step st (EWorkerMap w ts)).
  Proof.
    intros HI. simpl. apply worker_act_inv; [exact HI|]. intros e d u k He Hd Hu Hk L Hb.
    destruct (w_held k) eqn:Eh; [destruct ts; exact I|]. destruct ts as [|t0 ts']; [exact I|].
    destruct (fresh_tasks (t0 :: ts') (seen st) && forallb (fun t => tret t =? wid (srv st) w) (t0 :: ts')) eqn:Ef;
      [|exact I]. unfold good; cbv beta iota.
    apply andb_true_iff in Ef. destruct Ef as [Ef Er]. apply fresh_tasks_spec in Ef. destruct Ef as [Hnd Hfr].
    assert (Hpt : pending_tasks [UBatch (t0 :: ts')] = t0 :: ts') by (unfold pending_tasks; simpl; rewrite app_nil_r; reflexivity).
    split.
    - apply local_snoc_submit; auto. rewrite Hpt. intros t' Ht'.
      rewrite forallb_forall in Er. specialize (Er t' Ht').
      replace (tret t') with (wid (srv st) w) by lia. apply wid_valid; [exact (I_lb _ _ HI)|]. eapply view_lt; eassumption.
    - rewrite Hpt. repeat split; auto.
  Qed.

  (* ===== worker receiving thread ===== *)

  Lemma inv_replace_dk hand st w e d u k d' k' : InvH hand st ->
    nth_error (s_emps (srv st)) w = Some e -> nth_error (downs st) w = Some d ->
    nth_error (ups st) w = Some u -> nth_error (wks st) w = Some k ->
    Local lb n cf w e d' u k' ->
    InvH hand (mkSys (srv st) (upd w (fun _ => d') (downs st)) (ups st) (upd w (fun _ => k') (wks st)) (seen st) (sent_log st)).
  Proof.
    intros HI He Hd Hu Hk L'. pose proof HI as HI0. destruct HI. constructor; simpl; rewrite ?upd_length; auto.
    eapply (local_frame w hand st); simpl; eauto using same_but_refl, same_but_upd.
    intros e1 d1 u1 k1 H1 H2 H3 H4.
    rewrite He in H1. rewrite (nth_error_upd_eq _ _ _ _ Hd) in H2. rewrite Hu in H3. rewrite (nth_error_upd_eq _ _ _ _ Hk) in H4.
    inversion H1; inversion H2; inversion H3; inversion H4; subst. exact L'.
  Qed.

  Lemma step_wrecv st w wake : Inv st -> good Inv (step st (EWorkerRecv w wake)).
  Proof.
    intros HI. simpl. unfold worker_recv.
    destruct (nth_error (downs st) w) as [[|m q]|] eqn:Hd; try exact I.
    destruct (nth_error (wks st) w) as [k|] eqn:Hk; try exact I.
    assert (Hw : (w < n)%nat) by (eapply view_lt; eassumption).
    destruct (inv_view st w HI Hw) as (e & d0 & u & k0 & He & Hd0 & Hu & Hk0 & L).
    rewrite Hd in Hd0. rewrite Hk in Hk0. inversion Hd0; inversion Hk0; subst d0 k0.
    destruct m as [[|t0 ts]|x|a]; simpl.
    - apply (L_bne _ _ _ _ _ _ _ _ L). left. reflexivity.
    - eapply inv_replace_dk; eauto. apply local_recv_batch. exact L.
    - eapply inv_replace_dk; eauto. apply (local_recv_result lb n cf w e q u k x); [|exact L].
      destruct (wake && _); auto.
    - eapply inv_replace_dk; eauto. apply local_recv_cancel. exact L.
  Qed.

  (* ===== server: bookkeeping messages ===== *)

  Lemma map_upd_same {A B} (f : A -> B) (g : A -> A) : forall l i x, nth_error l i = Some x -> f (g x) = f x ->
    map f (upd i g l) = map f l.
  Proof.
    induction l as [|y l IH]; intros [|i] x H E; simpl in *; try discriminate; auto.
    - inversion H; subst. rewrite E. reflexivity.
    - f_equal. eapply IH; eassumption.
  Qed.

  Lemma pending_pop_plain st w m q : nth_error (ups st) w = Some (m :: q) -> pending_tasks [m] = [] ->
    concat (map pending_tasks (upd w (fun _ => q) (ups st))) = concat (map pending_tasks (ups st)).
  Proof.
    intros Hu Hm. f_equal. eapply map_upd_same; [exact Hu|].
    rewrite (pending_tasks_cons m q), Hm. reflexivity.
  Qed.

  (* employee w's record replaced by e' (same totals, cache shrunk), head of its up channel consumed *)
  Lemma inv_server_emp st w m q e e' si : Inv st ->
    nth_error (ups st) w = Some (m :: q) -> nth_error (s_emps (srv st)) w = Some e -> pending_tasks [m] = [] ->
    (forall d k, nth_error (downs st) w = Some d -> nth_error (wks st) w = Some k -> Local lb n cf w e' d q k) ->
    incl (map fst (e_cache e')) (map fst (e_cache e)) ->
    si = s_num_idle (srv st) + e_num_idle e' - e_num_idle e ->
    Inv (mkSys (mkSrv (s_lb (srv st)) (s_step (srv st)) (upd w (fun _ => e') (s_emps (srv st))) si (s_total (srv st)))
               (downs st) (upd w (fun _ => q) (ups st)) (wks st) (seen st) (sent_log st)).
  Proof.
    intros HI Hu He Hm HL Hincl Hsi. pose proof HI as HI0. destruct HI. simpl in I_uniq0, I_seen0.
    constructor; simpl; rewrite ?upd_length; auto.
    - rewrite (sum_upd e_num_idle (fun _ => e') _ _ _ He). lia.
    - unfold pending_ids, log_ids in *. simpl. rewrite (pending_pop_plain st w m q Hu Hm). exact I_uniq0.
    - unfold pending_ids, log_ids in *. simpl. rewrite (pending_pop_plain st w m q Hu Hm). exact I_seen0.
    - intros j ej Hj. destruct (Nat.eq_dec j w) as [->|Hne].
      + rewrite (nth_error_upd_eq _ _ _ _ He) in Hj. inversion Hj; subst ej.
        intros x Hx. apply (I_cache_log0 w e He). apply Hincl. exact Hx.
      + rewrite nth_error_upd_neq in Hj by auto. exact (I_cache_log0 j ej Hj).
    - eapply (local_frame w [] st); simpl; eauto using same_but_refl, same_but_upd.
      intros e1 d1 u1 k1 H1 H2 H3 H4.
      rewrite (nth_error_upd_eq _ _ _ _ He) in H1. rewrite (nth_error_upd_eq _ _ _ _ Hu) in H3.
      inversion H1; inversion H3; subst. apply HL; assumption.
  Qed.

  Lemma inv_push_result hand st j x : InvH hand st ->
    InvH hand (mkSys (srv st) (push j (DResult x) (downs st)) (ups st) (wks st) (seen st) (sent_log st)).
  Proof.
    intros HI. pose proof HI as HI0. destruct HI. constructor; simpl; rewrite ?push_length; auto.
    unfold push. eapply (local_frame j hand st); simpl; eauto using same_but_refl, same_but_upd.
    intros e1 d1 u1 k1 H1 H2 H3 H4.
    destruct (nth_error (downs st) j) as [d|] eqn:Hd.
    - rewrite (nth_error_upd_eq _ _ _ _ Hd) in H2. inversion H2; subst. apply local_push_result. eapply I_local0; eassumption.
    - rewrite (upd_none _ _ _ Hd) in H2. congruence.
  Qed.

  Lemma inv_broadcast hand st a : cf = false -> InvH hand st ->
    InvH hand (mkSys (srv st) (map (fun q => q ++ [DCancel a]) (downs st)) (ups st) (wks st) (seen st) (sent_log st)).
  Proof.
    intros Hcf HI. destruct HI. constructor; simpl; rewrite ?map_length; auto.
    intros j e d u k H1 H2 H3 H4. rewrite nth_error_map in H2.
    destruct (nth_error (downs st) j) as [d0|] eqn:Hd; simpl in H2; [|discriminate]. injection H2 as <-.
    apply local_push_cancel; [exact Hcf|]. eapply I_local0; eassumption.
  Qed.

  Lemma upd_at {A} (g : A -> A) : forall (l : list A) i x, nth_error l i = Some x -> upd i g l = upd i (fun _ => g x) l.
  Proof. induction l as [|y l IH]; intros [|i] x H; simpl in *; try discriminate; [inversion H; reflexivity|f_equal; auto]. Qed.

  Lemma upd_id {A} : forall (l : list A) i x, nth_error l i = Some x -> upd i (fun _ => x) l = l.
  Proof. induction l as [|y l IH]; intros [|i] x H; simpl in *; try discriminate; [inversion H; reflexivity|f_equal; auto]. Qed.

  Lemma inv_pop_cancel st w a q : Inv st -> nth_error (ups st) w = Some (UCancel a :: q) ->
    Inv (mkSys (srv st) (downs st) (upd w (fun _ => q) (ups st)) (wks st) (seen st) (sent_log st)).
  Proof.
    intros HI Hu.
    assert (Hw : (w < n)%nat) by (rewrite <- (I_len_u _ _ HI); eapply nth_error_lt; eassumption).
    destruct (inv_view st w HI Hw) as (e & d & u & k & He & Hd & Hu' & Hk & L). rewrite Hu in Hu'. inversion Hu'; subst u.
    assert (HL : forall d1 k1, nth_error (downs st) w = Some d1 -> nth_error (wks st) w = Some k1 -> Local lb n cf w e d1 q k1).
    { intros d1 k1 H1 H2. rewrite Hd in H1. rewrite Hk in H2. inversion H1; inversion H2; subst.
      eapply local_pop_plain; [|exact L]. exact I. }
    pose proof (inv_server_emp st w (UCancel a) q e e (s_num_idle (srv st)) HI Hu He eq_refl HL (incl_refl _) ltac:(lia)) as H.
    rewrite (upd_id _ _ _ He) in H. destruct st as [s ds us ks sn lg]. destruct s. exact H.
  Qed.

  Lemma in_nth_error_local st e : Inv st -> In e (s_emps (srv st)) -> 0 <= e_num_idle e <= 1.
  Proof.
    intros HI Hin. apply In_nth_error in Hin. destruct Hin as (j & Hj).
    assert (Hjn : (j < n)%nat) by (rewrite <- (I_len_e _ _ HI); eapply nth_error_lt; eassumption).
    destruct (inv_view st j HI Hjn) as (e' & d & u & k & He & _ & _ & _ & L). rewrite Hj in He. inversion He; subst e'.
    exact (L_idle _ _ _ _ _ _ _ _ L).
  Qed.

  Lemma step_srecv_waiting st w m r q : Inv st -> nth_error (ups st) w = Some (UWaiting m r :: q) ->
    good Inv (obind (srv_waiting (srv st) w m r) (fun s' =>
      Done (mkSys s' (downs st) (upd w (fun _ => q) (ups st)) (wks st) (seen st) (sent_log st)))).
  Proof.
    intros HI Hu.
    assert (Hw : (w < n)%nat) by (rewrite <- (I_len_u _ _ HI); eapply nth_error_lt; eassumption).
    destruct (inv_view st w HI Hw) as (e & d & u & k & He & Hd & Hu' & Hk & L). rewrite Hu in Hu'. inversion Hu'; subst u.
    unfold srv_waiting. rewrite He.
    pose proof (handle_waiting_spec (e_cache e) (e_num_idle e) (s_num_idle (srv st)) (s_total (srv st)) m r) as S.
    destruct (local_waiting_found lb n cf w e d q k m r L) as (c0 & x0 & Hg0 & Hx0).
    assert (m = 1) by (eapply (L_wait _ _ _ _ _ _ _ _ L); left; reflexivity). subst m.
    destruct (handle_waiting (e_cache e) (e_num_idle e) (s_num_idle (srv st)) (s_total (srv st)) 1 r) as [[[c ni] si]|ex] eqn:Ehw.
    - simpl. destruct S as (x & Hg & Hni & Hsi & _). rewrite (upd_at _ _ _ _ He).
      apply (inv_server_emp st w (UWaiting 1 r) q e (set_idle_cache ni c e) si HI Hu He eq_refl).
      + intros d1 k1 H1 H2. rewrite Hd in H1. rewrite Hk in H2. inversion H1; inversion H2; subst d1 k1.
        eapply local_pop_waiting; [exact L|exact Ehw].
      + simpl. destruct (gnts_suffix _ _ _ _ Hg) as (pre & ->). rewrite map_app. apply incl_appr. apply incl_refl.
      + simpl. lia.
    - simpl. destruct ex.
      + rewrite Hg0 in S. discriminate.
      + destruct S as (c' & x & Hg & Hbad). rewrite Hg0 in Hg. inversion Hg; subst c' x. apply Hbad.
        (* the new node count is the sum over the updated employee list *)
        set (ei' := Z.max (1 - x0) 0).
        pose proof (sum_upd e_num_idle (set_idle_cache ei' (e_cache e)) _ _ _ He) as Hs. simpl in Hs.
        rewrite (I_sum _ _ HI), (I_total _ _ HI).
        assert (Hb : 0 <= sumZ (map e_num_idle (upd w (set_idle_cache ei' (e_cache e)) (s_emps (srv st))))
                     <= zlen (upd w (set_idle_cache ei' (e_cache e)) (s_emps (srv st)))).
        { apply sum_bounds. intros y Hy. apply in_upd in Hy. destruct Hy as [Hy|(y0 & Hy0 & ->)].
          - eapply in_nth_error_local; eassumption.
          - simpl. unfold ei'. lia. }
        unfold zlen in Hb. rewrite upd_length, (I_len_e _ _ HI) in Hb. fold ei'. lia.
      + exact S.
  Qed.

  Lemma step_srecv_update st w x q : Inv st -> nth_error (ups st) w = Some (UUpdate x :: q) ->
    good Inv (obind (srv_update (srv st) w x) (fun s' =>
      Done (mkSys s' (downs st) (upd w (fun _ => q) (ups st)) (wks st) (seen st) (sent_log st)))).
  Proof.
    intros HI Hu.
    assert (Hw : (w < n)%nat) by (rewrite <- (I_len_u _ _ HI); eapply nth_error_lt; eassumption).
    destruct (inv_view st w HI Hw) as (e & d & u & k & He & Hd & Hu' & Hk & L). rewrite Hu in Hu'. inversion Hu'; subst u.
    unfold srv_update. rewrite He, server_handle_update_spec. simpl.
    assert (x = -1) by (eapply (L_upd _ _ _ _ _ _ _ _ L); left; reflexivity). subst x.
    replace (e_num_tasks e + -1) with (e_num_tasks e - 1) by lia. rewrite (upd_at _ _ _ _ He).
    apply (inv_server_emp st w (UUpdate (-1)) q e (set_tasks (e_num_tasks e - 1) e) (s_num_idle (srv st)) HI Hu He eq_refl).
    - intros d1 k1 H1 H2. rewrite Hd in H1. rewrite Hk in H2. inversion H1; inversion H2; subst d1 k1.
      eapply local_pop_completion; [|exact L]. exact I.
    - apply incl_refl.
    - simpl. lia.
  Qed.

  Lemma step_srecv_result st w dest b q : Inv st -> nth_error (ups st) w = Some (UResult dest b :: q) ->
    good Inv (obind (srv_result (srv st) dest b) (fun x =>
      let '(s', fwd) := x in
      let d' := match fwd with Some k => push k (DResult dest) (downs st) | None => downs st end in
      Done (mkSys s' d' (upd w (fun _ => q) (ups st)) (wks st) (seen st) (sent_log st)))).
  Proof.
    intros HI Hu.
    assert (Hw : (w < n)%nat) by (rewrite <- (I_len_u _ _ HI); eapply nth_error_lt; eassumption).
    destruct (inv_view st w HI Hw) as (e & d & u & k & He & Hd & Hu' & Hk & L). rewrite Hu in Hu'. inversion Hu'; subst u.
    destruct (L_res _ _ _ _ _ _ _ _ L dest b (or_introl eq_refl)) as [-> Hdest].
    unfold srv_result.
    rewrite (emp_index_flat (srv st) w (I_lb _ _ HI) (I_step _ _ HI)) by (rewrite (I_len_e _ _ HI); exact Hw).
    simpl. rewrite He. rewrite ?server_handle_result_count_spec. simpl.
    assert (Hbase : Inv (mkSys (mkSrv (s_lb (srv st)) (s_step (srv st)) (upd w (fun _ => set_tasks (e_num_tasks e - 1) e) (s_emps (srv st)))
                                      (s_num_idle (srv st)) (s_total (srv st)))
                               (downs st) (upd w (fun _ => q) (ups st)) (wks st) (seen st) (sent_log st))).
    { apply (inv_server_emp st w (UResult dest (lb + Z.of_nat w)) q e (set_tasks (e_num_tasks e - 1) e) (s_num_idle (srv st)) HI Hu He eq_refl).
      - intros d1 k1 H1 H2. rewrite Hd in H1. rewrite Hk in H2. inversion H1; inversion H2; subst d1 k1.
        eapply local_pop_completion; [|exact L]. exact I.
      - apply incl_refl.
      - simpl. lia. }
    rewrite (upd_at _ _ _ _ He).
    destruct (dest =? -1) eqn:Ed; simpl; [exact Hbase|].
    destruct Hdest as [Hdest|Hdest]; [lia|].
    destruct (is_mine_flat (srv st) dest (I_lb _ _ HI) (I_step _ _ HI) (I_len_e _ _ HI) Hdest) as (Hmine & i & Hi & ->).
    rewrite Hmine. simpl.
    rewrite (emp_index_flat (srv st) i (I_lb _ _ HI) (I_step _ _ HI)) by (rewrite (I_len_e _ _ HI); exact Hi).
    simpl. apply (inv_push_result [] _ i (lb + Z.of_nat i) Hbase).
  Qed.

  (* ===== server: scheduling ===== *)

  Lemma inv_pop_submit st w m q : Inv st -> nth_error (ups st) w = Some (m :: q) ->
    (match m with USubmit _ | UBatch _ => True | _ => False end) ->
    InvH (pending_tasks [m]) (mkSys (srv st) (downs st) (upd w (fun _ => q) (ups st)) (wks st) (seen st) (sent_log st)).
  Proof.
    intros HI Hu Hm.
    assert (Hw : (w < n)%nat) by (rewrite <- (I_len_u _ _ HI); eapply nth_error_lt; eassumption).
    destruct (inv_view st w HI Hw) as (e & d & u & k & He & Hd & Hu' & Hk & L). rewrite Hu in Hu'. inversion Hu'; subst u.
    destruct (concat_upd_perm pending_tasks (ups st) w (m :: q) Hu) as (R & H1 & H2). specialize (H2 (fun _ => q)). simpl in H2.
    rewrite pending_tasks_cons in H1.
    assert (Hp : Permutation (pending_ids st)
                   (map tid (pending_tasks [m]) ++ map tid (concat (map pending_tasks (upd w (fun _ => q) (ups st)))))).
    { unfold pending_ids. rewrite <- map_app. apply Permutation_map. rewrite H1, H2, app_assoc. reflexivity. }
    pose proof HI as HI0. destruct HI. simpl in I_uniq0, I_seen0. constructor; simpl; rewrite ?upd_length; auto.
    - unfold pending_ids at 1. simpl. eapply Permutation_NoDup; [apply Permutation_app_head; exact Hp|]. exact I_uniq0.
    - intros x. rewrite I_seen0. unfold pending_ids at 2. simpl. rewrite !in_app_iff. split.
      + intros [H|H]; [auto|]. apply (Permutation_in _ Hp) in H. apply in_app_or in H. tauto.
      + intros [H|H]; [auto|]. right. eapply Permutation_in; [symmetry; exact Hp|]. apply in_or_app. tauto.
    - intros t Ht. apply (L_ret _ _ _ _ _ _ _ _ L). rewrite pending_tasks_cons. rewrite !in_app_iff. tauto.
    - eapply (local_frame w [] st); simpl; eauto using same_but_refl, same_but_upd.
      intros e1 d1 u1 k1 G1 G2 G3 G4. rewrite He in G1. rewrite Hd in G2. rewrite (nth_error_upd_eq _ _ _ _ Hu) in G3. rewrite Hk in G4.
      inversion G1; inversion G2; inversion G3; inversion G4; subst.
      eapply local_pop_plain; [|exact L]. destruct m; try contradiction; exact I.
  Qed.

  Lemma schedule_inv ts st sh rs : InvH ts st -> good Inv (do_schedule st ts sh rs (ups st) (seen st)).
  Proof.
    intros HI. unfold do_schedule.
    assert (Hne : s_emps (srv st) <> []).
    { intro E. pose proof (I_len_e _ _ HI) as Hl. rewrite E in Hl. simpl in Hl. lia. }
    pose proof (schedule_tasks_spec (srv st) ts sh rs Hne) as S.
    destruct (schedule_tasks (srv st) ts sh rs) as [[s' sends]| |]; simpl; auto.
    destruct S as [(-> & -> & ->)|(Hts & asg & Hlen & Hperm & Hel & Hemps & Hsends & Hidle & Hlb & Hstep & Htot)].
    { rewrite app_nil_r. destruct st. exact HI. }
    assert (Hps : Permutation (concat (map snd sends)) ts).
    { rewrite (concat_perm _ _ (Permutation_map snd Hsends)), sends_by_index_concat. exact Hperm. }
    pose proof (Permutation_map tid Hps) as Hpi.
    assert (Hlog : forall st', sent_log st' = sent_log st ++ sends ->
                   log_ids st' = log_ids st ++ map tid (concat (map snd sends))).
    { intros st' E. unfold log_ids. rewrite E, map_app, concat_app, map_app. reflexivity. }
    set (st' := mkSys s' (push_batches sends (downs st)) (ups st) (wks st) (seen st) (sent_log st ++ sends)).
    pose proof (Hlog st' eq_refl) as Hlog'.
    pose proof HI as HI0. destruct HI.
    assert (Hin_ts : forall j a t, nth_error asg j = Some a -> In t a -> In t ts).
    { intros j a t Ha Ht. eapply Permutation_in; [exact Hperm|]. apply in_concat. exists a. split; [eapply nth_error_In; eassumption|exact Ht]. }
    constructor; simpl; auto; try congruence.
    - rewrite push_batches_length. exact I_len_d0.
    - rewrite Hlog'. change (pending_ids st') with (pending_ids st). rewrite <- app_assoc.
      eapply Permutation_NoDup; [|exact I_uniq0]. apply Permutation_app_head. apply Permutation_app_tail. symmetry. exact Hpi.
    - intros x. rewrite Hlog'. change (pending_ids st') with (pending_ids st). rewrite I_seen0.
      rewrite !in_app_iff. simpl. split.
      + intros [H|[H|H]]; auto. left. right. eapply Permutation_in; [symmetry; exact Hpi|exact H].
      + intros [[H|H]|H]; auto. right. left. eapply Permutation_in; [exact Hpi|exact H].
    - intros t [].
    - intros j e' Hj. rewrite Hlog'.
      assert (Hjn : (j < n)%nat) by (rewrite <- I_len_e0, <- Hel; eapply nth_error_lt; eassumption).
      destruct (nth_error_ex (s_emps (srv st)) j ltac:(lia)) as (e & He).
      destruct (nth_error_ex asg j ltac:(lia)) as (a & Ha).
      rewrite (Hemps j e a He Ha) in Hj. inversion Hj; subst e'.
      intros x Hx. apply in_or_app. destruct a as [|t0 ts']; simpl in Hx.
      + left. apply (I_cache_log0 j e He). exact Hx.
      + rewrite map_app in Hx. apply in_app_or in Hx. destruct Hx as [Hx|[<-|[]]].
        * left. apply (I_cache_log0 j e He). exact Hx.
        * right. simpl. eapply Permutation_in; [symmetry; exact Hpi|]. apply in_map.
          apply (Hin_ts j (t0 :: ts') t0 Ha). left. reflexivity.
    - intros j e' d' u k G1 G2 G3 G4.
      assert (Hjn : (j < n)%nat) by (rewrite <- I_len_e0, <- Hel; eapply nth_error_lt; eassumption).
      destruct (nth_error_ex (s_emps (srv st)) j ltac:(lia)) as (e & He).
      destruct (nth_error_ex asg j ltac:(lia)) as (a & Ha).
      destruct (nth_error_ex (downs st) j ltac:(lia)) as (d & Hd).
      rewrite (Hemps j e a He Ha) in G1. inversion G1; subst e'.
      rewrite (push_batches_nth sends (downs st) j d Hd) in G2. inversion G2; subst d'.
      assert (Hf : map (fun s => DBatch (snd s)) (filter (fun s => Nat.eqb (fst s) j) sends) = batch_msgs a).
      { pose proof (filter_perm (fun s => Nat.eqb (fst s) j) _ _ Hsends) as Hfp.
        pose proof (sends_filter asg 0 j a Ha) as Hsf. simpl in Hsf. rewrite Hsf in Hfp.
        destruct a as [|t0 ts'].
        - apply Permutation_sym, Permutation_nil in Hfp. rewrite Hfp. reflexivity.
        - apply Permutation_sym, Permutation_length_1_inv in Hfp. rewrite Hfp. reflexivity. }
      rewrite Hf. apply local_schedule.
      + intros t Ht. apply I_hand0. eapply Hin_ts; eassumption.
      + intros t Ht Hc. apply (I_cache_log0 j e He) in Hc.
        eapply (NoDup_app_disj _ _ (tid t) I_uniq0); [exact Hc|]. apply in_or_app. left. apply in_map. eapply Hin_ts; eassumption.
      + eapply I_local0; eassumption.
    - intros i b Hin. apply in_app_or in Hin. destruct Hin as [Hin|Hin]; [auto|].
      apply (Permutation_in _ Hsends) in Hin. apply sends_by_index_spec in Hin. destruct Hin as (k0 & -> & Hk0 & Hb).
      split; [exact Hb|]. apply nth_error_lt in Hk0. simpl. lia.
  Qed.

  Lemma step_csubmit st ts sh rs : Inv st -> good Inv (step st (EClientSubmit ts sh rs)).
  Proof.
    intros HI. simpl.
    destruct (fresh_tasks ts (seen st) && forallb (fun t => tret t =? -1) ts) eqn:Ef; [|exact I].
    apply andb_true_iff in Ef. destruct Ef as [Ef Er]. apply fresh_tasks_spec in Ef. destruct Ef as [Hnd Hfr].
    apply (schedule_inv ts (mkSys (srv st) (downs st) (ups st) (wks st) (map tid ts ++ seen st) (sent_log st))).
    pose proof HI as HI0. destruct HI. simpl in I_uniq0, I_seen0. constructor; simpl; auto.
    - eapply Permutation_NoDup; [apply Permutation_app_swap_app|].
      apply NoDup_app_intro; auto. intros y Hy Hin. apply (Hfr y Hy). apply I_seen0. exact Hin.
    - intros x. rewrite in_app_iff, I_seen0, !in_app_iff. tauto.
    - intros t Ht. rewrite forallb_forall in Er. specialize (Er t Ht). left. lia.
  Qed.

  Lemma step_ccancel st a : cf = false -> Inv st -> good Inv (step st (EClientCancel a)).
  Proof. intros Hcf HI. simpl. apply (inv_broadcast [] st a Hcf HI). Qed.

  Lemma step_srecv st w sh rs : Inv st -> good Inv (step st (EServerRecv w sh rs)).
  Proof.
    intros HI. simpl. unfold server_recv.
    destruct (nth_error (ups st) w) as [[|m q]|] eqn:Hu; try exact I.
    destruct m as [t|ts|m r|dest b|x|a].
    - apply (schedule_inv [t] (mkSys (srv st) (downs st) (upd w (fun _ => q) (ups st)) (wks st) (seen st) (sent_log st))).
      apply (inv_pop_submit st w (USubmit t) q HI Hu I).
    - apply (schedule_inv ts (mkSys (srv st) (downs st) (upd w (fun _ => q) (ups st)) (wks st) (seen st) (sent_log st))).
      pose proof (inv_pop_submit st w (UBatch ts) q HI Hu I) as H.
      replace (pending_tasks [UBatch ts]) with ts in H by (unfold pending_tasks; simpl; rewrite app_nil_r; reflexivity). exact H.
    - apply step_srecv_waiting; assumption.
    - apply step_srecv_result; assumption.
    - apply step_srecv_update; assumption.
    - simpl. apply (inv_broadcast [] (mkSys (srv st) (downs st) (upd w (fun _ => q) (ups st)) (wks st) (seen st) (sent_log st)) a);
        [|exact (inv_pop_cancel st w a q HI Hu)].
      destruct cf eqn:Ecf; [exfalso|reflexivity].
      assert (Hw : (w < n)%nat) by (rewrite <- (I_len_u _ _ HI); eapply nth_error_lt; eassumption).
      destruct (inv_view st w HI Hw) as (e & d & u & k & He & Hd & Hu' & Hk & L). rewrite Hu in Hu'. inversion Hu'; subst u.
      destruct (L_cf _ _ _ _ _ _ _ _ L Ecf) as (_ & _ & _ & H4). apply (H4 a). left. reflexivity.
  Qed.

  Theorem step_inv st ev : (cf = true -> is_cancel_event ev = false) -> Inv st -> good Inv (step st ev).
  Proof.
    intros Hev HI.
    assert (Hcf : is_cancel_event ev = true -> cf = false) by (destruct cf; [intros E; rewrite (Hev eq_refl) in E; discriminate|reflexivity]).
    destruct ev.
    - apply step_csubmit; assumption.
    - apply step_ccancel; [apply Hcf; reflexivity|assumption].
    - apply step_srecv; assumption.
    - apply step_wrecv; assumption.
    - apply step_finish; assumption.
    - apply step_wsubmit; assumption.
    - apply step_wmap; assumption.
    - apply step_wcancel; [apply Hcf; reflexivity|assumption].
    - apply step_drop; [apply Hcf; reflexivity|assumption].
    - apply step_idle; assumption.
  Qed.

  Theorem run_inv : forall evs st, (cf = true -> forallb (fun ev => negb (is_cancel_event ev)) evs = true) ->
    Inv st -> good Inv (run st evs).
  Proof.
    induction evs as [|ev evs IH]; intros st Hev HI; simpl; [exact HI|].
    assert (H1 : cf = true -> is_cancel_event ev = false).
    { intros E. specialize (Hev E). simpl in Hev. apply andb_true_iff in Hev. destruct Hev as [H _]. apply negb_true_iff in H. exact H. }
    assert (H2 : cf = true -> forallb (fun ev => negb (is_cancel_event ev)) evs = true).
    { intros E. specialize (Hev E). simpl in Hev. apply andb_true_iff in Hev. tauto. }
    pose proof (step_inv st ev H1 HI) as H. destruct (step st ev) as [st'| |]; simpl in *; auto.
  Qed.

End Flat.

(* ---------- theorems about the flat system ---------- *)

Definition cancel_free (evs : list event) : bool := forallb (fun ev => negb (is_cancel_event ev)) evs.

(* every state reached from the initial one satisfies the invariant; on cancel-free schedules the
   strengthened one (cf = true) *)
Theorem reachable_inv lb n evs st : (0 < n)%nat -> run (init lb n) evs = Done st -> Inv lb n false st.
Proof.
  intros Hn E. pose proof (run_inv lb n false Hn evs (init lb n) (fun H => False_ind _ (Bool.diff_false_true H)) (inv_init lb n false)) as G.
  rewrite E in G. exact G.
Qed.

Theorem reachable_inv_cf lb n evs st : (0 < n)%nat -> cancel_free evs = true -> run (init lb n) evs = Done st -> Inv lb n true st.
Proof.
  intros Hn Hc E. pose proof (run_inv lb n true Hn evs (init lb n) (fun _ => Hc) (inv_init lb n true)) as G.
  rewrite E in G. exact G.
Qed.

(* no handler ever raises: the read receipt is found, the bounds assertion holds, results are routable *)
Theorem no_fault lb n evs ex : (0 < n)%nat -> run (init lb n) evs <> Fault ex.
Proof.
  intros Hn E. pose proof (run_inv lb n false Hn evs (init lb n) (fun H => False_ind _ (Bool.diff_false_true H)) (inv_init lb n false)) as G.
  rewrite E in G. exact G.
Qed.

Lemma stut_in rs l : stut rs l -> forall x, In x rs -> In x l.
Proof.
  induction 1 as [l|y rs l H IH|y rs l H IH]; intros x Hx; simpl in *; [contradiction| |].
  - destruct Hx as [<-|Hx]; [left; reflexivity|auto].
  - right. auto.
Qed.

Lemma somes_in x l : In (Some x) l -> In x (somes l).
Proof. induction l as [|[y|] l IH]; simpl; intros H; [contradiction| |]; destruct H as [H|H]; try discriminate; [inversion H; auto|auto|auto]. Qed.

Section Consequences.
  Variables (lb : Z) (n : nat) (cf : bool) (st : sys).
  Hypothesis HI : Inv lb n cf st.

  (* C15_receipt_found *)
  Theorem inv_receipt_found w e u k : nth_error (s_emps (srv st)) w = Some e -> nth_error (ups st) w = Some u ->
    nth_error (wks st) w = Some k ->
    forall r, In r (w_mrrs k :: receipts u) -> r = None \/ exists x, r = Some x /\ In x (map fst (e_cache e)).
  Proof.
    intros He Hu Hk r Hr.
    assert (Hw : (w < length (downs st))%nat) by (rewrite (I_len_d _ _ _ _ _ HI), <- (I_len_e _ _ _ _ _ HI); eapply nth_error_lt; eassumption).
    destruct (nth_error_ex _ _ Hw) as (d & Hd).
    pose proof (I_local _ _ _ _ _ HI w e d u k He Hd Hu Hk) as L.
    destruct (L_cache _ _ _ _ _ _ _ _ L) as (P & Hc & Hm & Hs).
    destruct r as [x|]; [right|left; reflexivity]. exists x. split; [reflexivity|].
    rewrite Hc, map_app. apply in_or_app. left. destruct Hr as [Hr|Hr].
    - rewrite Hr in Hm. destruct Hm as (P0 & c & ->). rewrite map_app. apply in_or_app. right. left. reflexivity.
    - eapply stut_in; [exact Hs|]. apply somes_in. exact Hr.
  Qed.

  (* C15_idle_in_bounds *)
  Theorem inv_bounds :
    s_num_idle (srv st) = sumZ (map e_num_idle (s_emps (srv st)))
    /\ 0 <= s_num_idle (srv st) <= s_total (srv st)
    /\ forall e, In e (s_emps (srv st)) -> 0 <= e_num_idle e <= e_total e /\ 0 <= e_num_tasks e.
  Proof.
    assert (Hall : forall e, In e (s_emps (srv st)) -> 0 <= e_num_idle e <= 1 /\ e_total e = 1 /\ 0 <= e_num_tasks e).
    { intros e Hin. apply In_nth_error in Hin. destruct Hin as (w & He).
      assert (Hw : (w < n)%nat) by (rewrite <- (I_len_e _ _ _ _ _ HI); eapply nth_error_lt; eassumption).
      destruct (nth_error_ex (downs st) w ltac:(rewrite (I_len_d _ _ _ _ _ HI); exact Hw)) as (d & Hd).
      destruct (nth_error_ex (ups st) w ltac:(rewrite (I_len_u _ _ _ _ _ HI); exact Hw)) as (u & Hu).
      destruct (nth_error_ex (wks st) w ltac:(rewrite (I_len_k _ _ _ _ _ HI); exact Hw)) as (k & Hk).
      pose proof (I_local _ _ _ _ _ HI w e d u k He Hd Hu Hk) as L. destruct L.
      pose proof (zlen_nonneg (batch_tasks d)). pose proof (zlen_nonneg (w_held k)).
      assert (0 <= completions u) by (unfold completions; apply zlen_nonneg).
      repeat split; try lia. }
    split; [exact (I_sum _ _ _ _ _ HI)|]. split.
    - rewrite (I_sum _ _ _ _ _ HI), (I_total _ _ _ _ _ HI), <- (I_len_e _ _ _ _ _ HI).
      apply (sum_bounds e_num_idle). intros e Hin. apply (Hall e Hin).
    - intros e Hin. destruct (Hall e Hin) as (H1 & H2 & H3). rewrite H2. auto.
  Qed.

  (* C15_forward_once *)
  Theorem inv_forward_once :
    NoDup (log_ids st)
    /\ (forall x, In x (seen st) <-> In x (log_ids st) \/ In x (pending_ids st))
    /\ (forall i b, In (i, b) (sent_log st) -> b <> [] /\ (i < n)%nat).
  Proof.
    destruct HI. simpl in *. split; [eapply NoDup_app_l; exact I_uniq0|]. split; [|exact I_log_ne0].
    intros x. rewrite I_seen0, in_app_iff. reflexivity.
  Qed.

  Lemma forallb_nth {A} (f : A -> bool) l i x : forallb f l = true -> nth_error l i = Some x -> f x = true.
  Proof. intros H Hn. rewrite forallb_forall in H. apply H. eapply nth_error_In. exact Hn. Qed.

  (* at quiescence the boss believes every worker idle (with or without cancellations);
     on cancel-free schedules (cf = true) every task count is back to zero *)
  Theorem inv_quiescent : quiescent st = true ->
    s_num_idle (srv st) = s_total (srv st)
    /\ forall e, In e (s_emps (srv st)) -> e_num_idle e = 1 /\ (cf = true -> e_num_tasks e = 0).
  Proof.
    unfold quiescent. intros Hq. apply andb_true_iff in Hq. destruct Hq as [Hq Hk]. apply andb_true_iff in Hq. destruct Hq as [Hd Hu].
    assert (Hall : forall e, In e (s_emps (srv st)) -> e_num_idle e = 1 /\ (cf = true -> e_num_tasks e = 0)).
    { intros e Hin. apply In_nth_error in Hin. destruct Hin as (w & He).
      assert (Hw : (w < n)%nat) by (rewrite <- (I_len_e _ _ _ _ _ HI); eapply nth_error_lt; eassumption).
      destruct (nth_error_ex (downs st) w ltac:(rewrite (I_len_d _ _ _ _ _ HI); exact Hw)) as (d & Hdw).
      destruct (nth_error_ex (ups st) w ltac:(rewrite (I_len_u _ _ _ _ _ HI); exact Hw)) as (u & Huw).
      destruct (nth_error_ex (wks st) w ltac:(rewrite (I_len_k _ _ _ _ _ HI); exact Hw)) as (k & Hkw).
      pose proof (I_local _ _ _ _ _ HI w e d u k He Hdw Huw Hkw) as L.
      pose proof (forallb_nth _ _ _ _ Hd Hdw) as Ed. pose proof (forallb_nth _ _ _ _ Hu Huw) as Eu.
      pose proof (forallb_nth _ _ _ _ Hk Hkw) as Ek. apply andb_true_iff in Ek. destruct Ek as [Eb Eh].
      destruct d; [|discriminate]. destruct u; [|discriminate]. destruct (w_held k) eqn:Ehk; [|discriminate].
      split.
      - exact (L_exact _ _ _ _ _ _ _ _ L Eb).
      - intros Ecf. destruct (L_cf _ _ _ _ _ _ _ _ L Ecf) as (H1 & _). rewrite H1, Ehk. reflexivity. }
    split; [|exact Hall].
    rewrite (I_sum _ _ _ _ _ HI), (I_total _ _ _ _ _ HI), <- (I_len_e _ _ _ _ _ HI).
    clear - Hall. induction (s_emps (srv st)) as [|e l IH]; [reflexivity|].
    simpl. rewrite (proj1 (Hall e (or_introl eq_refl))), IH by (intros; apply Hall; right; assumption).
    simpl length. lia.
  Qed.
End Consequences.

(* D9: with a cancellation the task count never returns to zero.  One worker: the client submits
   task 0 and cancels it; the worker receives the batch, then the CANCEL (drops the task without
   telling anybody), finds its queue empty and reports WAITING. *)
Definition d9_witness : list event :=
  [EClientSubmit [mkTask 0 (-1) []] [0%nat] [0]; EClientCancel 0; EWorkerRecv 0 false; EWorkerRecv 0 false;
   EWorkerIdle 0; EServerRecv 0 [] [0]].

Theorem quiescent_refuted : exists st, run (init 0 1) d9_witness = Done st /\ quiescent st = true
  /\ exists e, In e (s_emps (srv st)) /\ e_num_idle e = 1 /\ e_num_tasks e = 1.
Proof. eexists. split; [vm_compute; reflexivity|]. split; [vm_compute; reflexivity|]. eexists. split; [left; reflexivity|]. split; reflexivity. Qed.
