(* WorkerMailbox.get_new_results at statement granularity, against the receiving thread.

     S1:  out = self.fresh_results          (the code as it is: `out` ALIASES the mailbox's list)
          out = list(self.fresh_results)    (the "defensive copy" variant)
     S2:  self.fresh_results = []
          return out

   The receiving thread (deposit_result) appends to `self.fresh_results` without a lock, so a
   deposit can fall before S1, between S1 and S2, or after S2.  In rt/WorkerM.v the whole function is
   one atom of `desired_result`; this file justifies that for the aliasing code (every schedule of the
   split version hands out exactly what the atom hands out at S2) and shows that the copy variant
   is NOT equivalent: a deposit between S1 and S2 is in no batch.  The interleaving is exercised on the
   real classes by the `gnr` schedules of harness/props/c07.py (main thread parked before each source
   line of get_new_results). *)
From Coq Require Import List Arith.
Import ListNotations.

Inductive ev := Deposit (x : nat) | S1 | S2.
Inductive outref := NoOut | OutAlias | OutCopy (l : list nat).

Record st := mkSt {
  cur : list nat;               (* contents of the list object self.fresh_results points to *)
  out : outref;                 (* the local `out` of a call in progress *)
  returned : list (list nat)    (* batches returned so far *)
}.

Definition step (copy : bool) (s : st) (e : ev) : st :=
  match e with
  | Deposit x => mkSt (cur s ++ [x]) (out s) (returned s)       (* an alias sees it: same object *)
  | S1 => mkSt (cur s) (if copy then OutCopy (cur s) else OutAlias) (returned s)
  | S2 => match out s with
          | OutAlias => mkSt [] NoOut (returned s ++ [cur s])
          | OutCopy l => mkSt [] NoOut (returned s ++ [l])
          | NoOut => s
          end
  end.
Definition run (copy : bool) (s : st) (es : list ev) : st := fold_left (step copy) es s.

(* one call with deposits anywhere around and inside it *)
Definition call (d1 d2 d3 : list nat) : list ev :=
  map Deposit d1 ++ [S1] ++ map Deposit d2 ++ [S2] ++ map Deposit d3.

Lemma run_app : forall copy es1 es2 s, run copy s (es1 ++ es2) = run copy (run copy s es1) es2.
Proof. intros. unfold run. apply fold_left_app. Qed.
Lemma run_deposits : forall copy d s, run copy s (map Deposit d) = mkSt (cur s ++ d) (out s) (returned s).
Proof. induction d as [|x r IH]; intros s; simpl.
  - rewrite app_nil_r. destruct s; reflexivity.
  - unfold run in *. simpl. rewrite IH. simpl. rewrite <- app_assoc. reflexivity. Qed.

Lemma run_cons : forall copy e es s, run copy s (e :: es) = run copy (step copy s e) es.
Proof. reflexivity. Qed.
Ltac runit := unfold call; cbv zeta; simpl app;
  repeat (rewrite run_app || rewrite run_deposits || rewrite run_cons || (cbn [step cur out returned])).

(* the code as it is: nothing is lost, whatever the interleaving -- the split function behaves like the
   atom executed at S2 *)
Theorem gnr_alias_complete : forall init d1 d2 d3 rs,
  let s := run false (mkSt init NoOut rs) (call d1 d2 d3) in
  returned s = rs ++ [init ++ d1 ++ d2] /\ cur s = d3 /\
  concat (returned s) ++ cur s = concat rs ++ init ++ d1 ++ d2 ++ d3.
Proof.
  intros init d1 d2 d3 rs. runit. unfold run. simpl.
  rewrite <- !app_assoc. split; [reflexivity|]. split; [reflexivity|].
  rewrite concat_app. simpl. rewrite app_nil_r, <- !app_assoc. reflexivity.
Qed.

(* the copy variant: a deposit between the two statements is in no batch and not in the new list *)
Theorem gnr_copy_refuted : exists init d1 d2 d3 x,
  let s := run true (mkSt init NoOut []) (call d1 d2 d3) in
  In x (init ++ d1 ++ d2 ++ d3) /\ ~ In x (concat (returned s) ++ cur s).
Proof. exists [0], [], [1], [], 1. simpl. split; [auto|]. intros [H|[]]. discriminate. Qed.

(* with no deposit inside the window the two variants agree (why plain tests never see the difference) *)
Theorem gnr_copy_ok_without_window : forall init d1 d3 rs,
  run true (mkSt init NoOut rs) (call d1 [] d3) = run false (mkSt init NoOut rs) (call d1 [] d3).
Proof. intros. runit. unfold run. simpl. rewrite ?app_nil_r. reflexivity. Qed.
