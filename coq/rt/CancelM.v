(* C12 - executable model of the cancellation logic of the BQSKit runtime.
   No proofs in this file (see CancelThm.v).

   Code -> definitions
     bqskit/runtime/address.py  RuntimeAddress            addr  (worker_id + 1, mailbox_index, mailbox_slot);
                                                          worker_id -1 (server/client side) is encoded as 0
     bqskit/runtime/task.py     RuntimeTask               task (static part) / rtask (started task in Worker._tasks)
                                is_descendant_of          desc
     bqskit/runtime/worker.py   WorkerMailbox             mbox, new_box, box_ready, deposit
                                Worker._add_task          add_task
                                recv_incoming SUBMIT(_BATCH) recv_submit / recv_batch
                                Worker._handle_result     handle_result
                                Worker._handle_cancel     handle_cancel
                                Worker._get_next_ready_task  select (sel_ready / sel_delayed / block)
                                Worker._try_step_next_ready_task, _get_desired_result, _process_await,
                                _process_task_completion, submit, map, cancel, next        wstep
     bqskit/runtime/base.py     ServerBase.broadcast / schedule_tasks / send_result_down   broadcast / schedule / (in sup)
     bqskit/runtime/detached.py DetachedServer tables + handle_new_comp_task, handle_request,
                                handle_cancel_comp_task, handle_disconnect, handle_result, handle_error    sreq / sup
   Task bodies are scripts (list instr) standing for coroutines; a task running program p returns the value p.
   One [EStep w] is one call of _try_step_next_ready_task (select a task, advance it to its next await / return /
   exception, process the outcome); one [EDown w] / [EUp w] / [EClient] is one handler call of the receiving thread /
   server loop.  Handlers are atomic (see design_notes/C12.md for what this abstracts).
   Scheduling decisions of ServerBase.assign_tasks (random) are an oracle argument of the events ([assign]),
   checked to be a partition of the batch; theorems quantify over every such assignment. *)
From Coq Require Import List Arith Bool PeanoNat.
Import ListNotations.

(* ---------------------------------------------------------------- addresses, tasks *)
Definition addr := (nat * nat * nat)%type.

Definition addr_eqb (a b : addr) : bool :=
  match a, b with
  | (a1, a2, a3), (b1, b2, b3) => Nat.eqb a1 b1 && Nat.eqb a2 b2 && Nat.eqb a3 b3
  end.

Definition mem_addr (a : addr) (l : list addr) : bool := existsb (addr_eqb a) l.
Definition mem_nat (a : nat) (l : list nat) : bool := existsb (Nat.eqb a) l.

Record task := mkTask {
  t_addr : addr;            (* return_address == unique id *)
  t_crumbs : list addr;     (* breadcrumbs: ancestors, oldest first *)
  t_comp : nat;             (* comp_task_id *)
  t_prog : nat              (* which script it runs; also the value it returns *)
}.

(* RuntimeTask.is_descendant_of(addr) *)
Definition desc (c : addr) (t : task) : bool :=
  addr_eqb c (t_addr t) || mem_addr c (t_crumbs t).

Inductive instr :=
| ISubmit (p : nat)            (* futs.append(submit(prog p)) *)
| IMap (ps : list nat)         (* futs.append(map(...)) one child per element *)
| IAwait (f : nat)             (* await futs[f] *)
| INext (f : nat)              (* await next(futs[f]) *)
| ICancel (f : nat).           (* cancel(futs[f]) *)
(* falling off the end of the script = return t_prog *)

Definition progs := list (list instr).

(* ---------------------------------------------------------------- association lists (python dicts) *)
Section Assoc.
  Context {K V : Type}.
  Variable eqb : K -> K -> bool.
  Fixpoint lookup (k : K) (l : list (K * V)) : option V :=
    match l with
    | [] => None
    | (k', v) :: r => if eqb k k' then Some v else lookup k r
    end.
  Fixpoint remove (k : K) (l : list (K * V)) : list (K * V) :=
    match l with
    | [] => []
    | (k', v) :: r => if eqb k k' then remove k r else (k', v) :: remove k r
    end.
  Fixpoint put (k : K) (v : V) (l : list (K * V)) : list (K * V) :=
    match l with
    | [] => [(k, v)]
    | (k', v') :: r => if eqb k k' then (k, v) :: r else (k', v') :: put k v r
    end.
End Assoc.

Fixpoint remove_first (x : nat) (l : list nat) : list nat :=   (* list.remove(x) when present *)
  match l with
  | [] => []
  | y :: r => if Nat.eqb x y then r else y :: remove_first x r
  end.

Fixpoint set_nth {A} (i : nat) (x : A) (l : list A) : list A :=
  match l, i with
  | [], _ => []
  | _ :: r, 0 => x :: r
  | y :: r, S j => y :: set_nth j x r
  end.

(* ---------------------------------------------------------------- messages, labels *)
Inductive msg :=
| MSubmit (t : task)
| MBatch (ts : list task)
| MResult (ra : addr) (v : nat) (by_ : nat)     (* RuntimeResult(return_address, result, completed_by) *)
| MCancel (a : addr)
| MWaiting
| MUpdate
| MError (comp : nat) (kind : nat).

(* exception kinds of a task step *)
Definition K_AWAIT_CANCELLED := 1.   (* RuntimeError('Cannot await on a canceled task.') *)
Definition K_NEXT_COMPLETED := 2.    (* RuntimeError('Cannot wait on an already completed result.') *)
Definition K_KEYERROR := 3.          (* cancel() of a future whose mailbox is gone *)
Definition K_INDEX := 4.             (* script names a future it never created / unknown program *)
Definition K_MAP0 := 5.              (* RuntimeError('Unable to map 0 tasks.') *)
Definition K_INTERNAL := 6.          (* assertion / KeyError inside _get_desired_result *)
Definition is_runtime_error (k : nat) : bool := (k =? 1) || (k =? 2) || (k =? 5).

Inductive cmsg :=               (* server -> client *)
| CResult (v : nat)
| CError (kind : nat)           (* 0 = 'Unknown task.' *)
| CCancelAck.

Inductive label :=
| LRun (w : nat) (t : task)                                  (* the body of t takes a step on worker w *)
| LObs (w : nat) (a : addr) (mb : nat) (nx : bool) (vals : list (nat * nat))
                                                             (* await/next in task a returned (slot, value)s of mailbox mb *)
| LCancel (w : nat) (a : addr) (mb : nat) (n : nat)          (* task a executed cancel on its mailbox mb (n slots) *)
| LDiscard (w : nat) (ra : addr) (v : nat)                   (* RESULT for a dropped mailbox ignored *)
| LSkip (w : nat) (a : addr) (held : option task)            (* ready-queue entry discarded; held = its entry in _tasks *)
| LLeft (w : nat) (a : addr) (mbs : list nat)                (* completion of a: owned mailboxes still present afterwards *)
| LDone (w : nat) (t : task)                                 (* task completed, result shipped *)
| LErr (w : nat) (a : addr) (kind : nat) (sent : bool)       (* step raised; ERROR sent upstream or swallowed *)
| LDrop (w : nat) (t : task)                                 (* started or delayed task removed by _handle_cancel *)
| LToClient (c : nat) (m : cmsg)
| LSrvDiscard (mb : nat) (v : nat).                          (* server: result of a cancelled compilation discarded *)

(* ---------------------------------------------------------------- worker mailboxes *)
Record mbox := mkBox {
  mb_single : bool;
  mb_expected : nat;
  mb_slots : list (option nat);          (* result (single: one slot) *)
  mb_num : nat;
  mb_dest : option addr;
  mb_fresh : option (list (nat * nat))
}.

Definition new_box (n : option nat) : mbox :=
  match n with
  | None => mkBox true 1 [None] 0 None None
  | Some k => mkBox false k (repeat None k) 0 None None
  end.

Definition box_ready (b : mbox) : bool :=
  (mb_expected b <=? mb_num b) && negb (mb_num b =? 0).

Definition deposit (slot v : nat) (b : mbox) : mbox :=
  mkBox (mb_single b) (mb_expected b)
        (if mb_single b then [Some v] else set_nth slot (Some v) (mb_slots b))
        (S (mb_num b)) (mb_dest b)
        (Some (match mb_fresh b with None => [] | Some l => l end ++ [(slot, v)])).

Definition set_dest (d : option addr) (b : mbox) : mbox :=
  mkBox (mb_single b) (mb_expected b) (mb_slots b) (mb_num b) d (mb_fresh b).
Definition set_fresh (f : option (list (nat * nat))) (b : mbox) : mbox :=
  mkBox (mb_single b) (mb_expected b) (mb_slots b) (mb_num b) (mb_dest b) f.

(* values of a ready mailbox as (slot, value) pairs *)
Fixpoint slot_vals (i : nat) (l : list (option nat)) : list (nat * nat) :=
  match l with
  | [] => []
  | Some v :: r => (i, v) :: slot_vals (S i) r
  | None :: r => slot_vals (S i) r
  end.

(* ---------------------------------------------------------------- started tasks, worker state *)
Record rtask := mkRt {
  rt_task : task;
  rt_pc : nat;                  (* coroutine position *)
  rt_futs : list nat;           (* futures created so far (mailbox ids) *)
  rt_owned : list nat;          (* owned_mailboxes *)
  rt_desired : option nat;      (* desired_box_id *)
  rt_won : bool                 (* wake_on_next *)
}.

Record wstate := mkW {
  w_id : nat;                              (* encoded: code's worker id + 1 *)
  w_tasks : list (addr * rtask);           (* _tasks, insertion order *)
  w_delayed : list task;                   (* _delayed_tasks, last = next *)
  w_ready : list addr;                     (* _ready_task_ids, head = next *)
  w_cancelled : list addr;                 (* _cancelled_task_ids *)
  w_boxes : list (nat * mbox);             (* _mailboxes *)
  w_counter : nat;                         (* _mailbox_counter *)
  w_blocked : bool                         (* main thread sits in the blocking Queue.get() *)
}.

Definition init_worker (id : nat) : wstate := mkW id [] [] [] [] [] 0 false.

Definition lookup_t := @lookup addr rtask addr_eqb.
Definition remove_t := @remove addr rtask addr_eqb.
Definition put_t := @put addr rtask addr_eqb.
Definition lookup_b := @lookup nat mbox Nat.eqb.
Definition remove_b := @remove nat mbox Nat.eqb.
Definition put_b := @put nat mbox Nat.eqb.

Definition set_tasks x w := mkW (w_id w) x (w_delayed w) (w_ready w) (w_cancelled w) (w_boxes w) (w_counter w) (w_blocked w).
Definition set_delayed x w := mkW (w_id w) (w_tasks w) x (w_ready w) (w_cancelled w) (w_boxes w) (w_counter w) (w_blocked w).
Definition set_ready x w := mkW (w_id w) (w_tasks w) (w_delayed w) x (w_cancelled w) (w_boxes w) (w_counter w) (w_blocked w).
Definition set_cancelled x w := mkW (w_id w) (w_tasks w) (w_delayed w) (w_ready w) x (w_boxes w) (w_counter w) (w_blocked w).
Definition set_boxes x w := mkW (w_id w) (w_tasks w) (w_delayed w) (w_ready w) (w_cancelled w) x (w_counter w) (w_blocked w).
Definition set_counter x w := mkW (w_id w) (w_tasks w) (w_delayed w) (w_ready w) (w_cancelled w) (w_boxes w) x (w_blocked w).
Definition set_blocked x w := mkW (w_id w) (w_tasks w) (w_delayed w) (w_ready w) (w_cancelled w) (w_boxes w) (w_counter w) x.

Definition set_rt_owned x rt := mkRt (rt_task rt) (rt_pc rt) (rt_futs rt) x (rt_desired rt) (rt_won rt).

Definition fresh_rt (t : task) : rtask := mkRt t 0 [] [] None false.

(* ---------------------------------------------------------------- receiving thread *)
(* Worker._add_task *)
Definition add_task (t : task) (w : wstate) : wstate :=
  set_ready (w_ready w ++ [t_addr t]) (set_tasks (put_t (t_addr t) (fresh_rt t) (w_tasks w)) w).

Definition recv_submit (t : task) (w : wstate) : wstate := add_task t w.

(* SUBMIT_BATCH: _add_task(tasks.pop()); _delayed_tasks.extend(tasks) *)
Definition recv_batch (ts : list task) (w : wstate) : option wstate :=
  match rev ts with
  | [] => None                               (* IndexError: pop from empty list *)
  | last :: rrest =>
      let w1 := add_task last w in
      Some (set_delayed (w_delayed w1 ++ rev rrest) w1)
  end.

(* Worker._handle_result; None = the KeyError of `self._tasks[box.dest_addr]` *)
Definition handle_result (ra : addr) (v : nat) (w : wstate) : option (wstate * list label) :=
  match ra with
  | (_, mbid, slot) =>
    match lookup_b mbid (w_boxes w) with
    | None => Some (w, [LDiscard (w_id w) ra v])
    | Some box =>
      let box1 := deposit slot v box in
      match mb_dest box1 with
      | None => Some (set_boxes (put_b mbid box1 (w_boxes w)) w, [])
      | Some d =>
        match lookup_t d (w_tasks w) with
        | None => None
        | Some rt =>
          if rt_won rt || box_ready box1
          then Some (set_ready (w_ready w ++ [d])
                       (set_boxes (put_b mbid (set_dest None box1) (w_boxes w)) w), [])
          else Some (set_boxes (put_b mbid box1 (w_boxes w)) w, [])
        end
      end
    end
  end.

(* Worker._handle_cancel; None = KeyError of `self._mailboxes.pop(mailbox_id)` *)
Fixpoint pop_boxes (ids : list nat) (b : list (nat * mbox)) : option (list (nat * mbox)) :=
  match ids with
  | [] => Some b
  | i :: r => match lookup_b i b with None => None | Some _ => pop_boxes r (remove_b i b) end
  end.

Fixpoint cancel_tasks (wid : nat) (c : addr) (ts : list (addr * rtask)) (b : list (nat * mbox))
  : option (list (addr * rtask) * list (nat * mbox) * list label) :=
  match ts with
  | [] => Some ([], b, [])
  | (k, rt) :: r =>
      if desc c (rt_task rt)
      then match pop_boxes (rt_owned rt) b with
           | None => None
           | Some b1 =>
             match cancel_tasks wid c r b1 with
             | None => None
             | Some (ts', b2, l) => Some (ts', b2, LDrop wid (rt_task rt) :: l)
             end
           end
      else match cancel_tasks wid c r b with
           | None => None
           | Some (ts', b2, l) => Some ((k, rt) :: ts', b2, l)
           end
  end.

Definition handle_cancel (c : addr) (w : wstate) : option (wstate * list label) :=
  let canc := if mem_addr c (w_cancelled w) then w_cancelled w else w_cancelled w ++ [c] in
  match cancel_tasks (w_id w) c (w_tasks w) (w_boxes w) with
  | None => None
  | Some (ts', b', l) =>
      Some (set_delayed (filter (fun t => negb (desc c t)) (w_delayed w))
              (set_boxes b' (set_tasks ts' (set_cancelled canc w))),
            l ++ map (LDrop (w_id w)) (filter (desc c) (w_delayed w)))
  end.

(* ---------------------------------------------------------------- main thread: _get_next_ready_task *)
Definition runnable (w : wstate) (a : addr) : option rtask :=
  if mem_addr a (w_cancelled w) then None else
  match lookup_t a (w_tasks w) with
  | None => None
  | Some rt =>
      if existsb (fun b => mem_addr b (w_cancelled w)) (t_crumbs (rt_task rt)) then None else Some rt
  end.

(* The second skip test of _get_next_ready_task (a breadcrumb is cancelled).  Since /repo 5dfab15 the task is
   forgotten (`task.cancel(); self._tasks.pop(addr)`): [f8 = true].  [f8 = false] is the code before that commit, which
   left the entry in _tasks for ever (D8).  The first test (`addr in cancelled or addr not in _tasks`) removes nothing. *)
Definition crumb_dead (w : wstate) (a : addr) : bool :=
  negb (mem_addr a (w_cancelled w)) &&
  match lookup_t a (w_tasks w) with
  | Some rt => existsb (fun b => mem_addr b (w_cancelled w)) (t_crumbs (rt_task rt))
  | None => false
  end.
Definition forget (f8 : bool) (w : wstate) (a : addr) : wstate :=
  if f8 && crumb_dead w a then set_tasks (remove_t a (w_tasks w)) w else w.

Fixpoint sel_ready (f8 : bool) (w : wstate) (ready : list addr) (lab : list label)
  : option rtask * wstate * list addr * list label :=
  match ready with
  | [] => (None, w, [], lab)
  | a :: r =>
      match runnable w a with
      | Some rt => (Some rt, w, r, lab)
      | None => sel_ready f8 (forget f8 w a) r
                  (lab ++ [LSkip (w_id w) a (option_map rt_task (lookup_t a (w_tasks w)))])
      end
  end.

(* ready queue is empty: start delayed tasks (LIFO) until one is runnable.  rdel = reversed _delayed_tasks *)
Fixpoint sel_delayed (f8 : bool) (w : wstate) (rdel : list task) (lab : list label)
  : option rtask * wstate * list label :=
  match rdel with
  | [] => (None, set_delayed [] w, lab)
  | t :: rest =>
      let w1 := set_tasks (put_t (t_addr t) (fresh_rt t) (w_tasks w)) w in
      match runnable w1 (t_addr t) with
      | Some rt => (Some rt, set_delayed (rev rest) w1, lab)
      | None => sel_delayed f8 (forget f8 w1 (t_addr t)) rest (lab ++ [LSkip (w_id w) (t_addr t) (Some t)])
      end
  end.

(* result: selected task (None = blocked, WAITING sent), state with queue/delayed/tasks updated *)
Definition select (f8 : bool) (w : wstate) : option rtask * wstate * list msg * list label :=
  match sel_ready f8 w (w_ready w) [] with
  | (Some rt, w', r, lab) => (Some rt, set_blocked false (set_ready r w'), [], lab)
  | (None, w', _, lab) =>
      match sel_delayed f8 (set_ready [] w') (rev (w_delayed w')) lab with
      | (Some rt, w1, lab1) => (Some rt, set_blocked false w1, [], lab1)
      | (None, w1, lab1) => (None, set_blocked true w1, [MWaiting], lab1)
      end
  end.

(* ---------------------------------------------------------------- main thread: one coroutine step *)
Inductive outcome := OYield (mb : nat) (nx : bool) | OReturn | ORaise (kind : nat).

Fixpoint mk_batch (wid mb : nat) (crumbs : list addr) (comp : nat) (i : nat) (ps : list nat) : list task :=
  match ps with
  | [] => []
  | p :: r => mkTask (wid, mb, i) crumbs comp p :: mk_batch wid mb crumbs comp (S i) r
  end.

Fixpoint cancel_msgs (wid mb : nat) (i n : nat) : list msg :=
  match n with
  | 0 => []
  | S k => MCancel (wid, mb, i) :: cancel_msgs wid mb (S i) k
  end.

Record cst := mkC {          (* what a coroutine step threads through *)
  c_boxes : list (nat * mbox);
  c_counter : nat;
  c_rt : rtask;
  c_out : list msg;
  c_lab : list label
}.

Definition child_crumbs (rt : rtask) : list addr := t_crumbs (rt_task rt) ++ [t_addr (rt_task rt)].

(* Worker.cancel(future) executed by the active task [rt]; None = raises (KeyError) *)
Definition do_cancel (wid mb : nat) (s : cst) : option cst :=
  match lookup_b mb (c_boxes s) with
  | None => None
  | Some box =>
      if mem_nat mb (rt_owned (c_rt s)) then
        Some (mkC (remove_b mb (c_boxes s)) (c_counter s)
                  (set_rt_owned (remove_first mb (rt_owned (c_rt s))) (c_rt s))
                  (c_out s ++ cancel_msgs wid mb 0 (mb_expected box))
                  (c_lab s ++ [LCancel wid (t_addr (rt_task (c_rt s))) mb (mb_expected box)]))
      else None                     (* ValueError of list.remove *)
  end.

Definition adv (rt : rtask) : rtask :=
  mkRt (rt_task rt) (S (rt_pc rt)) (rt_futs rt) (rt_owned rt) (rt_desired rt) (rt_won rt).

Fixpoint run_instrs (wid : nat) (is : list instr) (s : cst) : outcome * cst :=
  match is with
  | [] => (OReturn, s)
  | i :: rest =>
    let rt := adv (c_rt s) in
    match i with
    | ISubmit p =>
        let mb := c_counter s in
        let t := mkTask (wid, mb, 0) (child_crumbs rt) (t_comp (rt_task rt)) p in
        run_instrs wid rest
          (mkC (put_b mb (new_box None) (c_boxes s)) (S mb)
               (mkRt (rt_task rt) (rt_pc rt) (rt_futs rt ++ [mb]) (rt_owned rt ++ [mb]) (rt_desired rt) (rt_won rt))
               (c_out s ++ [MSubmit t]) (c_lab s))
    | IMap ps =>
        match ps with
        | [] => (ORaise K_MAP0, mkC (c_boxes s) (c_counter s) rt (c_out s) (c_lab s))
        | _ =>
          let mb := c_counter s in
          let ts := mk_batch wid mb (child_crumbs rt) (t_comp (rt_task rt)) 0 ps in
          run_instrs wid rest
            (mkC (put_b mb (new_box (Some (length ps))) (c_boxes s)) (S mb)
                 (mkRt (rt_task rt) (rt_pc rt) (rt_futs rt ++ [mb]) (rt_owned rt ++ [mb]) (rt_desired rt) (rt_won rt))
                 (c_out s ++ [MBatch ts]) (c_lab s))
        end
    | ICancel f =>
        match nth_error (rt_futs rt) f with
        | None => (ORaise K_INDEX, mkC (c_boxes s) (c_counter s) rt (c_out s) (c_lab s))
        | Some mb =>
          match do_cancel wid mb (mkC (c_boxes s) (c_counter s) rt (c_out s) (c_lab s)) with
          | None => (ORaise K_KEYERROR, mkC (c_boxes s) (c_counter s) rt (c_out s) (c_lab s))
          | Some s1 => run_instrs wid rest s1
          end
        end
    | IAwait f =>
        match nth_error (rt_futs rt) f with
        | None => (ORaise K_INDEX, mkC (c_boxes s) (c_counter s) rt (c_out s) (c_lab s))
        | Some mb => (OYield mb false, mkC (c_boxes s) (c_counter s) rt (c_out s) (c_lab s))
        end
    | INext f =>
        match nth_error (rt_futs rt) f with
        | None => (ORaise K_INDEX, mkC (c_boxes s) (c_counter s) rt (c_out s) (c_lab s))
        | Some mb =>
          match lookup_b mb (c_boxes s) with
          | None => (ORaise K_NEXT_COMPLETED, mkC (c_boxes s) (c_counter s) rt (c_out s) (c_lab s))
          | Some _ => (OYield mb true, mkC (c_boxes s) (c_counter s) rt (c_out s) (c_lab s))
          end
        end
    end
  end.

(* Worker._get_desired_result: value sent into the coroutine; None = assertion/KeyError *)
Definition desired_result (wid : nat) (rt : rtask) (boxes : list (nat * mbox))
  : option (list (nat * mbox) * rtask * list label) :=
  match rt_desired rt with
  | None => Some (boxes, rt, [])
  | Some mb =>
    match lookup_b mb boxes with
    | None => None
    | Some box =>
      if rt_won rt then
        match mb_fresh box with
        | None => None
        | Some fr => Some (put_b mb (set_fresh (Some []) box) boxes, rt,
                           [LObs wid (t_addr (rt_task rt)) mb true fr])
        end
      else if box_ready box then
        if mem_nat mb (rt_owned rt) then
          Some (remove_b mb boxes, set_rt_owned (remove_first mb (rt_owned rt)) rt,
                [LObs wid (t_addr (rt_task rt)) mb false (slot_vals 0 (mb_slots box))])
        else None
      else None
    end
  end.

(* the `for mailbox_id in self._active_task.owned_mailboxes:` loop of _process_task_completion.  Python iterates
   by index over the list object that Worker.cancel mutates (owned_mailboxes.remove): position i is re-read from the
   current list on every iteration. *)
Fixpoint completion_loop_py (fuel : nat) (wid : nat) (i : nat) (s : cst) : option cst :=
  match fuel with
  | 0 => Some s
  | S fuel' =>
    match nth_error (rt_owned (c_rt s)) i with
    | None => Some s
    | Some mb =>
      match lookup_b mb (c_boxes s) with
      | Some box =>
        if box_ready box
        then completion_loop_py fuel' wid (S i)
               (mkC (remove_b mb (c_boxes s)) (c_counter s) (c_rt s) (c_out s) (c_lab s))
        else match do_cancel wid mb s with
             | None => None
             | Some s1 => completion_loop_py fuel' wid (S i) s1
             end
      | None => None          (* Worker.cancel: KeyError *)
      end
    end
  end.

(* the current loop (`for mailbox_id in list(owned_mailboxes)`, /repo 046ff56): iterates over a snapshot *)
Fixpoint completion_loop_copy (wid : nat) (l : list nat) (s : cst) : option cst :=
  match l with
  | [] => Some s
  | mb :: r =>
      match lookup_b mb (c_boxes s) with
      | Some box =>
        if box_ready box
        then completion_loop_copy wid r (mkC (remove_b mb (c_boxes s)) (c_counter s) (c_rt s) (c_out s) (c_lab s))
        else match do_cancel wid mb s with
             | None => None
             | Some s1 => completion_loop_copy wid r s1
             end
      | None => None
      end
  end.

(* Everything from here on is parametrised by [fx]: true = the loop of /repo since 046ff56 (iterates over a copy),
   false = the loop before that commit (D14).  The harness selects the variant by probing the implementation (true on
   the current tree); the theorems hold for both. *)
Section Fix.
Variable fx : bool.
Variable f8 : bool.

Definition completion (wid : nat) (s : cst) : option cst :=
  if fx then completion_loop_copy wid (rt_owned (c_rt s)) s
  else completion_loop_py (length (rt_owned (c_rt s))) wid 0 s.

Definition reset_await (rt : rtask) : rtask :=      (* RuntimeTask.step: wake_on_next = False; desired_box_id = None *)
  mkRt (rt_task rt) (rt_pc rt) (rt_futs rt) (rt_owned rt) None false.

(* error path of _try_step_next_ready_task *)
Definition raise_path (w : wstate) (rt : rtask) (kind : nat) (out : list msg) (lab : list label)
  : wstate * list msg * list label :=
  let a := t_addr (rt_task rt) in
  let w1 := set_tasks (put_t a rt (w_tasks w)) w in
  if is_runtime_error kind && existsb (fun c => desc c (rt_task rt)) (w_cancelled w)
  then (w1, out, lab ++ [LErr (w_id w) a kind false])
  else (w1, out ++ [MError (t_comp (rt_task rt)) kind], lab ++ [LErr (w_id w) a kind true]).

(* one call of _try_step_next_ready_task.  Result None = the worker loop itself crashes (exception escapes). *)
Definition wstep (P : progs) (w0 : wstate) : option (wstate * list msg * list label) :=
  if w_blocked w0 && (match w_ready w0 with [] => true | _ => false end) then None else
  match select f8 w0 with
  | (None, w, out, lab) => Some (w, out, lab)
  | (Some rt0, w, out, lab) =>
    let wid := w_id w in
    let a := t_addr (rt_task rt0) in
    let lab := lab ++ [LRun wid (rt_task rt0)] in
    match desired_result wid rt0 (w_boxes w) with
    | None => Some (raise_path w rt0 K_INTERNAL out lab)
    | Some (boxes1, rt1, l1) =>
      let rt2 := reset_await rt1 in
      match nth_error P (t_prog (rt_task rt2)) with
      | None => Some (raise_path (set_boxes boxes1 w) rt2 K_INDEX out (lab ++ l1))
      | Some prog =>
        match run_instrs wid (skipn (rt_pc rt2) prog) (mkC boxes1 (w_counter w) rt2 out (lab ++ l1)) with
        | (ORaise k, s) =>
            Some (raise_path (set_counter (c_counter s) (set_boxes (c_boxes s) w)) (c_rt s) k (c_out s) (c_lab s))
        | (OYield mb nx, s) =>
            let w1 := set_counter (c_counter s) (set_boxes (c_boxes s) w) in
            match lookup_b mb (c_boxes s) with
            | None => Some (raise_path w1 (c_rt s) K_AWAIT_CANCELLED (c_out s) (c_lab s))
            | Some box =>
                let rt3 := mkRt (rt_task (c_rt s)) (rt_pc (c_rt s)) (rt_futs (c_rt s)) (rt_owned (c_rt s)) (Some mb) nx in
                let w2 := set_tasks (put_t a rt3 (w_tasks w1))
                            (set_boxes (put_b mb (set_dest (Some a) box) (c_boxes s)) w1) in
                Some (if box_ready box then set_ready (w_ready w2 ++ [a]) w2 else w2, c_out s, c_lab s)
            end
        | (OReturn, s) =>
            let w1 := set_counter (c_counter s) (set_boxes (c_boxes s) w) in
            let v := t_prog (rt_task rt0) in
            let labd := c_lab s ++ [LDone wid (rt_task rt0)] in
            (* ship the result *)
            let shipped :=
              match a with
              | (dst, _, _) =>
                if dst =? wid
                then match handle_result a v w1 with
                     | None => None
                     | Some (w2, l2) => Some (w2, c_out s ++ [MUpdate], labd ++ l2)
                     end
                else Some (w1, c_out s ++ [MResult a v wid], labd)
              end in
            match shipped with
            | None => None
            | Some (w2, out2, lab2) =>
              let w3 := set_tasks (remove_t a (w_tasks w2)) w2 in
              match completion wid (mkC (w_boxes w3) (w_counter w3) (c_rt s) out2 lab2) with
              | None => None
              | Some s2 =>
                  Some (set_boxes (c_boxes s2) w3, c_out s2,
                        c_lab s2 ++ [LLeft wid a (filter (fun mb => match lookup_b mb (c_boxes s2) with
                                                                    | Some _ => true | None => false end)
                                                         (rt_owned (c_rt s)))])
              end
            end
        end
      end
    end
  end.

(* ---------------------------------------------------------------- server (DetachedServer, flat topology) *)
Record sbox := mkSB { sb_result : option nat; sb_waiting : bool }.

Record sstate := mkS {
  s_clients : list (nat * list nat);        (* clients: conn -> set of task ids *)
  s_tasks : list (nat * (nat * nat));       (* tasks: task id -> (mailbox id, conn) *)
  s_m2t : list (nat * nat);                 (* mailbox_to_task_dict *)
  s_boxes : list (nat * sbox);              (* mailboxes *)
  s_counter : nat;                          (* mailbox_counter *)
  s_closed : list nat                       (* client connections that were closed *)
}.

Definition init_server : sstate := mkS [] [] [] [] 0 [].

Definition lookup_n {V} := @lookup nat V Nat.eqb.
Definition remove_n {V} := @remove nat V Nat.eqb.
Definition put_n {V} := @put nat V Nat.eqb.

Definition set_s_clients x s := mkS x (s_tasks s) (s_m2t s) (s_boxes s) (s_counter s) (s_closed s).
Definition set_s_tasks x s := mkS (s_clients s) x (s_m2t s) (s_boxes s) (s_counter s) (s_closed s).
Definition set_s_m2t x s := mkS (s_clients s) (s_tasks s) x (s_boxes s) (s_counter s) (s_closed s).
Definition set_s_boxes x s := mkS (s_clients s) (s_tasks s) (s_m2t s) x (s_counter s) (s_closed s).
Definition set_s_counter x s := mkS (s_clients s) (s_tasks s) (s_m2t s) (s_boxes s) x (s_closed s).
Definition set_s_closed x s := mkS (s_clients s) (s_tasks s) (s_m2t s) (s_boxes s) (s_counter s) x.

(* what a server handler produces: messages per worker channel (in order), messages to clients *)
Record sout := mkO { o_down : list (nat * msg); o_cli : list (nat * cmsg) }.
Definition no_out := mkO [] [].
Definition out_app (a b : sout) := mkO (o_down a ++ o_down b) (o_cli a ++ o_cli b).

(* ServerBase.broadcast to employees 0..nw-1 *)
Definition broadcast (nw : nat) (m : msg) : list (nat * msg) := map (fun w => (w, m)) (seq 0 nw).

(* ServerBase.schedule_tasks with the random assignment as an oracle: [assign] lists, in sending order,
   (employee, positions of its tasks in the batch).  It must be a partition of the batch positions into non-empty
   groups for distinct, existing employees. *)
Definition assignment := list (nat * list nat).

Fixpoint insert_sorted (x : nat) (l : list nat) : list nat :=
  match l with [] => [x] | y :: r => if x <=? y then x :: l else y :: insert_sorted x r end.
Definition sort_nat (l : list nat) : list nat := fold_right insert_sorted [] l.
Fixpoint list_eqb (a b : list nat) : bool :=
  match a, b with
  | [], [] => true
  | x :: a', y :: b' => Nat.eqb x y && list_eqb a' b'
  | _, _ => false
  end.
Fixpoint nodupb (l : list nat) : bool :=
  match l with [] => true | x :: r => negb (mem_nat x r) && nodupb r end.

Definition valid_assign (nw n : nat) (asg : assignment) : bool :=
  list_eqb (sort_nat (concat (map snd asg))) (seq 0 n)
  && forallb (fun p => (fst p <? nw) && negb (match snd p with [] => true | _ => false end)) asg
  && nodupb (map fst asg).

Fixpoint pick {A} (l : list A) (idx : list nat) : list A :=
  match idx with
  | [] => []
  | i :: r => match nth_error l i with Some x => x :: pick l r | None => pick l r end
  end.

Definition schedule (nw : nat) (ts : list task) (asg : assignment) : option (list (nat * msg)) :=
  match ts with
  | [] => Some []
  | _ => if valid_assign nw (length ts) asg
         then Some (map (fun p => (fst p, MBatch (pick ts (snd p)))) asg)
         else None
  end.

(* DetachedServer.handle_cancel_comp_task(conn, request) (as of /repo 50308af).  Only the requester's own live task
   (id in clients[conn] and in tasks) is cancelled: tasks[id], its mailbox and mailbox_to_task_dict[mailbox] are
   popped, the id leaves clients[conn], CANCEL(root) is broadcast.  Anything else is only acknowledged.
   None = raises (KeyError: conn not in clients, or a table entry that the invariant guarantees is missing). *)
Definition cancel_comp (nw : nat) (conn id : nat) (s : sstate) : option (sstate * sout * list addr) :=
  match lookup_n conn (s_clients s) with
  | None => None
  | Some ids =>
    let ack := if mem_nat conn (s_closed s) then [] else [(conn, CCancelAck)] in
    match (if mem_nat id ids then lookup_n id (s_tasks s) else None) with
    | None => Some (s, mkO [] ack, [])
    | Some (mb, _) =>
      match lookup_n mb (s_boxes s), lookup_n mb (s_m2t s) with
      | Some _, Some _ =>
        let a := (0, mb, 0) in
        Some (set_s_clients (put_n conn (remove_first id ids) (s_clients s))
                (set_s_m2t (remove_n mb (s_m2t s))
                (set_s_boxes (remove_n mb (s_boxes s))
                (set_s_tasks (remove_n id (s_tasks s)) s))),
              mkO (broadcast nw (MCancel a)) ack, [a])
      | _, _ => None
      end
    end
  end.

Fixpoint cancel_all (nw : nat) (conn : nat) (ids : list nat) (s : sstate) : option (sstate * sout * list addr) :=
  match ids with
  | [] => Some (s, no_out, [])
  | id :: r =>
    match cancel_comp nw conn id s with
    | None => None
    | Some (s1, o1, i1) =>
      match cancel_all nw conn r s1 with
      | None => None
      | Some (s2, o2, i2) => Some (s2, out_app o1 o2, i1 ++ i2)
      end
    end
  end.

(* DetachedServer.handle_disconnect(conn): close; cancel every task in clients[conn] (snapshot [order] = iteration
   order of the python set); pop clients[conn]; pop the remaining (delivered) tasks of the connection *)
Definition disconnect (nw : nat) (conn : nat) (order : list nat) (s : sstate) : option (sstate * sout * list addr) :=
  match lookup_n conn (s_clients s) with
  | None => None
  | Some ids =>
    if list_eqb (sort_nat order) (sort_nat ids) then
      let s1 := set_s_closed (conn :: s_closed s) s in
      match cancel_all nw conn order s1 with
      | None => None
      | Some (s2, o, iss) =>
        let s2' := set_s_clients (remove_n conn (s_clients s2)) s2 in
        let gone := filter (fun e => Nat.eqb (snd (snd e)) conn) (s_tasks s2') in
        let s3 := set_s_tasks (filter (fun e => negb (Nat.eqb (snd (snd e)) conn)) (s_tasks s2')) s2' in
        let s4 := set_s_m2t (filter (fun e => negb (mem_nat (fst e) (map (fun g => fst (snd g)) gone))) (s_m2t s3)) s3 in
        Some (s4, o, iss)
      end
    else None
  end.

Inductive creq :=
| CConnect
| CSubmit (id prog : nat)
| CRequest (id : nat) (order : list nat)   (* order: only used when the request is unknown (-> disconnect) *)
| CCancel (id : nat)
| CDisconnect (order : list nat).

(* requests of a client connection; None = handler raises *)
Definition sreq (nw : nat) (c : nat) (r : creq) (asg : assignment) (s : sstate)
  : option (sstate * sout * list addr) :=
  match r with
  | CConnect =>
      match lookup_n c (s_clients s) with
      | Some _ => None
      | None => if mem_nat c (s_closed s) then None
                else Some (set_s_clients (put_n c [] (s_clients s)) s, no_out, [])
      end
  | CSubmit id prog =>
      match lookup_n c (s_clients s) with
      | None => None
      | Some ids =>
        match lookup_n id (s_tasks s) with
        | Some _ => None                   (* environment assumption: task ids are uuid4, never reused *)
        | None =>
        let mb := s_counter s in
        let s1 := set_s_counter (S mb)
                  (set_s_clients (put_n c (if mem_nat id ids then ids else ids ++ [id]) (s_clients s))
                  (set_s_boxes (put_n mb (mkSB None false) (s_boxes s))
                  (set_s_m2t (put_n mb id (s_m2t s))
                  (set_s_tasks (put_n id (mb, c) (s_tasks s)) s)))) in
        match schedule nw [mkTask (0, mb, 0) [] mb prog] asg with
        | None => None
        | Some d => Some (s1, mkO d [], [])
        end
        end
      end
  | CRequest id order =>
      match lookup_n c (s_clients s) with
      | None => None
      | Some ids =>
        match (if mem_nat id ids then lookup_n id (s_tasks s) else None) with
        | None =>    (* ERROR 'Unknown task.' is queued, then handle_disconnect(conn) closes the connection before
                        the outgoing thread looks at it (send_outgoing skips closed connections) *)
            disconnect nw c order s
        | Some (mb, _) =>
          match lookup_n mb (s_boxes s) with
          | None => None
          | Some box =>
            match sb_result box with
            | Some v =>
                Some (set_s_clients (put_n c (remove_first id ids) (s_clients s))
                        (set_s_boxes (remove_n mb (s_boxes s)) s),
                      mkO [] [(c, CResult v)], [])
            | None => Some (set_s_boxes (put_n mb (mkSB None true) (s_boxes s)) s, no_out, [])
            end
          end
        end
      end
  | CCancel id => cancel_comp nw c id s
  | CDisconnect order => disconnect nw c order s
  end.

(* messages from below (worker index w); None = handler raises *)
Definition sup (nw : nat) (m : msg) (asg : assignment) (s : sstate)
  : option (sstate * sout * list label) :=
  match m with
  | MSubmit t => match schedule nw [t] asg with None => None | Some d => Some (s, mkO d [], []) end
  | MBatch ts => match schedule nw ts asg with None => None | Some d => Some (s, mkO d [], []) end
  | MCancel a => Some (s, mkO (broadcast nw (MCancel a)) [], [])
  | MWaiting | MUpdate => Some (s, no_out, [])
  | MError comp kind =>
      match lookup_n comp (s_m2t s) with
      | None => Some (s, no_out, [])
      | Some id =>
        match lookup_n id (s_tasks s) with
        | None => None
        | Some (_, conn) =>
            Some (s, mkO [] (if mem_nat conn (s_closed s) then [] else [(conn, CError kind)]), [])
        end
      end
  | MResult ra v by_ =>
      match ra with
      | (0, mb, _) =>
        match lookup_n mb (s_boxes s) with
        | None => Some (s, no_out, [LSrvDiscard mb v])
        | Some box =>
          match lookup_n mb (s_m2t s) with
          | None => None
          | Some id =>
            if sb_waiting box then
              match lookup_n id (s_tasks s) with
              | None => None
              | Some (_, conn) =>
                match lookup_n conn (s_clients s) with
                | None => None
                | Some ids =>
                  if mem_nat id ids then
                    Some (set_s_clients (put_n conn (remove_first id ids) (s_clients s))
                            (set_s_boxes (remove_n mb (s_boxes s)) s),
                          mkO [] [(conn, CResult v)], [])
                  else None
                end
              end
            else Some (set_s_boxes (put_n mb (mkSB (Some v) false) (s_boxes s)) s, no_out, [])
          end
        end
      | (S k, _, _) =>
        if k <? nw then Some (s, mkO [(k, MResult ra v by_)] [], []) else None
      end
  end.

(* ---------------------------------------------------------------- the system *)
Record sys := mkSys {
  sy_workers : list wstate;
  sy_server : sstate;
  sy_up : list (list msg);        (* worker k -> server, FIFO, head = next *)
  sy_down : list (list msg);      (* server -> worker k *)
  sy_cli : list (nat * cmsg);     (* everything the server sent to clients, in order *)
  sy_issued : list addr           (* ghost: every address a CANCEL was issued for (never read by the handlers) *)
}.

Definition init_sys (nw : nat) : sys :=
  mkSys (map (fun k => init_worker (S k)) (seq 0 nw)) init_server (repeat [] nw) (repeat [] nw) [] [].

Inductive event :=
| EClient (c : nat) (r : creq) (asg : assignment)
| EUp (w : nat) (asg : assignment)      (* server handles the next message from worker w *)
| EDown (w : nat)                       (* worker w's receiving thread handles its next message *)
| EStep (w : nat).                      (* worker w's main thread: one _try_step_next_ready_task *)

Fixpoint push_down (d : list (nat * msg)) (ch : list (list msg)) : list (list msg) :=
  match d with
  | [] => ch
  | (w, m) :: r =>
      push_down r (match nth_error ch w with
                   | Some q => set_nth w (q ++ [m]) ch
                   | None => ch
                   end)
  end.

Fixpoint cancels_of (ms : list msg) : list addr :=
  match ms with
  | [] => []
  | MCancel a :: r => a :: cancels_of r
  | _ :: r => cancels_of r
  end.

Definition apply_sout (o : sout) (iss : list addr) (srv : sstate) (s : sys) : sys :=
  mkSys (sy_workers s) srv (sy_up s) (push_down (o_down o) (sy_down s))
        (sy_cli s ++ o_cli o) (sy_issued s ++ iss).

Definition step (P : progs) (s : sys) (e : event) : option (sys * list label) :=
  let nw := length (sy_workers s) in
  match e with
  | EClient c r asg =>
      match sreq nw c r asg (sy_server s) with
      | None => None
      | Some (srv, o, iss) => Some (apply_sout o iss srv s, map (fun p => LToClient (fst p) (snd p)) (o_cli o))
      end
  | EUp w asg =>
      match nth_error (sy_up s) w with
      | Some (m :: q) =>
          match sup nw m asg (sy_server s) with
          | None => None
          | Some (srv, o, lab) =>
              let s1 := mkSys (sy_workers s) (sy_server s) (set_nth w q (sy_up s)) (sy_down s) (sy_cli s) (sy_issued s) in
              Some (apply_sout o [] srv s1, lab ++ map (fun p => LToClient (fst p) (snd p)) (o_cli o))
          end
      | _ => None
      end
  | EDown w =>
      match nth_error (sy_down s) w, nth_error (sy_workers s) w with
      | Some (m :: q), Some ws =>
          let r := match m with
                   | MSubmit t => Some (recv_submit t ws, [])
                   | MBatch ts => match recv_batch ts ws with None => None | Some w1 => Some (w1, []) end
                   | MResult ra v _ => handle_result ra v ws
                   | MCancel a => handle_cancel a ws
                   | _ => None
                   end in
          match r with
          | None => None
          | Some (ws1, lab) =>
              Some (mkSys (set_nth w ws1 (sy_workers s)) (sy_server s) (sy_up s) (set_nth w q (sy_down s))
                          (sy_cli s) (sy_issued s), lab)
          end
      | _, _ => None
      end
  | EStep w =>
      match nth_error (sy_workers s) w, nth_error (sy_up s) w with
      | Some ws, Some q =>
          match wstep P ws with
          | None => None
          | Some (ws1, out, lab) =>
              Some (mkSys (set_nth w ws1 (sy_workers s)) (sy_server s) (set_nth w (q ++ out) (sy_up s)) (sy_down s)
                          (sy_cli s) (sy_issued s ++ cancels_of out), lab)
          end
      | _, _ => None
      end
  end.

Fixpoint run (P : progs) (s : sys) (evs : list event) : option (sys * list label) :=
  match evs with
  | [] => Some (s, [])
  | e :: r =>
      match step P s e with
      | None => None
      | Some (s1, l1) =>
          match run P s1 r with
          | None => None
          | Some (s2, l2) => Some (s2, l1 ++ l2)
          end
      end
  end.

End Fix.

(* ---------------------------------------------------------------- observations used by the statements *)
(* a SUBMIT(_BATCH) that is about to be handled by worker w although an ancestor-or-self of one of its tasks is
   already in w's _cancelled_task_ids: "SUBMIT overtaken by its own CANCEL" *)
Definition dead_on (w : wstate) (t : task) : bool := existsb (fun c => desc c t) (w_cancelled w).

Definition overtaken (s : sys) (e : event) : bool :=
  match e with
  | EDown w =>
      match nth_error (sy_down s) w, nth_error (sy_workers s) w with
      | Some (MSubmit t :: _), Some ws => dead_on ws t
      | Some (MBatch ts :: _), Some ws => existsb (dead_on ws) ts
      | _, _ => false
      end
  | _ => false
  end.

Definition quiescent (s : sys) : bool :=
  forallb (fun q => match q with [] => true | _ => false end) (sy_up s)
  && forallb (fun q => match q with [] => true | _ => false end) (sy_down s)
  && forallb (fun w => match w_ready w, w_delayed w with [], [] => true | _, _ => false end) (sy_workers s).

(* cancelled work = descendants (by breadcrumbs) of an address a CANCEL was issued for *)
Definition dead (issued : list addr) (t : task) : bool := existsb (fun c => desc c t) issued.

(* does worker w still hold something of cancelled work?  started or delayed dead tasks, or a mailbox whose
   children were cancelled explicitly *)
Definition holds_dead (issued : list addr) (w : wstate) : bool :=
  existsb (fun e => dead issued (rt_task (snd e))) (w_tasks w)
  || existsb (dead issued) (w_delayed w)
  || existsb (fun e => mem_addr (w_id w, fst e, 0) issued) (w_boxes w).

Definition clean (s : sys) : bool := forallb (fun w => negb (holds_dead (sy_issued s) w)) (sy_workers s).

(* every mailbox of a worker is owned by a task in its _tasks *)
Definition owned_somewhere (w : wstate) (mb : nat) : bool :=
  existsb (fun e => mem_nat mb (rt_owned (snd e))) (w_tasks w).
Definition no_orphans (w : wstate) : bool := forallb (fun e => owned_somewhere w (fst e)) (w_boxes w).
