(* C13 - proofs about the DetachedServer model (rt/ServerM.v).

   Rel s sp     : the four tables of the server are, key by key, exactly what the
                  five-state specification says about every task id / mailbox / connection
   SI sp        : internal consistency of a specification state
   step_ok      : one well-formed event on the repaired handlers: no crash, the
                  answers are the specification's answers, Rel/SI are kept
   run_ok       : the same for every event list (induction over the list)
   isolation, error_forwarded, result_provenance, silence_after_disconnect *)
From Coq Require Import List Arith Bool Lia.
Import ListNotations.
From BQ Require Import rt.ServerM.

Ltac eqb_all :=
  repeat match goal with
  | H : (_ =? _) = true |- _ => apply Nat.eqb_eq in H
  | H : (_ =? _) = false |- _ => apply Nat.eqb_neq in H
  end.
Ltac deq a b := destruct (a =? b) eqn:?; eqb_all; subst.

(* ------------------------------------------------------------ dictionaries *)
Section DictLemmas.
  Variable V : Type.
  Implicit Types d : list (nat * V).
  Definition keys d := map fst d.

  Lemma get_set : forall d k k' v, get k (set k' v d) = if k =? k' then Some v else get k d.
  Proof.
    induction d as [|[a b] d IH]; intros; simpl.
    - destruct (k =? k'); reflexivity.
    - deq k' a; simpl.
      + deq k a; reflexivity.
      + deq k a. * deq a k'; congruence. * apply IH.
  Qed.

  Lemma get_del : forall d k k', get k (del k' d) = if k =? k' then None else get k d.
  Proof.
    induction d as [|[a b] d IH]; intros; simpl.
    - destruct (k =? k'); reflexivity.
    - deq k' a; simpl.
      + rewrite IH. deq k a; reflexivity.
      + rewrite IH. deq k a. * deq a k'; congruence. * reflexivity.
  Qed.

  Lemma get_In : forall d k v, get k d = Some v -> In (k, v) d.
  Proof.
    induction d as [|[a b] d IH]; simpl; intros; try discriminate.
    deq k a. - inversion H; auto. - right; auto.
  Qed.

  Lemma get_None_keys : forall d k, get k d = None -> ~ In k (keys d).
  Proof.
    induction d as [|[a b] d IH]; simpl; intros; auto.
    deq k a; try discriminate. intros [E|E]; [congruence|]. eapply IH; eauto.
  Qed.

  Lemma In_get : forall d k v, NoDup (keys d) -> In (k, v) d -> get k d = Some v.
  Proof.
    induction d as [|[a b] d IH]; simpl; intros; try contradiction.
    inversion H; subst. destruct H0 as [E|E].
    - inversion E; subst. rewrite Nat.eqb_refl. reflexivity.
    - deq k a.
      + exfalso. match goal with X : ~ In _ _ |- _ => apply X end.
        change a with (fst (a, v)). apply in_map. exact E.
      + auto.
  Qed.

  Lemma keys_set : forall d k v, NoDup (keys d) -> NoDup (keys (set k v d)).
  Proof.
    induction d as [|[a b] d IH]; simpl; intros.
    - repeat constructor. simpl; tauto.
    - inversion H; subst. deq k a; simpl.
      + constructor; auto.
      + constructor; auto. intro X. apply H2.
        clear - X Heqb0. induction d as [|[c e] d IH]; simpl in *.
        * destruct X; congruence.
        * deq k c; simpl in *; tauto.
  Qed.

  Lemma keys_del : forall d k, NoDup (keys d) -> NoDup (keys (del k d)).
  Proof.
    induction d as [|[a b] d IH]; simpl; intros; auto.
    inversion H; subst. destruct (negb (k =? a)); simpl; auto.
    constructor; auto. intro X. apply H2. unfold keys, del in *.
    apply in_map_iff in X. destruct X as [[x y] [E1 E2]]. apply filter_In in E2.
    simpl in *. subst. change a with (fst (a, y)). apply in_map. tauto.
  Qed.

  Lemma haskey_get : forall d k, haskey k d = true <-> get k d <> None.
  Proof. unfold haskey; intros; destruct (get k d); split; congruence. Qed.
End DictLemmas.
Arguments keys {V}.

Lemma mem_In : forall ts t, mem t ts = true <-> In t ts.
Proof.
  unfold mem; intros. rewrite existsb_exists. split.
  - intros [x [A B]]. eqb_all. subst; auto.
  - intros. exists t. split; auto. apply Nat.eqb_refl.
Qed.

Lemma In_srem : forall ts t x, In x (srem t ts) <-> In x ts /\ x <> t.
Proof.
  unfold srem; intros. rewrite filter_In. split; intros [A B]; split; auto.
  - intro; subst. rewrite Nat.eqb_refl in B. discriminate.
  - deq t x; auto.
Qed.

Lemma In_sadd : forall ts t x, In x (sadd t ts) <-> In x ts \/ x = t.
Proof.
  unfold sadd; intros. destruct (mem t ts) eqn:E.
  - apply mem_In in E. split; [tauto|]. intros [A|A]; subst; auto.
  - rewrite in_app_iff. simpl. intuition.
Qed.

Section WithVariant.
Variable dc : bool.

(* -------------------------------------------------- tables <-> specification *)
Definition known (x : tstate) : bool := match x with TUnknown => false | _ => true end.
Definition boxof (x : tstate) : option box :=
  match x with TRunning w => Some (None, w) | TDone v => Some (Some v, false) | _ => None end.

Record Rel (s : state) (sp : spec) : Prop := mkRel {
  r_tasks : forall t, get t (tasks s) = if known (st sp t) then Some (mbx sp t, owner sp t) else None;
  r_m2t : forall mb, get mb (m2t s) = tom sp mb;
  r_boxes : forall mb, get mb (boxes s) = match tom sp mb with Some t => boxof (st sp t) | None => None end;
  r_clients : forall c, match get c (clients s) with
                        | None => cst sp c <> CConnected
                        | Some ts => cst sp c = CConnected /\ forall t, In t ts <-> own_open sp c t = true
                        end;
  r_counter : counter s = count sp;
  r_up : up s = true;
  r_nodup : NoDup (keys (tasks s))
}.

Record SI (sp : spec) : Prop := mkSI {
  si_tom : forall mb t, tom sp mb = Some t -> known (st sp t) = true /\ mbx sp t = mb;
  si_known : forall t, known (st sp t) = true -> tom sp (mbx sp t) = Some t /\ cst sp (owner sp t) = CConnected;
  si_count : forall mb t, tom sp mb = Some t -> mb < count sp
}.

Definition ClosedOK (s : state) (sp : spec) : Prop := forall c, In c (closed s) -> cst sp c = CClosed.

Definition Inv (s : state) (sp : spec) : Prop := Rel s sp /\ SI sp /\ ClosedOK s sp.

Lemma cst_is_eq : forall x y, cst_is x y = true <-> x = y.
Proof. destruct x, y; simpl; split; congruence. Qed.

Lemma open_known : forall x, is_open x = true -> known x = true.
Proof. destruct x; simpl; congruence. Qed.

Lemma own_open_inv : forall sp c t, own_open sp c t = true -> is_open (st sp t) = true /\ owner sp t = c.
Proof. unfold own_open; intros. apply andb_true_iff in H. destruct H. eqb_all. auto. Qed.

Lemma own_open_intro : forall sp t, is_open (st sp t) = true -> own_open sp (owner sp t) t = true.
Proof. unfold own_open; intros. rewrite H, Nat.eqb_refl. reflexivity. Qed.

Lemma connected_clients : forall s sp c, Rel s sp -> cst sp c = CConnected ->
  exists ts, get c (clients s) = Some ts /\ forall t, In t ts <-> own_open sp c t = true.
Proof.
  intros. pose proof (r_clients _ _ H c) as R. destruct (get c (clients s)).
  - exists l. tauto. - contradiction.
Qed.

Lemma unk_spec : forall s sp c t ts, Rel s sp ->
  get c (clients s) = Some ts -> (forall t, In t ts <-> own_open sp c t = true) ->
  negb (mem t ts) || negb (haskey t (tasks s)) = negb (own_open sp c t).
Proof.
  intros. destruct (own_open sp c t) eqn:E.
  - assert (M : mem t ts = true) by (apply mem_In, H1, E). rewrite M.
    apply own_open_inv in E. destruct E as [E _]. apply open_known in E.
    unfold haskey. rewrite (r_tasks _ _ H), E. reflexivity.
  - destruct (mem t ts) eqn:M; auto. apply mem_In, H1 in M. congruence.
Qed.

Lemma open_lookup : forall s sp c t, Rel s sp -> SI sp -> own_open sp c t = true ->
  get t (tasks s) = Some (mbx sp t, c) /\ get (mbx sp t) (boxes s) = boxof (st sp t)
  /\ tom sp (mbx sp t) = Some t.
Proof.
  intros. apply own_open_inv in H1. destruct H1 as [O W]. pose proof (open_known _ O) as K.
  destruct (si_known _ H0 t K) as [T _]. repeat split; auto.
  - rewrite (r_tasks _ _ H), K, W. reflexivity.
  - rewrite (r_boxes _ _ H), T. reflexivity.
Qed.

Lemma SI_set_st : forall sp t x, SI sp -> known (st sp t) = true -> known x = true -> SI (set_st sp t x).
Proof.
  intros sp t x [A B C] K X. constructor; simpl; unfold upd; intros.
  - deq t0 t; auto. split; auto. apply (A _ _ H).
  - deq t0 t; auto.
  - eauto.
Qed.

(* ---------------------------------------------------------------- status *)
Lemma status_ok : forall s sp c t, Rel s sp -> SI sp -> cst sp c = CConnected ->
  status (Fix dc) c t s = Ok s (snd (sstep dc sp (Status c t))).
Proof.
  intros s sp c t R S C. destruct (connected_clients _ _ _ R C) as [ts [G I]].
  unfold status. rewrite G, (unk_spec _ _ _ _ _ R G I). simpl.
  destruct (own_open sp c t) eqn:O; simpl; auto.
  destruct (open_lookup _ _ _ _ R S O) as [A [B _]]. rewrite A, B.
  apply own_open_inv in O. destruct O as [O _]. destruct (st sp t); simpl in *; try discriminate; reflexivity.
Qed.

(* ------------------------------------------------------------ error / log *)
Lemma forward_ok : forall s sp mk mb, Rel s sp -> SI sp ->
  forward mk mb s = Ok s (match tom sp mb with Some t => [mk (owner sp t)] | None => [] end).
Proof.
  intros. unfold forward. rewrite (r_m2t _ _ H). destruct (tom sp mb) eqn:T; auto.
  destruct (si_tom _ H0 _ _ T) as [K _]. rewrite (r_tasks _ _ H), K. reflexivity.
Qed.

(* --------------------------------------------- two generic table updates *)
Lemma own_open_set_st : forall sp t x c t',
  own_open (set_st sp t x) c t' = if t' =? t then is_open x && (owner sp t =? c) else own_open sp c t'.
Proof. intros. unfold own_open, set_st, upd; simpl. deq t' t; reflexivity. Qed.

(* the task leaves the open states (cancelled / delivered): mailbox dropped, id leaves the client's set *)
Lemma Rel_closeout : forall s s' sp c t ts x,
  Rel s sp -> SI sp -> own_open sp c t = true -> get c (clients s) = Some ts ->
  is_open x = false -> known x = true ->
  tasks s' = tasks s -> m2t s' = m2t s -> counter s' = counter s -> up s' = up s ->
  (forall mb, get mb (boxes s') = if mb =? mbx sp t then None else get mb (boxes s)) ->
  (forall c', get c' (clients s') = if c' =? c then Some (srem t ts) else get c' (clients s)) ->
  Rel s' (set_st sp t x).
Proof.
  intros s s' sp c t ts x R S O G NX KX E1 E2 E3 E4 HB HC.
  destruct (open_lookup _ _ _ _ R S O) as [L1 [L2 L3]].
  destruct (own_open_inv _ _ _ O) as [OP OW]. pose proof (open_known _ OP) as KT.
  constructor.
  - intros t'. rewrite E1, (r_tasks _ _ R). simpl. unfold upd. deq t' t; auto. rewrite KT, KX. reflexivity.
  - intros. rewrite E2. apply (r_m2t _ _ R).
  - intros mb. rewrite HB. simpl. unfold upd. deq mb (mbx sp t).
    + rewrite L3, Nat.eqb_refl. destruct x; simpl in *; congruence.
    + rewrite (r_boxes _ _ R). destruct (tom sp mb) eqn:T; auto.
      deq n t; auto. destruct (si_tom _ S _ _ T). congruence.
  - intros c'. rewrite HC. pose proof (r_clients _ _ R c') as RC. deq c' c.
    + rewrite G in RC. destruct RC as [RC1 RC2]. split; auto. intros t'.
      rewrite In_srem, own_open_set_st, RC2. deq t' t.
      * rewrite NX. simpl. split; [tauto | discriminate].
      * tauto.
    + destruct (get c' (clients s)); auto. destruct RC as [RC1 RC2]. split; auto. intros t'.
      rewrite own_open_set_st, RC2. deq t' t; [|tauto].
      rewrite NX. simpl. unfold own_open. deq (owner sp t) c'; try congruence.
      rewrite andb_false_r. tauto.
  - rewrite E3. apply (r_counter _ _ R).
  - rewrite E4. apply (r_up _ _ R).
  - rewrite E1. apply (r_nodup _ _ R).
Qed.

(* the task stays open: only its mailbox content changes *)
Lemma Rel_update : forall s s' sp t x,
  Rel s sp -> SI sp -> is_open (st sp t) = true -> is_open x = true ->
  tasks s' = tasks s -> m2t s' = m2t s -> counter s' = counter s -> up s' = up s -> clients s' = clients s ->
  (forall mb, get mb (boxes s') = if mb =? mbx sp t then boxof x else get mb (boxes s)) ->
  Rel s' (set_st sp t x).
Proof.
  intros s s' sp t x R S OP OX E1 E2 E3 E4 E5 HB.
  pose proof (open_known _ OP) as KT. pose proof (open_known _ OX) as KX.
  destruct (si_known _ S _ KT) as [L3 _].
  constructor.
  - intros t'. rewrite E1, (r_tasks _ _ R). simpl. unfold upd. deq t' t; auto. rewrite KT, KX. reflexivity.
  - intros. rewrite E2. apply (r_m2t _ _ R).
  - intros mb. rewrite HB. simpl. unfold upd. deq mb (mbx sp t).
    + rewrite L3, Nat.eqb_refl. reflexivity.
    + rewrite (r_boxes _ _ R). destruct (tom sp mb) eqn:T; auto.
      deq n t; auto. destruct (si_tom _ S _ _ T). congruence.
  - intros c'. rewrite E5. pose proof (r_clients _ _ R c') as RC.
    destruct (get c' (clients s)); auto. destruct RC as [RC1 RC2]. split; auto. intros t'.
    rewrite own_open_set_st, RC2. deq t' t; [|tauto].
    rewrite OX. unfold own_open. rewrite OP. tauto.
  - rewrite E3. apply (r_counter _ _ R).
  - rewrite E4. apply (r_up _ _ R).
  - rewrite E1. apply (r_nodup _ _ R).
Qed.

Lemma own_open_forget : forall sp t c t',
  own_open (forget sp t) c t' = if t' =? t then false else own_open sp c t'.
Proof. intros. unfold own_open, forget, upd; simpl. deq t' t; reflexivity. Qed.

(* [Fix true]: the cancelled task disappears from all four tables *)
Lemma Rel_forget : forall s s' sp c t ts,
  Rel s sp -> SI sp -> own_open sp c t = true -> get c (clients s) = Some ts ->
  counter s' = counter s -> up s' = up s ->
  (forall t', get t' (tasks s') = if t' =? t then None else get t' (tasks s)) ->
  (forall mb, get mb (m2t s') = if mb =? mbx sp t then None else get mb (m2t s)) ->
  (forall mb, get mb (boxes s') = if mb =? mbx sp t then None else get mb (boxes s)) ->
  (forall c', get c' (clients s') = if c' =? c then Some (srem t ts) else get c' (clients s)) ->
  NoDup (keys (tasks s')) ->
  Rel s' (forget sp t).
Proof.
  intros s s' sp c t ts R S O G E3 E4 HT HM HB HC ND.
  destruct (open_lookup _ _ _ _ R S O) as [L1 [L2 L3]].
  destruct (own_open_inv _ _ _ O) as [OP OW].
  constructor.
  - intros t'. rewrite HT, (r_tasks _ _ R). simpl. unfold upd. deq t' t; auto.
  - intros mb. rewrite HM, (r_m2t _ _ R). simpl. unfold upd. deq mb (mbx sp t); auto.
  - intros mb. rewrite HB. simpl. unfold upd. deq mb (mbx sp t); auto.
    rewrite (r_boxes _ _ R). destruct (tom sp mb) eqn:T; auto.
    deq n t; auto. destruct (si_tom _ S _ _ T). congruence.
  - intros c'. rewrite HC. pose proof (r_clients _ _ R c') as RC. deq c' c.
    + rewrite G in RC. destruct RC as [RC1 RC2]. split; auto. intros t'.
      rewrite In_srem, own_open_forget, RC2. deq t' t; [split; [tauto|discriminate]|tauto].
    + destruct (get c' (clients s)); auto. destruct RC as [RC1 RC2]. split; auto. intros t'.
      rewrite own_open_forget, RC2. deq t' t; [|tauto].
      unfold own_open. deq (owner sp t) c'; try congruence. rewrite andb_false_r. tauto.
  - rewrite E3. apply (r_counter _ _ R).
  - rewrite E4. apply (r_up _ _ R).
  - exact ND.
Qed.

Lemma SI_forget : forall sp t, SI sp -> known (st sp t) = true -> SI (forget sp t).
Proof.
  intros sp t [A B C] K. destruct (B _ K) as [T _]. constructor; simpl; unfold upd; intros.
  - deq mb (mbx sp t); try discriminate. destruct (A _ _ H) as [A1 A2].
    deq t0 t; [congruence|auto].
  - deq t0 t; try discriminate. destruct (B _ H) as [B1 B2]. split; auto.
    destruct (mbx sp t0 =? mbx sp t) eqn:Q; auto. apply Nat.eqb_eq in Q. rewrite Q in B1. congruence.
  - deq mb (mbx sp t); try discriminate. eauto.
Qed.

(* the specification's effect of an effective cancel, in both repaired variants *)
Definition cancelled (sp : spec) (t : nat) : spec := if dc then forget sp t else set_st sp t TCancelled.

Lemma SI_cancelled : forall sp t, SI sp -> known (st sp t) = true -> SI (cancelled sp t).
Proof. intros. unfold cancelled. destruct dc; [apply SI_forget|apply SI_set_st]; auto. Qed.

Lemma kn_spec : forall s sp c t ts, Rel s sp ->
  get c (clients s) = Some ts -> (forall t, In t ts <-> own_open sp c t = true) ->
  mem t ts && haskey t (tasks s) = own_open sp c t.
Proof.
  intros. rewrite <- (negb_involutive (mem t ts && haskey t (tasks s))), negb_andb.
  rewrite (unk_spec _ _ _ _ _ H H0 H1). apply negb_involutive.
Qed.

(* ---------------------------------------------------------------- cancel *)
Lemma cancel_fix_ok : forall s sp c t, Rel s sp -> SI sp -> cst sp c = CConnected ->
  exists s', cancel_fix dc c t s =
             Ok s' ((if own_open sp c t then [OBcast (mbx sp t)] else []) ++ ack c s)
    /\ Rel s' (if own_open sp c t then cancelled sp t else sp)
    /\ closed s' = closed s.
Proof.
  intros s sp c t R S C. destruct (connected_clients _ _ _ R C) as [ts [G I]].
  unfold cancel_fix. rewrite G, (kn_spec _ _ _ _ _ R G I).
  destruct (own_open sp c t) eqn:O.
  - destruct (open_lookup _ _ _ _ R S O) as [A [B T]]. rewrite A, B.
    destruct (own_open_inv _ _ _ O) as [OP _].
    assert (exists b, boxof (st sp t) = Some b) as [b Hb]
      by (destruct (st sp t); simpl in *; try discriminate; eauto).
    rewrite Hb. unfold cancelled. destruct dc.
    + rewrite (r_m2t _ _ R), T. eexists. split; [reflexivity|]. split; [|reflexivity].
      eapply Rel_forget with (c := c) (ts := ts); eauto; simpl; intros.
      * apply get_del. * apply get_del. * apply get_del. * apply get_set.
      * apply keys_del, (r_nodup _ _ R).
    + eexists. split; [reflexivity|]. split; [|reflexivity].
      eapply Rel_closeout with (c := c) (ts := ts); eauto; simpl; intros.
      * apply get_del. * apply get_set.
  - exists s. auto.
Qed.

(* --------------------------------------------------- request on an open id *)
Lemma request_open_ok : forall s sp c t, Rel s sp -> SI sp -> cst sp c = CConnected ->
  own_open sp c t = true ->
  exists s', request (Fix dc) c t s = Ok s' (snd (sstep dc sp (Request c t)))
    /\ Rel s' (fst (sstep dc sp (Request c t))) /\ closed s' = closed s.
Proof.
  intros s sp c t R S C O. destruct (connected_clients _ _ _ R C) as [ts [G I]].
  unfold request. rewrite G, (unk_spec _ _ _ _ _ R G I). simpl. rewrite O. simpl.
  destruct (open_lookup _ _ _ _ R S O) as [A [B _]]. rewrite A, B.
  destruct (own_open_inv _ _ _ O) as [OP _].
  destruct (st sp t) eqn:ST; simpl in *; try discriminate.
  - eexists. split; [reflexivity|]. split; [|reflexivity].
    eapply Rel_update; eauto; try (rewrite ST; reflexivity). simpl; intros. apply get_set.
  - eexists. split; [reflexivity|]. split; [|reflexivity].
    eapply Rel_closeout with (c := c) (ts := ts); eauto; simpl; intros.
    + apply get_del. + apply get_set.
Qed.

(* ------------------------------------------------------ RESULT from below *)
Lemma result_ok : forall s sp mb v, Rel s sp -> SI sp ->
  exists s', result mb v s = Ok s' (snd (sstep dc sp (Result mb v)))
    /\ Rel s' (fst (sstep dc sp (Result mb v))) /\ closed s' = closed s.
Proof.
  intros s sp mb v R S. unfold result. simpl. rewrite (r_boxes _ _ R).
  destruct (tom sp mb) as [t|] eqn:T; [|exists s; auto].
  destruct (si_tom _ S _ _ T) as [K M].
  destruct (st sp t) eqn:ST; simpl in *; try discriminate; try (exists s; auto; fail).
  - (* running *)
    rewrite (r_m2t _ _ R), T. destruct waiting.
    + rewrite (r_tasks _ _ R), ST. simpl.
      assert (O : own_open sp (owner sp t) t = true) by (apply own_open_intro; rewrite ST; reflexivity).
      destruct (si_known _ S t) as [_ C]; [rewrite ST; reflexivity|].
      destruct (connected_clients _ _ _ R C) as [ts [G I]]. rewrite G.
      assert (Hm : mem t ts = true) by (apply mem_In, I, O). rewrite Hm.
      eexists. split; [reflexivity|]. split; [|reflexivity].
      eapply Rel_closeout with (c := owner sp t) (ts := ts); eauto; simpl; intros.
      * rewrite get_del, get_set, M. deq mb0 mb; reflexivity.
      * apply get_set.
    + eexists. split; [reflexivity|]. split; [|reflexivity].
      eapply Rel_update; eauto; try (rewrite ST; reflexivity). simpl; intros. rewrite M. apply get_set.
  - (* done: a second RESULT overwrites the stored value *)
    rewrite (r_m2t _ _ R), T.
    eexists. split; [reflexivity|]. split; [|reflexivity].
    eapply Rel_update; eauto; try (rewrite ST; reflexivity). simpl; intros. rewrite M. apply get_set.
Qed.

(* ----------------------------------------------------------------- submit *)
Lemma new_task_ok : forall s sp c t, Rel s sp -> SI sp -> cst sp c = CConnected -> st sp t = TUnknown ->
  exists s', new_task c t s = Ok s' [OSched (count sp)]
    /\ Rel s' (fst (sstep dc sp (Submit c t))) /\ SI (fst (sstep dc sp (Submit c t))) /\ closed s' = closed s.
Proof.
  intros s sp c t R S C U. destruct (connected_clients _ _ _ R C) as [ts [G I]].
  unfold new_task. simpl. rewrite G, (r_counter _ _ R).
  assert (NT : forall mb, tom sp mb <> Some t).
  { intros mb E. destruct (si_tom _ S _ _ E) as [K _]. rewrite U in K. discriminate. }
  assert (NC : tom sp (count sp) = None).
  { destruct (tom sp (count sp)) eqn:E; auto. apply (si_count _ S) in E. lia. }
  eexists. split; [reflexivity|]. split; [|split; [|reflexivity]].
  - constructor; simpl; unfold upd.
    + intros t'. rewrite get_set, (r_tasks _ _ R). deq t' t; reflexivity.
    + intros mb. rewrite get_set, (r_m2t _ _ R). reflexivity.
    + intros mb. rewrite get_set, (r_boxes _ _ R). deq mb (count sp).
      * rewrite Nat.eqb_refl. reflexivity.
      * destruct (tom sp mb) eqn:T; auto. deq n t; auto. exfalso. eapply NT; eauto.
    + intros c'. rewrite get_set. pose proof (r_clients _ _ R c') as RC. deq c' c.
      * split; auto. intros t'. rewrite In_sadd, I. unfold own_open; simpl; unfold upd.
        deq t' t. -- rewrite Nat.eqb_refl. simpl. tauto.
        -- split; [intros [X|X]; [exact X|congruence]|tauto].
      * destruct (get c' (clients s)); auto. destruct RC as [RC1 RC2]. split; auto. intros t'.
        rewrite RC2. unfold own_open; simpl; unfold upd. deq t' t; [|tauto].
        rewrite U. simpl. deq c c'; try congruence. simpl. tauto.
    + reflexivity.
    + apply (r_up _ _ R).
    + apply keys_set, (r_nodup _ _ R).
  - destruct S as [A B D]. constructor; simpl; unfold upd; intros.
    + deq mb (count sp).
      * inversion H; subst. rewrite Nat.eqb_refl. auto.
      * deq t0 t. { exfalso. eapply NT; eauto. } apply (A _ _ H).
    + deq t0 t.
      * rewrite Nat.eqb_refl. auto.
      * destruct (B _ H) as [B1 B2]. split; auto.
        pose proof (D _ _ B1). deq (mbx sp t0) (count sp); auto. lia.
    + deq mb (count sp); auto. apply D in H. lia.
Qed.

(* ------------------------------------------------------------- disconnect *)
Definition cancel1 (sp : spec) (c t : nat) : spec := if own_open sp c t then cancelled sp t else sp.

Fixpoint cancel_all (sp : spec) (c : nat) (ts : list nat) : spec :=
  match ts with
  | [] => sp
  | t :: r => cancel_all (cancel1 sp c t) c r
  end.

Lemma answers_app : forall a b, answers (a ++ b) = answers a ++ answers b.
Proof. intros. apply filter_app. Qed.

Lemma SI_cancel1 : forall sp c t, SI sp -> SI (cancel1 sp c t).
Proof.
  intros. unfold cancel1. destruct (own_open sp c t) eqn:O; auto.
  apply SI_cancelled; auto. apply open_known. apply (own_open_inv _ _ _ O).
Qed.

Lemma cancel1_fields : forall sp c t,
  owner (cancel1 sp c t) = owner sp /\ mbx (cancel1 sp c t) = mbx sp
  /\ cst (cancel1 sp c t) = cst sp /\ count (cancel1 sp c t) = count sp.
Proof. intros. unfold cancel1, cancelled. destruct (own_open sp c t); auto. destruct dc; auto. Qed.

(* the state of one task after one cancel step *)
Lemma cancel1_st : forall sp c t t',
  st (cancel1 sp c t) t' =
  if own_open sp c t && (t' =? t) then (if dc then TUnknown else TCancelled) else st sp t'.
Proof.
  intros. unfold cancel1, cancelled. destruct (own_open sp c t); simpl; auto.
  destruct dc; simpl; unfold upd; destruct (t' =? t); reflexivity.
Qed.

Lemma cancel_loop_ok : forall ts s sp c, Rel s sp -> SI sp -> cst sp c = CConnected -> In c (closed s) ->
  exists s' o, foreach ts (cancel_fix dc c) s = Ok s' o /\ answers o = []
    /\ Rel s' (cancel_all sp c ts) /\ SI (cancel_all sp c ts) /\ closed s' = closed s.
Proof.
  induction ts as [|t r IH]; intros s sp c R S C CL; simpl.
  - exists s, []. auto.
  - destruct (cancel_fix_ok s sp c t R S C) as [s1 [E1 [R1 C1]]].
    fold (cancel1 sp c t) in R1.
    pose proof (SI_cancel1 sp c t S) as S1.
    assert (CC : cst (cancel1 sp c t) c = CConnected).
    { destruct (cancel1_fields sp c t) as [_ [_ [X _]]]. rewrite X. exact C. }
    assert (CL1 : In c (closed s1)) by (rewrite C1; auto).
    destruct (IH s1 _ c R1 S1 CC CL1) as [s2 [o2 [E2 [A2 [R2 [S2 C2]]]]]].
    rewrite E1. simpl. rewrite E2. eexists. eexists. split; [reflexivity|].
    split; [|split; [exact R2|split; [exact S2|congruence]]].
    rewrite !answers_app, A2. unfold ack. apply mem_In in CL. rewrite CL.
    destruct (own_open sp c t); reflexivity.
Qed.

Lemma cancel_all_fields : forall ts sp c,
  owner (cancel_all sp c ts) = owner sp /\ mbx (cancel_all sp c ts) = mbx sp
  /\ cst (cancel_all sp c ts) = cst sp /\ count (cancel_all sp c ts) = count sp.
Proof.
  induction ts as [|t r IH]; intros; simpl; auto.
  destruct (IH (cancel1 sp c t) c) as [A [B [D E]]].
  destruct (cancel1_fields sp c t) as [A' [B' [D' E']]].
  rewrite A, B, D, E. auto.
Qed.

Lemma cancel_all_other : forall ts sp c t, owner sp t <> c -> st (cancel_all sp c ts) t = st sp t.
Proof.
  induction ts as [|t0 r IH]; intros; simpl; auto.
  rewrite IH.
  - rewrite cancel1_st. destruct (own_open sp c t0) eqn:O; auto. simpl. deq t t0; auto.
    apply own_open_inv in O. tauto.
  - destruct (cancel1_fields sp c t0) as [A _]. rewrite A. exact H.
Qed.

Lemma cancel_all_never_opens : forall ts sp c t,
  is_open (st (cancel_all sp c ts) t) = true -> is_open (st sp t) = true.
Proof.
  induction ts as [|t0 r IH]; intros sp c t H; simpl in *; auto.
  apply IH in H. rewrite cancel1_st in H.
  destruct (own_open sp c t0 && (t =? t0)); auto. destruct dc; discriminate.
Qed.

Lemma cancel_all_unknown_stays : forall ts sp c t,
  known (st sp t) = false -> known (st (cancel_all sp c ts) t) = false.
Proof.
  induction ts as [|t0 r IH]; intros sp c t H; simpl in *; auto.
  apply IH. rewrite cancel1_st. destruct (own_open sp c t0) eqn:O; auto. simpl. deq t t0; auto.
  apply own_open_inv in O. destruct O as [O _]. apply open_known in O. congruence.
Qed.

Lemma cancel_all_closed : forall ts sp c t, In t ts -> own_open (cancel_all sp c ts) c t = false.
Proof.
  induction ts as [|t0 r IH]; intros sp c t H; simpl in *; [contradiction|].
  destruct H as [H|H]; [subst t0|auto].
  set (sp1 := cancel1 sp c t).
  assert (F : own_open sp1 c t = false).
  { unfold own_open, sp1. rewrite cancel1_st, Nat.eqb_refl, andb_true_r.
    destruct (own_open sp c t) eqn:O.
    - destruct dc; reflexivity.
    - destruct (cancel1_fields sp c t) as [A _]. rewrite A. exact O. }
  destruct (own_open (cancel_all sp1 c r) c t) eqn:O; auto.
  apply own_open_inv in O. destruct O as [O1 O2].
  apply cancel_all_never_opens in O1.
  destruct (cancel_all_fields r sp1 c) as [A _]. rewrite A in O2.
  unfold own_open in F. rewrite O1, O2, Nat.eqb_refl in F. discriminate.
Qed.

Lemma cancel_all_done : forall ts sp c, (forall t, own_open sp c t = true -> In t ts) ->
  forall t, own_open (cancel_all sp c ts) c t = false.
Proof.
  intros. destruct (own_open (cancel_all sp c ts) c t) eqn:O; auto.
  pose proof O as O'. apply own_open_inv in O'. destruct O' as [O1 O2].
  apply cancel_all_never_opens in O1.
  destruct (cancel_all_fields ts sp c) as [A _]. rewrite A in O2.
  assert (X : own_open sp c t = true) by (unfold own_open; rewrite O1, O2, Nat.eqb_refl; reflexivity).
  apply H in X. rewrite (cancel_all_closed _ _ _ _ X) in O. discriminate.
Qed.

(* mailbox -> task after the loop: entries of tasks that were forgotten are gone, nothing else changes *)
Lemma cancel_all_tom : forall ts sp c mb, SI sp ->
  tom (cancel_all sp c ts) mb =
  match tom sp mb with
  | Some t => if known (st (cancel_all sp c ts) t) then Some t else None
  | None => None
  end.
Proof.
  induction ts as [|t0 r IH]; intros sp c mb S; simpl.
  - destruct (tom sp mb) eqn:T; auto. destruct (si_tom _ S _ _ T) as [K _]. rewrite K. reflexivity.
  - rewrite (IH _ c mb (SI_cancel1 sp c t0 S)).
    assert (TM : tom (cancel1 sp c t0) mb =
                 if own_open sp c t0 && dc && (mb =? mbx sp t0) then None else tom sp mb).
    { unfold cancel1, cancelled. destruct (own_open sp c t0); simpl; auto.
      destruct dc; simpl; auto. }
    rewrite TM. destruct (own_open sp c t0) eqn:O; simpl; auto.
    destruct dc eqn:DC; simpl; auto.
    pose proof (open_known _ (proj1 (own_open_inv _ _ _ O))) as K0.
    destruct (si_known _ S _ K0) as [T0 _].
    destruct (mb =? mbx sp t0) eqn:Q.
    + apply Nat.eqb_eq in Q. subst mb. rewrite T0.
      rewrite cancel_all_unknown_stays; auto.
      rewrite cancel1_st, O, Nat.eqb_refl, DC. reflexivity.
    + reflexivity.
Qed.

Lemma pop_loop : forall l s,
  NoDup (map fst l) -> NoDup (keys (tasks s)) ->
  (forall t mb cc, In (t, (mb, cc)) l -> get t (tasks s) = Some (mb, cc) /\ get mb (m2t s) = Some t) ->
  exists s', foreach l pop_task s = Ok s' []
    /\ clients s' = clients s /\ boxes s' = boxes s /\ counter s' = counter s
    /\ closed s' = closed s /\ up s' = up s /\ NoDup (keys (tasks s'))
    /\ (forall t, get t (tasks s') = if existsb (fun p => fst p =? t) l then None else get t (tasks s))
    /\ (forall mb, get mb (m2t s') = if existsb (fun p => fst (snd p) =? mb) l then None else get mb (m2t s)).
Proof.
  induction l as [|[t0 [mb0 c0]] l IH]; intros s ND NK H.
  - exists s. simpl. repeat split; auto.
  - simpl in ND. inversion ND as [|x y N1 N2]; subst.
    destruct (H t0 mb0 c0 (or_introl eq_refl)) as [G1 G2].
    set (s1 := with_tasks s (del t0 (tasks s)) (del mb0 (m2t s))).
    destruct (IH s1 N2) as [s' [E [A1 [A2 [A3 [A4 [A5 [A6 [A7 A8]]]]]]]]].
    + simpl. apply keys_del; auto.
    + intros t mb cc I. destruct (H t mb cc (or_intror I)) as [H1 H2]. simpl.
      rewrite !get_del. deq t t0.
      * exfalso. apply N1. change t0 with (fst (t0, (mb, cc))). apply in_map. exact I.
      * deq mb mb0; auto. congruence.
    + exists s'. simpl foreach. unfold bind. simpl pop_task. rewrite G1, G2. fold s1. rewrite E.
      simpl. repeat split; auto.
      * intros t. rewrite A7. simpl. rewrite get_del. rewrite (Nat.eqb_sym t0 t).
        destruct (existsb (fun p => fst p =? t) l); [rewrite orb_true_r|rewrite orb_false_r]; auto.
      * intros mb. rewrite A8. simpl. rewrite get_del. rewrite (Nat.eqb_sym mb0 mb).
        destruct (existsb (fun p => fst (snd p) =? mb) l); [rewrite orb_true_r|rewrite orb_false_r]; auto.
Qed.

Lemma NoDup_keys_filter : forall V (f : nat * V -> bool) (d : list (nat * V)),
  NoDup (keys d) -> NoDup (keys (filter f d)).
Proof.
  induction d as [|[a b] d IH]; simpl; intros; auto.
  inversion H; subst. destruct (f (a, b)); simpl; auto.
  constructor; auto. intro X. apply H2. unfold keys in *.
  apply in_map_iff in X. destruct X as [[x y] [E1 E2]]. apply filter_In in E2. simpl in *. subst.
  change a with (fst (a, y)). apply in_map. tauto.
Qed.

Lemma SI_drop : forall sp c, SI sp -> SI (drop sp c).
Proof.
  intros sp c [A B D]. constructor; simpl; intros.
  - destruct (tom sp mb) eqn:T; try discriminate. deq (owner sp n) c; try discriminate.
    inversion H; subst. deq (owner sp t) c; try congruence. apply (A _ _ T).
  - deq (owner sp t) c; try discriminate. destruct (B _ H) as [B1 B2]. rewrite B1.
    deq (owner sp t) c; try congruence. split; auto. unfold upd. deq (owner sp t) c; congruence.
  - destruct (tom sp mb) eqn:T; try discriminate. eauto.
Qed.

Lemma not_open_box : forall x, is_open x = false -> boxof x = None.
Proof. destruct x; simpl; congruence. Qed.

Lemma Rel_with_closed : forall s sp x, Rel s sp -> Rel (with_closed s x) sp.
Proof. intros s sp x [A B C D E F G]. constructor; auto. Qed.

Lemma disconnect_ok : forall s sp c, Inv s sp -> cst sp c = CConnected ->
  exists s' o, disconnect (Fix dc) c s = Ok s' o /\ answers o = [] /\ Inv s' (drop sp c).
Proof.
  intros s sp c [R [S CO]] C.
  set (s1 := with_closed s (c :: closed s)).
  assert (R1 : Rel s1 sp) by (apply Rel_with_closed; auto).
  destruct (connected_clients _ _ _ R1 C) as [ts [G I]].
  assert (CL : In c (closed s1)) by (simpl; auto).
  destruct (cancel_loop_ok ts s1 sp c R1 S C CL) as [s2 [o2 [E2 [A2 [R2 [S2 C2]]]]]].
  set (sp2 := cancel_all sp c ts) in *.
  destruct (cancel_all_fields ts sp c) as [Fo [Fm [Fc Fn]]]. fold sp2 in Fo, Fm, Fc, Fn.
  assert (Ft : forall mb, tom sp2 mb = match tom sp mb with
                                       | Some t => if known (st sp2 t) then Some t else None
                                       | None => None end)
    by (intros; apply cancel_all_tom; auto).
  assert (F2 : forall t, owner sp t <> c -> st sp2 t = st sp t) by (intros; apply cancel_all_other; auto).
  assert (F3 : forall t, own_open sp2 c t = false).
  { apply cancel_all_done. intros t O. apply I. exact O. }
  set (s3 := with_clients s2 (del c (clients s2))).
  set (l := filter (fun p : nat * (nat * nat) => snd (snd p) =? c) (tasks s3)).
  assert (Hl : forall t mb cc, In (t, (mb, cc)) l ->
             known (st sp2 t) = true /\ mb = mbx sp t /\ cc = c /\ owner sp t = c).
  { intros t mb cc X. unfold l in X. apply filter_In in X. destruct X as [X1 X2]. simpl in X2. eqb_all. subst cc.
    simpl in X1. apply In_get in X1; [|apply (r_nodup _ _ R2)].
    rewrite (r_tasks _ _ R2) in X1. destruct (known (st sp2 t)); try discriminate.
    inversion X1. rewrite Fm, Fo in *. auto. }
  destruct (pop_loop l s3) as [s4 [E4 [B1 [B2 [B3 [B4 [B5 [B6 [B7 B8]]]]]]]]].
  { apply NoDup_keys_filter. apply (r_nodup _ _ R2). }
  { apply (r_nodup _ _ R2). }
  { intros t mb cc X. pose proof X as Y. apply Hl in Y. destruct Y as [K [M [CC OW]]]. subst.
    unfold l in X. apply filter_In in X. destruct X as [X1 _]. simpl in X1.
    apply In_get in X1; [|apply (r_nodup _ _ R2)]. split; [exact X1|]. simpl.
    rewrite (r_m2t _ _ R2). destruct (si_known _ S2 _ K) as [T _]. rewrite Fm in T. exact T. }
  exists s4. eexists. split.
  { unfold disconnect. fold s1. rewrite G. unfold bind. rewrite E2. unfold pop_tasks_of.
    fold s3. fold l. rewrite E4. reflexivity. }
  split. { rewrite app_nil_r. exact A2. }
  (* which keys were popped *)
  assert (PT : forall t, existsb (fun p : nat * (nat * nat) => fst p =? t) l = true <->
                         known (st sp2 t) = true /\ owner sp t = c).
  { intros t. rewrite existsb_exists. split.
    - intros [[t' [mb cc]] [X1 X2]]. simpl in X2. eqb_all. subst t'. apply Hl in X1. tauto.
    - intros [K OW]. exists (t, (mbx sp t, c)). split; [|apply Nat.eqb_refl].
      unfold l. apply filter_In. split; [|apply Nat.eqb_refl]. simpl.
      apply get_In. rewrite (r_tasks _ _ R2), K, Fm, Fo, OW. reflexivity. }
  assert (PM : forall mb, existsb (fun p : nat * (nat * nat) => fst (snd p) =? mb) l = true <->
                          exists t, known (st sp2 t) = true /\ owner sp t = c /\ mbx sp t = mb).
  { intros mb. rewrite existsb_exists. split.
    - intros [[t' [mb' cc]] [X1 X2]]. simpl in X2. eqb_all. subst mb'. apply Hl in X1. exists t'. intuition congruence.
    - intros [t [K [OW M]]]. exists (t, (mb, c)). split; [|apply Nat.eqb_refl].
      unfold l. apply filter_In. split; [|apply Nat.eqb_refl]. simpl.
      apply get_In. rewrite (r_tasks _ _ R2), K, Fm, Fo, OW, M. reflexivity. }
  split; [|split; [apply SI_drop; auto|]].
  - constructor.
    + (* tasks *)
      intros t. rewrite B7. simpl. destruct (existsb (fun p => fst p =? t) l) eqn:X.
      * apply PT in X. destruct X as [_ OW]. rewrite OW, Nat.eqb_refl. reflexivity.
      * rewrite (r_tasks _ _ R2), Fm, Fo.
        destruct (owner sp t =? c) eqn:OWb; pose proof OWb as OW; [apply Nat.eqb_eq in OW|apply Nat.eqb_neq in OW].
        -- destruct (known (st sp2 t)) eqn:K; auto.
           assert (Y : existsb (fun p : nat * (nat * nat) => fst p =? t) l = true) by (apply PT; auto).
           congruence.
        -- rewrite F2; auto.
    + (* m2t *)
      intros mb. rewrite B8. simpl. rewrite (r_m2t _ _ R2), Ft.
      destruct (tom sp mb) as [t|] eqn:T.
      * destruct (si_tom _ S _ _ T) as [K M].
        destruct (owner sp t =? c) eqn:OWb; pose proof OWb as OW; [apply Nat.eqb_eq in OW|apply Nat.eqb_neq in OW].
        -- destruct (known (st sp2 t)) eqn:K2.
           ++ assert (Y : existsb (fun p : nat * (nat * nat) => fst (snd p) =? mb) l = true)
                by (apply PM; exists t; auto).
              rewrite Y. reflexivity.
           ++ destruct (existsb (fun p => fst (snd p) =? mb) l); reflexivity.
        -- rewrite (F2 _ OW), K.
           destruct (existsb (fun p => fst (snd p) =? mb) l) eqn:X; auto.
           apply PM in X. destruct X as [t' [K' [OW' M']]].
           destruct (si_known _ S2 _ K') as [T' _]. rewrite Fm, Ft, M', T in T'.
           rewrite (F2 _ OW), K in T'. congruence.
      * destruct (existsb (fun p => fst (snd p) =? mb) l); reflexivity.
    + (* boxes *)
      intros mb. rewrite B2. simpl. rewrite (r_boxes _ _ R2), Ft. destruct (tom sp mb) as [t|] eqn:T; auto.
      destruct (si_tom _ S _ _ T) as [K M].
      destruct (owner sp t =? c) eqn:OWb; pose proof OWb as OW; [apply Nat.eqb_eq in OW|apply Nat.eqb_neq in OW].
      * destruct (known (st sp2 t)); auto.
        apply not_open_box. pose proof (F3 t) as Y. unfold own_open in Y.
        rewrite Fo, OW, Nat.eqb_refl, andb_true_r in Y. exact Y.
      * rewrite (F2 _ OW), K. simpl. rewrite ?OWb, (F2 _ OW). reflexivity.
    + (* clients *)
      intros c'. rewrite B1. simpl. rewrite get_del. deq c' c.
      * unfold upd. rewrite Nat.eqb_refl. discriminate.
      * pose proof (r_clients _ _ R2 c') as RC. rewrite Fc in RC. unfold upd.
        destruct (get c' (clients s2)).
        -- destruct RC as [RC1 RC2]. deq c' c; try congruence. split; auto. intros t. rewrite RC2.
           unfold own_open. simpl. rewrite Fo.
           destruct (owner sp t =? c) eqn:OWb; pose proof OWb as OW; [apply Nat.eqb_eq in OW|apply Nat.eqb_neq in OW].
           ++ simpl. rewrite OW. deq c c'; try congruence. rewrite andb_false_r. tauto.
           ++ rewrite F2; auto. tauto.
        -- deq c' c; congruence.
    + rewrite B3. simpl. rewrite (r_counter _ _ R2). exact Fn.
    + rewrite B5. simpl. apply (r_up _ _ R2).
    + exact B6.
  - (* ClosedOK *)
    intros c' X. rewrite B4 in X. simpl in X. rewrite C2 in X. simpl in X. simpl. unfold upd.
    deq c' c; auto. destruct X as [X|X]; [congruence|]. apply CO; auto.
Qed.

(* ------------------------------------------------------- one step, all events *)
Lemma connect_ok : forall s sp c, Inv s sp -> cst sp c = CNew ->
  Inv (with_clients s (set c [] (clients s))) (fst (sstep dc sp (Connect c))).
Proof.
  intros s sp c [R [S CO]] N.
  assert (NO : forall t, own_open sp c t = false).
  { intros t. destruct (own_open sp c t) eqn:O; auto. apply own_open_inv in O. destruct O as [O1 O2].
    destruct (si_known _ S t (open_known _ O1)) as [_ X]. congruence. }
  split; [|split].
  - destruct R as [A B C D E F G]. constructor; simpl; auto.
    intros c'. rewrite get_set. unfold upd. deq c' c.
    + split; auto. intros t. pose proof (NO t) as X. unfold own_open in *. simpl in *. rewrite X.
      split; [contradiction|discriminate].
    + apply D.
  - destruct S as [A B C]. constructor; simpl; auto.
    intros t K. destruct (B t K) as [B1 B2]. split; auto. unfold upd. deq (owner sp t) c; auto.
  - intros c' X. simpl in *. unfold upd. deq c' c; auto. apply CO in X. congruence.
Qed.

Lemma answers_result : forall sp mb v, answers (snd (sstep dc sp (Result mb v))) = snd (sstep dc sp (Result mb v)).
Proof.
  intros. simpl. destruct (tom sp mb); auto. destruct (st sp n); auto. destruct waiting; auto.
Qed.

Lemma SI_result : forall sp mb v, SI sp -> SI (fst (sstep dc sp (Result mb v))).
Proof.
  intros sp mb v S. simpl. destruct (tom sp mb) eqn:T; auto.
  destruct (si_tom _ S _ _ T) as [K _].
  destruct (st sp n) eqn:ST; auto; try destruct waiting; simpl; apply SI_set_st; auto; rewrite ST; auto.
Qed.

Lemma cst_result : forall sp mb v, cst (fst (sstep dc sp (Result mb v))) = cst sp.
Proof.
  intros. simpl. destruct (tom sp mb); auto. destruct (st sp n); auto. destruct waiting; auto.
Qed.

Lemma step_ok : forall s sp e, Inv s sp -> wf_ev sp e = true ->
  exists s' o, handle (Fix dc) e s = Ok s' o /\ answers o = snd (sstep dc sp e) /\ Inv s' (fst (sstep dc sp e)).
Proof.
  intros s sp e I W. pose proof I as [R [S CO]]. destruct e; simpl in W.
  - (* connect *) apply cst_is_eq in W. eexists. eexists. split; [reflexivity|]. split; [reflexivity|].
    apply connect_ok; auto.
  - (* disconnect *) apply cst_is_eq in W. destruct (disconnect_ok s sp c I W) as [s' [o [E [A I']]]].
    exists s', o. auto.
  - (* submit *) apply andb_true_iff in W. destruct W as [W1 W2]. apply cst_is_eq in W1.
    assert (U : st sp t = TUnknown) by (destruct (st sp t); try discriminate; auto).
    destruct (new_task_ok s sp c t R S W1 U) as [s' [E [R' [S' C']]]].
    exists s'. eexists. split; [exact E|]. split; [reflexivity|]. split; [exact R'|split; [exact S'|]].
    intros c' X. rewrite C' in X. apply CO in X. exact X.
  - (* request *) apply cst_is_eq in W. destruct (own_open sp c t) eqn:O.
    + destruct (request_open_ok s sp c t R S W O) as [s' [E [R' C']]].
      exists s'. eexists. split; [exact E|]. split.
      * simpl. rewrite O. destruct (st sp t); reflexivity.
      * split; [exact R'|]. pose proof (open_known _ (proj1 (own_open_inv _ _ _ O))) as K.
        simpl. rewrite O. split.
        -- destruct (st sp t) eqn:ST; simpl; apply SI_set_st; auto; rewrite ST; auto.
        -- intros c' X. rewrite C' in X. apply CO in X. destruct (st sp t); exact X.
    + destruct (disconnect_ok s sp c I W) as [s' [o [E [A I']]]].
      destruct (connected_clients _ _ _ R W) as [ts [G II]].
      exists s'. eexists. split.
      * simpl. unfold request. rewrite G, (unk_spec _ _ _ _ _ R G II), O. simpl. rewrite E. reflexivity.
      * simpl. rewrite O. simpl. rewrite A. auto.
  - (* status *) apply cst_is_eq in W. exists s. eexists. split; [apply (status_ok s sp c t R S W)|]. split; auto.
  - (* cancel *) apply cst_is_eq in W. destruct (cancel_fix_ok s sp c t R S W) as [s' [E [R' C']]].
    exists s'. eexists. split; [exact E|].
    assert (NC : mem c (closed s) = false).
    { destruct (mem c (closed s)) eqn:M; auto. apply mem_In, CO in M. congruence. }
    split.
    + rewrite answers_app. unfold ack. rewrite NC. destruct (own_open sp c t); reflexivity.
    + simpl. split; [exact R'|]. split.
      * destruct (own_open sp c t) eqn:O; auto. apply SI_cancelled; auto.
        apply open_known. apply (own_open_inv _ _ _ O).
      * intros c' X. rewrite C' in X. apply CO in X. destruct (own_open sp c t); [destruct dc|]; exact X.
  - (* result *) destruct (result_ok s sp mb v R S) as [s' [E [R' C']]].
    exists s'. eexists. split; [exact E|]. split; [apply answers_result|].
    split; [exact R'|]. split; [apply SI_result; auto|].
    intros c' X. rewrite C' in X. apply CO in X. rewrite cst_result. exact X.
  - (* error *) exists s. eexists. split; [apply (forward_ok s sp _ mb R S)|]. simpl. split; auto. destruct (tom sp mb); reflexivity.
  - (* log *) exists s. eexists. split; [apply (forward_ok s sp _ mb R S)|]. simpl. split; auto. destruct (tom sp mb); reflexivity.
Qed.

(* ------------------------------------------------------------ whole runs *)
Lemma Inv_init : Inv init spec0.
Proof.
  split; [|split].
  - constructor; simpl; auto. + intros; discriminate. + constructor.
  - constructor; simpl; intros; discriminate.
  - intros c X. contradiction.
Qed.

Lemma sstep_no_crash : forall sp e, ~ In OCrash (snd (sstep dc sp e)).
Proof.
  intros sp e. destruct e; simpl; try tauto;
  repeat match goal with
         | |- context [match ?x with _ => _ end] => destruct x; simpl
         end; intuition discriminate.
Qed.

Lemma run_cons : forall fx s e r,
  run fx s (e :: r) = (fst (run fx (fst (step fx s e)) r), snd (step fx s e) :: snd (run fx (fst (step fx s e)) r)).
Proof. intros. simpl. destruct (step fx s e). simpl. destruct (run fx s0 r). reflexivity. Qed.

Lemma srun_cons : forall sp e r,
  srun dc sp (e :: r) = (fst (srun dc (fst (sstep dc sp e)) r), snd (sstep dc sp e) :: snd (srun dc (fst (sstep dc sp e)) r)).
Proof. intros. simpl. destruct (sstep dc sp e). simpl. destruct (srun dc s r). reflexivity. Qed.

Lemma step_inv : forall s sp e, Inv s sp -> wf_ev sp e = true ->
  Inv (fst (step (Fix dc) s e)) (fst (sstep dc sp e))
  /\ answers (snd (step (Fix dc) s e)) = snd (sstep dc sp e)
  /\ ~ In OCrash (snd (step (Fix dc) s e)).
Proof.
  intros s sp e I W. destruct (step_ok s sp e I W) as [s' [o [E [A I']]]].
  unfold step. destruct I as [R _]. rewrite (r_up _ _ R), E. simpl. split; [exact I'|split; [exact A|]].
  intro X. apply (sstep_no_crash sp e). rewrite <- A. apply filter_In. auto.
Qed.

Lemma run_ok : forall es s sp, Inv s sp -> wf_run dc sp es = true ->
  Inv (fst (run (Fix dc) s es)) (fst (srun dc sp es))
  /\ map answers (snd (run (Fix dc) s es)) = snd (srun dc sp es)
  /\ ~ In OCrash (concat (snd (run (Fix dc) s es))).
Proof.
  induction es as [|e r IH]; intros s sp I W.
  - simpl. auto.
  - simpl in W. apply andb_true_iff in W. destruct W as [W1 W2].
    destruct (step_inv s sp e I W1) as [I1 [A1 N1]].
    destruct (IH _ _ I1 W2) as [I2 [A2 N2]].
    rewrite run_cons, srun_cons. simpl. split; [exact I2|]. split.
    + rewrite A1, A2. reflexivity.
    + rewrite in_app_iff. tauto.
Qed.

Lemma run_app : forall fx es1 es2 s,
  run fx s (es1 ++ es2) = (fst (run fx (fst (run fx s es1)) es2),
                           snd (run fx s es1) ++ snd (run fx (fst (run fx s es1)) es2)).
Proof.
  induction es1 as [|e r IH]; intros.
  - simpl. destruct (run fx s es2); reflexivity.
  - rewrite <- app_comm_cons, !run_cons, IH. reflexivity.
Qed.

Lemma srun_app : forall es1 es2 sp,
  srun dc sp (es1 ++ es2) = (fst (srun dc (fst (srun dc sp es1)) es2),
                          snd (srun dc sp es1) ++ snd (srun dc (fst (srun dc sp es1)) es2)).
Proof.
  induction es1 as [|e r IH]; intros.
  - simpl. destruct (srun dc sp es2); reflexivity.
  - rewrite <- app_comm_cons, !srun_cons, IH. reflexivity.
Qed.

Lemma wf_run_app : forall es1 es2 sp,
  wf_run dc sp (es1 ++ es2) = wf_run dc sp es1 && wf_run dc (fst (srun dc sp es1)) es2.
Proof.
  induction es1 as [|e r IH]; intros; simpl; auto.
  rewrite IH, andb_assoc. destruct (sstep dc sp e). simpl. destruct (srun dc s r). reflexivity.
Qed.

(* reachable states satisfy the invariant *)
Theorem tables_inv : forall es, wf_run dc spec0 es = true ->
  Inv (fst (run (Fix dc) init es)) (fst (srun dc spec0 es)).
Proof. intros. apply (run_ok es init spec0 Inv_init H). Qed.

Theorem requests_refine : forall es, wf_run dc spec0 es = true ->
  map answers (snd (run (Fix dc) init es)) = snd (srun dc spec0 es)
  /\ ~ In OCrash (concat (snd (run (Fix dc) init es)))
  /\ up (fst (run (Fix dc) init es)) = true.
Proof.
  intros. destruct (run_ok es init spec0 Inv_init H) as [[R _] [A N]]. split; [exact A|split; [exact N|apply (r_up _ _ R)]].
Qed.

(* -------------------------------------------------------------- isolation *)
Definition dest (o : out) : option nat :=
  match o with
  | OResult c _ | OStatus c _ | OCancelAck c | OErrUnknown c | OError c _ | OLog c _ => Some c
  | _ => None
  end.

Definition unknown_answer (e : event) : list out :=
  match e with
  | Request c _ => [OErrUnknown c]
  | Status c _ => [OStatus c UNKNOWN]
  | Cancel c _ => [OCancelAck c]
  | _ => []
  end.

Definition is_request (e : event) (c t : nat) : Prop :=
  e = Request c t \/ e = Status c t \/ e = Cancel c t.

(* everything the server holds for clients other than c is the same in s and s' *)
Definition untouched (c : nat) (s s' : state) : Prop :=
  (forall c', c' <> c ->
     match get c' (clients s), get c' (clients s') with
     | Some a, Some b => forall x, In x a <-> In x b
     | None, None => True
     | _, _ => False
     end)
  /\ (forall t mb c', c' <> c -> get t (tasks s) = Some (mb, c') ->
        get t (tasks s') = Some (mb, c') /\ get mb (m2t s') = get mb (m2t s)
        /\ get mb (boxes s') = get mb (boxes s)).

Lemma untouched_of_spec : forall s s' sp sp' c, Inv s sp -> Inv s' sp' ->
  (forall t, owner sp t <> c -> st sp' t = st sp t /\ owner sp' t = owner sp t /\ mbx sp' t = mbx sp t) ->
  (forall c', c' <> c -> cst sp' c' = cst sp c') ->
  (forall mb t, tom sp mb = Some t -> owner sp t <> c -> tom sp' mb = Some t) ->
  (forall c' x, c' <> c -> own_open sp' c' x = own_open sp c' x) ->
  untouched c s s'.
Proof.
  intros s s' sp sp' c [R [S _]] [R' [S' _]] F1 F2 F3 F4. split.
  - intros c' N. pose proof (r_clients _ _ R c') as A. pose proof (r_clients _ _ R' c') as B.
    rewrite (F2 _ N) in B.
    destruct (get c' (clients s)), (get c' (clients s')); try tauto.
    destruct A as [_ A], B as [_ B]. intros x. rewrite A, B, (F4 _ _ N). tauto.
  - intros t mb c' N G. rewrite (r_tasks _ _ R) in G.
    destruct (known (st sp t)) eqn:K; try discriminate. inversion G; subst.
    destruct (F1 t N) as [E1 [E2 E3]]. destruct (si_known _ S _ K) as [T _].
    pose proof (F3 _ _ T N) as T'.
    rewrite (r_tasks _ _ R'), E1, K, E2, E3.
    rewrite (r_m2t _ _ R'), (r_m2t _ _ R), (r_boxes _ _ R'), (r_boxes _ _ R), T, T', E1. auto.
Qed.

Theorem isolation : forall es e c t, wf_run dc spec0 (es ++ [e]) = true -> is_request e c t ->
  own_open (fst (srun dc spec0 es)) c t = false ->
  answers (snd (step (Fix dc) (fst (run (Fix dc) init es)) e)) = unknown_answer e
  /\ (forall o, In o (answers (snd (step (Fix dc) (fst (run (Fix dc) init es)) e))) -> dest o = Some c)
  /\ untouched c (fst (run (Fix dc) init es)) (fst (step (Fix dc) (fst (run (Fix dc) init es)) e)).
Proof.
  intros es e c t W Q O. rewrite wf_run_app in W. apply andb_true_iff in W. destruct W as [W1 W2].
  simpl in W2. rewrite andb_true_r in W2.
  pose proof (tables_inv es W1) as I.
  set (s := fst (run (Fix dc) init es)) in *. set (sp := fst (srun dc spec0 es)) in *.
  destruct (step_inv s sp e I W2) as [I' [A _]]. rewrite A.
  assert (TR : forall s', Inv s' sp -> untouched c s s').
  { intros. eapply untouched_of_spec; eauto. }
  assert (DR : forall s', Inv s' (drop sp c) -> untouched c s s').
  { intros s' IS. eapply untouched_of_spec; eauto; simpl.
    - intros t0 N. apply Nat.eqb_neq in N. rewrite N. auto.
    - intros c' N. unfold upd. apply Nat.eqb_neq in N. rewrite N. auto.
    - intros mb t0 T N. rewrite T. apply Nat.eqb_neq in N. rewrite N. auto.
    - intros c' x N. unfold own_open. simpl. destruct (owner sp x =? c) eqn:OW; auto. simpl.
      apply Nat.eqb_eq in OW. rewrite OW. destruct (c =? c') eqn:CC; [apply Nat.eqb_eq in CC; congruence|].
      rewrite andb_false_r. reflexivity. }
  destruct Q as [Q|[Q|Q]]; subst e; simpl in *; rewrite O in *; simpl.
  - split; auto. split; [intros o [X|[]]; subst; reflexivity|]. apply DR; auto.
  - split; auto. split; [intros o [X|[]]; subst; reflexivity|]. apply TR; auto.
  - split; auto. split; [intros o [X|[]]; subst; reflexivity|]. apply TR; auto.
Qed.

(* --------------------------------------------------------- error forwarding *)
Theorem error_forwarded : forall es mb m, wf_run dc spec0 es = true ->
  step (Fix dc) (fst (run (Fix dc) init es)) (Error mb m) =
    (fst (run (Fix dc) init es),
     match get mb (m2t (fst (run (Fix dc) init es))) with
     | Some t => match get t (tasks (fst (run (Fix dc) init es))) with
                 | Some (_, c) => [OError c m]
                 | None => [] end
     | None => [] end)
  /\ (forall t, get mb (m2t (fst (run (Fix dc) init es))) = Some t ->
        get t (tasks (fst (run (Fix dc) init es))) = Some (mb, owner (fst (srun dc spec0 es)) t)
        /\ known (st (fst (srun dc spec0 es)) t) = true
        /\ cst (fst (srun dc spec0 es)) (owner (fst (srun dc spec0 es)) t) = CConnected).
Proof.
  intros es mb m W. pose proof (tables_inv es W) as [R [S CO]].
  set (s := fst (run (Fix dc) init es)) in *. set (sp := fst (srun dc spec0 es)) in *.
  split.
  - unfold step. rewrite (r_up _ _ R). simpl. rewrite (forward_ok s sp _ mb R S).
    rewrite (r_m2t _ _ R). destruct (tom sp mb) eqn:T; auto.
    destruct (si_tom _ S _ _ T) as [K _]. rewrite (r_tasks _ _ R), K. reflexivity.
  - intros t G. rewrite (r_m2t _ _ R) in G. destruct (si_tom _ S _ _ G) as [K M].
    destruct (si_known _ S _ K) as [_ C]. rewrite (r_tasks _ _ R), K, M. auto.
Qed.

(* a RESULT answer is always the value of a RESULT message from below for a task of that client *)
Lemma result_provenance_spec : forall sp e c v, In (OResult c v) (snd (sstep dc sp e)) ->
  (exists mb t, e = Result mb v /\ tom sp mb = Some t /\ owner sp t = c /\ st sp t = TRunning true)
  \/ (exists t, e = Request c t /\ owner sp t = c /\ st sp t = TDone v).
Proof.
  intros sp e c v H. destruct e; simpl in H; try contradiction.
  - destruct (own_open sp c0 t) eqn:O.
    + apply own_open_inv in O. destruct O as [_ O]. destruct (st sp t) eqn:ST; simpl in H; try contradiction.
      destruct H as [H|[]]. inversion H; subst. right. exists t. auto.
    + destruct H as [H|[]]. discriminate.
  - destruct H as [H|[]]. discriminate.
  - destruct H as [H|[]]. discriminate.
  - destruct (tom sp mb) eqn:T; try contradiction. destruct (st sp n) eqn:ST; try contradiction.
    destruct waiting; try contradiction. destruct H as [H|[]]. inversion H; subst. left. exists mb, n. auto.
  - destruct (tom sp mb); try contradiction. destruct H as [H|[]]. discriminate.
  - destruct (tom sp mb); try contradiction. destruct H as [H|[]]. discriminate.
Qed.

Lemma done_value_spec : forall sp e t v, st (fst (sstep dc sp e)) t = TDone v ->
  st sp t = TDone v \/ exists mb, e = Result mb v /\ tom sp mb = Some t.
Proof.
  intros sp e t v H. destruct e; simpl in H; auto.
  - deq (owner sp t) c; [discriminate|auto].
  - unfold upd in H. deq t t0; [discriminate|auto].
  - destruct (own_open sp c t0).
    + destruct (st sp t0); simpl in H; unfold upd in H; deq t t0; auto; discriminate.
    + simpl in H. deq (owner sp t) c; [discriminate|auto].
  - destruct (own_open sp c t0); auto. destruct dc; simpl in H; unfold upd in H; deq t t0; auto; discriminate.
  - destruct (tom sp mb) eqn:T; auto. destruct (st sp n) eqn:ST; auto.
    + destruct waiting; simpl in H; unfold upd in H; deq t n; auto; try discriminate.
      inversion H; subst. right. exists mb. auto.
    + simpl in H; unfold upd in H; deq t n; auto. inversion H; subst. right. exists mb. auto.
Qed.

Theorem result_provenance : forall es e c v, wf_run dc spec0 (es ++ [e]) = true ->
  In (OResult c v) (snd (step (Fix dc) (fst (run (Fix dc) init es)) e)) ->
  (exists mb t, e = Result mb v /\ tom (fst (srun dc spec0 es)) mb = Some t
                /\ owner (fst (srun dc spec0 es)) t = c /\ st (fst (srun dc spec0 es)) t = TRunning true)
  \/ (exists t, e = Request c t /\ owner (fst (srun dc spec0 es)) t = c /\ st (fst (srun dc spec0 es)) t = TDone v).
Proof.
  intros es e c v W H. rewrite wf_run_app in W. apply andb_true_iff in W. destruct W as [W1 W2].
  simpl in W2. rewrite andb_true_r in W2.
  destruct (step_inv _ _ e (tables_inv es W1) W2) as [_ [A _]].
  apply result_provenance_spec. rewrite <- A. apply filter_In. auto.
Qed.

(* --------------------------------------- nothing is sent to a dropped client *)
Lemma closed_stable : forall sp e c, wf_ev sp e = true -> cst sp c = CClosed -> cst (fst (sstep dc sp e)) c = CClosed.
Proof.
  intros sp e c W C. destruct e; simpl in *; auto.
  - apply cst_is_eq in W. unfold upd. deq c c0; congruence.
  - unfold upd. deq c c0; auto.
  - destruct (own_open sp c0 t); [destruct (st sp t); auto|]. simpl. unfold upd. deq c c0; auto.
  - destruct (own_open sp c0 t); auto. destruct dc; auto.
  - destruct (tom sp mb); auto. destruct (st sp n); auto. destruct waiting; auto.
Qed.

Lemma answers_to_connected : forall sp e o c, SI sp -> wf_ev sp e = true ->
  In o (snd (sstep dc sp e)) -> dest o = Some c -> cst sp c = CConnected.
Proof.
  intros sp e o c S W H D.
  assert (K : forall mb t, tom sp mb = Some t -> cst sp (owner sp t) = CConnected).
  { intros mb t T. destruct (si_tom _ S _ _ T) as [K _]. apply (si_known _ S _ K). }
  destruct e; simpl in *; try contradiction.
  - apply cst_is_eq in W. destruct (own_open sp c0 t).
    + destruct (st sp t); simpl in H; try contradiction. destruct H as [H|[]]. subst. inversion D. congruence.
    + destruct H as [H|[]]. subst. inversion D. congruence.
  - apply cst_is_eq in W. destruct H as [H|[]]. subst. inversion D. congruence.
  - apply cst_is_eq in W. destruct H as [H|[]]. subst. inversion D. congruence.
  - destruct (tom sp mb) eqn:T; try contradiction. destruct (st sp n); try contradiction.
    destruct waiting; try contradiction. destruct H as [H|[]]. subst. inversion D. subst. eauto.
  - destruct (tom sp mb) eqn:T; try contradiction. destruct H as [H|[]]. subst. inversion D. subst. eauto.
  - destruct (tom sp mb) eqn:T; try contradiction. destruct H as [H|[]]. subst. inversion D. subst. eauto.
Qed.

Lemma silence_from : forall es s sp c, Inv s sp -> wf_run dc sp es = true -> cst sp c = CClosed ->
  forall o, In o (concat (snd (run (Fix dc) s es))) -> dest o <> Some c.
Proof.
  induction es as [|e r IH]; intros s sp c I W C o H; [simpl in H; contradiction|].
  simpl in W. apply andb_true_iff in W. destruct W as [W1 W2].
  destruct (step_inv s sp e I W1) as [I1 [A1 _]].
  rewrite run_cons in H. simpl in H. apply in_app_iff in H. destruct H as [H|H].
  - intro D. assert (X : In o (snd (sstep dc sp e))).
    { rewrite <- A1. apply filter_In. split; auto. destruct o; simpl in D; try discriminate; reflexivity. }
    destruct I as [_ [S _]]. pose proof (answers_to_connected _ _ _ _ S W1 X D). congruence.
  - eapply IH; eauto. apply closed_stable; auto.
Qed.

Theorem silence_after_disconnect : forall es1 es2 c, wf_run dc spec0 (es1 ++ Disconnect c :: es2) = true ->
  forall o, In o (concat (snd (run (Fix dc) (fst (run (Fix dc) init (es1 ++ [Disconnect c]))) es2))) -> dest o <> Some c.
Proof.
  intros es1 es2 c W. change (Disconnect c :: es2) with ([Disconnect c] ++ es2) in W.
  rewrite app_assoc, wf_run_app in W. apply andb_true_iff in W. destruct W as [W1 W2].
  apply silence_from with (sp := fst (srun dc spec0 (es1 ++ [Disconnect c]))); auto.
  - apply tables_inv; auto.
  - rewrite srun_app. simpl. unfold upd. rewrite Nat.eqb_refl. reflexivity.
Qed.

End WithVariant.
