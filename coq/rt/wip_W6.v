From Coq Require Import List Arith Bool PeanoNat Lia Permutation.
Import ListNotations.
From BQ Require Import rt.WorkerM rt.wip_W1 rt.wip_W2 rt.wip_W3 rt.wip_W4 rt.wip_W5.

(* ---------- the mailbox dictionary ---------- *)
Definition keys (bs : list (nat * mailbox)) : list nat := map fst bs.
Lemma box_get_In : forall m bs b, box_get m bs = Some b -> In (m, b) bs.
Proof. induction bs as [|[k b0] r IH]; simpl; intros; [discriminate|].
  destruct (Nat.eqb k m) eqn:E; [injection H as <-; b2p; subst; auto | right; auto]. Qed.
Lemma box_get_key : forall m bs b, box_get m bs = Some b -> In m (keys bs).
Proof. intros. apply box_get_In in H. apply (in_map fst) in H. exact H. Qed.
Lemma box_get_None_key : forall m bs, box_get m bs = None -> ~ In m (keys bs).
Proof. induction bs as [|[k b0] r IH]; simpl; intros; [tauto|].
  destruct (Nat.eqb k m) eqn:E; [discriminate|]. b2p. intros [H1|H1]; [congruence|]. apply IH; auto. Qed.
Lemma box_get_notkey : forall m bs, ~ In m (keys bs) -> box_get m bs = None.
Proof. intros. destruct (box_get m bs) eqn:E; auto. apply box_get_key in E. tauto. Qed.
Lemma box_get_set_same : forall m b bs, box_get m (box_set m b bs) = Some b.
Proof. induction bs as [|[k b0] r IH]; simpl; [rewrite Nat.eqb_refl; auto|].
  destruct (Nat.eqb k m) eqn:E; simpl; rewrite E; auto. Qed.
Lemma box_get_set_other : forall m m' b bs, m' <> m -> box_get m' (box_set m b bs) = box_get m' bs.
Proof. induction bs as [|[k b0] r IH]; simpl; intros.
  - apply Nat.eqb_neq in H. rewrite Nat.eqb_sym, H. reflexivity.
  - destruct (Nat.eqb k m) eqn:E; simpl.
    + b2p. subst. destruct (Nat.eqb m m') eqn:E2; auto. b2p. congruence.
    + destruct (Nat.eqb k m'); auto. Qed.
Lemma keys_box_set_present : forall m b bs b0, box_get m bs = Some b0 -> keys (box_set m b bs) = keys bs.
Proof. induction bs as [|[k b1] r IH]; simpl; intros; [discriminate|].
  destruct (Nat.eqb k m) eqn:E; simpl; auto. f_equal. eapply IH; eauto. Qed.
Lemma box_get_del_other : forall m m' bs, m' <> m -> box_get m' (box_del m bs) = box_get m' bs.
Proof. induction bs as [|[k b0] r IH]; simpl; intros; auto.
  destruct (Nat.eqb k m) eqn:E; simpl.
  - b2p. subst. destruct (Nat.eqb m m') eqn:E2; auto. b2p. congruence.
  - destruct (Nat.eqb k m'); auto. Qed.
Lemma keys_box_del_incl : forall m bs x, In x (keys (box_del m bs)) -> In x (keys bs).
Proof. induction bs as [|[k b0] r IH]; simpl; intros; auto.
  destruct (Nat.eqb k m); simpl in *; auto. destruct H; auto. Qed.
Lemma keys_box_del_NoDup : forall m bs, NoDup (keys bs) -> NoDup (keys (box_del m bs)).
Proof. induction bs as [|[k b0] r IH]; simpl; intros; auto. inversion H; subst.
  destruct (Nat.eqb k m); simpl; auto. constructor; auto. intro Hin. apply keys_box_del_incl in Hin. auto. Qed.
Lemma box_get_del_same : forall m bs, NoDup (keys bs) -> box_get m (box_del m bs) = None.
Proof. induction bs as [|[k b0] r IH]; simpl; intros; auto. inversion H; subst.
  destruct (Nat.eqb k m) eqn:E; simpl.
  - b2p. subst. apply box_get_notkey. auto.
  - rewrite E. auto. Qed.
Lemma box_get_app : forall m bs1 bs2, box_get m (bs1 ++ bs2) =
  match box_get m bs1 with Some b => Some b | None => box_get m bs2 end.
Proof. induction bs1 as [|[k b0] r IH]; simpl; intros; auto. destruct (Nat.eqb k m); auto. Qed.

Lemma keys_eff_boxes : forall es c, keys (eff_boxes c es) = seq c (length es).
Proof. induction es as [|sp r IH]; simpl; intros; auto. unfold keys in *. rewrite IH. reflexivity. Qed.
Lemma box_get_eff_boxes : forall es c m b, box_get m (eff_boxes c es) = Some b ->
  c <= m < c + length es /\ exists sp, nth_error es (m - c) = Some sp /\ b = spec_box sp.
Proof. induction es as [|sp r IH]; simpl; intros; [discriminate|].
  destruct (Nat.eqb c m) eqn:E.
  - b2p. subst. injection H as <-. split; [lia|]. exists sp. rewrite Nat.sub_diag. auto.
  - b2p. apply IH in H. destruct H as (H1 & sp' & H2 & H3). split; [lia|]. exists sp'.
    replace (m - c) with (S (m - S c)) by lia. auto. Qed.
Lemma nth_error_eff_futs : forall es c f m n, nth_error (eff_futs c es) f = Some (m, n) ->
  m = c + f /\ exists sp, nth_error es f = Some sp /\ n = length (kids sp).
Proof. induction es as [|sp r IH]; simpl; intros; [destruct f; discriminate|].
  destruct f; simpl in H.
  - injection H as <- <-. split; [lia|]. exists sp. auto.
  - apply IH in H. destruct H as (-> & sp' & H1 & H2). split; [lia|]. exists sp'. auto. Qed.
Lemma eff_futs_length : forall es c, length (eff_futs c es) = length es.
Proof. induction es; simpl; intros; auto. Qed.

(* ---------- Part V: values ---------- *)
Definition box_okV (b : mailbox) : Prop :=
  (b_single b = true -> length (b_expect b) = 1) /\
  (forall i v, nth_error (b_result b) i = Some (Some v) -> nth_error (b_expect b) i = Some v) /\
  (forall fr i v, b_fresh b = Some fr -> In (i, v) fr -> nth_error (b_expect b) i = Some v).

Definition fut_ok (w : wstate) (fut : nat * nat) (sp : fspec) : Prop :=
  snd fut = length (kids sp) /\ fst fut < w_counter w /\
  (forall b, box_get (fst fut) (w_boxes w) = Some b -> b_expect b = map ret_of (kids sp)).

Definition task_okV (w : wstate) (t : task) : Prop :=
  (forall m, t_desired t = Some m ->
     exists f n, pend_fut (t_pend t) = Some f /\ nth_error (t_futs t) f = Some (m, n)) /\
  exists done, Forall2 (fut_ok w) (t_futs t) (specs_of done) /\
    ((t_script t = done ++ t_rest t /\ ret_of (t_script t) = ret_of (t_rest t)) \/
     (t_rest t = [Dead] /\ exists tail, t_script t = done ++ tail)).

Definition pc_okV (w : wstate) : Prop :=
  match w_pc w with
  | PAw1 a m _ | PAw1c a m _ | PAw2 a m =>
    exists t f n, task_get a (w_tasks w) = Some t /\ pend_fut (t_pend t) = Some f /\ nth_error (t_futs t) f = Some (m, n)
  | _ => True
  end.

Definition slot_spec (sc : script) (f i : nat) (v : val) : Prop :=
  exists sp, nth_error (specs_of sc) f = Some sp /\ nth_error (map ret_of (kids sp)) i = Some v.

Definition log_okV (e : addr * script * option nat * obs) : Prop :=
  match e with
  | (_, sc, _, OAwait f vs) => forall i v, nth_error vs i = Some (Some v) -> slot_spec sc f i v
  | (_, sc, _, ONext f bt) => forall i v, In (i, v) bt -> slot_spec sc f i v
  end.

Record winvV (w : wstate) : Prop := {
  V_keys : NoDup (keys (w_boxes w));
  V_keys_lt : forall m, In m (keys (w_boxes w)) -> m < w_counter w;
  V_boxes : forall m b, box_get m (w_boxes w) = Some b -> box_okV b;
  V_tasks : forall t, In t (w_tasks w) -> task_okV w t;
  V_pc : pc_okV w;
  V_log : Forall log_okV (w_log w)
}.

Definition lexp (w : wstate) (a : addr) (v : val) : Prop :=
  forall b, box_get (a_box a) (w_boxes w) = Some b -> nth_error (b_expect b) (a_slot a) = Some v.

Definition ext (w w' : wstate) : Prop :=
  w_id w' = w_id w /\ w_counter w <= w_counter w' /\
  forall m b', box_get m (w_boxes w') = Some b' ->
    (exists b, box_get m (w_boxes w) = Some b /\ b_expect b' = b_expect b) \/ w_counter w <= m.

Lemma ext_refl : forall w, ext w w.
Proof. intro. split; auto. split; auto. intros m b' H. left. eauto. Qed.
Lemma ext_trans : forall a b c, ext a b -> ext b c -> ext a c.
Proof. intros a b c (H1&H2&H3) (G1&G2&G3). split; [congruence|]. split; [lia|].
  intros m b' Hb. destruct (G3 m b' Hb) as [(b0 & E1 & E2)|E]; [|right; lia].
  destruct (H3 m b0 E1) as [(b1 & F1 & F2)|F]; [|right; lia]. left. exists b1. split; auto. congruence. Qed.
Lemma lexp_ext : forall w w' a v, ext w w' -> a_box a < w_counter w -> lexp w a v -> lexp w' a v.
Proof. intros w w' a v (H1&H2&H3) Hlt L b' Hb. destruct (H3 _ _ Hb) as [(b & E1 & E2)|E]; [|lia].
  rewrite E2. apply L. auto. Qed.
Lemma fut_ok_ext : forall w w' fut sp, ext w w' -> fut_ok w fut sp -> fut_ok w' fut sp.
Proof. intros w w' fut sp (H1&H2&H3) (F1&F2&F3). split; auto. split; [lia|].
  intros b' Hb. destruct (H3 _ _ Hb) as [(b & E1 & E2)|E]; [|lia]. rewrite E2. auto. Qed.
Lemma Forall2_fut_ok_ext : forall w w' l1 l2, ext w w' -> Forall2 (fut_ok w) l1 l2 -> Forall2 (fut_ok w') l1 l2.
Proof. intros. induction H0; constructor; auto. eapply fut_ok_ext; eauto. Qed.
Lemma task_okV_ext : forall w w' t, ext w w' -> task_okV w t -> task_okV w' t.
Proof. intros w w' t E (T1 & done & F & T3). split; auto. exists done. split; auto. eapply Forall2_fut_ok_ext; eauto. Qed.

Lemma Forall2_nth_l : forall A B (R : A -> B -> Prop) l1 l2 i x, Forall2 R l1 l2 -> nth_error l1 i = Some x ->
  exists y, nth_error l2 i = Some y /\ R x y.
Proof. intros A B R l1 l2 i x H. revert i. induction H; intros i Hi; destruct i; simpl in *; try discriminate.
  - injection Hi as <-. eauto.
  - auto. Qed.

(* ext for the elementary updates of the mailbox table *)
Lemma ext_box_set : forall w m b b0, box_get m (w_boxes w) = Some b0 -> b_expect b = b_expect b0 ->
  ext w (set_boxes w (box_set m b (w_boxes w))).
Proof. intros. split; auto. split; auto. intros m' b' Hb. simpl in Hb. left. destruct (Nat.eq_dec m' m).
  - subst. rewrite box_get_set_same in Hb. injection Hb as <-. eauto.
  - rewrite box_get_set_other in Hb by auto. eauto. Qed.
Lemma ext_box_del : forall w m, NoDup (keys (w_boxes w)) -> ext w (set_boxes w (box_del m (w_boxes w))).
Proof. intros. split; auto. split; auto. intros m' b' Hb. simpl in Hb. left. destruct (Nat.eq_dec m' m).
  - subst. rewrite box_get_del_same in Hb by auto. discriminate.
  - rewrite box_get_del_other in Hb by auto. eauto. Qed.
