From Coq Require Import List Arith Bool PeanoNat Lia Permutation.
Import ListNotations.
From BQ Require Import rt.WorkerM rt.wip_W1 rt.wip_W2 rt.wip_W3 rt.wip_W4 rt.wip_W5 rt.wip_W6 rt.wip_W7 rt.wip_W8 rt.wip_W9 rt.wip_W10 rt.wip_W11 rt.wip_W12 rt.wip_W13 rt.wip_W14.

(* the part of a dispatch that is common to every outcome: value taken, body resumed, task written back *)
Lemma dispatch_front : forall w a t w1 t1 sv w2 t3 y, winvV w -> plain_pc (w_pc w) ->
  task_get a (w_tasks w) = Some t -> desired_result w t = inl (w1, t1, sv) ->
  resume w1 (t_set_desired (t_set_won t1 false) None) sv = (w2, t3, y) ->
  let w2' := set_tasks w2 (task_set t3 (w_tasks w2)) in
  winvV w1 /\ winvV w2' /\ ext w w2' /\ plain_pc (w_pc w2') /\ w_id w2' = w_id w /\
  t_addr t3 = a /\ t_script t3 = t_script t /\
  (forall v, y = YReturn v -> v = ret_of (t_script t)) /\
  (forall m nxt, y = YAwait m nxt -> pend_at w2' a m) /\
  task_okV w t /\ sv_spec w t sv /\ t_pend (t_set_desired (t_set_won t1 false) None) = t_pend t /\
  t_script (t_set_desired (t_set_won t1 false) None) = t_script t.
Proof.
  intros w a t w1 t1 sv w2 t3 y I Hpc Eg Ed Er w2'.
  pose proof (task_get_Some _ _ _ Eg) as [Hta Hin].
  pose proof (V_tasks w I t Hin) as Tok.
  destruct (desired_result_V _ _ _ _ _ I Ed) as (I1 & E1 & (F1&F2&F3&F4&F5&F6&F7&F8) & O1 & S1 & Sv).
  destruct S1 as (S1a&S1b&S1c&S1d&S1e&S1f&S1g&S1h&S1i).
  set (t2 := t_set_desired (t_set_won t1 false) None) in *.
  assert (Tok2 : task_okV w1 t2).
  { destruct (task_okV_ext _ _ _ E1 Tok) as (T2 & done & F & T3).
    split; [simpl; intros m Hm; discriminate|]. exists done. simpl. rewrite S1c, S1d, S1e. auto. }
  assert (Svok : sv_ok t2 sv).
  { pose proof (sv_spec_ok _ _ _ I Tok Sv) as Q. destruct sv; simpl in *; auto; rewrite S1f, S1c; exact Q. }
  destruct (resume_V _ _ _ _ _ _ I1 Tok2 eq_refl Svok Er) as
    (wL & t2' & L1 & L2 & L3 & L4 & L5 & L6 & L7 & L8 & L9 & L10 & (es & I2 & E2 & R1 & R2 & R3 & R4 & R5 & R6 & R7 & R8 & R9 & R10 & R11 & R12 & R13 & R14 & R15)).
  simpl in L8, L9, L10.
  assert (EL : ext w1 wL) by (apply ext_same; auto).
  assert (Ta3 : t_addr t3 = a) by congruence.
  assert (Ts3 : t_script t3 = t_script t) by congruence.
  assert (Tg2 : task_get a (w_tasks w2) = Some t) by (rewrite R1, L3, F3; exact Eg).
  assert (Hpc2 : plain_pc (w_pc w2)) by (rewrite R3, L5, F6; exact Hpc).
  assert (I2' : winvV w2').
  { apply winvV_task_set; auto. intros a' m' Hq _. exfalso. clear - Hq Hpc2.
    destruct (w_pc w2); simpl in Hpc2; try tauto; destruct Hq as [[n [E|E]]|E]; discriminate. }
  assert (Ew2 : ext w w2') by (eapply ext_trans; [exact E1|]; eapply ext_trans; [exact EL|]; eapply ext_trans; [exact E2|apply ext_same; reflexivity]).
  split; [exact I1|]. split; [exact I2'|]. split; [exact Ew2|]. split; [exact Hpc2|].
  split; [subst w2'; simpl; congruence|]. split; [exact Ta3|]. split; [exact Ts3|].
  split; [intros v E; rewrite (R15 v E); congruence|].
  split.
  - intros m nxt E. destruct (R14 m nxt E) as (f & n & P1 & P2). exists t3, f, n. split; auto.
    subst w2'. simpl. rewrite <- Ta3. apply task_get_task_set_same.
  - split; [exact Tok|]. split; [exact Sv|]. split; [simpl; exact S1f|simpl; exact S1c].
Qed.

Lemma dispatch_C : forall atomic w a, winvV w -> winvC w -> dep1 w -> plain_pc (w_pc w) -> own_ok w ->
  winvC (dispatch atomic w a).
Proof.
  intros atomic w a IV I D Hpc Hown. unfold dispatch.
  destruct (task_get a (w_tasks w)) as [t|] eqn:Eg; [|eapply winvC_same; [| | | |exact I]; reflexivity].
  pose proof (task_get_Some _ _ _ Eg) as [Hta Hin].
  destruct (desired_result w t) as [[[w1 t1] sv]|e] eqn:Ed.
  2:{ unfold task_error. eapply winvC_same; [| | | |exact I]; reflexivity. }
  destruct (resume w1 (t_set_desired (t_set_won t1 false) None) sv) as [[w2 t3] y] eqn:Er.
  destruct (dispatch_front _ _ _ _ _ _ _ _ _ IV Hpc Eg Ed Er) as (IV1 & IV2 & Ew2 & Hpc2 & Hid & Ta3 & Ts3 & Hret & Hpend & Tok & Sv & Ep & Es).
  destruct (desired_result_C _ _ _ _ _ I D (V_keys w IV) Ed) as (P1 & P2 & P3 & P4 & P5 & P6 & P7).
  assert (P : pendC w w1 sv) by (exact (conj P1 (conj P2 (conj P3 (conj P4 (conj (C_log w I) P6)))))).
  assert (Hfull : forall m vs f, sv = SFull m vs -> t_pend (t_set_desired (t_set_won t1 false) None) = PendAwait f ->
     Forall (fun c => c <> None) vs /\ exists sp, nth_error (specs_of (t_script (t_set_desired (t_set_won t1 false) None))) f = Some sp /\ length vs = length (kids sp)).
  { intros m vs f E Epf. destruct (P7 m vs E) as (Ffull & b & Hb & Hlen). split; auto.
    rewrite Ep in Epf. rewrite Es. subst sv. inversion Sv as [|m' b' Hd Hw Hb' Heq|]; subst.
    assert (b' = b) by congruence. subst b'.
    destruct (task_fut_spec w t m b f Tok Hd Hb) as (sp & Hsp & Hexp); [rewrite Epf; reflexivity|].
    exists sp. split; auto. rewrite Hlen, Hexp, map_length. reflexivity. }
  destruct (resume_C _ _ _ _ _ _ _ P (V_keys_lt w1 IV1) Hfull Er) as (I2 & _).
  set (w2' := set_tasks w2 (task_set t3 (w_tasks w2))) in *.
  assert (I2' : winvC w2') by (eapply winvC_same; [| | | |exact I2]; reflexivity).
  destruct y as [m nxt|v|].
  - destruct (negb (has_box w2' m)); [unfold task_error; eapply winvC_same; [| | | |exact I2']; reflexivity|].
    destruct atomic; [|eapply winvC_same; [| | | |exact I2']; reflexivity].
    destruct (aw_C w2' a m nxt I2') as (J1 & _ & _).
    destruct (aw_C (aw1 w2' a m) a m nxt J1) as (_ & J2 & _).
    destruct (aw_C (aw1c (aw1 w2' a m) a nxt) a m nxt J2) as (_ & _ & J3).
    eapply winvC_same; [| | | |exact J3]; reflexivity.
  - destruct (complete w2' t3 v) as [w3 ok] eqn:Ec.
    assert (Hown3 : a_w (t_addr t3) = me w2' -> lexp w2' (t_addr t3) v).
    { intro Hm. rewrite Ta3, <- Hta in *. assert (Hm' : a_w (t_addr t) = me w) by (rewrite Hm; unfold me; congruence).
      destruct (Hown t Hin Hm') as (Lx & Hlt). rewrite (Hret v eq_refl).
      eapply lexp_ext; [exact Ew2|exact Hlt|exact Lx]. }
    pose proof (complete_C _ _ _ _ _ IV2 I2' Hpc2 Hown3 Ec) as I3.
    destruct ok; [|unfold fatal]; (eapply winvC_same; [| | | |exact I3]; reflexivity).
  - unfold task_error. eapply winvC_same; [| | | |exact I2']; reflexivity.
Qed.

Lemma main_step_C : forall atomic w w', winvV w -> winvC w -> dep1 w -> own_ok w ->
  main_step atomic w = Some w' -> winvC w'.
Proof.
  intros atomic w w' IV I D Hown H. unfold main_step in H. destruct (w_pc w) eqn:Epc.
  - destruct (w_ready w); [destruct (w_delayed w)|]; injection H as <-; (eapply winvC_same; [| | | |exact I]; reflexivity).
  - destruct (last_opt (w_delayed w)); injection H as <-; [|unfold fatal]; (eapply winvC_same; [| | | |exact I]; reflexivity).
  - destruct (w_ready w) as [|a q]; injection H as <-.
    + eapply winvC_same; [| | | |exact I]; reflexivity.
    + apply dispatch_C; auto.
      * eapply winvV_same; [| | | | |exact IV]; reflexivity.
      * eapply winvC_same; [| | | |exact I]; reflexivity.
      * simpl. rewrite Epc. exact Logic.I.
  - destruct (w_ready w) as [|a q]; [discriminate|]. injection H as <-.
    apply dispatch_C; auto.
    + eapply winvV_same; [| | | | |exact IV]; reflexivity.
    + eapply winvC_same; [| | | |exact I]; reflexivity.
    + simpl. rewrite Epc. exact Logic.I.
  - injection H as <-. destruct (aw_C w a m nxt I) as (J & _ & _). eapply winvC_same; [| | | |exact J]; reflexivity.
  - injection H as <-. destruct (aw_C w a m nxt I) as (_ & J & _). eapply winvC_same; [| | | |exact J]; reflexivity.
  - injection H as <-. destruct (aw_C w a m false I) as (_ & _ & J). eapply winvC_same; [| | | |exact J]; reflexivity.
  - discriminate.
Qed.

Lemma recv_step_C : forall w m, winvC w ->
  (forall p, In p (msg_res m) -> a_w (fst p) = me w -> lexp w (fst p) (snd p)) ->
  winvC (recv_step w m).
Proof.
  intros w m I Hres. unfold recv_step. destruct (w_rdead w); [exact I|].
  destruct m as [t|ts|a v c|r| |c| |a]; try exact I; try (eapply winvC_same; [| | | |exact I]; reflexivity).
  - destruct ts as [|t0 r]; [eapply winvC_same; [| | | |exact I]; reflexivity|].
    destruct (last_opt (t0 :: r)); (eapply winvC_same; [| | | |exact I]; reflexivity).
  - destruct (handle_result w a v) as [w1 ok] eqn:Eh.
    assert (L : a_w a = me w -> lexp w a v) by (intro E; apply (Hres (a, v)); simpl; auto).
    destruct (handle_result_C _ _ _ _ _ I L Eh) as (I1 & _).
    destruct ok; [exact I1|eapply winvC_same; [| | | |exact I1]; reflexivity].
Qed.
