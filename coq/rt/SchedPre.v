(* Prelude for the generated scheduler arithmetic (gen/SchedArith.v) and the
   hand-written scheduler model (rt/Sched.v): Python list/slice/index
   semantics over Z, the result type of a handler (value or raised exception),
   message kinds.  No proofs here. *)
From Coq Require Import ZArith List Bool.
Import ListNotations.
Open Scope Z_scope.

(* what a Python statement sequence produces: a value or a raised exception *)
Inductive exn := RuntimeError | AssertionError | IndexError.
Inductive res (A : Type) := Ok (a : A) | Raise (e : exn).
Arguments Ok {A} a.
Arguments Raise {A} e.

Definition bind {A B} (r : res A) (f : A -> res B) : res B :=
  match r with Ok a => f a | Raise e => Raise e end.

(* RuntimeMessage members that the translated code names *)
Inductive rmsg := M_SUBMIT | M_SUBMIT_BATCH | M_RESULT | M_WAITING | M_UPDATE | M_CANCEL.

(* payloads of the messages the translated code puts on self.outgoing *)
Inductive payload (T : Type) :=
| PInt (z : Z)                       (* UPDATE task_diff *)
| PTasks (l : list T)                (* SUBMIT_BATCH tasks *)
| PWait (n : Z) (r : option Z)       (* WAITING (num_idle, read receipt) *)
| PRes.                              (* RESULT result (content not modelled) *)
Arguments PInt {T} z.
Arguments PTasks {T} l.
Arguments PWait {T} n r.
Arguments PRes {T}.

(* effects of a translated method body, in program order *)
Inductive action (T : Type) :=
| APut (dest : Z) (m : rmsg) (p : payload T)     (* self.outgoing.put((dest, m, p)) *)
| ASchedule (l : list T)                         (* self.schedule_tasks(l) *)
| AUpdateUpstream                                (* self.update_upstream_idle_workers() *)
| ASendResultDown.                               (* self.send_result_down(result) *)
Arguments APut {T} dest m p.
Arguments ASchedule {T} l.
Arguments AUpdateUpstream {T}.
Arguments ASendResultDown {T}.

Definition zlen {A} (l : list A) : Z := Z.of_nat (length l).

(* Python sum() over ints *)
Definition sumZ (l : list Z) : Z := fold_right Z.add 0 l.

(* slice bound normalisation: negative counts from the end, clamp to [0,len] *)
Definition py_norm (len i : Z) : Z :=
  if i <? 0 then Z.max (len + i) 0 else Z.min i len.

(* l[i:] and l[:i] *)
Definition py_from {A} (i : Z) (l : list A) : list A :=
  skipn (Z.to_nat (py_norm (zlen l) i)) l.
Definition py_to {A} (i : Z) (l : list A) : list A :=
  firstn (Z.to_nat (py_norm (zlen l) i)) l.

(* l[i] : IndexError outside [-len, len), negative indices count from the end *)
Definition py_idx {A} (l : list A) (i : Z) : res A :=
  let n := zlen l in
  if (i <? - n) || (n <=? i) then Raise IndexError
  else match nth_error l (Z.to_nat (if i <? 0 then n + i else i)) with
       | Some a => Ok a
       | None => Raise IndexError
       end.

Definition is_none {A} (o : option A) : bool :=
  match o with None => true | Some _ => false end.
