From Coq Require Import List Arith Bool PeanoNat Lia Permutation.
Import ListNotations.
From BQ Require Import rt.WorkerM rt.wip_W1 rt.wip_W2 rt.wip_W3 rt.wip_W4 rt.wip_W5 rt.wip_W6 rt.wip_W7 rt.wip_W8 rt.wip_W9 rt.wip_W10 rt.wip_W11 rt.wip_W12 rt.wip_W13 rt.wip_W14 rt.wip_W15.

Lemma sumf_le : forall A (f g : A -> nat) l, (forall x, In x l -> f x <= g x) -> sumf f l <= sumf g l.
Proof. induction l; simpl; intros; auto. specialize (H a (or_introl eq_refl)) as H1. specialize (IHl (fun x Hx => H x (or_intror Hx))). lia. Qed.

Lemma dep_unique : forall s, invA s -> invB s -> forall a, n_dep a s <= 1.
Proof.
  intros s IA IB a.
  assert (H1 : n_dep a s <= sumf (w_resB a) (s_workers s)).
  { unfold n_dep. apply sumf_le. intros w _. unfold w_resB. lia. }
  assert (H2 : n_stuck a s <= n_running a s).
  { unfold n_stuck, n_running. apply sumf_le. intros w Hw. destruct (B_stuck s IB w Hw) as [J _]. apply J. }
  pose proof (B_cons s IB a) as C. unfold n_resB in C.
  pose proof (A_cons s IA a) as CA. pose proof (A_uniq s IA a) as U. pose proof (n_running_le a s) as L.
  unfold n_task in CA. lia.
Qed.

Lemma dep1_worker : forall s w, invA s -> invB s -> In w (s_workers s) -> dep1 w.
Proof. intros s w IA IB Hw a. pose proof (dep_unique s IA IB a) as U. unfold n_dep in U.
  pose proof (sumf_ge _ (fun w => cnt a (w_deposited w)) _ _ Hw). simpl in H. lia. Qed.

Definition invC (s : sys) : Prop := forall w, In w (s_workers s) -> winvC w.

Lemma winvC_w0 : forall j, winvC (w0 j).
Proof. intro j. constructor; simpl.
  - intros; discriminate.
  - constructor.
  - intros. unfold batch_cnt, fresh_cnt. simpl. unfold cntn. simpl. lia. Qed.

Lemma invC_init : forall k, invC (sys0 k).
Proof. intros k w Hw. simpl in Hw. apply in_map_iff in Hw. destruct Hw as (j & <- & _). apply winvC_w0. Qed.

Lemma step_invC : forall atomic s e s', invA s -> invV s -> invB s -> invC s -> step atomic s e = Some s' -> invC s'.
Proof.
  intros atomic s e s' IA IV IB I H. destruct e as [sc target|i|i|i asg]; simpl in H.
  - destruct (Nat.ltb target (length (s_workers s))); [|discriminate]. injection H as <-. exact I.
  - destruct (nth_error (s_workers s) i) as [w|] eqn:Ew; [|discriminate].
    destruct (nth_error (s_down s) i) as [[|m q]|] eqn:Ed; try discriminate.
    destruct (w_rdead w) eqn:Erd; [discriminate|]. injection H as <-.
    pose proof (nth_error_In _ _ Ew) as Hwin. pose proof (nth_error_In _ _ Ed) as Hqin.
    intros w' Hw'. simpl in Hw'. apply In_set_nth in Hw'. destruct Hw' as [->|Hw']; [|apply I; auto].
    apply recv_step_C; [apply I; auto|].
    intros p Hp Hme. assert (Hp' : In p (chan_res (m :: q))) by (unfold chan_res; simpl; apply in_or_app; auto).
    destruct (VG_res_down s IV _ _ Hqin Hp') as (_ & Ex). unfold expect_ok in Ex.
    rewrite Hme in Ex. unfold me in Ex. rewrite (A_ids s IA i w Ew) in Ex. apply Ex. auto.
  - destruct (nth_error (s_workers s) i) as [w|] eqn:Ew; [|discriminate].
    destruct (main_step atomic w) as [w'|] eqn:Em; [|discriminate]. injection H as <-.
    pose proof (nth_error_In _ _ Ew) as Hwin.
    intros w0 Hw0. simpl in Hw0. apply In_set_nth in Hw0. destruct Hw0 as [->|Hw0]; [|apply I; auto].
    eapply main_step_C; [apply (VG_w s IV w Hwin)|apply I; auto|eapply dep1_worker; eauto| |exact Em].
    intros t Ht Hme. destruct (VG_held s IV w t Hwin) as (G & Ex).
    { unfold w_held. apply in_or_app. right. apply in_or_app. auto. }
    unfold expect_ok, good_addr in *. rewrite Hme in *. unfold me in *. rewrite (A_ids s IA i w Ew) in *.
    split; [apply Ex; auto|]. destruct G as (wx & Hwx & Hlt). congruence.
  - destruct (nth_error (s_workers s) i) as [w|] eqn:Ew; [|discriminate].
    destruct (w_out w) as [|m q] eqn:Eo; [discriminate|].
    pose proof (nth_error_In _ _ Ew) as Hwin.
    assert (G : forall d cl er ft, invC (mkSys (set_nth i (set_out w q) (s_workers s)) d cl er (s_nbox s) ft (s_roots s))).
    { intros d cl er ft w' Hw'. simpl in Hw'. apply In_set_nth in Hw'. destruct Hw' as [->|Hw']; [|apply I; auto].
      eapply winvC_same; [| | | |apply (I w Hwin)]; reflexivity. }
    unfold server_msg in H. cbn [s_workers set_workers s_down s_client s_errors s_nbox s_fatal s_roots] in H.
    destruct m as [t|ts|a v c|r| |c| |a].
    + destruct (valid_asg _ 1 asg); [|discriminate]. injection H as <-. apply G.
    + destruct (valid_asg _ (length ts) asg); [|discriminate]. injection H as <-. apply G.
    + destruct (a_w a) as [|j]; [injection H as <-; apply G|].
      destruct (Nat.ltb j _); injection H as <-; apply G.
    + injection H as <-. apply G.
    + injection H as <-. apply G.
    + injection H as <-. apply G.
    + injection H as <-. apply G.
    + injection H as <-. apply G.
Qed.

Lemma steps_inv4 : forall atomic es s s', invA s /\ invV s /\ invB s /\ invC s -> steps atomic s es = Some s' ->
  invA s' /\ invV s' /\ invB s' /\ invC s'.
Proof. induction es as [|e r IH]; simpl; intros s s' (IA & IV & IB & IC) H.
  - injection H as <-. auto.
  - destruct (step atomic s e) as [s1|] eqn:E; [|discriminate]. apply (IH s1); auto.
    split; [eapply step_invA; eauto|]. split; [eapply step_invV; eauto|]. split; [eapply step_invB; eauto|eapply step_invC; eauto]. Qed.

Lemma reachable_inv4 : forall atomic k s, reachable atomic k s -> invA s /\ invV s /\ invB s /\ invC s.
Proof. intros atomic k s [es H]. eapply steps_inv4; [|exact H].
  split; [apply invA_init|]. split; [apply invV_init|]. split; [apply invB_init|apply invC_init]. Qed.

Lemma nth_error_ext' : forall A (l1 l2 : list A), (forall i, nth_error l1 i = nth_error l2 i) -> l1 = l2.
Proof. induction l1 as [|x r IH]; destruct l2 as [|y r2]; intros H; auto.
  - specialize (H 0). discriminate.
  - specialize (H 0). discriminate.
  - pose proof (H 0) as H0. simpl in H0. injection H0 as ->. f_equal. apply IH. intro i. apply (H (S i)). Qed.

(* ---- an awaited value is complete; next() never repeats a slot ---- *)
Theorem await_complete : forall atomic k s, reachable atomic k s ->
  forall w a sc m f vs, In w (s_workers s) -> In (a, sc, Some m, OAwait f vs) (w_log w) ->
    exists sp, nth_error (specs_of sc) f = Some sp /\ vs = map (fun c => Some (ret_of c)) (kids sp).
Proof.
  intros atomic k s R w a sc m f vs Hw Hin.
  destruct (reachable_inv4 _ _ _ R) as (IA & IV & IB & IC).
  pose proof (C_log w (IC w Hw)) as L. rewrite Forall_forall in L. specialize (L _ Hin). simpl in L.
  destruct L as (Ffull & sp & Hsp & Hlen).
  pose proof (V_log w (VG_w s IV w Hw)) as LV. rewrite Forall_forall in LV. specialize (LV _ Hin). simpl in LV.
  exists sp. split; auto.
  apply nth_error_ext'. intro i. rewrite nth_error_map.
  destruct (nth_error vs i) as [c|] eqn:Ei.
  - destruct c as [v|]; [|rewrite Forall_forall in Ffull; exfalso; apply (Ffull None); [eapply nth_error_In; eauto|reflexivity]].
    destruct (LV i v Ei) as (sp' & Hsp' & Hv). assert (sp' = sp) by congruence. subst sp'.
    rewrite nth_error_map in Hv. destruct (nth_error (kids sp) i); simpl in *; congruence.
  - assert (length vs <= i) by (apply nth_error_None; auto).
    assert (nth_error (kids sp) i = None) by (apply nth_error_None; lia). rewrite H0. reflexivity.
Qed.

Theorem next_disjoint : forall atomic k s, reachable atomic k s ->
  forall w m, In w (s_workers s) -> NoDup (map fst (batches m (w_log w))).
Proof.
  intros atomic k s R w m Hw. destruct (reachable_inv4 _ _ _ R) as (IA & IV & IB & IC).
  apply cntn_le1_NoDup. intro slot.
  pose proof (C_next w (IC w Hw) m slot) as K. unfold batch_cnt in K.
  pose proof (dep1_worker s w IA IB Hw (mkAddr (me w) m slot)). lia.
Qed.

(* once as many results as slots have been handed out, every slot has been seen *)
Lemma next_covers : forall (bt : list (nat * val)) n, NoDup (map fst bt) -> (forall i v, In (i, v) bt -> i < n) ->
  n <= length bt -> forall i, i < n -> In i (map fst bt).
Proof. intros bt n Hnd Hlt Hlen i Hi. apply (pigeon (map fst bt) n); auto.
  - intros x Hx. apply in_map_iff in Hx. destruct Hx as ([j v] & <- & Hin). eapply Hlt; eauto.
  - rewrite map_length. auto. Qed.

Theorem deposits_once : forall atomic k s, reachable atomic k s -> forall a, n_dep a s <= 1.
Proof. intros atomic k s R a. destruct (reachable_inv4 _ _ _ R) as (IA & IV & IB & IC). apply dep_unique; auto. Qed.

Theorem slot_values_full : forall atomic k s, reachable atomic k s ->
  (forall w a sc m f vs, In w (s_workers s) -> In (a, sc, Some m, OAwait f vs) (w_log w) ->
     exists sp, nth_error (specs_of sc) f = Some sp /\ vs = map (fun c => Some (ret_of c)) (kids sp)) /\
  (forall w a sc mo f bt, In w (s_workers s) -> In (a, sc, mo, ONext f bt) (w_log w) ->
     forall i v, In (i, v) bt -> slot_spec sc f i v) /\
  (forall a v, In (a, v) (s_client s) -> In (a_box a, v) (s_roots s)) /\
  (forall b v v', In (b, v) (s_roots s) -> In (b, v') (s_roots s) -> v = v').
Proof.
  intros atomic k s R. destruct (slot_values atomic k s R) as (_ & H2 & H3 & H4).
  split; [|auto]. intros. eapply await_complete; eauto.
Qed.
