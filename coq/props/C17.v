(* C17 - OpenQASM 2 import/export preserves the program and agrees with Qiskit.
   Only statements closed by `exact`; models in qasm/QExp.v QRegs.v QGate.v QTable.v
   QEnc.v (+ generated gen/QasmTable.v), proofs in qasm/*Thm.v, witnesses in
   qasm/QRefute.v.

   Reading guide.  [eval_exp O fx bound e] is the implementation's eval_exp on the
   Lark tree e: flatten (fx=false: the code as it is; fx=true: after fixes/D5.patch),
   parse with Python's expression grammar, evaluate in eval_locals (bound = which
   function names it binds).  [denote O e] is the standard OpenQASM value of the tree
   (what Qiskit assigns to the text; accounts for Lark's greedy unary minus).  V and
   its arithmetic O are arbitrary (no algebraic law is used). *)
From Coq Require Import String List Bool Arith ZArith.
Import ListNotations.
From BQ Require Import qasm.QExp qasm.QExpThm qasm.QRegs qasm.QRegsThm qasm.QGate qasm.QGateThm
  qasm.QTable qasm.QEnc qasm.QEncThm qasm.QRefute qasm.QProg qasm.QProgThm qasm.QProgEx qasm.QProgNm gen.QasmTable.

(* ================================================================ expressions *)
(* printer/parser round trip of the repaired flattening, for every tree of a shape the
   Lark parser produces and every choice of bound function names *)
Theorem C17_exp_faithful : forall (V : Type) (O : ops V) (bound : fn -> bool) (e : exp V),
  lark_ok e = true -> (forall f, In f (fnsE e) -> bound f = true) ->
  eval_exp O true bound e = denote O e.
Proof. exact (@exp_faithful). Qed.

(* the same statement for the code as it is (D5) is false: (1+2)*3 evaluates to 7 *)
Definition C17_exp_faithful_current_full : Prop :=
  forall (V : Type) (O : ops V) (bound : fn -> bool) (e : exp V),
    lark_ok e = true -> (forall f, In f (fnsE e) -> bound f = true) ->
    eval_exp O false bound e = denote O e.
Theorem C17_exp_faithful_refuted : ~ C17_exp_faithful_current_full.
Proof. exact exp_faithful_refuted. Qed.

(* what does hold for the code as it is: trees without parentheses / substituted values *)
Theorem C17_exp_faithful_current_partial : forall (V : Type) (O : ops V) (bound : fn -> bool) (e : exp V),
  lark_ok e = true -> nopE e = true -> (forall f, In f (fnsE e) -> bound f = true) ->
  eval_exp O false bound e = denote O e.
Proof. exact (@exp_faithful_current). Qed.

(* python's parser applied to the printed form of any python parse tree returns it
   (the fuel 6*length+6 of pyparse is enough) *)
Theorem C17_pyparse_print : forall (V : Type) (s : nsum V), pyparse (prS s) = Some s.
Proof. exact (@parse_print). Qed.

(* [denote] is the naive compositional semantics whenever every unary minus applies to
   a single primary (e.g. fully parenthesised text) *)
Theorem C17_denote_naive : forall (V : Type) (O : ops V) (e : exp V),
  lark_ok e = true -> simpleE e = true -> denote O e = naiveE O e.
Proof. exact (@denote_naive). Qed.

(* a function whose terminal text eval_locals does not bind cannot be evaluated *)
Theorem C17_fn_unbound_fails : forall (V : Type) (O : ops V) fx (bound : fn -> bool) f (e : exp V),
  lark_ok e = true -> bound f = false ->
  eval_exp O fx bound (EOne (MOne (PFn f e))) = None \/ fx = false.
Proof. exact (@unbound_fails). Qed.

(* generated: each of sin cos tan exp ln sqrt is spelled as in OpenQASM and bound in
   eval_locals - except possibly exp and sqrt (D5: EXP upper-case, sqrt missing) *)
Theorem C17_fn_names : forall f, fn_ok unaryop_table f = true \/ In f [FExp; FSqrt].
Proof. exact fn_names. Qed.

Example C17_exp_nonvacuous :
  lark_ok w_pow_paren = true /\ eval_exp Zops true cur_bound w_pow_paren = Some 98%Z /\
  denote Zops w_pow_paren = Some 98%Z /\ eval_exp Zops false cur_bound w_pow_paren = Some 22%Z.
Proof. exact example_fixed. Qed.

Example C17_exp_refutation_witnesses :
  lark_ok w_paren_mul = true /\ fnsE w_paren_mul = [] /\
  eval_exp Zops false cur_bound w_paren_mul = Some 7%Z /\ denote Zops w_paren_mul = Some 9%Z /\
  eval_exp Zops false cur_bound w_neg_paren = Some 1%Z /\ denote Zops w_neg_paren = Some (-3)%Z.
Proof. exact refute_paren. Qed.

Example C17_fn_refutation_witnesses :
  denote Zops w_sqrt = Some 104%Z /\ eval_exp Zops false cur_bound w_sqrt = None /\
  eval_exp Zops true cur_bound w_sqrt = None /\
  denote Zops w_exp = Some 101%Z /\ eval_exp Zops false cur_bound w_exp = None.
Proof. exact refute_fn. Qed.

Example C17_denote_greedy_usub :
  denote Zops w_usub_greedy = Some 1%Z /\ naiveE Zops w_usub_greedy = Some (-3)%Z /\
  denote Zops w_mul_usub = Some (-2)%Z /\ naiveE Zops w_mul_usub = Some (-14)%Z /\
  eval_exp Zops false cur_bound w_usub_greedy = Some 1%Z /\ eval_exp Zops true cur_bound w_mul_usub = Some (-2)%Z.
Proof. exact denote_greedy_usub. Qed.

(* ================================================================== registers *)
(* flat index of q[i] = (sum of the sizes of the registers declared before q) + i *)
Theorem C17_regs_first_index : forall regs x, first_index regs x = res_of (offset_of regs x).
Proof. exact first_index_spec. Qed.

(* a bare register name expands to all its qubits, in order *)
Theorem C17_regs_whole : forall regs x,
  indices regs x =
  match offset_of regs x, size_of regs x with
  | Some o, Some sz => Ok (map (fun i => o + i) (seq 0 sz))
  | _, _ => ErrLang
  end.
Proof. exact indices_spec. Qed.

(* argument lists convert item by item, in order (for the lists the idlist branch can
   handle: at most one leading bare register name) *)
Theorem C17_regs_convert : forall regs q, no_idlist2 q = true ->
  convert_qubit_ids_to_indices regs q = res_of (spec_args regs (args_of q)).
Proof. exact convert_spec. Qed.

Theorem C17_regs_in_range : forall regs x o sz i,
  offset_of regs x = Some o -> size_of regs x = Some sz -> i < sz -> o + i < total regs.
Proof. exact offset_range. Qed.

Theorem C17_regs_injective : forall regs x y ox oy sx sy i j,
  NoDup (map fst regs) ->
  offset_of regs x = Some ox -> size_of regs x = Some sx -> i < sx ->
  offset_of regs y = Some oy -> size_of regs y = Some sy -> j < sy ->
  ox + i = oy + j -> x = y /\ i = j.
Proof. exact offset_inj. Qed.

Theorem C17_regs_cx : forall regs c ci t ti, NoDup (map fst regs) ->
  cxgate regs c ci t ti =
  match offset_of regs c, offset_of regs t with
  | Some oc, Some ot => if Nat.eqb (oc + ci) (ot + ti) then ErrLang else Ok [oc + ci; ot + ti]
  | _, _ => ErrLang
  end.
Proof. exact cxgate_spec. Qed.

(* findings on the register walks (reproduced on the implementation by the harness) *)
Theorem C17_regs_idlist_crash : forall regs l x,
  convert_qubit_ids_to_indices regs (QIdl (IdSnoc l x)) = ErrCrash.
Proof. exact convert_idlist_crash. Qed.
Theorem C17_regs_reset_whole_refuted : exists regs x, reset_locs regs x None <> reset_spec regs x None.
Proof. exact reset_whole_refuted. Qed.
Theorem C17_regs_measure_single_refuted : exists regs x i loc keys,
  measure_keys regs x (Some i) = Ok (loc, keys) /\ keys <> loc.
Proof. exact measure_single_refuted. Qed.

Example C17_regs_nonvacuous :
  let regs := [(0, 2); (1, 3); (2, 1)] in
  NoDup (map fst regs) /\ offset_of regs 1 = Some 2 /\ size_of regs 1 = Some 3 /\
  convert_qubit_ids_to_indices regs (QMixed (MxSnocId (MxSnocIdx (MxFirst 1 0) 0 1) 2)) = Ok [2; 1; 5] /\
  indices regs 1 = Ok [2; 3; 4] /\ cxgate regs 1 2 0 1 = Ok [4; 1].
Proof.
  simpl. split; [|repeat split; reflexivity].
  repeat constructor; simpl; intuition discriminate.
Qed.

(* ========================================================== parameter binding *)
(* one stored body expression: substitute the printed actuals, flatten, evaluate  =
   standard value in the environment formal -> actual *)
Theorem C17_param_binding_expr : forall (V : Type) (O : ops V) fs (acts : list (actual V)) (bound : fn -> bool) e,
  lark_ok e = true -> srcE e = true -> (forall f, In f (fnsE e) -> bound f = true) ->
  eval_exp O true bound (substE acts (bindE fs e)) = denote_env O (env_of O fs acts) e.
Proof. exact (@bind_faithful). Qed.

(* instantiating a user-defined gate, at any nesting depth *)
Theorem C17_param_binding : forall (V : Type) (O : ops V) (bound : fn -> bool) (vsplit : V -> actual V),
  (forall v, aval O (vsplit v) = v) ->
  forall d g, wf bound d = true -> compile O true bound d = Some g ->
  forall loc ps, build O true bound vsplit g loc ps = spec O d loc ps.
Proof. exact (@build_spec). Qed.

Definition C17_param_binding_current_full : Prop :=
  forall (V : Type) (O : ops V) (bound : fn -> bool) (vsplit : V -> actual V),
    (forall v, aval O (vsplit v) = v) ->
    forall d g, wf bound d = true -> compile O false bound d = Some g ->
    forall loc ps, build O false bound vsplit g loc ps = spec O d loc ps.
Theorem C17_param_binding_refuted : ~ C17_param_binding_current_full.
Proof. exact param_binding_refuted. Qed.

Example C17_param_binding_nonvacuous :
  wf (fun _ => true) k_def = true /\
  (exists g, compile Zops true (fun _ => true) k_def = Some g /\
     build Zops true (fun _ => true) zsplit g [0] [3%Z] = spec Zops k_def [0] [3%Z]) /\
  spec Zops k_def [0] [3%Z] =
    Some (ICirc 1 [ICirc 1 [IPrim 7 [0] [9%Z]] [0]; IPrim 0 [0] [6%Z]] [0]).
Proof. exact example_binding. Qed.

(* ================================================================= name table *)
(* generated.  For every library gate with a QASM spelling, the decoder's table maps
   the spelling back to that gate with its arities - except for the named spellings:
     D13 (defects):  diag, st, pxz
     benign (decode to a different gate object with the same unitary; oracle-checked):
                     rxx(pi/2) ryy(pi/2) rzz(pi/2) identity1 sxdg
     keyword:        reset *)
Theorem C17_table_bijective : forall g s, In g lib_gates -> l_spelling g = Some s ->
  ~ In s ["diag"; "st"; "pxz";  "rxx(pi/2)"; "ryy(pi/2)"; "rzz(pi/2)"; "identity1"; "sxdg";  "reset"]%string ->
  decode_name dec_table s = Some (l_gate g, l_np g, l_nq g).
Proof. exact table_bijective. Qed.

(* D13 is real: the library prints these spellings and the table rejects them *)
Theorem C17_table_d13 :
  decode_name dec_table "diag" = None /\ decode_name dec_table "st" = None /\
  (exists g gid, In g lib_gates /\ l_spelling g = Some "pxz"%string /\
     decode_name dec_table "pxz" = Some (gid, 1, 3) /\ l_np g = 3 /\ l_nq g = 1).
Proof. exact table_d13_fail. Qed.

Theorem C17_table_arity : forall e, In e dec_table -> d_name e <> "pxz"%string ->
  exists g, ginfo_of gate_info (d_gate e) = Some g /\ d_np e = g_np g /\ d_nv e = g_nq g.
Proof. exact table_arity_consistent. Qed.

Theorem C17_table_names_unique : nodup_str (map d_name dec_table) = true.
Proof. exact table_names_unique. Qed.

(* ================================================================= round trip *)
(* a circuit over table gates: decoding the encoder's lines gives the same
   (gate, location, parameters) sequence, hence the same per-qubit order - for either
   version of the flattening (printed floats contain no parentheses) *)
Theorem C17_roundtrip_ops : forall (V : Type) (O : ops V) (bound : fn -> bool) (vsplit : V -> actual V),
  (forall v, aval O (vsplit v) = v) ->
  forall fx n q (c : list (op V)), Forall (op_ok lib_gates) c ->
  exists ls d, encode vsplit lib_gates c = Some ls /\
    decode O fx bound dec_table n q ls = map Ok d /\ d = c /\ forall x, proj x d = proj x c.
Proof.
  intros V O bound vsplit Hs fx n q c Hc.
  destruct (roundtrip_ops O bound vsplit Hs fx dec_table lib_gates n q c rt_tables_ok Hc) as [ls [E D]].
  exists ls, c. auto.
Qed.

(* CircuitGate.get_qasm_gate_def: the body lines of `gate circuitgate_X (p0..p{n-1}) ...`
   use contiguous, pairwise disjoint slices of the formals, in body order, covering
   exactly p0..p{n-1} - the offset advances by num_params for EVERY body operation,
   nested CircuitGate or not *)
Theorem C17_gate_def_formals_partition : forall ops,
  concat (body_formals ops) = header_formals ops /\ NoDup (concat (body_formals ops)).
Proof. exact body_formals_partition. Qed.

Theorem C17_gate_def_formals_slice : forall ops i b n,
  nth_error ops i = Some (b, n) ->
  nth_error (body_formals ops) i = Some (seq (gate_num_params (firstn i ops)) n).
Proof. exact body_formals_nth. Qed.

(* so instantiating the definition with the gate's parameter vector gives every body
   operation its own parameters back *)
Theorem C17_gate_def_formals_select : forall (A : Type) (pss : list (bool * list A)),
  map (select (concat (map snd pss)))
      (body_formals (map (fun p => (fst p, length (snd p))) pss))
  = map (fun p => map Some (snd p)) pss.
Proof. exact body_formals_select. Qed.

Example C17_gate_def_formals_nonvacuous :
  body_formals [(true, 4); (true, 4); (false, 3); (false, 0); (true, 1)]
  = [[0; 1; 2; 3]; [4; 5; 6; 7]; [8; 9; 10]; []; [11]].
Proof. reflexivity. Qed.

Definition gid_of (s : string) : nat :=
  match find (fun g => opt_str_eqb (l_spelling g) s) lib_gates with Some g => l_gate g | None => 0 end.
Example C17_roundtrip_nonvacuous :
  spelling_of lib_gates (gid_of "cx") = Some "cx"%string /\
  spelling_of lib_gates (gid_of "u3") = Some "u3"%string /\
  Forall (op_ok lib_gates) [mkOp (gid_of "u3") [1] [1%Z; (-2)%Z; 3%Z]; mkOp (gid_of "cx") [1; 0] []].
Proof.
  split; [vm_compute; reflexivity|]. split; [vm_compute; reflexivity|].
  constructor; [|constructor; [|constructor]]; apply op_okb_ok; vm_compute; reflexivity.
Qed.

(* ===================================================== whole programs (encoder) *)
(* QProg.encode_with = OPENQASM2Language.encode as a printer (register declaration, creg
   declarations and `gate circuitgate_X` blocks of the gate set gs in its iteration order,
   one statement per operation: library gates, CircuitGate calls, barrier, one `measure`
   per entry of a MeasurementPlaceholder, reset); QProg.decode_prog = the visitor on those
   statements.  For every circuit c and every order gs of its gate set satisfying the
   boolean well-formedness circ_okb (library operations printable as in C17_roundtrip_ops,
   CircuitGates nested to any depth whose body locations are in range, every CircuitGate
   of c defined by gs, every measured classical register declared by gs exactly once):
   decoding the printed program returns the classical registers and exactly the
   operations of c - a CircuitGate comes back as the CircuitGate over the same body with
   the operation's parameters, a measurement as one operation per measured qubit.
   nm (the circuitgate_<hash> naming) is assumed injective on gate shapes. *)
Theorem C17_program_roundtrip : forall (V : Type) (O : ops V) (fx : bool) (bound : fn -> bool) (vsplit : V -> actual V),
  (forall v, aval O (vsplit v) = v) ->
  forall nm : nat -> list (uop unit) -> nat, (forall a b c d, nm a b = nm c d -> a = c /\ b = d) ->
  forall q n (gs c : list (cop V)), circ_okb nm lib_gates n gs c = true ->
  decode_prog O fx bound vsplit dec_table lib_gates q n (encode_with nm vsplit gs c)
  = Ok (all_cregs gs, concat (map expect c)).
Proof. exact (fun V O fx bound vsplit Hs nm Hinj => prog_roundtrip O fx bound vsplit Hs nm Hinj dec_table lib_gates rt_tables_ok). Qed.

(* hence the same operations, in the same order, on every qubit *)
Theorem C17_program_roundtrip_per_qubit : forall (V : Type) (O : ops V) (fx : bool) (bound : fn -> bool) (vsplit : V -> actual V),
  (forall v, aval O (vsplit v) = v) ->
  forall nm : nat -> list (uop unit) -> nat, (forall a b c d, nm a b = nm c d -> a = c /\ b = d) ->
  forall q n (gs c : list (cop V)), circ_okb nm lib_gates n gs c = true ->
  exists d, decode_prog O fx bound vsplit dec_table lib_gates q n (encode_with nm vsplit gs c) = Ok (all_cregs gs, d) /\
    forall x, dproj x d = dproj x (concat (map expect c)).
Proof. exact (fun V O fx bound vsplit Hs nm Hinj => prog_roundtrip_proj O fx bound vsplit Hs nm Hinj dec_table lib_gates rt_tables_ok). Qed.

(* the instantiation step on its own: a definition block printed for a body is accepted,
   and calling it with the concatenated parameters of ANY body of the same shape rebuilds
   that body (this is where C17_gate_def_formals_* meet CustomGateDef.build_op) *)
Theorem C17_gate_def_instantiates : forall (V : Type) (O : ops V) (fx : bool) (bound : fn -> bool) (vsplit : V -> actual V),
  (forall v, aval O (vsplit v) = v) ->
  forall nm : nat -> list (uop unit) -> nat, (forall a b c d, nm a b = nm c d -> a = c /\ b = d) ->
  forall env nv (os0 : list (uop V)), Inv O fx bound vsplit nm env ->
  forallb (uop_okb lib_gates) os0 = true ->
  forallb (fun b => forallb (fun j => Nat.ltb j nv) (uloc b)) os0 = true ->
  Forall (defined nm env) os0 ->
  exists g, compile_def dec_table lib_gates env (length (params_of os0)) nv (blines nm os0 0) = Ok g /\
    forall os : list (uop V), map shape_of os = map shape_of os0 ->
    forall loc, build O fx bound vsplit g loc (params_of os) = Some (ICirc nv (map erase os) loc).
Proof. exact (fun V O fx bound vsplit Hs nm Hinj => def_instantiates O fx bound vsplit Hs nm Hinj dec_table lib_gates rt_tables_ok). Qed.

(* finding C17-creg: a gate set with two MeasurementPlaceholders that carry a classical
   register (the decoder produces exactly that for two `measure q[i] -> c[j];`
   statements) is printed with the register declared twice; the decoder rejects it *)
Theorem C17_program_creg_redeclared : forall (V : Type) (O : ops V) (fx : bool) (bound : fn -> bool) (vsplit : V -> actual V)
  (nm : nat -> list (uop unit) -> nat) q n r cr ms1 l1 ms2 l2 (c : list (cop V)),
  decode_prog O fx bound vsplit dec_table lib_gates q n
    (encode_with nm vsplit [CMeasure (r :: cr) ms1 l1; CMeasure (r :: cr) ms2 l2] c) = ErrLang.
Proof. exact (fun V O fx bound vsplit nm => creg_redeclared O fx bound vsplit nm dec_table lib_gates). Qed.

(* non-vacuity: a 3-qubit circuit with a CircuitGate nested in a CircuitGate (used twice),
   a barrier, a reset and a two-qubit measurement satisfies circ_okb; its printed program
   has 10 statements and decodes to the expected operations *)
Example C17_program_nonvacuous :
  circ_okb ex_nm lib_gates 3 ex_gs ex_circ = true /\
  decode_prog Zops true cur_bound zsplit dec_table lib_gates 0 3 (encode_with ex_nm zsplit ex_gs ex_circ)
    = Ok ([(0, 3)], concat (map expect ex_circ)) /\
  length (encode_with ex_nm zsplit ex_gs ex_circ) = 10 /\
  uparams ex_mid = [7; 1; -2; 3; 5; -4]%Z /\
  nth_error (encode_with ex_nm zsplit ex_gs ex_circ) 2 =
    Some (SGateDef 34 6 3 [mkBL (KSpell (gid "rx")) [0] [1]; mkBL (KCirc 23) [1; 2; 3; 4] [2; 0];
                           mkBL (KSpell (gid "cx")) [] [0; 1]; mkBL (KSpell (gid "rz")) [5] [0]]).
Proof. exact prog_example. Qed.

Example C17_program_creg_witness :
  decode_prog Zops true cur_bound zsplit dec_table lib_gates 0 2
    (encode_with ex_nm zsplit [CMeasure [(0, 2)] [(0, (0, 0))] [0]; CMeasure [(0, 2)] [(1, (0, 1))] [1]]
                              [CMeasure [(0, 2)] [(0, (0, 0))] [0]; CMeasure [(0, 2)] [(1, (0, 1))] [1]])
  = ErrLang.
Proof. exact creg_example. Qed.

(* the naming hypothesis is satisfiable: an injective naming of gate shapes exists *)
Example C17_program_naming_exists :
  exists nm : nat -> list (uop unit) -> nat, forall a b c d, nm a b = nm c d -> a = c /\ b = d.
Proof. exact (ex_intro _ cantor_nm cantor_nm_inj). Qed.
