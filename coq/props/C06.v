(* C06 - circuit simulation equals the ordered product of its operations.
   Statements only (closed by `exact`); proofs: lib/TensorThm.v, circuit/SimThm.v.
   Models: lib/Tensor.v (numpy pipelines of UnitaryBuilder / StateVector), circuit/Sim.v (Circuit). *)
From Coq Require Import List NArith Arith ZArith Ring.
Import ListNotations.
From BQ Require Import lib.Tensor lib.TensorThm lib.Trace circuit.Sim circuit.SimThm circuit.SimGradThm circuit.SimTraceThm circuit.SimExec.
Open Scope N_scope.

Section C06.
(* any commutative ring of matrix entries; any conjugation; any parameter type; any storage function *)
Variable R : Type.
Variables (r0 r1 : R) (radd rmul rsub : R -> R -> R) (ropp : R -> R) (rconj : R -> R).
Hypothesis Rth : ring_theory r0 r1 radd rmul rsub ropp (@eq R).
Variable P : Type.
Variable mz : nd R -> nd R.
Hypothesis mz_ok : forall T, nd_eq R (mz T) T.

(* ---- the tensor contraction pipelines: any radixes, any arity, any order of the qudits in loc ---- *)
Theorem C06_apply_right_embed : forall radixes T U loc,
  allpos radixes -> wf_loc (length radixes) loc -> shape T = radixes ++ radixes ->
  nth 1 (shape U) 0 = prodN (gather loc radixes) ->
  nd_eq R (ub_get_unitary R radixes (apply_right R r0 radd rmul rconj radixes T U loc false))
          (nd_matmul R r0 radd rmul (embed R r0 radixes loc U) (ub_get_unitary R radixes T)).
Proof. exact (apply_right_embed R r0 r1 radd rmul rsub ropp rconj Rth). Qed.

Theorem C06_apply_left_embed : forall radixes T U loc,
  allpos radixes -> wf_loc (length radixes) loc -> shape T = radixes ++ radixes ->
  nth 1 (shape U) 0 = prodN (gather loc radixes) ->
  nd_eq R (ub_get_unitary R radixes (apply_left R r0 radd rmul rconj radixes T U loc false))
          (nd_matmul R r0 radd rmul (ub_get_unitary R radixes T) (embed R r0 radixes loc U)).
Proof. exact (apply_left_embed R r0 r1 radd rmul rsub ropp rconj Rth). Qed.

(* inverse=True contracts with the dagger (conj().T) of the matrix *)
Theorem C06_apply_inverse_is_dagger : forall radixes T U loc,
  apply_right R r0 radd rmul rconj radixes T U loc true = apply_right R r0 radd rmul rconj radixes T (nd_dagger R rconj U) loc false
  /\ apply_left R r0 radd rmul rconj radixes T U loc true = apply_left R r0 radd rmul rconj radixes T (nd_dagger R rconj U) loc false.
Proof. exact (fun radixes T U loc => conj (apply_right_inverse R r0 radd rmul rconj radixes T U loc) (apply_left_inverse R r0 radd rmul rconj radixes T U loc)). Qed.

Theorem C06_eval_apply_right_embed : forall radixes T M loc,
  allpos radixes -> wf_loc (length radixes) loc -> shape T = radixes ++ radixes ->
  nth 1 (shape M) 0 = prodN (gather loc radixes) ->
  nd_eq R (eval_apply_right R r0 radd rmul radixes T M loc)
          (nd_matmul R r0 radd rmul (embed R r0 radixes loc M) (ub_get_unitary R radixes T)).
Proof. exact (eval_apply_right_embed R r0 r1 radd rmul rsub ropp rconj Rth). Qed.

Theorem C06_statevector_apply_embed : forall radixes v U loc,
  allpos radixes -> wf_loc (length radixes) loc -> shape v = [prodN radixes] ->
  nth 1 (shape U) 0 = prodN (gather loc radixes) ->
  nd_eq R (sv_apply R r0 radd rmul rconj radixes v U loc false) (matvec R r0 radd rmul (embed R r0 radixes loc U) v).
Proof. exact (sv_apply_embed R r0 r1 radd rmul rsub ropp rconj Rth). Qed.

(* the stored (materialised) array is the array *)
Theorem C06_materialize_identity : forall T, nd_eq R (materialize R r0 T) T.
Proof. exact (materialize_ok R r0). Qed.

(* ---- algebra of embeddings ---- *)
Theorem C06_embed_comm_disjoint : forall radixes l1 l2 A B,
  allpos radixes -> wf_loc (length radixes) l1 -> wf_loc (length radixes) l2 ->
  (forall q, In q l1 -> ~ In q l2) ->
  nd_eq R (nd_matmul R r0 radd rmul (embed R r0 radixes l1 A) (embed R r0 radixes l2 B))
          (nd_matmul R r0 radd rmul (embed R r0 radixes l2 B) (embed R r0 radixes l1 A)).
Proof. exact (embed_comm_disjoint R r0 r1 radd rmul rsub ropp rconj Rth). Qed.

Theorem C06_embed_mul : forall radixes loc A B,
  allpos radixes -> wf_loc (length radixes) loc -> nth 1 (shape A) 0 = prodN (gather loc radixes) ->
  nd_eq R (nd_matmul R r0 radd rmul (embed R r0 radixes loc A) (embed R r0 radixes loc B))
          (embed R r0 radixes loc (nd_matmul R r0 radd rmul A B)).
Proof. exact (embed_mul R r0 r1 radd rmul rsub ropp rconj Rth). Qed.

Theorem C06_embed_identity : forall radixes loc,
  allpos radixes -> wf_loc (length radixes) loc ->
  nd_eq R (embed R r0 radixes loc (nd_identity R r0 r1 (prodN (gather loc radixes)))) (nd_identity R r0 r1 (prodN radixes)).
Proof. exact (embed_identity R r0 r1 rconj). Qed.

(* the matrix semantics satisfies Trace.v's commutation hypothesis: programs equal up to swaps of adjacent
   operations on disjoint locations (Trace.equiv) have the same ordered product *)
Theorem C06_equiv_same_product : forall radixes (s t : list (nd R * list nat)),
  allpos radixes -> equiv (nd R * list nat) snd s t -> Forall (wf_mat R radixes) s ->
  forall acc, sq R radixes acc ->
  nd_eq R (uprod R r0 radd rmul radixes s acc) (uprod R r0 radd rmul radixes t acc).
Proof. exact (fun radixes s t Hpos => equiv_uprod R r0 r1 radd rmul rsub ropp rconj Rth radixes Hpos s t). Qed.

(* ---- the circuit ---- *)
Theorem C06_unitary_is_product : forall (c : circuit R P) (ps : list P),
  allpos (c_radixes c) -> Forall (wf_op R P (c_radixes c)) (ops_of R P c) ->
  (ps = [] \/ length ps = num_params R P c) ->
  exists G, get_unitary R r0 r1 radd rmul rconj P mz c ps = Some G /\
            nd_eq R G (uprod R r0 radd rmul (c_radixes c) (gate_mats R P c ps) (nd_identity R r0 r1 (prodN (c_radixes c)))).
Proof. exact (unitary_is_product R r0 r1 radd rmul rsub ropp rconj Rth P mz mz_ok). Qed.

Theorem C06_wrong_length_rejected : forall (c : circuit R P) (ps : list P),
  ps <> [] -> length ps <> num_params R P c -> get_unitary R r0 r1 radd rmul rconj P mz c ps = None.
Proof. exact (get_unitary_rejects R r0 r1 radd rmul rconj P mz). Qed.

Theorem C06_statevector : forall (c : circuit R P) (v : nd R) (ps : list P) G,
  allpos (c_radixes c) -> Forall (wf_op R P (c_radixes c)) (ops_of R P c) -> shape v = [prodN (c_radixes c)] ->
  (ps = [] \/ length ps = num_params R P c) -> get_unitary R r0 r1 radd rmul rconj P mz c ps = Some G ->
  exists w, get_statevector R r0 radd rmul rconj P mz c v ps = Some w /\ nd_eq R w (matvec R r0 radd rmul G v).
Proof. exact (statevector_is_unitary_times_state R r0 r1 radd rmul rsub ropp rconj Rth P mz mz_ok). Qed.

(* ---- the flat parameter vector ---- *)
Theorem C06_param_index : forall (c : circuit R P) i,
  ((i < length (params R P c))%nat ->
     exists pre cy o post k, c_ops c = pre ++ (cy, o) :: post /\
       get_param_location R P c i = Some (cy, hd 0%nat (op_loc o), k) /\
       (i = length (pconcat R P pre) + k)%nat /\ (k < length (op_params o))%nat /\
       nth_error (params R P c) i = nth_error (op_params o) k)
  /\ ((length (params R P c) <= i)%nat -> get_param_location R P c i = None).
Proof. exact (get_param_location_spec R P). Qed.

Theorem C06_get_param : forall (c : circuit R P) i,
  grid_ok R P (c_ops c) -> get_param R P c i = nth_error (params R P c) i.
Proof. exact (get_param_spec R P). Qed.

Theorem C06_set_param : forall (c : circuit R P) i x,
  grid_ok R P (c_ops c) -> (i < length (params R P c))%nat ->
  exists c', set_param R P c i x = Some c' /\ params R P c' = set_nth (params R P c) i x /\ c_radixes c' = c_radixes c.
Proof. exact (set_param_spec R P). Qed.

Theorem C06_set_params : forall (c : circuit R P) (v : list P),
  (length v = num_params R P c -> exists c', set_params R P c v = Some c' /\ params R P c' = v /\ c_radixes c' = c_radixes c)
  /\ (length v <> num_params R P c -> set_params R P c v = None).
Proof. exact (set_params_spec R P). Qed.

Theorem C06_explicit_equals_stored : forall (c : circuit R P),
  params_ok R P (c_ops c) ->
  get_unitary R r0 r1 radd rmul rconj P mz c (params R P c) = get_unitary R r0 r1 radd rmul rconj P mz c [].
Proof. exact (explicit_stored_same R r0 r1 radd rmul rconj P mz). Qed.

Theorem C06_set_params_then_stored : forall (c c' : circuit R P) (v : list P),
  params_ok R P (c_ops c) -> v <> [] -> set_params R P c v = Some c' ->
  get_unitary R r0 r1 radd rmul rconj P mz c' [] = get_unitary R r0 r1 radd rmul rconj P mz c v.
Proof. exact (set_params_then_stored R r0 r1 radd rmul rconj P mz). Qed.

Theorem C06_freeze_param : forall (c : circuit R P) i,
  grid_ok R P (c_ops c) -> (i < length (params R P c))%nat ->
  exists c', freeze_param R P c i = Some c' /\ params R P c' = remove_nth (params R P c) i /\
             c_radixes c' = c_radixes c /\
             get_unitary R r0 r1 radd rmul rconj P mz c' [] = get_unitary R r0 r1 radd rmul rconj P mz c [].
Proof. exact (freeze_param_spec R r0 r1 radd rmul rconj P mz). Qed.
(* ---- gradient: for ANY derivation D of the entry ring (additive, Leibniz): if parameter (x, p) occurs only in
   operation x (all other gate matrices are D-constant), the declared partial derivative of x's gate is D of its
   matrix, and every gate matrix satisfies U U^dagger = 1, then entry (x, p) of the returned gradient is D of the
   returned unitary - and the returned unitary is the ordered product, i.e. get_unitary. ---- *)
Variable D : R -> R.
Hypothesis D_add : forall a b, D (radd a b) = radd (D a) (D b).
Hypothesis D_mul : forall a b, D (rmul a b) = radd (rmul (D a) b) (rmul a (D b)).

Theorem C06_grad_product_rule : forall (c : circuit R P) (ps : list P) G gs,
  allpos (c_radixes c) ->
  Forall (wf_entry R (c_radixes c)) (col_of R P c ps) ->
  Forall (unitary_entry R r0 r1 radd rmul rconj (c_radixes c)) (col_of R P c ps) ->
  (ps = [] \/ length ps = num_params R P c) ->
  get_unitary_and_grad R r0 r1 radd rmul rconj P mz c ps = Some (G, gs) ->
  nd_eq R G (uprod R r0 radd rmul (c_radixes c) (gate_mats R P c ps) (nd_identity R r0 r1 (prodN (c_radixes c)))) /\
  length gs = glen R (col_of R P c ps) /\
  forall pre x post p d, col_of R P c ps = pre ++ x :: post -> (p < length (e_dM R x))%nat ->
    Forall (fun y => Dconst R r0 D (e_M R y)) (pre ++ post) ->
    nd_eq R (nth p (e_dM R x) d) (nd_D R D (e_M R x)) ->
    nd_eq R (nth (glen R pre + p) gs d) (nd_D R D G).
Proof. exact (grad_product_rule R r0 r1 radd rmul rsub ropp rconj Rth P mz mz_ok D D_add D_mul). Qed.
End C06.

(* ---- non-vacuity: the execution instance Z[i] satisfies the hypotheses, on a mixed-radix, permuted location ---- *)
Theorem C06_gi_ring : ring_theory gi0 gi1 gi_add gi_mul gi_sub gi_opp (@eq GI).
Proof. exact gi_ring. Qed.

Example C06_pipeline_nonvacuous :
  let radixes := [2; 3; 2] in let loc := [2%nat; 0%nat] in
  allpos radixes /\ wf_loc (length radixes) loc /\ prodN (gather loc radixes) = 4.
Proof.
  split; [repeat constructor|]. split; [|reflexivity]. split.
  - repeat constructor; simpl; intuition discriminate.
  - repeat constructor.
Qed.

(* the model computes: CNOT with control qudit 2 and target qudit 0 on radixes [2;3;2] maps |0,1,1> (3) to |1,1,1> (9) *)
Example C06_pipeline_computes :
  at_ (ub_get_unitary GI [2; 3; 2]
        (apply_right GI gi0 gi_add gi_mul gi_conj [2; 3; 2] (ub_init GI gi0 gi1 [2; 3; 2])
           (rows_nd 4 [[gi1; gi0; gi0; gi0]; [gi0; gi1; gi0; gi0]; [gi0; gi0; gi0; gi1]; [gi0; gi0; gi1; gi0]])
           [2%nat; 0%nat] false)) [9; 3] = gi1.
Proof. vm_compute. reflexivity. Qed.

(* the gradient theorem's hypotheses are satisfiable with a NON-zero derivation: dual numbers Z[e]/(e^2),
   D(a + b e) = b e, the one-qubit gate diag(1+e, 1) (unitary for the conjugation e -> -e), dU = diag(e, 0) *)
Theorem C06_du_ring : ring_theory du0 du1 du_add du_mul du_sub du_opp (@eq DU).
Proof. exact du_ring. Qed.

Example C06_grad_nonvacuous :
  (forall a b, du_D (du_add a b) = du_add (du_D a) (du_D b)) /\
  (forall a b, du_D (du_mul a b) = du_add (du_mul (du_D a) b) (du_mul a (du_D b))) /\
  let c := du_circuit in
  let col := col_of DU unit c [] in
  allpos (c_radixes c) /\
  Forall (wf_entry DU (c_radixes c)) col /\
  Forall (unitary_entry DU du0 du1 du_add du_mul du_conj (c_radixes c)) col /\
  exists x, col = [] ++ x :: [] /\ (0 < length (e_dM DU x))%nat /\
    nd_eq DU (nth 0 (e_dM DU x) du_gate) (nd_D DU du_D (e_M DU x)) /\
    at_ (nd_D DU du_D (e_M DU x)) [0; 0] <> du0 /\
    exists G gs, get_unitary_and_grad DU du0 du1 du_add du_mul du_conj unit (fun T => T) c [] = Some (G, gs).
Proof. exact (conj du_D_add (conj du_D_mul du_example)). Qed.

(* ---- restricted iteration: CircuitGridIterator (circuit/Iter.v follows iterator.py statement by statement) ----
   For ANY grid function `cell` satisfying the grid invariant (an operation sits on every qudit of its location),
   any start / end (arbitrary integer pairs, clipped by __init__), any of the three modes (whole circuit, qudit list,
   region), exclude, reverse: if the iteration finishes (Ok: no IndexError, fuel not exhausted) the sequence of
   (cycle, pointer qudit, operation) it yields is EXACTLY the operations with a grid point in the requested area
   (start <= point <= end in tuple order, requested qudit, cycle inside that qudit's interval; with exclude only those
   entirely on requested qudits / intervals), in grid order (reverse grid order with reverse), each operation once
   (a later element of the same cycle is not on a qudit of an earlier one). *)
From BQ Require Import circuit.Iter circuit.IterThm.
Open Scope Z_scope.
Theorem C06_iteration_exact_partial : forall (A : Type) (loc : A -> list Z) (cell : Z -> Z -> option (option A))
    nq nc start end_ qr ex rv out,
  grid_ok A loc cell ->
  iterate A loc cell nq nc start end_ qr ex rv = Ok out ->
  let c0 := req_cfg nq nc start end_ qr ex rv in
  Forall (fun e => in_area c0 (cyc A e) (qd A e) = true /\ cell (cyc A e) (qd A e) = Some (Some (opf A e)) /\
                   (ex = true -> inside A loc c0 (cyc A e) (opf A e) = true)) out /\
  ForallOrdPairs (fun e1 e2 => before c0 (pt A e1) (pt A e2) = true /\
                               (cyc A e1 = cyc A e2 -> memZ (qd A e2) (loc (opf A e1)) = false)) out /\
  (forall cy q op, in_area c0 cy q = true -> cell cy q = Some (Some op) ->
     (ex = true -> inside A loc c0 cy op = true) -> exists q', In (cy, q', op) out).
Proof. exact iterate_exact. Qed.

(* full statement: additionally the iteration always finishes without IndexError when the area lies on the grid.
   Termination of the model (enough fuel) is NOT proved - validated by the correspondence run only; IndexError-freedom
   is C06_iteration_no_index_error below; the statement as written is FALSE for a circuit without cycles
   (C06_iteration_empty_circuit_end_refuted). *)
Definition C06_iteration_exact_full : Prop := forall (A : Type) (loc : A -> list Z) (cell : Z -> Z -> option (option A))
    nq nc start end_ qr ex rv,
  grid_ok A loc cell -> (forall cy q, 0 <= cy < nc -> 0 <= q < nq -> cell cy q <> None) ->
  (forall q iv, lookup q (req_region nq nc qr) = Some iv -> 0 <= q < nq /\ 0 <= fst iv) -> req_region nq nc qr <> [] ->
  exists out, iterate A loc cell nq nc start end_ qr ex rv = Ok out.

(* the only possible IndexError is the access to a grid point of the requested area: if every point of the area is on the
   grid the iteration does not raise IndexError (the hypothesis is what fails in finding C06-F3) *)
Theorem C06_iteration_no_index_error : forall (A : Type) (loc : A -> list Z) (cell : Z -> Z -> option (option A))
    nq nc start end_ qr ex rv,
  (forall cy q, in_area (req_cfg nq nc start end_ qr ex rv) cy q = true -> cell cy q <> None) ->
  iterate A loc cell nq nc start end_ qr ex rv <> Err E_Index.
Proof. exact iterate_no_index_error. Qed.

(* __init__: the configuration is well formed and clipping start / end to the region does not change the area *)
Theorem C06_iteration_init : forall nq nc start end_ qr ex rv c p,
  it_init nq nc start end_ qr ex rv = Ok (c, p) ->
  cfg_wf c /\ p = first_pt c /\ c_exclude c = ex /\ c_reverse c = rv /\ c_region c = req_region nq nc qr /\
  forall cy q, in_area c cy q = in_area (mkcfg start (req_end nq nc end_) (req_region nq nc qr) ex rv 0 0 0 0) cy q.
Proof. exact it_init_wf. Qed.

(* non-vacuity: a grid satisfying the invariant on which the iteration finishes with a non-empty answer; end beyond
   the last cycle is clipped; reverse order; with exclude the straddling operations are dropped *)
Example C06_iteration_nonvacuous :
  grid_ok xop snd ex_cell /\
  iterate xop snd ex_cell 3 2 (0, 1) (Some (5, 0)) (QQudits [1; 2]) false true = Ok [(1, 1, (1, [0; 1])); (0, 1, (0, [0; 1]))] /\
  iterate xop snd ex_cell 3 2 (0, 0) None (QQudits [1; 2]) true false = Ok [].
Proof. exact (conj ex_grid_ok (conj ex_iterate ex_iterate_exclude)). Qed.

(* finding C06-F3: on a circuit without cycles an explicit end point is clipped to cycle 0 (the default region is
   (0, max(num_cycles - 1, 0))), which does not exist: IndexError instead of an empty iteration *)
Theorem C06_iteration_empty_circuit_end_refuted :
  exists nq start end_, x_iterate [] nq start (Some end_) QNone false false = Err E_Index.
Proof. exact (ex_intro _ 2 (ex_intro _ (0, 0) (ex_intro _ (0, 0) empty_circuit_end_index_error))). Qed.
