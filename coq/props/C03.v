(* C03 - compile() of a unitary, state or state system reaches its target.
   Only statements closed by `exact` (plus `vm_compute` of the verified checker on the
   generated workflow terms); proofs live in pass/SkeletonThm.v, pass/SkeletonCost.v,
   pass/SkeletonWfThm.v.  Level: partial - that the numerical optimiser FINDS a circuit
   below the threshold is not provable; everything the code decides around it is. *)
From Coq Require Import ZArith List Bool Reals Permutation.
From Coquelicot Require Import Coquelicot.
Import ListNotations.
From BQ Require Import pass.Skeleton pass.SkeletonThm pass.SkeletonCost pass.SkeletonWf pass.SkeletonWfThm.
From BQ Require Import gen.WfTarget.

(* ---- full statement (kept visible; proved only relative to the optimiser) ------------- *)
(* "compile(T) returns a circuit within the budget of T": in the model, the direct-synthesis
   workflow [SetTargetPass T; synthesis] returns, and what it returns costs < threshold. *)
Definition C03_compile_reaches_target_full : Prop :=
  forall (C T : Type) (width : T -> nat) (orcs : T -> oracles C) cfg H t c0 d0,
  exists fuel c d,
    run_seq C T [set_target_pass C T width t; synthesis_run C T (synth_of_search orcs cfg H fuel)] (c0, d0) = Some (c, d)
    /\ (o_cost C (orcs t) c < threshold cfg)%Z.

(* ---- the search skeleton, for every oracle behaviour ----------------------------------- *)
(* QSearch / LEAP (any hooks): whatever instantiate, the layer generator, the cost function,
   the heuristic and the regression do, a circuit returned through a `dist < success_threshold`
   exit has cost below the threshold. *)
Theorem C03_search_returns_success : forall C (orc : oracles C) cfg H fuel c s',
  search C orc cfg H fuel = (Success c, s') -> (o_cost C orc c < threshold cfg)%Z.
Proof. exact search_success_sound. Qed.

Theorem C03_qsearch_returns_success : forall C (orc : oracles C) cfg fuel c s',
  qsearch orc cfg fuel = (Success c, s') -> (o_cost C orc c < threshold cfg)%Z.
Proof. exact (fun C orc cfg => search_success_sound C orc cfg qsearch_hooks). Qed.

Theorem C03_leap_returns_success : forall C (orc : oracles C) cfg regress min_prefix fuel c s',
  leap orc cfg regress min_prefix fuel = (Success c, s') -> (o_cost C orc c < threshold cfg)%Z.
Proof. exact (fun C orc cfg regress mp => search_success_sound C orc cfg (leap_hooks (threshold cfg) regress mp)). Qed.

(* The other exit ("Frontier emptied"): the frontier is empty, the result is best_circ, it is the
   EARLIEST evaluated circuit of least cost among all evaluated circuits (the initial layer
   included; s_seen is latest-first and equals the circuits of the trace), and no evaluated
   circuit was below the threshold. *)
Theorem C03_search_emptied_returns_best : forall C (orc : oracles C) cfg H fuel c s',
  (forall l d bl bd, (threshold cfg <= bd)%Z -> (threshold cfg <= d)%Z -> h_newbest H l d bl bd = (d <? bd)%Z) ->
  search C orc cfg H fuel = (Emptied c, s') ->
  s_front C s' = []
  /\ c = s_bc C s'
  /\ s_seen C s' = seen_of_trace C (s_tr C s')
  /\ (exists later earlier, s_seen C s' = later ++ c :: earlier
        /\ (forall x, In x later -> (o_cost C orc c <= o_cost C orc x)%Z)
        /\ (forall x, In x earlier -> (o_cost C orc c < o_cost C orc x)%Z))
  /\ (forall x, In x (s_seen C s') -> (threshold cfg <= o_cost C orc x)%Z).
Proof. exact search_emptied_best. Qed.

Theorem C03_best_is_min : forall C (orc : oracles C) cfg H fuel c s',
  (forall l d bl bd, (threshold cfg <= bd)%Z -> (threshold cfg <= d)%Z -> h_newbest H l d bl bd = (d <? bd)%Z) ->
  search C orc cfg H fuel = (Emptied c, s') ->
  In c (s_seen C s') /\ forall x, In x (s_seen C s') -> (o_cost C orc c <= o_cost C orc x)%Z.
Proof. exact search_emptied_min. Qed.

(* the hypothesis on the "new best" test holds for both passes (LEAP's check_new_best collapses
   to `dist < best_dist` because anything below the threshold has already returned) *)
Theorem C03_newbest_qsearch : forall thr l d bl bd,
  (thr <= bd)%Z -> (thr <= d)%Z -> h_newbest qsearch_hooks l d bl bd = (d <? bd)%Z.
Proof. exact qsearch_newbest_spec. Qed.

Theorem C03_newbest_leap : forall thr regress mp l d bl bd,
  (thr <= bd)%Z -> (thr <= d)%Z -> h_newbest (leap_hooks thr regress mp) l d bl bd = (d <? bd)%Z.
Proof. exact leap_newbest_spec. Qed.

(* "Frontier emptied" is reachable only with max_layer set or an empty successor list *)
Theorem C03_search_never_empties : forall C (orc : oracles C) cfg H,
  max_layer cfg = None -> (forall i c, o_succ C orc i c <> []) ->
  forall fuel c s', search C orc cfg H fuel <> (Emptied c, s').
Proof. exact search_never_empties. Qed.

Theorem C03_default_generators_nonempty :
  (forall C E (ab : C -> E -> C) edges c, edges <> [] -> simple_successors ab edges c <> [])
  /\ (forall C G (ag : C -> G -> C) geq gates last c, gates <> [] -> single_successors ag geq true gates last c <> []).
Proof. exact (conj simple_successors_nonempty single_successors_nonempty). Qed.

(* LEAP re-rooting: when the prefix test fires for circuit c the frontier is cleared and holds
   exactly c afterwards (twice - the prefix block and the common add), last_prefix_layer is
   updated; otherwise c is appended to the frontier that was there. *)
Theorem C03_leap_reroot_keeps_prefix : forall C (orc : oracles C) cfg H layer c s s',
  eval_one C orc cfg H layer c s = inr s' ->
  let d := o_cost C orc c in
  let fire := h_newbest H (S layer) d (s_bl C s) (s_bd C s) && h_leap H (S layer) d (s_bls C s) (s_bds C s) (s_lpl C s) in
  let k0 := o_key C orc (s_ctr C s) c in
  let k1 := o_key C orc (S (s_ctr C s)) c in
  if fire then
    s_lpl C s' = S layer /\ s_bc C s' = c /\
    s_front C s' = (if max_ok cfg (S layer)
                    then [mkElem k0 (s_ctr C s) c (S layer); mkElem k1 (S (s_ctr C s)) c (S layer)] else [])
  else
    s_lpl C s' = s_lpl C s /\
    s_front C s' = s_front C s ++ (if max_ok cfg (S layer) then [mkElem k0 (s_ctr C s) c (S layer)] else []).
Proof. exact eval_one_reroot. Qed.

Theorem C03_leap_condition : forall regress mp nl bd bls bds lpl,
  check_leap_condition regress mp nl bd bls bds lpl = true <->
  regress bls bds nl bd = Some true /\ (Z.of_nat mp <= Z.of_nat nl - Z.of_nat lpl)%Z.
Proof. exact check_leap_condition_spec. Qed.

(* heappop returns the least (heuristic, insertion id) element *)
Theorem C03_frontier_pop_least : forall C (l : list (elem C)) e rest y,
  pop_min C l = Some (e, rest) -> In y l -> elem_ltb C y e = false.
Proof. exact pop_min_least. Qed.

(* ---- SetTargetPass / SynthesisPass.run ------------------------------------------------- *)
Theorem C03_set_then_synth : forall C T width (synth : T -> passdata T -> option C) t c0 d0 c d,
  run_seq C T [set_target_pass C T width t; synthesis_run C T synth] (c0, d0) = Some (c, d) ->
  synth t (set_target T width t d0) = Some c /\ d_target d = t /\ d_error d = d_error d0.
Proof. exact set_then_synth. Qed.

(* partial form of C03_compile_reaches_target_full: IF the workflow returns through a success exit *)
Theorem C03_compile_reaches_target_partial : forall C T width (orcs : T -> oracles C) cfg H fuel t c0 d0 c d,
  run_seq C T [set_target_pass C T width t; synthesis_run C T (synth_of_search orcs cfg H fuel)] (c0, d0) = Some (c, d) ->
  (forall b, fst (search C (orcs t) cfg H fuel) <> Emptied b) ->
  (o_cost C (orcs t) c < threshold cfg)%Z /\ d_target d = t.
Proof. exact workflow_success_reaches_target. Qed.

(* ---- PermutationAwareSynthesisPass (optimization level 4) -------------------------------- *)
(* For every inner synthesis, scoring function and permutation algebra with Po.T/Pi of the identity
   tuple acting trivially: the circuit PAS returns implements PF^T . U . PI for exactly the
   (initial_mapping, final_mapping) = (PI, PF) it writes into the PassData. *)
Theorem C03_pas_reported_mapping : forall (T C P : Type) (perms : list P) (idp : P)
    (lmulT : P -> T -> T) (rmul : T -> P -> T) (synth : nat -> T -> C) (score : C -> Z) (impl : C -> T -> Prop),
  (forall i t, impl (synth i t) t) -> (forall t, lmulT idp t = t) -> (forall t, rmul t idp = t) ->
  forall ip op utry c pi pf,
  pas T C P perms idp lmulT rmul synth score ip op utry = Some (c, pi, pf) ->
  impl c (lmulT pf (rmul utry pi)).
Proof. exact pas_reported_mapping. Qed.

(* ---- what the threshold means ------------------------------------------------------------ *)
(* unitary: entries u of the circuit unitary, t of the target (N x N, squared Frobenius norm N):
   cost = 1 - |tr(T^dagger U)|/N < eps gives a global phase p with |U - pT|_F^2 = 2 N cost < 2 N eps *)
Theorem C03_threshold_meaning_unitary : forall N u t eps,
  (0 < N)%R -> length u = length t -> nrm2 u = N -> nrm2 t = N ->
  (hs_cost N u t < eps)%R ->
  exists p : C, (fst p * fst p + snd p * snd p = 1)%R
    /\ nrm2 (vsub u p t) = (2 * N * hs_cost N u t)%R
    /\ (nrm2 (vsub u p t) < 2 * N * eps)%R
    /\ (0 <= hs_cost N u t)%R.
Proof. exact hs_cost_unitary_meaning. Qed.

(* ... and UnitaryMatrix.get_distance_from = sqrt(1 - x^2), x = |tr|/N, is below sqrt(2 eps) *)
Theorem C03_threshold_meaning_distance : forall x eps, (0 <= x <= 1)%R -> (1 - x < eps)%R ->
  (sqrt (1 - x * x) < sqrt (2 * eps))%R /\ (1 - x * x < 2 * eps)%R.
Proof. exact hs_cost_distance_bound. Qed.

(* state: psi = U|0..0>, cost = 1 - |<s|psi>|^2: fidelity above 1 - eps, and psi is within
   sqrt(2 eps) of the target up to a global phase *)
Theorem C03_threshold_meaning_state : forall psi s eps,
  length psi = length s -> nrm2 psi = 1%R -> nrm2 s = 1%R ->
  (state_cost psi s < eps)%R ->
  (1 - eps < Cmod (cdot s psi) * Cmod (cdot s psi))%R
  /\ exists p : C, (fst p * fst p + snd p * snd p = 1)%R /\ (nrm2 (vsub psi p s) < 2 * eps)%R.
Proof. exact state_cost_meaning. Qed.

(* state system of k pairs, z_i = <w_i|U|v_i>: every listed pair has overlap above 1 - k eps *)
Theorem C03_threshold_meaning_system : forall zs eps,
  zs <> [] -> (forall z, In z zs -> (Cmod z <= 1)%R) ->
  (system_cost zs < eps)%R ->
  forall z, In z zs -> (1 - INR (length zs) * eps < Cmod z)%R.
Proof. exact system_cost_meaning. Qed.

(* ---- list inputs ---------------------------------------------------------------------------- *)
(* one result per input, in submission order, for any job numbering without repeats and any
   completion order *)
Theorem C03_list_order : forall (I R : Type) (fresh : nat -> nat) (run1 : I -> R) finish_order inputs,
  (forall a b, fresh a = fresh b -> a = b) ->
  (forall jobs, Permutation (finish_order jobs) jobs) ->
  compile_list I R fresh run1 finish_order inputs = Some (map run1 inputs).
Proof. exact compile_list_order. Qed.

(* ---- the workflows compile() actually builds (regenerated from /repo on every run) ---------- *)
Theorem C03_workflow_target_checked : forallb check all_workflows = true.
Proof. vm_compute. reflexivity. Qed.

(* in every unitary / state / state-system workflow, on every branch: SetTargetPass(user input)
   runs before the synthesis leaf that produces the final circuit, nothing afterwards overwrites
   data.target, every block-level sub-workflow keeps its own target *)
Theorem C03_workflow_target : forall w, In w all_workflows -> target_preserved w.
Proof. exact (check_all_sound all_workflows C03_workflow_target_checked). Qed.

(* ---- non-vacuity ------------------------------------------------------------------------------ *)
Open Scope Z_scope.
(* circuits are numbers; node n has successors 2n+1, 2n+2; cost 10 - n (so node 8 succeeds at threshold 3) *)
Definition ex_orc : oracles nat :=
  mkOracles nat 0%nat (fun _ c => [2 * c + 1; 2 * c + 2]%nat) (fun _ _ c => c) (fun c => 10 - Z.of_nat c) (fun _ c => Z.of_nat c).

Example C03_ex_success_exit :
  fst (qsearch ex_orc (mkConfig 3 None) 20) = Success 8%nat
  /\ fst (leap ex_orc (mkConfig 3 None) linreg_delta_neg 1 20) = Success 8%nat.
Proof. split; vm_compute; reflexivity. Qed.

(* with max_layer = 2 the frontier empties and the best seen (node 6, cost 4) is returned;
   with an empty layer generator the initial layer is returned *)
Example C03_ex_emptied_exit :
  fst (qsearch ex_orc (mkConfig 3 (Some 2%nat)) 20) = Emptied 6%nat
  /\ fst (qsearch (mkOracles nat 0%nat (fun _ _ => []) (fun _ _ c => c) (fun _ => 5) (fun _ _ => 0)) (mkConfig 3 None) 20) = Emptied 0%nat.
Proof. split; vm_compute; reflexivity. Qed.

(* LEAP forms a prefix (costs 100, 90, 50, 40: the last best lies above the line fitted through the
   earlier ones, i.e. progress is slower than predicted) and re-roots there *)
Definition ex_leap_orc : oracles nat :=
  mkOracles nat 0%nat (fun _ c => [S c]) (fun _ _ c => c)
            (fun c => match c with 0%nat => 100 | 1%nat => 90 | 2%nat => 50 | _ => 40 end) (fun _ _ => 0).
Example C03_ex_leap_prefix :
  exists c l, In (EPrefix nat c l) (s_tr nat (snd (leap ex_leap_orc (mkConfig 3 None) linreg_delta_neg 1 3))).
Proof. exists 3%nat, 3%nat. vm_compute. tauto. Qed.

(* PAS over the additive group Z/3 as "permutations" acting on numbers: targets u - po + pi;
   the candidate with the least score (here: the target value itself) wins and its mapping is reported *)
Example C03_ex_pas :
  pas Z Z Z [0; 1; 2] 0 (fun po t => t - po) (fun t pi => t + pi) (fun _ t => t) (fun c => c) false true 10 = Some (8, 0, 2)
  /\ pas Z Z Z [0; 1; 2] 0 (fun po t => t - po) (fun t pi => t + pi) (fun _ t => t) (fun c => Z.abs (c - 11)) true true 10 = Some (11, 1, 0).
Proof. split; vm_compute; reflexivity. Qed.

Example C03_ex_list_order :
  compile_list nat nat (fun k => 100 + k)%nat (fun x => x * x)%nat (@rev _) [3; 1; 2]%nat = Some [9; 1; 4]%nat.
Proof. vm_compute. reflexivity. Qed.

Example C03_ex_workflows_nonempty : (100 <=? length all_workflows)%nat = true /\
  check (Seq [Leaf KSynth; Leaf (KSetTarget true)]) = false.
Proof. split; vm_compute; reflexivity. Qed.

(* the cost hypotheses are satisfiable: U = T = (1), cost 0 *)
Example C03_ex_threshold_meaning : hs_cost 1 [RtoC 1] [RtoC 1] = 0%R /\ nrm2 [RtoC 1] = 1%R.
Proof.
  unfold hs_cost, nrm2. simpl.
  replace (Cplus (Cmult (Cconj (RtoC 1)) (RtoC 1)) (RtoC 0)) with (RtoC 1)
    by (apply injective_projections; simpl; ring).
  rewrite Cmod_1. split; [field | simpl; ring].
Qed.
