(* C15 - scheduler bookkeeping stays in bounds and assigns every task exactly once.
   Statements only; proofs live in rt/SchedArithThm.v (over the GENERATED arithmetic of
   gen/SchedArith.v), rt/Routing.v and rt/SchedThm.v (transition system of rt/Sched.v). *)
From Coq Require Import ZArith List Bool Lia.
Import ListNotations.
From Coq Require Import Permutation.
From BQ Require Import rt.SchedPre gen.SchedArith rt.SchedArithThm rt.Routing rt.Sched rt.SchedAssign rt.SchedLocal rt.SchedThm rt.SchedNode rt.SchedTree rt.SchedTreeThm.
Open Scope Z_scope.

(* ---- generated arithmetic ---- *)

(* get_num_of_tasks_sent_since(Some r): cuts the cache AT the first entry for r (the entry stays),
   answers the number of tasks in the entries after it; raises exactly when r is absent *)
Theorem C15_sent_since_spec : forall c rr,
  match get_num_of_tasks_sent_since c (Some rr) with
  | Ok (c', n) => exists a cnt b, c = a ++ (rr, cnt) :: b /\ ~ In rr (map fst a)
                                  /\ c' = (rr, cnt) :: b /\ n = counts b
  | Raise e => e = RuntimeError /\ ~ In rr (map fst c)
  end.
Proof. exact gnts_some_spec. Qed.

Theorem C15_sent_since_none : forall c, get_num_of_tasks_sent_since c None = Ok (c, counts c).
Proof. exact gnts_none. Qed.

(* handle_waiting: adjusted = max(new_idle - unaccounted, 0), node count moves by the difference,
   the only exceptions are "receipt not found" and the bounds assertion *)
Theorem C15_handle_waiting_spec : forall c ei si tot n r,
  match handle_waiting c ei si tot n r with
  | Ok (c', ei', si') =>
      exists u, get_num_of_tasks_sent_since c r = Ok (c', u)
                /\ ei' = Z.max (n - u) 0 /\ si' = si + (ei' - ei) /\ 0 <= si' <= tot
  | Raise RuntimeError => get_num_of_tasks_sent_since c r = Raise RuntimeError
  | Raise AssertionError =>
      exists c' u, get_num_of_tasks_sent_since c r = Ok (c', u)
                   /\ ~ (0 <= si + (Z.max (n - u) 0 - ei) <= tot)
  | Raise IndexError => False
  end.
Proof. exact handle_waiting_spec. Qed.

(* assign_tasks: the slice tasks[-k:] is the complement of what the idle-first zip consumed *)
Theorem C15_assign_split : forall (T : Type) (tasks : list T) (idle : list Z),
  assign_no_remaining (assign_num_remaining tasks idle) = false ->
  firstn (length idle) tasks ++ assign_remaining_tasks tasks (assign_num_remaining tasks idle) = tasks
  /\ (length idle < length tasks)%nat.
Proof. exact @assign_split. Qed.

(* Manager.send_up_or_schedule_tasks: tasks[:idle] scheduled locally, tasks[idle:] sent up, nothing lost,
   no empty batch sent *)
Theorem C15_send_up_or_schedule_split : forall (T : Type) ni up (tasks : list T) out, 0 <= ni ->
  exists acts, send_up_or_schedule_tasks ni up tasks out = Ok (out ++ acts) /\
    let local := concat (map (fun a => match a with ASchedule l => l | _ => [] end) acts) in
    let sent := concat (map (fun a => match a with APut _ M_SUBMIT_BATCH (PTasks l) => l | _ => [] end) acts) in
    local ++ sent = tasks
    /\ zlen local = Z.min ni (zlen tasks)
    /\ ~ In (APut up M_SUBMIT_BATCH (PTasks [])) acts
    /\ (ni = 0 -> local = [] /\ forall a, In a acts -> exists l, a = APut up M_SUBMIT_BATCH (PTasks l)).
Proof. exact @send_up_or_schedule_spec. Qed.

Example C15_arith_nonvacuous :
  get_num_of_tasks_sent_since [(1, 2); (3, 4); (5, 6)] (Some 3) = Ok ([(3, 4); (5, 6)], 6)
  /\ get_num_of_tasks_sent_since [(1, 2)] (Some 9) = Raise RuntimeError
  /\ handle_waiting [(1, 2); (3, 1)] 0 0 2 1 (Some 1) = Ok ([(1, 2); (3, 1)], 0, 0)
  /\ handle_waiting [(1, 2)] 0 0 2 1 (Some 1) = Ok ([(1, 2)], 1, 1)
  /\ send_up_or_schedule_tasks 2 7 [10; 11; 12] [] =
       Ok [APut 7 M_UPDATE (PInt 2); ASchedule [10; 11]; AUpdateUpstream; APut 7 M_SUBMIT_BATCH (PTasks [12])].
Proof. repeat split; reflexivity. Qed.

(* ---- C15_assign_partition: assign_tasks / schedule_tasks (model rt/Sched.v over the generated arithmetic) ---- *)

(* for every shuffle of the idle list and every tie-break values: one assignment list per employee,
   together a permutation of the tasks (nothing lost, nothing duplicated); never IndexError on a node
   that has employees *)
Theorem C15_assign_partition : forall (A : Type) es (ts : list A) sh rs,
  es <> [] -> Permutation sh (idle_ids es) -> length rs = length es ->
  exists a, assign_tasks es ts sh rs = Some a /\ length a = length es /\ Permutation (concat a) ts.
Proof. exact @assign_tasks_partition. Qed.

(* schedule_tasks sends one SUBMIT_BATCH per employee with a non-empty assignment and nothing for an
   empty one; the batches carry every task exactly once; the call never raises *)
Theorem C15_schedule_sends : forall s ts sh rs s' sends, s_emps s <> [] ->
  schedule_tasks s ts sh rs = Done (s', sends) ->
  Permutation (concat (map snd sends)) ts /\ NoDup (map fst sends)
  /\ forall i b, In (i, b) sends -> b <> [] /\ (i < length (s_emps s))%nat.
Proof. exact schedule_sends_spec. Qed.

Theorem C15_schedule_never_raises : forall s ts sh rs ex, s_emps s <> [] -> schedule_tasks s ts sh rs <> Fault ex.
Proof.
  intros s ts sh rs ex Hne E. pose proof (schedule_tasks_spec s ts sh rs Hne) as S. rewrite E in S. exact S.
Qed.

Example C15_assign_nonvacuous :
  assign_tasks [mkEmp 1 0 1 []; mkEmp 1 2 0 []] [1; 2; 3; 4] [0%nat] [3; 1] = Some [[1; 4; 2]; [3]]
  /\ idle_ids [mkEmp 1 0 1 []; mkEmp 1 2 0 []] = [0%nat].
Proof. split; reflexivity. Qed.

(* ---- the flat system: server <-> n workers, all interleavings (induction over event lists) ---- *)

(* C15_receipt_found + assertion of handle_waiting + routing of results: no event list makes a
   server handler raise (Fault = exception escaping a handler; Disabled = event not possible) *)
Theorem C15_no_handler_raises : forall lb n evs ex, (0 < n)%nat -> run (init lb n) evs <> Fault ex.
Proof. intros lb n evs ex Hn. exact (no_fault lb n evs ex Hn). Qed.

(* the receipt carried by any WAITING in flight, and the worker's current receipt, is None or still in
   the boss's submit_cache - in particular when the WAITING crossed a SUBMIT_BATCH *)
Theorem C15_receipt_found : forall lb n evs st, (0 < n)%nat -> run (init lb n) evs = Done st ->
  forall w e u k, nth_error (s_emps (srv st)) w = Some e -> nth_error (ups st) w = Some u -> nth_error (wks st) w = Some k ->
  forall r, In r (w_mrrs k :: receipts u) -> r = None \/ exists x, r = Some x /\ In x (map fst (e_cache e)).
Proof. intros lb n evs st Hn E. exact (inv_receipt_found lb n false st (reachable_inv lb n evs st Hn E)). Qed.

(* num_idle_workers = sum over employees, 0 <= it <= total_workers, per employee 0 <= idle <= total and
   num_tasks >= 0 - on every schedule, cancellations included *)
Theorem C15_idle_in_bounds : forall lb n evs st, (0 < n)%nat -> run (init lb n) evs = Done st ->
  s_num_idle (srv st) = sumZ (map e_num_idle (s_emps (srv st)))
  /\ 0 <= s_num_idle (srv st) <= s_total (srv st)
  /\ forall e, In e (s_emps (srv st)) -> 0 <= e_num_idle e <= e_total e /\ 0 <= e_num_tasks e.
Proof. intros lb n evs st Hn E. exact (inv_bounds lb n false st (reachable_inv lb n evs st Hn E)). Qed.

(* every task id handed to the system has been forwarded in exactly one SUBMIT_BATCH or is still waiting
   in a channel to the server; no empty batch was ever sent *)
Theorem C15_forward_once : forall lb n evs st, (0 < n)%nat -> run (init lb n) evs = Done st ->
  NoDup (log_ids st)
  /\ (forall x, In x (seen st) <-> In x (log_ids st) \/ In x (pending_ids st))
  /\ (forall i b, In (i, b) (sent_log st) -> b <> [] /\ (i < n)%nat).
Proof. intros lb n evs st Hn E. exact (inv_forward_once lb n false st (reachable_inv lb n evs st Hn E)). Qed.

(* C15_quiescent_exact: cancel-free schedule, nothing in flight, every worker blocked with no task:
   the server believes every worker idle and every task count is zero *)
Theorem C15_quiescent_exact : forall lb n evs st, (0 < n)%nat -> cancel_free evs = true ->
  run (init lb n) evs = Done st -> quiescent st = true ->
  s_num_idle (srv st) = s_total (srv st)
  /\ forall e, In e (s_emps (srv st)) -> e_num_idle e = 1 /\ e_num_tasks e = 0.
Proof.
  intros lb n evs st Hn Hc E Hq.
  destruct (inv_quiescent lb n true st (reachable_inv_cf lb n evs st Hn Hc E) Hq) as [H1 H2].
  split; [exact H1|]. intros e He. destruct (H2 e He) as [A B]. auto.
Qed.

(* the idle half holds on every schedule, cancellations included *)
Theorem C15_quiescent_idle_exact : forall lb n evs st, (0 < n)%nat ->
  run (init lb n) evs = Done st -> quiescent st = true ->
  s_num_idle (srv st) = s_total (srv st) /\ forall e, In e (s_emps (srv st)) -> e_num_idle e = 1.
Proof.
  intros lb n evs st Hn E Hq.
  destruct (inv_quiescent lb n false st (reachable_inv lb n evs st Hn E) Hq) as [H1 H2].
  split; [exact H1|]. intros e He. exact (proj1 (H2 e He)).
Qed.

(* the full statement (no cancel-free hypothesis) is FALSE for the code as it is: D9 *)
Definition C15_quiescent_exact_full : Prop := forall lb n evs st, (0 < n)%nat ->
  run (init lb n) evs = Done st -> quiescent st = true ->
  forall e, In e (s_emps (srv st)) -> e_num_idle e = 1 /\ e_num_tasks e = 0.

Theorem C15_quiescent_refuted : ~ C15_quiescent_exact_full.
Proof.
  intros H. destruct quiescent_refuted as (st & E & Hq & e & He & _ & Ht).
  destruct (H 0 1%nat d9_witness st ltac:(auto) E Hq e He) as [_ H0]. rewrite Ht in H0. discriminate.
Qed.

Theorem C15_quiescent_refuted_witness : exists st, run (init 0 1) d9_witness = Done st /\ quiescent st = true
  /\ exists e, In e (s_emps (srv st)) /\ e_num_idle e = 1 /\ e_num_tasks e = 1.
Proof. exact quiescent_refuted. Qed.

(* non-vacuity: a cancel-free run of two workers in which the first WAITING of worker 1 crosses the
   SUBMIT_BATCH sent to it, ending quiescent *)
Definition ex_run : list event :=
  [EWorkerIdle 0; EWorkerIdle 1; EClientSubmit [mkTask 0 (-1) []] [1%nat; 0%nat] [0; 0];
   EServerRecv 0 [] [0; 0]; EServerRecv 1 [] [0; 0]; EWorkerRecv 1 false; EWorkerFinish 1 0; EWorkerIdle 1;
   EServerRecv 1 [] [0; 0]; EServerRecv 1 [] [0; 0]].

Example C15_system_nonvacuous : exists st, run (init 0 2) ex_run = Done st /\ quiescent st = true
  /\ cancel_free ex_run = true /\ sent_log st = [(1%nat, [mkTask 0 (-1) []])]
  /\ cancel_free d9_witness = false.
Proof.
  eexists. split; [vm_compute; reflexivity|]. split; [vm_compute; reflexivity|]. split; [reflexivity|]. split; reflexivity.
Qed.

(* ---- manager topology (partial): bounds at ANY node, assume/guarantee over the tree ---- *)

(* the statement targeted for the whole tree; proved per node below, under the assumption that the
   read receipt is found (proved only for the flat system, C15_receipt_found) *)
Definition C15_idle_in_bounds_tree_full : Prop :=
  forall (s : server) w e n r, node_ok s -> nth_error (s_emps s) w = Some e -> 0 <= n <= e_total e ->
  match srv_waiting s w n r with Done s' => node_ok s' | _ => False end.

(* a node whose employees may be managers (total_workers arbitrary): a WAITING (n, r) with
   0 <= n <= e.total_workers either is answered with all counters in bounds (the assertion cannot fire) or
   the only possible exception is "read receipt not found" *)
Theorem C15_idle_in_bounds_node_partial : forall s w e n r,
  node_ok s -> nth_error (s_emps s) w = Some e -> 0 <= n <= e_total e ->
  match srv_waiting s w n r with
  | Done s' => node_ok s'
  | Disabled => False
  | Fault ex => ex = RuntimeError /\ get_num_of_tasks_sent_since (e_cache e) r = Raise RuntimeError
  end.
Proof. exact node_waiting. Qed.

Theorem C15_schedule_in_bounds_node : forall s ts sh rs, node_ok s -> s_emps s <> [] ->
  match schedule_tasks s ts sh rs with Done (s', _) => node_ok s' | Disabled => True | Fault _ => False end.
Proof. exact node_schedule. Qed.

(* guarantee towards the boss: the WAITING a manager sends up carries its own (in-bounds) idle count *)
Theorem C15_manager_waiting_in_bounds : forall (T : Type) s last mrrs up (out : list (action T)), node_ok s ->
  exists last' acts, update_upstream_idle_workers (s_num_idle s) last mrrs up out = Ok (last', out ++ acts)
    /\ forall d m p, In (APut d m p) acts -> d = up /\ m = M_WAITING /\ p = PWait (s_num_idle s) mrrs /\ 0 <= s_num_idle s <= s_total s.
Proof. exact manager_waiting_in_bounds. Qed.

Example C15_node_nonvacuous :
  node_ok (mkSrv 0 5 [mkEmp 3 2 1 [(7, 2)]; mkEmp 2 0 2 []] 3 5)
  /\ srv_waiting (mkSrv 0 5 [mkEmp 3 2 1 [(7, 2)]; mkEmp 2 0 2 []] 3 5) 0 3 (Some 7)
     = Done (mkSrv 0 5 [mkEmp 3 2 3 [(7, 2)]; mkEmp 2 0 2 []] 5 5).
Proof.
  split; [|reflexivity]. split; [|split; reflexivity].
  intros e [<-|[<-|[]]]; split; simpl; try lia; intros a c H; try contradiction.
  destruct H as [H|[]]. inversion H. lia.
Qed.

(* ---- manager topology: read receipts ACROSS LEVELS (rt/SchedTree.v, rt/SchedTreeThm.v) ----
   A link = (boss's employee record, channel down, channel up, the employee's most_recent_read_submit).
   LinkR needs neither unique ids nor total_workers = 1: it holds for a link to a worker and to a manager. *)

(* receipt found: every receipt in flight on a link, and the employee's current one, is None or in the cache *)
Theorem C15_link_receipt_found : forall e d u m r, LinkR e d u m -> In r (m :: receipts u) ->
  r = None \/ exists x, r = Some x /\ In x (map fst (e_cache e)).
Proof. exact link_found. Qed.

(* every protocol step on a link keeps LinkR: boss records + sends a batch; employee reads a batch (receipt :=
   first task); employee sends WAITING with its current receipt; boss handles WAITING (receipt found, cache
   trimmed AT the first match); messages without receipt / cache entry come and go *)
Theorem C15_link_preserved : forall e d u m,
  (forall a, LinkR e d u m -> LinkR (upd_emp e a) (d ++ bmsgs a) u m)
  /\ (forall t0 ts, LinkR e (DBatch (t0 :: ts) :: d) u m -> LinkR e d u (Some (tid t0)))
  /\ (forall n, LinkR e d u m -> LinkR e d (u ++ [UWaiting n m]) m)
  /\ (forall n r, LinkR e d (UWaiting n r :: u) m ->
        exists c' cnt, get_num_of_tasks_sent_since (e_cache e) r = Ok (c', cnt) /\ forall e', e_cache e' = c' -> LinkR e' d u m)
  /\ (forall x, entry_of x = [] -> (LinkR e (x :: d) u m -> LinkR e d u m) /\ (LinkR e d u m -> LinkR e (d ++ [x]) u m))
  /\ (forall x, receipt_of x = [] -> (LinkR e d (x :: u) m -> LinkR e d u m) /\ (LinkR e d u m -> LinkR e d (u ++ [x]) m)).
Proof.
  intros e d u m. split; [intros a; exact (link_send e d u m a)|]. split; [intros t0 ts; exact (link_recv_batch e t0 ts d u m)|].
  split; [intros n H; exact (link_up_waiting e d u m n H)|]. split; [intros n r; exact (link_waiting e d n r u m)|].
  split; intros x E; split; [exact (link_down_pop e x d u m E)|exact (link_down_push e x d u m E)
                            |exact (link_up_pop e x d u m E)|exact (link_up_push e x d u m E)].
Qed.

(* handle_waiting at ANY node of ANY tree (the sender may be a manager): under LinkR and the sender's guarantee
   0 <= n <= total_workers the handler returns normally - receipt found, assertion holds -, the node stays in
   bounds, the link invariant is kept, no other employee changes.  (Discharges the hypothesis left open in
   C15_idle_in_bounds_node_partial.) *)
Theorem C15_waiting_never_raises_node : forall s w e d n r u m,
  node_ok s -> nth_error (s_emps s) w = Some e -> 0 <= n <= e_total e -> LinkR e d (UWaiting n r :: u) m ->
  exists s' e', srv_waiting s w n r = Done s' /\ node_ok s'
    /\ nth_error (s_emps s') w = Some e' /\ LinkR e' d u m /\ e_total e' = e_total e
    /\ length (s_emps s') = length (s_emps s)
    /\ (forall j, j <> w -> nth_error (s_emps s') j = nth_error (s_emps s) j)
    /\ s_lb s' = s_lb s /\ s_step s' = s_step s /\ s_total s' = s_total s.
Proof. exact waiting_link. Qed.

(* schedule_tasks at any node keeps LinkR on every link (cache entry appended iff a batch goes on that channel) *)
Theorem C15_schedule_keeps_links : forall s ts sh rs ds s' sends j e d u m,
  node_ok s -> s_emps s <> [] -> length ds = length (s_emps s) ->
  schedule_tasks s ts sh rs = Done (s', sends) -> nth_error (s_emps s) j = Some e -> nth_error ds j = Some d ->
  LinkR e d u m ->
  exists e' d', nth_error (s_emps s') j = Some e' /\ nth_error (push_batches sends ds) j = Some d'
                /\ LinkR e' d' u m /\ e_total e' = e_total e.
Proof. exact schedule_link_inv. Qed.

(* Manager.handle_message(WAITING from employee j) end to end, one level of the tree: under the invariants of
   the link below and of the link to the boss it does not raise, the manager stays in bounds, both links keep
   LinkR, and the WAITING it sends up carries its current receipt and 0 <= n <= total_workers - exactly the
   assumption its own boss needs *)
Theorem C15_manager_waiting_handler : forall m j n r q sh rs e d mk eb db ub,
  node_ok (m_node m) -> nth_error (m_ups m) j = Some (UWaiting n r :: q) ->
  nth_error (s_emps (m_node m)) j = Some e -> 0 <= n <= e_total e ->
  LinkR e d (UWaiting n r :: q) mk -> LinkR eb db ub (m_mrrs m) ->
  exists m' upq e', mgr_below m j sh rs = Done (m', upq, [])
    /\ node_ok (m_node m') /\ s_total (m_node m') = s_total (m_node m)
    /\ nth_error (s_emps (m_node m')) j = Some e' /\ LinkR e' d q mk
    /\ nth_error (m_ups m') j = Some q
    /\ LinkR eb db (ub ++ upq) (m_mrrs m')
    /\ forall n' r', In (UWaiting n' r') upq -> 0 <= n' <= s_total (m_node m).
Proof. exact mgr_below_waiting_link. Qed.

(* the manager reads a batch from its boss: most_recent_read_submit := first task, link invariant kept *)
Theorem C15_manager_reads_batch : forall m t0 ts sh rs m' sends e q u,
  mgr_above m (DBatch (t0 :: ts)) sh rs = Done (m', sends) ->
  LinkR e (DBatch (t0 :: ts) :: q) u (m_mrrs m) -> LinkR e q u (m_mrrs m') /\ m_last m' = m_last m.
Proof. exact mgr_above_link. Qed.

(* system level (server, managers, workers as a transition system): the induction composing the link / node
   theorems above over all event lists is NOT proved; the statement is kept here and is checked on every
   event of the co-simulation by the oracle (tree_read_receipt, tree_idle_bounds, tree_handler) *)
Definition C15_tree_receipt_found_full : Prop := forall nws evs st i e u m r,
  nws <> [] -> Forall (fun n => (0 < n)%nat) nws -> trun (tinit nws) evs = Done st ->
  nth_error (s_emps (t_srv st)) i = Some e -> nth_error (t_ms st) i = Some u -> nth_error (t_mgrs st) i = Some m ->
  In r (m_mrrs m :: receipts u) -> r = None \/ exists x, r = Some x /\ In x (map fst (e_cache e)).

(* exactness across levels (the boss's belief about a manager equals ground truth at quiescence, cancel-free)
   is FALSE for the code as it is *)
Definition C15_tree_quiescent_exact_full : Prop := forall nws evs st,
  nws <> [] -> Forall (fun n => (0 < n)%nat) nws -> forallb (fun ev => negb (is_cancel_tevent ev)) evs = true ->
  trun (tinit nws) evs = Done st -> tquiescent st = true ->
  s_num_idle (t_srv st) = s_total (t_srv st)
  /\ forall e, In e (s_emps (t_srv st)) -> e_num_idle e = e_total e /\ e_num_tasks e = 0.

(* D15: the idle half fails (8 events, one manager with one worker: server believes 0 of 1 idle for ever) *)
Theorem C15_tree_idle_refuted_witness : exists st, trun (tinit [1%nat]) d15_witness = Done st /\ tquiescent st = true
  /\ forallb (fun ev => negb (is_cancel_tevent ev)) d15_witness = true
  /\ s_num_idle (t_srv st) = 0 /\ s_total (t_srv st) = 1
  /\ exists m, t_mgrs st = [m] /\ s_num_idle (m_node m) = 1.
Proof. exact tree_idle_refuted. Qed.

(* D14: the num_tasks half fails independently (idle counts exact, every manager exact about its workers,
   server's num_tasks for the manager = 1 for ever) *)
Theorem C15_tree_num_tasks_refuted_witness : exists st, trun (tinit [3%nat]) d14_witness = Done st /\ tquiescent st = true
  /\ forallb (fun ev => negb (is_cancel_tevent ev)) d14_witness = true
  /\ s_num_idle (t_srv st) = 3
  /\ map e_num_tasks (s_emps (t_srv st)) = [1]
  /\ forall m, In m (t_mgrs st) -> forall e, In e (s_emps (m_node m)) -> e_num_tasks e = 0 /\ e_num_idle e = 1.
Proof. exact tree_num_tasks_refuted. Qed.

Theorem C15_tree_quiescent_refuted : ~ C15_tree_quiescent_exact_full.
Proof.
  intros H. destruct tree_idle_refuted as (st & E & Hq & Hc & Hi & Ht & _).
  destruct (H [1%nat] d15_witness st ltac:(discriminate) ltac:(repeat constructor) Hc E Hq) as [H0 _]. rewrite Hi, Ht in H0. discriminate.
Qed.

(* non-vacuity: a link on which a WAITING (receipt 7) crosses the batch starting with task 9; and a cancel-free
   run of the tree [2; 1] (two tasks to manager 0, whose WAITINGs reach the server) ending quiescent AND exact *)
Definition ex_tree_run : list tevent :=
  [TTop (EClientSubmit [mkTask 0 (-1) []; mkTask 10 (-1) []] [0%nat; 0%nat; 1%nat] [1; 0]);
   TMgrAbove 0 [0%nat; 1%nat] [0; 1];
   TWorker 0 (EWorkerRecv 0 false);
   TWorker 0 (EWorkerRecv 1 false);
   TWorker 0 (EWorkerFinish 1 10);
   TWorker 0 (EWorkerIdle 1);
   TMgrBelow 0 1 [] [0; 3];
   TWorker 1 (EWorkerIdle 0);
   TWorker 0 (EWorkerFinish 0 0);
   TWorker 0 (EWorkerIdle 0);
   TTop (EServerRecv 0 [1%nat] [3; 0]);
   TMgrBelow 0 1 [] [2; 1];
   TTop (EServerRecv 0 [1%nat] [0; 3]);
   TMgrBelow 1 0 [0%nat] [1];
   TMgrBelow 0 0 [1%nat] [0; 3];
   TMgrBelow 0 0 [1%nat] [3; 3];
   TTop (EServerRecv 0 [0%nat; 1%nat] [0; 2]);
   TTop (EServerRecv 0 [1%nat; 0%nat] [0; 1])].

Example C15_tree_nonvacuous :
  LinkR (mkEmp 2 3 0 [(7, 2); (9, 1)]) [DBatch [mkTask 9 (-1) []]] [UWaiting 1 (Some 7)] (Some 7)
  /\ (exists st, trun (tinit [2%nat; 1%nat]) ex_tree_run = Done st /\ tquiescent st = true
        /\ s_num_idle (t_srv st) = 3 /\ map e_num_tasks (s_emps (t_srv st)) = [0; 0]
        /\ map e_num_idle (s_emps (t_srv st)) = [2; 1]
        /\ map fst (t_wlog st) = [0%nat; 0%nat])
  /\ node_ok (mkSrv 0 1 [mkEmp 1 1 0 [(7, 1)]; mkEmp 1 0 1 []] 1 2)
  /\ srv_waiting (mkSrv 0 1 [mkEmp 1 1 0 [(7, 1)]; mkEmp 1 0 1 []] 1 2) 0 1 (Some 7)
     = Done (mkSrv 0 1 [mkEmp 1 1 1 [(7, 1)]; mkEmp 1 0 1 []] 2 2).
Proof.
  split; [exists [7]; split; [reflexivity|]; simpl; exists [], []; split; [reflexivity|]; exists [], []; auto|].
  split; [eexists; split; [vm_compute; reflexivity|]; repeat split|].
  split; [|reflexivity]. split; [|split; reflexivity].
  intros e [<-|[<-|[]]]; split; simpl; try lia; intros a c H; try contradiction.
  destruct H as [H|[]]. inversion H. lia.
Qed.

(* ---- C07_routing (cited by C07) ---- *)

Theorem C07_routing_mine_iff : forall lb ub t lb' ub' t' w,
  wf lb ub t -> subnode lb ub t lb' ub' t' -> worker_of lb ub t w ->
  (node_is_my_worker lb' ub' t' w = true <-> worker_of lb' ub' t' w).
Proof. exact routing_mine_iff. Qed.

Theorem C07_routing_child : forall (E : Type) lb ub t lb' ub' cs w (es : list E),
  wf lb ub t -> subnode lb ub t lb' ub' (Node cs) -> worker_of lb' ub' (Node cs) w -> length es = length cs ->
  exists i c e, nth_error cs i = Some c /\ nth_error es i = Some e
    /\ worker_of (child_lb lb' ub' (zlen cs) i) (child_ub lb' ub' (zlen cs) i) c w
    /\ get_employee_responsible_for lb' (node_step lb' ub' (Node cs)) es w = Ok e.
Proof. exact @routing_child. Qed.

Theorem C07_routing_leaf : forall (E : Type) lb ub t lb' ub' n (es : list E),
  wf lb ub t -> subnode lb ub t lb' ub' (Leaf n) -> length es = n ->
  (forall i e, nth_error es i = Some e ->
     is_my_worker lb' sw_step_size (Z.of_nat n) (sw_w_id lb' (Z.of_nat i)) = true
     /\ get_employee_responsible_for lb' sw_step_size es (sw_w_id lb' (Z.of_nat i)) = Ok e
     /\ lb' <= sw_w_id lb' (Z.of_nat i) < ub')
  /\ (forall w, is_my_worker lb' sw_step_size (Z.of_nat n) w = true -> exists i, (i < n)%nat /\ w = sw_w_id lb' (Z.of_nat i)).
Proof. exact @routing_leaf. Qed.

Theorem C07_routing_client : forall lb ub t lb' ub' t',
  wf lb ub t -> 0 <= lb -> subnode lb ub t lb' ub' t' -> node_is_my_worker lb' ub' t' (-1) = false.
Proof. exact routing_client. Qed.

Example C07_routing_nonvacuous :
  wf server_lower_id_bound server_upper_id_bound ex_tree
  /\ worker_of server_lower_id_bound server_upper_id_bound ex_tree 536870914
  /\ node_is_my_worker server_lower_id_bound server_upper_id_bound ex_tree 536870914 = true
  /\ get_employee_responsible_for server_lower_id_bound (node_step server_lower_id_bound server_upper_id_bound ex_tree) [10; 20] 536870914 = Ok 20.
Proof. split; [exact ex_wf|split; [exact ex_worker|split; reflexivity]]. Qed.
