(* C16 (PassData / Circuit field half) - copy() and become() are total in every field.
   Statements only; the records, the functions and the proofs are GENERATED from the method
   bodies by harness/gen/gen_fields.py (gen/PassDataFields.v, gen/CircuitFields.v).  The file
   stops compiling the moment a field assigned in Circuit.__init__ is not copied by
   Circuit.copy/become or a PassData field is not copied by PassData.copy; PassData.become is
   covered by a verdict that holds in both states of finding D3. *)
From Coq Require Import List String Bool.
Import ListNotations.
From BQ Require Import gen.PassDataFields gen.CircuitFields.

Theorem C16_circuit_become_total :
  forall (V : Type) (s o : circuitf V), cf_become_deep s o = o /\ cf_become_shallow s o = o.
Proof. exact cf_become_total. Qed.

Theorem C16_circuit_copy_total : forall (V : Type) (o : circuitf V), cf_copy o = o.
Proof. exact cf_copy_total. Qed.

Theorem C16_passdata_copy_total : forall (V : Type) (o : passdata V), pd_copy o = o.
Proof. exact pd_copy_total. Qed.

(* PassData.become: total in every field, or - while D3 is open - a concrete pair of records
   (all fields of the receiver false, all fields of the source true) on which it is not *)
Theorem C16_passdata_become_verdict :
  if pd_become_is_total
  then forall (V : Type) (s o : passdata V), pd_become_deep s o = o /\ pd_become_shallow s o = o
  else exists s o : passdata bool, pd_become s o <> o.
Proof. exact pd_become_verdict. Qed.

(* the flag is not a free choice: it is true exactly when no field is missing *)
Theorem C16_passdata_become_flag :
  pd_become_is_total = match pd_become_missing with [] => true | _ => false end.
Proof. reflexivity. Qed.

(* PassData.update(other) writes every field: all reserved fields from `other`, user data merged *)
Theorem C16_passdata_update_total :
  forall (V : Type) (merge : V -> V -> V) (s o : passdata V),
    pd_update merge s o = pd_copy_with_data o (merge (pd_data s) (pd_data o)).
Proof. exact pd_update_total. Qed.

(* Circuit.clear() = the freshly constructed circuit with the same num_qudits / radixes *)
Theorem C16_circuit_clear_is_fresh :
  forall (V : Type) (fresh self : circuitf V),
    cf_num_qudits fresh = cf_num_qudits self -> cf_radixes fresh = cf_radixes self ->
    cf_clear fresh self = fresh.
Proof. exact cf_clear_is_fresh. Qed.

Example C16_fields_nonvacuous :
  In "_initial_mapping"%string pd_fields /\ In "_dag"%string cf_fields
  /\ pd_copy (pd_const 3) = pd_const 3 /\ cf_become (cf_const 1) (cf_const 2) = cf_const 2.
Proof. repeat split; simpl; auto 10. Qed.
