(* C13 - task failures reach their client; no client request takes the server down.
   Statements only, closed by `exact`; proofs live in rt/ServerThm.v.

   Model: rt/ServerM.v (DetachedServer tables + handlers of bqskit/runtime/detached.py).
   `run Cur` = the code before fixes/D4.patch, `run (Fix false)` = the code with fixes/D4.patch
   (commit 1a66c34), `run (Fix true)` = additionally fixes/C13-D15.patch (a cancelled task is removed
   from tasks / mailbox_to_task_dict too, so late ERROR / LOG messages for it are dropped; in the
   specification `sstep true` the cancelled task is forgotten at once).  Which of the three the
   implementation corresponds to is determined on every check by the co-simulation of
   harness/props/c13.py.  The theorems hold for both repaired variants (`forall dc`).  An exception that reaches ServerBase.run
   (=> handle_system_error + shutdown of the whole runtime) is the output OCrash. *)
From Coq Require Import List Arith Bool.
Import ListNotations.
From BQ Require Import rt.ServerM rt.ServerThm rt.ServerCur rt.ServerSend rt.ErrTree rt.ErrTreeThm.
From Coq Require Import Permutation.

(* ------------------------------------------------------------ tables invariant *)
(* For every well-formed event list (any number of clients; requests naming ANY id; RESULT /
   ERROR / LOG from below naming any mailbox), the server tables are key by key what the per-task
   state machine says:  tasks[t] exists iff t is not Unknown and then holds (mailbox, owner);
   mailbox_to_task_dict[mb] = the task of mb;  mailboxes[mb] exists iff that task is Running
   (result None, client_waiting as in the spec) or Done v (result v);  clients[c] exists iff c is
   connected and is the set of c's Running/Done ids;  closed connections are never `connected`. *)
Theorem C13_tables_inv : forall dc es, wf_run dc spec0 es = true ->
  Inv (fst (run (Fix dc) init es)) (fst (srun dc spec0 es)).
Proof. exact tables_inv. Qed.

(* -------------------------------------------------------------------- refinement *)
(* every answer of every event equals the specification's answer, no handler raises, and the
   server is still running afterwards *)
Theorem C13_requests_refine : forall dc es, wf_run dc spec0 es = true ->
  map answers (snd (run (Fix dc) init es)) = snd (srun dc spec0 es)
  /\ ~ In OCrash (concat (snd (run (Fix dc) init es)))
  /\ up (fst (run (Fix dc) init es)) = true.
Proof. exact requests_refine. Qed.

(* D4: the same statement is FALSE for the code before fixes/D4.patch: status after the result was fetched *)
Definition C13_requests_refine_current_full : Prop := forall es, wf_run false spec0 es = true ->
  map answers (snd (run Cur init es)) = snd (srun false spec0 es)
  /\ ~ In OCrash (concat (snd (run Cur init es))).

Theorem C13_requests_refine_refuted :
  exists es, (forall dc, wf_run dc spec0 es = true) /\ In OCrash (concat (snd (run Cur init es))).
Proof.
  exists [Connect 0; Submit 0 0; Result 0 7; Request 0 0; Status 0 0].
  split; [intros []; vm_compute; reflexivity|vm_compute; tauto].
Qed.

(* What does hold for the code before the patch: on every well-formed history in which status / cancel
   name only open tasks of the requesting client (`d4_free`; result requests for any id, disconnects and
   RESULT / ERROR / LOG from below are unrestricted) it behaves exactly like the code with D4.patch - same
   states, same outputs - hence answers as the specification says, never raises, keeps the invariant. *)
Theorem C13_requests_refine_partial : forall es, wf_run false spec0 es = true -> d4_free spec0 es = true ->
  run Cur init es = run (Fix false) init es
  /\ map answers (snd (run Cur init es)) = snd (srun false spec0 es)
  /\ ~ In OCrash (concat (snd (run Cur init es)))
  /\ Inv (fst (run Cur init es)) (fst (srun false spec0 es)).
Proof. exact current_refines_partial. Qed.

(* ... and the crash takes every other client's work with it: client 1 never gets an answer again *)
Theorem C13_other_clients_lose_work_refuted :
  exists es, wf_run false spec0 es = true
    /\ snd (srun false spec0 es) <> map answers (snd (run Cur init es))
    /\ last (snd (srun false spec0 es)) [] = [OResult 1 3]
    /\ last (snd (run Cur init es)) [OCrash] = [].
Proof.
  exists [Connect 0; Connect 1; Submit 1 5; Submit 0 0; Result 1 7; Request 0 0; Cancel 0 0; Result 0 3; Request 1 5].
  vm_compute. repeat split; congruence.
Qed.

(* -------------------------------------------------------------------- isolation *)
(* A request (result / status / cancel) by client c naming an id that is not an open task of c -
   another client's task in any state, an unknown id, or an own finished / cancelled one - gets the
   `unknown` answer, every answer goes to c only, and whatever the server holds for every other
   client (its set of open ids, its tasks entries, their mailbox_to_task and mailbox entries) is the
   same before and after. *)
Theorem C13_isolation : forall dc es e c t, wf_run dc spec0 (es ++ [e]) = true -> is_request e c t ->
  own_open (fst (srun dc spec0 es)) c t = false ->
  answers (snd (step (Fix dc) (fst (run (Fix dc) init es)) e)) = unknown_answer e
  /\ (forall o, In o (answers (snd (step (Fix dc) (fst (run (Fix dc) init es)) e))) -> dest o = Some c)
  /\ untouched c (fst (run (Fix dc) init es)) (fst (step (Fix dc) (fst (run (Fix dc) init es)) e)).
Proof. exact isolation. Qed.

(* another client's id is such an id *)
Theorem C13_foreign_is_not_own : forall sp c t, owner sp t <> c -> own_open sp c t = false.
Proof.
  intros. unfold own_open. apply Nat.eqb_neq in H. rewrite H. apply andb_false_r.
Qed.

(* the code before the patch: client 1 cancels client 0's running task; the acknowledgement goes to client 0 *)
Theorem C13_isolation_refuted :
  exists es e c t, wf_run false spec0 (es ++ [e]) = true /\ is_request e c t
    /\ owner (fst (srun false spec0 es)) t <> c
    /\ answers (snd (step Cur (fst (run Cur init es)) e)) <> unknown_answer e
    /\ get 0 (clients (fst (run Cur init es))) <> get 0 (clients (fst (step Cur (fst (run Cur init es)) e))).
Proof.
  exists [Connect 0; Connect 1; Submit 0 0], (Cancel 1 0), 1, 0.
  unfold is_request. vm_compute. repeat split; try tauto; congruence.
Qed.

(* ------------------------------------------------------------ error forwarding *)
(* ERROR (mb, m) from below, in any reachable state: the tables do not change (the error is not
   turned into a result), and the only output is ERROR m to the connection stored in `tasks` for the
   compilation id mailbox_to_task_dict[mb] - which is the connection that submitted it, still
   connected; for a mailbox that is not (or no longer) known there is no output. *)
Theorem C13_error_forwarded : forall dc es mb m, wf_run dc spec0 es = true ->
  step (Fix dc) (fst (run (Fix dc) init es)) (Error mb m) =
    (fst (run (Fix dc) init es),
     match get mb (m2t (fst (run (Fix dc) init es))) with
     | Some t => match get t (tasks (fst (run (Fix dc) init es))) with
                 | Some (_, c) => [OError c m]
                 | None => [] end
     | None => [] end)
  /\ (forall t, get mb (m2t (fst (run (Fix dc) init es))) = Some t ->
        get t (tasks (fst (run (Fix dc) init es))) = Some (mb, owner (fst (srun dc spec0 es)) t)
        /\ known (st (fst (srun dc spec0 es)) t) = true
        /\ cst (fst (srun dc spec0 es)) (owner (fst (srun dc spec0 es)) t) = CConnected).
Proof. exact error_forwarded. Qed.

(* never a wrong result: a RESULT answer to c carries the value of a RESULT message from below for
   a task that c submitted - either arriving now while c waits, or stored earlier (TDone v) *)
Theorem C13_result_provenance : forall dc es e c v, wf_run dc spec0 (es ++ [e]) = true ->
  In (OResult c v) (snd (step (Fix dc) (fst (run (Fix dc) init es)) e)) ->
  (exists mb t, e = Result mb v /\ tom (fst (srun dc spec0 es)) mb = Some t
                /\ owner (fst (srun dc spec0 es)) t = c /\ st (fst (srun dc spec0 es)) t = TRunning true)
  \/ (exists t, e = Request c t /\ owner (fst (srun dc spec0 es)) t = c /\ st (fst (srun dc spec0 es)) t = TDone v).
Proof. exact result_provenance. Qed.

Theorem C13_done_value : forall dc sp e t v, st (fst (sstep dc sp e)) t = TDone v ->
  st sp t = TDone v \/ exists mb, e = Result mb v /\ tom sp mb = Some t.
Proof. exact done_value_spec. Qed.

(* the client raises on ERROR and drops its connection (checked on the real Compiler by the
   harness); after the server has seen that disconnect nothing - in particular no RESULT - is
   addressed to that connection any more *)
Theorem C13_silence_after_disconnect : forall dc es1 es2 c,
  wf_run dc spec0 (es1 ++ Disconnect c :: es2) = true ->
  forall o, In o (concat (snd (run (Fix dc) (fst (run (Fix dc) init (es1 ++ [Disconnect c]))) es2))) -> dest o <> Some c.
Proof. exact silence_after_disconnect. Qed.

(* with fixes/C13-D15.patch (dc = true) a cancelled compilation is forgotten at once: an ERROR / LOG
   that arrives for it later produces no output (specification level: its mailbox is unknown) *)
Theorem C13_cancelled_forgotten : forall sp c t, own_open sp c t = true ->
  tom (fst (sstep true sp (Cancel c t))) (mbx sp t) = None
  /\ st (fst (sstep true sp (Cancel c t))) t = TUnknown.
Proof.
  intros sp c t O. simpl. rewrite O. simpl. unfold upd. rewrite !Nat.eqb_refl. auto.
Qed.

(* ------------------------------------------------------- the sender thread *)
(* ServerBase.send_outgoing (rt/ServerSend.v): with the `if outgoing[0].closed: continue` test the
   node's only sender thread survives every queue; what it writes is exactly the queued messages
   for connections that are open, in queue order (so every later answer to another client still
   goes out); a message for a connection this node has closed is skipped and changes nothing. *)
Theorem C13_sender_never_stops : forall q sd, alive sd = true -> alive (send_all true sd q) = true.
Proof. exact sender_never_stops. Qed.

Theorem C13_sender_sends_open_in_order : forall q sd, alive sd = true ->
  sent (send_all true sd q) = sent sd ++ filter (fun m => ServerSend.is_open (conn sd (fst m))) q.
Proof. exact sent_is_filter. Qed.

Theorem C13_closed_is_skipped : forall sd m, alive sd = true -> conn sd (fst m) = CLocal ->
  send_step true sd m = sd.
Proof. exact closed_is_skipped. Qed.

(* without the test one message for a locally closed connection kills the sender (OSError is not
   caught) and a later message for an open connection is never written *)
Theorem C13_sender_without_guard_refuted :
  exists sd q m, alive sd = true /\ In m q /\ conn sd (fst m) = COpen
    /\ alive (send_all false sd q) = false /\ ~ In m (sent (send_all false sd q)).
Proof. exact sender_without_guard_refuted. Qed.

Example C13_sender_nonvacuous :
  let sd := mkSender true (fun c => match c with 0 => CLocal | 1 => CPeerGone | _ => COpen end) [] [] in
  sent (send_all true sd [(0, 1); (2, 2); (1, 3); (3, 4); (1, 5); (2, 6)]) = [(2, 2); (3, 4); (2, 6)]
  /\ dropped (send_all true sd [(0, 1); (2, 2); (1, 3); (3, 4); (1, 5); (2, 6)]) = [1]
  /\ alive (send_all true sd [(0, 1); (2, 2); (1, 3); (3, 4); (1, 5); (2, 6)]) = true.
Proof. vm_compute. tauto. Qed.

(* ------------------------------------------------------------------ non-vacuity *)
Definition ex_hist : list event :=
  [Connect 0; Connect 1; Submit 0 0; Submit 1 1; Submit 0 2; Error 1 9; Status 0 0; Request 0 0;
   Result 0 4; Status 0 0; Cancel 0 0; Status 1 0; Cancel 1 0; Result 1 6; Status 1 1; Cancel 0 2;
   Result 2 5; Connect 2; Request 2 1; Request 1 1; Status 1 1; Error 1 8; Disconnect 0; Log 2 1].

(* the hypotheses are satisfiable by a three-client history that visits all five states, and the
   conclusions are not trivially empty: the answers are these (same in both repaired variants) *)
Example C13_refine_nonvacuous : forall dc,
  wf_run dc spec0 ex_hist = true
  /\ map answers (snd (run (Fix dc) init ex_hist)) =
     [[]; []; []; []; []; [OError 1 9]; [OStatus 0 RUNNING]; []; [OResult 0 4]; [OStatus 0 UNKNOWN];
      [OCancelAck 0]; [OStatus 1 UNKNOWN]; [OCancelAck 1]; []; [OStatus 1 DONE]; [OCancelAck 0]; [];
      []; [OErrUnknown 2]; [OResult 1 6]; [OStatus 1 UNKNOWN]; [OError 1 8]; []; []]
  /\ tasks (fst (run (Fix dc) init ex_hist)) = [(1, (1, 1))].
Proof. intros []; vm_compute; repeat split. Qed.

(* the two repaired variants differ exactly on late messages for a cancelled compilation *)
Example C13_variants_differ :
  map answers (snd (run (Fix false) init [Connect 0; Submit 0 0; Cancel 0 0; Error 0 5; Log 0 1; Status 0 0]))
    = [[]; []; [OCancelAck 0]; [OError 0 5]; [OLog 0 1]; [OStatus 0 UNKNOWN]]
  /\ map answers (snd (run (Fix true) init [Connect 0; Submit 0 0; Cancel 0 0; Error 0 5; Log 0 1; Status 0 0]))
    = [[]; []; [OCancelAck 0]; []; []; [OStatus 0 UNKNOWN]]
  /\ tasks (fst (run (Fix true) init [Connect 0; Submit 0 0; Cancel 0 0])) = []
  /\ m2t (fst (run (Fix true) init [Connect 0; Submit 0 0; Cancel 0 0])) = [].
Proof. vm_compute. repeat split. Qed.

Example C13_partial_nonvacuous :
  d4_free spec0 [Connect 0; Connect 1; Submit 0 0; Submit 1 1; Status 0 0; Request 1 0; Result 0 4; Status 0 0;
                 Request 0 0; Request 0 0; Error 1 3] = true
  /\ wf_run false spec0 [Connect 0; Connect 1; Submit 0 0; Submit 1 1; Status 0 0; Request 1 0; Result 0 4; Status 0 0;
                   Request 0 0; Request 0 0; Error 1 3] = true
  /\ d4_free spec0 [Connect 0; Submit 0 0; Result 0 7; Request 0 0; Status 0 0] = false.
Proof. vm_compute. tauto. Qed.

Example C13_isolation_nonvacuous : forall dc,
  wf_run dc spec0 ([Connect 0; Connect 1; Submit 0 0] ++ [Cancel 1 0]) = true
  /\ is_request (Cancel 1 0) 1 0
  /\ own_open (fst (srun dc spec0 [Connect 0; Connect 1; Submit 0 0])) 1 0 = false
  /\ step (Fix dc) (fst (run (Fix dc) init [Connect 0; Connect 1; Submit 0 0])) (Cancel 1 0)
     = (fst (run (Fix dc) init [Connect 0; Connect 1; Submit 0 0]), [OCancelAck 1]).
Proof. unfold is_request. intros []; vm_compute; tauto. Qed.

Example C13_error_nonvacuous : forall dc,
  wf_run dc spec0 [Connect 0; Connect 1; Submit 1 3] = true
  /\ snd (step (Fix dc) (fst (run (Fix dc) init [Connect 0; Connect 1; Submit 1 3])) (Error 0 5)) = [OError 1 5]
  /\ snd (step (Fix dc) (fst (run (Fix dc) init [Connect 0; Connect 1; Submit 1 3])) (Error 4 5)) = [].
Proof. intros []; vm_compute; tauto. Qed.

Example C13_silence_nonvacuous : forall dc,
  wf_run dc spec0 ([Connect 0; Submit 0 0; Request 0 0; Error 0 2] ++ Disconnect 0 :: [Result 0 1; Error 0 3]) = true
  /\ snd (run (Fix dc) (fst (run (Fix dc) init ([Connect 0; Submit 0 0; Request 0 0; Error 0 2] ++ [Disconnect 0])))
               [Result 0 1; Error 0 3]) = [[]; []].
Proof. intros []; vm_compute; tauto. Qed.

(* --------------------------------------- errors at depth: the way up through managers *)
(* rt/ErrTree.v: workers anywhere in a tree of Managers of any shape and depth send ERROR / LOG
   (comp_task_id, text); every Manager forwards them unchanged to its boss; the server handles them
   with the handlers above; client requests and RESULTs are interleaved arbitrarily (NSrv), links are
   FIFO, any interleaving between links.  All theorems: every event list, any number of clients. *)

(* nothing is lost, duplicated, altered or invented on the way up *)
Theorem C13_tree_conservation : forall v es,
  Permutation (raised es) (map snd (chan (fst (nrun v net0 es))) ++ below (fst (nrun v net0 es))).
Proof. exact conservation. Qed.

(* the server inside the net is the server model run on the events it was handed *)
Theorem C13_tree_server_is_run : forall v es,
  srv (fst (nrun v net0 es)) = fst (run v init (hist (fst (nrun v net0 es))))
  /\ concat (snd (nrun v net0 es)) = concat (snd (run v init (hist (fst (nrun v net0 es))))).
Proof. exact net_server_is_run. Qed.

(* never a hang on the way up: every read moves a message one hop closer to the server, and from
   every reachable state `weight` reads (no further worker activity) empty all links *)
Theorem C13_tree_deliver_decreases : forall v n p u ch', links_ok (chan n) -> take_first p (chan n) = Some (u, ch') ->
  S (weight (chan (fst (nstep v n (NDeliver p))))) = weight (chan n).
Proof. exact deliver_decreases. Qed.

Theorem C13_tree_drain : forall v es,
  exists ds, Forall is_deliver ds /\ length ds = weight (chan (fst (nrun v net0 es)))
             /\ chan (fst (nrun v net0 (es ++ ds))) = [] /\ raised (es ++ ds) = raised es.
Proof. exact drain_reachable. Qed.

(* an exception caught by a worker anywhere in the tree, for a compilation with id mb: once the links
   are drained the server has handled ERROR (mb, m) with exactly that text; handling it changed no
   table and its only output was ERROR m to the connection that submitted that compilation (still
   connected) - or nothing when the compilation is no longer known (client gone / cancelled) *)
Theorem C13_tree_error_reaches_owner : forall dc es,
  wf_run dc spec0 (hist (fst (nrun (Fix dc) net0 es))) = true ->
  forall mb m, In (KErr, mb, m) (raised es) -> chan (fst (nrun (Fix dc) net0 es)) = [] ->
  exists h1 h2, hist (fst (nrun (Fix dc) net0 es)) = h1 ++ Error mb m :: h2
    /\ wf_run dc spec0 h1 = true
    /\ step (Fix dc) (fst (run (Fix dc) init h1)) (Error mb m) =
         (fst (run (Fix dc) init h1),
          match tom (fst (srun dc spec0 h1)) mb with
          | Some t => [OError (owner (fst (srun dc spec0 h1)) t) m]
          | None => [] end)
    /\ (forall t, tom (fst (srun dc spec0 h1)) mb = Some t ->
          cst (fst (srun dc spec0 h1)) (owner (fst (srun dc spec0 h1)) t) = CConnected).
Proof. exact error_reaches_owner. Qed.

(* never to another client: every ERROR output of the whole run is the forwarding of an ERROR event
   (mb, m) handled by the server, text unchanged, addressed to the owner of mb's compilation *)
Theorem C13_tree_error_only_to_owner : forall dc es,
  wf_run dc spec0 (hist (fst (nrun (Fix dc) net0 es))) = true ->
  forall c m, In (OError c m) (concat (snd (nrun (Fix dc) net0 es))) ->
  exists h1 h2 mb t, hist (fst (nrun (Fix dc) net0 es)) = h1 ++ Error mb m :: h2
    /\ tom (fst (srun dc spec0 h1)) mb = Some t /\ owner (fst (srun dc spec0 h1)) t = c.
Proof. exact error_only_to_owner. Qed.

(* ... and the server stays able to serve *)
Theorem C13_tree_server_stays_up : forall dc es,
  wf_run dc spec0 (hist (fst (nrun (Fix dc) net0 es))) = true ->
  up (srv (fst (nrun (Fix dc) net0 es))) = true /\ ~ In OCrash (concat (snd (nrun (Fix dc) net0 es))).
Proof. exact net_server_stays_up. Qed.

(* two clients, a depth-3 tree: client 1's task raises on worker [2;0;1] (below manager [0;1] below
   manager [1]) while client 0's LOG travels on another branch; only client 1 gets ERROR 9 *)
Definition ex_net : list nev :=
  [NSrv (Connect 0); NSrv (Connect 1); NSrv (Submit 0 0); NSrv (Submit 1 1);
   NRaise [2; 0; 1] KErr 1 9; NRaise [0; 0] KLog 0 4; NDeliver [2; 0; 1]; NDeliver [0; 0]; NDeliver [0; 1];
   NSrv (Request 0 0); NDeliver [0]; NDeliver [1]; NSrv (Result 0 5)].
Example C13_tree_nonvacuous : forall dc,
  wf_run dc spec0 (hist (fst (nrun (Fix dc) net0 ex_net))) = true
  /\ chan (fst (nrun (Fix dc) net0 ex_net)) = []
  /\ In (KErr, 1, 9) (raised ex_net)
  /\ map answers (snd (nrun (Fix dc) net0 ex_net)) =
     [[]; []; []; []; []; []; []; []; []; []; [OLog 0 4]; [OError 1 9]; [OResult 0 5]].
Proof. intros []; vm_compute; repeat split; auto. Qed.

(* ------------------------------------------------------------------ the client side *)
(* rt/ClientM.v: Compiler._send_recv / _recv_log_error_until_empty / _recv_handle_log_error and the
   type checks of status / result / cancel (bqskit/compiler/compiler.py).  `fixed = false` is the code
   as it is (finding C13-LOGDRAIN), `fixed = true` the code with fixes/C13-LOGDRAIN.patch; k1 / k2 =
   how many messages have already arrived when the two `while conn.poll()` loops look. *)
From BQ Require rt.ClientM rt.ClientThm.

(* result() returns the RESULT that answers its own request (round trip: the first non-LOG message
   after the send), whatever LOGs surround it; the connection stays open *)
Theorem C13_client_result_returns_own_result : forall fixed k1 k2 l0 l1 v rest,
  (fixed = false -> k1 = 0 \/ l0 = []) ->
  forallb ClientM.is_log (firstn k2 rest) = true ->
  ClientM.call fixed ClientM.CResult k1 k2 (true, map ClientM.MLog l0) [] (map ClientM.MLog l1 ++ ClientM.MResult v :: rest)
  = (ClientM.Ret (ClientM.VResult v), l0 ++ l1 ++ ClientM.logs_of (firstn k2 rest), (true, skipn k2 rest)).
Proof. exact ClientThm.result_returns_own_result. Qed.

Theorem C13_client_call_returns_own_answer : forall fixed kd k1 k2 l0 l1 a rest,
  kd <> ClientM.CSubmit -> (fixed = false -> k1 = 0 \/ l0 = []) -> ClientM.is_ans a = true ->
  forallb ClientM.is_log (firstn k2 rest) = true ->
  ClientM.call fixed kd k1 k2 (true, map ClientM.MLog l0) [] (map ClientM.MLog l1 ++ a :: rest)
  = (ClientM.answer kd a, l0 ++ l1 ++ ClientM.logs_of (firstn k2 rest), (true, skipn k2 rest)).
Proof. exact ClientThm.call_returns_own_answer. Qed.

(* a forwarded ERROR that is the first non-LOG message in the pipe makes the call raise with that
   message - never a value - and drops the connection; every later call raises `no connection` *)
Theorem C13_client_error_raises : forall kd k1 k2 q pre post l m rest,
  kd <> ClientM.CSubmit -> (q ++ pre) ++ post = map ClientM.MLog l ++ ClientM.MErr m :: rest ->
  exists lg q', ClientM.call true kd k1 k2 (true, q) pre post = (ClientM.RaiseErr m, lg, (false, q')).
Proof. exact ClientThm.error_raises. Qed.

Theorem C13_client_closed_stays_closed : forall fixed q cs,
  fst (ClientM.run fixed (false, q) cs) = map (fun _ => (ClientM.RaiseNoConn, [])) cs.
Proof. exact ClientThm.run_after_close. Qed.

(* repaired drain: LOG messages anywhere in the pipe change only the emitted log list *)
Theorem C13_client_log_transparent : forall kd k1 k2 op q pre post o lg op' q',
  ClientM.call true kd k1 k2 (op, q) pre post = (o, lg, (op', q')) ->
  exists k1' k2', ClientM.call true kd k1' k2' (op, ClientM.strip q) (ClientM.strip pre) (ClientM.strip post)
                  = (o, [], (op', ClientM.strip q')).
Proof. exact ClientThm.log_transparent. Qed.

(* the code as it is: one LOG that has arrived before the next call kills the connection although the
   correct RESULT follows (finding C13-LOGDRAIN) *)
Theorem C13_client_pending_log_refuted :
  exists l v,
    ClientM.call false ClientM.CResult 1 0 (true, []) [ClientM.MLog l] [ClientM.MResult v]
      = (ClientM.RaiseClosed ClientM.CAttr, [], (false, []))
    /\ ClientM.call true ClientM.CResult 1 0 (true, []) [ClientM.MLog l] [ClientM.MResult v]
      = (ClientM.Ret (ClientM.VResult v), [l], (true, [])).
Proof. exact ClientThm.pending_log_refuted. Qed.

Example C13_client_nonvacuous :
  ClientM.call true ClientM.CResult 1 2 (true, [ClientM.MLog 1; ClientM.MLog 2]) []
    [ClientM.MLog 3; ClientM.MResult 7; ClientM.MLog 4; ClientM.MLog 5; ClientM.MStatus 1]
  = (ClientM.Ret (ClientM.VResult 7), [1; 2; 3; 4; 5], (true, [ClientM.MStatus 1])).
Proof. exact ClientThm.ex_own_answer. Qed.
